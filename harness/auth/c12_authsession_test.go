//go:build verif

package auth

// C12 binding: replays TLC-generated behaviours of specs/AuthSession on a real Authenticator over Rosmar
// (bcrypt MinCost) and records, after every step, the real outcome of the call and the projection of the real
// state (user documents, session documents, verified-password cache, presenter control points).
// Concurrent presentations of one session are forced through a gating decorator around the datastore:
// every storage operation of a presenter (Get session | Set session = TTL refresh | Update(user, cancel) | Delete session) waits for the
// scheduler, so the behaviour's interleaving is the one executed.  No property is asserted here.

import (
	"context"
	"encoding/json"
	"fmt"
	"net/http"
	"net/http/httptest"
	"os"
	"strings"
	"sync"
	"testing"
	"time"

	sgbucket "github.com/couchbase/sg-bucket"
	"github.com/couchbase/sync_gateway/base"
	"golang.org/x/crypto/bcrypt"
)

const vC12K = 3 // presenters in the trace configuration (Trace_AuthSession_*.cfg: Presenters = {1,2,3})

type vC12Step struct {
	A    string `json:"a"`
	U    string `json:"u"`
	P    string `json:"p"`
	S    string `json:"s"`
	One  bool   `json:"one"`
	Pr   any    `json:"pr"`
	Kind string `json:"kind"`
}
type vC12Beh struct {
	Store string     `json:"store"` // "" / "raw": the test bucket as it is; "contract": with vC12Contract around it
	Steps []vC12Step `json:"steps"`
}

// ---- gate -----------------------------------------------------------------------------------------------

type vC12Evt struct {
	op   string // "PGetS" | "PGetU" | "PDel" | "PSet" | "fin"
	ok   bool
	who  string
	errs string
}

type vC12Presenter struct {
	id      int
	s, kind string
	at      chan vC12Evt  // presenter -> scheduler: arrived at a storage operation / finished
	goOn    chan struct{} // scheduler -> presenter: perform it
	pc      string
	seen    *LoginSession // session document as returned to this presenter by the store
	next    string        // operation it is blocked at
}

type vC12Gate struct {
	base.DataStore
	p *vC12Presenter
}

func (g *vC12Gate) wait(op string) {
	g.p.at <- vC12Evt{op: op}
	<-g.p.goOn
}

func (g *vC12Gate) Get(ctx context.Context, k string, rv any) (uint64, error) {
	g.wait("PGetS")
	cas, err := g.DataStore.Get(ctx, k, rv)
	if ls, ok := rv.(*LoginSession); ok && err == nil {
		cp := *ls
		g.p.seen = &cp
	}
	return cas, err
}

func (g *vC12Gate) Update(ctx context.Context, k string, exp uint32, cb sgbucket.UpdateFunc) (uint64, error) {
	g.wait("PGetU")
	return g.DataStore.Update(ctx, k, exp, cb)
}

func (g *vC12Gate) Delete(ctx context.Context, k string) error {
	g.wait("PDel")
	return g.DataStore.Delete(ctx, k)
}

// the TTL refresh since fix b081bb5: compare-and-swap against the session document that was read
func (g *vC12Gate) WriteCas(ctx context.Context, k string, exp uint32, cas uint64, v any, opt sgbucket.WriteOptions) (uint64, error) {
	g.wait("PSet")
	return g.DataStore.WriteCas(ctx, k, exp, cas, v, opt)
}

func (g *vC12Gate) Set(ctx context.Context, k string, exp uint32, opts *sgbucket.UpsertOptions, v any) error {
	g.wait("PSet")
	return g.DataStore.Set(ctx, k, exp, opts, v)
}

// vC12Contract imposes the documented contract of KVStore.Delete ("returns an error if the document doesn't exist or
// has no value" - what Couchbase Server does) on a store that does not honour it (rosmar tombstones an already
// deleted document again and reports success).  Selected with VERIF_C12_STORE=contract.
type vC12Contract struct {
	base.DataStore
	mu sync.Mutex
}

func (c *vC12Contract) Delete(ctx context.Context, k string) error {
	c.mu.Lock()
	defer c.mu.Unlock()
	if raw, _, err := c.DataStore.GetRaw(ctx, k); err != nil || raw == nil {
		return sgbucket.MissingError{Key: k}
	}
	return c.DataStore.Delete(ctx, k)
}

// ---- world ----------------------------------------------------------------------------------------------

type vC12World struct {
	t      *testing.T
	ctx    context.Context
	ds     base.DataStore
	bi     int
	pw     map[string]string // model password -> concrete string
	wrongs []string          // concrete strings standing for "wrong"
	sid    map[string]string // slot -> real session id
	epoch  map[string]int    // SessionUUID -> small id (first appearance)
	hpw    map[string]string // bcrypt hash -> model password it verifies under the full check
	pres   [vC12K]*vC12Presenter
	wrongI int
}

func (w *vC12World) auth(ds base.DataStore) *Authenticator {
	opts := DefaultAuthenticatorOptions(w.ctx)
	opts.BcryptCost = bcrypt.MinCost
	return NewAuthenticator(ds, nil, opts)
}
func (w *vC12World) name(u string) string { return fmt.Sprintf("b%d%s", w.bi, u) }
func (w *vC12World) model(name string) string {
	pre := fmt.Sprintf("b%d", w.bi)
	if strings.HasPrefix(name, pre) {
		return name[len(pre):]
	}
	return "?" + name
}
func (w *vC12World) eid(uuid string) int {
	if uuid == "" {
		return 0
	}
	if id, ok := w.epoch[uuid]; ok {
		return id
	}
	w.epoch[uuid] = len(w.epoch) + 1
	return w.epoch[uuid]
}
func (w *vC12World) concrete(p string) string {
	if p == "wrong" {
		w.wrongI++
		return w.wrongs[w.wrongI%len(w.wrongs)]
	}
	return w.pw[p]
}
func (w *vC12World) sessionID(s string) string {
	if id, ok := w.sid[s]; ok {
		return id
	}
	return fmt.Sprintf("neverissued-%d-%s", w.bi, s) // a slot that was never issued: a guessed id
}

type vC12UserDoc struct {
	Disabled    bool   `json:"disabled"`
	Hash        []byte `json:"passwordhash_bcrypt"`
	SessionUUID string `json:"session_uuid"`
}

// fullCheck: which model password does the stored hash verify, by bcrypt itself (never through the cache)
func (w *vC12World) fullCheck(hash []byte) string {
	if len(hash) == 0 {
		return ""
	}
	if v, ok := w.hpw[string(hash)]; ok {
		return v
	}
	v := "?"
	for _, m := range []string{"p1", "p2"} {
		if bcrypt.CompareHashAndPassword(hash, []byte(w.pw[m])) == nil {
			v = m
			break
		}
	}
	w.hpw[string(hash)] = v
	return v
}

func (w *vC12World) userDoc(u string) (*vC12UserDoc, bool) {
	raw, _, err := w.ds.GetRaw(w.ctx, w.auth(w.ds).DocIDForUser(w.name(u)))
	if err != nil || raw == nil {
		return nil, false
	}
	var d vC12UserDoc
	if err := json.Unmarshal(raw, &d); err != nil {
		w.t.Fatalf("VERIF-FATAL user doc: %v", err)
	}
	return &d, true
}

// projection of the real state into the variables of specs/AuthSession
func (w *vC12World) state(users, slots []string) vObj {
	U, S := vObj{}, vObj{}
	C := [][]string{}
	a := w.auth(w.ds)
	for _, u := range users {
		d, ok := w.userDoc(u)
		if !ok {
			U[u] = vObj{"exists": false, "disabled": false, "hpw": "", "epoch": 0}
			continue
		}
		U[u] = vObj{"exists": true, "disabled": d.Disabled, "hpw": w.fullCheck(d.Hash), "epoch": w.eid(d.SessionUUID)}
		if len(d.Hash) > 0 {
			probe := func(m, c string) bool {
				if cachedHashes.Contains(authKey(d.Hash, []byte(c))) {
					C = append(C, []string{m, u})
					return true
				}
				return false
			}
			probe("p1", w.pw["p1"])
			probe("p2", w.pw["p2"])
			probe("", "")
			for _, c := range w.wrongs {
				if probe("wrong", c) {
					break
				}
			}
		}
	}
	for _, s := range slots {
		var ls LoginSession
		id, issued := w.sid[s]
		if !issued {
			S[s] = vObj{"exists": false, "user": "", "epoch": 0, "oneTime": false, "aged": false}
			continue
		}
		if _, err := w.ds.Get(w.ctx, a.DocIDForSession(id), &ls); err != nil {
			S[s] = vObj{"exists": false, "user": "", "epoch": 0, "oneTime": false, "aged": false}
			continue
		}
		S[s] = vObj{"exists": true, "user": w.model(ls.Username), "epoch": w.eid(ls.SessionUUID), "oneTime": ls.OneTime != nil && *ls.OneTime,
			"aged": vC12Aged(&ls)}
	}
	PC, L := []string{}, []vObj{}
	for _, p := range w.pres {
		if p == nil {
			PC = append(PC, "idle")
			L = append(L, vObj{"s": "", "kind": "", "su": "", "se": 0, "so": false})
			continue
		}
		PC = append(PC, p.pc)
		if (p.pc == "gotSr" || p.pc == "gotS" || p.pc == "gotU") && p.seen != nil {
			L = append(L, vObj{"s": p.s, "kind": p.kind, "su": w.model(p.seen.Username), "se": w.eid(p.seen.SessionUUID),
				"so": p.seen.OneTime != nil && *p.seen.OneTime})
		} else {
			L = append(L, vObj{"s": p.s, "kind": p.kind, "su": "", "se": 0, "so": false})
		}
	}
	return vObj{"U": U, "S": S, "C": C, "PC": PC, "L": L}
}

// vC12Aged: do the stored Expiration / Ttl say that more than 10% of the TTL has elapsed (AuthenticateCookie's refresh test)
func vC12Aged(ls *LoginSession) bool {
	ttl := ls.Ttl
	if ttl == 0 {
		ttl = kDefaultSessionTTL
	}
	return time.Now().Add(ttl).Sub(ls.Expiration) > ttl/10
}

func vC12Res(op, u, p, s string, pr int, ok bool, who string) vObj {
	if !ok {
		who = ""
	}
	return vObj{"op": op, "u": u, "p": p, "s": s, "pr": pr, "ok": ok, "who": who}
}

// present runs one complete presentation of a session id on the given authenticator
func (w *vC12World) present(a *Authenticator, kind, id string) (bool, string, string) {
	var user User
	var err error
	switch kind {
	case "AuthCookie":
		rq, rerr := http.NewRequest(http.MethodGet, "http://localhost/db/", nil)
		if rerr != nil {
			w.t.Fatalf("VERIF-FATAL %v", rerr)
		}
		rq.AddCookie(&http.Cookie{Name: a.SessionCookieName, Value: id})
		user, err = a.AuthenticateCookie(rq, httptest.NewRecorder())
	case "AuthOneTime":
		user, err = a.AuthenticateOneTimeSession(w.ctx, id)
	default:
		w.t.Fatalf("VERIF-FATAL unknown presentation kind %q", kind)
	}
	if err != nil || user == nil {
		return false, "", fmt.Sprint(err)
	}
	return true, w.model(user.Name()), ""
}

// advance lets presenter p perform the storage operation it is blocked at and waits until it is blocked at the
// next one or has finished; returns the operation performed and, if finished, the outcome
func (w *vC12World) advance(p *vC12Presenter) (string, *vC12Evt) {
	done := p.next
	p.goOn <- struct{}{}
	ev := <-p.at
	if ev.op == "fin" {
		p.pc, p.next = "done", ""
		return done, &ev
	}
	p.next = ev.op
	switch ev.op {
	case "PSet":
		p.pc = "gotSr"
	case "PGetU":
		p.pc = "gotS"
	case "PDel":
		p.pc = "gotU"
	default:
		p.pc = "at" + ev.op
	}
	return done, nil
}

func (w *vC12World) begin(q int, s, kind string) *vC12Presenter {
	p := &vC12Presenter{id: q, s: s, kind: kind, at: make(chan vC12Evt), goOn: make(chan struct{}), pc: "idle"}
	w.pres[q-1] = p
	a := w.auth(&vC12Gate{DataStore: w.ds, p: p}) // one Authenticator per request, as dbCtx.Authenticator() does
	id := w.sessionID(s)
	go func() {
		ok, who, errs := w.present(a, kind, id)
		p.at <- vC12Evt{op: "fin", ok: ok, who: who, errs: errs}
	}()
	ev := <-p.at
	if ev.op == "fin" { // finished without touching the store
		p.pc = "done"
		return p
	}
	p.next = ev.op
	return p
}

func TestVerif_C12_AuthSession(t *testing.T) {
	var behs []vC12Beh
	vReadJSON(t, "VERIF_BEH", &behs)
	tw := vOpenTrace(t, "VERIF_TRACE_OUT")
	defer tw.Close()
	ctx := base.TestCtx(t)
	bucket := base.GetTestBucket(t)
	defer bucket.Close(ctx)
	rawDS := bucket.GetSingleDataStore()
	contractDS := &vC12Contract{DataStore: rawDS}
	rnd := vRand()

	// model passwords -> seeded concrete strings (bcrypt: < 72 bytes; NUL-free is not required by Go's bcrypt)
	alphabet := []rune("abcXYZ019 !\"'\\%:@\u00e9\u4e16\U0001F511\t")
	mk := func(n int) string {
		r := make([]rune, n)
		for i := range r {
			r[i] = alphabet[rnd.Intn(len(alphabet))]
		}
		return string(r)
	}
	p1 := mk(1 + rnd.Intn(20))
	p2 := p1
	for p2 == p1 {
		p2 = mk(1 + rnd.Intn(20))
	}
	if rnd.Intn(2) == 0 { // p2 = p1 plus one character: prefix-related passwords
		p2 = p1 + mk(1)
	}
	wrongs := []string{p1 + "x", p1[:len(p1)-1] + "\x00", strings.ToUpper(p1) + "~", " " + p2, p2 + p1, "wrong", "\x00"}
	uniq := wrongs[:0]
	for _, c := range wrongs {
		if c != p1 && c != p2 && c != "" && len(c) < 72 {
			uniq = append(uniq, c)
		}
	}
	wrongs = uniq
	if mb, err := json.Marshal(vObj{"p1": p1, "p2": p2, "wrongs": wrongs}); err == nil { // for the evidence file only
		_ = os.WriteFile(os.Getenv("VERIF_TRACE_OUT")+".meta", mb, 0o644)
	}

	users := []string{"u1", "u2"}
	slots := []string{"s1", "s2"}
	for bi, b := range behs {
		var ds base.DataStore = rawDS
		store := "raw"
		if b.Store == "contract" || (b.Store == "" && os.Getenv("VERIF_C12_STORE") == "contract") {
			ds, store = contractDS, "contract"
		}
		cachedHashes.Purge() // the model starts every behaviour with an empty verified-password cache
		w := &vC12World{t: t, ctx: ctx, ds: ds, bi: bi, pw: map[string]string{"p1": p1, "p2": p2, "": ""}, wrongs: wrongs,
			sid: map[string]string{}, epoch: map[string]int{}, hpw: map[string]string{}, wrongI: rnd.Intn(16)}
		tw.Emit(vObj{"a": "Reset", "beh": bi, "store": store, "level": "auth"})
		emit := func(a string, st vC12Step, res vObj, extra vObj) {
			o := w.state(users, slots)
			o["a"], o["u"], o["p"], o["s"], o["one"], o["pr"], o["kind"], o["res"] = a, st.U, st.P, st.S, st.One, vInt(st.Pr), st.Kind, res
			for k, v := range extra {
				o[k] = v
			}
			tw.Emit(o)
		}
		noRes := vC12Res("none", "", "", "", 0, false, "")
		for _, st := range b.Steps {
			a := w.auth(ds)
			switch st.A {
			case "CreateUser":
				user, err := a.NewUser(w.name(st.U), w.concrete(st.P), base.Set{})
				if err == nil {
					err = a.Save(user)
				}
				emit(st.A, st, vC12Res(st.A, st.U, st.P, "", 0, err == nil, st.U), vObj{"err": fmt.Sprint(err)})
			case "SetPassword", "Disable", "Enable", "DeleteUser":
				user, err := a.GetUser(w.name(st.U))
				if err == nil && user == nil {
					err = fmt.Errorf("no such user")
				}
				if err == nil {
					switch st.A {
					case "SetPassword":
						if err = user.SetPassword(w.concrete(st.P)); err == nil {
							err = a.Save(user)
						}
					case "Disable", "Enable":
						user.SetDisabled(st.A == "Disable")
						err = a.Save(user)
					case "DeleteUser":
						err = a.DeleteUser(user)
					}
				}
				emit(st.A, st, vC12Res(st.A, st.U, st.P, "", 0, err == nil, st.U), vObj{"err": fmt.Sprint(err)})
			case "CreateSession":
				user, err := a.GetUser(w.name(st.U))
				if err == nil && user == nil {
					err = fmt.Errorf("no such user")
				}
				if err == nil {
					var ls *LoginSession
					if ls, err = a.CreateSession(ctx, user, 24*time.Hour, st.One); err == nil {
						w.sid[st.S] = ls.ID
					}
				}
				emit(st.A, st, vC12Res(st.A, st.U, "", st.S, 0, err == nil, st.U), vObj{"err": fmt.Sprint(err)})
			case "DeleteSession":
				err := a.DeleteSession(ctx, w.sessionID(st.S), "")
				emit(st.A, st, vC12Res(st.A, "", "", st.S, 0, true, ""), vObj{"err": fmt.Sprint(err)})
			case "Age": // time passes: the stored session looks as if 20% of its TTL had elapsed (forged like auth/session_test.go does)
				var ls LoginSession
				key := a.DocIDForSession(w.sessionID(st.S))
				_, err := ds.Get(ctx, key, &ls)
				if err == nil {
					ttl := ls.Ttl
					if ttl == 0 {
						ttl = kDefaultSessionTTL
					}
					ls.Expiration = time.Now().Add(ttl - ttl/5)
					err = ds.Set(ctx, key, base.DurationToCbsExpiry(ttl-ttl/5), nil, ls)
				}
				emit(st.A, st, vC12Res(st.A, "", "", st.S, 0, true, ""), vObj{"err": fmt.Sprint(err)})
			case "Expire": // what the store does when the TTL passes
				_ = ds.Delete(ctx, a.DocIDForSession(w.sessionID(st.S)))
				emit(st.A, st, vC12Res(st.A, "", "", st.S, 0, true, ""), nil)
			case "AuthPassword":
				c := w.concrete(st.P)
				hit := false
				if d, ok := w.userDoc(st.U); ok && len(d.Hash) > 0 {
					hit = cachedHashes.Contains(authKey(d.Hash, []byte(c)))
				}
				user, err := a.AuthenticateUser(w.name(st.U), c)
				ok, who := err == nil && user != nil, ""
				if ok {
					who = w.model(user.Name())
				}
				emit(st.A, st, vC12Res(st.A, st.U, st.P, "", 0, ok, who), vObj{"hit": hit, "err": fmt.Sprint(err)})
			case "AuthCookie", "AuthOneTime":
				ok, who, errs := w.present(a, st.A, w.sessionID(st.S))
				emit(st.A, st, vC12Res(st.A, "", "", st.S, 0, ok, who), vObj{"err": errs})
			case "PGetS", "PSet", "PGetU", "PDel":
				q := vInt(st.Pr)
				if q < 1 || q > vC12K {
					t.Fatalf("VERIF-FATAL presenter %d out of range", q)
				}
				p := w.pres[q-1]
				if st.A == "PGetS" {
					if p != nil {
						t.Fatalf("VERIF-FATAL behaviour %d: presenter %d begins twice", bi, q)
					}
					p = w.begin(q, st.S, st.Kind)
				}
				if p == nil {
					t.Fatalf("VERIF-FATAL behaviour %d: presenter %d steps before it began", bi, q)
				}
				w.pstep(p, st, emit, noRes)
			default:
				t.Fatalf("VERIF-FATAL unknown action %q", st.A)
			}
		}
		// presentations the behaviour left in flight run to completion (logged as the steps they really perform)
		for _, p := range w.pres {
			for p != nil && p.pc != "done" {
				w.pstep(p, vC12Step{A: "", S: p.s, Pr: p.id, Kind: p.kind}, emit, noRes)
			}
		}
	}
}

// pstep performs one storage step of a presenter and logs it under the name of the operation really performed
func (w *vC12World) pstep(p *vC12Presenter, st vC12Step, emit func(string, vC12Step, vObj, vObj), noRes vObj) {
	st.S, st.Kind, st.Pr = p.s, p.kind, p.id
	if p.pc == "done" { // finished before the step the behaviour expected (its last logged line says "done"): nothing to perform
		return
	}
	op, fin := w.advance(p)
	if fin != nil {
		emit(op, st, vC12Res(p.kind, "", "", p.s, p.id, fin.ok, fin.who), vObj{"err": fin.errs, "expected": st.A})
	} else {
		emit(op, st, noRes, vObj{"expected": st.A})
	}
}
