//go:build verif

package rest

// C17 system-level binding: real push and pull replications between two RestTesters; every checkpointer event
// (hook H6, emitted under Checkpointer.lock) is recorded and later validated against specs/Checkpointer; with hook H6b
// the push-path events (Offered / Answer / PushBind) are recorded too and the free-running push traces are validated
// against specs/Checkpointer/Trace_PushProtocol as well.

import (
	"fmt"
	"strings"
	"testing"
	"time"

	"github.com/couchbase/sync_gateway/base"
	"github.com/couchbase/sync_gateway/db"
)

func TestVerif_C17_System(t *testing.T) {
	tw := vOpenTrace(t, "VERIF_TRACE_OUT")
	defer tw.Close()
	base.VerifSetSink(func(ev map[string]any) {
		// checkpointer events (H6) and, where hook H6b is present, the push-path protocol events around them
		if obj, _ := ev["obj"].(string); strings.HasPrefix(obj, "*db.Checkpointer") || strings.HasPrefix(obj, "*db.BlipSyncContext") {
			tw.Emit(ev)
		}
	})
	defer base.VerifSetSink(nil)
	prev := db.DefaultCheckpointInterval
	db.DefaultCheckpointInterval = 3 * time.Millisecond
	defer func() { db.DefaultCheckpointInterval = prev }()

	rnd := vRand()
	rounds := 1
	if vThorough() {
		rounds = 4
	}
	for round := 0; round < rounds; round++ {
		for _, dir := range []db.ActiveReplicatorDirection{db.ActiveReplicatorTypePush, db.ActiveReplicatorTypePull} {
			t.Run(fmt.Sprintf("%s-%d", dir, round), func(t *testing.T) {
				peers := SetupISGRPeersWithOpts(t, TestISGRPeerOpts{})
				src, dst := peers.ActiveRT, peers.PassiveRT
				if dir == db.ActiveReplicatorTypePull {
					src, dst = peers.PassiveRT, peers.ActiveRT
				}
				replID := fmt.Sprintf("r%d", round)
				n := 0
				write := func(k int) []string {
					ids := []string{}
					for i := 0; i < k; i++ {
						id := fmt.Sprintf("doc%d_%d", round, n)
						n++
						v := src.PutDoc(id, `{"channels":["A"],"v":1}`)
						if rnd.Intn(3) == 0 {
							v = src.UpdateDoc(id, v, `{"channels":["A"],"v":2}`)
						}
						if rnd.Intn(5) == 0 {
							src.DeleteDoc(id, v)
						}
						ids = append(ids, id)
					}
					return ids
				}
				waitAll := func(ids []string) {
					for _, id := range ids {
						ok := false
						for i := 0; i < 2000 && !ok; i++ {
							srcResp := src.SendAdminRequest("GET", "/{{.keyspace}}/"+id, "")
							resp := dst.SendAdminRequest("GET", "/{{.keyspace}}/"+id, "")
							// same visible state on both sides (live with same rev, or deleted/missing on both)
							if resp.Code == srcResp.Code && (resp.Code != 200 || vRevOf(resp.Body.String()) == vRevOf(srcResp.Body.String())) {
								ok = true
							} else {
								time.Sleep(5 * time.Millisecond)
							}
						}
						if !ok {
							t.Fatalf("VERIF-FATAL doc %s did not replicate", id)
						}
					}
				}
				ids := write(4 + rnd.Intn(8))
				peers.ActiveRT.CreateReplication(replID, peers.PassiveDBURL, dir, nil, true, db.ConflictResolverDefault, "")
				peers.ActiveRT.WaitForReplicationStatus(replID, db.ReplicationStateRunning)
				waitAll(ids)
				ids = write(3 + rnd.Intn(10)) // while running
				waitAll(ids)
				time.Sleep(20 * time.Millisecond) // let a few checkpoint ticks happen
				resp := peers.ActiveRT.SendAdminRequest("PUT", "/{{.db}}/_replicationStatus/"+replID+"?action=stop", "")
				if resp.Code != 200 {
					t.Fatalf("VERIF-FATAL stop: %d %s", resp.Code, resp.Body.String())
				}
				peers.ActiveRT.WaitForReplicationStatus(replID, db.ReplicationStateStopped)
				ids = write(2 + rnd.Intn(6)) // while stopped
				resp = peers.ActiveRT.SendAdminRequest("PUT", "/{{.db}}/_replicationStatus/"+replID+"?action=start", "")
				if resp.Code != 200 {
					t.Fatalf("VERIF-FATAL start: %d %s", resp.Code, resp.Body.String())
				}
				peers.ActiveRT.WaitForReplicationStatus(replID, db.ReplicationStateRunning)
				waitAll(ids)
				time.Sleep(20 * time.Millisecond)
				_ = peers.ActiveRT.SendAdminRequest("PUT", "/{{.db}}/_replicationStatus/"+replID+"?action=stop", "")
				peers.ActiveRT.WaitForReplicationStatus(replID, db.ReplicationStateStopped)
			})
		}
	}
}

func vRevOf(body string) string {
	i := strings.Index(body, `"_rev":"`)
	if i < 0 {
		return ""
	}
	rest := body[i+8:]
	j := strings.Index(rest, `"`)
	if j < 0 {
		return ""
	}
	return rest[:j]
}
