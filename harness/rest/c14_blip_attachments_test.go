//go:build verif

package rest

// C14 binding, replication clause (specs/Attachments/AllowWindow.tla): "a replication client can download an attachment only
// while it is being sent a revision that references it".
//
// A raw BlipTester (no BlipTesterClient: the client must hold the reply to a `rev` message) connects with the V2 and the V3
// sub-protocol (V2 keys the allow-list by digest, V3 by document + digest).  Four documents are written through the REST API:
//   d1 {a1: c1, a2: c2}   d2 {b1: c3, b2: c1}   d3 {x: c2}   d4 (no attachments)       (c1 shared by d1 and d2, c2 by d1 and d3)
// Every document is pulled TWICE: the first time the client answers the `rev` message with an ERROR (it "could not store the
// revision": the revision is no longer being sent, the window must close exactly as after a successful reply), the second time with success.
// One document at a time (one-shot subChanges with a docIDs filter, so that exactly one revision is in flight):
//   before   getAttachment for every (document, digest) pair and for a digest nobody has
//   during   the same probes from inside the `rev` handler, before the reply to the `rev` message is sent
//   after    the reply is sent; the harness polls the pulled document's own digest until the gateway refuses it (the window is
//            closed by the goroutine that waits for the reply; bound 6 s) and then probes everything again
// Logged: Reset (protocol, which document carries which contents), Rev (document in flight), Ack / Rej (success / error reply sent;
// closed = the window was seen closed), Get (phase, document, content, outcome, content of the bytes served).  No property is asserted here.

import (
	"bytes"
	"encoding/base64"
	"fmt"
	"math/rand"
	"sync"
	"testing"
	"time"

	"github.com/couchbase/go-blip"
	"github.com/couchbase/sync_gateway/base"
	"github.com/couchbase/sync_gateway/db"
)

type vC14BlipH struct {
	t        *testing.T
	tw       *vTraceWriter
	bt       *BlipTester
	proto    int
	contents [][]byte // 1-based
	digests  []string
	docs     []string // 1-based doc ids
	mu       sync.Mutex
}

func (h *vC14BlipH) contentOf(b []byte) int {
	for c := 1; c < len(h.contents); c++ {
		if bytes.Equal(b, h.contents[c]) {
			return c
		}
	}
	return 0
}

// one getAttachment request: outcome "ok" | the error code | "err"
func (h *vC14BlipH) get(d int, c int) (string, int) {
	digest := "sha1-AAAAAAAAAAAAAAAAAAAAAAAAAAA="
	if c > 0 {
		digest = h.digests[c]
	}
	rq := blip.NewRequest()
	rq.SetProfile(db.MessageGetAttachment)
	rq.Properties[db.GetAttachmentDigest] = digest
	if h.bt.activeSubprotocol >= db.CBMobileReplicationV3 {
		rq.Properties[db.GetAttachmentID] = h.docs[d]
	}
	h.bt.addCollectionProperty(rq)
	if !h.bt.sender.Send(rq) {
		h.t.Fatalf("VERIF-FATAL C14 blip: cannot send getAttachment")
	}
	resp := rq.Response()
	if code, has := resp.Properties["Error-Code"]; has {
		return code, -1
	}
	body, err := resp.Body()
	if err != nil {
		return "err", -1
	}
	return "ok", h.contentOf(body)
}

func (h *vC14BlipH) probes(phase string, inflight int) {
	for d := 1; d < len(h.docs); d++ {
		for c := 0; c < len(h.contents); c++ {
			res, rd := h.get(d, c)
			h.tw.Emit(vObj{"a": "Get", "ph": phase, "fl": inflight, "d": d, "c": c, "res": res, "served": res == "ok", "rd": rd})
		}
	}
}

func TestVerif_C14_BlipAllowList(t *testing.T) {
	tw := vOpenTrace(t, "VERIF_TRACE_OUT")
	defer tw.Close()
	base.SetUpTestLogging(t, base.LevelNone, base.KeyNone)
	rnd := rand.New(rand.NewSource(vSeed()*131 + 14))
	contents := [][]byte{nil, make([]byte, 1+rnd.Intn(300)), make([]byte, 20000+rnd.Intn(50000)), make([]byte, 1+rnd.Intn(40))}
	for c := 1; c < len(contents); c++ {
		rnd.Read(contents[c])
	}
	carries := [][]int{nil, {1, 2}, {3, 1}, {2}, {}} // document -> contents
	for pi, proto := range []db.CBMobileSubprotocolVersion{db.CBMobileReplicationV2, db.CBMobileReplicationV3} {
		bt := NewBlipTesterFromSpec(t, BlipTesterSpec{GuestEnabled: true, blipProtocols: []string{proto.SubprotocolString()}})
		h := &vC14BlipH{t: t, tw: tw, bt: bt, contents: contents, digests: make([]string, len(contents)), docs: make([]string, len(carries))}
		h.proto = 2
		if bt.activeSubprotocol >= db.CBMobileReplicationV3 {
			h.proto = 3
		}
		for c := 1; c < len(contents); c++ {
			h.digests[c] = db.Sha1DigestKey(contents[c])
		}
		refs := [][]int{}
		for d := 1; d < len(carries); d++ {
			h.docs[d] = fmt.Sprintf("c14blip-%d-%d-d%d", vSeed(), pi, d)
			atts := ""
			for i, c := range carries[d] {
				if i > 0 {
					atts += ","
				}
				atts += fmt.Sprintf(`"att%d":{"data":"%s"}`, i+1, base64.StdEncoding.EncodeToString(contents[c]))
			}
			body := fmt.Sprintf(`{"k":"v%d","_attachments":{%s}}`, d, atts)
			resp := bt.restTester.SendAdminRequest("PUT", "/{{.keyspace}}/"+h.docs[d], body)
			if resp.Code != 201 {
				t.Fatalf("VERIF-FATAL C14 blip: PUT %s -> %d %s", h.docs[d], resp.Code, resp.Body.String())
			}
			refs = append(refs, append([]int{}, carries[d]...))
		}
		bt.restTester.WaitForPendingChanges()
		tw.Emit(vObj{"a": "Reset", "beh": pi, "proto": h.proto, "refs": refs})
		h.probes("before", 0)

		for d := 1; d < len(h.docs); d++ {
			for _, reject := range []bool{true, false} {
				d, reject := d, reject
				var revWg, changesWg sync.WaitGroup
				gotRev := false
				bt.blipContext.HandlerForProfile["changes"] = func(request *blip.Message) {
					body, err := request.Body()
					if err != nil {
						t.Fatalf("VERIF-FATAL C14 blip: changes body: %v", err)
					}
					if string(body) == "null" {
						changesWg.Done()
						return
					}
					if !request.NoReply() {
						batch := [][]any{}
						if err := base.JSONUnmarshal(body, &batch); err != nil {
							t.Fatalf("VERIF-FATAL C14 blip: changes: %v", err)
						}
						want := [][]any{}
						for range batch {
							want = append(want, []any{})
							revWg.Add(1)
						}
						response := request.Response()
						response.SetBody(base.MustJSONMarshal(t, want))
					}
				}
				bt.blipContext.HandlerForProfile["rev"] = func(request *blip.Message) {
					defer revWg.Done()
					docID := request.Properties["id"]
					if docID != h.docs[d] {
						t.Errorf("VERIF-FATAL C14 blip: rev for %s while pulling %s", docID, h.docs[d])
						return
					}
					gotRev = true
					tw.Emit(vObj{"a": "Rev", "d": d, "noreply": request.NoReply()})
					h.probes("during", d)
					if !request.NoReply() {
						response := request.Response()
						if reject {
							response.SetError("HTTP", 500, "c14: client could not store the revision")
						} else {
							response.SetBody([]byte{})
						}
					}
				}
				bt.blipContext.HandlerForProfile["norev"] = func(request *blip.Message) { revWg.Done() }
				changesWg.Add(1)
				sub := blip.NewRequest()
				sub.SetProfile("subChanges")
				sub.Properties["continuous"] = "false"
				sub.SetBody(base.MustJSONMarshal(t, map[string]any{"docIDs": []string{h.docs[d]}}))
				bt.addCollectionProperty(sub)
				bt.Send(sub)
				changesWg.Wait()
				revWg.Wait()
				if !gotRev {
					t.Fatalf("VERIF-FATAL C14 blip: no rev message for %s", h.docs[d])
				}
				// the window is closed by the goroutine that waits for our reply: poll the document's own first digest
				closed := true
				if len(carries[d]) > 0 {
					closed = false
					deadline := time.Now().Add(6 * time.Second)
					for time.Now().Before(deadline) {
						if res, _ := h.get(d, carries[d][0]); res != "ok" {
							closed = true
							break
						}
						time.Sleep(2 * time.Millisecond)
					}
				}
				ev := "Ack"
				if reject {
					ev = "Rej"
				}
				tw.Emit(vObj{"a": ev, "d": d, "closed": closed})
				h.probes("after", 0)
			}
		}
		delete(bt.blipContext.HandlerForProfile, "changes")
		delete(bt.blipContext.HandlerForProfile, "rev")
		delete(bt.blipContext.HandlerForProfile, "norev")
		bt.Close()
	}
}
