//go:build verif

package rest

// C15 binding (DESIGN 4.15): two bootstrapContexts ("nodes") over ONE Rosmar cluster connection, each wrapped by a
// counting / gating / crashing BootstrapConnection decorator.  The decorator numbers every storage operation a node
// performs on the registry and on the database config documents, can make the node "die" before its k-th storage write
// (that write and every later write of the node is refused with an error), can hold every operation at a gate until a
// scheduler releases it, and after every operation logs the raw registry document and every config document
// (projected to version / collections / payload marker).  No assertion about the property is made here: the trace is
// judged by TLC (specs/ConfigRegistry/Trace_ConfigRegistry.tla).
//
// Trace lines (ndjson):
//   {a:"Reset", id, kind}                                 new scenario, empty bucket
//   {a:"Start", n, t:"I|U|D|L", db, colls, pay}           node n invokes InsertConfig/UpdateConfig/DeleteConfig/GetDatabaseConfigs
//   {a:"St", n, k:"Rr|Rc|Ic|Wc|Tc|Dc|Wr", db, ok, val, reg, cfg}   one storage operation and the store after it
//   {a:"Crash", n}                                        node n dies (before the write it was about to do)
//   {a:"Ret", n, res, msg, out:{cfgs, reg}, reg, cfg}     the call returned; for loads: what it returned and the registry it last read

import (
	"context"
	"encoding/json"
	"errors"
	"fmt"
	"net/http"
	"os"
	"sort"
	"strconv"
	"strings"
	"sync"
	"testing"
	"time"

	"github.com/couchbase/sync_gateway/base"
)

const (
	vC15Group   = "vg"
	vC15Scope   = "vs"
	vC15PayBase = 1000
)

var vC15DBs = []string{"A", "B"}

var errVC15Dead = errors.New("VERIF-C15 node is dead: storage write refused")

// ---------------------------------------------------------------------------------------------------------------
// controller shared by the nodes of one scenario

type vC15Req struct {
	n       int
	kind    string // Rr Rc Ic Wc Tc Dc Wr
	db      string
	at      time.Time // when the node asked
	second  bool      // second read of a wait loop (the wait gives up after it)
	afterWr bool      // the node's previous storage operation was a registry write
	granted chan struct{}
	done    chan struct{}
}

type vC15Ctl struct {
	t       testing.TB
	ctx     context.Context
	tw      *vTraceWriter
	raw     base.BootstrapConnection
	bucket  string
	mu      sync.Mutex // serialises storage operations + logging (a storage step and the snapshot after it are atomic)
	quiet   bool       // no trace output (used while measuring)
	gated   bool
	reqs    chan *vC15Req
	nSt     int
	timeout time.Duration
}

type vC15Node struct {
	base.BootstrapConnection // the shared Rosmar cluster connection; only the metadata-document calls are intercepted
	ctl                      *vC15Ctl
	n                        int
	ops                      int // storage operations performed by the current call
	writes                   int // storage writes attempted by the current call
	dieBefore                int // 0: never; k: die before the k-th write of the current call
	dead                     bool
	kinds                    []string
	lastReg                  vObj // projection of the registry this node read last
	lastKind                 string
	lastDB                   string
	waitFrom                 time.Time
	bc                       *bootstrapContext
}

func (c *vC15Ctl) keyOf(key string) (kind string, db string) {
	if key == base.SGRegistryKey {
		return "r", "-"
	}
	for _, d := range vC15DBs {
		if key == PersistentConfigKey(c.ctx, vC15Group, d) {
			return "c", d
		}
	}
	return "", ""
}

// ---- projections -------------------------------------------------------------------------------------------

func vC15Ver(v string) (gen int, tag int) {
	switch v {
	case deletedDatabaseVersion:
		return 0, 0
	case invalidDatabaseConflictingCollectionsVersion:
		return -1, 0
	case "":
		return -8, 0 // an entry/config without a version: never produced by the operations driven here
	}
	parts := strings.SplitN(v, "-", 2)
	g, err := strconv.Atoi(parts[0])
	if err != nil || len(parts) != 2 {
		return -7, 0
	}
	tg, err := strconv.Atoi(parts[1])
	if err != nil {
		return -7, 0
	}
	return g, tg
}

func vC15RegColls(s RegistryScopes) []string {
	res := []string{}
	for sn, sc := range s {
		for _, c := range sc.Collections {
			if sn == vC15Scope {
				res = append(res, c)
			} else {
				res = append(res, sn+"."+c)
			}
		}
	}
	sort.Strings(res)
	return res
}

func vC15CfgColls(s ScopesConfig) []string {
	res := []string{}
	for sn, sc := range s {
		for c := range sc.Collections {
			if sn == vC15Scope {
				res = append(res, c)
			} else {
				res = append(res, sn+"."+c)
			}
		}
	}
	sort.Strings(res)
	return res
}

func vC15NoPrev() vObj { return vObj{"gen": -9, "tag": 0, "colls": []string{}} }
func vC15NoEnt() vObj  { return vObj{"gen": -9, "tag": 0, "colls": []string{}, "prev": vC15NoPrev()} }
func vC15NoCfg() vObj  { return vObj{"gen": -9, "tag": 0, "colls": []string{}, "pay": 0} }

func vC15ProjReg(r *GatewayRegistry) vObj {
	res := vObj{}
	for _, d := range vC15DBs {
		res[d] = vC15NoEnt()
	}
	if r == nil {
		return res
	}
	extra := []string{}
	for g, cg := range r.ConfigGroups {
		for name, e := range cg.Databases {
			if g != vC15Group || (name != "A" && name != "B") {
				extra = append(extra, g+"/"+name)
				continue
			}
			gen, tag := vC15Ver(e.Version)
			ent := vObj{"gen": gen, "tag": tag, "colls": vC15RegColls(e.Scopes), "prev": vC15NoPrev()}
			if e.PreviousVersion != nil {
				pg, pt := vC15Ver(e.PreviousVersion.Version)
				ent["prev"] = vObj{"gen": pg, "tag": pt, "colls": vC15RegColls(e.PreviousVersion.Scopes)}
			}
			res[name] = ent
		}
	}
	if len(extra) > 0 {
		sort.Strings(extra)
		res["_extra"] = extra
	}
	return res
}

func vC15ProjCfg(c *DatabaseConfig) vObj {
	if c == nil {
		return vC15NoCfg()
	}
	gen, tag := vC15Ver(c.Version)
	pay := -1
	if c.RevsLimit != nil {
		pay = int(*c.RevsLimit) - vC15PayBase
	}
	return vObj{"gen": gen, "tag": tag, "colls": vC15CfgColls(c.Scopes), "pay": pay, "name": c.Name}
}

// snapshot reads the raw registry document and every config document through the undecorated connection.
func (c *vC15Ctl) snapshot() (reg vObj, cfg vObj) {
	var r GatewayRegistry
	_, err := c.raw.GetMetadataDocument(c.ctx, c.bucket, base.SGRegistryKey, &r)
	if err != nil {
		if !base.IsDocNotFoundError(err) {
			c.t.Fatalf("VERIF-FATAL snapshot registry: %v", err)
		}
		reg = vC15ProjReg(nil)
	} else {
		reg = vC15ProjReg(&r)
	}
	cfg = vObj{}
	for _, d := range vC15DBs {
		var dc DatabaseConfig
		_, err := c.raw.GetMetadataDocument(c.ctx, c.bucket, PersistentConfigKey(c.ctx, vC15Group, d), &dc)
		if err != nil {
			if !base.IsDocNotFoundError(err) {
				c.t.Fatalf("VERIF-FATAL snapshot config %s: %v", d, err)
			}
			cfg[d] = vC15NoCfg()
		} else {
			p := vC15ProjCfg(&dc)
			delete(p, "name")
			if dc.Name != d {
				p["pay"] = -2 // a config document stored under another database's key
			}
			cfg[d] = p
		}
	}
	return reg, cfg
}

func (c *vC15Ctl) emit(o vObj) {
	if c.quiet || c.tw == nil {
		return
	}
	c.tw.Emit(o)
}

// ---- the decorator ---------------------------------------------------------------------------------------------

// step runs one storage operation of node nd under the controller's lock and logs it.
func (nd *vC15Node) step(kind string, db string, val vObj, isWrite bool, f func() error) error {
	c := nd.ctl
	var req *vC15Req
	if c.gated {
		req = &vC15Req{n: nd.n, kind: kind, db: db, granted: make(chan struct{}), done: make(chan struct{}), at: time.Now(),
			second: kind == "Rc" && nd.lastKind == "Rc" && nd.lastDB == db, afterWr: nd.lastKind == "Wr"}
		c.reqs <- req
		<-req.granted
		defer close(req.done)
	}
	if c.gated && kind == "Rc" && nd.lastKind == "Rc" && nd.lastDB == db && !nd.dead {
		// second read of a wait loop: make sure configRetryTimeout has elapsed, so that the loop gives up right after it
		if d := time.Until(nd.waitFrom.Add(c.timeout + 3*time.Millisecond)); d > 0 {
			time.Sleep(d)
		}
	}
	c.mu.Lock()
	defer c.mu.Unlock()
	nd.ops++
	if isWrite {
		nd.writes++
		if !nd.dead && nd.dieBefore > 0 && nd.writes >= nd.dieBefore {
			nd.dead = true
			c.emit(vObj{"a": "Crash", "n": nd.n})
		}
		if nd.dead {
			return errVC15Dead
		}
	}
	err := f()
	if nd.dead {
		return err // a dead node's reads are of no consequence: not logged
	}
	nd.kinds = append(nd.kinds, kind)
	ok := err == nil
	if kind == "Rr" || kind == "Rc" {
		ok = err == nil || base.IsDocNotFoundError(err)
	}
	// a wait loop re-reads the same document; the third and later consecutive identical reads are timer artefacts
	// (nothing else ran in between: storage operations are serialised here) and are not logged
	rep := (kind == "Rc" && nd.lastKind == "Rc" && nd.lastDB == db)
	if rep {
		nd.lastKind = "Rc+"
	} else if kind == "Rc" && nd.lastKind == "Rc+" && nd.lastDB == db {
		return err
	} else {
		nd.lastKind, nd.lastDB = kind, db
		nd.waitFrom = time.Now()
	}
	c.nSt++
	reg, cfg := c.snapshot()
	line := vObj{"a": "St", "n": nd.n, "k": kind, "db": db, "ok": ok, "val": vC15NoCfg(), "reg": reg, "cfg": cfg}
	if val != nil {
		line["val"] = val
	}
	if !ok {
		line["msg"] = fmt.Sprint(err)
	}
	c.emit(line)
	return err
}

func (nd *vC15Node) GetMetadataDocument(ctx context.Context, bucket, key string, valuePtr any) (uint64, error) {
	k, db := nd.ctl.keyOf(key)
	if k == "" {
		return nd.BootstrapConnection.GetMetadataDocument(ctx, bucket, key, valuePtr)
	}
	var cas uint64
	kind := "Rc"
	if k == "r" {
		kind = "Rr"
	}
	err := nd.step(kind, db, nil, false, func() error {
		var e error
		cas, e = nd.BootstrapConnection.GetMetadataDocument(ctx, bucket, key, valuePtr)
		if k == "r" {
			if r, ok := valuePtr.(*GatewayRegistry); ok && e == nil {
				nd.lastReg = vC15ProjReg(r)
			} else {
				nd.lastReg = vC15ProjReg(nil)
			}
		}
		return e
	})
	return cas, err
}

func vC15Val(value any) vObj {
	if dc, ok := value.(*DatabaseConfig); ok {
		p := vC15ProjCfg(dc)
		delete(p, "name")
		return p
	}
	return nil
}

func (nd *vC15Node) InsertMetadataDocument(ctx context.Context, bucket, key string, value any) (uint64, error) {
	k, db := nd.ctl.keyOf(key)
	if k == "" {
		return nd.BootstrapConnection.InsertMetadataDocument(ctx, bucket, key, value)
	}
	var cas uint64
	kind := "Ic"
	if k == "r" {
		kind = "Wr"
	}
	err := nd.step(kind, db, vC15Val(value), true, func() error {
		var e error
		cas, e = nd.BootstrapConnection.InsertMetadataDocument(ctx, bucket, key, value)
		return e
	})
	return cas, err
}

func (nd *vC15Node) WriteMetadataDocument(ctx context.Context, bucket, key string, casIn uint64, value any) (uint64, error) {
	k, db := nd.ctl.keyOf(key)
	if k == "" {
		return nd.BootstrapConnection.WriteMetadataDocument(ctx, bucket, key, casIn, value)
	}
	var cas uint64
	kind := "Wc"
	if k == "r" {
		kind = "Wr"
	}
	err := nd.step(kind, db, vC15Val(value), true, func() error {
		var e error
		cas, e = nd.BootstrapConnection.WriteMetadataDocument(ctx, bucket, key, casIn, value)
		return e
	})
	return cas, err
}

func (nd *vC15Node) TouchMetadataDocument(ctx context.Context, bucket, key string, property string, value string, casIn uint64) (uint64, error) {
	k, db := nd.ctl.keyOf(key)
	if k == "" {
		return nd.BootstrapConnection.TouchMetadataDocument(ctx, bucket, key, property, value, casIn)
	}
	var cas uint64
	kind := "Tc"
	if k == "r" {
		kind = "Tr"
	}
	err := nd.step(kind, db, nil, true, func() error {
		var e error
		cas, e = nd.BootstrapConnection.TouchMetadataDocument(ctx, bucket, key, property, value, casIn)
		return e
	})
	return cas, err
}

func (nd *vC15Node) DeleteMetadataDocument(ctx context.Context, bucket, key string, casIn uint64) error {
	k, db := nd.ctl.keyOf(key)
	if k == "" {
		return nd.BootstrapConnection.DeleteMetadataDocument(ctx, bucket, key, casIn)
	}
	kind := "Dc"
	if k == "r" {
		kind = "Dr"
	}
	return nd.step(kind, db, nil, true, func() error {
		return nd.BootstrapConnection.DeleteMetadataDocument(ctx, bucket, key, casIn)
	})
}

func (nd *vC15Node) UpdateMetadataDocument(ctx context.Context, bucket, key string, cb func([]byte, uint64) ([]byte, error)) (uint64, error) {
	if k, _ := nd.ctl.keyOf(key); k != "" {
		nd.ctl.t.Fatalf("VERIF-FATAL unexpected UpdateMetadataDocument(%s): not a storage step of the modelled operations", key)
	}
	return nd.BootstrapConnection.UpdateMetadataDocument(ctx, bucket, key, cb)
}

// ---- operations -------------------------------------------------------------------------------------------------

type vC15Op struct {
	N     int      `json:"n"`
	T     string   `json:"t"` // I U D L
	DB    string   `json:"db"`
	Colls []string `json:"colls"`
	Die   int      `json:"die"` // die before the k-th storage write of this call (0 = never)
}

func (o vC15Op) String() string {
	s := o.T
	if o.T != "L" {
		s += ":" + o.DB
		if o.T != "D" {
			s += "{" + strings.Join(o.Colls, ",") + "}"
		}
	}
	if o.Die > 0 {
		s += fmt.Sprintf("@%d", o.Die)
	}
	return fmt.Sprintf("n%d.%s", o.N, s)
}

func vC15Scopes(colls []string) ScopesConfig {
	cc := CollectionsConfig{}
	for _, c := range colls {
		cc[c] = &CollectionConfig{}
	}
	return ScopesConfig{vC15Scope: ScopeConfig{Collections: cc}}
}

func vC15Classify(err error) (string, string) {
	if err == nil {
		return "ok", ""
	}
	msg := fmt.Sprint(err)
	var he *base.HTTPError
	switch {
	case errors.Is(err, errVC15Dead):
		return "dead", msg
	case errors.Is(err, base.ErrAlreadyExists):
		return "exists", msg
	case errors.Is(err, base.ErrNotFound):
		return "notfound", msg
	case errors.Is(err, base.ErrConfigRegistryRollback):
		return "err_rollback", msg
	case errors.Is(err, base.ErrConfigVersionMismatch):
		return "err_vermismatch", msg
	case errors.Is(err, base.ErrConfigRegistryReloadRequired):
		return "err_reload", msg
	case errors.As(err, &he) && he.Status == http.StatusConflict:
		if strings.Contains(msg, "update in progress") {
			return "conflict_inprogress", msg
		}
		return "conflict", msg
	case strings.Contains(msg, "registry reload limit reached"):
		return "err_reload", msg
	case strings.Contains(msg, "failed to persist") || strings.Contains(msg, "giving up after"):
		return "err_retries", msg
	case strings.Contains(msg, "Rollback cancelled"):
		return "err_rollback_cancelled", msg
	case strings.Contains(msg, "failed to finalize"):
		return "err_finalize", msg
	case strings.Contains(msg, "VERIF-C15 node is dead"):
		return "dead", msg
	case base.IsCasMismatch(err):
		return "err_cas", msg
	}
	return "err_other", msg
}

type vC15Scenario struct {
	ctl   *vC15Ctl
	nodes map[int]*vC15Node
	pay   int
}

func (s *vC15Scenario) node(n int) *vC15Node {
	if nd, ok := s.nodes[n]; ok {
		return nd
	}
	nd := &vC15Node{BootstrapConnection: s.ctl.raw, ctl: s.ctl, n: n}
	nd.bc = &bootstrapContext{Connection: nd, configRetryTimeout: s.ctl.timeout, sgVersion: *base.ProductVersion, clusterCompatVersion: base.NodeClusterCompatVersion}
	s.nodes[n] = nd
	return nd
}

// call performs one API call on node op.N and logs Start / Ret.  Returns (result, number of storage writes attempted).
func (s *vC15Scenario) call(op vC15Op) (string, int) {
	c := s.ctl
	nd := s.node(op.N)
	nd.ops, nd.writes, nd.dieBefore, nd.kinds, nd.lastKind = 0, 0, op.Die, nil, ""
	if nd.dead {
		c.t.Fatalf("VERIF-FATAL call on dead node %d", op.N)
	}
	pay := 0
	if op.T != "L" {
		s.pay++
		pay = s.pay
	}
	colls := op.Colls
	if colls == nil {
		colls = []string{}
	}
	c.mu.Lock()
	c.emit(vObj{"a": "Start", "n": op.N, "t": op.T, "db": vC15DBOr(op.DB), "colls": colls, "pay": pay})
	c.mu.Unlock()
	var err error
	var loaded []*DatabaseConfig
	switch op.T {
	case "I":
		dc := &DatabaseConfig{Version: fmt.Sprintf("1-%d", pay), DbConfig: DbConfig{Name: op.DB, BucketConfig: BucketConfig{Bucket: base.Ptr(c.bucket)},
			Scopes: vC15Scopes(op.Colls), RevsLimit: base.Ptr(uint32(vC15PayBase + pay))}}
		_, err = nd.bc.InsertConfig(c.ctx, c.bucket, vC15Group, dc)
	case "U":
		_, err = nd.bc.UpdateConfig(c.ctx, c.bucket, vC15Group, op.DB, func(cur *DatabaseConfig) (*DatabaseConfig, error) {
			g, _ := vC15Ver(cur.Version)
			if g < 1 {
				g = 0
			}
			cur.Version = fmt.Sprintf("%d-%d", g+1, pay)
			cur.Scopes = vC15Scopes(op.Colls)
			cur.RevsLimit = base.Ptr(uint32(vC15PayBase + pay))
			return cur, nil
		})
	case "D":
		err = nd.bc.DeleteConfig(c.ctx, c.bucket, vC15Group, op.DB)
	case "L":
		loaded, err = nd.bc.GetDatabaseConfigs(c.ctx, c.bucket, vC15Group)
	default:
		c.t.Fatalf("VERIF-FATAL unknown op %q", op.T)
	}
	res, msg := vC15Classify(err)
	writes := nd.writes
	if nd.dead {
		// the node died inside this call: whatever the call returns is of no consequence
		return "dead", writes
	}
	c.mu.Lock()
	defer c.mu.Unlock()
	reg, cfg := c.snapshot()
	out := vObj{"cfgs": vObj{"A": vC15NoCfg(), "B": vC15NoCfg()}, "reg": vC15ProjReg(nil)}
	if op.T == "L" && err == nil {
		cfgs := vObj{"A": vC15NoCfg(), "B": vC15NoCfg()}
		extra := []string{}
		for _, dc := range loaded {
			p := vC15ProjCfg(dc)
			name := vStr(p["name"])
			delete(p, "name")
			if _, dup := cfgs[name]; (name != "A" && name != "B") || (dup && cfgs[name].(vObj)["gen"] != -9) {
				extra = append(extra, name)
				continue
			}
			cfgs[name] = p
		}
		out["cfgs"] = cfgs
		if len(extra) > 0 {
			out["extra"] = extra
		}
		out["reg"] = nd.lastReg
	}
	line := vObj{"a": "Ret", "n": op.N, "res": res, "out": out, "reg": reg, "cfg": cfg}
	if msg != "" {
		line["msg"] = msg
	}
	c.emit(line)
	return res, writes
}

func vC15DBOr(d string) string {
	if d == "" {
		return "-"
	}
	return d
}

// callBounded runs call() with a generous liveness bound.
func (s *vC15Scenario) callBounded(op vC15Op, bound time.Duration) (res string, writes int, hung bool) {
	done := make(chan struct{})
	go func() {
		defer close(done)
		res, writes = s.call(op)
	}()
	select {
	case <-done:
		return res, writes, false
	case <-time.After(bound):
		return "hang", 0, true
	}
}

// reset empties the bucket's registry and config documents and starts a new scenario.
func (c *vC15Ctl) reset(ds vC15RawStore, id string, kind string) *vC15Scenario {
	for _, k := range append([]string{base.SGRegistryKey}, PersistentConfigKey(c.ctx, vC15Group, "A"), PersistentConfigKey(c.ctx, vC15Group, "B")) {
		if ok, _ := ds.Exists(c.ctx, k); ok {
			if err := ds.Delete(c.ctx, k); err != nil {
				c.t.Fatalf("VERIF-FATAL reset %s: %v", k, err)
			}
		}
	}
	reg, cfg := c.snapshot()
	c.emit(vObj{"a": "Reset", "id": id, "kind": kind, "reg": reg, "cfg": cfg})
	return &vC15Scenario{ctl: c, nodes: map[int]*vC15Node{}}
}

type vC15RawStore interface {
	Exists(ctx context.Context, k string) (bool, error)
	Delete(ctx context.Context, k string) error
}

// ---------------------------------------------------------------------------------------------------------------
// (1) crash-point enumeration

type vC15Shape struct {
	Name string   `json:"name"`
	Prep []vC15Op `json:"prep"`
}

// a family of the crash-point enumeration: its own shapes, operations and follow-ups
type vC15Family struct {
	Name      string      `json:"name"`
	Shapes    []vC15Shape `json:"shapes"`
	Ops       []vC15Op    `json:"ops"`
	Followups []vC15Op    `json:"followups"`
	Stride    int         `json:"stride"`
}

type vC15Plan struct {
	Families  []vC15Family `json:"families"`
	Shapes    []vC15Shape  `json:"shapes"`
	Ops       []vC15Op     `json:"ops"`       // operations whose every storage write is a crash point (run on node 1)
	Followups []vC15Op     `json:"followups"` // run on node 2 after the crash
	TimeoutMs int          `json:"timeout_ms"`
	BoundMs   int          `json:"bound_ms"`
	Stride    int          `json:"stride"` // quick tier: follow-up f is run from the unhealed state only when (index+seed) % stride == 0
	Races     []vC15Race   `json:"races"`
}

func TestVerif_C15_ConfigRegistry(t *testing.T) {
	var plan vC15Plan
	vReadJSON(t, "VERIF_BEH", &plan)
	tw := vOpenTrace(t, "VERIF_TRACE_OUT")
	defer tw.Close()
	base.SetUpTestLogging(t, base.LevelError, base.KeyNone)
	ctx := base.TestCtx(t)
	tb := base.GetTestBucket(t)
	defer tb.Close(ctx)
	raw, err := base.NewRosmarCluster(base.UnitTestUrl(), false)
	if err != nil {
		t.Fatalf("VERIF-FATAL rosmar cluster: %v", err)
	}
	defer raw.Close()
	if plan.TimeoutMs == 0 {
		plan.TimeoutMs = 20
	}
	if plan.BoundMs == 0 {
		plan.BoundMs = 20000
	}
	if plan.Stride == 0 {
		plan.Stride = 1
	}
	ctl := &vC15Ctl{t: t, ctx: ctx, tw: tw, raw: raw, bucket: tb.GetName(), timeout: time.Duration(plan.TimeoutMs) * time.Millisecond}
	ds := tb.Bucket.DefaultDataStore(ctx)
	bound := time.Duration(plan.BoundMs) * time.Millisecond
	seed := int(vSeed())

	index := []vObj{}
	scen := 0
	// run executes one scenario: prep on node 1 (node 1 may die there too), then the listed calls; returns the writes of `probe`
	run := func(id string, kind string, calls []vC15Op, probe int) (int, bool) {
		for attempt := 0; ; attempt++ {
			s := ctl.reset(ds, id, kind)
			writes, hung := 0, false
			for i, op := range calls {
				if nd, ok := s.nodes[op.N]; ok && nd.dead {
					// a dead node is replaced by a fresh one (restart): same number, new connection state
					delete(s.nodes, op.N)
				}
				res, w, h := s.callBounded(op, bound)
				if i == probe {
					writes = w
				}
				if h {
					hung = true
					if attempt > 0 {
						ctl.emit(vObj{"a": "Hang", "n": op.N, "op": op.String()})
					}
					break
				}
				_ = res
				// "recovery performed, retry": the caller retries (bounded) - logged like any other call
				for r := 0; r < 2 && res == "err_rollback" && op.Die == 0; r++ {
					res, _, h = s.callBounded(op, bound)
					if h {
						hung = true
						break
					}
				}
			}
			if hung && attempt == 0 {
				// reproduce-twice rule: abandon this bucket state and try the scenario once more
				time.Sleep(200 * time.Millisecond)
				continue
			}
			return writes, hung
		}
	}

	if len(plan.Shapes) > 0 {
		plan.Families = append([]vC15Family{{Name: "", Shapes: plan.Shapes, Ops: plan.Ops, Followups: plan.Followups, Stride: plan.Stride}}, plan.Families...)
	}
	for _, fam := range plan.Families {
		if fam.Stride == 0 {
			fam.Stride = 1
		}
		for si, sh := range fam.Shapes {
			if fam.Name != "" {
				sh.Name = fam.Name + ":" + sh.Name
			}
			for oi, op := range fam.Ops {
				op.N = 1
				op.Die = 0
				calls := append(append([]vC15Op{}, sh.Prep...), op)
				probe := len(calls) - 1
				id := fmt.Sprintf("rec/%s/%s", sh.Name, op.String())
				w, hung := run(id, "rec", append(append([]vC15Op{}, calls...), vC15Op{N: 2, T: "L"}), probe)
				scen++
				index = append(index, vObj{"id": id, "shape": sh.Name, "op": op.String(), "writes": w, "hung": hung})
				for k := 1; k <= w; k++ {
					cop := op
					cop.Die = k
					pre := append(append([]vC15Op{}, sh.Prep...), cop)
					// (a) one chain per crash point: the operations on the OTHER database on the unhealed state (they must not
					// be able to take what the interrupted change still holds), the other node loads (twice), the
					// operations on the other database again, then those on the same database, and a load
					a := append([]vC15Op{}, pre...)
					for pass := 0; pass < 3; pass++ {
						for _, f := range fam.Followups {
							if (f.DB != op.DB) == (pass < 2) {
								f.N = 2
								a = append(a, f)
							}
						}
						if pass == 0 {
							a = append(a, vC15Op{N: 2, T: "L"}, vC15Op{N: 2, T: "L"})
						}
					}
					a = append(a, vC15Op{N: 2, T: "L"})
					id := fmt.Sprintf("crash/%s/%s@%d/heal-then-all", sh.Name, op.String(), k)
					_, hung := run(id, "crash-load", a, -1)
					scen++
					index = append(index, vObj{"id": id, "hung": hung})
					// (b) each follow-up directly on the unhealed state, then a load; (c) the same after a healing load
					for fi, f := range fam.Followups {
						f.N = 2
						if (si+oi+k+fi+seed)%fam.Stride == 0 {
							b := append(append([]vC15Op{}, pre...), f, vC15Op{N: 2, T: "L"})
							id := fmt.Sprintf("crash/%s/%s@%d/%s", sh.Name, op.String(), k, f.String())
							_, hung := run(id, "crash-followup", b, -1)
							scen++
							index = append(index, vObj{"id": id, "hung": hung})
						}
						if (si+oi+k+fi+seed+1)%fam.Stride == 0 {
							c := append(append([]vC15Op{}, pre...), vC15Op{N: 2, T: "L"}, f, vC15Op{N: 2, T: "L"})
							id := fmt.Sprintf("crash/%s/%s@%d/load-then-%s", sh.Name, op.String(), k, f.String())
							_, hung := run(id, "crash-load-followup", c, -1)
							scen++
							index = append(index, vObj{"id": id, "hung": hung})
						}
					}
				}
			}
		}
	}
	if len(plan.Races) > 0 {
		vC15RunRaces(t, ctl, ds, plan.Races, bound, &index)
	}
	b, _ := json.Marshal(index)
	t.Logf("VERIF-C15 scenarios=%d storage_steps=%d", scen, ctl.nSt)
	if p := vC15IndexPath(); p != "" {
		_ = writeFileC15(p, b)
	}
}

func vC15IndexPath() string { return os.Getenv("VERIF_C15_INDEX") }

func writeFileC15(p string, b []byte) error { return os.WriteFile(p, b, 0644) }

// ---------------------------------------------------------------------------------------------------------------
// (2) two-node race replay: a schedule (from a TLC behaviour of the two-node model) is forced through the gates.
// Schedule entries: {a:"Start", n, t, db, colls} | {a:"Step", n} (node n performs its next storage operation,
// whatever it is) | {a:"Crash", n}.  What the real code does at each step is recorded, not prescribed: conformance with
// the behaviour is judged afterwards by TLC (pass C).  Timing: the second read of a wait loop is held until
// configRetryTimeout has certainly elapsed, so that "read again, then give up" is one deterministic step; and the
// specification's timing assumption is enforced here as well (the scheduler stops the clock of a held node, the real
// timers do not): a read after which the wait may give up - the second one, or a first one that has been held for a while -
// is not granted while another LIVE node is between its registry write and its config write for that database.

type vC15Race struct {
	ID    string      `json:"id"`
	Steps []vC15RStep `json:"steps"`
}

type vC15RStep struct {
	A     string   `json:"a"`
	N     int      `json:"n"`
	T     string   `json:"t"`
	DB    string   `json:"db"`
	Colls []string `json:"colls"`
}

type vC15Sched struct {
	s       *vC15Scenario
	pending map[int]*vC15Req
	running map[int]bool
	fin     chan int
	bound   time.Duration
	hung    bool
}

// await blocks until node n is quiescent: it has posted its next storage request, or its call has returned.
func (q *vC15Sched) await(n int) {
	deadline := time.After(q.bound)
	for q.running[n] && q.pending[n] == nil && !q.hung {
		select {
		case r := <-q.s.ctl.reqs:
			q.pending[r.n] = r
		case m := <-q.fin:
			q.running[m] = false
		case <-deadline:
			q.hung = true
		}
	}
}

// inWindow: node m (alive) has written the registry for db and is about to write db's config document.
func (q *vC15Sched) inWindow(m int, db string) bool {
	r := q.pending[m]
	if r == nil || r.db != db {
		return false
	}
	if nd, ok := q.s.nodes[m]; ok && nd.dead {
		return false
	}
	return r.kind == "Ic" || r.kind == "Wc" || (r.kind == "Dc" && r.afterWr)
}

// grantable: see the timing rule above.
func (q *vC15Sched) grantable(n int) bool {
	r := q.pending[n]
	if r == nil {
		return false
	}
	if nd, ok := q.s.nodes[n]; ok && nd.dead {
		return true // a dead node's reads are of no consequence
	}
	if r.kind == "Rc" && (r.second || time.Since(r.at) > q.s.ctl.timeout/3) {
		for m := range q.pending {
			if m != n && q.inWindow(m, r.db) {
				return false
			}
		}
	}
	return true
}

// grant lets node n perform the storage operation it is waiting to do, and waits until it is quiescent again.
func (q *vC15Sched) grant(n int) {
	r := q.pending[n]
	if r == nil || !q.grantable(n) {
		return
	}
	q.pending[n] = nil
	close(r.granted)
	<-r.done
	q.await(n)
}

// drain lets the given nodes run to the end of their calls (a node that must wait for another one waits).
func (q *vC15Sched) drain(ns ...int) {
	for !q.hung {
		active, progressed := false, false
		for _, n := range ns {
			if q.running[n] {
				q.await(n)
			}
			if q.running[n] && !q.hung {
				active = true
				if q.grantable(n) {
					q.grant(n)
					progressed = true
				}
			}
		}
		if !active {
			return
		}
		if !progressed {
			// only possible if the node to wait for is not among ns: let everybody run
			for _, m := range []int{1, 2} {
				if q.running[m] && q.grantable(m) {
					q.grant(m)
					progressed = true
				}
			}
			if !progressed {
				q.hung = true
			}
		}
	}
}

func vC15RunRaces(t *testing.T, ctl *vC15Ctl, ds vC15RawStore, races []vC15Race, bound time.Duration, index *[]vObj) {
	ctl.timeout = 3 * ctl.timeout // held nodes: leave room between "asked" and "granted"
	for _, rc := range races {
		for attempt := 0; attempt < 2; attempt++ {
			ctl.gated = false
			s := ctl.reset(ds, "race/"+rc.ID, "race")
			ctl.reqs = make(chan *vC15Req, 16)
			ctl.gated = true
			q := &vC15Sched{s: s, pending: map[int]*vC15Req{}, running: map[int]bool{}, fin: make(chan int, 16), bound: bound}
			for _, st := range rc.Steps {
				if q.hung {
					break
				}
				switch st.A {
				case "Start":
					if q.running[st.N] {
						continue // the real call is still running although the behaviour thought it over: not forced
					}
					if nd, ok := s.nodes[st.N]; ok && nd.dead {
						delete(s.nodes, st.N)
					}
					q.running[st.N] = true
					op := vC15Op{N: st.N, T: st.T, DB: st.DB, Colls: st.Colls}
					if op.DB == "-" {
						op.DB = ""
					}
					go func() {
						s.call(op)
						q.fin <- op.N
					}()
					q.await(st.N)
				case "Step":
					if q.running[st.N] {
						q.await(st.N)
						q.grant(st.N)
					}
				case "Crash":
					if q.running[st.N] {
						nd := s.node(st.N)
						ctl.mu.Lock()
						if !nd.dead {
							nd.dead = true
							ctl.emit(vObj{"a": "Crash", "n": st.N})
						}
						ctl.mu.Unlock()
						q.drain(st.N)
					}
				}
			}
			q.drain(1, 2)
			ctl.gated = false
			if q.hung {
				if attempt == 0 {
					time.Sleep(200 * time.Millisecond)
					continue
				}
				ctl.emit(vObj{"a": "Hang", "n": 0})
			} else if len(rc.Steps) > 0 {
				// the survivor's view afterwards
				s.call(vC15Op{N: 3, T: "L"})
			}
			*index = append(*index, vObj{"id": "race/" + rc.ID, "hung": q.hung})
			break
		}
	}
}
