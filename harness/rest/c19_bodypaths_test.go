//go:build verif

package rest

// C19 binding (DESIGN 4.19): instantiates the behaviours exported by specs/BodyPaths/MC_BodyPaths.tla on ONE RestTester
// (distinct document per instance).  The uninterpreted body tokens of the model are bound to concrete JSON texts from
// a seeded catalogue plus a seeded generator; every write step of a behaviour sends the token's exact text through the
// step's write path, every read cell of the behaviour is executed through its read path (revision cache warm, then
// emptied), and for each read the harness records WHICH token of the instance the returned body equals as a JSON
// value (numbers compared as normalised decimal strings, after removing the documented added reserved properties),
// which top-level keys the response added, and the status codes.  Reserved-property writes record status, whether
// anything was stored and what a subsequent GET says.  No property is asserted here: specs/BodyPaths/Trace_BodyPaths
// evaluates Fidelity / ReservedRejected on the recorded facts.

import (
	"bytes"
	"encoding/json"
	"fmt"
	"io"
	"mime"
	"mime/multipart"
	"net/http/httptest"
	"net/url"
	"os"
	"sort"
	"strings"
	"sync"
	"testing"
	"time"

	"github.com/couchbase/go-blip"
	"github.com/couchbase/sync_gateway/base"
	"github.com/couchbase/sync_gateway/db"
)

// ---------------------------------------------------------------------------------------------------------------
// behaviours (as exported by TLC)

type vC19Step struct {
	Act  string `json:"act"`
	Wp   string `json:"wp"`
	Wins bool   `json:"wins"`
	Cls  string `json:"cls"`
	Tok  int    `json:"tok"`
}
type vC19Cell struct {
	Rev    int    `json:"rev"`
	Rp     string `json:"rp"`
	Cache  string `json:"cache"`
	Kind   string `json:"kind"`
	Wp     string `json:"wp"`
	Expect int    `json:"expect"`
}
type vC19Beh struct {
	Steps []vC19Step `json:"steps"`
	Tree  []int      `json:"tree"`
	Cur   int        `json:"cur"`
	Reads []vC19Cell `json:"reads"`
	Ntok  int        `json:"ntok"` // 0 = every token of the catalogue, else a seeded sample of that size
}

// ---------------------------------------------------------------------------------------------------------------
// tokens

type vC19Token struct {
	ID    string
	Class string
	Text  string // exact JSON text sent by the client
	val   any    // decoded with UseNumber
	canon string // canonical form of the JSON VALUE
}

var vC19Added = map[string]bool{"_id": true, "_rev": true, "_cv": true, "_revisions": true, "_attachments": true,
	"_deleted": true, "_removed": true, "_exp": true}

func vC19Decode(b []byte) (any, bool) {
	dec := json.NewDecoder(bytes.NewReader(b))
	dec.UseNumber()
	var v any
	if err := dec.Decode(&v); err != nil {
		return nil, false
	}
	// nothing but white space may follow
	var extra any
	if err := dec.Decode(&extra); err != io.EOF {
		return nil, false
	}
	return v, true
}

// vC19NormNum: normalised decimal string of a JSON number text: sign, significant digits without leading/trailing
// zeros, decimal exponent.  1.0 = 1 = 10e-1, 1E2 = 100, -0 = 0.
func vC19NormNum(s string) string {
	neg := false
	if strings.HasPrefix(s, "-") {
		neg, s = true, s[1:]
	}
	exp := 0
	if i := strings.IndexAny(s, "eE"); i >= 0 {
		e := s[i+1:]
		s = s[:i]
		eneg := false
		if strings.HasPrefix(e, "+") {
			e = e[1:]
		} else if strings.HasPrefix(e, "-") {
			eneg, e = true, e[1:]
		}
		for _, c := range e {
			exp = exp*10 + int(c-'0')
			if exp > 1<<28 {
				break
			}
		}
		if eneg {
			exp = -exp
		}
	}
	if i := strings.IndexByte(s, '.'); i >= 0 {
		exp -= len(s) - i - 1
		s = s[:i] + s[i+1:]
	}
	s = strings.TrimLeft(s, "0")
	t := strings.TrimRight(s, "0")
	exp += len(s) - len(t)
	if t == "" {
		return "0"
	}
	sign := ""
	if neg {
		sign = "-"
	}
	return fmt.Sprintf("%s%se%d", sign, t, exp)
}

func vC19Canon(v any, sb *strings.Builder) {
	switch x := v.(type) {
	case nil:
		sb.WriteString("null")
	case bool:
		if x {
			sb.WriteString("true")
		} else {
			sb.WriteString("false")
		}
	case json.Number:
		sb.WriteString("#" + vC19NormNum(string(x)))
	case string:
		b, _ := json.Marshal(x)
		sb.Write(b)
	case []any:
		sb.WriteByte('[')
		for i, e := range x {
			if i > 0 {
				sb.WriteByte(',')
			}
			vC19Canon(e, sb)
		}
		sb.WriteByte(']')
	case map[string]any:
		keys := make([]string, 0, len(x))
		for k := range x {
			keys = append(keys, k)
		}
		sort.Strings(keys)
		sb.WriteByte('{')
		for i, k := range keys {
			if i > 0 {
				sb.WriteByte(',')
			}
			b, _ := json.Marshal(k)
			sb.Write(b)
			sb.WriteByte(':')
			vC19Canon(x[k], sb)
		}
		sb.WriteByte('}')
	default:
		sb.WriteString(fmt.Sprintf("?%T", v))
	}
}

func vC19CanonStr(v any) string {
	var sb strings.Builder
	vC19Canon(v, &sb)
	return sb.String()
}

func vC19Short(v any) string {
	s := vC19CanonStr(v)
	if len(s) > 80 {
		s = s[:80] + "..."
	}
	return s
}

// first difference between two JSON values: path, want, got
func vC19Diff(want, got any, path string) (string, string, string, bool) {
	switch w := want.(type) {
	case map[string]any:
		g, ok := got.(map[string]any)
		if !ok {
			return path, vC19Short(want), vC19Short(got), true
		}
		keys := make([]string, 0, len(w))
		for k := range w {
			keys = append(keys, k)
		}
		sort.Strings(keys)
		for _, k := range keys {
			gv, ok := g[k]
			if !ok {
				return path + "/" + k, vC19Short(w[k]), "<missing>", true
			}
			if p, a, b, d := vC19Diff(w[k], gv, path+"/"+k); d {
				return p, a, b, true
			}
		}
		gk := make([]string, 0, len(g))
		for k := range g {
			gk = append(gk, k)
		}
		sort.Strings(gk)
		for _, k := range gk {
			if _, ok := w[k]; !ok {
				return path + "/" + k, "<absent>", vC19Short(g[k]), true
			}
		}
		return "", "", "", false
	case []any:
		g, ok := got.([]any)
		if !ok || len(g) != len(w) {
			return path, vC19Short(want), vC19Short(got), true
		}
		for i := range w {
			if p, a, b, d := vC19Diff(w[i], g[i], fmt.Sprintf("%s/%d", path, i)); d {
				return p, a, b, true
			}
		}
		return "", "", "", false
	default:
		if vC19CanonStr(want) != vC19CanonStr(got) {
			return path, vC19Short(want), vC19Short(got), true
		}
		return "", "", "", false
	}
}

func vC19Pow2(n int, delta int64) string {
	// decimal text of 2^n + delta without big.Int formatting surprises
	digits := []int{1}
	for i := 0; i < n; i++ {
		carry := 0
		for j := range digits {
			d := digits[j]*2 + carry
			digits[j], carry = d%10, d/10
		}
		if carry > 0 {
			digits = append(digits, carry)
		}
	}
	// add delta (small, may be negative)
	d := delta
	for j := 0; d != 0 && j < len(digits); j++ {
		v := int64(digits[j]) + d
		d = 0
		for v < 0 {
			v += 10
			d--
		}
		if v > 9 {
			d += v / 10
			v = v % 10
		}
		digits[j] = int(v)
	}
	var sb strings.Builder
	for j := len(digits) - 1; j >= 0; j-- {
		sb.WriteByte(byte('0' + digits[j]))
	}
	return strings.TrimLeft(sb.String(), "0")
}

func vC19Catalogue(seed int64, ngen int) []*vC19Token {
	var toks []*vC19Token
	add := func(id, class, text string) {
		toks = append(toks, &vC19Token{ID: id, Class: class, Text: text})
	}
	p53, p63, p64 := vC19Pow2(53, 0), vC19Pow2(63, 0), vC19Pow2(64, 0)
	// --- empty containers and shapes
	add("empty", "empty", `{}`)
	add("empty_ws", "empty_whitespace", "{ \t\r\n}")
	add("empties", "empty", `{"o":{},"a":[],"s":"","":"empty key","n":{"":{"":[]}},"aa":[[],[[]],{}]}`)
	add("scalars", "scalars", `{"n":null,"t":true,"f":false,"arr":[null,true,false,0,"0","null"],"s":"true"}`)
	// --- integers around the interesting boundaries
	add("int53", "bigint", fmt.Sprintf(`{"a":%s,"b":%s,"c":%s,"d":-%s,"e":-%s}`, vC19Pow2(53, -1), p53, vC19Pow2(53, 1), p53, vC19Pow2(53, 1)))
	add("int63", "bigint", fmt.Sprintf(`{"max":%s,"over":%s,"min":-%s,"under":-%s}`, vC19Pow2(63, -1), p63, p63, vC19Pow2(63, 1)))
	add("int64", "bigint", fmt.Sprintf(`{"max":%s,"over":%s,"over1":%s,"arr":[%s,%s]}`, vC19Pow2(64, -1), p64, vC19Pow2(64, 1), vC19Pow2(64, -1), p64))
	add("int63_alone", "bigint", fmt.Sprintf(`{"v":%s}`, p63))
	add("int64_alone", "bigint", fmt.Sprintf(`{"v":%s}`, p64))
	add("int_huge", "bigint", `{"v":123456789012345678901234567890,"w":-123456789012345678901234567890,"x":`+vC19Pow2(200, 7)+`}`)
	add("int_in_array", "bigint", `{"l":[9007199254740993,[18446744073709551616,{"d":-9223372036854775809}]],"m":[[[-18446744073709551617]]]}`)
	// --- floats, exponents, zero forms
	add("exp_forms", "float", `{"a":1E-7,"b":1e+2,"c":1E2,"d":4.0E+2,"e":1.5e300,"f":5e-324,"g":1.7976931348623157e308,"h":0e10,"i":0E-5}`)
	add("exp_overflow", "float_overflow", `{"v":1e400}`)
	add("exp_overflow_neg", "float_overflow", `{"v":-1E+400,"w":[1e999]}`)
	add("exp_underflow", "float", `{"v":1e-400,"w":-1E-999}`)
	add("negzero", "float", `{"a":-0,"b":-0.0,"c":0.0,"d":-0e0,"e":[0,-0]}`)
	add("fractions", "float", `{"a":0.1,"b":0.30000000000000004,"c":3.141592653589793238462643383279,"d":123456789.123456789123456789,"e":1.0,"f":1.50,"g":100000000000000000000.0,"h":0.000000000000000000001}`)
	add("num_strings", "float", `{"a":"123","b":"1e5","c":"9223372036854775808","d":"-0","e":"0.10"}`)
	// --- strings and escapes
	add("esc_basic", "escape", `{"s":"\"q\" back\\slash sl\/ash \b\f\n\r\t end","k\"ey":"v","k\\2":"w","k\n3":"x"}`)
	add("esc_control", "escape", `{"nul":"\u0000","mid":"a\u0000b","us":"\u001f","del":"\u007f","k\u0000":"nul in key","\u0001":1}`)
	add("esc_unicode", "escape", `{"e1":"\u00e9","e2":"é","ls":"\u2028\u2029","lslit":" ","bom":"\ufeff","rep":"\ufffd","non":"\uffff","cjk":"日本語","rtl":"עברית","comb":"e\u0301"}`)
	add("esc_surrogate", "escape", `{"pair":"\ud83d\ude00","lit":"😀","mix":"a\ud83d\ude00b😀","max":"\udbff\udfff","k\ud83d\ude00":"emoji key","😀x":2}`)
	add("esc_html", "escape", `{"h":"<script>alert('x') & \"y\"</script>","amp":"&amp;","k<>&":"v"}`)
	add("esc_case", "escape", `{"a":"\u00E9\u00e9","b":"\/\\","c":"\u0041"}`)
	// --- keys resembling reserved names (top level non-reserved; reserved names nested are legal)
	add("key_like", "keylike", `{"id":"x","rev":"1-abc","_idx":1,"__rev":2,"_ids":[1],"deleted":true,"attachments":{},"sync":{"a":1},"exp":5,"_Id":"cap","_REV":"caps"}`)
	add("key_sync_case", "keycase_sync", `{"_Sync":0,"_SYNC":{"rev":"1-a"},"a":1}`)
	add("key_us", "underscore_user", `{"_":1,"__":2,"_foo":"bar","_cookie":{"a":1},"_0":[],"_syn":1,"_sync2":2,"_syncX_":3,"_attachment":{},"_revision":1,"_removedx":true}`)
	add("key_nested_reserved", "keylike", `{"n":{"_id":"x","_rev":"1-a","_deleted":true,"_attachments":{"a":{"data":"aGk="}},"_sync":{"rev":"9-x"},"_exp":5,"_removed":true,"_purged":true,"_revisions":{"start":1,"ids":["a"]},"_cv":"1@a","_sync_x":1},"a":[{"_id":1,"_rev":null}]}`)
	add("key_case", "keycase", `{"key":1,"Key":2,"KEY":3,"kEY":{"a":1,"A":2},"ß":1,"SS":2,"ı":3,"i":4,"I":5}`)
	add("key_dup", "keydup", `{"a":1,"b":{"x":1},"a":2,"b":{"y":2}}`)
	add("key_order1", "order", `{"b":1,"a":2,"c":{"z":1,"y":2},"10":1,"9":2}`)
	add("key_order2", "order", `{"c":{"y":2,"z":1},"9":2,"10":1,"a":2,"b":1,"extra":0}`)
	add("key_long", "keylike", `{"`+strings.Repeat("k", 300)+`":1,"`+strings.Repeat("é", 120)+`":2}`)
	add("channels_prop", "keylike", `{"channels":["a","b"],"type":"x","_channels":1}`)
	// --- whitespace variants
	add("ws_inner", "whitespace", "{ \"a\" : [ 1 , 2 , { } ] ,\n\t\"b\" : { \"c\" : [ ] } ,\r\n \"d\":\"  \" }")
	add("ws_outer", "whitespace", " \n\t{\"a\":1,\"b\":[1,2]}\n \t\r\n")
	add("ws_trailing_in", "whitespace", "{\"a\":{\"b\":1} \n}")
	add("ws_leading_in", "whitespace", "{\n\n\"a\":1}")
	// --- nesting and size
	deep := func(n int) string {
		var sb strings.Builder
		sb.WriteString(`{"d":`)
		for i := 0; i < n; i++ {
			if i%2 == 0 {
				sb.WriteString(`[`)
			} else {
				sb.WriteString(`{"k":`)
			}
		}
		sb.WriteString(`"bottom"`)
		for i := n - 1; i >= 0; i-- {
			if i%2 == 0 {
				sb.WriteString(`]`)
			} else {
				sb.WriteString(`}`)
			}
		}
		sb.WriteString(`}`)
		return sb.String()
	}
	add("deep64", "deep", deep(64))
	add("deep400", "deep", deep(400))
	add("big_string", "large", `{"s":"`+strings.Repeat("abcdefghij", 30)+`"}`)
	add("big_string_20k", "large", `{"s":"`+strings.Repeat("é😀x", 4000)+`","t":1}`)
	{
		var sb strings.Builder
		sb.WriteString(`{"arr":[`)
		for i := 0; i < 300; i++ {
			if i > 0 {
				sb.WriteByte(',')
			}
			fmt.Fprintf(&sb, "%d", int64(i)*int64(i)*int64(i)*1000003)
		}
		sb.WriteString(`],"wide":{`)
		for i := 0; i < 120; i++ {
			if i > 0 {
				sb.WriteByte(',')
			}
			fmt.Fprintf(&sb, `"k%03d":%d.%d`, i, i, i)
		}
		sb.WriteString(`}}`)
		add("big_wide", "large", sb.String())
	}
	// the same small body padded beyond the inline-revision-body threshold (250 bytes)
	add("pad_bigint", "bigint", fmt.Sprintf(`{"v":%s,"pad":"%s"}`, p64, strings.Repeat("p", 300)))
	add("pad_float", "float", fmt.Sprintf(`{"v":1.0,"w":-0,"x":0.10,"pad":"%s"}`, strings.Repeat("p", 300)))
	// --- generated
	g := &vC19Gen{r: newVC19Rand(seed)}
	for i := 0; i < ngen; i++ {
		add(fmt.Sprintf("gen%02d", i), "generated", g.object(0, true))
	}
	for _, t := range toks {
		v, ok := vC19Decode([]byte(t.Text))
		if !ok {
			panic("VERIF-FATAL catalogue token is not valid JSON: " + t.ID + " " + t.Text)
		}
		if _, isObj := v.(map[string]any); !isObj {
			panic("VERIF-FATAL catalogue token is not an object: " + t.ID)
		}
		t.val, t.canon = v, vC19CanonStr(v)
	}
	return toks
}

type vC19Rand struct{ s uint64 }

func newVC19Rand(seed int64) *vC19Rand {
	return &vC19Rand{s: uint64(seed)*0x9E3779B97F4A7C15 + 0x1234567}
}
func (r *vC19Rand) next() uint64 {
	r.s ^= r.s << 13
	r.s ^= r.s >> 7
	r.s ^= r.s << 17
	return r.s
}
func (r *vC19Rand) intn(n int) int { return int(r.next() % uint64(n)) }

type vC19Gen struct{ r *vC19Rand }

var vC19NumPool = []string{"0", "-0", "1", "-1", "1.0", "1.50", "0.1", "1e2", "1E-7", "1e+30", "9007199254740991", "9007199254740992",
	"9007199254740993", "-9007199254740993", "9223372036854775807", "9223372036854775808", "-9223372036854775808", "-9223372036854775809",
	"18446744073709551615", "18446744073709551616", "123456789012345678901234567890", "-123456789012345678901234567890",
	"3.141592653589793238462643383279", "0.30000000000000004", "1.7976931348623157e308", "5e-324", "123456789.123456789123456789",
	"100000000000000000000.0", "4.0E+2", "0.000001", "2.5e-3", "42", "-17", "1000000", "1e0", "0e0"}
var vC19StrPool = []string{``, `a`, `é`, `\u00e9`, `😀`, `\ud83d\ude00`, `\u0000`, `\"quoted\"`, `back\\slash`, `sl\/ash`, `\b\f\n\r\t`,
	`<b>&amp;</b>`, `  `, `_id`, `_rev`, `日本語`, `\u007f`, `�`, `null`, `true`, `1e5`, ` lead`, `trail `, `{\"a\":1}`, `[1,2]`}
var vC19KeyPool = []string{`a`, `b`, `name`, `type`, `value`, `id`, `rev`, `é`, `kéy`, `😀`, ``, ` `, `a.b`, `a/b`, `a b`, `0`, `-1`, `true`, `null`,
	`_id`, `_rev`, `_deleted`, `_attachments`, `_sync`, `_exp`, `_removed`, `_purged`, `_revisions`, `_x`, `__`, `Key`, `key`, `KEY`, `k\"q`, `k\\b`, `k\n`}

func (g *vC19Gen) ws() string {
	switch g.r.intn(8) {
	case 0:
		return " "
	case 1:
		return "\n"
	case 2:
		return "\t "
	}
	return ""
}

func (g *vC19Gen) value(depth int) string {
	k := g.r.intn(10)
	if depth >= 4 && k >= 7 {
		k = g.r.intn(7)
	}
	switch k {
	case 0, 1, 2:
		return vC19NumPool[g.r.intn(len(vC19NumPool))]
	case 3, 4:
		s := vC19StrPool[g.r.intn(len(vC19StrPool))]
		if g.r.intn(6) == 0 {
			s += vC19StrPool[g.r.intn(len(vC19StrPool))]
		}
		return `"` + s + `"`
	case 5:
		return []string{"null", "true", "false"}[g.r.intn(3)]
	case 6:
		return []string{"{}", "[]", `""`, "[[]]", "[{}]"}[g.r.intn(5)]
	case 7, 8:
		return g.object(depth+1, false)
	default:
		n := g.r.intn(5)
		var sb strings.Builder
		sb.WriteString("[" + g.ws())
		for i := 0; i < n; i++ {
			if i > 0 {
				sb.WriteString("," + g.ws())
			}
			sb.WriteString(g.value(depth + 1))
		}
		sb.WriteString(g.ws() + "]")
		return sb.String()
	}
}

func (g *vC19Gen) object(depth int, top bool) string {
	n := g.r.intn(6)
	if top {
		n = 1 + g.r.intn(8)
	}
	used := map[string]bool{}
	var sb strings.Builder
	sb.WriteString("{" + g.ws())
	first := true
	for i := 0; i < n; i++ {
		k := vC19KeyPool[g.r.intn(len(vC19KeyPool))]
		if top && strings.HasPrefix(k, "_") {
			k = "u" + k // top level: no leading underscore in generated bodies (the catalogue has dedicated tokens)
		}
		if used[k] {
			k = fmt.Sprintf("%s%d", k, i)
		}
		// keys that are equal after unescaping must not repeat either
		var dk string
		_ = json.Unmarshal([]byte(`"`+k+`"`), &dk)
		if used[dk] {
			continue
		}
		used[k], used[dk] = true, true
		if !first {
			sb.WriteString("," + g.ws())
		}
		first = false
		sb.WriteString(`"` + k + `"` + g.ws() + ":" + g.ws() + g.value(depth))
	}
	sb.WriteString(g.ws() + "}")
	return sb.String()
}

// vC19Splice inserts JSON members (text, without braces) at the front of the object text, preserving the rest of the
// client's text byte for byte.
func vC19Splice(t *vC19Token, props string) string {
	text := t.Text
	i := strings.IndexByte(text, '{')
	if len(t.val.(map[string]any)) == 0 {
		return text[:i+1] + props + text[i+1:]
	}
	return text[:i+1] + props + "," + text[i+1:]
}

// ---------------------------------------------------------------------------------------------------------------
// one instance = one behaviour bound to tokens on one document

type vC19Read struct {
	cell   vC19Cell
	status int
	valid  bool
	got    int
	extra  []string
	diffP  string
	diffW  string
	diffG  string
	raw    string
	done   bool
}

type vC19Inst struct {
	idx     int
	behIdx  int
	beh     *vC19Beh
	docID   string
	toks    []*vC19Token // toks[s-1] = token written at step s
	events  []vObj       // write events in order
	revIDs  []string     // revIDs[i-1] = real revision id of model revision i
	reads   []*vC19Read
	dead    bool // first write refused or reserved write accepted: no reads
	inFeed  bool // the plain changes feed lists the document (replication can only deliver what the feed lists)
	lastSeq uint64
}

type vC19Env struct {
	t    *testing.T
	rt   *RestTester
	coll *db.DatabaseCollectionWithUser
	ds   base.DataStore
	ks   string
	blip *vC19Blip
}

func (e *vC19Env) send(method, path, body string) *TestResponse {
	if strings.Contains(path, "open_revs=") {
		return e.rt.SendAdminRequestWithHeaders(method, path, body, map[string]string{"Accept": "application/json"})
	}
	return e.rt.SendAdminRequest(method, path, body)
}

func vC19RevField(body []byte, field string) string {
	dec := json.NewDecoder(bytes.NewReader(body))
	dec.UseNumber()
	var m map[string]any
	if dec.Decode(&m) != nil {
		return ""
	}
	s, _ := m[field].(string)
	return s
}

func vC19ParseRev(rev string) (int, string) {
	i := strings.IndexByte(rev, '-')
	if i < 0 {
		return 0, ""
	}
	g := 0
	fmt.Sscanf(rev[:i], "%d", &g)
	return g, rev[i+1:]
}

// history of model revision i (newest first) as digests, and its generation
func (in *vC19Inst) historyOf(tree []int, i int) (gen int, digests []string) {
	for j := i; j > 0; j = tree[j-1] {
		g, d := vC19ParseRev(in.revIDs[j-1])
		if j == i {
			gen = g
		}
		digests = append(digests, d)
	}
	return
}

func vC19Quote(s string) string { b, _ := json.Marshal(s); return string(b) }

func vC19RevisionsProp(gen int, digests []string) string {
	b, _ := json.Marshal(digests)
	return fmt.Sprintf(`"_revisions":{"start":%d,"ids":%s}`, gen, b)
}

// bulkStatus extracts the per-document outcome of a _bulk_docs response
func vC19BulkStatus(resp *TestResponse) (int, string) {
	if resp.Code != 201 {
		return resp.Code, ""
	}
	var rows []map[string]any
	dec := json.NewDecoder(bytes.NewReader(resp.Body.Bytes()))
	dec.UseNumber()
	if dec.Decode(&rows) != nil || len(rows) != 1 {
		return 599, ""
	}
	if st, ok := rows[0]["status"]; ok {
		return vInt(st), ""
	}
	rev, _ := rows[0]["rev"].(string)
	return 201, rev
}

// doWrite sends body text through write path wp.  mode: "create" | "child" | "branch".  model tree BEFORE the write
// is tree/cur (model numbering); returns HTTP-ish status and the new revision id.
func (e *vC19Env) doWrite(in *vC19Inst, wp, mode string, wins bool, tok *vC19Token, tree []int, cur int, stepNo int) (int, string) {
	id := in.docID
	curRev := ""
	if cur > 0 {
		curRev = in.revIDs[cur-1]
	}
	// explicit revision ids for the paths where the client names the revision
	neRev := func() (string, string) {
		var gen int
		var hist []string
		switch mode {
		case "create":
			gen = 1
		case "child":
			g, h := in.historyOf(tree, cur)
			gen, hist = g+1, h
		case "branch":
			g, h := in.historyOf(tree, cur)
			gen, hist = g, h[1:]
		}
		dig := fmt.Sprintf("7777%04d", stepNo)
		if mode == "branch" {
			if wins {
				dig = fmt.Sprintf("zzzz%04d", stepNo)
			} else {
				dig = fmt.Sprintf("0000%04d", stepNo)
			}
		}
		rev := fmt.Sprintf("%d-%s", gen, dig)
		return rev, vC19RevisionsProp(gen, append([]string{dig}, hist...))
	}
	switch wp {
	case "PutSingle":
		path := "/" + e.ks + "/" + id
		if mode == "child" {
			path += "?rev=" + url.QueryEscape(curRev)
		}
		resp := e.send("PUT", path, tok.Text)
		return resp.Code, vC19RevField(resp.Body.Bytes(), "rev")
	case "PostSingle":
		resp := e.send("POST", "/"+e.ks+"/", tok.Text)
		if resp.Code == 200 {
			in.docID = vC19RevField(resp.Body.Bytes(), "id")
		}
		return resp.Code, vC19RevField(resp.Body.Bytes(), "rev")
	case "BulkDocs":
		props := `"_id":` + vC19Quote(id)
		if mode == "child" {
			props += `,"_rev":` + vC19Quote(curRev)
		}
		resp := e.send("POST", "/"+e.ks+"/_bulk_docs", `{"docs":[`+vC19Splice(tok, props)+`]}`)
		return vC19BulkStatus(resp)
	case "BulkDocsNE":
		rev, revisions := neRev()
		props := `"_id":` + vC19Quote(id) + `,"_rev":` + vC19Quote(rev) + `,` + revisions
		resp := e.send("POST", "/"+e.ks+"/_bulk_docs", `{"new_edits":false,"docs":[`+vC19Splice(tok, props)+`]}`)
		st, _ := vC19BulkStatus(resp) // the response carries the document's WINNING revision, not the one just added
		return st, rev
	case "PutSingleNE":
		rev, revisions := neRev()
		props := `"_rev":` + vC19Quote(rev) + `,` + revisions
		resp := e.send("PUT", "/"+e.ks+"/"+id+"?new_edits=false", vC19Splice(tok, props))
		return resp.Code, rev
	case "ExtImport":
		ctx := e.rt.Context()
		if mode == "create" {
			if ok, err := e.ds.AddRaw(ctx, id, 0, []byte(tok.Text)); err != nil || !ok {
				e.t.Fatalf("VERIF-FATAL external AddRaw %s: %v %v", id, ok, err)
			}
		} else {
			if err := e.ds.SetRaw(ctx, id, 0, nil, []byte(tok.Text)); err != nil {
				e.t.Fatalf("VERIF-FATAL external SetRaw %s: %v", id, err)
			}
		}
		// on-demand import through the gateway (auto import is off: deterministic)
		resp := e.send("GET", "/"+e.ks+"/"+id, "")
		rev := ""
		if doc, err := e.coll.GetDocument(ctx, id, db.DocUnmarshalSync); err == nil && doc != nil {
			rev = doc.GetRevTreeID()
		}
		st := resp.Code
		if st == 200 {
			st = 201
		}
		return st, rev
	case "BlipPushRev":
		rev, _ := neRev()
		var hist []string
		switch mode {
		case "child":
			for j := cur; j > 0; j = tree[j-1] {
				hist = append(hist, in.revIDs[j-1])
			}
		case "branch":
			for j := tree[cur-1]; j > 0; j = tree[j-1] {
				hist = append(hist, in.revIDs[j-1])
			}
		}
		return e.blip.pushRev(id, rev, hist, []byte(tok.Text)), rev
	}
	e.t.Fatalf("VERIF-FATAL unknown write path %q", wp)
	return 0, ""
}

// realTree projects the stored revision tree into model numbering: parents (99 = not a model revision), winner index,
// tombstoned revisions.
func (e *vC19Env) realTree(in *vC19Inst) ([]int, int, []int) {
	tomb := []int{}
	doc, err := e.coll.GetDocument(e.rt.Context(), in.docID, db.DocUnmarshalSync)
	if err != nil || doc == nil {
		return []int{}, 0, tomb
	}
	idx := map[string]int{}
	for i, r := range in.revIDs {
		idx[r] = i + 1
	}
	tree := []int{}
	for _, r := range in.revIDs {
		info, ok := doc.History[r]
		if !ok {
			tree = append(tree, 99)
			continue
		}
		if info.Deleted {
			tomb = append(tomb, idx[r])
		}
		p := 0
		if info.Parent != "" {
			var known bool
			if p, known = idx[info.Parent]; !known {
				p = 99
			}
		}
		tree = append(tree, p)
	}
	for i := len(in.revIDs); i < len(doc.History); i++ {
		tree = append(tree, 99) // revisions the model does not know about
	}
	return tree, idx[doc.GetRevTreeID()], tomb
}

var vC19ResvProps = map[string]string{
	"sync": `"_sync":{"rev":"1-abc","sequence":1,"history":{"revs":["1-abc"],"parents":[-1]}}`, "sync_null": `"_sync":null`,
	"purged_true": `"_purged":true`, "purged_false": `"_purged":false`,
	"removed_true": `"_removed":true`, "removed_false": `"_removed":false`, "removed_null": `"_removed":null`,
	"syncprefix": `"_sync_foo":1`, "exp_badstring": `"_exp":"abc"`, "exp_badtype": `"_exp":{"a":1}`,
	"id_mismatch": `"_id":"someOtherDoc"`, "rev_malformed": `"_rev":"abc"`,
	"id_any": `"_id":"someDoc"`, "rev_any": `"_rev":"1-abc"`, "exp_any": `"_exp":100`, "revisions_any": `"_revisions":{"start":1,"ids":["abc"]}`,
	"deleted_any": `"_deleted":false`, "attachments_badtype": `"_attachments":false`,
	"id_nonstring": `"_id":5`, "deleted_nonbool": `"_deleted":"yes"`, "exp_null": `"_exp":null`,
}

// doReserved sends a body carrying the reserved property of class cls through wp.
func (e *vC19Env) doReserved(in *vC19Inst, wp, cls string, tree []int, cur int, stepNo int) vObj {
	id := in.docID
	ctx := e.rt.Context()
	prop, ok := vC19ResvProps[cls]
	if !ok {
		e.t.Fatalf("VERIF-FATAL unknown reserved class %q", cls)
	}
	mode := "create"
	curRev := ""
	if cur > 0 {
		mode, curRev = "update", in.revIDs[cur-1]
	}
	// "whitespace and key-order variations": the same JSON value with insignificant whitespace between the reserved
	// member's name and its colon (a byte-level pre-filter must not depend on the compact form)
	wsv := in.idx % 3
	prop = strings.Replace(prop, `":`, []string{`":`, `" : `, "\"\t\n : "}[wsv], 1)
	body := `{` + prop + `,"v":"reserved ` + cls + `"}`
	status := 0
	gen, hist := 1, []string{}
	if cur > 0 {
		g, h := in.historyOf(tree, cur)
		gen, hist = g+1, h
	}
	dig := fmt.Sprintf("7777%04d", stepNo)
	neRev := fmt.Sprintf("%d-%s", gen, dig)
	revisions := vC19RevisionsProp(gen, append([]string{dig}, hist...))
	hasOwn := func(name string) bool { return strings.HasPrefix(prop, `"`+name+`"`) }
	switch wp {
	case "PutSingle":
		path := "/" + e.ks + "/" + id
		if mode == "update" && !hasOwn("_rev") {
			path += "?rev=" + url.QueryEscape(curRev)
		}
		status = e.send("PUT", path, body).Code
	case "PostSingle":
		if hasOwn("_id") {
			status = e.send("POST", "/"+e.ks+"/", body).Code
		} else {
			status = e.send("POST", "/"+e.ks+"/", `{"_id":`+vC19Quote(id)+`,`+body[1:]).Code
		}
	case "BulkDocs":
		props := ""
		if !hasOwn("_id") {
			props += `"_id":` + vC19Quote(id) + `,`
		}
		if mode == "update" && !hasOwn("_rev") {
			props += `"_rev":` + vC19Quote(curRev) + `,`
		}
		status, _ = vC19BulkStatus(e.send("POST", "/"+e.ks+"/_bulk_docs", `{"docs":[{`+props+body[1:]+`]}`))
	case "BulkDocsNE":
		props := `"_rev":` + vC19Quote(neRev) + `,` + revisions + `,`
		if !hasOwn("_id") {
			props = `"_id":` + vC19Quote(id) + `,` + props
		}
		status, _ = vC19BulkStatus(e.send("POST", "/"+e.ks+"/_bulk_docs", `{"new_edits":false,"docs":[{`+props+body[1:]+`]}`))
	case "PutSingleNE":
		props := `"_rev":` + vC19Quote(neRev) + `,` + revisions + `,`
		status = e.send("PUT", "/"+e.ks+"/"+id+"?new_edits=false", `{`+props+body[1:]).Code
	case "ExtImport":
		if ok, err := e.ds.AddRaw(ctx, id, 0, []byte(body)); err != nil || !ok {
			e.t.Fatalf("VERIF-FATAL external AddRaw %s: %v %v", id, ok, err)
		}
		status = e.send("GET", "/"+e.ks+"/"+id, "").Code
		if status == 200 {
			status = 201
		}
	case "BlipPushRev":
		status = e.blip.pushRev(id, neRev, nil, []byte(body))
	default:
		e.t.Fatalf("VERIF-FATAL unknown write path %q", wp)
	}
	// what is there now
	stored := false
	if wp == "ExtImport" {
		_, xattrs, _, err := e.ds.GetWithXattrs(ctx, id, []string{base.SyncXattrName})
		stored = err == nil && len(xattrs[base.SyncXattrName]) > 0
	} else if mode == "create" {
		_, _, err := e.ds.GetRaw(ctx, id)
		stored = err == nil
	} else {
		doc, err := e.coll.GetDocument(ctx, id, db.DocUnmarshalSync)
		stored = err != nil || doc == nil || doc.GetRevTreeID() != curRev
	}
	getStatus := e.send("GET", "/"+e.ks+"/"+id, "").Code
	return vObj{"a": "WriteReserved", "wp": wp, "cls": cls, "mode": mode, "status": status, "stored": stored, "getStatus": getStatus}
}

// runWrites executes the write steps of the instance.
func (e *vC19Env) runWrites(in *vC19Inst) {
	tree, cur := []int{}, 0
	for si, st := range in.beh.Steps {
		tok := in.toks[si]
		switch st.Act {
		case "Create", "Supersede", "Branch":
			mode := map[string]string{"Create": "create", "Supersede": "child", "Branch": "branch"}[st.Act]
			status, rev := e.doWrite(in, st.Wp, mode, st.Wins, tok, tree, cur, si+1)
			acc := status == 200 || status == 201
			if acc {
				if rev == "" {
					e.t.Fatalf("VERIF-FATAL accepted write without revision id: %s step %d", in.docID, si+1)
				}
				in.revIDs = append(in.revIDs, rev)
			}
			rtree, rcur, rtomb := e.realTree(in)
			in.events = append(in.events, vObj{"a": st.Act, "wp": st.Wp, "wins": st.Wins, "tok": st.Tok, "status": status, "acc": acc,
				"tree": rtree, "cur": rcur, "tomb": rtomb, "tokId": tok.ID})
			if acc {
				tree, cur = rtree, rcur
			} else if si == 0 {
				in.dead = true
				return
			}
		case "TombstoneWinner":
			// DELETE of the winning leaf: the other leaf is promoted to current (its body moves back into the document)
			resp := e.send("DELETE", "/"+e.ks+"/"+in.docID+"?rev="+url.QueryEscape(in.revIDs[cur-1]), "")
			acc := resp.Code == 200
			if acc {
				in.revIDs = append(in.revIDs, vC19RevField(resp.Body.Bytes(), "rev"))
			}
			rtree, rcur, rtomb := e.realTree(in)
			in.events = append(in.events, vObj{"a": st.Act, "wp": st.Wp, "wins": false, "tok": st.Tok, "status": resp.Code, "acc": acc,
				"tree": rtree, "cur": rcur, "tomb": rtomb, "tokId": ""})
			if acc {
				tree, cur = rtree, rcur
			}
		case "WriteReserved":
			ev := e.doReserved(in, st.Wp, st.Cls, tree, cur, si+1)
			in.events = append(in.events, ev)
			if s := ev["status"].(int); s == 200 || s == 201 {
				in.dead = true // accepted: the model says nothing about the document any more
			}
		default:
			e.t.Fatalf("VERIF-FATAL unknown act %q", st.Act)
		}
	}
}

// judge one returned body: which token of the instance does it equal, which keys were added
func (in *vC19Inst) judge(rd *vC19Read, status int, body []byte, found bool) {
	rd.done = true
	rd.status = status
	if !found || status != 200 {
		rd.valid = true
		rd.extra = []string{}
		if len(body) > 0 {
			rd.raw = string(body[:min(len(body), 200)])
		}
		return
	}
	v, ok := vC19Decode(body)
	m, isObj := v.(map[string]any)
	rd.extra = []string{}
	if !ok || !isObj {
		rd.valid = false
		rd.raw = string(body[:min(len(body), 300)])
		return
	}
	rd.valid = true
	want := in.toks[rd.cell.Expect-1]
	wantKeys := want.val.(map[string]any)
	stripped := make(map[string]any, len(m))
	for k, x := range m {
		if _, has := wantKeys[k]; !has {
			rd.extra = append(rd.extra, k)
			if vC19Added[k] || (rd.cell.Rp == "Raw" && k == "_xattrs") {
				continue // exactly the documented added properties are removed before comparing
			}
		}
		stripped[k] = x
	}
	sort.Strings(rd.extra)
	c := vC19CanonStr(stripped)
	for s, tk := range in.toks {
		if s < len(in.beh.Steps) && tk != nil && tk.canon == c {
			rd.got = s + 1
			break
		}
	}
	if rd.got != rd.cell.Expect {
		rd.diffP, rd.diffW, rd.diffG, _ = vC19Diff(want.val, any(stripped), "")
		rd.raw = string(body[:min(len(body), 300)])
	}
}

func (e *vC19Env) runReads(in *vC19Inst, cache string, changes vC19Changes) {
	if in.dead {
		return
	}
	id := in.docID
	for _, rd := range in.reads {
		if rd.cell.Cache != cache || rd.cell.Rev > len(in.revIDs) {
			continue
		}
		rev := in.revIDs[rd.cell.Rev-1]
		switch rd.cell.Rp {
		case "GetDoc":
			r := e.send("GET", "/"+e.ks+"/"+id, "")
			in.judge(rd, r.Code, r.Body.Bytes(), true)
		case "GetRev":
			r := e.send("GET", "/"+e.ks+"/"+id+"?rev="+url.QueryEscape(rev), "")
			in.judge(rd, r.Code, r.Body.Bytes(), true)
		case "Raw":
			r := e.send("GET", "/"+e.ks+"/_raw/"+id, "")
			in.judge(rd, r.Code, r.Body.Bytes(), true)
		case "OpenRevsAll", "OpenRevsList":
			q := "all"
			if rd.cell.Rp == "OpenRevsList" {
				q = url.QueryEscape(`["` + rev + `"]`)
			}
			r := e.send("GET", "/"+e.ks+"/"+id+"?open_revs="+q, "")
			if r.Code != 200 {
				in.judge(rd, r.Code, r.Body.Bytes(), true)
				break
			}
			var entries []map[string]json.RawMessage
			if json.Unmarshal(r.Body.Bytes(), &entries) != nil {
				in.judge(rd, 200, r.Body.Bytes(), true) // not valid JSON: recorded as such
				break
			}
			found := false
			for _, en := range entries {
				if okb, has := en["ok"]; has && vC19RevField(okb, "_rev") == rev {
					in.judge(rd, 200, okb, true)
					found = true
					break
				}
			}
			if !found {
				in.judge(rd, 404, r.Body.Bytes(), false)
			}
		case "BulkGet":
			r := e.send("POST", "/"+e.ks+"/_bulk_get", `{"docs":[{"id":`+vC19Quote(id)+`,"rev":`+vC19Quote(rev)+`}]}`)
			if r.Code != 200 {
				in.judge(rd, r.Code, r.Body.Bytes(), true)
				break
			}
			_, params, err := mime.ParseMediaType(r.Header().Get("Content-Type"))
			if err != nil {
				in.judge(rd, 200, r.Body.Bytes(), true)
				break
			}
			mr := multipart.NewReader(bytes.NewReader(r.Body.Bytes()), params["boundary"])
			part, err := mr.NextPart()
			if err != nil {
				in.judge(rd, 200, r.Body.Bytes(), true)
				break
			}
			pb, _ := io.ReadAll(part)
			if strings.Contains(part.Header.Get("Content-Type"), "error") {
				var em map[string]any
				st := 500
				if json.Unmarshal(pb, &em) == nil {
					if f, ok := em["status"].(float64); ok {
						st = int(f)
					}
				}
				in.judge(rd, st, pb, true)
			} else {
				in.judge(rd, 200, pb, true)
			}
		case "AllDocs":
			r := e.send("POST", "/"+e.ks+"/_all_docs?include_docs=true", `{"keys":[`+vC19Quote(id)+`]}`)
			if r.Code != 200 {
				in.judge(rd, r.Code, r.Body.Bytes(), true)
				break
			}
			var res struct {
				Rows []map[string]json.RawMessage `json:"rows"`
			}
			if json.Unmarshal(r.Body.Bytes(), &res) != nil || len(res.Rows) != 1 {
				in.judge(rd, 200, r.Body.Bytes(), true) // whole response is not valid JSON
				break
			}
			row := res.Rows[0]
			if docb, has := row["doc"]; has {
				in.judge(rd, 200, docb, true)
			} else {
				st := 500
				if sb, has := row["status"]; has {
					fmt.Sscanf(string(sb), "%d", &st)
				}
				rb, _ := json.Marshal(row)
				in.judge(rd, st, rb, true)
			}
		case "Changes":
			if !changes.inFeed[id] {
				break // the feed does not list the document at all: not observable (recorded in the meta file)
			}
			if docb, ok := changes.docs[id]; ok {
				in.judge(rd, 200, docb, true)
			} else {
				in.judge(rd, 404, nil, false) // listed by the plain feed, dropped by the include_docs feed
			}
		case "BlipPull", "PeerPush", "PeerPull":
			// filled in by the replication phases
		default:
			e.t.Fatalf("VERIF-FATAL unknown read path %q", rd.cell.Rp)
		}
	}
}

// vC19Changes is what one pair of _changes requests (without and with include_docs) said about a batch of documents
type vC19Changes struct {
	inFeed map[string]bool   // listed by the plain feed
	docs   map[string][]byte // "doc" member of the include_docs feed (or the raw response when it is not valid JSON)
}

type vC19ChangesResp struct {
	Results []struct {
		ID  string          `json:"id"`
		Doc json.RawMessage `json:"doc"`
	} `json:"results"`
}

// changesDocs: the batch is listed once without bodies (which documents does the feed know at all) and once with
// include_docs.  When the include_docs response as a whole is not valid JSON (one broken row spoils it), every document
// is asked for on its own, so that only the broken one is judged.
func (e *vC19Env) changesDocs(since uint64, want map[string]bool) vC19Changes {
	res := vC19Changes{inFeed: map[string]bool{}, docs: map[string][]byte{}}
	var plain vC19ChangesResp
	r := e.send("GET", fmt.Sprintf("/%s/_changes?since=%d", e.ks, since), "")
	if r.Code != 200 || json.Unmarshal(r.Body.Bytes(), &plain) != nil {
		e.t.Fatalf("VERIF-FATAL plain _changes failed: %d %.300s", r.Code, r.Body.String())
	}
	for _, row := range plain.Results {
		if want[row.ID] {
			res.inFeed[row.ID] = true
		}
	}
	r = e.send("GET", fmt.Sprintf("/%s/_changes?include_docs=true&since=%d", e.ks, since), "")
	var out vC19ChangesResp
	if r.Code == 200 && json.Unmarshal(r.Body.Bytes(), &out) == nil {
		for _, row := range out.Results {
			if want[row.ID] && len(row.Doc) > 0 {
				res.docs[row.ID] = row.Doc
			}
		}
		return res
	}
	for id := range res.inFeed {
		rr := e.send("GET", fmt.Sprintf("/%s/_changes?include_docs=true&since=%d&filter=_doc_ids&doc_ids=%s", e.ks, since, url.QueryEscape(`["`+id+`"]`)), "")
		var one vC19ChangesResp
		if rr.Code != 200 {
			continue
		}
		if json.Unmarshal(rr.Body.Bytes(), &one) != nil {
			res.docs[id] = rr.Body.Bytes() // recorded as returned: not valid JSON
		} else if len(one.Results) == 1 && len(one.Results[0].Doc) > 0 {
			res.docs[id] = one.Results[0].Doc
		}
	}
	return res
}

// ---------------------------------------------------------------------------------------------------------------
// BLIP (thorough tier): push of raw rev messages, one-shot pull of everything; revtree sub-protocol (V3)

type vC19Blip struct {
	t  *testing.T
	bt *BlipTester
}

func vC19NewBlip(t *testing.T, rt *RestTester) *vC19Blip {
	rt.CreateUser("c19blip", []string{"*"})
	bt := NewBlipTesterFromSpecWithRT(rt, &BlipTesterSpec{connectingUsername: "c19blip"})
	return &vC19Blip{t: t, bt: bt}
}

// pushRev sends one rev message with the exact body bytes and returns an HTTP-like status
func (b *vC19Blip) pushRev(docID, rev string, history []string, body []byte) int {
	rq := blip.NewRequest()
	rq.SetProfile(db.MessageRev)
	rq.Properties[db.RevMessageID] = docID
	rq.Properties[db.RevMessageRev] = rev
	if len(history) > 0 {
		rq.Properties[db.RevMessageHistory] = strings.Join(history, ",")
	}
	rq.SetBody(body)
	b.bt.addCollectionProperty(rq)
	b.bt.Send(rq)
	resp := rq.Response()
	if resp.Type() == blip.ErrorType {
		code := 500
		fmt.Sscanf(resp.Properties["Error-Code"], "%d", &code)
		return code
	}
	return 201
}

// pullAll runs a one-shot pull since 0 asking for every revision offered; raw rev bodies by document id
func (b *vC19Blip) pullAll() map[string][]byte {
	var mu sync.Mutex
	got := map[string][]byte{}
	changesWg, revsWg := sync.WaitGroup{}, sync.WaitGroup{}
	h := b.bt.blipContext.HandlerForProfile
	defer func() { delete(h, "changes"); delete(h, "rev"); delete(h, "norev") }()
	h["changes"] = getChangesHandler(b.t, &changesWg, &revsWg)
	h["rev"] = func(rq *blip.Message) {
		defer revsWg.Done()
		body, err := rq.Body()
		if err == nil {
			mu.Lock()
			got[rq.Properties[db.RevMessageID]] = append([]byte{}, body...)
			mu.Unlock()
		}
		if !rq.NoReply() {
			rq.Response().SetBody([]byte{})
		}
	}
	h["norev"] = func(rq *blip.Message) { defer revsWg.Done() }
	changesWg.Add(1)
	sub := blip.NewRequest()
	sub.SetProfile(db.MessageSubChanges)
	sub.Properties[db.SubChangesContinuous] = "false"
	b.bt.addCollectionProperty(sub)
	b.bt.Send(sub)
	changesWg.Wait()
	revsWg.Wait()
	return got
}

// ---------------------------------------------------------------------------------------------------------------
// replication to another peer (thorough tier): a one-shot push from the gateway under test to a second gateway, and a
// one-shot pull by a third gateway from the gateway under test

type vC19Peers struct {
	pushDst *RestTester
	puller  *RestTester
}

func vC19NewPeer(t *testing.T, name string, active bool) *RestTester {
	ctx := base.TestCtx(t)
	tb := base.GetTestBucket(t)
	t.Cleanup(func() { tb.Close(ctx) })
	rt := NewRestTester(t, &RestTesterConfig{CustomTestBucket: tb.NoCloseClone(), SgReplicateEnabled: active,
		DatabaseConfig: &DatabaseConfig{DbConfig: DbConfig{Name: name}}})
	t.Cleanup(rt.Close)
	_ = rt.Bucket()
	return rt
}

func vC19PublicURL(t *testing.T, rt *RestTester, user string) string {
	rt.CreateUser(user, []string{"*"})
	srv := httptest.NewServer(rt.TestPublicHandler())
	t.Cleanup(srv.Close)
	u, _ := url.Parse(srv.URL + "/" + rt.GetDatabase().Name)
	u.User = url.UserPassword(user, RestTesterDefaultUserPassword)
	return u.String()
}

// runOneShot creates a one-shot replication on rt and waits until it has stopped (generous bound; progress based)
func vC19RunOneShot(t *testing.T, rt *RestTester, id, remote string, dir db.ActiveReplicatorDirection) string {
	rt.CreateReplication(id, remote, dir, nil, false, db.ConflictResolverDefault, "")
	deadline := time.Now().Add(10 * time.Minute)
	last := ""
	for time.Now().Before(deadline) {
		r := rt.SendAdminRequest("GET", "/{{.db}}/_replicationStatus/"+id, "")
		var st db.ReplicationStatus
		if r.Code == 200 && json.Unmarshal(r.Body.Bytes(), &st) == nil {
			last = st.Status
			if st.Status == db.ReplicationStateStopped || st.Status == db.ReplicationStateError {
				return fmt.Sprintf("%s %.300s", st.Status, r.Body.String())
			}
		}
		time.Sleep(50 * time.Millisecond)
	}
	t.Fatalf("VERIF-FATAL replication %s did not finish (last status %q)", id, last)
	return ""
}

// ---------------------------------------------------------------------------------------------------------------

func TestVerif_C19_BodyPaths(t *testing.T) {
	var behs []vC19Beh
	vReadJSON(t, "VERIF_BEH", &behs)
	tw := vOpenTrace(t, "VERIF_TRACE_OUT")
	defer tw.Close()
	// same lines with the diagnostic fields (token ids, first difference ...) for the check script; TLC reads the slim file
	detailFile, err := os.Create(os.Getenv("VERIF_TRACE_OUT") + ".detail")
	if err != nil {
		t.Fatalf("VERIF-FATAL cannot create detail file: %v", err)
	}
	defer detailFile.Close()
	detail := json.NewEncoder(detailFile)
	seed := vSeed()
	toks := vC19Catalogue(seed, vEnvInt("VERIF_C19_NGEN", 30))
	if lim := vEnvInt("VERIF_C19_MAXTOK", 0); lim > 0 && lim < len(toks) {
		toks = toks[:lim]
	}

	needBlip, needPeers := false, false
	for _, b := range behs {
		for _, s := range b.Steps {
			needBlip = needBlip || s.Wp == "BlipPushRev"
		}
		for _, c := range b.Reads {
			needBlip = needBlip || c.Rp == "BlipPull"
			needPeers = needPeers || c.Rp == "PeerPush" || c.Rp == "PeerPull"
		}
	}
	rt := NewRestTester(t, &RestTesterConfig{AutoImport: base.Ptr(false), SgReplicateEnabled: needPeers})
	defer rt.Close()
	// conflicting revisions cannot be created through the configuration any more; the repository's own tests keep the
	// legacy behaviour reachable this way (a database upgraded with conflicts in it)
	rt.GetDatabase().EnableAllowConflicts(rt.TB())
	coll, _ := rt.GetSingleTestDatabaseCollectionWithUser()
	e := &vC19Env{t: t, rt: rt, coll: coll, ds: rt.GetSingleDataStore(), ks: rt.GetSingleKeyspace()}
	if needBlip {
		e.blip = vC19NewBlip(t, rt)
		defer e.blip.bt.Close()
	}

	// ---- instances: behaviour x token assignment
	rnd := newVC19Rand(seed + 77)
	var insts []*vC19Inst
	distinctFrom := func(start int, prev []*vC19Token) *vC19Token {
		for k := 0; k < len(toks); k++ {
			c := toks[(start+k)%len(toks)]
			ok := true
			for _, p := range prev {
				ok = ok && p.canon != c.canon
			}
			if ok {
				return c
			}
		}
		t.Fatalf("VERIF-FATAL catalogue too small")
		return nil
	}
	for bi := range behs {
		b := &behs[bi]
		var bases []int
		if b.Ntok <= 0 || b.Ntok >= len(toks) {
			for i := range toks {
				bases = append(bases, i)
			}
		} else {
			for i := 0; i < b.Ntok; i++ {
				bases = append(bases, rnd.intn(len(toks)))
			}
		}
		resvOnly := len(b.Steps) == 1 && b.Steps[0].Act == "WriteReserved"
		if resvOnly || (len(b.Steps) > 0 && b.Steps[len(b.Steps)-1].Act == "WriteReserved") {
			bases = bases[:1] // the reserved table does not depend on the token
			if !resvOnly {
				bases[0] = rnd.intn(len(toks))
			} else {
				// three instances: one per whitespace variant of the reserved member (doReserved, by instance index)
				bases = []int{bases[0], bases[0], bases[0]}
			}
		}
		for _, base0 := range bases {
			in := &vC19Inst{idx: len(insts), behIdx: bi, beh: b}
			in.docID = fmt.Sprintf("c19_%d_%d", bi, in.idx)
			for si := range b.Steps {
				in.toks = append(in.toks, distinctFrom(base0+si*7, in.toks))
			}
			for _, c := range b.Reads {
				in.reads = append(in.reads, &vC19Read{cell: c})
			}
			insts = append(insts, in)
		}
	}

	// ---- batches: writes, warm reads, revision cache emptied, cold reads
	batch := vEnvInt("VERIF_C19_BATCH", 200)
	unobserved := []vObj{}
	t0 := time.Now()
	var dWrite, dRead time.Duration
	for lo := 0; lo < len(insts); lo += batch {
		hi := min(lo+batch, len(insts))
		since, _ := rt.GetDatabase().LastSequence(rt.Context())
		want := map[string]bool{}
		tw0 := time.Now()
		for _, in := range insts[lo:hi] {
			e.runWrites(in)
			if !in.dead && len(in.revIDs) > 0 {
				want[in.docID] = true
			}
		}
		rt.WaitForPendingChanges()
		dWrite += time.Since(tw0)
		tr0 := time.Now()
		for _, cache := range []string{"warm", "cold"} {
			if cache == "cold" {
				rt.GetDatabase().FlushRevisionCacheForTest()
			}
			ch := e.changesDocs(since, want)
			for _, in := range insts[lo:hi] {
				in.inFeed = ch.inFeed[in.docID]
				e.runReads(in, cache, ch)
			}
		}
		dRead += time.Since(tr0)
	}
	// ---- replication phases (thorough): everything written above, after the revision cache was emptied
	// replication starts from sequence 0: only what the feed lists from there can be delivered at all (with Rosmar a view
	// backfill silently omits documents its JavaScript engine cannot parse, e.g. numbers beyond the double range)
	fullFeed := map[string]bool{}
	if needBlip || needPeers {
		var plain vC19ChangesResp
		r := e.send("GET", "/"+e.ks+"/_changes?since=0", "")
		if r.Code != 200 || json.Unmarshal(r.Body.Bytes(), &plain) != nil {
			t.Fatalf("VERIF-FATAL plain _changes since 0 failed: %d %.300s", r.Code, r.Body.String())
		}
		for _, row := range plain.Results {
			fullFeed[row.ID] = true
		}
	}
	fill := func(rp string, get func(in *vC19Inst) (int, []byte, bool)) {
		for _, in := range insts {
			if in.dead || len(in.revIDs) == 0 || !in.inFeed || !fullFeed[in.docID] {
				continue // not listed by the feed: replication cannot be observed for it (recorded as unobserved)
			}
			for _, rd := range in.reads {
				if rd.cell.Rp != rp || rd.done || rd.cell.Rev > len(in.revIDs) {
					continue
				}
				if st, body, ok := get(in); ok {
					in.judge(rd, st, body, st == 200)
				}
			}
		}
	}
	replInfo := vObj{}
	if needBlip {
		rt.GetDatabase().FlushRevisionCacheForTest()
		pulled := e.blip.pullAll()
		replInfo["blip_pulled"] = len(pulled)
		fill("BlipPull", func(in *vC19Inst) (int, []byte, bool) {
			if b, ok := pulled[in.docID]; ok {
				return 200, b, true
			}
			return 404, nil, true // the one-shot pull finished without delivering the document
		})
	}
	if needPeers {
		rt.GetDatabase().FlushRevisionCacheForTest()
		dst := vC19NewPeer(t, "c19pushdst", false)
		replInfo["push"] = vC19RunOneShot(t, rt, "c19push", vC19PublicURL(t, dst, "alice"), db.ActiveReplicatorTypePush)
		puller := vC19NewPeer(t, "c19puller", true)
		replInfo["pull"] = vC19RunOneShot(t, puller, "c19pull", vC19PublicURL(t, rt, "bob"), db.ActiveReplicatorTypePull)
		peerGet := func(peer *RestTester) func(in *vC19Inst) (int, []byte, bool) {
			return func(in *vC19Inst) (int, []byte, bool) {
				r := peer.SendAdminRequest("GET", "/{{.keyspace}}/"+in.docID, "")
				return r.Code, r.Body.Bytes(), true
			}
		}
		fill("PeerPush", peerGet(dst))
		fill("PeerPull", peerGet(puller))
	}
	fmt.Printf("VERIF-C19 %d instances, %d tokens: writes %.1fs reads %.1fs total %.1fs\n", len(insts), len(toks), dWrite.Seconds(), dRead.Seconds(), time.Since(t0).Seconds())

	// ---- emit
	nlines := 0
	wpSet, rpSet := map[string]bool{}, map[string]bool{}
	for _, b := range behs {
		for _, st := range b.Steps {
			if st.Act != "TombstoneWinner" {
				wpSet[st.Wp] = true
			}
		}
		for _, c := range b.Reads {
			rpSet[c.Rp] = true
		}
	}
	wps, rps := []string{}, []string{}
	for k := range wpSet {
		wps = append(wps, k)
	}
	for k := range rpSet {
		rps = append(rps, k)
	}
	sort.Strings(wps)
	sort.Strings(rps)
	for _, in := range insts {
		ids := []string{}
		classes := []string{}
		for _, tk := range in.toks {
			ids = append(ids, tk.ID)
			classes = append(classes, tk.Class)
		}
		reset := vObj{"a": "Reset", "inst": in.idx, "beh": in.behIdx, "doc": in.docID, "toks": ids, "cls": classes, "wps": wps, "rps": rps}
		tw.Emit(reset)
		_ = detail.Encode(reset)
		nlines++
		for _, ev := range in.events {
			tw.Emit(ev)
			_ = detail.Encode(ev)
			nlines++
		}
		if in.dead || len(in.revIDs) == 0 || len(in.reads) == 0 {
			continue
		}
		items, ditems, skipped := []vObj{}, []vObj{}, []vObj{}
		for _, rd := range in.reads {
			if rd.cell.Rev > len(in.revIDs) {
				continue // belongs to a write that was refused
			}
			tk := in.toks[rd.cell.Expect-1]
			if !rd.done {
				skipped = append(skipped, vObj{"rev": rd.cell.Rev, "rp": rd.cell.Rp, "cache": rd.cell.Cache})
				unobserved = append(unobserved, vObj{"inst": in.idx, "doc": in.docID, "rp": rd.cell.Rp, "cache": rd.cell.Cache, "tok": tk.ID, "cls": tk.Class})
				continue
			}
			o := vObj{"rev": rd.cell.Rev, "rp": rd.cell.Rp, "cache": rd.cell.Cache, "status": rd.status, "valid": rd.valid,
				"got": rd.got, "extra": rd.extra, "kind": rd.cell.Kind, "wp": rd.cell.Wp, "expect": rd.cell.Expect,
				"tokId": tk.ID, "tokCls": tk.Class}
			if rd.diffP != "" || rd.raw != "" {
				o["diff"] = vObj{"path": rd.diffP, "want": rd.diffW, "got": rd.diffG, "raw": rd.raw}
			}
			ditems = append(ditems, o)
			items = append(items, vObj{"rev": rd.cell.Rev, "rp": rd.cell.Rp, "cache": rd.cell.Cache, "status": rd.status, "valid": rd.valid,
				"got": rd.got, "extra": rd.extra})
		}
		tw.Emit(vObj{"a": "Reads", "items": items, "skipped": skipped})
		_ = detail.Encode(vObj{"a": "Reads", "items": ditems, "skipped": skipped})
		nlines++
	}
	cat := []vObj{}
	for _, tk := range toks {
		cat = append(cat, vObj{"id": tk.ID, "cls": tk.Class, "bytes": len(tk.Text), "text": tk.Text[:min(len(tk.Text), 600)]})
	}
	meta, _ := json.Marshal(vObj{"instances": len(insts), "lines": nlines, "tokens": cat, "unobserved": unobserved,
		"timing": vObj{"writes_s": dWrite.Seconds(), "reads_s": dRead.Seconds(), "total_s": time.Since(t0).Seconds()}, "replication": replInfo})
	if err := os.WriteFile(os.Getenv("VERIF_TRACE_OUT")+".meta", meta, 0o644); err != nil {
		t.Fatalf("VERIF-FATAL cannot write meta: %v", err)
	}
}
