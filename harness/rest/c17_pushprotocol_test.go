//go:build verif

package rest

// C17 push-protocol binding (DESIGN 7 item F6, specs/Checkpointer/PushProtocol.tla).
//
// Real push replications between two RestTesters.  The hook sink (base.VerifSetSink; with hook H6b it is invoked after
// the hook mutex has been released, so it may block the emitting goroutine) is used as a scheduler gate: the goroutine
// that handles one changes batch's response is held at a chosen hook event while the harness calls CheckpointNow on the
// real push checkpointer - the interleaving the checkpoint timer goroutine could produce on its own.  Every H6 event
// (checkpointer, under its lock) and H6b event (Offered / Answer / BatchSent / KnownDone / ExpectDone / PushBind) is
// written to $VERIF_PP_TRACE_OUT; specs/Checkpointer/Trace_PushProtocol.tla evaluates SafeOffered on them.  No property
// is asserted here.
//
//   scenario "intra": one batch {a_send: the peer wants it, b_known: the peer has it}; the passive side's write of a_send
//                     is held at the storage boundary (LeakyBucket) so that its acknowledgement cannot arrive; the batch's
//                     handler is held at KnownDone (between the two checkpointer callbacks); CheckpointNow.
//   scenario "cross": continuous replication, caught up; batch 1 {x1} is held at Answer (before any revision is sent);
//                     batch 2 {x2} is offered, sent, acknowledged and registered; CheckpointNow.  Then the operator's
//                     Stop / Start: the harness records whether x1 ever arrives (barrier: x3 written after the restart).
//
// Without hook H6b no Offered event is seen and the test writes {"ev":"Skip"}.

import (
	"fmt"
	"strings"
	"sync"
	"sync/atomic"
	"testing"
	"time"

	"github.com/couchbase/sync_gateway/base"
	"github.com/couchbase/sync_gateway/channels"
	"github.com/couchbase/sync_gateway/db"
)

type vC17Gate struct {
	mu      sync.Mutex
	match   func(ev map[string]any) bool // armed when non-nil; disarmed by the first matching event
	reached chan map[string]any
	release chan struct{}
}

func (g *vC17Gate) arm(match func(ev map[string]any) bool) {
	g.mu.Lock()
	defer g.mu.Unlock()
	g.match = match
	g.reached = make(chan map[string]any, 1)
	g.release = make(chan struct{})
}

// pass is called from the sink, i.e. on the goroutine that emitted the event, outside the hook mutex.
func (g *vC17Gate) pass(ev map[string]any) {
	g.mu.Lock()
	if g.match == nil || !g.match(ev) {
		g.mu.Unlock()
		return
	}
	g.match = nil
	reached, release := g.reached, g.release
	g.mu.Unlock()
	reached <- ev
	select {
	case <-release:
	case <-time.After(60 * time.Second): // never wedge the system under test for good
	}
}

func (g *vC17Gate) open() {
	g.mu.Lock()
	defer g.mu.Unlock()
	g.match = nil
	if g.release != nil {
		select {
		case <-g.release:
		default:
			close(g.release)
		}
	}
}

type vC17Rec struct {
	tw     *vTraceWriter
	scn    atomic.Value // string
	gate   vC17Gate
	mu     sync.Mutex
	counts map[string]int
}

func (r *vC17Rec) sink(ev map[string]any) {
	obj, _ := ev["obj"].(string)
	if !strings.HasPrefix(obj, "*db.Checkpointer") && !strings.HasPrefix(obj, "*db.BlipSyncContext") {
		return
	}
	name, _ := ev["ev"].(string)
	out := make(map[string]any, len(ev)+1)
	for k, v := range ev {
		out[k] = v
	}
	out["scn"], _ = r.scn.Load().(string)
	r.tw.Emit(out)
	r.mu.Lock()
	r.counts[name]++
	r.mu.Unlock()
	r.gate.pass(ev)
}

func (r *vC17Rec) count(name string) int {
	r.mu.Lock()
	defer r.mu.Unlock()
	return r.counts[name]
}

func (r *vC17Rec) note(o map[string]any) {
	o["scn"], _ = r.scn.Load().(string)
	o["obj"] = "harness"
	r.tw.Emit(o)
}

func vC17Has(rt *RestTester, id string) bool {
	return rt.SendAdminRequest("GET", "/{{.keyspace}}/"+id, "").Code == 200
}

func vC17Await(t *testing.T, what string, cond func() bool) bool {
	for i := 0; i < 4000; i++ { // generous liveness bound only (20 s)
		if cond() {
			return true
		}
		time.Sleep(5 * time.Millisecond)
	}
	t.Logf("VERIF-NOTE timed out waiting for %s", what)
	return false
}

func vC17PushCheckpointer(t *testing.T, rt *RestTester, replID string) *db.Checkpointer {
	ar, ok := rt.GetDatabase().SGReplicateMgr.GetLocalActiveReplicatorForTest(t, replID)
	if !ok || ar == nil || ar.Push == nil {
		t.Fatalf("VERIF-FATAL replication %s has no local push replicator", replID)
	}
	return ar.Push.GetSingleCollection(t).Checkpointer
}

// vC17Tick runs CheckpointNow on the real checkpointer (bounded wait: persisting needs a round trip to the passive peer).
func vC17Tick(t *testing.T, rec *vC17Rec, ck *db.Checkpointer, window string) bool {
	rec.note(map[string]any{"ev": "HarnessTick", "window": window})
	done := make(chan struct{})
	go func() { ck.CheckpointNow(); close(done) }()
	select {
	case <-done:
		return true
	case <-time.After(30 * time.Second):
		t.Logf("VERIF-NOTE CheckpointNow did not return within 30s (window %s)", window)
		return false
	}
}

func vC17Replication(rt *RestTester, id, action string) {
	resp := rt.SendAdminRequest("PUT", "/{{.db}}/_replicationStatus/"+id+"?action="+action, "")
	if resp.Code != 200 {
		rt.TB().Fatalf("VERIF-FATAL %s %s: %d %s", action, id, resp.Code, resp.Body.String())
	}
}

func TestVerif_C17_PushProtocol(t *testing.T) {
	tw := vOpenTrace(t, "VERIF_PP_TRACE_OUT")
	defer tw.Close()
	rec := &vC17Rec{tw: tw, counts: map[string]int{}}
	rec.scn.Store("probe")
	base.VerifSetSink(rec.sink)
	defer base.VerifSetSink(nil)
	defer rec.gate.open()

	attempts := vEnvInt("VERIF_C17_PP_ATTEMPTS", 3)
	okIntra, okCross := false, false
	for a := 0; a < attempts && !okIntra; a++ {
		t.Run(fmt.Sprintf("intra-%d", a), func(t *testing.T) { okIntra = vC17Intra(t, rec, a) })
		if rec.count("Offered") == 0 {
			rec.scn.Store("probe")
			rec.note(map[string]any{"ev": "Skip", "why": "no Offered event: hook H6b (hooks/H6b-pushprotocol.patch) is not in this tree"})
			return
		}
	}
	for a := 0; a < attempts && !okCross; a++ {
		t.Run(fmt.Sprintf("cross-%d", a), func(t *testing.T) { okCross = vC17Cross(t, rec, a) })
	}
	rec.scn.Store("probe")
	rec.note(map[string]any{"ev": "Done", "intra_window_reached": okIntra, "cross_window_reached": okCross})
}

// scenario "intra": a tick between AddAlreadyKnownSeq and AddExpectedSeqs of ONE batch
func vC17Intra(t *testing.T, rec *vC17Rec, attempt int) bool {
	scn := fmt.Sprintf("intra-%d", attempt)
	rec.scn.Store(scn + "-pre")
	var holdWrites atomic.Bool
	writeGate := make(chan struct{})
	var writeOnce sync.Once
	openWrites := func() { writeOnce.Do(func() { close(writeGate) }) }
	defer openWrites()
	passiveBucket := base.GetTestBucket(t).LeakyBucketClone(base.LeakyBucketConfig{
		WriteUpdateWithXattrsCallback: func(key string) {
			if holdWrites.Load() && key == "a_send" {
				select {
				case <-writeGate:
				case <-time.After(60 * time.Second):
				}
			}
		},
	})
	peers := SetupISGRPeersWithOpts(t, TestISGRPeerOpts{PassiveRestTesterConfig: &RestTesterConfig{
		DatabaseConfig:   &DatabaseConfig{DbConfig: DbConfig{Name: "passivedb"}},
		SyncFn:           channels.DocChannelsSyncFunction,
		CustomTestBucket: passiveBucket,
	}})
	active, passive := peers.ActiveRT, peers.PassiveRT
	defer rec.gate.open()

	active.PutDoc("a_send", `{"channels":["S"],"v":1}`)  // lower sequence: the peer will ask for it
	active.PutDoc("b_known", `{"channels":["K"],"v":1}`) // higher sequence: the peer gets it beforehand
	active.CreateReplication("pre"+scn, peers.PassiveDBURL, db.ActiveReplicatorTypePush, []string{"K"}, false, db.ConflictResolverDefault, "")
	if !vC17Await(t, "b_known on the passive side", func() bool { return vC17Has(passive, "b_known") }) {
		t.Fatalf("VERIF-FATAL pre-replication of b_known did not complete")
	}
	active.WaitForReplicationStatus("pre"+scn, db.ReplicationStateStopped)
	if vC17Has(passive, "a_send") {
		t.Fatalf("VERIF-FATAL a_send reached the passive side through the channel-filtered replication")
	}

	rec.scn.Store(scn)
	holdWrites.Store(true)
	rec.gate.arm(func(ev map[string]any) bool { return ev["ev"] == "KnownDone" })
	active.CreateReplication("r"+scn, peers.PassiveDBURL, db.ActiveReplicatorTypePush, nil, true, db.ConflictResolverDefault, "")
	windowReached := false
	select {
	case <-rec.gate.reached:
		windowReached = true
	case <-time.After(20 * time.Second):
		t.Logf("VERIF-NOTE no batch handler reached KnownDone within 20s")
	}
	if windowReached {
		ck := vC17PushCheckpointer(t, active, "r"+scn)
		rec.note(map[string]any{"ev": "Window", "window": "between-known-and-expect", "ckpt": fmt.Sprintf("%T@%p", ck, ck),
			"a_send_on_passive": vC17Has(passive, "a_send")})
		vC17Tick(t, rec, ck, "between-known-and-expect")
	}
	openWrites()
	rec.gate.open()
	vC17Await(t, "a_send on the passive side", func() bool { return vC17Has(passive, "a_send") })
	vC17Replication(active, "r"+scn, "stop")
	active.WaitForReplicationStatus("r"+scn, db.ReplicationStateStopped)
	return windowReached // retried only if the interleaving itself could not be set up; what the tick returned is TLC's business
}

// scenario "cross": a tick after a LATER batch's callbacks and before an EARLIER batch's callbacks
func vC17Cross(t *testing.T, rec *vC17Rec, attempt int) bool {
	scn := fmt.Sprintf("cross-%d", attempt)
	rec.scn.Store(scn)
	peers := SetupISGRPeersWithOpts(t, TestISGRPeerOpts{})
	active, passive := peers.ActiveRT, peers.PassiveRT
	defer rec.gate.open()

	active.CreateReplication("r"+scn, peers.PassiveDBURL, db.ActiveReplicatorTypePush, nil, true, db.ConflictResolverDefault, "")
	active.WaitForReplicationStatus("r"+scn, db.ReplicationStateRunning)
	active.PutDoc("w0", `{"channels":["A"],"v":1}`)
	if !vC17Await(t, "w0 on the passive side", func() bool { return vC17Has(passive, "w0") }) {
		t.Fatalf("VERIF-FATAL w0 did not replicate")
	}
	ck := vC17PushCheckpointer(t, active, "r"+scn)
	vC17Tick(t, rec, ck, "caught-up") // a first, uncontroversial checkpoint (w0 acknowledged)

	var heldBatch atomic.Value
	rec.gate.arm(func(ev map[string]any) bool {
		if ev["ev"] == "Answer" {
			heldBatch.Store(ev["batch"])
			return true
		}
		return false
	})
	expectDone0, processed0 := rec.count("ExpectDone"), rec.count("Processed")
	active.PutDoc("x1", `{"channels":["A"],"v":1}`)
	select {
	case <-rec.gate.reached:
	case <-time.After(20 * time.Second):
		t.Logf("VERIF-NOTE batch 1 did not reach Answer within 20s")
		return false
	}
	active.PutDoc("x2", `{"channels":["A"],"v":1}`)
	windowReached := vC17Await(t, "batch 2 (x2) sent, acknowledged and registered", func() bool {
		return vC17Has(passive, "x2") && rec.count("ExpectDone") > expectDone0 && rec.count("Processed") > processed0
	})
	if windowReached {
		rec.note(map[string]any{"ev": "Window", "window": "later-batch-registered-earlier-held", "held": heldBatch.Load(),
			"x1_on_passive": vC17Has(passive, "x1")})
		vC17Tick(t, rec, ck, "later-batch-registered-earlier-held")
	}

	// the operator stops the replication while batch 1's handler still has not run, and starts it again
	vC17Replication(active, "r"+scn, "stop")
	active.WaitForReplicationStatus("r"+scn, db.ReplicationStateStopped)
	rec.gate.open()
	rec.scn.Store(scn + "-restart")
	vC17Replication(active, "r"+scn, "start")
	active.WaitForReplicationStatus("r"+scn, db.ReplicationStateRunning)
	active.PutDoc("x3", `{"channels":["A"],"v":1}`)
	barrier := vC17Await(t, "x3 on the passive side", func() bool { return vC17Has(passive, "x3") })
	time.Sleep(50 * time.Millisecond)
	rec.note(map[string]any{"ev": "Outcome", "barrier_x3_on_passive": barrier, "x1_on_passive": vC17Has(passive, "x1"), "x2_on_passive": vC17Has(passive, "x2")})
	vC17Replication(active, "r"+scn, "stop")
	active.WaitForReplicationStatus("r"+scn, db.ReplicationStateStopped)
	return windowReached
}
