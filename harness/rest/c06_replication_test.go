//go:build verif

package rest

// C06 binding (phase replay): TLC behaviours of specs/Replication, in which replication activity is grouped into
// phases, are executed on REAL inter-Sync-Gateway replications between two RestTesters:
//   edits on either peer (PUT / PUT ?rev / DELETE / PUT on a tombstone)  ->  Start (push | pull | pushAndPull, continuous,
//   default conflict resolver, or a custom merging one)  ->  Wait (until every running direction has processed every document sequence of its
//   source and the replication counters stopped moving)  ->  more edits  ->  Wait  ->  Stop  ->  edits  ->  Start ...
// After every caught-up point the harness logs the view of every document on both peers (stored document: current
// rev-tree id, current version, HLV, tombstone flag, body marker, whole rev tree; REST admin view: GET ?show_cv=true)
// and then re-runs the caught-up replication as a fresh one-shot replication with the same direction, logging that
// run's counters and the views afterwards.  The harness only plays the environment and projects state: every
// predicate of the property is evaluated by TLC (specs/Replication/Trace_Replication.tla) on these lines.

import (
	"encoding/json"
	"fmt"
	"net/http"
	"net/url"
	"sort"
	"strings"
	"testing"
	"time"

	"github.com/couchbase/sync_gateway/base"
	"github.com/couchbase/sync_gateway/db"
)

type c06Step struct {
	A string `json:"a"`
	P string `json:"p"`
	D int    `json:"d"`
}

type c06Beh struct {
	Proto string    `json:"proto"` // "v3" rev-tree protocol | "v4" version vectors
	Dir   string    `json:"dir"`   // push | pull | pushAndPull
	Res   string    `json:"res"`   // "" / "default": default resolver | "merge": custom resolver merging two live revisions
	Steps []c06Step `json:"steps"`
}

type c06Run struct {
	t       *testing.T
	tw      *vTraceWriter
	peers   TestISGRPeers
	beh     c06Beh
	idx     int
	replID  string
	created bool
	running bool
	nbody   int
	nrerun  int
	aborted bool
	direct  map[string]*db.ActiveReplicator // merge family: replicators built through the db API (the REST API of this build only accepts the default resolver)
}

// c06MergeResolver merges two live revisions (k = local.k * 100 + remote.k) and leaves a conflict that involves a tombstone
// to the default policy.
const c06MergeResolver = `function(conflict) {
	if (conflict.LocalDocument._deleted || conflict.RemoteDocument._deleted) { return defaultPolicy(conflict); }
	var merged = new Object();
	merged.channels = ["A"];
	merged.k = Number(conflict.LocalDocument.k) * 100 + Number(conflict.RemoteDocument.k);
	return merged;
}`

const c06WaitBound = 25 * time.Second
const c06StallQuiet = 4 * time.Second

func TestVerif_C06_Replication(t *testing.T) {
	var behs []c06Beh
	vReadJSON(t, "VERIF_BEH", &behs)
	tw := vOpenTrace(t, "VERIF_TRACE_OUT")
	defer tw.Close()
	prev := db.DefaultCheckpointInterval
	db.DefaultCheckpointInterval = 40 * time.Millisecond
	defer func() { db.DefaultCheckpointInterval = prev }()

	for i, b := range behs {
		t.Run(fmt.Sprintf("b%d-%s-%s", i, b.Proto, b.Dir), func(t *testing.T) {
			r := &c06Run{t: t, tw: tw, beh: b, idx: i, replID: fmt.Sprintf("c06r%d", i)}
			r.run()
		})
	}
}

func (r *c06Run) peer(p string) *RestTester {
	if p == "A" {
		return r.peers.ActiveRT
	}
	return r.peers.PassiveRT
}

func c06DocID(d int) string { return fmt.Sprintf("doc%d", d) }

func (r *c06Run) abort(format string, args ...any) {
	r.aborted = true
	r.tw.Emit(vObj{"a": "Abort", "beh": r.idx, "why": fmt.Sprintf(format, args...)})
}

func (r *c06Run) run() {
	sub := db.CBMobileReplicationV3.SubprotocolString()
	if r.beh.Proto == "v4" {
		sub = db.CBMobileReplicationV4.SubprotocolString()
	}
	r.peers = SetupISGRPeersWithOpts(r.t, TestISGRPeerOpts{ActivePeerSupportedBLIPSubProtocols: []string{sub}})
	r.tw.Emit(vObj{"a": "Reset", "beh": r.idx, "proto": r.beh.Proto, "dir": r.beh.Dir, "res": r.beh.Res,
		"srcA": r.peers.ActiveRT.GetDatabase().EncodedSourceID, "srcB": r.peers.PassiveRT.GetDatabase().EncodedSourceID})
	for _, s := range r.beh.Steps {
		if r.aborted {
			return
		}
		switch s.A {
		case "Edit", "Delete", "Resurrect":
			r.write(s)
		case "Start":
			r.start()
		case "Stop":
			r.stop()
		case "Wait":
			r.wait()
		default:
			r.abort("unknown step %q", s.A)
		}
	}
	if r.running && !r.aborted {
		r.stop()
	}
}

// ---- environment: local writes ----------------------------------------------------------------------------

func (r *c06Run) write(s c06Step) {
	rt := r.peer(s.P)
	id := c06DocID(s.D)
	cur := c06Stored(rt, id)
	st, _ := cur["st"].(string)
	ev := vObj{"a": s.A, "p": s.P, "d": s.D, "did": "skip", "body": 0}
	ks := rt.GetSingleKeyspace()
	var resp *TestResponse
	switch {
	case s.A == "Edit" && st == "absent", s.A == "Resurrect" && st == "deleted":
		r.nbody++
		ev["body"] = r.nbody
		resp = rt.SendAdminRequest(http.MethodPut, fmt.Sprintf("/%s/%s", ks, id), fmt.Sprintf(`{"channels":["A"],"k":%d}`, r.nbody))
		ev["did"] = map[string]string{"Edit": "create", "Resurrect": "resurrect"}[s.A]
	case s.A == "Edit" && st == "live":
		r.nbody++
		ev["body"] = r.nbody
		resp = rt.SendAdminRequest(http.MethodPut, fmt.Sprintf("/%s/%s?rev=%s", ks, id, url.QueryEscape(vStr(cur["rev"]))), fmt.Sprintf(`{"channels":["A"],"k":%d}`, r.nbody))
		ev["did"] = "update"
	case s.A == "Delete" && st == "live":
		resp = rt.SendAdminRequest(http.MethodDelete, fmt.Sprintf("/%s/%s?rev=%s", ks, id, url.QueryEscape(vStr(cur["rev"]))), "")
		ev["did"] = "delete"
	}
	if resp != nil {
		ev["code"] = resp.Code
		if resp.Code == http.StatusConflict {
			// a replication write overtook the read of the current revision: the environment's write did not happen
			ev["did"] = "skip"
			ev["body"] = 0
		} else if resp.Code != http.StatusCreated && resp.Code != http.StatusOK {
			r.abort("%s %s on %s: unexpected status %d %s", s.A, id, s.P, resp.Code, resp.Body.String())
			return
		}
	}
	ev["pre"] = cur
	ev["view"] = c06Stored(rt, id)
	r.tw.Emit(ev)
}

// ---- environment: replication life cycle ------------------------------------------------------------------

func (r *c06Run) direction() db.ActiveReplicatorDirection {
	switch r.beh.Dir {
	case "push":
		return db.ActiveReplicatorTypePush
	case "pull":
		return db.ActiveReplicatorTypePull
	}
	return db.ActiveReplicatorTypePushAndPull
}

func (r *c06Run) createReplication(id string, continuous bool) bool {
	if r.beh.Res == "merge" {
		return r.createDirect(id, continuous)
	}
	cfg := &db.ReplicationConfig{
		ID:                     id,
		Direction:              r.direction(),
		Remote:                 r.peers.PassiveDBURL,
		Continuous:             continuous,
		ConflictResolutionType: db.ConflictResolverDefault,
		CollectionsEnabled:     base.TestsUseNamedCollections(),
	}
	payload, _ := json.Marshal(cfg)
	resp := r.peers.ActiveRT.SendAdminRequest(http.MethodPost, "/{{.db}}/_replication/", string(payload))
	if resp.Code != http.StatusCreated {
		r.abort("create replication %s: %d %s", id, resp.Code, resp.Body.String())
		return false
	}
	return true
}

// createDirect builds and starts an ActiveReplicator with the custom merging resolver through the db API.
func (r *c06Run) createDirect(id string, continuous bool) bool {
	rt := r.peers.ActiveRT
	ctx := rt.Context()
	remote, err := url.Parse(r.peers.PassiveDBURL)
	if err != nil {
		r.abort("remote url: %v", err)
		return false
	}
	resolver, err := db.NewCustomConflictResolver(ctx, c06MergeResolver, rt.GetDatabase().Options.JavascriptTimeout)
	if err != nil {
		r.abort("resolver: %v", err)
		return false
	}
	stats, err := base.SyncGatewayStats.NewDBStats(fmt.Sprintf("c06db%d_%s", r.idx, id), false, false, false, false, nil, nil)
	if err != nil {
		r.abort("stats: %v", err)
		return false
	}
	rstats, err := stats.DBReplicatorStats(id)
	if err != nil {
		r.abort("replicator stats: %v", err)
		return false
	}
	ar, err := db.NewActiveReplicator(ctx, &db.ActiveReplicatorConfig{
		ID:                         id,
		Direction:                  r.direction(),
		RemoteDBURL:                remote,
		ActiveDB:                   &db.Database{DatabaseContext: rt.GetDatabase()},
		ChangesBatchSize:           200,
		ConflictResolverFunc:       resolver,
		ConflictResolverFuncForHLV: resolver,
		Continuous:                 continuous,
		ReplicationStatsMap:        rstats,
		CollectionsEnabled:         !rt.GetDatabase().OnlyDefaultCollection(),
		SupportedBLIPProtocols:     rt.GetDatabase().SGReplicateMgr.SupportedBLIPSubprotocols,
	})
	if err != nil {
		r.abort("new replicator %s: %v", id, err)
		return false
	}
	if r.direct == nil {
		r.direct = map[string]*db.ActiveReplicator{}
	}
	r.direct[id] = ar
	if err := ar.Start(ctx); err != nil {
		r.abort("start replicator %s: %v", id, err)
		return false
	}
	return true
}

func (r *c06Run) status(id string) (db.ReplicationStatus, bool) {
	var st db.ReplicationStatus
	if ar, ok := r.direct[id]; ok {
		if p := ar.GetStatus(r.peers.ActiveRT.Context()); p != nil {
			return *p, true
		}
		return st, false
	}
	resp := r.peers.ActiveRT.SendAdminRequest(http.MethodGet, "/{{.db}}/_replicationStatus/"+id, "")
	if resp.Code != http.StatusOK {
		return st, false
	}
	if err := base.JSONUnmarshal(resp.Body.Bytes(), &st); err != nil {
		return st, false
	}
	return st, true
}

func (r *c06Run) waitState(id, want string) bool {
	deadline := time.Now().Add(c06WaitBound)
	for time.Now().Before(deadline) {
		if st, ok := r.status(id); ok && st.Status == want {
			return true
		}
		time.Sleep(5 * time.Millisecond)
	}
	st, _ := r.status(id)
	r.abort("replication %s did not reach state %s (is %q %q)", id, want, st.Status, st.ErrorMessage)
	return false
}

func (r *c06Run) start() {
	if r.running {
		return
	}
	if !r.created {
		if !r.createReplication(r.replID, true) {
			return
		}
		r.created = true
	} else if ar, ok := r.direct[r.replID]; ok {
		if err := ar.Start(r.peers.ActiveRT.Context()); err != nil {
			r.abort("restart: %v", err)
			return
		}
	} else {
		resp := r.peers.ActiveRT.SendAdminRequest(http.MethodPut, "/{{.db}}/_replicationStatus/"+r.replID+"?action=start", "")
		if resp.Code != http.StatusOK {
			r.abort("start: %d %s", resp.Code, resp.Body.String())
			return
		}
	}
	if !r.waitState(r.replID, db.ReplicationStateRunning) {
		return
	}
	r.running = true
	r.tw.Emit(vObj{"a": "Start"})
}

func (r *c06Run) stop() {
	if !r.running {
		return
	}
	if ar, ok := r.direct[r.replID]; ok {
		if err := ar.Stop(); err != nil {
			r.abort("stop: %v", err)
			return
		}
	} else {
		resp := r.peers.ActiveRT.SendAdminRequest(http.MethodPut, "/{{.db}}/_replicationStatus/"+r.replID+"?action=stop", "")
		if resp.Code != http.StatusOK {
			r.abort("stop: %d %s", resp.Code, resp.Body.String())
			return
		}
	}
	if !r.waitState(r.replID, db.ReplicationStateStopped) {
		return
	}
	r.running = false
	st, _ := r.status(r.replID)
	r.tw.Emit(vObj{"a": "Stop", "stats": c06Stats(st)})
}

func c06Stats(st db.ReplicationStatus) vObj {
	return vObj{"docs_written": st.DocsWritten, "docs_read": st.DocsRead, "docs_checked_push": st.DocsCheckedPush, "docs_checked_pull": st.DocsCheckedPull,
		"doc_write_failures": st.DocWriteFailures, "doc_write_conflict": st.DocWriteConflict, "rejected_by_remote": st.RejectedRemote,
		"rejected_by_local": st.RejectedLocal, "last_seq_push": st.LastSeqPush, "last_seq_pull": st.LastSeqPull, "status": st.Status, "error": st.ErrorMessage}
}

func c06SeqOf(s string) uint64 {
	if s == "" {
		return 0
	}
	id, err := db.ParsePlainSequenceID(s)
	if err != nil {
		return 0
	}
	return id.Seq
}

func (r *c06Run) maxDocSeq(rt *RestTester) uint64 {
	var m uint64
	for d := 1; d <= 2; d++ {
		v := c06Stored(rt, c06DocID(d))
		if s, ok := v["seq"].(uint64); ok && s > m {
			m = s
		}
	}
	return m
}

func (r *c06Run) caughtUp(st db.ReplicationStatus) bool {
	if st.Status != db.ReplicationStateRunning {
		return false
	}
	if r.beh.Dir != "pull" && c06SeqOf(st.LastSeqPush) < r.maxDocSeq(r.peers.ActiveRT) {
		return false
	}
	if r.beh.Dir != "push" && c06SeqOf(st.LastSeqPull) < r.maxDocSeq(r.peers.PassiveRT) {
		return false
	}
	return true
}

func c06Counters(st db.ReplicationStatus) [8]int64 {
	return [8]int64{st.DocsWritten, st.DocsRead, st.DocsCheckedPush, st.DocsCheckedPull, st.DocWriteFailures, st.DocWriteConflict, st.RejectedLocal, st.RejectedRemote}
}

// wait: caught-up point.  Caught up == every running direction's safe processed sequence has reached the sequence of
// every document on its source AND the counters did not move for a number of consecutive polls.
// Fallback ("stalled"): when the pulling peer REFUSED a transferred revision (rejected_by_local > 0) that revision's sequence
// is never acknowledged to the checkpointer, so the safe sequence stays below it until the replication is restarted; the
// point is then taken when the counters have not moved for c06StallQuiet (the property's observation point is "status
// reports caught-up and sequence counters stop moving").  The line says so (stalled) and the driver counts it.
func (r *c06Run) wait() {
	if !r.running {
		return
	}
	deadline := time.Now().Add(c06WaitBound)
	stable := 0
	var last [8]int64
	lastMove := time.Now()
	ok, stalled := false, false
	var st db.ReplicationStatus
	for time.Now().Before(deadline) {
		var got bool
		st, got = r.status(r.replID)
		if got && c06Counters(st) == last {
			stable++
		} else {
			stable = 0
			lastMove = time.Now()
		}
		if got {
			last = c06Counters(st)
		}
		if got && stable >= 6 && r.caughtUp(st) {
			ok = true
			break
		}
		if got && st.Status == db.ReplicationStateRunning && st.RejectedLocal > 0 && time.Since(lastMove) > c06StallQuiet {
			ok, stalled = true, true
			break
		}
		time.Sleep(8 * time.Millisecond)
	}
	r.tw.Emit(vObj{"a": "Sync", "ok": ok, "stalled": stalled, "views": r.views(), "stats": c06Stats(st)})
	if ok {
		r.rerun()
	}
}

// rerun: the caught-up replication is run again from scratch (one-shot, same direction and resolver, no checkpoint).
func (r *c06Run) rerun() {
	r.nrerun++
	id := fmt.Sprintf("%sx%d", r.replID, r.nrerun)
	if !r.createReplication(id, false) {
		return
	}
	if !r.waitState(id, db.ReplicationStateStopped) {
		return
	}
	st, _ := r.status(id)
	r.tw.Emit(vObj{"a": "Rerun", "run": c06Stats(st), "views": r.views()})
	if _, ok := r.direct[id]; ok {
		delete(r.direct, id)
		return
	}
	resp := r.peers.ActiveRT.SendAdminRequest(http.MethodDelete, "/{{.db}}/_replication/"+id, "")
	if resp.Code != http.StatusOK {
		r.abort("delete one-shot replication: %d %s", resp.Code, resp.Body.String())
	}
}

// ---- projection -------------------------------------------------------------------------------------------

func (r *c06Run) views() vObj {
	res := vObj{}
	for _, p := range []string{"A", "B"} {
		vs := []vObj{}
		for d := 1; d <= 2; d++ {
			v := c06Stored(r.peer(p), c06DocID(d))
			v["rest"] = c06Rest(r.peer(p), c06DocID(d))
			vs = append(vs, v)
		}
		res[p] = vs
	}
	return res
}

func c06Marker(b []byte) int {
	var m map[string]any
	if len(b) == 0 || json.Unmarshal(b, &m) != nil {
		return 0
	}
	if k, ok := m["k"].(float64); ok {
		return int(k)
	}
	return 0
}

// c06Stored projects the stored document (what the admin API is served from).
func c06Stored(rt *RestTester, id string) vObj {
	collection, ctx := rt.GetSingleTestDatabaseCollectionWithUser()
	doc, err := collection.GetDocument(ctx, id, db.DocUnmarshalAll)
	if err != nil || doc == nil {
		if err != nil && !base.IsDocNotFoundError(err) {
			return vObj{"st": "error", "err": err.Error()}
		}
		return vObj{"st": "absent"}
	}
	v := vObj{"st": "live", "rev": doc.GetRevTreeID(), "del": doc.IsDeleted(), "seq": doc.Sequence, "k": 0}
	if doc.IsDeleted() {
		v["st"] = "deleted"
	} else if bb, err := doc.BodyBytes(ctx); err == nil {
		v["k"] = c06Marker(bb)
	}
	if doc.HLV != nil {
		v["src"] = doc.HLV.SourceID
		v["ver"] = fmt.Sprintf("%016x", doc.HLV.Version)
		pv := map[string]string{}
		for s, x := range doc.HLV.PreviousVersions {
			pv[s] = fmt.Sprintf("%016x", x)
		}
		mv := map[string]string{}
		for s, x := range doc.HLV.MergeVersions {
			mv[s] = fmt.Sprintf("%016x", x)
		}
		v["pv"], v["mv"] = pv, mv
	}
	tree := [][]any{}
	ids := make([]string, 0, len(doc.History))
	for rid := range doc.History {
		ids = append(ids, rid)
	}
	sort.Strings(ids)
	for _, rid := range ids {
		ri := doc.History[rid]
		tree = append(tree, []any{rid, ri.Parent, ri.Deleted})
	}
	v["tree"] = tree
	leaves := doc.History.GetLeaves()
	sort.Strings(leaves)
	v["leaves"] = leaves
	return v
}

// c06Rest projects the REST admin view of the document.
func c06Rest(rt *RestTester, id string) vObj {
	resp := rt.SendAdminRequest(http.MethodGet, fmt.Sprintf("/%s/%s?show_cv=true", rt.GetSingleKeyspace(), id), "")
	v := vObj{"code": resp.Code, "rev": "", "cv": "", "k": 0, "del": false}
	if resp.Code == http.StatusOK {
		var m map[string]any
		if json.Unmarshal(resp.Body.Bytes(), &m) == nil {
			v["rev"], _ = m["_rev"].(string)
			v["cv"], _ = m["_cv"].(string)
			if k, ok := m["k"].(float64); ok {
				v["k"] = int(k)
			}
			if d, ok := m["_deleted"].(bool); ok {
				v["del"] = d
			}
		}
	} else if resp.Code == http.StatusNotFound {
		v["del"] = strings.Contains(resp.Body.String(), "deleted")
	}
	return v
}
