//go:build verif

package rest

// C02 binding (specs/ReadAuth): ONE RestTester hosts all cases exported by TLC side by side.  A case = an access
// configuration (one role, users u1/u2 with direct channels and role membership; the shared guest "g") and one
// document with a revision tree whose revisions were written with given channel sets.  Every case has its own
// doc-id / user / role / channel prefix.  Every revision body and every attachment carries a unique marker; every
// response (status, headers, raw body bytes) returned to a non-admin requester is scanned for all markers of its case
// and projected (entries returned with their top-level property names, doc ids listed).  Nothing about the property
// is asserted here: the recorded events are evaluated by TLC (Trace_ReadAuth, pass P / pass C).
//
// Ground truth logged in the "Case" line is only what the harness WROTE (channels of each revision, grants); the
// gateway's own view of access is never consulted.
//
// Environment: VERIF_BEH (cases), VERIF_TRACE_OUT (ndjson), VERIF_SEED; VERIF_C02_FLAGS=full (whole flag product instead of
// the core selection), VERIF_C02_DEFAULT_COLLECTION=1 (database on _default._default: auth/role.go authorizeAnyChannel path),
// VERIF_C02_BLIP=1 (replication-protocol surfaces instead of the REST ones).

import (
	"bytes"
	"encoding/base64"
	"encoding/json"
	"fmt"
	"io"
	"math/rand"
	"mime"
	"mime/multipart"
	"net/http"
	"net/url"
	"os"
	"sort"
	"strings"
	"sync"
	"testing"
	"time"

	"github.com/couchbase/go-blip"
	"github.com/couchbase/sync_gateway/base"
	"github.com/couchbase/sync_gateway/channels"
	"github.com/couchbase/sync_gateway/db"
)

type vC02Rev struct {
	ID     string   `json:"id"`
	Parent string   `json:"parent"`
	Del    bool     `json:"del"`
	Rank   int      `json:"rank"`
	Chans  []string `json:"chans"`
}
type vC02User struct {
	Direct []string `json:"direct"`
	InRole bool     `json:"inRole"`
}
type vC02Case struct {
	Role  []string            `json:"role"`
	Users map[string]vC02User `json:"users"`
	Revs  []vC02Rev           `json:"revs"`
	Win   string              `json:"win"`
	Shape string              `json:"shape"`
}

// per-case runtime data
type vC02Inst struct {
	idx     int
	pre     string
	c       vC02Case
	docID   string
	revID   map[string]string // model rev -> real revtree id
	cv      map[string]string // model rev -> real CV (as returned by the write)
	model   map[string]string // real revtree id / cv -> model rev
	bodyMk  map[string]string // model rev -> marker in the body
	attRaw  map[string]string // model rev -> attachment content (is the marker)
	attB64  map[string]string
	digest  map[string]string // model rev -> attachment digest
	seq0    uint64            // last sequence before the case's document was written
	users   []string          // model user names, sorted
	realCur string            // model rev that is the real current revision (admin view)
}

type vC02Read struct {
	surf   string
	fl     vObj
	method string
	path   string // after /{{.keyspace}}/
	body   string
	hdr    map[string]string
	rev    string // model rev asked for ("" = none / current)
	parse  string // json1 | openrevs | multipart | alldocs | changes | raw
}

func vC02Chan(pre, c string) string {
	if c == "*" || c == "!" {
		return c
	}
	return pre + c
}

func vC02Chans(pre string, cs []string) []string {
	out := []string{}
	for _, c := range cs {
		out = append(out, vC02Chan(pre, c))
	}
	return out
}

func vC02Pad3(s string) string {
	for len(s)%3 != 0 {
		s += "."
	}
	return s
}

func TestVerif_C02_ReadAuth(t *testing.T) {
	var cases []vC02Case
	vReadJSON(t, "VERIF_BEH", &cases)
	tw := vOpenTrace(t, "VERIF_TRACE_OUT")
	defer tw.Close()
	full := os.Getenv("VERIF_C02_FLAGS") == "full"
	blipRun := os.Getenv("VERIF_C02_BLIP") == "1" // replication-protocol surfaces instead of the REST ones
	blipAlso := 0                                 // "also:N": REST surfaces for every case plus the replication protocol for the first N cases
	if v := os.Getenv("VERIF_C02_BLIP"); strings.HasPrefix(v, "also:") {
		blipAlso = vC02Atoi(v[5:], 0)
	}
	defaultColl := os.Getenv("VERIF_C02_DEFAULT_COLLECTION") == "1"
	rnd := vRand()

	cfg := &RestTesterConfig{GuestEnabled: false, SyncFn: channels.DocChannelsSyncFunction}
	var rt *RestTester
	if defaultColl {
		rt = newRestTester(t, cfg, useSingleCollectionDefaultOnly, 1)
	} else {
		rt = NewRestTester(t, cfg)
	}
	defer rt.Close()
	ds := rt.GetSingleDataStore()
	dbc := rt.GetDatabase()
	dbc.EnableAllowConflicts(t) // conflicting revision trees are a legacy data state that 4.x still serves

	// the guest: enabled, no channels of its own (sees the public channel only)
	resp := rt.SendAdminRequest(http.MethodPut, "/{{.db}}/_user/GUEST", vC02GuestPayload(t, ds))
	if resp.Code != 200 && resp.Code != 201 {
		t.Fatalf("VERIF-FATAL guest: %d %s", resp.Code, resp.Body.String())
	}

	// ---- phase 1: write all cases
	insts := make([]*vC02Inst, 0, len(cases))
	pub := []string{}
	for i, c := range cases {
		in := vC02Setup(t, rt, i, c)
		insts = append(insts, in)
		for _, r := range c.Revs {
			for _, ch := range r.Chans {
				if ch == "!" {
					pub = append(pub, in.docID)
				}
			}
		}
	}
	rt.WaitForPendingChanges()
	sort.Strings(pub)
	pub = vC02Uniq(pub)
	tw.Emit(vObj{"a": "Meta", "pub": pub, "n": len(cases), "defaultCollection": defaultColl, "flags": map[bool]string{true: "full", false: "core"}[full]})

	nReads := 0
	runPass := func(pass string) {
		for _, in := range insts {
			if pass == "written" && !blipRun && in.idx >= blipAlso {
				continue
			}
			in.realCur = vC02RealCurrent(t, rt, in)
			if pass == "warm" {
				vC02Warm(t, rt, in) // again right before the case's reads: every revision id / CV is resident now
			}
			tw.Emit(vC02CaseLine(in, pass))
			us := append([]string{}, in.users...)
			rnd.Shuffle(len(us), func(a, b int) { us[a], us[b] = us[b], us[a] })
			for _, u := range us {
				if !blipRun && pass != "written" {
					for _, rd := range vC02Reads(in, full, rnd) {
						tw.Emit(vC02Do(t, rt, in, pass, u, rd))
						nReads++
					}
				}
				if blipRun || in.idx < blipAlso {
					for _, pr := range vC02BlipProtos {
						for _, ev := range vC02Blip(t, rt, in, pass, u, pr) {
							tw.Emit(ev)
							nReads++
						}
					}
				}
			}
		}
	}

	// NewShardedLRURevisionCache divides the capacity in the SHARED options struct by the shard count every time it is
	// called, so each FlushRevisionCacheForTest would leave a cache 16x smaller (after two flushes: one entry per shard,
	// i.e. nothing stays resident and the "warm" pass is not warm).  Give the options a generous capacity before each flush.
	flushRevCache := func() {
		if o := dbc.Options.RevisionCacheOptions; o != nil {
			o.MaxItemCount = 400000
			o.MaxBytes = 0
		}
		dbc.FlushRevisionCacheForTest()
	}

	// ---- phase 2: caches as the writes left them (only the replication-protocol slice; no flush)
	if blipAlso > 0 || blipRun {
		runPass("written")
	}

	// ---- phase 3: caches cold (revision cache re-created, channel cache restarted)
	flushRevCache()
	dbc.FlushChannelCache(t)
	rt.WaitForPendingChanges()
	runPass("cold")

	// ---- phase 4: caches flushed again, then warmed by a privileged reader (admin) before the users ask
	flushRevCache()
	dbc.FlushChannelCache(t)
	rt.WaitForPendingChanges()
	for _, in := range insts {
		vC02Warm(t, rt, in)
	}
	runPass("warm")
	// ---- phase 5 (replication-protocol slice only, LAST because it changes the case's grants): a puller answers the rev
	// message with an ERROR, then loses all access (admin removes the user's channels and roles), then asks for the attachment
	// of every revision on the SAME connection.  The modified grants are logged in a new Case line (ground truth = what the
	// admin wrote) before the reads.
	for _, in := range insts {
		if !blipRun && in.idx >= blipAlso {
			continue
		}
		for _, u := range []string{"u1", "u2"} {
			evs := vC02BlipRevoked(t, rt, in, u)
			if evs == nil {
				continue
			}
			in.realCur = vC02RealCurrent(t, rt, in)
			tw.Emit(vC02CaseLine(in, "revoked"))
			for _, ev := range evs {
				tw.Emit(ev)
				nReads++
			}
		}
	}
	t.Logf("C02: %d cases, %d read events", len(cases), nReads)
}

func vC02Uniq(s []string) []string {
	out := []string{}
	for i, x := range s {
		if i == 0 || x != s[i-1] {
			out = append(out, x)
		}
	}
	return out
}

func vC02GuestPayload(t *testing.T, ds base.DataStore) string {
	var m map[string]any
	if err := json.Unmarshal([]byte(GetUserPayload(t, "", "", "", ds, []string{}, nil)), &m); err != nil {
		t.Fatalf("VERIF-FATAL guest payload: %v", err)
	}
	m["disabled"] = false
	b, _ := json.Marshal(m)
	return string(b)
}

func vC02Setup(t *testing.T, rt *RestTester, i int, c vC02Case) *vC02Inst {
	pre := fmt.Sprintf("c%05d", i)
	in := &vC02Inst{idx: i, pre: pre, c: c, docID: pre + "d", revID: map[string]string{}, cv: map[string]string{}, model: map[string]string{},
		bodyMk: map[string]string{}, attRaw: map[string]string{}, attB64: map[string]string{}, digest: map[string]string{}}
	ds := rt.GetSingleDataStore()
	// principals first, so that every grant precedes the document's sequences
	role := pre + "r1"
	rr := rt.SendAdminRequest(http.MethodPut, "/{{.db}}/_role/"+role, GetRolePayload(t, role, ds, vC02Chans(pre, c.Role)))
	if rr.Code != 201 {
		t.Fatalf("VERIF-FATAL role: %d %s", rr.Code, rr.Body.String())
	}
	for name, u := range c.Users {
		if name == "g" {
			in.users = append(in.users, name)
			continue
		}
		roles := []string{}
		if u.InRole {
			roles = append(roles, role)
		}
		ur := rt.SendAdminRequest(http.MethodPut, "/{{.db}}/_user/"+pre+name,
			GetUserPayload(t, pre+name, RestTesterDefaultUserPassword, "", ds, vC02Chans(pre, u.Direct), roles))
		if ur.Code != 201 {
			t.Fatalf("VERIF-FATAL user: %d %s", ur.Code, ur.Body.String())
		}
		in.users = append(in.users, name)
	}
	sort.Strings(in.users)
	seq, err := rt.GetDatabase().LastSequence(rt.Context())
	if err != nil {
		t.Fatalf("VERIF-FATAL last sequence: %v", err)
	}
	in.seq0 = seq

	gen := map[string]int{}
	for _, r := range c.Revs {
		in.bodyMk[r.ID] = fmt.Sprintf("S3CR3T-%s-d-%s-BODY", pre, r.ID)
		in.attRaw[r.ID] = vC02Pad3(fmt.Sprintf("S3CR3T-%s-d-%s-ATTACHMENT", pre, r.ID))
		in.attB64[r.ID] = base64.StdEncoding.EncodeToString([]byte(in.attRaw[r.ID]))
		body := vObj{"channels": vC02Chans(pre, r.Chans), "m": in.bodyMk[r.ID], "k": r.ID}
		if r.Del {
			body["_deleted"] = true
		} else {
			body["_attachments"] = vObj{"att": vObj{"data": in.attB64[r.ID], "content_type": "text/plain"}}
		}
		g := 1
		if r.Parent != "" {
			g = gen[r.Parent] + 1
		}
		gen[r.ID] = g
		sibling := false // an earlier revision with the same parent exists: this one creates the conflict
		for _, o := range c.Revs {
			if o.ID == r.ID {
				break
			}
			if o.Parent == r.Parent && r.Parent != "" {
				sibling = true
			}
		}
		var wr *TestResponse
		if !sibling {
			path := "/{{.keyspace}}/" + in.docID
			if r.Parent != "" {
				path += "?rev=" + in.revID[r.Parent]
			}
			b, _ := json.Marshal(body)
			wr = rt.SendAdminRequest(http.MethodPut, path, string(b))
		} else {
			// second branch: the chosen digest ranks it below (rank 0) or above (rank 2) its first-written sibling
			dig := "00000000000000000000000000000000"
			if r.Rank >= 2 {
				dig = "ffffffffffffffffffffffffffffffff"
			}
			_, pdig := db.ParseRevID(rt.Context(), in.revID[r.Parent])
			body["_revisions"] = vObj{"start": g, "ids": []string{dig, pdig}}
			b, _ := json.Marshal(body)
			wr = rt.SendAdminRequest(http.MethodPut, "/{{.keyspace}}/"+in.docID+"?new_edits=false", string(b))
		}
		if wr.Code != 201 && wr.Code != 200 {
			t.Fatalf("VERIF-FATAL write %s %s: %d %s", in.docID, r.ID, wr.Code, wr.Body.String())
		}
		var pr struct {
			Rev string `json:"rev"`
			CV  string `json:"cv"`
		}
		_ = json.Unmarshal(wr.Body.Bytes(), &pr)
		if pr.Rev == "" {
			t.Fatalf("VERIF-FATAL write %s %s: no rev in %s", in.docID, r.ID, wr.Body.String())
		}
		in.revID[r.ID] = pr.Rev
		in.model[pr.Rev] = r.ID
		if pr.CV != "" {
			in.cv[r.ID] = pr.CV
			in.model[pr.CV] = r.ID
		}
		if !r.Del {
			in.digest[r.ID] = db.Sha1DigestKey([]byte(in.attRaw[r.ID]))
		}
	}
	return in
}

// which model revision the gateway considers current (admin view; a projection of state, used as current(d))
func vC02RealCurrent(t *testing.T, rt *RestTester, in *vC02Inst) string {
	doc := rt.GetDocument(in.docID)
	if m, ok := in.model[doc.GetRevTreeID()]; ok {
		return m
	}
	return "?" + doc.GetRevTreeID()
}

func vC02CaseLine(in *vC02Inst, pass string) vObj {
	users := vObj{}
	for n, u := range in.c.Users {
		d := u.Direct
		if d == nil {
			d = []string{}
		}
		users[n] = vObj{"direct": d, "inRole": u.InRole}
	}
	revs := []vObj{}
	for _, r := range in.c.Revs {
		ch := r.Chans
		if ch == nil {
			ch = []string{}
		}
		revs = append(revs, vObj{"id": r.ID, "parent": r.Parent, "del": r.Del, "rank": r.Rank, "chans": ch})
	}
	role := in.c.Role
	if role == nil {
		role = []string{}
	}
	return vObj{"a": "Case", "c": in.idx, "pass": pass, "role": role, "users": users, "revs": revs, "win": in.c.Win, "cur": in.realCur,
		"shape": in.c.Shape, "doc": in.docID}
}

// privileged reader: loads every revision (and its attachment) through the same revision cache
func vC02Warm(t *testing.T, rt *RestTester, in *vC02Inst) {
	ks := "/{{.keyspace}}/" + in.docID
	rt.SendAdminRequest(http.MethodGet, ks, "")
	rt.SendAdminRequest(http.MethodGet, ks+"?open_revs=all&revs=true", "")
	for _, r := range in.c.Revs {
		rt.SendAdminRequest(http.MethodGet, ks+"?attachments=true&revs=true&rev="+in.revID[r.ID], "")
		if cv := in.cv[r.ID]; cv != "" {
			rt.SendAdminRequest(http.MethodGet, ks+"?rev="+url.QueryEscape(cv), "")
		}
	}
	rt.SendAdminRequest(http.MethodGet, fmt.Sprintf("/{{.keyspace}}/_changes?since=%d&limit=4&include_docs=true", in.seq0), "")
}

func vC02Q(kv ...string) string {
	v := url.Values{}
	for i := 0; i+1 < len(kv); i += 2 {
		v.Set(kv[i], kv[i+1])
	}
	return v.Encode()
}

func vC02JSON(x any) string {
	b, _ := json.Marshal(x)
	return string(b)
}

// the read events of one (case, user): surfaces x flags.  core = the quick-tier selection, full = the whole product.
func vC02Reads(in *vC02Inst, full bool, rnd *rand.Rand) []vC02Read {
	rs := []vC02Read{}
	d := in.docID
	revs := []string{}
	for _, r := range in.c.Revs {
		revs = append(revs, r.ID)
	}
	allRevIDs := []string{}
	for _, r := range revs {
		allRevIDs = append(allRevIDs, in.revID[r])
	}
	bools := []bool{false, true}
	bs := func(b bool) string { return map[bool]string{true: "true", false: "false"}[b] }

	// ---- GetDoc(rev?, revs, attachments, atts_since, show_cv)
	type gd struct {
		rev                         string
		byCV, revs, atts, since, cv bool
	}
	gds := []gd{}
	if full {
		for _, r := range append([]string{""}, revs...) {
			for _, rv := range bools {
				for _, at := range bools {
					for _, si := range bools {
						if si && !at {
							continue
						}
						gds = append(gds, gd{r, false, rv, at, si, rv != at})
					}
				}
			}
			if r != "" && in.cv[r] != "" {
				gds = append(gds, gd{r, true, false, false, false, false}, gd{r, true, true, true, false, true})
			}
		}
	} else {
		gds = append(gds, gd{"", false, false, false, false, false}, gd{"", false, true, true, true, true})
		for _, r := range revs {
			gds = append(gds, gd{r, false, false, false, false, false}, gd{r, false, true, true, false, true})
			if in.cv[r] != "" {
				gds = append(gds, gd{r, true, false, rnd.Intn(2) == 0, false, false})
			}
		}
	}
	for _, g := range gds {
		kv := []string{}
		if g.rev != "" {
			if g.byCV {
				kv = append(kv, "rev", in.cv[g.rev])
			} else {
				kv = append(kv, "rev", in.revID[g.rev])
			}
		}
		if g.revs {
			kv = append(kv, "revs", "true")
		}
		if g.atts {
			kv = append(kv, "attachments", "true")
		}
		if g.since {
			kv = append(kv, "atts_since", vC02JSON([]string{"1-00000000000000000000000000000000"}))
		}
		if g.cv {
			kv = append(kv, "show_cv", "true")
		}
		rs = append(rs, vC02Read{surf: "GetDoc", fl: vObj{"byCV": g.byCV, "revs": g.revs, "attachments": g.atts, "atts_since": g.since, "show_cv": g.cv},
			method: "GET", path: d + "?" + vC02Q(kv...), rev: g.rev, parse: "json1", hdr: map[string]string{"Accept": "application/json"}})
	}
	if full { // multipart rendering of a single-revision GET with attachment bodies
		for _, r := range append([]string{""}, revs...) {
			kv := []string{"attachments", "true"}
			if r != "" {
				kv = append(kv, "rev", in.revID[r])
			}
			rs = append(rs, vC02Read{surf: "GetDoc", fl: vObj{"byCV": false, "revs": false, "attachments": true, "atts_since": false, "show_cv": false, "multipart": true},
				method: "GET", path: d + "?" + vC02Q(kv...), rev: r, parse: "multipart", hdr: map[string]string{"Accept": "multipart/related"}})
		}
	}

	// ---- OpenRevs(all | list)
	for _, mode := range []string{"all", "list"} {
		for _, mp := range bools {
			for _, rv := range bools {
				if !full && mp != rv {
					continue
				}
				val := "all"
				if mode == "list" {
					val = vC02JSON(allRevIDs)
				}
				kv := []string{"open_revs", val}
				if rv {
					kv = append(kv, "revs", "true")
				}
				acc, ps := "application/json", "openrevs"
				if mp {
					acc, ps = "multipart/mixed", "multipart"
				}
				rs = append(rs, vC02Read{surf: "OpenRevs", fl: vObj{"mode": mode, "multipart": mp, "revs": rv},
					method: "GET", path: d + "?" + vC02Q(kv...), rev: "", parse: ps, hdr: map[string]string{"Accept": acc}})
			}
		}
	}

	// ---- BulkGet: one entry per revision plus one entry without rev
	for _, rv := range bools {
		for _, at := range bools {
			if !full && rv != at {
				continue
			}
			docs := []vObj{{"id": d}}
			for _, r := range revs {
				e := vObj{"id": d, "rev": in.revID[r]}
				if at && rv {
					e["atts_since"] = []string{}
				}
				docs = append(docs, e)
			}
			if full || rv {
				for _, r := range revs {
					if in.cv[r] != "" {
						docs = append(docs, vObj{"id": d, "rev": in.cv[r]})
					}
				}
			}
			rs = append(rs, vC02Read{surf: "BulkGet", fl: vObj{"revs": rv, "attachments": at},
				method: "POST", path: "_bulk_get?" + vC02Q("revs", bs(rv), "attachments", bs(at)), body: vC02JSON(vObj{"docs": docs}), parse: "multipart"})
		}
	}

	// ---- AllDocs(include_docs, channels, keys)
	next := fmt.Sprintf("c%05d~", in.idx+1)
	for _, keys := range []string{"none", "get", "post"} {
		for _, inc := range bools {
			for _, chn := range bools {
				if !full && ((keys == "none" && inc != chn) || (keys == "get" && !(inc && !chn)) || (keys == "post" && !(inc && chn))) {
					continue
				}
				kv := []string{"include_docs", bs(inc), "channels", bs(chn)}
				if inc && chn {
					kv = append(kv, "revs", "true", "update_seq", "true", "access", "true")
				}
				rd := vC02Read{surf: "AllDocs", fl: vObj{"include_docs": inc, "channels": chn, "keys": keys}, method: "GET", parse: "alldocs"}
				switch keys {
				case "none":
					kv = append(kv, "startkey", vC02JSON(in.pre), "endkey", vC02JSON(next))
				case "get":
					kv = append(kv, "keys", vC02JSON([]string{d, in.pre + "nosuchdoc"}))
				case "post":
					rd.method = "POST"
					rd.body = vC02JSON(vObj{"keys": []string{d}})
				}
				rd.path = "_all_docs?" + vC02Q(kv...)
				rs = append(rs, rd)
			}
		}
	}

	// ---- Changes(include_docs, style), from just before the case's document; bounded by limit
	type cf struct {
		inc, all, active bool
		filter           string
		post             bool
	}
	cfs := []cf{}
	if full {
		for _, inc := range bools {
			for _, all := range bools {
				cfs = append(cfs, cf{inc, all, false, "", false})
			}
		}
		cfs = append(cfs, cf{true, false, true, "", false}, cf{true, true, false, "bychannel", false}, cf{true, false, false, "doc_ids", false},
			cf{true, true, false, "", true}, cf{false, false, false, "bychannel", true})
	} else {
		cfs = append(cfs, cf{false, false, false, "", false}, cf{true, false, false, "", false}, cf{true, true, false, "", false})
		switch rnd.Intn(3) {
		case 0:
			cfs = append(cfs, cf{true, false, false, "bychannel", false})
		case 1:
			cfs = append(cfs, cf{true, false, false, "doc_ids", false})
		default:
			cfs = append(cfs, cf{true, true, false, "", true})
		}
	}
	for _, c := range cfs {
		fl := vObj{"include_docs": c.inc, "style": map[bool]string{true: "all_docs", false: "main_only"}[c.all], "active_only": c.active, "filter": c.filter, "post": c.post}
		chans := strings.Join([]string{in.pre + "A", in.pre + "B", "!"}, ",")
		if !c.post {
			kv := []string{"since", fmt.Sprint(in.seq0), "limit", "6", "include_docs", bs(c.inc)}
			if c.all {
				kv = append(kv, "style", "all_docs")
			}
			if c.active {
				kv = append(kv, "active_only", "true")
			}
			switch c.filter {
			case "bychannel":
				kv = append(kv, "filter", "sync_gateway/bychannel", "channels", chans)
			case "doc_ids":
				kv = append(kv, "filter", "_doc_ids", "doc_ids", vC02JSON([]string{d}))
			}
			rs = append(rs, vC02Read{surf: "Changes", fl: fl, method: "GET", path: "_changes?" + vC02Q(kv...), parse: "changes"})
		} else {
			b := vObj{"since": in.seq0, "limit": 6, "include_docs": c.inc}
			if c.all {
				b["style"] = "all_docs"
			}
			if c.filter == "bychannel" {
				b["filter"] = "sync_gateway/bychannel"
				b["channels"] = chans
			}
			rs = append(rs, vC02Read{surf: "Changes", fl: fl, method: "POST", path: "_changes", body: vC02JSON(b), parse: "changes"})
		}
	}

	// ---- GetAttachment(rev?)
	for _, r := range append([]string{""}, revs...) {
		p := d + "/att"
		if r != "" {
			p += "?rev=" + in.revID[r]
		}
		rs = append(rs, vC02Read{surf: "GetAttachment", fl: vObj{"meta": false}, method: "GET", path: p, rev: r, parse: "raw"})
		if full {
			q := "?meta=true"
			if r != "" {
				q += "&rev=" + in.revID[r]
			}
			rs = append(rs, vC02Read{surf: "GetAttachment", fl: vObj{"meta": true}, method: "GET", path: d + "/att" + q, rev: r, parse: "raw"})
		}
	}
	return rs
}

// ---- perform one read as user u and project the response
func vC02Do(t *testing.T, rt *RestTester, in *vC02Inst, pass, u string, rd vC02Read) vObj {
	req := Request(rd.method, rt.mustTemplateResource("/{{.keyspace}}/"+rd.path), rd.body)
	if u != "g" {
		req.SetBasicAuth(in.pre+u, RestTesterDefaultUserPassword)
	}
	for k, v := range rd.hdr {
		req.Header.Set(k, v)
	}
	if rd.body != "" {
		req.Header.Set("Content-Type", "application/json")
	}
	resp := rt.Send(req)
	raw := resp.Body.Bytes()
	var hb strings.Builder
	for k, vs := range resp.Header() {
		hb.WriteString(k + ": " + strings.Join(vs, ",") + "\n")
	}
	hay := append([]byte(hb.String()), raw...)
	mk, am := []string{}, []string{}
	for _, r := range in.c.Revs {
		if bytes.Contains(hay, []byte(in.bodyMk[r.ID])) {
			mk = append(mk, r.ID)
		}
		if bytes.Contains(hay, []byte(in.attRaw[r.ID])) || bytes.Contains(hay, []byte(in.attB64[r.ID])) ||
			bytes.Contains(hay, []byte(strings.TrimRight(in.attRaw[r.ID], "."))) {
			am = append(am, r.ID)
		}
	}
	ents := []vObj{}
	listed, foreign := false, []string{}
	addEnt := func(m map[string]any, from string) {
		if m == nil {
			return
		}
		props := []string{}
		for k := range m {
			props = append(props, k)
		}
		sort.Strings(props)
		rev := "?"
		if rv, ok := m["_rev"].(string); ok {
			if mr, ok := in.model[rv]; ok {
				rev = mr
			}
		} else if rv, ok := m["rev"].(string); ok { // error entries of _bulk_get echo the requested rev
			if mr, ok := in.model[rv]; ok {
				rev = mr
			}
		}
		_, isErr := m["error"]
		_, isMissing := m["missing"]
		id, _ := m["_id"].(string)
		ents = append(ents, vObj{"rev": rev, "props": props, "err": isErr || isMissing, "own": id == "" || id == in.docID, "from": from})
	}
	note := func(id string) {
		if id == in.docID {
			listed = true
		} else if id != "" {
			foreign = append(foreign, id)
		}
	}
	ct := resp.Header().Get("Content-Type")
	switch rd.parse {
	case "json1":
		if resp.Code == 200 {
			var m map[string]any
			if json.Unmarshal(raw, &m) == nil {
				addEnt(m, "doc")
			}
		}
	case "openrevs":
		if resp.Code == 200 {
			var arr []map[string]any
			if json.Unmarshal(raw, &arr) == nil {
				for _, e := range arr {
					if ok, is := e["ok"].(map[string]any); is {
						addEnt(ok, "ok")
					} else {
						addEnt(e, "missing")
					}
				}
			}
		}
	case "multipart":
		if resp.Code == 200 {
			vC02Parts(ct, raw, 0, func(m map[string]any) { addEnt(m, "part") })
		}
	case "alldocs":
		if resp.Code == 200 {
			var r struct {
				Rows []map[string]any `json:"rows"`
			}
			if json.Unmarshal(raw, &r) == nil {
				keyed := rd.fl["keys"] != "none"
				for _, row := range r.Rows {
					if id, ok := row["id"].(string); ok && row["error"] == nil {
						note(id)
					} else if key, ok := row["key"].(string); ok && !keyed {
						note(key) // an error row in an un-keyed listing still tells the requester that the document exists
					}
					if dm, ok := row["doc"].(map[string]any); ok {
						if id, _ := dm["_id"].(string); id == in.docID {
							addEnt(dm, "row")
						}
					}
				}
			}
		}
	case "changes":
		if resp.Code == 200 {
			var r struct {
				Results []map[string]any `json:"results"`
			}
			if json.Unmarshal(raw, &r) == nil {
				for _, row := range r.Results {
					id, _ := row["id"].(string)
					if strings.HasPrefix(id, "_user/") || strings.HasPrefix(id, "_role/") {
						continue
					}
					note(id)
					if dm, ok := row["doc"].(map[string]any); ok && id == in.docID {
						addEnt(dm, "row")
					}
				}
			}
		}
	}
	sort.Strings(foreign)
	return vObj{"a": "Read", "c": in.idx, "pass": pass, "surf": rd.surf, "fl": rd.fl, "u": u, "rev": rd.rev, "st": resp.Code,
		"mk": mk, "am": am, "ents": ents, "listed": listed, "foreign": vC02Uniq(foreign), "rq": rd.method + " " + rd.path}
}

// walk a multipart response (parts may be nested multipart/related when attachments are included); JSON parts are projected
func vC02Parts(contentType string, raw []byte, depth int, f func(map[string]any)) {
	mt, params, err := mime.ParseMediaType(contentType)
	if err != nil || !strings.HasPrefix(mt, "multipart/") || depth > 3 {
		return
	}
	mr := multipart.NewReader(bytes.NewReader(raw), params["boundary"])
	for {
		p, err := mr.NextPart()
		if err != nil {
			return
		}
		b, _ := io.ReadAll(p)
		pct := p.Header.Get("Content-Type")
		if strings.HasPrefix(pct, "multipart/") {
			vC02Parts(pct, b, depth+1, f)
		} else if strings.HasPrefix(pct, "application/json") {
			var m map[string]any
			if json.Unmarshal(b, &m) == nil {
				f(m)
			}
		}
	}
}

// ---- replication protocol (BLIP): one connection per (case, user, pass):
//
//	BlipChanges        subChanges (one shot, since just before the case's document): the `changes` messages received
//	BlipRev            the rev / norev messages the gateway sends when the client asks for every listed revision of the document
//	BlipGetAttachment  getAttachment for the attachment digest of EVERY revision of the document, asked while the rev message is
//	                   being handled (the only time the per-connection allow-list can contain it) and again afterwards
//	BlipGetRev         connected-client getRev of the document
type vC02BlipProto struct {
	name        string
	subprotocol db.CBMobileSubprotocolVersion
	revocations bool // subChanges revocations=true
	removals    bool // the gateway announces plain channel removals to this puller (v2 always, v3+ with revocations=true)
}

var vC02BlipProtos = []vC02BlipProto{
	{"v3", db.CBMobileReplicationV3, false, false},
	{"v2", db.CBMobileReplicationV2, false, true},
	{"v3+revocations", db.CBMobileReplicationV3, true, true},
	{"v4+revocations", db.CBMobileReplicationV4, true, true},
}

func vC02Blip(t *testing.T, rt *RestTester, in *vC02Inst, pass, u string, pr vC02BlipProto) []vObj {
	spec := &BlipTesterSpec{blipProtocols: []string{pr.subprotocol.SubprotocolString()}}
	if u != "g" {
		spec.connectingUsername = in.pre + u
	}
	bt := NewBlipTesterFromSpecWithRT(rt, spec)
	defer bt.Close()

	var mu sync.Mutex
	var changesRaw, revRaw bytes.Buffer
	listed, foreign := false, []string{}
	wanted := 0
	revEnts := []vObj{}
	attEvents := []vObj{}
	var changesDone, revsDone sync.WaitGroup
	scan := func(hay []byte) (mk, am []string) {
		mk, am = []string{}, []string{}
		for _, r := range in.c.Revs {
			if bytes.Contains(hay, []byte(in.bodyMk[r.ID])) {
				mk = append(mk, r.ID)
			}
			if bytes.Contains(hay, []byte(in.attRaw[r.ID])) || bytes.Contains(hay, []byte(in.attB64[r.ID])) {
				am = append(am, r.ID)
			}
		}
		return
	}
	props := func(m *blip.Message) string {
		var sb strings.Builder
		for k, v := range m.Properties {
			sb.WriteString(k + ": " + v + "\n")
		}
		return sb.String()
	}
	askAttachments := func(during bool) {
		for _, r := range in.c.Revs {
			if r.Del {
				continue
			}
			rq := blip.NewRequest()
			rq.SetProfile(db.MessageGetAttachment)
			rq.Properties[db.GetAttachmentDigest] = in.digest[r.ID]
			if pr.subprotocol >= db.CBMobileReplicationV3 {
				rq.Properties[db.GetAttachmentID] = in.docID
			}
			bt.addCollectionProperty(rq)
			if !bt.sender.Send(rq) {
				t.Errorf("VERIF-FATAL blip send getAttachment failed")
				return
			}
			rs := rq.Response()
			body, _ := rs.Body()
			st := 200
			if rs.Properties[db.BlipErrorCode] != "" {
				st = vC02Atoi(rs.Properties[db.BlipErrorCode], 500)
			}
			_, am := scan(append([]byte(props(rs)), body...))
			ev := vObj{"a": "Read", "c": in.idx, "pass": pass, "surf": "BlipGetAttachment", "fl": vObj{"during": during, "proto": pr.name}, "u": u, "rev": r.ID, "st": st,
				"mk": []string{}, "am": am, "ents": []vObj{}, "listed": false, "foreign": []string{}, "rq": "getAttachment " + in.digest[r.ID]}
			mu.Lock()
			attEvents = append(attEvents, ev)
			mu.Unlock()
		}
	}
	gotRev := false
	bt.blipContext.HandlerForProfile[db.MessageChanges] = func(rq *blip.Message) {
		body, _ := rq.Body()
		if string(body) == "null" {
			changesDone.Done()
			return
		}
		mu.Lock()
		changesRaw.WriteString(props(rq))
		changesRaw.Write(body)
		mu.Unlock()
		var batch [][]any
		if err := json.Unmarshal(body, &batch); err != nil {
			t.Errorf("VERIF-FATAL blip changes body: %v %s", err, body)
			return
		}
		answer := []any{}
		for _, ch := range batch {
			id := ""
			if len(ch) > 1 {
				id, _ = ch[1].(string)
			}
			mu.Lock()
			if id == in.docID {
				listed = true
				wanted++
				answer = append(answer, []any{}) // want it, nothing known
				revsDone.Add(1)
			} else {
				if id != "" && !strings.HasPrefix(id, "_user/") && !strings.HasPrefix(id, "_role/") {
					foreign = append(foreign, id)
				}
				answer = append(answer, 0) // not interested in other cases' documents
			}
			mu.Unlock()
		}
		if !rq.NoReply() {
			b, _ := json.Marshal(answer)
			rq.Response().SetBody(b)
		}
	}
	onRev := func(isNoRev bool) func(rq *blip.Message) {
		return func(rq *blip.Message) {
			defer revsDone.Done()
			body, _ := rq.Body()
			mu.Lock()
			revRaw.WriteString(props(rq))
			revRaw.Write(body)
			rev := "?"
			if m, ok := in.model[rq.Properties[db.RevMessageRev]]; ok {
				rev = m
				if last := in.c.Revs[len(in.c.Revs)-1].ID; !base.IsRevTreeID(rq.Properties[db.RevMessageRev]) && m == last {
					rev = in.realCur // a version vector names the document's last write; the body that travels is the current revision's
				}
			}
			pn := []string{}
			var m map[string]any
			if !isNoRev && json.Unmarshal(body, &m) == nil {
				for k := range m {
					pn = append(pn, k)
				}
			}
			if rq.Properties[db.RevMessageDeleted] != "" {
				pn = append(pn, "_deleted")
			}
			sort.Strings(pn)
			revEnts = append(revEnts, vObj{"rev": rev, "props": pn, "err": isNoRev, "own": rq.Properties[db.RevMessageID] == in.docID, "from": rq.Profile(), "asked": rq.Properties[db.RevMessageRev]})
			gotRev = gotRev || !isNoRev
			mu.Unlock()
			if !isNoRev {
				askAttachments(true)
			}
			if !rq.NoReply() {
				rq.Response().SetBody([]byte{})
			}
		}
	}
	bt.blipContext.HandlerForProfile[db.MessageRev] = onRev(false)
	bt.blipContext.HandlerForProfile[db.MessageNoRev] = onRev(true)

	changesDone.Add(1)
	sub := blip.NewRequest()
	sub.SetProfile(db.MessageSubChanges)
	sub.Properties[db.SubChangesContinuous] = "false"
	sub.Properties[db.SubChangesSince] = fmt.Sprint(in.seq0)
	if pr.revocations {
		sub.Properties[db.SubChangesRevocations] = "true"
	}
	bt.addCollectionProperty(sub)
	if !bt.sender.Send(sub) {
		t.Fatalf("VERIF-FATAL blip send subChanges failed")
	}
	subSt := 200
	if rs := sub.Response(); rs.Properties[db.BlipErrorCode] != "" {
		subSt = vC02Atoi(rs.Properties[db.BlipErrorCode], 500)
	}
	if subSt == 200 {
		vC02Wait(t, &changesDone, "blip changes")
		vC02Wait(t, &revsDone, "blip revs")
	}
	askAttachments(false)

	// connected-client getRev
	gr := blip.NewRequest()
	gr.SetProfile(db.MessageGetRev)
	gr.Properties[db.GetRevMessageId] = in.docID
	bt.addCollectionProperty(gr)
	if !bt.sender.Send(gr) {
		t.Fatalf("VERIF-FATAL blip send getRev failed")
	}
	grs := gr.Response()
	grBody, _ := grs.Body()
	grSt := 200
	if grs.Properties[db.BlipErrorCode] != "" {
		grSt = vC02Atoi(grs.Properties[db.BlipErrorCode], 500)
	}
	grEnts := []vObj{}
	if grSt == 200 {
		var m map[string]any
		if json.Unmarshal(grBody, &m) == nil {
			pn := []string{}
			for k := range m {
				pn = append(pn, k)
			}
			sort.Strings(pn)
			rev := "?"
			if mr, ok := in.model[grs.Properties[db.GetRevRevId]]; ok {
				rev = mr
			}
			grEnts = append(grEnts, vObj{"rev": rev, "props": pn, "err": false, "own": true, "from": "getRev"})
		}
	}

	mu.Lock()
	defer mu.Unlock()
	sort.Strings(foreign)
	cmk, cam := scan(changesRaw.Bytes())
	rmk, ram := scan(revRaw.Bytes())
	gmk, gam := scan(append([]byte(props(grs)), grBody...))
	evs := []vObj{
		{"a": "Read", "c": in.idx, "pass": pass, "surf": "BlipChanges", "fl": vObj{"proto": pr.name, "removals": pr.removals}, "u": u, "rev": "", "st": subSt, "mk": cmk, "am": cam, "ents": []vObj{},
			"listed": listed, "foreign": vC02Uniq(foreign), "rq": fmt.Sprintf("subChanges(%s) since=%d", pr.name, in.seq0)},
		{"a": "Read", "c": in.idx, "pass": pass, "surf": "BlipRev", "fl": vObj{"delta": false, "proto": pr.name, "removals": pr.removals}, "u": u, "rev": "", "st": subSt, "mk": rmk, "am": ram, "ents": revEnts,
			"listed": false, "foreign": []string{}, "rq": "rev/norev after subChanges"},
	}
	for _, ev := range attEvents { // "single": the document was announced (and so sent) exactly once on this connection; with two rev
		// messages in flight the first reply already takes the attachment off the allow-list while the second is being handled
		ev["fl"].(vObj)["single"] = wanted == 1
	}
	evs = append(evs, attEvents...)
	evs = append(evs, vObj{"a": "Read", "c": in.idx, "pass": pass, "surf": "BlipGetRev", "fl": vObj{"proto": pr.name}, "u": u, "rev": "", "st": grSt, "mk": gmk, "am": gam, "ents": grEnts,
		"listed": false, "foreign": []string{}, "rq": "getRev " + in.docID})
	return evs
}

func vC02Atoi(s string, def int) int {
	n := 0
	if _, err := fmt.Sscanf(s, "%d", &n); err != nil {
		return def
	}
	return n
}

func vC02Wait(t *testing.T, wg *sync.WaitGroup, what string) {
	done := make(chan struct{})
	go func() { wg.Wait(); close(done) }()
	select {
	case <-done:
	case <-time.After(30 * time.Second):
		t.Fatalf("VERIF-FATAL timeout waiting for %s", what)
	}
}

// vC02BlipRevoked: user u pulls the case's document (protocol v3), replies to every rev message with an error, waits (bounded)
// until the gateway has closed the attachment window of that exchange, is then stripped of every channel and role by the
// administrator, and finally asks for the attachment of every revision on the same connection.  Returns nil when no revision
// with an attachment was sent to u (nothing to test).  in.c.Users[u] is updated to the new grants.
func vC02BlipRevoked(t *testing.T, rt *RestTester, in *vC02Inst, u string) []vObj {
	bt := NewBlipTesterFromSpecWithRT(rt, &BlipTesterSpec{connectingUsername: in.pre + u})
	defer bt.Close()
	var mu sync.Mutex
	var changesDone, revsDone sync.WaitGroup
	gotBody := false
	bt.blipContext.HandlerForProfile[db.MessageChanges] = func(rq *blip.Message) {
		body, _ := rq.Body()
		if string(body) == "null" {
			changesDone.Done()
			return
		}
		var batch [][]any
		_ = json.Unmarshal(body, &batch)
		answer := []any{}
		for _, ch := range batch {
			id := ""
			if len(ch) > 1 {
				id, _ = ch[1].(string)
			}
			if id == in.docID {
				answer = append(answer, []any{})
				revsDone.Add(1)
			} else {
				answer = append(answer, 0)
			}
		}
		if !rq.NoReply() {
			b, _ := json.Marshal(answer)
			rq.Response().SetBody(b)
		}
	}
	onRev := func(rq *blip.Message) {
		defer revsDone.Done()
		body, _ := rq.Body()
		if rq.Profile() == db.MessageRev && bytes.Contains(body, []byte("_attachments")) {
			mu.Lock()
			gotBody = true
			mu.Unlock()
		}
		if !rq.NoReply() {
			rq.Response().SetError("HTTP", 500, "c02: client could not store the revision")
		}
	}
	bt.blipContext.HandlerForProfile[db.MessageRev] = onRev
	bt.blipContext.HandlerForProfile[db.MessageNoRev] = onRev
	changesDone.Add(1)
	sub := blip.NewRequest()
	sub.SetProfile(db.MessageSubChanges)
	sub.Properties[db.SubChangesContinuous] = "false"
	sub.Properties[db.SubChangesSince] = fmt.Sprint(in.seq0)
	bt.addCollectionProperty(sub)
	if !bt.sender.Send(sub) {
		t.Fatalf("VERIF-FATAL blip send subChanges failed")
	}
	if sub.Response().Properties[db.BlipErrorCode] != "" {
		return nil
	}
	vC02Wait(t, &changesDone, "blip changes (revoked variant)")
	vC02Wait(t, &revsDone, "blip revs (revoked variant)")
	mu.Lock()
	sent := gotBody
	mu.Unlock()
	if !sent {
		return nil
	}
	ask := func(r vC02Rev) (int, []byte) {
		rq := blip.NewRequest()
		rq.SetProfile(db.MessageGetAttachment)
		rq.Properties[db.GetAttachmentDigest] = in.digest[r.ID]
		rq.Properties[db.GetAttachmentID] = in.docID
		bt.addCollectionProperty(rq)
		if !bt.sender.Send(rq) {
			t.Fatalf("VERIF-FATAL blip send getAttachment failed")
		}
		rs := rq.Response()
		body, _ := rs.Body()
		st := 200
		if rs.Properties[db.BlipErrorCode] != "" {
			st = vC02Atoi(rs.Properties[db.BlipErrorCode], 500)
		}
		return st, body
	}
	// The gateway processes the (error) reply to the rev message in its own goroutine.  While u still HAS access, ask until
	// the window of that exchange is observed closed - a generous liveness bound, not an ordering device: if it never closes
	// the reads below simply record what is served.
	deadline := time.Now().Add(3 * time.Second)
	for closed := false; !closed && time.Now().Before(deadline); {
		closed = true
		for _, r := range in.c.Revs {
			if !r.Del {
				if st, _ := ask(r); st == 200 {
					closed = false
				}
			}
		}
		if !closed {
			time.Sleep(20 * time.Millisecond)
		}
	}
	// the administrator takes every channel and role away from u
	ur := rt.SendAdminRequest(http.MethodPut, "/{{.db}}/_user/"+in.pre+u, GetUserPayload(t, in.pre+u, "", "", rt.GetSingleDataStore(), []string{}, []string{}))
	if ur.Code != 200 {
		t.Fatalf("VERIF-FATAL revoke %s: %d %s", in.pre+u, ur.Code, ur.Body.String())
	}
	in.c.Users[u] = vC02User{Direct: []string{}, InRole: false}
	evs := []vObj{}
	for _, r := range in.c.Revs {
		if r.Del {
			continue
		}
		st, body := ask(r)
		am := []string{}
		for _, x := range in.c.Revs {
			if bytes.Contains(body, []byte(in.attRaw[x.ID])) || bytes.Contains(body, []byte(in.attB64[x.ID])) {
				am = append(am, x.ID)
			}
		}
		evs = append(evs, vObj{"a": "Read", "c": in.idx, "pass": "revoked", "surf": "BlipGetAttachment",
			"fl": vObj{"during": false, "single": true, "proto": "v3", "afterErrorReply": true, "revoked": true}, "u": u, "rev": r.ID, "st": st,
			"mk": []string{}, "am": am, "ents": []vObj{}, "listed": false, "foreign": []string{}, "rq": "getAttachment " + in.digest[r.ID] + " after an error reply to rev and revocation"})
	}
	return evs
}
