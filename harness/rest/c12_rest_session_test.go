//go:build verif

package rest

// C12 binding at the REST layer (rest/handler.go checkPublicAuth): replays sequential behaviours of
// specs/AuthSession through the admin and public HTTP APIs of a RestTester and records HTTP outcomes
// (200 / 426 = authenticated, 401 = refused) plus the projection of the stored user / session documents.
// Used for the disabled-owner clause of SessSound (DESIGN section 7, F4) and, in the thorough tier, for the same
// behaviours over REST.  No property is asserted here.

import (
	"encoding/json"
	"fmt"
	"net/http"
	"strings"
	"testing"
	"time"

	"github.com/couchbase/sync_gateway/auth"
	"github.com/couchbase/sync_gateway/base"
	"golang.org/x/crypto/bcrypt"
)

type vC12RStep struct {
	A    string `json:"a"`
	U    string `json:"u"`
	P    string `json:"p"`
	S    string `json:"s"`
	One  bool   `json:"one"`
	Pr   any    `json:"pr"`
	Kind string `json:"kind"`
}
type vC12RBeh struct {
	Steps []vC12RStep `json:"steps"`
}

type vC12RUserDoc struct {
	Disabled    bool   `json:"disabled"`
	Hash        []byte `json:"passwordhash_bcrypt"`
	SessionUUID string `json:"session_uuid"`
}

func TestVerif_C12_RestSession(t *testing.T) {
	var behs []vC12RBeh
	vReadJSON(t, "VERIF_BEH", &behs)
	tw := vOpenTrace(t, "VERIF_TRACE_OUT")
	defer tw.Close()
	rt := NewRestTester(t, &RestTesterConfig{GuestEnabled: false,
		DatabaseConfig: &DatabaseConfig{DbConfig: DbConfig{AllowEmptyPassword: base.Ptr(true)}}})
	defer rt.Close()
	ctx := rt.Context()
	ds := rt.MetadataStore()
	a := rt.GetDatabase().Authenticator(ctx)
	pw := map[string]string{"p1": "letmein-1", "p2": "letmein-1x", "": "", "wrong": "letmein-"}
	users := []string{"u1", "u2"}
	slots := []string{"s1", "s2"}

	for bi, b := range behs {
		pre := fmt.Sprintf("b%d", bi)
		name := func(u string) string { return pre + u }
		model := func(n string) string {
			if strings.HasPrefix(n, pre) {
				return n[len(pre):]
			}
			return "?" + n
		}
		sid := map[string]string{}
		one := map[string]bool{}
		epoch := map[string]int{}
		eid := func(u string) int {
			if u == "" {
				return 0
			}
			if _, ok := epoch[u]; !ok {
				epoch[u] = len(epoch) + 1
			}
			return epoch[u]
		}
		sessionID := func(s string) string {
			if id, ok := sid[s]; ok {
				return id
			}
			return "neverissued-" + pre + s
		}
		state := func() vObj {
			U, S := vObj{}, vObj{}
			for _, u := range users {
				raw, _, err := ds.GetRaw(ctx, a.DocIDForUser(name(u)))
				var d vC12RUserDoc
				if err != nil || raw == nil || json.Unmarshal(raw, &d) != nil {
					U[u] = vObj{"exists": false, "disabled": false, "hpw": "", "epoch": 0}
					continue
				}
				hpw := ""
				if len(d.Hash) > 0 {
					hpw = "?"
					for _, m := range []string{"p1", "p2"} {
						if bcrypt.CompareHashAndPassword(d.Hash, []byte(pw[m])) == nil {
							hpw = m
						}
					}
				}
				U[u] = vObj{"exists": true, "disabled": d.Disabled, "hpw": hpw, "epoch": eid(d.SessionUUID)}
			}
			for _, s := range slots {
				var ls auth.LoginSession
				id, issued := sid[s]
				if !issued {
					S[s] = vObj{"exists": false, "user": "", "epoch": 0, "oneTime": false, "aged": false}
				} else if _, err := ds.Get(ctx, a.DocIDForSession(id), &ls); err != nil {
					S[s] = vObj{"exists": false, "user": "", "epoch": 0, "oneTime": false, "aged": false}
				} else {
					ttl := ls.Ttl
					if ttl == 0 {
						ttl = 24 * time.Hour
					}
					S[s] = vObj{"exists": true, "user": model(ls.Username), "epoch": eid(ls.SessionUUID), "oneTime": ls.OneTime != nil && *ls.OneTime,
						"aged": time.Now().Add(ttl).Sub(ls.Expiration) > ttl/10}
				}
			}
			idleL := vObj{"s": "", "kind": "", "su": "", "se": 0, "so": false}
			return vObj{"U": U, "S": S, "C": [][]string{}, "PC": []string{"idle", "idle", "idle"}, "L": []vObj{idleL, idleL, idleL}}
		}
		emit := func(st vC12RStep, ok bool, who string, status int) {
			o := state()
			if !ok {
				who = ""
			}
			res := vObj{"op": st.A, "u": st.U, "p": st.P, "s": st.S, "pr": 0, "ok": ok, "who": who}
			if st.A == "AuthCookie" || st.A == "AuthOneTime" {
				res["u"], res["p"] = "", ""
			}
			o["a"], o["u"], o["p"], o["s"], o["one"], o["pr"], o["kind"], o["res"], o["status"], o["level"] = st.A, st.U, st.P, st.S, st.One, 0, st.Kind, res, status, "rest"
			tw.Emit(o)
		}
		// who am I, as the public API reports it for the given request headers (never consumes a regular session)
		whoAmI := func(headers map[string]string, user, pass string, basic bool) string {
			var resp *TestResponse
			if basic {
				resp = rt.SendUserRequestWithHeaders(http.MethodGet, "/{{.db}}/_session", "", headers, user, pass)
			} else {
				resp = rt.SendRequestWithHeaders(http.MethodGet, "/{{.db}}/_session", "", headers)
			}
			var body struct {
				UserCtx struct {
					Name *string `json:"name"`
				} `json:"userCtx"`
			}
			if resp.Code != http.StatusOK || json.Unmarshal(resp.BodyBytes(), &body) != nil || body.UserCtx.Name == nil {
				return ""
			}
			return model(*body.UserCtx.Name)
		}
		tw.Emit(vObj{"a": "Reset", "beh": bi, "level": "rest"})
		for _, st := range b.Steps {
			switch st.A {
			case "CreateUser":
				body, _ := json.Marshal(vObj{"name": name(st.U), "password": pw[st.P], "admin_channels": []string{"*"}})
				resp := rt.SendAdminRequest(http.MethodPut, "/{{.db}}/_user/"+name(st.U), string(body))
				emit(st, resp.Code == http.StatusCreated || resp.Code == http.StatusOK, st.U, resp.Code)
			case "SetPassword":
				body, _ := json.Marshal(vObj{"password": pw[st.P]})
				resp := rt.SendAdminRequest(http.MethodPut, "/{{.db}}/_user/"+name(st.U), string(body))
				emit(st, resp.Code == http.StatusOK, st.U, resp.Code)
			case "Disable", "Enable":
				body, _ := json.Marshal(vObj{"disabled": st.A == "Disable"})
				resp := rt.SendAdminRequest(http.MethodPut, "/{{.db}}/_user/"+name(st.U), string(body))
				emit(st, resp.Code == http.StatusOK, st.U, resp.Code)
			case "DeleteUser":
				resp := rt.SendAdminRequest(http.MethodDelete, "/{{.db}}/_user/"+name(st.U), "")
				emit(st, resp.Code == http.StatusOK, st.U, resp.Code)
			case "CreateSession":
				ok := false
				var code int
				if st.One { // the admin API cannot issue one-time sessions and the public one needs the owner's password: issue it directly
					u, _ := a.GetUser(name(st.U))
					if u != nil {
						if ls, err := rt.GetDatabase().Authenticator(ctx).CreateSession(ctx, u, oneTimeSessionTTL, true); err == nil {
							sid[st.S], one[st.S], ok = ls.ID, true, true
						}
					}
				} else {
					body, _ := json.Marshal(vObj{"name": name(st.U)})
					resp := rt.SendAdminRequest(http.MethodPost, "/{{.db}}/_session", string(body))
					code = resp.Code
					var r struct {
						SessionID string `json:"session_id"`
					}
					if resp.Code == http.StatusOK && json.Unmarshal(resp.BodyBytes(), &r) == nil && r.SessionID != "" {
						sid[st.S], ok = r.SessionID, true
					}
				}
				emit(st, ok, st.U, code)
			case "DeleteSession":
				resp := rt.SendAdminRequest(http.MethodDelete, "/{{.db}}/_session/"+sessionID(st.S), "")
				emit(st, true, "", resp.Code)
			case "Age":
				var ls auth.LoginSession
				key := a.DocIDForSession(sessionID(st.S))
				if _, err := ds.Get(ctx, key, &ls); err == nil {
					ttl := ls.Ttl
					if ttl == 0 {
						ttl = 24 * time.Hour
					}
					ls.Expiration = time.Now().Add(ttl - ttl/5)
					_ = ds.Set(ctx, key, base.DurationToCbsExpiry(ttl-ttl/5), nil, ls)
				}
				emit(st, true, "", 0)
			case "Expire":
				_ = ds.Delete(ctx, a.DocIDForSession(sessionID(st.S)))
				emit(st, true, "", 0)
			case "AuthPassword":
				resp := rt.SendUserRequestWithHeaders(http.MethodGet, "/{{.db}}/", "", nil, name(st.U), pw[st.P])
				who := ""
				if resp.Code == http.StatusOK {
					who = whoAmI(nil, name(st.U), pw[st.P], true)
				}
				emit(st, resp.Code == http.StatusOK, who, resp.Code)
			case "AuthCookie":
				h := map[string]string{"Cookie": fmt.Sprintf("%s=%s", auth.DefaultCookieName, sessionID(st.S))}
				if one[st.S] { // a single request: the public who-am-I endpoint (200 with a null name = not authenticated)
					who := whoAmI(h, "", "", false)
					emit(st, who != "", who, 0)
				} else {
					resp := rt.SendRequestWithHeaders(http.MethodGet, "/{{.db}}/", "", h)
					who := ""
					if resp.Code == http.StatusOK {
						who = whoAmI(h, "", "", false)
					}
					emit(st, resp.Code == http.StatusOK, who, resp.Code)
				}
			case "AuthOneTime": // websocket token: authenticated requests reach the upgrade check (426), others get 401
				resp := rt.SendRequestWithHeaders(http.MethodGet, "/{{.db}}/_blipsync", "", map[string]string{
					secWebSocketProtocolHeader: blipSessionIDPrefix + sessionID(st.S)})
				emit(st, resp.Code == http.StatusUpgradeRequired, "?", resp.Code)
			default:
				t.Fatalf("VERIF-FATAL action %q is not bound at the REST level", st.A)
			}
		}
	}
}
