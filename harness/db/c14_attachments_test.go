//go:build verif

package db

// C14 binding (DESIGN 4.14, specs/Attachments): replays TLC behaviours of specs/Attachments on a REAL database (Rosmar)
// in both AllowConflicts modes, with the post-commit removal of obsolete attachments switched on (eccv = false, forced
// the way the C11 harness does because Rosmar always reports cross-cluster versioning as enabled) or off (eccv = true).
//
// A behaviour is a list of writes on two documents.  Each write is Put (kind "put": _rev = parent, or none),
// PutExistingRevWithBody (kind "push": the client's history of the parent, new revision id chosen by the client) or
// DeleteDoc (kind "del").  Per attachment name the write carries New(content) - inline base64 `data` -, Stub -
// `stub:true, revpos, digest` exactly as a client that holds the parent revision repeats it - or nothing.  The model
// contents c1..c3 are bound to seeded bytes: one EMPTY, one larger binary one, one gzip-ENCODED ("encoding":"gzip", length = decoded length).
// Steps "B" ... "E" bracket a write whose first attempt is overtaken: the writes listed between them run inside
// LeakyDataStore's UpdateCallback of the first attempt (after storeAttachments / setAttachments of attempt 1, before its
// CAS write), so the CAS write fails and the update callback - including the attachment storage - runs again.
// A step "T" inside the bracket is a neutral touch (an xattr the gateway ignores is written: only the CAS changes).
//
// After EVERY step the harness records, for both documents, the REAL state:
//   * the stored document (GetDocument, DocUnmarshalAll): revision tree rows, leaves, current revision
//   * for every leaf the attachment metadata as the gateway resolves it for that revision (getRevision: the function
//     the obsolete-attachment sweep uses: _globalSync.attachments_meta for the current revision, the `_attachments`
//     stamped into the revision-tree body for the others): name, digest, length, revpos, version; the bytes
//     behind MakeAttachmentKey(version, doc, digest) read with GetAttachment (identified by comparing with the written contents)
//   * for every leaf what the read API returns: Get1xRevBody(doc, leaf, attachmentsSince = []) i.e. the 1.x body with
//     attachment data inline: name, digest, length, bytes
//   * every key of the data store with the attachment prefixes (_sync:att2:, _sync:att:), whether or not anything refers to it
// Ground truth (which content was written under which name on which revision) is NOT computed here for the oracle: the
// logged inputs (kind, doc, parent, per-name New/Stub/Omit, success) are what Trace_Attachments.tla advances its ghosts from.
// No property is asserted in Go.

import (
	"bytes"
	"compress/gzip"
	"context"
	"encoding/base64"
	"fmt"
	"math/rand"
	"os"
	"sort"
	"strings"
	"testing"

	sgbucket "github.com/couchbase/sg-bucket"
	"github.com/couchbase/sync_gateway/base"
)

type vC14Step struct {
	A string         `json:"a"` // W (atomic write) | B (begin: first attempt, parked) | E (end of the bracketed write) | T (touch)
	K string         `json:"k"` // put | push | del
	D any            `json:"d"` // document 1|2
	R any            `json:"r"` // model id of the revision this write creates
	P any            `json:"p"` // model id of the parent (0 = none)
	S map[string]any `json:"s"` // attachment name -> 0 Omit | -1 Stub | c (New content c)
	H any            `json:"h"` // push only: 1 = the chosen revision id sorts above every md5 digest ("f..."), 0 = below ("0...")
}
type vC14Conf struct {
	Allow bool `json:"allow"`
	Eccv  bool `json:"eccv"`
	Lim   any  `json:"lim"` // revs_limit (0 = default)
}
type vC14Beh struct {
	Conf  vC14Conf   `json:"conf"`
	Steps []vC14Step `json:"steps"`
}

const vC14NDocs = 2
const vC14NContents = 3

var vC14Names = []string{"n1", "n2"}

type vC14Want struct {
	c   int // content
	pos int // generation at which this content was put under this name on this ancestry
}

type vC14H struct {
	t     *testing.T
	tw    *vTraceWriter
	db    *Database
	ctx   context.Context
	col   *DatabaseCollectionWithUser
	lb    *base.LeakyBucket
	lds   *base.LeakyDataStore
	allow bool

	contents [][]byte // 1-based: contents[c] = the stored bytes
	enc      []bool   // written with "encoding":"gzip"
	declen   []int    // the length the client advertises (decoded length for an encoded content)
	digests  []string

	// per behaviour
	beh     int
	docid   [vC14NDocs + 1]string
	real    map[int]string // model rev -> real rev id
	model   map[string]int // doc|real rev id -> model rev
	par     map[int]int
	gen     map[int]int
	docOf   map[int]int
	want    map[int]map[string]vC14Want // client-side knowledge of what each revision carries (to build stubs)
	strange int
	pushSeq int
	rnd     *rand.Rand
}

// vC14Contents binds the model contents: one EMPTY, one larger binary one, and one written with "encoding":"gzip" (the stored bytes -
// what the digest is taken of and what is served - are the gzip bytes; `length` advertises the DECODED length, `encoded_length` the
// stored one).  Which content number gets which kind depends on the seed.
func vC14Contents(seed int64) (stored [][]byte, enc []bool, declen []int) {
	rnd := rand.New(rand.NewSource(seed*7919 + 14))
	kinds := []int{0, 1, 2} // 0 empty, 1 gzip-encoded text, 2 large binary
	rnd.Shuffle(len(kinds), func(i, j int) { kinds[i], kinds[j] = kinds[j], kinds[i] })
	stored = make([][]byte, vC14NContents+1)
	enc = make([]bool, vC14NContents+1)
	declen = make([]int, vC14NContents+1)
	for c := 1; c <= vC14NContents; c++ {
		switch kinds[c-1] {
		case 0:
			stored[c] = []byte{}
		case 1:
			plain := bytes.Repeat([]byte(fmt.Sprintf("<p>c14 seed %d attachment</p>\n", seed)), 20+rnd.Intn(60))
			var gz bytes.Buffer
			zw := gzip.NewWriter(&gz)
			_, _ = zw.Write(plain)
			_ = zw.Close()
			stored[c], enc[c], declen[c] = gz.Bytes(), true, len(plain)
			continue
		default:
			n := 70000 + rnd.Intn(400000)
			if vThorough() { // every leaf's attachments are read back after every step: multi-MB contents would only slow the replay down
				n = 600*1024 + rnd.Intn(600*1024)
			}
			b := make([]byte, n)
			rnd.Read(b)
			copy(b, []byte{0x00, 0xff, '"', '\n', '\\'}) // every byte value class incl. NUL, 0xff, quotes, newlines
			stored[c] = b
		}
		declen[c] = len(stored[c])
	}
	return stored, enc, declen
}

func vC14New(t *testing.T, tw *vTraceWriter, allow bool) *vC14H {
	h := &vC14H{t: t, tw: tw, allow: allow}
	tb := base.GetTestBucket(t)
	h.lb = base.NewLeakyBucket(tb, base.LeakyBucketConfig{})
	h.db, h.ctx = SetupTestDBForBucketWithOptions(t, h.lb, DatabaseContextOptions{AllowConflicts: base.Ptr(allow), OldRevExpirySeconds: 24 * 3600})
	h.col, h.ctx = GetSingleDatabaseCollectionWithUser(h.ctx, t, h.db)
	lds, ok := base.AsLeakyDataStore(h.col.dataStore)
	if !ok {
		t.Fatalf("VERIF-FATAL C14: collection data store %T is not a LeakyDataStore", h.col.dataStore)
	}
	h.lds = lds
	h.contents, h.enc, h.declen = vC14Contents(vSeed())
	h.digests = make([]string, vC14NContents+1)
	for c := 1; c <= vC14NContents; c++ {
		h.digests[c] = Sha1DigestKey(h.contents[c])
	}
	h.rnd = rand.New(rand.NewSource(vSeed()*31 + 5))
	return h
}

func (h *vC14H) fatal(what string, err error) {
	h.t.Fatalf("VERIF-FATAL C14 %s (behaviour %d): %v", what, h.beh, err)
}

func (h *vC14H) contentOfBytes(b []byte) int {
	for c := 1; c <= vC14NContents; c++ {
		if bytes.Equal(b, h.contents[c]) {
			return c
		}
	}
	return 0
}
func (h *vC14H) contentOfDigest(d string) int {
	for c := 1; c <= vC14NContents; c++ {
		if d == h.digests[c] {
			return c
		}
	}
	return 0
}

func (h *vC14H) modelRev(d int, real string) int {
	if real == "" {
		return 0
	}
	k := fmt.Sprintf("%d|%s", d, real)
	if m, ok := h.model[k]; ok {
		return m
	}
	h.strange++ // a revision no step created (e.g. the tombstone a delete makes gets the id of its step; anything else is unexpected)
	m := 900 + h.strange
	h.model[k] = m
	return m
}

// ---- observation of the real state -------------------------------------------------------------------------------

func vC14MetaInt(m map[string]any, k string) int {
	if v, ok := base.ToInt64(m[k]); ok {
		return int(v)
	}
	return -1
}

func (h *vC14H) observeDoc(d int) vObj {
	docid := h.docid[d]
	o := vObj{"d": d, "tree": [][]int{}, "leaves": []int{}, "cur": 0, "atts": []vObj{}, "api": []vObj{}, "apierr": []vObj{}}
	doc, err := h.col.GetDocument(h.ctx, docid, DocUnmarshalAll)
	if err != nil {
		if base.IsDocNotFoundError(err) {
			return o
		}
		h.fatal("GetDocument "+docid, err)
	}
	rows := [][]int{}
	for id, info := range doc.History {
		del := 0
		if info.Deleted {
			del = 1
		}
		p := 0
		if info.Parent != "" {
			if _, ok := doc.History[info.Parent]; ok {
				p = h.modelRev(d, info.Parent)
			}
		}
		rows = append(rows, []int{h.modelRev(d, id), p, del})
	}
	sort.Slice(rows, func(i, j int) bool { return rows[i][0] < rows[j][0] })
	o["tree"] = rows
	o["cur"] = h.modelRev(d, doc.GetRevTreeID())
	leavesReal := doc.History.GetLeaves()
	sort.Slice(leavesReal, func(i, j int) bool { return h.modelRev(d, leavesReal[i]) < h.modelRev(d, leavesReal[j]) })
	leaves := []int{}
	atts := []vObj{}
	api := []vObj{}
	apierr := []vObj{}
	for _, lr := range leavesReal {
		lm := h.modelRev(d, lr)
		leaves = append(leaves, lm)
		// stored view: what the gateway resolves as this revision's attachment metadata
		_, meta, _, gerr := h.col.getRevision(h.ctx, doc, lr)
		if gerr != nil {
			apierr = append(apierr, vObj{"l": lm, "v": "stored", "e": vC14ErrClass(gerr)})
		}
		names := make([]string, 0, len(meta))
		for n := range meta {
			names = append(names, n)
		}
		sort.Strings(names)
		for _, n := range names {
			m, ok := meta[n].(map[string]any)
			if !ok {
				atts = append(atts, vObj{"l": lm, "n": n, "dg": 0, "ln": -1, "enc": false, "eln": -1, "rp": -1, "ver": -1, "ex": false, "rd": -1})
				continue
			}
			dig, _ := m["digest"].(string)
			ver, _ := GetAttachmentVersion(m)
			rec := vObj{"l": lm, "n": n, "dg": h.contentOfDigest(dig), "ln": vC14MetaInt(m, "length"), "enc": m["encoding"] != nil, "eln": vC14MetaInt(m, "encoded_length"),
				"rp": vC14MetaInt(m, "revpos"), "ver": ver, "ex": false, "rd": -1}
			data, rerr := h.col.GetAttachment(h.ctx, MakeAttachmentKey(ver, docid, dig))
			if rerr == nil {
				rec["ex"] = true
				rec["rd"] = h.contentOfBytes(data)
			} else if !base.IsDocNotFoundError(rerr) {
				h.fatal("GetAttachment", rerr)
			}
			atts = append(atts, rec)
		}
		// API view: the 1.x body of that revision with attachment bodies
		body, berr := h.col.Get1xRevBody(h.ctx, docid, lr, false, []string{})
		if berr != nil {
			apierr = append(apierr, vObj{"l": lm, "v": "api", "e": vC14ErrClass(berr)})
			continue
		}
		batts := GetBodyAttachments(body)
		bn := make([]string, 0, len(batts))
		for n := range batts {
			bn = append(bn, n)
		}
		sort.Strings(bn)
		for _, n := range bn {
			m, ok := batts[n].(map[string]any)
			if !ok {
				api = append(api, vObj{"l": lm, "n": n, "dg": 0, "ln": -1, "enc": false, "eln": -1, "rd": -1})
				continue
			}
			dig, _ := m["digest"].(string)
			rec := vObj{"l": lm, "n": n, "dg": h.contentOfDigest(dig), "ln": vC14MetaInt(m, "length"), "enc": m["encoding"] != nil, "eln": vC14MetaInt(m, "encoded_length"), "rd": -1}
			if raw, has := m["data"]; has && raw != nil {
				if b, derr := DecodeAttachment(raw); derr == nil {
					rec["rd"] = h.contentOfBytes(b)
				} else {
					rec["rd"] = 0
				}
			}
			api = append(api, rec)
		}
	}
	o["leaves"], o["atts"], o["api"], o["apierr"] = leaves, atts, api, apierr
	return o
}

func vC14ErrClass(err error) string {
	if err == nil {
		return ""
	}
	if base.IsDocNotFoundError(err) {
		return "notfound"
	}
	s := err.Error()
	if len(s) > 80 {
		s = s[:80]
	}
	return s
}

// every attachment data document in the collection: [doc (0 = not one of this behaviour's documents), content the key's
// digest stands for (0 = unknown digest), content the stored bytes equal (0 = none of the written contents)]
func (h *vC14H) observeBlobs() ([][]int, []string) {
	res := [][]int{}
	keys := []string{}
	seen := map[string]bool{}
	// the keys this behaviour can legitimately create are probed one by one (Rosmar's range scan does not list a key that was
	// deleted and added again); the scan adds whatever else carries an attachment prefix
	for d := 1; d <= vC14NDocs; d++ {
		for c := 1; c <= vC14NContents; c++ {
			k := MakeAttachmentKey(AttVersion2, h.docid[d], h.digests[c])
			data, err := h.col.GetAttachment(h.ctx, k)
			if err == nil {
				seen[k] = true
				res = append(res, []int{d, c, h.contentOfBytes(data)})
				keys = append(keys, k)
			} else if !base.IsDocNotFoundError(err) {
				h.fatal("probe "+k, err)
			}
		}
	}
	rs, ok := h.col.dataStore.(sgbucket.RangeScanStore)
	if !ok {
		h.fatal("scan", fmt.Errorf("datastore %T has no range scan", h.col.dataStore))
	}
	for _, prefix := range []string{base.Att2Prefix, base.AttPrefix} {
		it, err := rs.Scan(h.ctx, sgbucket.NewRangeScanForPrefix(prefix), sgbucket.ScanOptions{})
		if err != nil {
			h.fatal("scan", err)
		}
		for {
			item := it.Next(h.ctx)
			if item == nil {
				break
			}
			if seen[item.ID] {
				continue
			}
			d, c := 0, 0
			for dd := 1; dd <= vC14NDocs; dd++ {
				p := MakeAttachmentKey(AttVersion2, h.docid[dd], "")
				if strings.HasPrefix(item.ID, p) {
					d = dd
					c = h.contentOfDigest(item.ID[len(p):])
				}
			}
			res = append(res, []int{d, c, h.contentOfBytes(item.Body)})
			keys = append(keys, item.ID)
		}
		_ = it.Close(h.ctx)
	}
	sort.Slice(res, func(i, j int) bool {
		for k := 0; k < 3; k++ {
			if res[i][k] != res[j][k] {
				return res[i][k] < res[j][k]
			}
		}
		return false
	})
	return res, keys
}

func (h *vC14H) snapshot() vObj {
	blobs, _ := h.observeBlobs()
	return vObj{"docs": []vObj{h.observeDoc(1), h.observeDoc(2)}, "blob": blobs}
}

// ---- driving the real writes ------------------------------------------------------------------------------------

// the history a client that holds revision p would send: p, parent(p), ...
func (h *vC14H) ancestry(p int) []string {
	out := []string{}
	for r := p; r != 0; r = h.par[r] {
		out = append(out, h.real[r])
	}
	return out
}

func (h *vC14H) attachmentsFor(st vC14Step, p int, gen int) (map[string]any, map[string]vC14Want) {
	atts := map[string]any{}
	want := map[string]vC14Want{}
	for _, n := range vC14Names {
		v, ok := st.S[n]
		if !ok {
			continue
		}
		switch c := vInt(v); {
		case c > 0:
			m := map[string]any{"data": base64.StdEncoding.EncodeToString(h.contents[c]), "content_type": "application/octet-stream"}
			if h.enc[c] { // as a client that stores the attachment compressed sends it
				m["encoding"] = "gzip"
				m["length"] = float64(h.declen[c])
			}
			atts[n] = m
			want[n] = vC14Want{c: c, pos: gen}
		case c < 0:
			pw, ok := h.want[p][n]
			if !ok { // the model never asks for a stub the parent does not carry; if it does, send what a confused client would
				pw = vC14Want{c: 1, pos: gen - 1}
			}
			atts[n] = map[string]any{"stub": true, "revpos": pw.pos, "digest": h.digests[pw.c]}
			want[n] = pw
		}
	}
	return atts, want
}

// doWrite performs the real call of one write step; returns the class of its outcome.
func (h *vC14H) doWrite(i int, st vC14Step) (bool, string) {
	d, r, p := vInt(st.D), vInt(st.R), vInt(st.P)
	docid := h.docid[d]
	if p != 0 && h.real[p] == "" {
		return false, "noparent" // the parent named by the behaviour was refused by the real gateway: nothing to write on
	}
	gen := h.gen[p] + 1 // (a Put without _rev may land on a tombstone: corrected from the stored revision below)
	body := Body{"k": fmt.Sprintf("b%d-s%d-%s", h.beh, i, st.K)}
	atts, want := h.attachmentsFor(st, vInt(st.P), gen)
	if len(atts) > 0 {
		body[BodyAttachments] = atts
	}
	var rev string
	var err error
	switch st.K {
	case "put":
		if p != 0 {
			body[BodyRev] = h.real[p]
		}
		rev, _, err = h.col.Put(h.ctx, docid, body)
	case "push":
		h.pushSeq++
		// digest part chosen by the client
		lead := "0000"
		if st.H != nil && vInt(st.H) == 1 {
			lead = "ffff"
		}
		rev = fmt.Sprintf("%d-%s%04x%04x", gen, lead, i, h.beh&0xffff) // among equally classed pushes the later step sorts higher
		hist := append([]string{rev}, h.ancestry(p)...)
		_, _, err = h.col.PutExistingRevWithBody(h.ctx, docid, body, hist, !h.allow, ExistingVersionWithUpdateToHLV)
	case "del":
		rev, _, err = h.col.DeleteDoc(h.ctx, docid, DocVersion{RevTreeID: h.real[p]})
		want = map[string]vC14Want{}
	default:
		h.fatal("step kind", fmt.Errorf("%q", st.K))
	}
	if err != nil {
		return false, vC14ErrClass(err)
	}
	h.real[r] = rev
	h.model[fmt.Sprintf("%d|%s", d, rev)] = r
	// generation and parent as the gateway stored them (a retried Put without _rev may have landed on a tombstone that did not exist
	// when the call started): later steps build revision ids and histories from these
	if g, _ := ParseRevID(h.ctx, rev); g > 0 && g != gen {
		for n, w := range want { // attachments added by this write carry its real generation as revpos
			if v, has := st.S[n]; has && vInt(v) > 0 {
				w.pos = g
				want[n] = w
			}
		}
		gen = g
	}
	if doc, derr := h.col.GetDocument(h.ctx, docid, DocUnmarshalSync); derr == nil && doc != nil {
		if info, ok := doc.History[rev]; ok && info != nil {
			p = h.modelRev(d, info.Parent)
		}
	}
	h.par[r], h.gen[r], h.docOf[r], h.want[r] = p, gen, d, want
	return true, ""
}

func (h *vC14H) emit(i int, st vC14Step, ok bool, e string) {
	s := map[string]int{}
	for _, n := range vC14Names {
		s[n] = 0
		if v, has := st.S[n]; has {
			s[n] = vInt(v)
		}
	}
	hi := 0
	if st.H != nil {
		hi = vInt(st.H)
	}
	h.tw.Emit(vObj{"a": st.A, "i": i, "k": st.K, "d": vInt(st.D), "r": vInt(st.R), "p": vInt(st.P), "s": s, "h": hi, "ok": ok, "e": e, "S": h.snapshot()})
}

func (h *vC14H) touch(d int) {
	ds := h.col.dataStore
	if lds, ok := base.AsLeakyDataStore(ds); ok {
		ds = lds.GetUnderlyingDataStore()
	}
	if _, err := ds.SetXattrs(h.ctx, h.docid[d], map[string][]byte{"c14touch": []byte(fmt.Sprintf(`"%d"`, h.rnd.Int63()))}); err != nil {
		h.fatal("touch", err)
	}
}

func (h *vC14H) runBehaviour(bi int, b vC14Beh) {
	h.beh = bi
	h.real, h.model = map[int]string{}, map[string]int{}
	h.par, h.gen, h.docOf = map[int]int{}, map[int]int{}, map[int]int{}
	h.want = map[int]map[string]vC14Want{}
	h.strange = 0
	for d := 1; d <= vC14NDocs; d++ {
		h.docid[d] = fmt.Sprintf("c14-%d-%d-d%d", vSeed(), bi, d)
	}
	h.db.CachedCCVEnabled.Store(b.Conf.Eccv)
	if lim := vInt(b.Conf.Lim); lim > 0 {
		h.db.RevsLimit = uint32(lim)
	} else if h.allow {
		h.db.RevsLimit = DefaultRevsLimitConflicts
	} else {
		h.db.RevsLimit = DefaultRevsLimitNoConflicts
	}
	clen, cenc, celen := []int{}, []bool{}, []int{}
	for c := 1; c <= vC14NContents; c++ {
		clen = append(clen, h.declen[c])
		cenc = append(cenc, h.enc[c])
		if h.enc[c] {
			celen = append(celen, len(h.contents[c]))
		} else {
			celen = append(celen, -1)
		}
	}
	h.tw.Emit(vObj{"a": "Reset", "beh": bi, "allow": b.Conf.Allow, "eccv": b.Conf.Eccv, "lim": vInt(b.Conf.Lim), "clen": clen, "cenc": cenc, "celen": celen, "S": h.snapshot()})

	steps := b.Steps
	for i := 0; i < len(steps); i++ {
		st := steps[i]
		switch st.A {
		case "W":
			ok, e := h.doWrite(i+1, st)
			h.emit(i+1, st, ok, e)
		case "B":
			// the steps up to the matching E run inside the CAS window of this write's first attempt
			end := i + 1
			for end < len(steps) && steps[end].A != "E" {
				end++
			}
			if end >= len(steps) {
				h.fatal("bracket", fmt.Errorf("B at step %d without E", i+1))
			}
			inner := steps[i+1 : end]
			bi0 := i
			fired := false
			key := h.docid[vInt(st.D)]
			h.lds.SetUpdateCallback(func(k string) {
				if fired || k != key {
					return
				}
				fired = true
				h.lds.SetUpdateCallback(nil)
				h.emit(bi0+1, st, true, "") // state after the first attempt computed and stored its attachment bodies
				for j, in := range inner {
					if in.A == "T" {
						h.touch(vInt(in.D))
						h.emit(bi0+2+j, in, true, "")
						continue
					}
					ok, e := h.doWrite(bi0+2+j, in)
					h.emit(bi0+2+j, in, ok, e)
				}
			})
			ok, e := h.doWrite(i+1, st)
			h.lds.SetUpdateCallback(nil)
			if !fired { // the write never reached its CAS write (refused by the update callback before the store call)
				h.emit(bi0+1, st, ok, "nocallback:"+e)
				for j, in := range inner {
					h.emit(bi0+2+j, in, false, "skipped")
				}
			}
			est := st
			est.A = "E"
			h.emit(end+1, est, ok, e)
			i = end
		default:
			h.fatal("step", fmt.Errorf("unexpected action %q at step %d", st.A, i+1))
		}
	}
	// leave no attachment documents behind for the next behaviour's scan
	_, keys := h.observeBlobs()
	for _, k := range keys {
		_ = h.col.dataStore.Delete(h.ctx, k)
	}
	for d := 1; d <= vC14NDocs; d++ {
		_ = h.col.Purge(h.ctx, h.docid[d], false)
	}
}

func TestVerif_C14_Attachments(t *testing.T) {
	var behs []vC14Beh
	vReadJSON(t, "VERIF_BEH", &behs)
	tw := vOpenTrace(t, "VERIF_TRACE_OUT")
	defer tw.Close()
	if os.Getenv("VERIF_C14_LOG") == "" {
		base.SetUpTestLogging(t, base.LevelNone, base.KeyNone)
	}
	hs := map[bool]*vC14H{}
	for _, allow := range []bool{false, true} {
		need := false
		for _, b := range behs {
			need = need || b.Conf.Allow == allow
		}
		if !need {
			continue
		}
		h := vC14New(t, tw, allow)
		hs[allow] = h
		defer h.db.Close(h.ctx)
	}
	for bi, b := range behs {
		hs[b.Conf.Allow].runBehaviour(bi, b)
	}
}
