//go:build verif

package db

// C01 (component level) binding: replays TLC-generated behaviours of specs/ChannelCache on a real
// singleChannelCacheImpl whose ChannelQueryHandler is the harness's bucket (the environment), and records the
// real logs / validFrom / cachedDocIDs after every call (under c.lock) plus every row returned by GetChanges.
// For every distinct real state that is visited, every read (since, limit, activeOnly) is additionally executed
// on a copy of the real cache ("Probe").  No property is asserted here - the oracle is Trace_ChannelCache.tla.

import (
	"context"
	"fmt"
	"hash/fnv"
	"sort"
	"strings"
	"sync"
	"testing"
	"time"

	"github.com/couchbase/sync_gateway/base"
	"github.com/couchbase/sync_gateway/channels"
)

type vC01Step struct {
	A   string `json:"a"`
	Seq int    `json:"seq"`
	Doc string `json:"doc"`
	Rm  bool   `json:"rm"`
	K   int    `json:"k"`
	S   int    `json:"s"`
	Lim int    `json:"lim"`
	Ao  bool   `json:"ao"`
}
type vC01Beh struct {
	Mx    int        `json:"mx"`
	Mn    int        `json:"mn"`
	Steps []vC01Step `json:"steps"`
}

// the bucket as seen through the channel query: one row per document (its latest sequence in the channel)
type vC01Bucket struct {
	mu    sync.Mutex
	truth map[string]*LogEntry
	// split reads: when gate is set the query blocks around the moment the answer is computed
	gate    bool
	atQuery chan vObj     // -> harness: arguments of the call
	doQuery chan struct{} // <- harness: compute the answer now
	queried chan LogEntries
	release chan struct{}
}

func (b *vC01Bucket) answer(startSeq, endSeq uint64, limit int, activeOnly bool) LogEntries {
	b.mu.Lock()
	defer b.mu.Unlock()
	rows := make(LogEntries, 0)
	for _, e := range b.truth {
		if e.Sequence < startSeq || e.Sequence > endSeq {
			continue
		}
		if activeOnly && !e.IsActive() {
			continue
		}
		cp := *e
		cp.TimeReceived = channels.NewFeedTimestampFromNow()
		rows = append(rows, &cp)
	}
	sort.Slice(rows, func(i, j int) bool { return rows[i].Sequence < rows[j].Sequence })
	if limit > 0 && len(rows) > limit {
		rows = rows[:limit]
	}
	return rows
}

func (b *vC01Bucket) getChangesInChannelFromQuery(ctx context.Context, channelName string, startSeq, endSeq uint64, limit int, activeOnly bool) (LogEntries, error) {
	if !b.gate {
		return b.answer(startSeq, endSeq, limit, activeOnly), nil
	}
	b.atQuery <- vObj{"lo": startSeq, "hi": endSeq, "qlim": limit, "qao": activeOnly}
	<-b.doQuery
	rows := b.answer(startSeq, endSeq, limit, activeOnly)
	b.queried <- rows
	<-b.release
	return rows, nil
}

type vC01Env struct {
	t      *testing.T
	ctx    context.Context
	stats  *base.CacheStats
	bucket *vC01Bucket
	cache  *singleChannelCacheImpl
	mx, mn int
	off    uint64 // concrete sequence = off + model sequence
	pend   map[int]*LogEntry
	pendRm map[int]bool
	hcs    int
	next   int
	rmKind int
	// split read in progress
	splitDone  chan []*LogEntry
	splitOn    bool
	splitStage string
	splitArgs  vObj
}

func (e *vC01Env) newCache(validFrom uint64) {
	opts := ChannelCacheOptions{ChannelCacheMaxLength: e.mx, ChannelCacheMinLength: e.mn, ChannelCacheAge: time.Hour, MaxNumChannels: 10}
	e.cache = newChannelCacheWithOptions(e.ctx, e.bucket, channels.NewID("ch", base.DefaultCollectionID), validFrom, opts, e.stats)
	e.cache.options.ChannelCacheMinLength = e.mn // a zero option value is ignored by the constructor
}

func (e *vC01Env) rows(es []*LogEntry) []vObj {
	out := make([]vObj, 0, len(es))
	for _, x := range es {
		out = append(out, vObj{"seq": int(x.Sequence - e.off), "doc": x.DocID, "rm": !x.IsActive()})
	}
	return out
}

func (e *vC01Env) state(c *singleChannelCacheImpl) (logs []vObj, vf int, docs []string) {
	c.lock.RLock()
	defer c.lock.RUnlock()
	logs = e.rows(c.logs)
	vf = int(int64(c.validFrom) - int64(e.off))
	docs = make([]string, 0, len(c.cachedDocIDs))
	for d := range c.cachedDocIDs {
		docs = append(docs, d)
	}
	sort.Strings(docs)
	return
}

func (e *vC01Env) post(o vObj) vObj {
	logs, vf, docs := e.state(e.cache)
	o["logs"], o["vf"], o["docs"] = logs, vf, docs
	return o
}

// entry for a write; a non-active write is a channel removal, a removal by deletion, or (star channel) a tombstone
func (e *vC01Env) mkEntry(st vC01Step) (entry *LogEntry, isRemoval bool) {
	entry = &LogEntry{Sequence: e.off + uint64(st.Seq), DocID: st.Doc, RevID: fmt.Sprintf("%d-x", st.Seq), TimeReceived: channels.NewFeedTimestampFromNow()}
	if st.Rm {
		switch e.rmKind % 3 {
		case 0:
			isRemoval = true
		case 1:
			isRemoval = true
			entry.Flags |= channels.Deleted
		case 2:
			entry.Flags |= channels.Deleted
		}
		e.rmKind++
	}
	return entry, isRemoval
}

func (e *vC01Env) write(st vC01Step) (*LogEntry, bool) {
	entry, isRemoval := e.mkEntry(st)
	row := *entry
	if isRemoval {
		row.Flags |= channels.Removed
	}
	e.bucket.mu.Lock()
	e.bucket.truth[st.Doc] = &row
	e.bucket.mu.Unlock()
	if st.Seq >= e.next {
		e.next = st.Seq + 1
	}
	return entry, isRemoval
}

func (e *vC01Env) stateKey() string {
	logs, vf, docs := e.state(e.cache)
	var sb strings.Builder
	fmt.Fprintf(&sb, "%d|%d|%v|%d|%v|", e.mx, e.mn, logs, vf, docs)
	e.bucket.mu.Lock()
	tr := make([]string, 0)
	for _, r := range e.bucket.truth {
		tr = append(tr, fmt.Sprintf("%d%s%v", r.Sequence-e.off, r.DocID, r.IsActive()))
	}
	e.bucket.mu.Unlock()
	sort.Strings(tr)
	pd := make([]int, 0)
	for s := range e.pend {
		pd = append(pd, s)
	}
	sort.Ints(pd)
	fmt.Fprintf(&sb, "%v|%v|%d", tr, pd, e.next)
	return sb.String()
}

func (e *vC01Env) clone() *singleChannelCacheImpl {
	c := e.cache
	c.lock.RLock()
	defer c.lock.RUnlock()
	n := newChannelCacheWithOptions(e.ctx, e.bucket, c.channelID, c.validFrom, *c.options, e.stats)
	n.options.ChannelCacheMinLength = c.options.ChannelCacheMinLength
	n.logs = make(LogEntries, len(c.logs))
	copy(n.logs, c.logs)
	for k := range c.cachedDocIDs {
		n.cachedDocIDs[k] = struct{}{}
	}
	return n
}

func (e *vC01Env) read(c *singleChannelCacheImpl, s, lim int, ao bool) []*LogEntry {
	opts := ChangesOptions{Since: SequenceID{Seq: e.off + uint64(s)}, Limit: lim, ActiveOnly: ao, ChangesCtx: context.Background()}
	rows, err := c.GetChanges(e.ctx, opts)
	if err != nil {
		e.t.Fatalf("VERIF-FATAL GetChanges: %v", err)
	}
	return rows
}

func TestVerif_C01_ChannelCache(t *testing.T) { vC01RunCache(t, "VERIF_BEH", "VERIF_TRACE_OUT") }

// The purge-race family (specs/ChannelCache: PurgeRace = TRUE): behaviours in which Remove lands between the query and the
// prepend of a split GetChanges - the real goroutine is parked inside the stub's getChangesInChannelFromQuery meanwhile.
func TestVerif_C01_PurgeRace(t *testing.T) { vC01RunCache(t, "VERIF_BEH_R", "VERIF_TRACE_OUT_R") }

func vC01RunCache(t *testing.T, behEnv, traceEnv string) {
	var behs []vC01Beh
	vReadJSON(t, behEnv, &behs)
	tw := vOpenTrace(t, traceEnv)
	defer tw.Close()
	rnd := vRand()
	ctx := base.TestCtx(t)
	sgw, err := base.NewSyncGatewayStats()
	if err != nil {
		t.Fatalf("VERIF-FATAL %v", err)
	}
	dbstats, err := sgw.NewDBStats("verifC01", false, false, false, false, nil, nil)
	if err != nil {
		t.Fatalf("VERIF-FATAL %v", err)
	}
	offsets := []uint64{0, 1 << 20, (1 << 33) + 5, (1 << 62) + 12345}
	probeMod := vEnvInt("VERIF_C01_PROBE_MOD", 1) // probe the states whose key hash is 0 modulo this
	probeLims := []int{0, 1, 2}
	probed := map[string]bool{}

	for bi, b := range behs {
		e := &vC01Env{t: t, ctx: ctx, stats: dbstats.Cache(), mx: b.Mx, mn: b.Mn, pend: map[int]*LogEntry{}, pendRm: map[int]bool{}, next: 1,
			off: offsets[rnd.Intn(len(offsets))], rmKind: rnd.Intn(3)}
		e.bucket = &vC01Bucket{truth: map[string]*LogEntry{}, atQuery: make(chan vObj), doQuery: make(chan struct{}), queried: make(chan LogEntries), release: make(chan struct{})}
		e.newCache(e.off + 1)
		// shared prefix with the previous behaviour (the python driver sorts them): re-executed silently, logged once
		prefix := 0
		if bi > 0 && behs[bi-1].Mx == b.Mx && behs[bi-1].Mn == b.Mn {
			pv := behs[bi-1].Steps
			for prefix < len(pv) && prefix < len(b.Steps) && pv[prefix] == b.Steps[prefix] && !strings.HasPrefix(b.Steps[prefix].A, "ReadBegin") {
				prefix++
			}
		}
		silent := prefix > 0
		emit := func(o vObj) {
			if !silent {
				tw.Emit(o)
			}
		}
		if !silent {
			tw.Emit(vObj{"a": "Reset", "beh": bi, "mx": b.Mx, "mn": b.Mn})
		}

		probe := func() {
			if e.splitOn || silent {
				return
			}
			key := e.stateKey()
			if probed[key] {
				return
			}
			probed[key] = true
			if probeMod > 1 {
				h := fnv.New32a()
				h.Write([]byte(key))
				if int(h.Sum32()%uint32(probeMod)) != int(vSeed()%int64(probeMod)) {
					return
				}
			}
			curLogs, curVf, curDocs := e.state(e.cache)
			cur := fmt.Sprint(curLogs, curVf, curDocs)
			results := []vObj{}
			for s := 0; s < e.next; s++ {
				for _, lim := range probeLims {
					for _, ao := range []bool{false, true} {
						cp := e.clone()
						rows := e.read(cp, s, lim, ao)
						logs, vf, docs := e.state(cp)
						r := vObj{"s": s, "lim": lim, "ao": ao, "rows": e.rows(rows), "same": true}
						if fmt.Sprint(logs, vf, docs) != cur {
							r["same"], r["logs"], r["vf"], r["docs"] = false, logs, vf, docs
						}
						results = append(results, r)
					}
				}
			}
			tw.Emit(vObj{"a": "Probe", "results": results})
		}

		for si, st := range b.Steps {
			if silent && si == prefix {
				silent = false
				tw.Emit(vObj{"a": "Back", "n": prefix, "beh": bi})
			}
			switch st.A {
			case "Add":
				entry, isRemoval := e.write(st)
				e.cache.addToCache(ctx, entry, isRemoval)
				if st.Seq > e.hcs {
					e.hcs = st.Seq
				}
				emit(e.post(vObj{"a": "Add", "seq": st.Seq, "doc": st.Doc, "rm": st.Rm}))
			case "WriteLater":
				entry, isRemoval := e.write(st)
				e.pend[st.Seq], e.pendRm[st.Seq] = entry, isRemoval
				emit(e.post(vObj{"a": "WriteLater", "seq": st.Seq, "doc": st.Doc, "rm": st.Rm}))
			case "Deliver":
				entry, ok := e.pend[st.Seq]
				if !ok {
					t.Fatalf("VERIF-FATAL behaviour %d step %d delivers an entry that is not pending", bi, si)
				}
				entry.TimeReceived = channels.NewFeedTimestampFromNow()
				e.cache.addToCache(ctx, entry, e.pendRm[st.Seq])
				delete(e.pend, st.Seq)
				if st.Seq > e.hcs {
					e.hcs = st.Seq
				}
				emit(e.post(vObj{"a": "Deliver", "seq": st.Seq, "doc": st.Doc, "rm": st.Rm}))
			case "Gap":
				if e.next > e.hcs {
					e.hcs = e.next
				}
				e.next++
				emit(e.post(vObj{"a": "Gap"}))
			case "PruneAge":
				// forge: exactly the k oldest entries are older than ChannelCacheAge
				old := time.Now().Add(-2 * time.Hour)
				e.cache.lock.Lock()
				for i, le := range e.cache.logs {
					if i < st.K {
						le.TimeReceived = channels.NewFeedTimestamp(&old)
					} else {
						le.TimeReceived = channels.NewFeedTimestampFromNow()
					}
				}
				e.cache.lock.Unlock()
				e.cache.pruneCacheAge(ctx)
				emit(e.post(vObj{"a": "PruneAge", "k": st.K}))
			case "Purge":
				// as the purge endpoint does: note the start time, purge the document from the bucket, then tell the caches
				startTime := time.Now()
				e.bucket.mu.Lock()
				delete(e.bucket.truth, st.Doc)
				e.bucket.mu.Unlock()
				e.cache.Remove(ctx, base.DefaultCollectionID, []string{st.Doc}, startTime)
				emit(e.post(vObj{"a": "Purge", "doc": st.Doc}))
			case "Recreate":
				e.newCache(e.off + uint64(e.hcs) + 1)
				emit(e.post(vObj{"a": "Recreate"}))
			case "Read":
				rows := e.read(e.cache, st.S, st.Lim, st.Ao)
				emit(e.post(vObj{"a": "Read", "s": st.S, "lim": st.Lim, "ao": st.Ao, "rows": e.rows(rows)}))
			case "ReadBegin":
				e.bucket.gate = true
				e.splitDone = make(chan []*LogEntry, 1)
				go func(c *singleChannelCacheImpl, done chan []*LogEntry) {
					done <- e.read(c, st.S, st.Lim, st.Ao)
				}(e.cache, e.splitDone)
				select {
				case args := <-e.bucket.atQuery:
					e.splitOn, e.splitStage, e.splitArgs = true, "query", args
					emit(e.post(vObj{"a": "ReadBegin", "s": st.S, "lim": st.Lim, "ao": st.Ao}))
				case rows := <-e.splitDone:
					// the real cache answered without a query where the model expected one: record what happened
					e.bucket.gate = false
					emit(e.post(vObj{"a": "Read", "s": st.S, "lim": st.Lim, "ao": st.Ao, "rows": e.rows(rows)}))
				}
			case "ReadQuery":
				if !e.splitOn {
					continue
				}
				e.bucket.doQuery <- struct{}{}
				q := <-e.bucket.queried
				e.splitStage = "prepend"
				a := e.splitArgs
				emit(e.post(vObj{"a": "ReadQuery", "q": e.rows(q), "lo": int(a["lo"].(uint64) - e.off), "hi": int(a["hi"].(uint64) - e.off),
					"qlim": a["qlim"], "qao": a["qao"]}))
			case "ReadEnd":
				if !e.splitOn {
					continue
				}
				e.bucket.release <- struct{}{}
				rows := <-e.splitDone
				e.splitOn = false
				e.bucket.gate = false
				emit(e.post(vObj{"a": "ReadEnd", "rows": e.rows(rows)}))
			default:
				t.Fatalf("VERIF-FATAL unknown action %q", st.A)
			}
			probe()
		}
		if silent {
			tw.Emit(vObj{"a": "Back", "n": prefix, "beh": bi})
		}
		// a behaviour that ends inside a split read: let the goroutine finish (not logged)
		if e.splitOn {
			if e.splitStage == "query" {
				e.bucket.doQuery <- struct{}{}
				<-e.bucket.queried
			}
			e.bucket.release <- struct{}{}
			<-e.splitDone
		}
	}
}
