//go:build verif

package db

// C03 binding: replays TLC-generated behaviours of specs/Access on ONE real database (Rosmar, views) whose sync
// function turns body fields into access()/role() calls, and records after every call the REAL state:
//   - per principal the raw computed channels / roles of the principal document (valid or invalidated),
//   - per document the raw _sync access / role_access maps and which branch holds the real current revision,
//   - for Request: Authenticator.GetUser(name) -> InheritedCollectionChannels key set and RoleNames.
// No assertion about the property is made here; TLC evaluates it on the trace (specs/Access/Trace_Access.tla).
// LoadBegin/LoadEnd steps (split principal recomputation) are forced deterministically with the LeakyBucket
// UpdateCallback, which runs after getPrincipal's recomputation and before its CAS write.

import (
	"context"
	"encoding/json"
	"fmt"
	"sort"
	"strings"
	"sync"
	"testing"

	"github.com/couchbase/sync_gateway/auth"
	"github.com/couchbase/sync_gateway/base"
	"github.com/couchbase/sync_gateway/channels"
)

const vC03SyncFn = `function(doc, oldDoc, meta){
  var g = doc.grants || [];
  for (var i = 0; i < g.length; i++) { access(g[i].u, g[i].c); }
  var r = doc.roles || [];
  for (var i = 0; i < r.length; i++) { role(r[i].u, r[i].r); }
  channel(doc.chans || []);
}`

type vC03Grant struct {
	Acc  map[string][]string `json:"acc"`
	Racc map[string][]string `json:"racc"`
}

type vC03Step struct {
	A     string     `json:"a"`
	P     string     `json:"p"`
	U     string     `json:"u"`
	D     string     `json:"d"`
	B     any        `json:"b"`
	Cs    []string   `json:"cs"`
	Rs    []string   `json:"rs"`
	G     *vC03Grant `json:"g"`
	Hi    bool       `json:"hi"`
	Purge bool       `json:"purge"`
}

type vC03Beh struct {
	ID    int        `json:"id"`
	Mode  string     `json:"mode"` // eager | mixed | lazy : when the harness itself issues Request(u)
	Steps []vC03Step `json:"steps"`
}

var (
	vC03Users = []string{"u1", "u2"}
	vC03Roles = []string{"r1", "r2"}
	vC03Docs  = []string{"d1", "d2"}
)

type vC03Doc struct {
	chain [3][]string // per branch (1, 2) the revision ids root..leaf
	dead  [3]bool
}

type vC03Gate struct {
	mu      sync.Mutex
	key     string
	reached chan struct{}
	release chan struct{}
}

func (g *vC03Gate) arm(key string) (reached, release chan struct{}) {
	g.mu.Lock()
	defer g.mu.Unlock()
	g.key, g.reached, g.release = key, make(chan struct{}), make(chan struct{})
	return g.reached, g.release
}

func (g *vC03Gate) callback(key string) {
	g.mu.Lock()
	if g.key == "" || g.key != key {
		g.mu.Unlock()
		return
	}
	reached, release := g.reached, g.release
	g.key = "" // one shot: a CAS retry of the gated load passes through
	g.mu.Unlock()
	close(reached)
	<-release
}

func vC03Sorted(s []string) []string {
	if s == nil {
		s = []string{}
	}
	sort.Strings(s)
	return s
}

func TestVerif_C03_Access(t *testing.T) {
	var behs []vC03Beh
	vReadJSON(t, "VERIF_BEH", &behs)
	tw := vOpenTrace(t, "VERIF_TRACE_OUT")
	defer tw.Close()
	rnd := vRand()

	gate := &vC03Gate{}
	tb := base.GetTestBucket(t)
	lb := base.NewLeakyBucket(tb, base.LeakyBucketConfig{UpdateCallback: gate.callback})
	db, ctx := SetupTestDBForBucketWithOptions(t, lb, DatabaseContextOptions{AllowConflicts: base.Ptr(true)})
	defer db.Close(ctx)
	db.AllowEmptyPassword = true
	col, ctx := GetSingleDatabaseCollectionWithUser(ctx, t, db)
	if _, err := col.UpdateSyncFun(ctx, vC03SyncFn); err != nil {
		t.Fatalf("VERIF-FATAL UpdateSyncFun: %v", err)
	}
	scope, coll := col.ScopeName, col.Name
	isDefault := base.IsDefaultCollection(scope, coll)
	fatal := func(bi, si int, what string, err error) {
		t.Fatalf("VERIF-FATAL behaviour %d step %d: %s: %v", bi, si, what, err)
	}

	for _, b := range behs {
		prefix := fmt.Sprintf("b%dx", b.ID)
		real := func(m string) string { return prefix + m }
		model := func(r string) string { return strings.TrimPrefix(r, prefix) }
		isUser := func(m string) bool { return strings.HasPrefix(m, "u") }
		accessName := func(m string) string {
			if isUser(m) {
				return real(m)
			}
			return channels.RoleAccessPrefix + real(m)
		}
		authr := func() *auth.Authenticator { return db.Authenticator(ctx) }
		docKey := func(m string) string {
			if isUser(m) {
				return authr().DocIDForUser(real(m))
			}
			return authr().DocIDForRole(real(m))
		}
		exists := map[string]bool{} // live principals according to the inputs
		docs := map[string]*vC03Doc{}
		for _, d := range vC03Docs {
			docs[d] = &vC03Doc{}
		}
		leaf := func(d string, br int) string {
			c := docs[d].chain[br]
			if len(c) == 0 {
				return ""
			}
			return c[len(c)-1]
		}
		liveOr := func(d string, want int) int { // the wanted branch if it is live, else the other live one, else 0
			ds := docs[d]
			for _, br := range []int{want, 3 - want} {
				if len(ds.chain[br]) > 0 && !ds.dead[br] {
					return br
				}
			}
			return 0
		}
		branchOf := func(d, rev string) int {
			for br := 1; br <= 2; br++ {
				if rev != "" && leaf(d, br) == rev {
					return br
				}
			}
			return -1
		}
		keysOf := func(x any) []string {
			m, _ := x.(map[string]any)
			res := []string{}
			for k := range m {
				res = append(res, k)
			}
			return vC03Sorted(res)
		}

		// ---- projection of the real state -------------------------------------------------------------
		state := func(bi, si int) vObj {
			cache := vObj{}
			for _, p := range append(append([]string{}, vC03Users...), vC03Roles...) {
				ent := vObj{"cok": false, "cch": []string{}, "rok": false, "cro": []string{}}
				raw, _, err := db.MetadataStore.GetRaw(ctx, docKey(p))
				if err == nil && raw != nil {
					var m map[string]any
					if err := json.Unmarshal(raw, &m); err != nil {
						fatal(bi, si, "principal doc", err)
					}
					var ca map[string]any
					if isDefault {
						ca = m
					} else if x, ok := m["collection_access"].(map[string]any); ok {
						if y, ok := x[scope].(map[string]any); ok {
							ca, _ = y[coll].(map[string]any)
						}
					}
					if ca != nil {
						_, inval := ca["channel_inval_seq"]
						if all, ok := ca["all_channels"].(map[string]any); ok && !inval {
							ent["cok"], ent["cch"] = true, keysOf(all)
						}
					}
					if isUser(p) {
						_, inval := m["role_inval_seq"]
						if rs, ok := m["rolesSince"].(map[string]any); ok && !inval {
							names := []string{}
							for _, k := range keysOf(rs) {
								names = append(names, model(k))
							}
							ent["rok"], ent["cro"] = true, vC03Sorted(names)
						}
					}
				} else if err != nil && !base.IsDocNotFoundError(err) {
					fatal(bi, si, "read principal doc", err)
				}
				cache[p] = ent
			}
			win, dacc := vObj{}, vObj{}
			foreign := 0
			for _, d := range vC03Docs {
				acc, racc := vObj{}, vObj{}
				for _, p := range append(append([]string{}, vC03Users...), vC03Roles...) {
					acc[p] = []string{}
				}
				for _, u := range vC03Users {
					racc[u] = []string{}
				}
				w := 0
				if len(docs[d].chain[1]) > 0 {
					sd, err := col.GetDocSyncData(ctx, real(d))
					if err != nil {
						fatal(bi, si, "GetDocSyncData "+d, err)
					}
					w = branchOf(d, sd.GetRevTreeID())
					if w < 0 {
						fatal(bi, si, "current revision of "+d+" is not a known leaf", fmt.Errorf("%s", sd.GetRevTreeID()))
					}
					known := map[string]string{}
					for _, p := range append(append([]string{}, vC03Users...), vC03Roles...) {
						known[accessName(p)] = p
					}
					// A stored map that is merely WRONG (grantee that nobody granted, role names where channels belong, ...)
					// is recorded as far as the spec's variables can hold it and left to TLC to judge; "foreign" counts
					// the entries that have no place in the projection.
					for name, ts := range sd.Access {
						p, ok := known[name]
						if !ok {
							foreign++
							continue
						}
						acc[p] = vC03Sorted(ts.AllKeys())
					}
					for name, ts := range sd.RoleAccess {
						p, ok := known[name]
						if !ok || !isUser(p) {
							foreign++
							continue
						}
						names := []string{}
						for _, k := range ts.AllKeys() {
							names = append(names, model(k))
						}
						racc[p] = vC03Sorted(names)
					}
				}
				win[d] = w
				dacc[d] = vObj{"acc": acc, "racc": racc}
			}
			return vObj{"cache": cache, "win": win, "dacc": dacc, "foreign": foreign}
		}
		emit := func(bi, si int, o vObj) {
			for k, v := range state(bi, si) {
				o[k] = v
			}
			tw.Emit(o)
		}
		gOut := func(g *vC03Grant) vObj { // echo of the input grant table, complete over the universe
			acc, racc := vObj{}, vObj{}
			for _, p := range append(append([]string{}, vC03Users...), vC03Roles...) {
				acc[p] = vC03Sorted(append([]string{}, g.Acc[p]...))
			}
			for _, u := range vC03Users {
				racc[u] = vC03Sorted(append([]string{}, g.Racc[u]...))
			}
			return vObj{"acc": acc, "racc": racc}
		}
		nonce := 0
		bodyOf := func(g *vC03Grant) Body {
			nonce++
			grants, roles := []any{}, []any{}
			for _, p := range append(append([]string{}, vC03Users...), vC03Roles...) {
				if len(g.Acc[p]) > 0 {
					grants = append(grants, map[string]any{"u": accessName(p), "c": g.Acc[p]})
				}
			}
			for _, u := range vC03Users {
				if len(g.Racc[u]) > 0 {
					rs := []string{}
					for _, r := range g.Racc[u] {
						rs = append(rs, channels.RoleAccessPrefix+real(r))
					}
					roles = append(roles, map[string]any{"u": real(u), "r": rs})
				}
			}
			return Body{"grants": grants, "roles": roles, "n": nonce}
		}
		request := func(bi, si int, u string) {
			usr, err := authr().GetUser(real(u))
			if err != nil {
				fatal(bi, si, "GetUser", err)
			}
			o := vObj{"a": "Request", "u": u, "found": usr != nil, "chans": []string{}, "roles": []string{}}
			if usr != nil {
				ch, err := usr.InheritedCollectionChannels(scope, coll)
				if err != nil {
					fatal(bi, si, "InheritedCollectionChannels", err)
				}
				o["chans"] = vC03Sorted(ch.AllKeys())
				names := []string{}
				for _, k := range usr.RoleNames().AllKeys() {
					names = append(names, model(k))
				}
				o["roles"] = vC03Sorted(names)
			}
			emit(bi, si, o)
		}
		load := func(p string) error {
			var err error
			if isUser(p) {
				_, err = authr().GetUser(real(p))
			} else {
				_, err = authr().GetRole(real(p))
			}
			return err
		}

		// ---- replay -------------------------------------------------------------------------------------
		tw.Emit(vObj{"a": "Reset", "beh": b.ID})
		var loadDone chan error
		var loadRelease chan struct{}
		for si, st := range b.Steps {
			bi := b.ID
			switch st.A {
			case "AdminPut":
				name := real(st.P)
				pc := &auth.PrincipalConfig{Name: &name}
				// "no admin channels" for a principal that does not exist (never created, deleted, or a role marked
				// deleted) is mostly sent the way an administrator would: with the channel list omitted. For an existing
				// principal an omitted list would mean "unchanged", so there the empty list is always explicit.
				omit := len(st.Cs) == 0 && !exists[st.P] && rnd.Intn(4) != 0
				exists[st.P] = true
				if omit {
					// nothing
				} else if isDefault {
					pc.ExplicitChannels = base.SetFromArray(st.Cs)
				} else {
					pc.SetExplicitChannels(scope, coll, st.Cs...)
				}
				if isUser(st.P) {
					rs := []string{}
					for _, r := range st.Rs {
						rs = append(rs, real(r))
					}
					pc.ExplicitRoleNames = base.SetFromArray(rs)
				}
				if _, _, err := db.UpdatePrincipal(ctx, pc, isUser(st.P), true); err != nil {
					fatal(bi, si, "UpdatePrincipal", err)
				}
				emit(bi, si, vObj{"a": "AdminPut", "p": st.P, "cs": vC03Sorted(append([]string{}, st.Cs...)), "rs": vC03Sorted(append([]string{}, st.Rs...))})
			case "AdminDelete":
				if isUser(st.P) {
					usr, err := authr().GetUser(real(st.P))
					if err != nil {
						fatal(bi, si, "GetUser before delete", err)
					}
					if usr != nil { // a user that should exist but does not is a wrong state, not a harness failure: recorded below
						if err := authr().DeleteUser(usr); err != nil {
							fatal(bi, si, "DeleteUser", err)
						}
					}
				} else if err := db.DeleteRole(ctx, real(st.P), st.Purge); err != nil && !base.IsDocNotFoundError(err) {
					fatal(bi, si, "DeleteRole", err)
				}
				exists[st.P] = false
				emit(bi, si, vObj{"a": "AdminDelete", "p": st.P, "purge": st.Purge})
			case "DocWrite":
				// Where two md5 digests of one generation tie, the real winner may differ from the one TLC chose when it
				// generated the behaviour; the step is then re-targeted on the real state (the trace is validated on its own).
				br := liveOr(st.D, vInt(st.B))
				ds := docs[st.D]
				body := bodyOf(st.G)
				if len(ds.chain[1]) > 0 {
					if br != 0 {
						body[BodyRev] = leaf(st.D, br)
					} else { // resurrection: a Put without _rev extends the REAL current tombstone
						sd, err := col.GetDocSyncData(ctx, real(st.D))
						if err != nil {
							fatal(bi, si, "GetDocSyncData", err)
						}
						if br = branchOf(st.D, sd.GetRevTreeID()); br < 0 {
							fatal(bi, si, "current revision is not a known leaf", fmt.Errorf("%s", sd.GetRevTreeID()))
						}
					}
				}
				if br == 0 {
					br = 1
				}
				rev, _, err := col.Put(ctx, real(st.D), body)
				if err != nil {
					fatal(bi, si, "Put", err)
				}
				ds.chain[br] = append(ds.chain[br], rev)
				ds.dead[br] = false
				emit(bi, si, vObj{"a": "DocWrite", "d": st.D, "b": br, "g": gOut(st.G)})
			case "DocDelete":
				br := liveOr(st.D, vInt(st.B))
				if br == 0 { // nothing live to delete in the real state (diverged tie): skip
					continue
				}
				rev, _, err := col.DeleteDoc(ctx, real(st.D), DocVersion{RevTreeID: leaf(st.D, br)})
				if err != nil {
					fatal(bi, si, "DeleteDoc", err)
				}
				docs[st.D].chain[br] = append(docs[st.D].chain[br], rev)
				docs[st.D].dead[br] = true
				emit(bi, si, vObj{"a": "DocDelete", "d": st.D, "b": br})
			case "DocConflict":
				ds := docs[st.D]
				c1 := ds.chain[1]
				if len(c1) < 1 || len(ds.chain[2]) > 0 {
					continue
				}
				dig := "00" // lower than any md5 digest; "zz" is higher
				if st.Hi {
					dig = "zz"
				}
				newRev := fmt.Sprintf("%d-%s", len(c1), dig) // sibling of the leaf of branch 1 (a second root at generation 1)
				history := []string{newRev}
				if len(c1) >= 2 {
					history = append(history, c1[len(c1)-2])
				}
				_, rev, err := col.PutExistingRevWithBody(ctx, real(st.D), bodyOf(st.G), history, false, ExistingVersionWithUpdateToHLV)
				if err != nil || rev != newRev {
					fatal(bi, si, "PutExistingRevWithBody", fmt.Errorf("%v (rev %s)", err, rev))
				}
				ds.chain[2] = append(append([]string{}, c1[:len(c1)-1]...), newRev)
				ds.dead[2] = false
				emit(bi, si, vObj{"a": "DocConflict", "d": st.D, "hi": st.Hi, "g": gOut(st.G)})
			case "Load":
				if err := load(st.P); err != nil {
					fatal(bi, si, "Load", err)
				}
				emit(bi, si, vObj{"a": "Load", "p": st.P})
			case "LoadBegin":
				reached, release := gate.arm(docKey(st.P))
				done := make(chan error, 1)
				p := st.P
				go func() { done <- load(p) }()
				select {
				case <-reached:
				case err := <-done:
					fatal(bi, si, "gated load finished without reaching its write", err)
				}
				loadDone, loadRelease = done, release
				emit(bi, si, vObj{"a": "LoadBegin", "p": st.P})
			case "LoadEnd":
				if loadDone == nil {
					fatal(bi, si, "LoadEnd without LoadBegin", nil)
				}
				close(loadRelease)
				if err := <-loadDone; err != nil {
					fatal(bi, si, "gated load", err)
				}
				loadDone, loadRelease = nil, nil
				emit(bi, si, vObj{"a": "LoadEnd", "p": st.P})
			case "Request":
				request(bi, si, st.U)
			case "Invalidate":
				// part of the preceding write on the real system (behaviours for replay are generated with SplitWrite = FALSE)
			default:
				t.Fatalf("VERIF-FATAL unknown action %q", st.A)
			}
			if st.A != "Request" && loadDone == nil {
				// harness-issued requests (always enabled in the model): eager = one user after every action
				// (sometimes both), mixed = after about half of the actions, lazy = only at the end
				if b.Mode == "eager" || (b.Mode == "mixed" && rnd.Intn(2) == 0) {
					k := rnd.Intn(len(vC03Users))
					request(bi, si, vC03Users[k])
					if rnd.Intn(4) == 0 {
						request(bi, si, vC03Users[1-k])
					}
				}
			}
		}
		if loadDone != nil {
			close(loadRelease)
			<-loadDone
		}
		for _, u := range vC03Users { // every behaviour ends with a request of every user
			request(b.ID, len(b.Steps), u)
		}

		// ---- cleanup: keep the shared database small ---------------------------------------------------
		for _, d := range vC03Docs {
			if len(docs[d].chain[1]) > 0 {
				_ = col.Purge(ctx, real(d), false)
			}
		}
		for _, u := range vC03Users {
			if usr, err := authr().GetUser(real(u)); err == nil && usr != nil {
				_ = authr().DeleteUser(usr)
			}
		}
		for _, r := range vC03Roles {
			if role, err := authr().GetRoleIncDeleted(real(r)); err == nil && role != nil {
				_ = authr().DeleteRole(role, true, 0)
			}
		}
	}
}

var _ = context.Background
