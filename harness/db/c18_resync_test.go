//go:build verif

package db

// C18 binding: replays TLC-generated scenarios of specs/Resync on REAL databases (Rosmar).
//   dbR  the database under test: the corpus is built under fn1 (Put / DeleteDoc / Put{_deleted} /
//        PutExistingRevWithBody), users are optionally loaded (warm principal caches), the sync function is swapped
//        (UpdateSyncFun) and the real resync background manager (ResyncManagerDCP, as in the repository's resync tests)
//        is run to completion - twice.
//   dbS  a second database on its own bucket whose sync function is fn2 before the first write: the same accepted
//        writes are replayed there ("from scratch"), and it is observed in exactly the same way (differential).
// The JS sync function is GENERATED from the scenario's table bodyClass -> [channels, access grants, role grants,
// reject]; a rejecting row performs its channel()/access()/role() calls BEFORE it throws.  All names (documents,
// principals, channels) carry a per-scenario prefix (taken by the JS from doc.p), so one pair of databases serves
// every scenario; a scenario's documents and principals are purged at its end.
// After every step the REAL state is recorded: per document the current revision's branch, per-leaf channels
// (Document.channelsForRevTreeID), the _sync access / role_access maps, sequence, and a version counter that steps
// whenever the bucket CAS of the document changed; the allocator's last sequence; per principal the raw computed
// channels / roles (valid or invalidated).  A Request records Authenticator.GetUser(name) ->
// InheritedCollectionChannels / RoleNames, the documents listed by a since-0 changes request run as that user
// (removal-only entries excluded) and the leaves the user may fetch by revision id (GetRev).
// After a resync the DatabaseContext is closed and rebuilt on the same bucket: the REST API only resyncs an offline
// database and taking it online again builds a new context (fresh channel and revision caches).  No request is made
// while a write or the resync is in flight.
// No assertion about the property is made here; TLC evaluates it on the trace (specs/Resync/Trace_Resync.tla).

import (
	"context"
	"encoding/json"
	"fmt"
	"sort"
	"strings"
	"sync"
	"testing"
	"time"

	sgbucket "github.com/couchbase/sg-bucket"
	"github.com/couchbase/sync_gateway/auth"
	"github.com/couchbase/sync_gateway/base"
	"github.com/couchbase/sync_gateway/channels"
)

type vC18Row struct {
	Ch  []string   `json:"ch"`
	Acc [][]string `json:"acc"` // [principal, channel]
	Rol [][]string `json:"rol"` // [user, role]
	Rej bool       `json:"rej"`
}

type vC18Step struct {
	A     string             `json:"a"`
	F     string             `json:"f"`
	Tab   map[string]vC18Row `json:"tab"`
	D     string             `json:"d"`
	B     any                `json:"b"`
	Cls   string             `json:"cls"`
	Del   bool               `json:"del"`
	Hi    bool               `json:"hi"`
	U     string             `json:"u"`
	Regen bool               `json:"regen"`
}

type vC18Scn struct {
	ID    int                 `json:"id"`
	AdmCh map[string][]string `json:"admch"` // admin channels per principal
	AdmRo map[string][]string `json:"admro"` // admin roles per user
	Steps []vC18Step          `json:"steps"`
}

var (
	vC18Users = []string{"u1", "u2"}
	vC18Roles = []string{"r1"}
	vC18Docs  = []string{"d1", "d2", "d3", "d4"}
)

const vC18NoCls = "-" // a tombstone without a body class (DeleteDoc)

func vC18Sorted(s []string) []string {
	if s == nil {
		s = []string{}
	}
	sort.Strings(s)
	return s
}

func vC18SortedPairs(p [][]string) [][]string {
	if p == nil {
		p = [][]string{}
	}
	sort.Slice(p, func(i, j int) bool {
		if p[i][0] != p[j][0] {
			return p[i][0] < p[j][0]
		}
		return p[i][1] < p[j][1]
	})
	return p
}

// vC18SyncFn generates the JS sync function from the table.
func vC18SyncFn(tab map[string]vC18Row) string {
	b, err := json.Marshal(tab)
	if err != nil {
		panic(err)
	}
	return `function(doc, oldDoc, meta){
  var T = ` + string(b) + `;
  var row = T[doc.k];
  if (!row) { return; }
  var p = doc.p || "";
  var i;
  for (i = 0; i < (row.acc || []).length; i++) {
    var who = row.acc[i][0];
    access((who.charAt(0) == "r" ? "role:" : "") + p + who, p + row.acc[i][1]);
  }
  for (i = 0; i < (row.rol || []).length; i++) { role(p + row.rol[i][0], "role:" + p + row.rol[i][1]); }
  var cs = [];
  for (i = 0; i < (row.ch || []).length; i++) { cs.push(p + row.ch[i]); }
  channel(cs);
  if (row.rej) { throw({forbidden: "c18 rejected"}); }
}`
}

type vC18Leafs struct {
	chain [3][]string
	dead  [3]bool
}

// one real database plus the per-scenario bookkeeping needed to project it
type vC18DB struct {
	t      *testing.T
	name   string
	tb     *base.TestBucket
	cur    map[string]vC18Row // the sync function in force (table)
	db     *Database
	ctx    context.Context
	col    *DatabaseCollectionWithUser
	scope  string
	coll   string
	isDef  bool
	prefix string
	docs   map[string]*vC18Leafs
	lastCa map[string]uint64
	ver    map[string]int
	base   uint64
	nonce  int
	race   bool // resyncs of the current scenario run against a racing writer
	raced  int  // resync writes raced so far
}

// vC18RaceStore stands for another writer racing with the resync ("including writes racing with the resync"): the
// first time the resync is about to write a document (its update callback produced an update, the CAS write has not
// happened yet) the document's CAS is moved by a Touch that bypasses the gateway - as an SDK TTL change would.  The
// resync's write fails its CAS check and the update is recomputed on the reloaded document; the outcome must be the
// one of an undisturbed run.  Documents the resync leaves alone are not touched, so the recorded version counters
// keep their meaning.
type vC18RaceStore struct {
	base.DataStore
	sgbucket.ViewStore
	mu      sync.Mutex
	touched map[string]bool
}

func (s *vC18RaceStore) WriteUpdateWithXattrs(ctx context.Context, k string, xattrKeys []string, exp uint32, previous *sgbucket.BucketDocument, opts *sgbucket.MutateInOptions, callback sgbucket.WriteUpdateWithXattrsFunc) (uint64, error) {
	wrapped := func(current []byte, xattrs map[string][]byte, cas uint64) (sgbucket.UpdatedDoc, error) {
		d, err := callback(current, xattrs, cas)
		if err == nil {
			s.mu.Lock()
			first := !s.touched[k]
			s.touched[k] = true
			s.mu.Unlock()
			if first {
				_, _ = s.DataStore.Touch(ctx, k, 86400)
			}
		}
		return d, err
	}
	return s.DataStore.WriteUpdateWithXattrs(ctx, k, xattrKeys, exp, previous, opts, wrapped)
}

func vC18Open(t *testing.T, name string) *vC18DB {
	x := &vC18DB{t: t, name: name, tb: base.GetTestBucket(t)}
	x.open()
	return x
}

// open builds a DatabaseContext on the bucket (a no-close clone: the context can be closed and rebuilt)
func (x *vC18DB) open() {
	cacheOptions := DefaultCacheOptions()
	db, ctx := SetupTestDBForBucketWithOptions(x.t, x.tb.NoCloseClone(), DatabaseContextOptions{AllowConflicts: base.Ptr(true), CacheOptions: &cacheOptions})
	db.AllowEmptyPassword = true
	col, ctx := GetSingleDatabaseCollectionWithUser(ctx, x.t, db)
	x.db, x.ctx, x.col, x.scope, x.coll = db, ctx, col, col.ScopeName, col.Name
	x.isDef = base.IsDefaultCollection(col.ScopeName, col.Name)
	if x.cur != nil {
		x.setFn(x.cur)
	}
}

// reopen stands for the _offline / _online cycle around a resync: the REST API only runs a resync on an offline
// database, and bringing it online again builds a new DatabaseContext (empty channel and revision caches, sequence
// allocator re-read from the bucket).  The sync function lives in the database configuration: it is set again.
func (x *vC18DB) reopen() {
	t0 := time.Now()
	x.db.Close(x.ctx)
	t1 := time.Now()
	x.open()
	if vEnvInt("VERIF_C18_DEBUG", 0) > 0 {
		x.t.Logf("C18DBG reopen: close %v open %v", t1.Sub(t0), time.Since(t1))
	}
}

func (x *vC18DB) close() {
	x.db.Close(x.ctx)
	x.tb.Close(base.TestCtx(x.t))
}

func (x *vC18DB) fatal(what string, err error) {
	x.t.Fatalf("VERIF-FATAL %s scenario %s: %s: %v", x.name, x.prefix, what, err)
}
func (x *vC18DB) real(m string) string       { return x.prefix + m }
func (x *vC18DB) model(r string) string      { return strings.TrimPrefix(r, x.prefix) }
func (x *vC18DB) authr() *auth.Authenticator { return x.db.Authenticator(x.ctx) }
func vC18IsUser(m string) bool               { return strings.HasPrefix(m, "u") }
func (x *vC18DB) accessName(m string) string {
	if vC18IsUser(m) {
		return x.real(m)
	}
	return channels.RoleAccessPrefix + x.real(m)
}
func (x *vC18DB) docKey(m string) string {
	if vC18IsUser(m) {
		return x.authr().DocIDForUser(x.real(m))
	}
	return x.authr().DocIDForRole(x.real(m))
}

func (x *vC18DB) begin(s *vC18Scn, tag string) {
	x.prefix = fmt.Sprintf("s%d%s", s.ID, tag)
	x.docs = map[string]*vC18Leafs{}
	for _, d := range vC18Docs {
		x.docs[d] = &vC18Leafs{}
	}
	x.lastCa, x.ver = map[string]uint64{}, map[string]int{}
	// principals first (roles, then users), with the scenario's admin grants
	for _, p := range append(append([]string{}, vC18Roles...), vC18Users...) {
		name := x.real(p)
		pc := &auth.PrincipalConfig{Name: &name}
		cs := []string{}
		for _, c := range s.AdmCh[p] {
			cs = append(cs, x.real(c))
		}
		if x.isDef {
			pc.ExplicitChannels = base.SetFromArray(cs)
		} else {
			pc.SetExplicitChannels(x.scope, x.coll, cs...)
		}
		if vC18IsUser(p) {
			rs := []string{}
			for _, r := range s.AdmRo[p] {
				rs = append(rs, x.real(r))
			}
			pc.ExplicitRoleNames = base.SetFromArray(rs)
		}
		if _, _, err := x.db.UpdatePrincipal(x.ctx, pc, vC18IsUser(p), true); err != nil {
			x.fatal("UpdatePrincipal "+p, err)
		}
	}
	last, err := x.db.sequences.lastSequence(x.ctx)
	if err != nil {
		x.fatal("lastSequence", err)
	}
	x.base = last
}

func (x *vC18DB) end() {
	for _, d := range vC18Docs {
		if len(x.docs[d].chain[1]) > 0 {
			_ = x.col.Purge(x.ctx, x.real(d), false)
		}
	}
	for _, u := range vC18Users {
		if usr, err := x.authr().GetUser(x.real(u)); err == nil && usr != nil {
			_ = x.authr().DeleteUser(usr)
		}
	}
	for _, r := range vC18Roles {
		if role, err := x.authr().GetRoleIncDeleted(x.real(r)); err == nil && role != nil {
			_ = x.authr().DeleteRole(role, true, 0)
		}
	}
}

func (x *vC18DB) setFn(tab map[string]vC18Row) {
	x.cur = tab
	if _, err := x.col.UpdateSyncFun(x.ctx, vC18SyncFn(tab)); err != nil {
		x.fatal("UpdateSyncFun", err)
	}
}

func (x *vC18DB) leaf(d string, br int) string {
	c := x.docs[d].chain[br]
	if len(c) == 0 {
		return ""
	}
	return c[len(c)-1]
}

func (x *vC18DB) body(cls string, del bool) Body {
	x.nonce++
	b := Body{"p": x.prefix, "n": x.nonce}
	if cls != vC18NoCls {
		b["k"] = cls
	}
	if del {
		b[BodyDeleted] = true
	}
	return b
}

// write = a new revision on branch br (1 or 2) carrying body class cls; del: a tombstone (with a body class: Put of
// {_deleted:true, k:cls}; without: DeleteDoc).  Returns false when the sync function rejected it (403).
func (x *vC18DB) write(d string, br int, cls string, del bool) bool {
	ds := x.docs[d]
	var rev string
	var err error
	if del && cls == vC18NoCls {
		rev, _, err = x.col.DeleteDoc(x.ctx, x.real(d), DocVersion{RevTreeID: x.leaf(d, br)})
	} else {
		b := x.body(cls, del)
		if len(ds.chain[br]) > 0 {
			b[BodyRev] = x.leaf(d, br)
		}
		rev, _, err = x.col.Put(x.ctx, x.real(d), b)
	}
	if err != nil {
		if status, _ := base.ErrorAsHTTPStatus(err); status == 403 {
			return false
		}
		x.fatal(fmt.Sprintf("write %s branch %d class %s del %v", d, br, cls, del), err)
	}
	ds.chain[br] = append(ds.chain[br], rev)
	ds.dead[br] = del
	return true
}

// conflict = a second leaf, sibling of the leaf of branch 1, whose digest sorts above ("zz") or below ("00") any md5
func (x *vC18DB) conflict(d string, cls string, hi bool) bool {
	ds := x.docs[d]
	c1 := ds.chain[1]
	dig := "00"
	if hi {
		dig = "zz"
	}
	newRev := fmt.Sprintf("%d-%s", len(c1), dig)
	history := []string{newRev}
	if len(c1) >= 2 {
		history = append(history, c1[len(c1)-2])
	}
	_, rev, err := x.col.PutExistingRevWithBody(x.ctx, x.real(d), x.body(cls, false), history, false, ExistingVersionWithUpdateToHLV)
	if err != nil {
		if status, _ := base.ErrorAsHTTPStatus(err); status == 403 {
			return false
		}
		x.fatal("PutExistingRevWithBody "+d, err)
	}
	if rev != newRev {
		x.fatal("PutExistingRevWithBody "+d, fmt.Errorf("rev %s, wanted %s", rev, newRev))
	}
	ds.chain[2] = append(append([]string{}, c1[:len(c1)-1]...), newRev)
	ds.dead[2] = false
	return true
}

func (x *vC18DB) chanNames(s base.Set) []string {
	res := []string{}
	for c := range s {
		res = append(res, x.model(c))
	}
	return vC18Sorted(res)
}

// ---- projection of the real state ------------------------------------------------------------------------
func (x *vC18DB) state() vObj {
	known := map[string]string{}
	for _, p := range append(append([]string{}, vC18Users...), vC18Roles...) {
		known[x.accessName(p)] = p
	}
	win, ch, acc, rol, seq, ver := vObj{}, vObj{}, vObj{}, vObj{}, vObj{}, vObj{}
	for _, d := range vC18Docs {
		w, s := 0, 0
		lch := [][]string{{}, {}}
		a, r := [][]string{}, [][]string{}
		if len(x.docs[d].chain[1]) > 0 {
			doc, _, err := x.col.GetDocWithXattrs(x.ctx, x.real(d), DocUnmarshalAll)
			if err != nil {
				x.fatal("GetDocWithXattrs "+d, err)
			}
			for br := 1; br <= 2; br++ {
				if lf := x.leaf(d, br); lf != "" {
					if lf == doc.GetRevTreeID() {
						w = br
					}
					if cs, ok := doc.channelsForRevTreeID(lf); ok {
						lch[br-1] = x.chanNames(cs)
					}
				}
			}
			if w == 0 {
				x.fatal("current revision of "+d+" is not a known leaf", fmt.Errorf("%s", doc.GetRevTreeID()))
			}
			for name, ts := range doc.Access {
				p, ok := known[name]
				if !ok {
					x.fatal("unexpected grantee in access map of "+d, fmt.Errorf("%s", name))
				}
				for _, c := range ts.AllKeys() {
					a = append(a, []string{p, x.model(c)})
				}
			}
			for name, ts := range doc.RoleAccess {
				p, ok := known[name]
				if !ok || !vC18IsUser(p) {
					x.fatal("unexpected grantee in role_access map of "+d, fmt.Errorf("%s", name))
				}
				for _, c := range ts.AllKeys() {
					r = append(r, []string{p, x.model(c)})
				}
			}
			s = int(doc.Sequence - x.base)
			if last, ok := x.lastCa[d]; !ok || last != doc.Cas {
				x.ver[d]++
				x.lastCa[d] = doc.Cas
			}
		}
		win[d], ch[d], acc[d], rol[d], seq[d], ver[d] = w, lch, vC18SortedPairs(a), vC18SortedPairs(r), s, x.ver[d]
	}
	cache := vObj{}
	for _, p := range append(append([]string{}, vC18Users...), vC18Roles...) {
		ent := vObj{"cok": false, "cch": []string{}, "rok": false, "cro": []string{}}
		raw, _, err := x.db.MetadataStore.GetRaw(x.ctx, x.docKey(p))
		if err == nil && raw != nil {
			var m map[string]any
			if err := json.Unmarshal(raw, &m); err != nil {
				x.fatal("principal doc", err)
			}
			var ca map[string]any
			if x.isDef {
				ca = m
			} else if y, ok := m["collection_access"].(map[string]any); ok {
				if z, ok := y[x.scope].(map[string]any); ok {
					ca, _ = z[x.coll].(map[string]any)
				}
			}
			keys := func(v any) []string {
				mm, _ := v.(map[string]any)
				res := []string{}
				for k := range mm {
					res = append(res, x.model(k))
				}
				return vC18Sorted(res)
			}
			if ca != nil {
				_, inval := ca["channel_inval_seq"]
				if all, ok := ca["all_channels"].(map[string]any); ok && !inval {
					ent["cok"], ent["cch"] = true, keys(all)
				}
			}
			if vC18IsUser(p) {
				_, inval := m["role_inval_seq"]
				if rs, ok := m["rolesSince"].(map[string]any); ok && !inval {
					ent["rok"], ent["cro"] = true, keys(rs)
				}
			}
		} else if err != nil && !base.IsDocNotFoundError(err) {
			x.fatal("read principal doc", err)
		}
		cache[p] = ent
	}
	last, err := x.db.sequences.lastSequence(x.ctx)
	if err != nil {
		x.fatal("lastSequence", err)
	}
	return vObj{"win": win, "ch": ch, "acc": acc, "rol": rol, "seq": seq, "ver": ver, "ctr": int(last - x.base), "cache": cache}
}

// request = what a request authenticated as u gets: effective channels, role names, the documents of a since-0
// changes feed (entries that are not mere removal notices), the leaves fetchable by revision id
func (x *vC18DB) request(u string) vObj {
	x.db.WaitForPendingChanges(x.t)
	usr, err := x.authr().GetUser(x.real(u))
	if err != nil || usr == nil {
		x.fatal("GetUser "+u, fmt.Errorf("%v %v", usr, err))
	}
	chs, err := usr.InheritedCollectionChannels(x.scope, x.coll)
	if err != nil {
		x.fatal("InheritedCollectionChannels", err)
	}
	roles := []string{}
	for _, k := range usr.RoleNames().AllKeys() {
		roles = append(roles, x.model(k))
	}
	uc := &DatabaseCollectionWithUser{DatabaseCollection: x.col.DatabaseCollection, user: usr}
	cctx, cancel := context.WithCancel(x.ctx)
	var entries []*ChangeEntry
	gerr, _ := GenerateChanges(x.ctx, uc, base.SetOf(channels.AllChannelWildcard), ChangesOptions{Since: SequenceID{}, ChangesCtx: cctx}, nil,
		func(es []*ChangeEntry) error {
			entries = append(entries, es...)
			return nil
		})
	cancel()
	if gerr != nil {
		x.fatal("GenerateChanges", gerr)
	}
	vis, rem := map[string]bool{}, map[string]bool{}
	for _, e := range entries {
		if e == nil || e.principalDoc || strings.HasPrefix(e.ID, "_user/") {
			continue
		}
		if e.Err != nil {
			x.fatal("changes entry", e.Err)
		}
		if !strings.HasPrefix(e.ID, x.prefix) {
			continue
		}
		if e.allRemoved { // a removal notice in every channel the user has: the document is not visible
			rem[x.model(e.ID)] = true
		} else {
			vis[x.model(e.ID)] = true
		}
	}
	keys := func(m map[string]bool) []string {
		res := []string{}
		for k := range m {
			res = append(res, k)
		}
		return vC18Sorted(res)
	}
	vrev := [][]any{}
	for _, d := range vC18Docs {
		for br := 1; br <= 2; br++ {
			if lf := x.leaf(d, br); lf != "" {
				// a revision the user may not read comes back as a stub without the body (no error) when asked for by id
				if rv, err := uc.GetRev(x.ctx, x.real(d), lf, false, nil); err == nil && strings.Contains(string(rv.BodyBytes), x.prefix) {
					vrev = append(vrev, []any{d, br})
				}
			}
		}
	}
	cn := []string{}
	for _, c := range chs.AllKeys() {
		cn = append(cn, x.model(c))
	}
	return vObj{"u": u, "chans": vC18Sorted(cn), "roles": vC18Sorted(roles), "vis": keys(vis), "rem": keys(rem), "vrev": vrev}
}

// resync = the real background manager, run to completion as db/background_mgr_resync_dcp_test.go does
func (x *vC18DB) resync(regen bool) (changed, processed int64) {
	if x.race && !regen {
		// (not with regenerate_sequences: the recomputed update draws a second sequence, which the model's exact
		// sequence accounting of pass C does not describe)
		// until the reopen at the end of this resync (which builds a new context with the plain store)
		vs, _ := x.col.DatabaseCollection.dataStore.(sgbucket.ViewStore)
		rs := &vC18RaceStore{DataStore: x.col.DatabaseCollection.dataStore, ViewStore: vs, touched: map[string]bool{}}
		x.col.DatabaseCollection.dataStore = rs
		defer func() {
			rs.mu.Lock()
			x.raced += len(rs.touched)
			rs.mu.Unlock()
		}()
	}
	if err := x.db.ResyncManager.Start(x.ctx, ResyncOptions{Collections: base.NewCollectionNames(), RegenerateSequences: regen}); err != nil {
		x.fatal("ResyncManager.Start", err)
	}
	deadline := time.Now().Add(60 * time.Second) // liveness bound only
	for {
		var st ResyncManagerResponseDCP
		raw, err := x.db.ResyncManager.GetStatus(x.ctx)
		if err != nil {
			x.fatal("ResyncManager.GetStatus", err)
		}
		if err := json.Unmarshal(raw, &st); err != nil {
			x.fatal("resync status", err)
		}
		if st.State == BackgroundProcessStateCompleted {
			changed, processed = st.DocsChanged, st.DocsProcessed
			break
		}
		if st.State == BackgroundProcessStateError || st.State == BackgroundProcessStateStopped {
			x.fatal("resync ended in state "+string(st.State), fmt.Errorf("%s", raw))
		}
		if time.Now().After(deadline) {
			x.fatal("resync did not complete", fmt.Errorf("%s", raw))
		}
		time.Sleep(2 * time.Millisecond)
	}
	WaitForBackgroundManagerHeartbeatDocRemoval(x.t, x.db.ResyncManager)
	x.reopen()
	return changed, processed
}

func vC18Tab(tab map[string]vC18Row) vObj {
	o := vObj{}
	for k, r := range tab {
		o[k] = vObj{"ch": vC18Sorted(append([]string{}, r.Ch...)), "acc": vC18SortedPairs(append([][]string{}, r.Acc...)),
			"rol": vC18SortedPairs(append([][]string{}, r.Rol...)), "rej": r.Rej}
	}
	return o
}

func TestVerif_C18_Resync(t *testing.T) {
	var scns []vC18Scn
	vReadJSON(t, "VERIF_BEH", &scns)
	tw := vOpenTrace(t, "VERIF_TRACE_OUT")
	defer tw.Close()
	defer SuspendSequenceBatching()()
	// a DatabaseContext opened on a bucket that already has sequences waits releaseSequenceWait (1.5 s) for
	// sequences other nodes might still release; there is one node here (the repository's test knob)
	oldBypass := BypassReleasedSequenceWait.Load()
	BypassReleasedSequenceWait.Store(true)
	defer BypassReleasedSequenceWait.Store(oldBypass)

	R := vC18Open(t, "resynced")
	defer R.close()
	S := vC18Open(t, "scratch")
	defer S.close()

	emit := func(o vObj) {
		for k, v := range R.state() {
			o[k] = v
		}
		tw.Emit(o)
	}
	t0 := time.Now()
	var tResync time.Duration
	for i := range scns {
		s := &scns[i]
		// fn1 must be in place before the first principal / document exists
		var fn1 map[string]vC18Row
		for _, st := range s.Steps {
			if st.A == "SetFn" {
				fn1 = st.Tab
				break
			}
		}
		if fn1 == nil {
			t.Fatalf("VERIF-FATAL scenario %d has no SetFn", s.ID)
		}
		R.setFn(fn1)
		R.begin(s, "x")
		// every other scenario runs its resyncs against a racing writer (vC18RaceStore)
		R.race = vEnvInt("VERIF_C18_NORACE", 0) == 0 && s.ID%2 == 1
		admch, admro := vObj{}, vObj{}
		for _, p := range append(append([]string{}, vC18Users...), vC18Roles...) {
			admch[p] = vC18Sorted(append([]string{}, s.AdmCh[p]...))
		}
		for _, u := range vC18Users {
			admro[u] = vC18Sorted(append([]string{}, s.AdmRo[u]...))
		}
		emit(vObj{"a": "Reset", "beh": s.ID, "admch": admch, "admro": admro})

		var cur map[string]vC18Row
		var accepted []vC18Step // the writes the database under test accepted, in order
		scratchDone := false
		for _, st := range s.Steps {
			switch st.A {
			case "SetFn":
				R.setFn(st.Tab)
				cur = st.Tab
				emit(vObj{"a": "SetFn", "f": st.F, "tab": vC18Tab(st.Tab)})
			case "Write":
				ok := R.write(st.D, vInt(st.B), st.Cls, st.Del)
				if ok {
					accepted = append(accepted, st)
				}
				emit(vObj{"a": "Write", "d": st.D, "b": vInt(st.B), "cls": st.Cls, "del": st.Del, "ok": ok})
			case "Conflict":
				ok := R.conflict(st.D, st.Cls, st.Hi)
				if ok {
					accepted = append(accepted, st)
				}
				emit(vObj{"a": "Conflict", "d": st.D, "cls": st.Cls, "hi": st.Hi, "ok": ok})
			case "Request":
				o := R.request(st.U)
				o["a"] = "Request"
				emit(o)
			case "Resync":
				r0 := time.Now()
				changed, processed := R.resync(st.Regen)
				tResync += time.Since(r0)
				emit(vObj{"a": "Resync", "regen": st.Regen, "changed": int(changed), "processed": int(processed), "raced": R.raced})
			case "Scratch":
				// the same writes on a database that has used the CURRENT function from the beginning
				if scratchDone {
					t.Fatalf("VERIF-FATAL scenario %d: second Scratch", s.ID)
				}
				scratchDone = true
				S.setFn(cur)
				S.begin(s, "y")
				okd, rejd := map[string]bool{}, map[string]bool{}
				for _, w := range accepted {
					if rejd[w.D] {
						continue
					}
					okd[w.D] = true
					var ok bool
					if w.A == "Write" {
						ok = S.write(w.D, vInt(w.B), w.Cls, w.Del)
					} else {
						ok = S.conflict(w.D, w.Cls, w.Hi)
					}
					if !ok { // rejected by the new function: this document cannot exist in the from-scratch database
						okd[w.D], rejd[w.D] = false, true
						if len(S.docs[w.D].chain[1]) > 0 {
							_ = S.col.Purge(S.ctx, S.real(w.D), false)
							S.docs[w.D] = &vC18Leafs{}
						}
					}
				}
				o := S.state()
				okl := []string{}
				for _, d := range vC18Docs {
					if okd[d] {
						okl = append(okl, d)
					}
				}
				users := vObj{}
				for _, u := range vC18Users {
					users[u] = S.request(u)
				}
				emit(vObj{"a": "Scratch", "s": vObj{"win": o["win"], "ch": o["ch"], "acc": o["acc"], "rol": o["rol"]}, "okd": okl, "users": users})
				S.end()
			default:
				t.Fatalf("VERIF-FATAL unknown action %q", st.A)
			}
		}
		R.end()
	}
	t.Logf("C18 harness: %d scenarios in %v (resync %v); %d resync writes raced by a CAS-moving touch", len(scns), time.Since(t0), tResync, R.raced)
}
