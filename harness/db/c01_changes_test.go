//go:build verif

package db

// C01 (system level) binding: replays TLC-generated write histories of specs/Changes on real databases (Rosmar),
// one per cache configuration, all fed the same writes:
//     warm    default caches, live while the writes happen
//     cold    the change/channel cache is flushed before the sweep (FlushChannelCache) and cleared before every request
//     len1    per-channel cache length 1 (forces query backfill)
//     bypass  channel-count limit 1 (all but one channel served by the bypass cache)
// After every write the admin view of every document (sync metadata) is recorded for every configuration, and a
// sweep of changes requests is issued through MultiChangesFeed in every configuration: for a group (requester,
// requested channels, active_only) the answer from the beginning, answers from later positions (position tokens
// are rendered as strings and parsed back, compound low::seq forms included), limited answers, and page-through
// chains resumed from each handed-out last_seq string.  No property is asserted here - the oracle is
// Trace_Changes.tla.

import (
	"context"
	"fmt"
	"math/rand"
	"sort"
	"sync"
	"testing"
	"time"

	"github.com/couchbase/sync_gateway/auth"
	"github.com/couchbase/sync_gateway/base"
	"github.com/couchbase/sync_gateway/channels"
)

type vC01bStep struct {
	A     string   `json:"a"`
	Doc   string   `json:"doc"`
	Chans []string `json:"chans"`
	// second channel set of a "Coalesced" pair of updates
	Chans2 []string `json:"chans2"`
}
type vC01bBeh struct {
	Grants map[string][]string `json:"grants"`
	Steps  []vC01bStep         `json:"steps"`
}

type vC01bCfg struct {
	name  string
	db    *Database
	ctx   context.Context
	col   *DatabaseCollection
	users map[string]auth.User
}

type vC01bHarness struct {
	t       *testing.T
	cfgs    []*vC01bCfg
	docs    []string
	revs    map[string][]string // winning branch, newest first
	counter int
	lastSeq uint64
}

var vC01bCfgNames = []string{"warm", "cold", "len1", "bypass"}

func vC01bNewCfg(t *testing.T, name string, grants map[string][]string) *vC01bCfg {
	co := DefaultCacheOptions()
	switch name {
	case "len1":
		co.ChannelCacheOptions.ChannelCacheMaxLength = 1
		co.ChannelCacheOptions.ChannelCacheMinLength = 1
	case "bypass":
		co.ChannelCacheOptions.MaxNumChannels = 1
	}
	db, ctx := SetupTestDBWithOptions(t, DatabaseContextOptions{CacheOptions: &co, AllowConflicts: base.Ptr(true)})
	col := GetSingleDatabaseCollection(t, db.DatabaseContext)
	col.ChannelMapper = channels.NewChannelMapper(ctx, channels.DocChannelsSyncFunction, db.Options.JavascriptTimeout)
	c := &vC01bCfg{name: name, db: db, ctx: ctx, col: col, users: map[string]auth.User{}}
	a := db.Authenticator(ctx)
	names := make([]string, 0, len(grants))
	for n := range grants {
		names = append(names, n)
	}
	sort.Strings(names)
	for _, n := range names {
		u, err := a.NewUser(n, "", base.SetFromArray(grants[n]))
		if err != nil {
			t.Fatalf("VERIF-FATAL NewUser: %v", err)
		}
		if err := a.Save(u); err != nil {
			t.Fatalf("VERIF-FATAL Save user: %v", err)
		}
	}
	return c
}

func (c *vC01bCfg) withUser(t *testing.T, name string) *DatabaseCollectionWithUser {
	if name == "admin" {
		return &DatabaseCollectionWithUser{DatabaseCollection: c.col}
	}
	u, err := c.db.Authenticator(c.ctx).GetUser(name)
	if err != nil || u == nil {
		t.Fatalf("VERIF-FATAL GetUser %s: %v", name, err)
	}
	return &DatabaseCollectionWithUser{DatabaseCollection: c.col, user: u}
}

// waitCached blocks until the change cache has processed seq (polling; nothing else is running)
func (c *vC01bCfg) waitCached(t *testing.T, seq uint64) {
	deadline := time.Now().Add(20 * time.Second)
	for {
		if c.db.changeCache.getNextSequence() > seq && c.db.changeCache.getChannelCache().GetHighCacheSequence() >= seq {
			return
		}
		if time.Now().After(deadline) {
			t.Fatalf("VERIF-FATAL cache of %s did not reach sequence %d", c.name, seq)
		}
		time.Sleep(100 * time.Microsecond)
	}
}

func (c *vC01bCfg) adminView(t *testing.T, docs []string) []vObj {
	out := []vObj{}
	for _, id := range docs {
		doc, err := c.col.GetDocument(c.ctx, id, DocUnmarshalAll)
		if err != nil || doc == nil {
			if base.IsDocNotFoundError(err) {
				out = append(out, vObj{"doc": id, "seq": 0, "rev": "", "chans": []string{}, "del": false, "rem": []vObj{}})
				continue
			}
			t.Fatalf("VERIF-FATAL GetDocument %s: %v", id, err)
		}
		chans := []string{}
		rem := []vObj{}
		names := doc.Channels.KeySet()
		sort.Strings(names)
		for _, ch := range names {
			r := doc.Channels[ch]
			if r == nil {
				chans = append(chans, ch)
			} else {
				rem = append(rem, vObj{"ch": ch, "seq": int(r.Seq), "rev": r.Rev.RevTreeID, "del": r.Deleted})
			}
		}
		out = append(out, vObj{"doc": id, "seq": int(doc.Sequence), "rev": doc.GetRevTreeID(), "chans": chans, "del": doc.IsDeleted(), "rem": rem})
	}
	return out
}

// one changes request, the way rest/changes_api.go sendSimpleChanges consumes the feed
func (c *vC01bCfg) request(t *testing.T, col *DatabaseCollectionWithUser, req []string, sinceStr string, lim int, ao bool) vObj {
	since, err := ParsePlainSequenceID(sinceStr)
	if err != nil {
		t.Fatalf("VERIF-FATAL since %q does not parse: %v", sinceStr, err)
	}
	opts := ChangesOptions{Since: since, Limit: lim, ActiveOnly: ao, ChangesCtx: c.ctx}
	feed, err := col.MultiChangesFeed(c.ctx, base.SetFromArray(req), opts)
	if err != nil {
		t.Fatalf("VERIF-FATAL MultiChangesFeed: %v", err)
	}
	rows := []vObj{}
	last := since
	if feed != nil {
		for e := range feed {
			if e == nil {
				continue
			}
			if e.Err != nil {
				t.Fatalf("VERIF-FATAL feed error: %v", e.Err)
			}
			rev := ""
			if len(e.Changes) > 0 {
				rev = e.Changes[0][ChangesVersionTypeRevTreeID]
			}
			removed := e.Removed.ToArray()
			sort.Strings(removed)
			rows = append(rows, vObj{"seq": e.Seq.String(), "tok": []int{int(e.Seq.LowSeq), int(e.Seq.TriggeredBy), int(e.Seq.Seq)},
				"doc": e.ID, "rev": rev, "removed": removed, "del": e.Deleted})
			last = e.Seq
		}
	}
	return vObj{"rows": rows, "last": last.String(), "lastTok": []int{int(last.LowSeq), int(last.TriggeredBy), int(last.Seq)}}
}

// quiet = the change cache's feed processing is switched off while the mutation passes (EnableChannelIndexing(false)), which is
// how the feed's de-duplication of two quick updates looks to the change cache: it never sees this mutation and learns the
// sequence from recent_sequences of the next one
func (h *vC01bHarness) write(st vC01bStep, quiet bool) {
	t := h.t
	h.counter++
	var wantSeq uint64
	cur := h.revs[st.Doc]
	var firstRev string
	for _, c := range h.cfgs {
		col := &DatabaseCollectionWithUser{DatabaseCollection: c.col}
		var newRev string
		var doc *Document
		var err error
		var received int64
		if quiet {
			received = c.db.DbStats.Database().DCPReceivedCount.Value()
			c.db.changeCache.EnableChannelIndexing(false)
		}
		switch st.A {
		case "Put":
			body := Body{"channels": st.Chans, "k": h.counter}
			if len(cur) > 0 {
				body[BodyRev] = cur[0]
			}
			newRev, doc, err = col.Put(c.ctx, st.Doc, body)
		case "Delete":
			newRev, doc, err = col.DeleteDoc(c.ctx, st.Doc, DocVersion{RevTreeID: cur[0]})
		case "Conflict", "ConflictWin":
			gen, _ := ParseRevID(c.ctx, cur[0])
			digest := "00000000000000000000000000000000"
			if st.A == "ConflictWin" {
				digest = "ffffffffffffffffffffffffffffffff"
			}
			newRev = fmt.Sprintf("%d-%s", gen, digest)
			history := append([]string{newRev}, cur[1:]...)
			body := Body{"channels": st.Chans, "k": h.counter}
			doc, _, err = col.PutExistingRevWithBody(c.ctx, st.Doc, body, history, false, ExistingVersionWithUpdateToHLV)
		default:
			t.Fatalf("VERIF-FATAL unknown write %q", st.A)
		}
		if quiet {
			deadline := time.Now().Add(20 * time.Second)
			for err == nil && c.db.DbStats.Database().DCPReceivedCount.Value() <= received {
				if time.Now().After(deadline) {
					t.Fatalf("VERIF-FATAL the suppressed mutation of %s never passed the feed of %s", st.Doc, c.name)
				}
				time.Sleep(100 * time.Microsecond)
			}
			c.db.changeCache.EnableChannelIndexing(true)
		}
		if err != nil || doc == nil {
			t.Fatalf("VERIF-FATAL %s %s on %s: %v", st.A, st.Doc, c.name, err)
		}
		if c == h.cfgs[0] {
			wantSeq, firstRev = doc.Sequence, newRev
		} else if doc.Sequence != wantSeq || newRev != firstRev {
			t.Fatalf("VERIF-FATAL configurations diverge: %s got sequence %d rev %s, %s got %d %s", h.cfgs[0].name, wantSeq, firstRev, c.name, doc.Sequence, newRev)
		}
		if !quiet {
			c.waitCached(t, doc.Sequence)
		}
	}
	switch st.A {
	case "Put", "Delete":
		h.revs[st.Doc] = append([]string{firstRev}, cur...)
	case "ConflictWin":
		h.revs[st.Doc] = append([]string{firstRev}, cur[1:]...)
	}
	h.lastSeq = wantSeq
}

type vC01bGroup struct {
	U   string
	Req []string
	Ao  bool
}

func TestVerif_C01_Changes(t *testing.T) {
	var behs []vC01bBeh
	vReadJSON(t, "VERIF_BEH_B", &behs)
	tw := vOpenTrace(t, "VERIF_TRACE_OUT_B")
	defer tw.Close()
	// the four databases must hand out the same sequences: pin the allocator's batch size to 1 (no reserved-then-released
	// sequences, whose number depends on wall-clock gaps between writes)
	defer SuspendSequenceBatching()()
	rnd := vRand()
	midGroups := vEnvInt("VERIF_C01_MID_GROUPS", 3)
	finalGroups := vEnvInt("VERIF_C01_FINAL_GROUPS", 12)
	reqSets := [][]string{{"*"}, {"A"}, {"B"}, {"C"}, {"A", "B"}, {"A", "C"}, {"B", "C"}, {"A", "B", "C"}}
	var tSetup, tWrite, tView, tReq time.Duration
	nReq := 0

	epochLen := vEnvInt("VERIF_C01_EPOCH", 8)
	var h *vC01bHarness
	var groups []vC01bGroup
	inEpoch, epochKey := 0, ""
	closeEpoch := func() {
		if h != nil {
			for _, c := range h.cfgs {
				c.db.Close(c.ctx)
			}
			h = nil
		}
	}
	defer closeEpoch()
	for bi, b := range behs {
		// an epoch = several behaviours (with document names of their own) run one after the other on the same four
		// databases: the behaviours of an epoch have the same grants (the python driver sorts them)
		key := fmt.Sprint(b.Grants)
		if h == nil || inEpoch >= epochLen || key != epochKey {
			closeEpoch()
			t0 := time.Now()
			h = &vC01bHarness{t: t, revs: map[string][]string{}}
			for _, n := range vC01bCfgNames {
				h.cfgs = append(h.cfgs, vC01bNewCfg(t, n, b.Grants))
			}
			tSetup += time.Since(t0)
			inEpoch, epochKey = 0, key
			requesters := []string{"admin"}
			for n := range b.Grants {
				requesters = append(requesters, n)
			}
			sort.Strings(requesters)
			groups = nil
			for _, u := range requesters {
				for _, rs := range reqSets {
					for _, ao := range []bool{false, true} {
						groups = append(groups, vC01bGroup{u, rs, ao})
					}
				}
			}
			tw.Emit(vObj{"a": "Reset", "beh": bi, "grants": b.Grants, "cfgs": vC01bCfgNames})
		}
		inEpoch++
		// documents of this behaviour
		docSet := map[string]bool{}
		for i := range b.Steps {
			b.Steps[i].Doc = fmt.Sprintf("%s_%d", b.Steps[i].Doc, bi)
			docSet[b.Steps[i].Doc] = true
		}
		h.docs = nil
		for d := range docSet {
			h.docs = append(h.docs, d)
		}
		sort.Strings(h.docs)
		tw.Emit(vObj{"a": "Begin", "beh": bi, "docs": h.docs})

		// per-configuration payloads; one identical to the first configuration's is logged as {"eq":true}
		each := func(f func(c *vC01bCfg) vObj) []vObj {
			out := make([]vObj, 0, len(h.cfgs))
			first := ""
			for i, c := range h.cfgs {
				o := f(c)
				o["eq"] = false
				js := fmt.Sprint(o)
				if i == 0 {
					first = js
				} else if js == first {
					o = vObj{"eq": true}
				}
				out = append(out, o)
			}
			return out
		}
		// a request in every configuration; the cold one starts from an empty cache each time
		ask := func(g vC01bGroup, since string, lim int) []vObj {
			nReq++
			return each(func(c *vC01bCfg) vObj {
				if c.name == "cold" {
					if err := c.db.changeCache.Clear(c.ctx); err != nil {
						t.Fatalf("VERIF-FATAL Clear: %v", err)
					}
				}
				return c.request(t, c.withUser(t, g.U), g.Req, since, lim, g.Ao)
			})
		}
		sweep := func(n int) {
			t1 := time.Now()
			for _, c := range h.cfgs {
				if c.name == "cold" {
					c.db.FlushChannelCache(t)
				}
			}
			perm := rnd.Perm(len(groups))
			if n > len(perm) {
				n = len(perm)
			}
			top := int(h.lastSeq)
			for _, gi := range perm[:n] {
				g := groups[gi]
				hdr := func(a string) vObj { return vObj{"a": a, "u": g.U, "req": g.Req, "ao": g.Ao} }
				o := hdr("Base")
				o["resp"] = ask(g, "0", 0)
				tw.Emit(o)
				// later positions: two plain ones and one compound low::seq form
				for i := 0; i < 3 && top > 0; i++ {
					s := 1 + rnd.Intn(top)
					since, tok := fmt.Sprint(s), []int{0, 0, s}
					if i == 2 && s > 1 {
						low := 1 + rnd.Intn(s-1)
						since, tok = fmt.Sprintf("%d::%d", low, s), []int{low, 0, s}
					}
					lim := []int{0, 0, 1, 2}[rnd.Intn(4)]
					o := hdr("Since")
					o["since"], o["tok"], o["lim"], o["resp"] = since, tok, lim, ask(g, since, lim)
					tw.Emit(o)
				}
				// page through with limit k, resuming from each handed-out last_seq STRING
				k := 1 + rnd.Intn(2)
				start := 0
				if top > 1 && rnd.Intn(2) == 0 {
					start = rnd.Intn(top)
				}
				pages := each(func(c *vC01bCfg) vObj {
					col := c.withUser(t, g.U)
					since := fmt.Sprint(start)
					ps := []vObj{}
					for guard := 0; guard < top+3; guard++ {
						if c.name == "cold" {
							_ = c.db.changeCache.Clear(c.ctx)
						}
						nReq++
						p := c.request(t, col, g.Req, since, k, g.Ao)
						ps = append(ps, p)
						if len(p["rows"].([]vObj)) < k {
							break
						}
						since = p["last"].(string)
					}
					return vObj{"pages": ps}
				})
				o = hdr("Pages")
				o["since"], o["tok"], o["k"], o["resp"] = fmt.Sprint(start), []int{0, 0, start}, k, pages
				tw.Emit(o)
			}
			tReq += time.Since(t1)
		}

		if inEpoch == 1 {
			sweep(midGroups) // creates live caches of the warm / len1 / bypass configurations before any write
		}
		for si, st := range b.Steps {
			if st.Chans == nil {
				st.Chans = []string{}
			}
			parts := []vC01bStep{st}
			if st.A == "Coalesced" {
				// two updates; the first one's mutation never reaches the change caches
				parts = []vC01bStep{{A: "Put", Doc: st.Doc, Chans: st.Chans}, {A: "Put", Doc: st.Doc, Chans: append([]string{}, st.Chans2...)}}
			}
			for pi, ps := range parts {
				t1 := time.Now()
				h.write(ps, st.A == "Coalesced" && pi == 0)
				tWrite += time.Since(t1)
				t1 = time.Now()
				views := each(func(c *vC01bCfg) vObj { return vObj{"docs": c.adminView(t, h.docs)} })
				tView += time.Since(t1)
				tw.Emit(vObj{"a": "Write", "op": ps.A, "doc": ps.Doc, "chans": ps.Chans, "seq": int(h.lastSeq), "views": views, "quiet": st.A == "Coalesced" && pi == 0})
			}
			if si == len(b.Steps)-1 {
				sweep(finalGroups)
			} else {
				sweep(midGroups)
			}
		}
	}
	fmt.Printf("VERIF-TIMING C01 changes: behaviours=%d setup=%v write=%v view=%v requests=%v (%d requests x 4 configurations)\n", len(behs), tSetup, tWrite, tView, tReq, nReq)
}

// ---------------------------------------------------------------------------------------------------------------
// Continuous feeds racing with writers (the "eventually" clause).  Writers (one goroutine per pair of documents, so no
// write conflicts) create / move / delete / resurrect while continuous feeds are open; after the writers stop every feed
// is listened to until it has been silent for 1.5 s (150 broadcast intervals of 10 ms).  The
// harness only decides when to stop listening; whether the final revision of every visible document was delivered is
// evaluated by TLC (Trace_Changes: REventually) on the recorded rows against the recorded final admin view.  The
// reproduce-twice rule is applied by checks/C01.py (a miss is only reported if a second run misses too).
// ---------------------------------------------------------------------------------------------------------------
type vC01cFeed struct {
	u      string
	req    []string
	mu     sync.Mutex
	rows   []vObj
	have   map[string]string // doc -> last rev delivered
	cancel context.CancelFunc
	done   chan struct{}
}

func vC01cRun(t *testing.T, rnd *rand.Rand, round int) (lines []vObj) {
	grants := map[string][]string{"alice": {"A", "B"}, "bob": {"*"}}
	co := DefaultCacheOptions()
	co.BroadcastChangesInterval = 10 * time.Millisecond
	db, ctx := SetupTestDBWithOptions(t, DatabaseContextOptions{CacheOptions: &co})
	defer db.Close(ctx)
	col := GetSingleDatabaseCollection(t, db.DatabaseContext)
	col.ChannelMapper = channels.NewChannelMapper(ctx, channels.DocChannelsSyncFunction, db.Options.JavascriptTimeout)
	c := &vC01bCfg{name: "warm", db: db, ctx: ctx, col: col}
	a := db.Authenticator(ctx)
	for _, n := range []string{"alice", "bob"} {
		u, err := a.NewUser(n, "", base.SetFromArray(grants[n]))
		if err != nil || a.Save(u) != nil {
			t.Fatalf("VERIF-FATAL user %s: %v", n, err)
		}
	}
	lines = append(lines, vObj{"a": "Reset", "beh": round, "grants": grants, "cfgs": []string{"warm"}})
	nWriters, perWriter := 3, 10
	docs := []string{}
	for w := 0; w < nWriters; w++ {
		docs = append(docs, fmt.Sprintf("w%d_a_%d", w, round), fmt.Sprintf("w%d_b_%d", w, round))
	}
	sort.Strings(docs)
	lines = append(lines, vObj{"a": "Begin", "beh": round, "docs": docs})

	feeds := []*vC01cFeed{{u: "alice", req: []string{"*"}}, {u: "bob", req: []string{"*"}}, {u: "admin", req: []string{"A", "C"}}, {u: "alice", req: []string{"B"}}}
	for _, f := range feeds {
		f.have, f.done = map[string]string{}, make(chan struct{})
		fctx, cancel := context.WithCancel(ctx)
		f.cancel = cancel
		opts := ChangesOptions{Since: SequenceID{}, Continuous: true, Wait: true, ChangesCtx: fctx}
		ch, err := c.withUser(t, f.u).MultiChangesFeed(fctx, base.SetFromArray(f.req), opts)
		if err != nil || ch == nil {
			t.Fatalf("VERIF-FATAL continuous feed: %v", err)
		}
		go func(f *vC01cFeed) {
			defer close(f.done)
			for e := range ch {
				if e == nil || e.Err != nil {
					continue
				}
				rev := ""
				if len(e.Changes) > 0 {
					rev = e.Changes[0][ChangesVersionTypeRevTreeID]
				}
				removed := e.Removed.ToArray()
				sort.Strings(removed)
				f.mu.Lock()
				f.rows = append(f.rows, vObj{"seq": e.Seq.String(), "tok": []int{int(e.Seq.LowSeq), int(e.Seq.TriggeredBy), int(e.Seq.Seq)},
					"doc": e.ID, "rev": rev, "removed": removed, "del": e.Deleted})
				f.have[e.ID] = rev
				f.mu.Unlock()
			}
		}(f)
	}
	// writers
	var wg sync.WaitGroup
	sets := [][]string{{}, {"A"}, {"B"}, {"C"}, {"A", "B"}, {"B", "C"}}
	for w := 0; w < nWriters; w++ {
		wg.Add(1)
		go func(w int, r *rand.Rand) {
			defer wg.Done()
			wc := &DatabaseCollectionWithUser{DatabaseCollection: col}
			revs := map[string]string{}
			dead := map[string]bool{}
			mine := []string{fmt.Sprintf("w%d_a_%d", w, round), fmt.Sprintf("w%d_b_%d", w, round)}
			for i := 0; i < perWriter; i++ {
				d := mine[r.Intn(2)]
				if revs[d] != "" && !dead[d] && r.Intn(5) == 0 {
					rev, _, err := wc.DeleteDoc(ctx, d, DocVersion{RevTreeID: revs[d]})
					if err != nil {
						t.Errorf("VERIF-FATAL delete %s: %v", d, err)
						return
					}
					revs[d], dead[d] = rev, true
					continue
				}
				body := Body{"channels": sets[r.Intn(len(sets))], "k": i}
				if revs[d] != "" {
					body[BodyRev] = revs[d]
				}
				rev, _, err := wc.Put(ctx, d, body)
				if err != nil {
					t.Errorf("VERIF-FATAL put %s: %v", d, err)
					return
				}
				revs[d], dead[d] = rev, false
			}
		}(w, rand.New(rand.NewSource(rnd.Int63())))
	}
	wg.Wait()
	view := c.adminView(t, docs)
	lines = append(lines, vObj{"a": "View", "views": []vObj{{"eq": false, "docs": view}}})
	// listen until the feeds have been silent for 1.5 s (150 broadcast intervals), at most 15 s
	count := func() int {
		n := 0
		for _, f := range feeds {
			f.mu.Lock()
			n += len(f.rows)
			f.mu.Unlock()
		}
		return n
	}
	deadline := time.Now().Add(15 * time.Second)
	last, lastChange := count(), time.Now()
	for time.Now().Before(deadline) && time.Since(lastChange) < 1500*time.Millisecond {
		time.Sleep(10 * time.Millisecond)
		if n := count(); n != last {
			last, lastChange = n, time.Now()
		}
	}
	for _, f := range feeds {
		f.cancel()
		name := f.u
		if name == "admin" {
			name = ""
		}
		db.DatabaseContext.NotifyTerminatedChanges(ctx, name)
	}
	for _, f := range feeds {
		select {
		case <-f.done:
		case <-time.After(5 * time.Second):
			// a feed parked in Wait is woken by the termination notification; do not hang the harness on it
		}
		f.mu.Lock()
		lines = append(lines, vObj{"a": "Cont", "u": f.u, "req": f.req, "ao": false, "resp": []vObj{{"eq": false, "rows": append([]vObj{}, f.rows...)}}})
		f.mu.Unlock()
	}
	return lines
}

// ---------------------------------------------------------------------------------------------------------------
// Continuous feed over a change cache that is fed OUT OF ORDER.  Documents are written directly into the bucket with
// chosen sequences (WriteDirect), leaving gaps: the change cache skips the missing sequences after CachePendingSeqMaxWait
// (5 ms) and the documents written later with those sequences arrive late (late-sequence feeds, compound low::seq
// tokens).  A continuous feed of a user with two channels is open all the time.  Each group of six sequences b+1..b+6:
// b+1, b+2, b+5, b+6 first; once the feed has delivered b+6 and finished that iteration, b+3 and b+4 arrive late, back
// to back (broadcast interval 400 ms, so that they are normally picked up by the same iteration), in a seeded shape:
// highest first or lowest first, the lower one in both channels and the higher one in one.  The rows are logged per
// iteration of the feed (split at its "caught up" markers); order within an iteration, no repeated entry, soundness and
// eventual completeness are evaluated by TLC (Trace_Changes: RLateOrdered, RLateNoDup, RLateSound, REventually).
// ---------------------------------------------------------------------------------------------------------------
func vC01cLate(t *testing.T, rnd *rand.Rand, round int) (lines []vObj) {
	grants := map[string][]string{"alice": {"A", "B"}, "bob": {"B"}}
	co := DefaultCacheOptions()
	co.CachePendingSeqMaxWait = 5 * time.Millisecond
	co.CachePendingSeqMaxNum = 50
	co.CacheSkippedSeqMaxWait = 2 * time.Minute
	interval := 400 * time.Millisecond
	co.BroadcastChangesInterval = interval
	co.SkippedSequenceBroadcastInterval = interval
	db, ctx := SetupTestDBWithOptions(t, DatabaseContextOptions{CacheOptions: &co})
	defer db.Close(ctx)
	col := GetSingleDatabaseCollection(t, db.DatabaseContext)
	c := &vC01bCfg{name: "warm", db: db, ctx: ctx, col: col}
	a := db.Authenticator(ctx)
	for _, n := range []string{"alice", "bob"} {
		u, err := a.NewUser(n, "", base.SetFromArray(grants[n]))
		if err != nil || a.Save(u) != nil {
			t.Fatalf("VERIF-FATAL user %s: %v", n, err)
		}
	}
	lines = append(lines, vObj{"a": "Reset", "beh": round, "grants": grants, "cfgs": []string{"warm"}})

	var mu sync.Mutex
	var iters [][]vObj
	var cur []vObj
	lastRow := time.Now()
	fctx, cancel := context.WithCancel(ctx)
	opts := ChangesOptions{Since: SequenceID{}, Continuous: true, Wait: true, ChangesCtx: fctx}
	ch, err := c.withUser(t, "alice").MultiChangesFeed(fctx, base.SetOf("*"), opts)
	if err != nil || ch == nil {
		t.Fatalf("VERIF-FATAL continuous feed: %v", err)
	}
	done := make(chan struct{})
	go func() {
		defer close(done)
		for e := range ch {
			mu.Lock()
			if e == nil {
				if len(cur) > 0 {
					iters = append(iters, cur)
					cur = nil
				}
			} else if e.Err == nil {
				rev := ""
				if len(e.Changes) > 0 {
					rev = e.Changes[0][ChangesVersionTypeRevTreeID]
				}
				removed := e.Removed.ToArray()
				sort.Strings(removed)
				cur = append(cur, vObj{"seq": e.Seq.String(), "tok": []int{int(e.Seq.LowSeq), int(e.Seq.TriggeredBy), int(e.Seq.Seq)},
					"doc": e.ID, "rev": rev, "removed": removed, "del": e.Deleted})
				lastRow = time.Now()
			}
			mu.Unlock()
		}
	}()
	// has the feed delivered sequence n and finished that iteration?
	settled := func(n uint64) bool {
		mu.Lock()
		defer mu.Unlock()
		if len(cur) > 0 {
			return false
		}
		for _, it := range iters {
			for _, r := range it {
				if uint64(r["tok"].([]int)[2]) == n {
					return true
				}
			}
		}
		return false
	}
	waitFor := func(what string, cond func() bool) {
		deadline := time.Now().Add(20 * time.Second)
		for !cond() {
			if time.Now().After(deadline) {
				t.Fatalf("VERIF-FATAL late-arrival run: timed out waiting for %s", what)
			}
			time.Sleep(2 * time.Millisecond)
		}
	}
	groups := vEnvInt("VERIF_C01_LATE_GROUPS", 3)
	docs := []string{}
	for g := 0; g < groups; g++ {
		b := uint64(6 * g)
		for _, w := range []struct {
			n  uint64
			ch []string
		}{{1, []string{"A"}}, {2, []string{"A", "B"}}, {5, []string{"A", "B"}}, {6, []string{"A"}}} {
			WriteDirect(t, col, w.ch, b+w.n)
		}
		waitFor("the change cache to skip the gap", func() bool { return db.changeCache.getNextSequence() > b+6 })
		waitFor("the feed to deliver the in-order documents", func() bool { return settled(b + 6) })
		// the skipped sequences arrive late
		both, one := []string{"A", "B"}, []string{[]string{"A", "B"}[rnd.Intn(2)]}
		switch (g + int(vSeed())) % 3 {
		case 0, 1: // highest first; the lower document is in both channels, the higher one in one
			WriteDirect(t, col, one, b+4)
			WriteDirect(t, col, both, b+3)
		default: // lowest first
			WriteDirect(t, col, both, b+3)
			WriteDirect(t, col, one, b+4)
		}
		start := time.Now()
		waitFor("the feed to fall silent", func() bool {
			mu.Lock()
			defer mu.Unlock()
			return time.Since(start) > 3*interval && time.Since(lastRow) > 2*interval
		})
		for n := uint64(1); n <= 6; n++ {
			docs = append(docs, fmt.Sprintf("doc-%d", b+n))
		}
	}
	sort.Strings(docs)
	lines = append(lines, vObj{"a": "Begin", "beh": round, "docs": docs})
	lines = append(lines, vObj{"a": "View", "views": []vObj{{"eq": false, "docs": c.adminView(t, docs)}}})
	cancel()
	db.DatabaseContext.NotifyTerminatedChanges(ctx, "alice")
	select {
	case <-done:
	case <-time.After(5 * time.Second):
	}
	mu.Lock()
	if len(cur) > 0 {
		iters = append(iters, cur)
	}
	pages := []vObj{}
	for _, it := range iters {
		pages = append(pages, vObj{"rows": it})
	}
	mu.Unlock()
	lines = append(lines, vObj{"a": "Late", "u": "alice", "req": []string{"*"}, "ao": false, "resp": []vObj{{"eq": false, "pages": pages}}})
	return lines
}

// ---------------------------------------------------------------------------------------------------------------
// Continuous feed of a user whose access comes through ROLES, while the roles change.  alice holds role r1 (channel R1); a
// continuous feed is opened as alice; the admin swaps r1 -> r2 in ONE user update (same number of roles); once the feed
// has processed that and waits again, r2 is granted channel X (which already holds x1) and x2 is written to X afterwards.
// The open connection must deliver x1 and x2 without being re-issued: REventually on its rows against the final admin
// view with alice's final access {X} (listened to until 1.5 s of silence, bound 15 s; reproduce-twice in checks/C01.py).
// ---------------------------------------------------------------------------------------------------------------
func vC01cRoles(t *testing.T, round int) (lines []vObj) {
	co := DefaultCacheOptions()
	co.BroadcastChangesInterval = 10 * time.Millisecond
	db, ctx := SetupTestDBWithOptions(t, DatabaseContextOptions{CacheOptions: &co, Scopes: GetScopesOptionsDefaultCollectionOnly(t)})
	defer db.Close(ctx)
	col := GetSingleDatabaseCollection(t, db.DatabaseContext)
	col.ChannelMapper = channels.NewChannelMapper(ctx, channels.DocChannelsSyncFunction, db.Options.JavascriptTimeout)
	c := &vC01bCfg{name: "warm", db: db, ctx: ctx, col: col}
	principal := func(cfg auth.PrincipalConfig, isUser bool) {
		if _, _, err := db.UpdatePrincipal(ctx, &cfg, isUser, true); err != nil {
			t.Fatalf("VERIF-FATAL UpdatePrincipal: %v", err)
		}
	}
	r1, r2, alice, pw := "r1", "r2", "alice", "letmein"
	principal(auth.PrincipalConfig{Name: &r1, ExplicitChannels: base.SetOf("R1")}, false)
	principal(auth.PrincipalConfig{Name: &r2}, false)
	principal(auth.PrincipalConfig{Name: &alice, Password: &pw, ExplicitRoleNames: base.SetOf(r1)}, true)
	admin := &DatabaseCollectionWithUser{DatabaseCollection: col}
	put := func(id string, chans []string) {
		_, doc, err := admin.Put(ctx, id, Body{"channels": chans})
		if err != nil {
			t.Fatalf("VERIF-FATAL put %s: %v", id, err)
		}
		c.waitCached(t, doc.Sequence)
	}
	docs := []string{fmt.Sprintf("r1doc_%d", round), fmt.Sprintf("x1_%d", round), fmt.Sprintf("x2_%d", round)}
	put(docs[1], []string{"X"})
	put(docs[0], []string{"R1"})

	f := &vC01cFeed{u: alice, req: []string{"*"}, have: map[string]string{}, done: make(chan struct{})}
	fctx, cancel := context.WithCancel(ctx)
	opts := ChangesOptions{Since: SequenceID{}, Continuous: true, Wait: true, ChangesCtx: fctx}
	ch, err := c.withUser(t, alice).MultiChangesFeed(fctx, base.SetOf("*"), opts)
	if err != nil || ch == nil {
		t.Fatalf("VERIF-FATAL continuous feed: %v", err)
	}
	go func() {
		defer close(f.done)
		for e := range ch {
			if e == nil || e.Err != nil {
				continue
			}
			rev := ""
			if len(e.Changes) > 0 {
				rev = e.Changes[0][ChangesVersionTypeRevTreeID]
			}
			removed := e.Removed.ToArray()
			sort.Strings(removed)
			f.mu.Lock()
			f.rows = append(f.rows, vObj{"seq": e.Seq.String(), "tok": []int{int(e.Seq.LowSeq), int(e.Seq.TriggeredBy), int(e.Seq.Seq)},
				"doc": e.ID, "rev": rev, "removed": removed, "del": e.Deleted})
			f.have[e.ID] = rev
			f.mu.Unlock()
		}
	}()
	waitFor := func(what string, cond func() bool) {
		deadline := time.Now().Add(20 * time.Second)
		for !cond() {
			if time.Now().After(deadline) {
				t.Fatalf("VERIF-FATAL role scenario: timed out waiting for %s", what)
			}
			time.Sleep(2 * time.Millisecond)
		}
	}
	pull := db.DbStats.CBLReplicationPull()
	waitFor("the feed to deliver the R1 document and wait", func() bool {
		f.mu.Lock()
		defer f.mu.Unlock()
		return f.have[docs[0]] != "" && pull.NumPullReplCaughtUp.Value() >= 1
	})
	total := pull.NumPullReplTotalCaughtUp.Value()
	// one update swaps the role; the open request processes the user change and waits again
	principal(auth.PrincipalConfig{Name: &alice, ExplicitRoleNames: base.SetOf(r2)}, true)
	waitFor("the feed to process the role swap", func() bool {
		return pull.NumPullReplTotalCaughtUp.Value() > total && pull.NumPullReplCaughtUp.Value() >= 1
	})
	// the new role gets channel X (x1 is already there), then x2 is written
	principal(auth.PrincipalConfig{Name: &r2, ExplicitChannels: base.SetOf("X")}, false)
	db.WaitForPendingChanges(t)
	put(docs[2], []string{"X"})

	count := func() int {
		f.mu.Lock()
		defer f.mu.Unlock()
		return len(f.rows)
	}
	deadline := time.Now().Add(15 * time.Second)
	last, lastChange := count(), time.Now()
	for time.Now().Before(deadline) && time.Since(lastChange) < 1500*time.Millisecond {
		time.Sleep(10 * time.Millisecond)
		if n := count(); n != last {
			last, lastChange = n, time.Now()
		}
	}
	sort.Strings(docs)
	lines = append(lines, vObj{"a": "Reset", "beh": round, "grants": map[string][]string{"alice": {"X"}}, "cfgs": []string{"warm"}})
	lines = append(lines, vObj{"a": "Begin", "beh": round, "docs": docs})
	lines = append(lines, vObj{"a": "View", "views": []vObj{{"eq": false, "docs": c.adminView(t, docs)}}})
	cancel()
	db.DatabaseContext.NotifyTerminatedChanges(ctx, alice)
	select {
	case <-f.done:
	case <-time.After(5 * time.Second):
	}
	f.mu.Lock()
	lines = append(lines, vObj{"a": "Cont", "u": alice, "req": f.req, "ao": false, "scenario": "role swap then grant to the new role",
		"resp": []vObj{{"eq": false, "rows": append([]vObj{}, f.rows...)}}})
	f.mu.Unlock()
	return lines
}

func TestVerif_C01_Continuous(t *testing.T) {
	tw := vOpenTrace(t, "VERIF_TRACE_OUT_C")
	defer tw.Close()
	rnd := vRand()
	rounds := vEnvInt("VERIF_C01_CONT_ROUNDS", 3)
	for r := 0; r < rounds; r++ {
		for _, l := range vC01cRun(t, rnd, r) {
			tw.Emit(l)
		}
	}
	for r := 0; r < vEnvInt("VERIF_C01_ROLE_ROUNDS", 1); r++ {
		for _, l := range vC01cRoles(t, 200+r) {
			tw.Emit(l)
		}
	}
	for r := 0; r < vEnvInt("VERIF_C01_LATE_ROUNDS", 1); r++ {
		for _, l := range vC01cLate(t, rnd, 100+r) {
			tw.Emit(l)
		}
	}
}
