//go:build verif

package db

// C16 binding (specs/RevCache).  Drives a real LRURevisionCache / RevisionCacheOrchestrator / ShardedLRURevisionCache
// on a scripted backing store and records, after every call (sequential replay) or at quiescence (concurrent driver,
// forced schedules), the REAL cache contents (rc.cache, rc.lruList under rc.lock; each value's body etc., err,
// memState, itemBytes and a recount of the stored content), the REAL gauges and what the call returned.
// No property is evaluated here: TLC evaluates the invariants of specs/RevCache on the recorded lines.
//
// Modes ($VERIF_C16_MODE, comma separated; trace of each mode in $VERIF_TRACE_OUT.<mode>):
//   seq          replay of TLC behaviours ($VERIF_BEH), one whole API call at a time
//   cand         the same for candidate scripts ($VERIF_BEH_CAND) on the bare LRURevisionCache
//   conc         seeded random goroutines, snapshots at quiescence only
//   sched-<name> forced schedule of a candidate race (gate inside the backing store)

import (
	"context"
	"crypto/sha1"
	"encoding/hex"
	"encoding/json"
	"errors"
	"fmt"
	"math/rand"
	"os"
	"runtime"
	"sort"
	"strconv"
	"strings"
	"sync"
	"sync/atomic"
	"testing"
	"time"

	sgbucket "github.com/couchbase/sg-bucket"
	"github.com/couchbase/sync_gateway/base"
)

// ---------------------------------------------------------------------------------------------------------
// scripted backing store
// ---------------------------------------------------------------------------------------------------------

type vC16Call struct {
	gd, gr  int32         // GetDocument / getRevision+getCurrentVersion invocations made by this call
	fail    string        // "ok" | "fd" (GetDocument fails) | "fr" (getRevision / getCurrentVersion fails)
	gate    chan struct{} // if set: GetDocument blocks here (forced schedules)
	after   bool          // the gate is after the document snapshot was taken (the document has been READ) instead of before
	entered chan struct{} // closed when the call is inside GetDocument
	once    sync.Once
}
type vC16CtxKey struct{}

func vC16CallOf(ctx context.Context) *vC16Call {
	if c, ok := ctx.Value(vC16CtxKey{}).(*vC16Call); ok {
		return c
	}
	return &vC16Call{fail: "ok"}
}

const (
	vC16Rev     = "1-abc"
	vC16Missing = "missing"
)

var vC16CV = Version{SourceID: "test", Value: 123}

type vC16Store struct {
	mu   sync.RWMutex
	docs map[string]string // docID -> variant ("c1", "c2") or "missing"
}

func (s *vC16Store) GetDocument(ctx context.Context, docid string, unmarshalLevel DocumentUnmarshalLevel) (*Document, error) {
	call := vC16CallOf(ctx)
	atomic.AddInt32(&call.gd, 1)
	if call.gate != nil && !call.after {
		call.once.Do(func() { close(call.entered) })
		<-call.gate
	}
	if call.fail == "fd" {
		return nil, errors.New("verif: scripted GetDocument failure")
	}
	s.mu.RLock()
	variant, ok := s.docs[docid]
	s.mu.RUnlock()
	if !ok || variant == vC16Missing {
		return nil, ErrMissing
	}
	// the two variants are the SAME revision (body, rev id, version, attachments) in different channels: changing a document
	// from one to the other is the metadata-only channel update of the property (StoreUpdate); the sizes differ by the channel names
	doc := NewDocument(docid)
	doc._body = Body{"m": "v", "variantChannels": true}
	chans := base.SetOf("A")
	if variant == "c2" {
		chans = base.SetOf("A", "BBBBBBBBBBBBBBBBBBBBB")
	}
	doc.SetRevTreeID(vC16Rev)
	doc.History = RevTree{vC16Rev: {}}
	doc.HLV = &HybridLogicalVector{SourceID: vC16CV.SourceID, Version: vC16CV.Value}
	if _, err := doc.updateChannels(ctx, chans); err != nil {
		return nil, err
	}
	if call.gate != nil && call.after { // the snapshot is taken; stall before handing it to the cache
		call.once.Do(func() { close(call.entered) })
		<-call.gate
	}
	return doc, nil
}

func (s *vC16Store) revBody(doc *Document) ([]byte, AttachmentsMeta, base.Set, error) {
	ch, _ := doc.channelsForRevTreeID(doc.GetRevTreeID())
	b, err := base.JSONMarshal(doc._body)
	atts := AttachmentsMeta{"att1": map[string]any{"digest": "sha1-x", "length": 3, "revpos": 1, "stub": true}}
	return b, atts, ch, err
}

func (s *vC16Store) getRevision(ctx context.Context, doc *Document, revid string) ([]byte, AttachmentsMeta, base.Set, error) {
	call := vC16CallOf(ctx)
	atomic.AddInt32(&call.gr, 1)
	if call.fail == "fr" {
		return nil, nil, nil, errors.New("verif: scripted getRevision failure")
	}
	if revid != doc.GetRevTreeID() {
		return nil, nil, nil, ErrMissing
	}
	return s.revBody(doc)
}

func (s *vC16Store) getCurrentVersion(ctx context.Context, doc *Document, cv Version, loadBackup bool) ([]byte, AttachmentsMeta, base.Set, bool, error) {
	call := vC16CallOf(ctx)
	atomic.AddInt32(&call.gr, 1)
	if call.fail == "fr" {
		return nil, nil, nil, false, errors.New("verif: scripted getCurrentVersion failure")
	}
	if err := doc.HasCurrentVersion(ctx, cv); err != nil {
		return nil, nil, nil, false, err
	}
	b, atts, ch, err := s.revBody(doc)
	return b, atts, ch, false, err
}

// ---------------------------------------------------------------------------------------------------------
// projection of a DocumentRevision / cache value into the spec's "content"
// ---------------------------------------------------------------------------------------------------------

var vC16Desc = struct {
	sync.Mutex
	m map[string]string
}{m: map[string]string{}}

// vC16Content serialises everything the property talks about (body, history, channels, deletion flag, attachments; plus
// rev id, cv, hlv history, removed flag, expiry, and whether the doc id is the requested one) and names it by a digest.
func vC16Content(wantDocID string, r DocumentRevision) string {
	if r.BodyBytes == nil {
		return "nil"
	}
	ch := r.Channels.ToArray()
	sort.Strings(ch)
	hist, _ := json.Marshal(r.History)
	att := "{}"
	if len(r.Attachments) > 0 {
		b, _ := json.Marshal(r.Attachments)
		att = string(b)
	}
	cv := ""
	if r.CV != nil {
		cv = r.CV.String()
	}
	exp := ""
	if r.Expiry != nil {
		exp = r.Expiry.String()
	}
	full := fmt.Sprintf("idok=%v|rev=%s|cv=%s|body=%s|ch=%s|del=%v|rem=%v|hist=%s|att=%s|hlv=%s|exp=%s",
		r.DocID == wantDocID, r.RevID, cv, r.BodyBytes, strings.Join(ch, ","), r.Deleted, r.Removed, hist, att, r.HlvHistory, exp)
	h := sha1.Sum([]byte(full))
	name := "x" + hex.EncodeToString(h[:])[:10]
	vC16Desc.Lock()
	vC16Desc.m[name] = full
	vC16Desc.Unlock()
	return name
}

// ---------------------------------------------------------------------------------------------------------
// environment of one behaviour: keys, contents, the cache under test
// ---------------------------------------------------------------------------------------------------------

type vC16Key struct {
	doc  string // model doc name "A".."D"
	ver  string
	isCV bool
}

type vC16Env struct {
	t       *testing.T
	ctx     context.Context
	docIDs  map[string]string  // model doc -> real doc id
	keys    map[string]vC16Key // "k1".."k8"
	keyName map[revCacheKey]string
	store   *vC16Store
	content map[string]string // variant -> content name (fresh load through the bypass cache)
	size    map[string]int64  // variant -> CalculateBytes of the fresh load
	cache   RevisionCache
	lrus    []*LRURevisionCache
	impl    string
	numStat *base.SgwIntStat
	memStat *base.SgwIntStat
}

var vC16Docs = []string{"A", "B", "C", "D"}

// fresh load of (docID, version) from a store in which docID has the given variant - through the real BypassRevisionCache
func vC16Fresh(ctx context.Context, t *testing.T, docID, ver, variant string) DocumentRevision {
	st := &vC16Store{docs: map[string]string{docID: variant}}
	var bypassStat base.SgwIntStat
	bp := NewBypassRevisionCache(map[uint32]RevisionCacheBackingStore{0: st}, &bypassStat)
	r, _, err := bp.Get(ctx, docID, ver, 0, RevCacheDontLoadBackupRev)
	if err != nil {
		t.Fatalf("VERIF-FATAL bypass load of %s/%s variant %s: %v", docID, ver, variant, err)
	}
	return r
}

// newEnv builds the key table (doc ids chosen so that they fall into the wanted shards), the expected contents and the cache.
func vC16NewEnv(t *testing.T, impl string, capItems int, maxBytes int64, storeCfg map[string]string, spread bool) *vC16Env {
	ctx := base.TestCtx(t)
	e := &vC16Env{t: t, ctx: ctx, docIDs: map[string]string{}, keys: map[string]vC16Key{}, keyName: map[revCacheKey]string{},
		content: map[string]string{}, size: map[string]int64{}, impl: impl}
	const shards = 2
	for i, d := range vC16Docs {
		want := uint32(0)
		if spread {
			want = uint32(i % shards)
		}
		for n := 0; ; n++ {
			id := fmt.Sprintf("d%s%03d", d, n)
			if impl != "shard" || sgbucket.VBHash(id, shards) == want {
				e.docIDs[d] = id
				break
			}
		}
		cvk, rvk := fmt.Sprintf("k%d", 2*i+1), fmt.Sprintf("k%d", 2*i+2)
		e.keys[cvk] = vC16Key{doc: d, ver: vC16CV.String(), isCV: true}
		e.keys[rvk] = vC16Key{doc: d, ver: vC16Rev}
		e.keyName[CreateRevisionCacheKey(e.docIDs[d], vC16CV.String(), 0)] = cvk
		e.keyName[CreateRevisionCacheKey(e.docIDs[d], vC16Rev, 0)] = rvk
	}
	// expected contents = what a fresh (bypass) load returns; must not depend on the key kind or the doc (harness assumption)
	for _, variant := range []string{"c1", "c2"} {
		for _, d := range vC16Docs {
			for _, ver := range []string{vC16CV.String(), vC16Rev} {
				r := vC16Fresh(ctx, t, e.docIDs[d], ver, variant)
				c := vC16Content(e.docIDs[d], r)
				r.CalculateBytes()
				if prev, ok := e.content[variant]; ok && (prev != c || e.size[variant] != r.MemoryBytes) {
					t.Fatalf("VERIF-FATAL content of variant %s depends on key: %s vs %s", variant, vC16Desc.m[prev], vC16Desc.m[c])
				}
				e.content[variant], e.size[variant] = c, r.MemoryBytes
			}
		}
	}
	e.store = &vC16Store{docs: map[string]string{}}
	for d, variant := range storeCfg {
		e.store.docs[e.docIDs[d]] = variant
	}
	bs := map[uint32]RevisionCacheBackingStore{0: e.store}
	switch impl {
	case "lru":
		rs := revisionCacheStats{cacheHitStat: &base.SgwIntStat{}, cacheMissStat: &base.SgwIntStat{}, cacheNumItemsStat: &base.SgwIntStat{}, cacheMemoryStat: &base.SgwIntStat{}}
		opts := &RevisionCacheOptions{MaxItemCount: uint32(capItems), MaxBytes: 0}
		rc := NewLRURevisionCache(opts, bs, rs, newCacheMemoryController(0, rs.cacheMemoryStat))
		e.cache, e.lrus, e.numStat, e.memStat = rc, []*LRURevisionCache{rc}, rs.cacheNumItemsStat, rs.cacheMemoryStat
	case "orch", "shard":
		cs := &base.CacheStats{RevisionCacheHits: &base.SgwIntStat{}, RevisionCacheMisses: &base.SgwIntStat{}, RevisionCacheNumItems: &base.SgwIntStat{},
			RevisionCacheTotalMemory: &base.SgwIntStat{}, RevisionCacheBypass: &base.SgwIntStat{}}
		opts := &RevisionCacheOptions{MaxItemCount: uint32(capItems), MaxBytes: maxBytes, ShardCount: 1}
		if impl == "shard" {
			opts.ShardCount, opts.MaxItemCount, opts.MaxBytes = shards, uint32(shards*capItems), int64(shards)*maxBytes
		}
		e.cache = NewRevisionCache(opts, bs, cs, nil, false) // the real factory
		switch c := e.cache.(type) {
		case *RevisionCacheOrchestrator:
			e.lrus = []*LRURevisionCache{c.revisionCache}
		case *ShardedLRURevisionCache:
			for _, o := range c.caches {
				e.lrus = append(e.lrus, o.revisionCache)
			}
		default:
			t.Fatalf("VERIF-FATAL unexpected cache type %T", e.cache)
		}
		e.numStat, e.memStat = cs.RevisionCacheNumItems, cs.RevisionCacheTotalMemory
	default:
		t.Fatalf("VERIF-FATAL unknown impl %q", impl)
	}
	return e
}

// real configuration as the spec's variables: capacity of the shard(s) in use, byte limit, store, content sizes
func (e *vC16Env) resetLine(beh int, mode string, spread bool) vObj {
	capv, mb := 0, int64(0)
	for i, rc := range e.lrus {
		if spread || i == 0 {
			capv += int(rc.capacity)
			if rc.memoryController != nil {
				mb += rc.memoryController.capacity
			}
		}
	}
	st := vObj{}
	for _, d := range vC16Docs {
		st[d] = vC16Missing
		if v, ok := e.store.docs[e.docIDs[d]]; ok && v != vC16Missing {
			st[d] = e.content[v]
		}
	}
	csz := []any{}
	desc := vObj{}
	for _, v := range []string{"c1", "c2"} {
		csz = append(csz, []any{e.content[v], e.size[v]})
		desc[v] = vC16Desc.m[e.content[v]]
	}
	return vObj{"a": "Reset", "beh": beh, "mode": mode, "impl": e.impl, "cap": capv, "maxBytes": mb, "store": st, "csz": csz, "desc": desc}
}

var vC16MS = map[int32]string{memStateLoading: "L", memStateSized: "S", memStateRemoved: "R"}

// snapshot of the real cache: values numbered front-to-back over the LRU list(s), then map-only values
func (e *vC16Env) snap() vObj {
	for _, rc := range e.lrus {
		rc.lock.Lock()
	}
	defer func() {
		for _, rc := range e.lrus {
			rc.lock.Unlock()
		}
	}()
	ids := map[*revCacheValue]int{}
	vals := []any{}
	lru := []int{}
	add := func(v *revCacheValue) int {
		if id, ok := ids[v]; ok {
			return id
		}
		id := len(vals) + 1
		ids[v] = id
		v.lock.RLock()
		dr, _ := v.asDocumentRevision(nil)
		hasErr := v.err != nil
		v.lock.RUnlock()
		c := vC16Content(v.itemKey.docID, dr)
		cb := int64(0)
		if c != "nil" {
			dr.CalculateBytes()
			cb = dr.MemoryBytes
		}
		kn, ok := e.keyName[v.itemKey]
		if !ok {
			e.t.Fatalf("VERIF-FATAL cache holds a key the harness never used: %+v", v.itemKey)
		}
		vals = append(vals, vObj{"key": kn, "c": c, "e": hasErr, "ms": vC16MS[v.memState.Load()], "b": v.itemBytes.Load(), "cb": cb})
		return id
	}
	mp := [][]any{}
	for _, rc := range e.lrus {
		for el := rc.lruList.Front(); el != nil; el = el.Next() {
			lru = append(lru, add(el.Value.(*revCacheValue)))
		}
	}
	for _, rc := range e.lrus {
		for k, el := range rc.cache {
			kn, ok := e.keyName[k]
			if !ok {
				e.t.Fatalf("VERIF-FATAL cache maps a key the harness never used: %+v", k)
			}
			mp = append(mp, []any{kn, add(el.Value.(*revCacheValue))})
		}
	}
	sort.Slice(mp, func(i, j int) bool { return mp[i][0].(string) < mp[j][0].(string) })
	return vObj{"vals": vals, "lru": lru, "map": mp, "numItems": e.numStat.Value(), "total": e.memStat.Value()}
}

type vC16Step struct {
	T  string `json:"t"`
	Op string `json:"op"`
	K  string `json:"k"`
	C  string `json:"c"`
	F  string `json:"f"`
}

// contentArg maps the behaviour's variant name to the content name (Begin lines carry spec-level contents)
func (e *vC16Env) contentArg(c string) string {
	if n, ok := e.content[c]; ok {
		return n
	}
	return "nil"
}

func (e *vC16Env) beginLine(s vC16Step) vObj {
	return vObj{"a": "Begin", "t": s.T, "op": s.Op, "k": s.K, "c": e.contentArg(s.C), "f": s.F}
}

// exec runs one API call on the real cache and returns the End line (without snapshot)
func (e *vC16Env) exec(s vC16Step, call *vC16Call) vObj {
	k, ok := e.keys[s.K]
	if !ok {
		e.t.Fatalf("VERIF-FATAL unknown key %q", s.K)
	}
	if call == nil {
		call = &vC16Call{}
	}
	call.fail = s.F
	if call.fail == "" {
		call.fail = "ok"
	}
	ctx := context.WithValue(e.ctx, vC16CtxKey{}, call)
	docID := e.docIDs[k.doc]
	ret, isErr := "nil", false
	switch s.Op {
	case "Get":
		r, _, err := e.cache.Get(ctx, docID, k.ver, 0, RevCacheDontLoadBackupRev)
		if err != nil {
			isErr = true
		} else {
			ret = vC16Content(docID, r)
		}
	case "GetActive":
		r, _, err := e.cache.GetActive(ctx, docID, 0)
		if err != nil {
			isErr = true
		} else {
			ret = vC16Content(docID, r)
		}
	case "Peek":
		if r, found := e.cache.Peek(ctx, docID, k.ver, 0); found {
			ret = vC16Content(docID, r)
		}
	case "Put", "Upsert":
		dr := vC16Fresh(e.ctx, e.t, docID, k.ver, s.C) // the revision a writer of this content would hand over
		var err error
		if s.Op == "Put" {
			err = e.cache.Put(ctx, dr, 0)
		} else {
			err = e.cache.Upsert(ctx, dr, 0)
		}
		if err != nil {
			e.t.Fatalf("VERIF-FATAL %s rejected the revision: %v", s.Op, err)
		}
	case "Remove", "Inval": // Inval: the feed-side Remove (DocChanged) after a metadata-only update
		e.cache.Remove(ctx, docID, k.ver, 0)
	default:
		e.t.Fatalf("VERIF-FATAL unknown op %q", s.Op)
	}
	return vObj{"a": "End", "t": s.T, "op": s.Op, "k": s.K, "c": ret, "err": isErr, "gd": atomic.LoadInt32(&call.gd), "gr": atomic.LoadInt32(&call.gr)}
}

// storeUpdate: the scripted bucket now holds the given variant for the document (same revision, other channels)
func (e *vC16Env) storeUpdate(tw *vTraceWriter, doc, variant string) {
	e.store.mu.Lock()
	e.store.docs[e.docIDs[doc]] = variant
	e.store.mu.Unlock()
	tw.Emit(vObj{"a": "StoreUpdate", "d": doc, "c": e.content[variant]})
}

// byte limit of the behaviour (given in the model's units 3/5) translated to the real sizes r1 < r2 so that the
// same combinations fit
func (e *vC16Env) realMaxBytes(mb int) int64 {
	return vC16RealMaxBytes(mb, e.size["c1"], e.size["c2"])
}
func vC16RealMaxBytes(mb int, r1, r2 int64) int64 {
	h := (r2 - r1) / 2
	switch {
	case mb <= 0:
		return 0
	case mb < 3:
		return r1 / 2
	case mb < 5:
		return r1 + h // one c1 fits, one c2 does not
	case mb < 6:
		return r2 + (2*r1-r2)/2
	case mb < 8:
		return 2*r1 + h // c1+c1 fits, c1+c2 does not
	case mb < 10:
		return r1 + r2 + h
	default:
		return 2*r2 + h
	}
}

// ---------------------------------------------------------------------------------------------------------
// the test
// ---------------------------------------------------------------------------------------------------------

type vC16Beh struct {
	Cap      any               `json:"cap"`
	MaxBytes any               `json:"maxBytes"`
	Store    map[string]string `json:"store"`
	Steps    []vC16Step        `json:"steps"`
}

func TestVerif_C16_RevCache(t *testing.T) {
	// VERIF_C16_MODE is a comma separated list; every mode writes its own trace file $VERIF_TRACE_OUT.<mode>
	// (one test binary start for all of them: the link of the db test binary dominates the cost).
	outBase := os.Getenv("VERIF_TRACE_OUT")
	if outBase == "" {
		t.Skip("VERIF_TRACE_OUT not set (harness is driven by /verif/bin/vcheck)")
	}
	for _, mode := range strings.Split(os.Getenv("VERIF_C16_MODE"), ",") {
		_ = os.Setenv("VERIF_C16_OUT", outBase+"."+mode)
		tw := vOpenTrace(t, "VERIF_C16_OUT")
		switch {
		case mode == "seq":
			vC16Seq(t, tw, "VERIF_BEH", "")
		case mode == "cand": // candidate sequential scripts, on the bare LRURevisionCache
			vC16Seq(t, tw, "VERIF_BEH_CAND", "lru")
		case mode == "conc":
			vC16Conc(t, tw)
		case strings.HasPrefix(mode, "sched-"):
			vC16Sched(t, tw, strings.TrimPrefix(mode, "sched-"))
		default:
			t.Fatalf("VERIF-FATAL VERIF_C16_MODE=%q", mode)
		}
		tw.Close()
	}
}

// sizes are the same for every environment; computed once to translate byte limits before the cache is built
func vC16Sizes(t *testing.T) (int64, int64) {
	e := vC16NewEnv(t, "lru", 1, 0, map[string]string{}, false)
	return e.size["c1"], e.size["c2"]
}

func vC16Seq(t *testing.T, tw *vTraceWriter, behEnv string, forceImpl string) {
	var behs []vC16Beh
	vReadJSON(t, behEnv, &behs)
	rnd := vRand()
	r1, r2 := vC16Sizes(t)
	for bi, b := range behs {
		mb := vInt(b.MaxBytes)
		impls := []string{"orch", "shard"}
		if mb == 0 {
			impls = []string{"lru", "orch", "shard"}
		}
		impl := impls[rnd.Intn(len(impls))]
		if forceImpl != "" {
			impl = forceImpl
		}
		e := vC16NewEnv(t, impl, vInt(b.Cap), vC16RealMaxBytes(mb, r1, r2), b.Store, false)
		tw.Emit(e.resetLine(bi, "seq", false))
		steps := append([]vC16Step{}, b.Steps...)
		for _, kn := range []string{"k1", "k2", "k3", "k4"} { // drain: the cache must account for itself as empty
			steps = append(steps, vC16Step{T: "t1", Op: "Remove", K: kn, C: "nil", F: "ok"})
		}
		for _, s := range steps {
			if s.Op == "StoreUpdate" {
				e.storeUpdate(tw, s.K, s.C)
				continue
			}
			tw.Emit(e.beginLine(s))
			end := e.exec(s, nil)
			end["S"] = e.snap()
			tw.Emit(end)
		}
	}
}

// vC16G is the id of the calling goroutine (the same value hook H3 records as "g").
func vC16G() uint64 {
	var buf [64]byte
	b := string(buf[:runtime.Stack(buf[:], false)])
	b = strings.TrimPrefix(b, "goroutine ")
	if i := strings.IndexByte(b, ' '); i > 0 {
		if n, err := strconv.ParseUint(b[:i], 10, 64); err == nil {
			return n
		}
	}
	return 0
}

// concurrent randomized driver: G goroutines issue random calls.  All lines go through base.VerifEmit into one stream together
// with the events of hook H3 (if the tree has it): the recorded order of the cache's atomic steps is then the order in which
// they took effect (step-level validation); without the hook only the quiescent snapshots can be judged.
// Environment (the one under which the model proves exact accounting): writers hand over what the bucket holds,
// scripted load failures only on keys that are never written through Put/Upsert.
func vC16Conc(t *testing.T, tw *vTraceWriter) {
	rnd := vRand()
	r1, r2 := vC16Sizes(t)
	runs := vEnvInt("VERIF_C16_RUNS", 40)
	rounds := vEnvInt("VERIF_C16_ROUNDS", 6)
	perRound := vEnvInt("VERIF_C16_CALLS", 12)
	goroutines := vEnvInt("VERIF_C16_G", 4)
	usePeek := os.Getenv("VERIF_C16_NOPEEK") == ""
	base.VerifSetSink(func(ev map[string]any) { tw.Emit(ev) })
	defer base.VerifSetSink(nil)
	emit := func(line vObj) { base.VerifEmit("c16", "H", "line", line) }
	for run := 0; run < runs; run++ {
		impl := []string{"lru", "orch", "orch", "shard"}[rnd.Intn(4)]
		capItems := 1 + rnd.Intn(3)
		mb := []int{0, 0, 4, 6, 9}[rnd.Intn(5)]
		if impl == "lru" {
			mb = 0
		}
		spread := impl == "shard" && rnd.Intn(2) == 0
		storeCfg := map[string]string{}
		for _, d := range vC16Docs {
			storeCfg[d] = []string{"c1", "c2"}[rnd.Intn(2)]
		}
		e := vC16NewEnv(t, impl, capItems, vC16RealMaxBytes(mb, r1, r2), storeCfg, spread)
		emit(e.resetLine(run, "conc", spread))
		for round := 0; round < rounds; round++ {
			var wg sync.WaitGroup
			for g := 0; g < goroutines; g++ {
				seed := rnd.Int63()
				wg.Add(1)
				go func(g int, seed int64) {
					defer wg.Done()
					r := rand.New(rand.NewSource(seed))
					tn := fmt.Sprintf("t%d", g+1)
					for i := 0; i < perRound; i++ {
						kn := fmt.Sprintf("k%d", 1+r.Intn(8))
						k := e.keys[kn]
						s := vC16Step{T: tn, K: kn, C: "nil", F: "ok"}
						var ops []string
						if k.isCV {
							ops = []string{"Get", "Get", "Put", "Upsert", "Remove", "Peek"}
						} else {
							ops = []string{"Get", "Get", "GetActive", "GetActive", "Remove", "Peek"}
						}
						if !usePeek {
							ops = ops[:5]
						}
						s.Op = ops[r.Intn(len(ops))]
						if s.Op == "Put" || s.Op == "Upsert" {
							s.C = storeCfg[k.doc]
						}
						if !k.isCV && (s.Op == "Get" || s.Op == "GetActive") && r.Intn(4) == 0 {
							s.F = []string{"fd", "fr"}[r.Intn(2)]
						}
						bl := e.beginLine(s) // Begin is recorded before the call starts, End after it returned
						bl["g"] = vC16G()
						emit(bl)
						emit(e.exec(s, nil))
					}
				}(g, seed)
			}
			wg.Wait()
			emit(vObj{"a": "Quiesce", "S": e.snap()})
		}
		for i := 1; i <= 8; i++ {
			s := vC16Step{T: "t1", Op: "Remove", K: fmt.Sprintf("k%d", i), C: "nil", F: "ok"}
			bl := e.beginLine(s)
			bl["g"] = vC16G()
			emit(bl)
			emit(e.exec(s, nil))
		}
		emit(vObj{"a": "Quiesce", "S": e.snap()})
	}
}

// forced schedules of the candidate races found by the model (named deviations of specs/RevCache).  Each scenario is its own
// behaviour; ordering is forced by a gate inside the backing store and by waiting for a state of the real cache - never by sleeping.
func vC16Sched(t *testing.T, tw *vTraceWriter, want string) {
	waitFor := func(what string, cond func() bool) {
		deadline := time.Now().Add(20 * time.Second)
		for !cond() {
			if time.Now().After(deadline) {
				t.Fatalf("VERIF-FATAL scenario %s: state %q not reached", want, what)
			}
			time.Sleep(time.Millisecond)
		}
	}
	switch want {
	case "revive":
		// t1: Get(k1) misses, creates the value and blocks inside the loader (value lock held); the load will fail.
		// t2: Put(k1, bucket content) hits the same value: itemBytes.Store, CAS Loading->Sized, increment; blocks in value.store.
		// t1 is released: value.err, removeValueForFailedLoad (memState.Store(Removed), removed from map and list).
		for bi, impl := range []string{"lru", "orch"} {
			e := vC16NewEnv(t, impl, 2, 0, map[string]string{"A": "c1", "B": "c2"}, false)
			tw.Emit(e.resetLine(bi, "sched", false))
			s1 := vC16Step{T: "t1", Op: "Get", K: "k1", C: "nil", F: "fd"}
			s2 := vC16Step{T: "t2", Op: "Put", K: "k1", C: "c1", F: "ok"}
			call1 := &vC16Call{gate: make(chan struct{}), entered: make(chan struct{})}
			var wg sync.WaitGroup
			var end1, end2 vObj
			tw.Emit(e.beginLine(s1))
			wg.Add(1)
			go func() { defer wg.Done(); end1 = e.exec(s1, call1) }()
			<-call1.entered
			tw.Emit(e.beginLine(s2))
			wg.Add(1)
			go func() { defer wg.Done(); end2 = e.exec(s2, nil) }()
			waitFor("Put has sized the value", func() bool { return e.memStat.Value() == e.size["c1"] })
			close(call1.gate)
			wg.Wait()
			tw.Emit(end1)
			tw.Emit(end2)
			tw.Emit(vObj{"a": "Quiesce", "S": e.snap()})
		}
	case "stale-get", "stale-getactive":
		// t1: Get(k) / GetActive(k) has READ the document (old channels) and is stalled inside the backing store.
		// The bucket changes the channels of that revision (StoreUpdate) and the feed-side invalidation Remove(k) runs.
		// t1 is released and finishes.  Then t2 reads k again (Get, Peek): it must not be served the pre-update channels.
		op := map[string]string{"stale-get": "Get", "stale-getactive": "GetActive"}[want]
		keys := []string{"k1", "k2"}
		if op == "GetActive" {
			keys = []string{"k2"}
		}
		bi := 0
		for _, impl := range []string{"lru", "orch"} {
			for _, kn := range keys {
				e := vC16NewEnv(t, impl, 2, 0, map[string]string{"A": "c1", "B": "c2"}, false)
				tw.Emit(e.resetLine(bi, "sched", false))
				bi++
				s1 := vC16Step{T: "t1", Op: op, K: kn, C: "nil", F: "ok"}
				call1 := &vC16Call{gate: make(chan struct{}), entered: make(chan struct{}), after: true}
				var wg sync.WaitGroup
				var end1 vObj
				tw.Emit(e.beginLine(s1))
				wg.Add(1)
				go func() { defer wg.Done(); end1 = e.exec(s1, call1) }()
				<-call1.entered
				e.storeUpdate(tw, "A", "c2")
				inv := vC16Step{T: "t2", Op: "Inval", K: kn, C: "nil", F: "ok"}
				tw.Emit(e.beginLine(inv))
				tw.Emit(e.exec(inv, nil))
				close(call1.gate)
				wg.Wait()
				tw.Emit(end1)
				for _, o := range []string{"Get", "Peek"} {
					s := vC16Step{T: "t2", Op: o, K: kn, C: "nil", F: "ok"}
					tw.Emit(e.beginLine(s))
					tw.Emit(e.exec(s, nil))
				}
				tw.Emit(vObj{"a": "Quiesce", "S": e.snap()})
			}
		}
	default:
		t.Fatalf("VERIF-FATAL unknown scenario %q", want)
	}
}
