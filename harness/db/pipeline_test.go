//go:build verif

package db

// Pipeline (growth module, specs/Pipeline) binding: the end-to-end write -> counter -> bucket -> feed -> change cache ->
// channel cache -> changes client pipeline of a REAL database on Rosmar.
//
// TestVerif_Pipeline_Replay  executes TLC-generated behaviours of specs/Pipeline step by step:
//   Reserve   a real Put (or PutExistingRev in allow_conflicts mode) runs in its own goroutine and is parked inside the
//             storage call, after the update callback (sequence reserved from the real allocator) and before the CAS write -
//             the point LeakyDataStore.UpdateCallback marks; the decorator below additionally lets the harness decide the
//             storage outcome (write / storage error / timeout without effect)
//   Cas, Fail, Die   release the parked writer with that outcome; a writer that lost the CAS race parks again (retry) or
//             returns 409
//   the caching feed is intercepted at changeListener.OnChangeCallback: the REAL feed events (document mutations with the
//             real _sync xattr, unused-sequence notices) are captured and handed to the real changeCache.DocChanged when
//             the behaviour says so - late, again, or never (replaced by a later mutation of the same document)
//   Tick / Abandon   InsertPendingEntries / CleanSkippedSequenceQueue with the wait forced to zero
//   Request   a one-shot changes request from the last_seq STRING the client holds
//   Connect / Iter / Disconnect   a continuous changes feed; the broadcast ticker is set to an hour, the harness broadcasts
// After every step the real state is read back and logged; at the end of a behaviour everything in flight is completed,
// the clients ask once more (Quiesce 1), the abandonment sweep runs and the clients ask again (Quiesce 2).  No property is asserted here: the
// oracle is specs/Pipeline/Trace_Pipeline.tla.
//
// TestVerif_Pipeline_Storm   free-running: goroutine writers (successful Put, sync-function-rejected Put, Put that loses the
// CAS race to a write made from inside LeakyBucket.UpdateCallback, DeleteDoc, storage error, timeout with and without
// effect), the real feed perturbed by a dispatcher (delay, reorder across documents, redeliver, replace an undelivered
// mutation by a later one of the same document), tiny CachePendingSeqMaxNum / CachePendingSeqMaxWait so that the cache's
// own timers skip and late arrivals really happen, a one-shot resume loop and a continuous feed running all the time.
// Judged at quiescence by Trace_Pipeline (Storm lines).
//
// TestVerif_Pipeline_Abandon  the cache's own CleanSkippedSequenceQueue timer gives up on a reservation that never arrives.

import (
	"context"
	"encoding/json"
	"errors"
	"fmt"
	"math/rand"
	"os"
	"sort"
	"strconv"
	"strings"
	"sync"
	"sync/atomic"
	"testing"
	"time"

	sgbucket "github.com/couchbase/sg-bucket"
	"github.com/couchbase/sync_gateway/base"
	"github.com/couchbase/sync_gateway/channels"
)

type vPLStep struct {
	A    string `json:"a"`
	W    string `json:"w"`
	D    string `json:"d"`
	Seq  int    `json:"seq"`
	Keep bool   `json:"keep"`
}
type vPLCfg struct {
	Mn        int      `json:"mn"`
	Conflicts bool     `json:"conflicts"`
	Base      int      `json:"base"`
	Clients   []string `json:"clients"`
	Timed     bool     `json:"timed"`
}
type vPLBeh struct {
	Cfg   vPLCfg    `json:"cfg"`
	Fam   string    `json:"fam"`
	Steps []vPLStep `json:"steps"`
}

var vPLDocs = []string{"a", "b"}

var errPLInjected = errors.New("pipeline harness: injected storage error")
var errPLDie = errors.New("pipeline harness: injected timeout without effect")

type vPLCtxKey struct{}

// ---------------------------------------------------------------------------------------------------------------
// storage decorator of the collection: parks a tagged writer between its update callback and the CAS write
type vPLStore struct {
	base.DataStore
	sgbucket.ViewStore
}

func (s *vPLStore) WriteUpdateWithXattrs(ctx context.Context, k string, xattrKeys []string, exp uint32, previous *sgbucket.BucketDocument, opts *sgbucket.MutateInOptions, callback sgbucket.WriteUpdateWithXattrsFunc) (uint64, error) {
	w, _ := ctx.Value(vPLCtxKey{}).(*vPLWriter)
	if w == nil {
		return s.DataStore.WriteUpdateWithXattrs(ctx, k, xattrKeys, exp, previous, opts, callback)
	}
	wrapped := func(current []byte, xattrs map[string][]byte, cas uint64) (sgbucket.UpdatedDoc, error) {
		d, err := callback(current, xattrs, cas)
		if err != nil {
			return d, err // rejected before the write (409, sync function, already known)
		}
		w.noteAttempt(d)
		switch w.decide() {
		case "fail":
			return d, errPLInjected
		case "die":
			return d, errPLDie
		}
		return d, nil
	}
	cas, err := s.DataStore.WriteUpdateWithXattrs(ctx, k, xattrKeys, exp, previous, opts, wrapped)
	if err != nil && (errors.Is(err, errPLDie) || strings.Contains(err.Error(), errPLDie.Error())) {
		return 0, base.ErrTimeout // "the write may or may not have been applied" (it was not)
	}
	if err == nil && w.timeoutAfter {
		return 0, base.ErrTimeout // applied, reported as timeout
	}
	return cas, err
}

// records the unused-sequence documents the database's allocator writes
type vPLSeqStore struct {
	base.DataStore
	mu   sync.Mutex
	keys []string
}

func (s *vPLSeqStore) AddRaw(ctx context.Context, k string, exp uint32, v []byte) (bool, error) {
	added, err := s.DataStore.AddRaw(ctx, k, exp, v)
	if err == nil && added {
		s.mu.Lock()
		s.keys = append(s.keys, k)
		s.mu.Unlock()
	}
	return added, err
}
func (s *vPLSeqStore) take() []string {
	s.mu.Lock()
	defer s.mu.Unlock()
	return append([]string{}, s.keys...)
}
func (s *vPLSeqStore) reset() {
	s.mu.Lock()
	s.keys = nil
	s.mu.Unlock()
}

// records late forwards into the channel cache (called under changeCache.lock)
type vPLChanRec struct {
	ChannelCache
	mu   sync.Mutex
	late []vPLFw
	all  []vPLFw
}
type vPLFw struct {
	doc  string
	seq  uint64
	late bool
}

func (r *vPLChanRec) AddToCache(ctx context.Context, change *LogEntry) []channels.ID {
	r.mu.Lock()
	fw := vPLFw{doc: change.DocID, seq: change.Sequence, late: change.Skipped}
	r.all = append(r.all, fw)
	if change.Skipped {
		r.late = append(r.late, fw)
	}
	r.mu.Unlock()
	return r.ChannelCache.AddToCache(ctx, change)
}

type vPLWriter struct {
	name         string
	d            string // model document
	state        string // idle | parked | dead
	arrive       chan struct{}
	gate         chan string
	done         chan error
	rev          string
	seq          uint64
	timeoutAfter bool
	auto         string // storm: preset outcome of the CAS write ("go", "fail", "die"); "" = park and ask the harness
	attSeq       uint64 // the numbers of the last attempt that reached the storage boundary
	attUnused    []uint64
	attempts     int
}

func (w *vPLWriter) park() string {
	w.arrive <- struct{}{}
	return <-w.gate
}

// decide: what happens to the CAS write this writer is about to make (replay: the harness says; storm: preset)
func (w *vPLWriter) decide() string {
	if w.auto != "" {
		return w.auto
	}
	return w.park()
}

// noteAttempt reads, at the storage boundary, the numbers the update callback put into the _sync xattr it wants to store
func (w *vPLWriter) noteAttempt(d sgbucket.UpdatedDoc) {
	var sd struct {
		Sequence uint64   `json:"sequence"`
		Unused   []uint64 `json:"unused_sequences"`
	}
	if x, ok := d.Xattrs[base.SyncXattrName]; ok && json.Unmarshal(x, &sd) == nil {
		w.attSeq, w.attUnused = sd.Sequence, sd.Unused
		w.attempts++
	}
}

type vPLEvKey struct {
	k   string // mut | un
	d   string
	seq int
}
type vPLHeld struct {
	ev sgbucket.FeedEvent
	dt DocumentType
}

type vPLRig struct {
	t       *testing.T
	db      *Database
	ctx     context.Context
	col     *DatabaseCollection
	c       *changeCache
	star    *singleChannelCacheImpl
	starKey channels.ID
	orig    DocChangedFunc
	seqRec  *vPLSeqStore
	chRec   *vPLChanRec
	notPfx  string
	rngPfx  string

	mu      sync.Mutex
	holding bool
	keyDoc  map[string]string // real document key -> model document
	held    map[vPLEvKey]vPLHeld
	shift   uint64

	// per behaviour
	behIdx    int
	writers   map[string]*vPLWriter
	revs      map[string]string // model document -> current revision (harness view)
	gen       int
	osTok     string
	ctTok     string
	ctOn      bool
	ctFeed    <-chan *ChangeEntry
	ctCancel  context.CancelFunc
	lastCount uint64
	lateBase  int
	resp      []vObj
}

const vPLWaitMax = 60 * time.Second

func (g *vPLRig) fatalf(format string, a ...any) {
	g.t.Fatalf("VERIF-FATAL Pipeline: "+format, a...)
}

func vPLNewRig(t *testing.T, warm bool) *vPLRig {
	opts := DefaultCacheOptions()
	opts.CachePendingSeqMaxWait = 30 * time.Minute
	opts.CachePendingSeqMaxNum = 1
	opts.CacheSkippedSeqMaxWait = 24 * time.Hour
	opts.BroadcastChangesInterval = time.Hour // the harness broadcasts
	opts.SkippedSequenceBroadcastInterval = time.Hour
	db, ctx := SetupTestDBWithOptions(t, DatabaseContextOptions{CacheOptions: &opts, AllowConflicts: base.Ptr(false)})
	g := &vPLRig{t: t, db: db, ctx: ctx, c: &db.changeCache, keyDoc: map[string]string{}, held: map[vPLEvKey]vPLHeld{}}
	g.col = GetSingleDatabaseCollection(t, db.DatabaseContext)
	vs, _ := g.col.dataStore.(sgbucket.ViewStore)
	g.col.dataStore = &vPLStore{DataStore: g.col.dataStore, ViewStore: vs}
	g.seqRec = &vPLSeqStore{DataStore: db.sequences.datastore}
	db.sequences.mutex.Lock()
	db.sequences.datastore = g.seqRec
	db.sequences.mutex.Unlock()
	g.notPfx, g.rngPfx = db.MetadataKeys.UnusedSeqPrefix(), db.MetadataKeys.UnusedSeqRangePrefix()
	g.c.lock.Lock()
	g.chRec = &vPLChanRec{ChannelCache: g.c.channelCache}
	g.c.channelCache = g.chRec
	g.c.lock.Unlock()
	g.orig = db.mutationListener.OnChangeCallback
	db.mutationListener.OnChangeCallback = g.onFeed
	g.starKey = channels.NewID(channels.UserStarChannel, g.col.GetCollectionID())
	// activate the all-documents channel cache (a first request), then burn the first sequence unless the behaviour is
	// about the brand-new database (Base = 0)
	g.osTok = "0"
	g.request()
	sc, err := g.chRec.ChannelCache.getSingleChannelCache(ctx, g.starKey)
	if err != nil {
		g.fatalf("star channel cache: %v", err)
	}
	impl, ok := sc.(*singleChannelCacheImpl)
	if !ok {
		g.fatalf("star channel cache is %T", sc)
	}
	g.star = impl
	if warm {
		cu := &DatabaseCollectionWithUser{DatabaseCollection: g.col}
		if _, _, err := cu.Put(ctx, "plwarm", Body{"k": 0}); err != nil {
			g.fatalf("warm-up write: %v", err)
		}
		g.waitQuiet()
	}
	return g
}

func (g *vPLRig) close() { g.db.Close(g.ctx) }

func (g *vPLRig) counter() uint64 {
	s, err := g.db.sequences.getSequence(g.ctx)
	if err != nil {
		g.fatalf("counter: %v", err)
	}
	return s
}

// waitQuiet: the cache has caught up with the counter and nothing is held back
func (g *vPLRig) waitQuiet() {
	deadline := time.Now().Add(vPLWaitMax)
	for {
		ctr := g.counter()
		g.c.lock.RLock()
		ok := g.c.nextSequence == ctr+1 && len(g.c.pendingLogs) == 0
		g.c.lock.RUnlock()
		if ok && g.c.getOldestSkippedSequence(g.ctx) == 0 {
			return
		}
		if time.Now().After(deadline) {
			g.fatalf("database does not become quiet (counter %d, next %d)", ctr, g.c.getNextSequence())
		}
		time.Sleep(200 * time.Microsecond)
	}
}

// ---------------------------------------------------------------------------------------------------------------
// the feed
func (g *vPLRig) noticeSeq(key string) (uint64, bool) {
	if rest, ok := strings.CutPrefix(key, g.notPfx); ok && !strings.HasPrefix(key, g.rngPfx) {
		s, err := strconv.ParseUint(rest, 10, 64)
		return s, err == nil
	}
	return 0, false
}

func (g *vPLRig) onFeed(ev sgbucket.FeedEvent, dt DocumentType) {
	g.mu.Lock()
	if !g.holding {
		g.mu.Unlock()
		g.orig(ev, dt)
		return
	}
	switch dt {
	case DocTypeDocument:
		if d, ok := g.keyDoc[string(ev.Key)]; ok {
			_, sd, err := UnmarshalDocumentSyncDataFromFeed(ev.Value, ev.DataType, "", false)
			if err == nil && sd != nil {
				g.held[vPLEvKey{"mut", d, int(sd.Sequence - g.shift)}] = vPLHeld{ev, dt}
				g.mu.Unlock()
				return
			}
		}
	case DocTypeUnusedSeq:
		if s, ok := g.noticeSeq(string(ev.Key)); ok && s > g.shift {
			g.held[vPLEvKey{"un", "", int(s - g.shift)}] = vPLHeld{ev, dt}
			g.mu.Unlock()
			return
		}
	}
	g.mu.Unlock()
	g.orig(ev, dt)
}

func (g *vPLRig) waitHeld(k vPLEvKey) bool {
	deadline := time.Now().Add(vPLWaitMax)
	for {
		g.mu.Lock()
		_, ok := g.held[k]
		g.mu.Unlock()
		if ok {
			return true
		}
		if time.Now().After(deadline) {
			return false
		}
		time.Sleep(100 * time.Microsecond)
	}
}

// ---------------------------------------------------------------------------------------------------------------
// reading the real state back (offsets)
func (g *vPLRig) off(s uint64) int {
	if s == 0 {
		return 0
	}
	return int(int64(s - g.shift))
}
func (g *vPLRig) tok(s string) []int {
	id, err := ParsePlainSequenceID(s)
	if err != nil {
		g.fatalf("token %q does not parse: %v", s, err)
	}
	return []int{g.off(id.LowSeq), g.off(id.Seq)}
}
func (g *vPLRig) key(d string) string { return fmt.Sprintf("pl%d_%s", g.behIdx, d) }

func (g *vPLRig) noticesNow() []int {
	out := []int{}
	for _, k := range g.seqRec.take() {
		if s, ok := g.noticeSeq(k); ok {
			out = append(out, g.off(s))
		} else if rest, ok := strings.CutPrefix(k, g.rngPfx); ok {
			p := strings.Split(rest, ":")
			if len(p) == 2 {
				f, _ := strconv.ParseUint(p[0], 10, 64)
				to, _ := strconv.ParseUint(p[1], 10, 64)
				for s := f; s <= to && s-f < 10000; s++ {
					out = append(out, g.off(s))
				}
			}
		}
	}
	sort.Ints(out)
	return out
}

func (g *vPLRig) realWake() bool {
	return g.db.mutationListener.CurrentCount([]channels.ID{g.starKey}) != g.lastCount
}

func (g *vPLRig) snapshot(o vObj) vObj {
	ctr := g.counter()
	o["ctr"] = g.off(ctr)
	docs := vObj{}
	for _, d := range vPLDocs {
		doc, err := g.col.GetDocument(g.ctx, g.key(d), DocUnmarshalAll)
		if err != nil || doc == nil {
			docs[d] = vObj{"seq": 0, "recent": []int{}, "unused": []int{}, "rev": ""}
			continue
		}
		rc, un := []int{}, []int{}
		for _, s := range doc.RecentSequences {
			rc = append(rc, g.off(s))
		}
		for _, s := range doc.UnusedSequences {
			un = append(un, g.off(s))
		}
		docs[d] = vObj{"seq": g.off(doc.Sequence), "recent": rc, "unused": un, "rev": doc.GetRevTreeID()}
	}
	o["docs"] = docs
	o["notices"] = g.noticesNow()
	c := g.c
	c.lock.Lock()
	o["next"] = g.off(c.nextSequence)
	pend := []vObj{}
	for _, e := range c.pendingLogs {
		k, d := "doc", ""
		if e.UnusedSequence {
			k = "un"
		} else {
			g.mu.Lock()
			d = g.keyDoc[e.DocID]
			g.mu.Unlock()
		}
		pend = append(pend, vObj{"seq": g.off(e.Sequence), "k": k, "d": d})
	}
	sort.Slice(pend, func(i, j int) bool { return pend[i]["seq"].(int) < pend[j]["seq"].(int) })
	o["pend"] = pend
	skip := []int{}
	for s := g.shift + 1; s <= ctr+2; s++ {
		if c.WasSkipped(s) {
			skip = append(skip, g.off(s))
		}
	}
	o["skip"] = skip
	c.lock.Unlock()
	o["wake"] = g.realWake()
	ch := vObj{}
	for _, d := range vPLDocs {
		ch[d] = 0
	}
	_, entries := g.star.GetCachedChanges(ChangesOptions{Since: SequenceID{Seq: 0}})
	for _, e := range entries {
		g.mu.Lock()
		d, ok := g.keyDoc[e.DocID]
		g.mu.Unlock()
		if ok {
			ch[d] = g.off(e.Sequence)
		}
	}
	o["chan"] = ch
	late := []vObj{}
	g.chRec.mu.Lock()
	for _, fw := range g.chRec.late[g.lateBase:] {
		g.mu.Lock()
		d, ok := g.keyDoc[fw.doc]
		g.mu.Unlock()
		if ok {
			late = append(late, vObj{"d": d, "seq": g.off(fw.seq)})
		}
	}
	g.chRec.mu.Unlock()
	o["late"] = late
	o["os"], o["cton"], o["ctok"] = g.tok(g.osTok), g.ctOn, g.tok(g.ctTok)
	if g.resp == nil {
		g.resp = []vObj{}
	}
	o["resp"] = g.resp
	return o
}

// ---------------------------------------------------------------------------------------------------------------
// clients
func (g *vPLRig) row(e *ChangeEntry) (vObj, bool) {
	g.mu.Lock()
	d, ok := g.keyDoc[e.ID]
	g.mu.Unlock()
	if !ok {
		return nil, false
	}
	rev := ""
	if len(e.Changes) > 0 {
		rev = e.Changes[0][ChangesVersionTypeRevTreeID]
	}
	t := g.tok(e.Seq.String())
	return vObj{"d": d, "seq": t[1], "l": t[0], "rev": rev, "str": e.Seq.String()}, true
}

// request = one one-shot changes request from the token string the client holds
func (g *vPLRig) request() {
	since, err := ParsePlainSequenceID(g.osTok)
	if err != nil {
		g.fatalf("since %q: %v", g.osTok, err)
	}
	cu := &DatabaseCollectionWithUser{DatabaseCollection: g.col}
	feed, err := cu.MultiChangesFeed(g.ctx, base.SetOf("*"), ChangesOptions{Since: since, ChangesCtx: g.ctx})
	if err != nil {
		g.fatalf("MultiChangesFeed: %v", err)
	}
	g.resp = []vObj{}
	for e := range feed {
		if e == nil {
			continue
		}
		if e.Err != nil {
			g.fatalf("changes feed error: %v", e.Err)
		}
		if r, ok := g.row(e); ok {
			g.resp = append(g.resp, r)
		}
		g.osTok = e.Seq.String()
	}
}

// readIteration collects the rows of one iteration of the continuous feed (up to its "caught up" marker)
func (g *vPLRig) readIteration() bool {
	to := time.After(vPLWaitMax)
	for {
		select {
		case e, ok := <-g.ctFeed:
			if !ok {
				g.fatalf("continuous feed closed unexpectedly")
			}
			if e == nil {
				return true
			}
			if e.Err != nil {
				g.fatalf("continuous feed error: %v", e.Err)
			}
			if r, ok := g.row(e); ok {
				g.resp = append(g.resp, r)
			}
			g.ctTok = e.Seq.String()
		case <-to:
			return false
		}
	}
}

func (g *vPLRig) connect() {
	since, err := ParsePlainSequenceID(g.ctTok)
	if err != nil {
		g.fatalf("since %q: %v", g.ctTok, err)
	}
	fctx, cancel := context.WithCancel(g.ctx)
	cu := &DatabaseCollectionWithUser{DatabaseCollection: g.col}
	feed, err := cu.MultiChangesFeed(fctx, base.SetOf("*"), ChangesOptions{Since: since, Continuous: true, Wait: true, ChangesCtx: fctx})
	if err != nil || feed == nil {
		g.fatalf("continuous feed: %v", err)
	}
	g.ctFeed, g.ctCancel, g.ctOn = feed, cancel, true
	g.resp = []vObj{}
	before := g.db.mutationListener.CurrentCount([]channels.ID{g.starKey})
	if !g.readIteration() {
		g.fatalf("continuous feed did not finish its first iteration")
	}
	// a fresh ChangeWaiter starts from counter 0: if the channel was ever notified, its first Wait returns at once and
	// the loop runs a second time (nothing new can have happened in between)
	if before != 0 {
		if !g.readIteration() {
			g.fatalf("continuous feed did not finish its second start-up iteration")
		}
	}
	g.lastCount = g.db.mutationListener.CurrentCount([]channels.ID{g.starKey})
}

// iterate: wake the waiting feed (the broadcast ticker is the harness) -> (ran, stalled)
func (g *vPLRig) iterate() bool {
	g.resp = []vObj{}
	if !g.realWake() {
		return false
	}
	l := g.db.mutationListener
	l.tapNotifier.L.Lock()
	l.tapNotifier.Broadcast()
	l.tapNotifier.L.Unlock()
	if !g.readIteration() {
		g.fatalf("continuous feed was notified but did not iterate")
	}
	g.lastCount = l.CurrentCount([]channels.ID{g.starKey})
	return true
}

func (g *vPLRig) disconnect() {
	if !g.ctOn {
		return
	}
	g.ctCancel()
	g.db.DatabaseContext.NotifyTerminatedChanges(g.ctx, "")
	to := time.After(vPLWaitMax)
	for open := true; open; {
		select {
		case _, ok := <-g.ctFeed:
			open = ok
		case <-to:
			g.fatalf("continuous feed does not terminate")
		}
	}
	g.ctOn = false
}

// ---------------------------------------------------------------------------------------------------------------
// writers
func (g *vPLRig) startWriter(name, d string, conflicts bool) (parked bool, err error) {
	w := &vPLWriter{name: name, d: d, arrive: make(chan struct{}), gate: make(chan string), done: make(chan error, 1)}
	g.writers[name] = w
	g.gen++
	parent := g.revs[d]
	ctx := context.WithValue(g.ctx, vPLCtxKey{}, w)
	cu := &DatabaseCollectionWithUser{DatabaseCollection: g.col}
	key := g.key(d)
	n := g.gen
	go func() {
		var rev string
		var doc *Document
		var err error
		if conflicts {
			pg := 0
			if parent != "" {
				pg, _ = ParseRevID(ctx, parent)
			}
			rev = fmt.Sprintf("%d-%s%04d", pg+1, name, n)
			hist := []string{rev}
			if parent != "" {
				hist = append(hist, parent)
			}
			doc, _, err = cu.PutExistingRevWithBody(ctx, key, Body{"k": n, "w": name}, hist, false, ExistingVersionWithUpdateToHLV)
		} else {
			body := Body{"k": n, "w": name}
			if parent != "" {
				body[BodyRev] = parent
			}
			rev, doc, err = cu.Put(ctx, key, body)
		}
		if err == nil && doc != nil {
			w.rev, w.seq = rev, doc.Sequence
		}
		w.done <- err
	}()
	return g.awaitWriter(w)
}

// awaitWriter: the writer parks in front of its CAS write, or its call returns
func (g *vPLRig) awaitWriter(w *vPLWriter) (parked bool, err error) {
	select {
	case <-w.arrive:
		w.state = "parked"
		return true, nil
	case err := <-w.done:
		w.state = "idle"
		return false, err
	case <-time.After(vPLWaitMax):
		g.fatalf("writer %s neither parks nor returns", w.name)
	}
	return false, nil
}

// expectEvents waits until the feed interceptor holds the events the step must have produced
func (g *vPLRig) expectCommit(d string) {
	doc, err := g.col.GetDocument(g.ctx, g.key(d), DocUnmarshalAll)
	if err != nil || doc == nil {
		g.fatalf("committed document %s unreadable: %v", d, err)
	}
	g.revs[d] = doc.GetRevTreeID()
	if !g.waitHeld(vPLEvKey{"mut", d, g.off(doc.Sequence)}) {
		g.fatalf("the feed never showed the mutation of %s at #%d", d, doc.Sequence)
	}
}
func (g *vPLRig) expectNotices(before []int) {
	seen := map[int]bool{}
	for _, s := range before {
		seen[s] = true
	}
	for _, s := range g.noticesNow() {
		if !seen[s] && !g.waitHeld(vPLEvKey{"un", "", s}) {
			g.fatalf("the feed never showed the unused-sequence notice %d", s)
		}
	}
}

// cas releases a parked writer with the given outcome and classifies what really happened
func (g *vPLRig) cas(w *vPLWriter, outcome string) (kind string) {
	before := g.noticesNow()
	ctr := g.counter()
	w.gate <- outcome
	parked, err := g.awaitWriter(w)
	switch {
	case parked && g.counter() > ctr:
		kind = "retrynew"
	case parked:
		kind = "retrykeep"
	case err == nil:
		kind = "commit"
		g.expectCommit(w.d)
	default:
		kind = "conflict"
		if outcome == "die" {
			w.state = "dead"
		}
	}
	g.expectNotices(before)
	return kind
}

// ---------------------------------------------------------------------------------------------------------------
func (g *vPLRig) tick() {
	c := g.c
	c.lock.Lock()
	saved := c.options.CachePendingSeqMaxWait
	c.options.CachePendingSeqMaxWait = 0
	c.lock.Unlock()
	atomic.StoreInt64(&c.lastAddPendingTime, 0)
	if err := c.InsertPendingEntries(g.ctx); err != nil {
		g.fatalf("InsertPendingEntries: %v", err)
	}
	c.lock.Lock()
	c.options.CachePendingSeqMaxWait = saved
	c.lock.Unlock()
}
func (g *vPLRig) abandon() {
	c := g.c
	c.lock.Lock()
	saved := c.options.CacheSkippedSeqMaxWait
	c.options.CacheSkippedSeqMaxWait = 0
	c.lock.Unlock()
	if err := c.CleanSkippedSequenceQueue(g.ctx); err != nil {
		g.fatalf("CleanSkippedSequenceQueue: %v", err)
	}
	c.lock.Lock()
	c.options.CacheSkippedSeqMaxWait = saved
	c.lock.Unlock()
}
func (g *vPLRig) deliver(k vPLEvKey, keep bool) bool {
	g.mu.Lock()
	h, ok := g.held[k]
	if ok && !keep {
		delete(g.held, k)
	}
	g.mu.Unlock()
	if !ok {
		return false
	}
	g.orig(h.ev, h.dt)
	return true
}
func (g *vPLRig) pendingLen() int {
	g.c.lock.RLock()
	defer g.c.lock.RUnlock()
	return len(g.c.pendingLogs)
}

// runBehaviour executes one behaviour and its closing steps
func (g *vPLRig) runBehaviour(bi int, b vPLBeh, tw *vTraceWriter) {
	g.waitQuiet()
	g.behIdx = bi
	g.c.lock.Lock()
	g.c.options.CachePendingSeqMaxNum = b.Cfg.Mn
	g.c.lock.Unlock()
	g.db.Options.AllowConflicts = base.Ptr(b.Cfg.Conflicts)
	ctr := g.counter()
	g.mu.Lock()
	g.shift = ctr - uint64(b.Cfg.Base)
	g.held = map[vPLEvKey]vPLHeld{}
	g.keyDoc = map[string]string{} // only this behaviour's documents
	for _, d := range vPLDocs {
		g.keyDoc[g.key(d)] = d
	}
	g.holding = true
	g.mu.Unlock()
	g.seqRec.reset()
	g.chRec.mu.Lock()
	g.lateBase = len(g.chRec.late)
	g.chRec.mu.Unlock()
	g.writers, g.revs, g.gen = map[string]*vPLWriter{}, map[string]string{}, 0
	g.osTok, g.ctTok, g.ctOn, g.resp = fmt.Sprint(ctr), fmt.Sprint(ctr), false, nil
	g.lastCount = g.db.mutationListener.CurrentCount([]channels.ID{g.starKey})
	has := func(c string) bool {
		for _, x := range b.Cfg.Clients {
			if x == c {
				return true
			}
		}
		return false
	}
	if b.Cfg.Clients == nil {
		b.Cfg.Clients = []string{}
	}
	tw.Emit(g.snapshot(vObj{"a": "Reset", "beh": bi, "fam": b.Fam, "cfg": vObj{"mn": b.Cfg.Mn, "conflicts": b.Cfg.Conflicts, "base": b.Cfg.Base, "clients": b.Cfg.Clients, "timed": b.Cfg.Timed}}))
	emit := func(o vObj) { tw.Emit(g.snapshot(o)) } // resp stays what the last response was (as in the model)

	step := func(st vPLStep) bool {
		switch st.A {
		case "Reserve":
			if w := g.writers[st.W]; w != nil && w.state == "parked" {
				return false
			}
			parked, err := g.startWriter(st.W, st.D, b.Cfg.Conflicts)
			if !parked {
				g.fatalf("writer %s did not reach its CAS write: %v", st.W, err)
			}
			emit(vObj{"a": "Reserve", "w": st.W, "d": st.D})
		case "Cas", "Fail", "Die":
			w := g.writers[st.W]
			if w == nil || w.state != "parked" {
				return false
			}
			outcome := map[string]string{"Cas": "go", "Fail": "fail", "Die": "die"}[st.A]
			kind := g.cas(w, outcome)
			o := vObj{"a": st.A, "w": st.W, "d": w.d}
			if st.A == "Cas" {
				o["kind"] = kind
			}
			emit(o)
		case "Deliver", "DeliverUn":
			k := vPLEvKey{"mut", st.D, st.Seq}
			if st.A == "DeliverUn" {
				k = vPLEvKey{"un", "", st.Seq}
			}
			if !g.deliver(k, st.Keep) {
				return false
			}
			emit(vObj{"a": st.A, "d": k.d, "seq": st.Seq, "keep": st.Keep})
		case "Coalesce":
			k := vPLEvKey{"mut", st.D, st.Seq}
			g.mu.Lock()
			_, ok := g.held[k]
			delete(g.held, k)
			g.mu.Unlock()
			if !ok {
				return false
			}
			emit(vObj{"a": "Coalesce", "d": st.D, "seq": st.Seq})
		case "Tick":
			if g.pendingLen() == 0 {
				return false // nothing waits (the model's Tick needs a waiting entry): the real system left the scripted path
			}
			g.tick()
			emit(vObj{"a": "Tick"})
		case "Abandon":
			g.abandon()
			emit(vObj{"a": "Abandon"})
		case "Request":
			g.request()
			emit(vObj{"a": "Request"})
		case "Connect":
			if g.ctOn {
				return false
			}
			g.connect()
			emit(vObj{"a": "Connect"})
		case "Iter":
			if !g.ctOn {
				return false
			}
			ran := g.iterate()
			emit(vObj{"a": "Iter", "stall": !ran})
		case "Disconnect":
			if !g.ctOn {
				return false
			}
			g.disconnect()
			emit(vObj{"a": "Disconnect"})
		default:
			g.fatalf("unknown action %q", st.A)
		}
		return true
	}
	done := 0
	for _, st := range b.Steps {
		if !step(st) {
			break // the real system left the scripted path (e.g. a mutated tree): finish what is in flight and let TLC judge
		}
		done++
	}
	// closing steps: writers finish, the feed delivers everything, the sweep runs, the clients ask once more
	names := []string{}
	for n := range g.writers {
		names = append(names, n)
	}
	sort.Strings(names)
	for _, n := range names {
		for guard := 0; g.writers[n].state == "parked" && guard < 10; guard++ {
			step(vPLStep{A: "Cas", W: n})
		}
	}
	g.mu.Lock()
	keys := []vPLEvKey{}
	for k := range g.held {
		keys = append(keys, k)
	}
	g.mu.Unlock()
	sort.Slice(keys, func(i, j int) bool { return keys[i].seq < keys[j].seq })
	for _, k := range keys {
		a := "Deliver"
		if k.k == "un" {
			a = "DeliverUn"
		}
		step(vPLStep{A: a, D: k.d, Seq: k.seq})
	}
	if g.pendingLen() > 0 {
		step(vPLStep{A: "Tick"})
	}
	ask := func() {
		if has("os") {
			step(vPLStep{A: "Request"})
		}
		if has("ct") {
			if !g.ctOn {
				step(vPLStep{A: "Connect"})
			} else if g.realWake() {
				step(vPLStep{A: "Iter"})
			}
		}
	}
	ask()
	emit(vObj{"a": "Quiesce", "phase": 1, "done": done, "of": len(b.Steps)})
	if g.c.getOldestSkippedSequence(g.ctx) != 0 {
		step(vPLStep{A: "Abandon"})
		ask() // the low sequence moved: a resume loop is now re-sent what arrived late below its position
	}
	emit(vObj{"a": "Quiesce", "phase": 2})
	// leave the database quiet for the next behaviour: reservations that died are published, the feed runs freely
	g.disconnect()
	g.mu.Lock()
	g.holding = false
	g.mu.Unlock()
	ctr = g.counter()
	for s := g.c.getNextSequence(); s <= ctr; s++ {
		if err := g.db.sequences.releaseSequence(g.ctx, s); err != nil {
			g.fatalf("cleanup release of %d: %v", s, err)
		}
	}
}

func TestVerif_Pipeline_Replay(t *testing.T) {
	var behs []vPLBeh
	vReadJSON(t, "VERIF_BEH", &behs)
	tw := vOpenTrace(t, "VERIF_TRACE_OUT")
	defer tw.Close()
	defer SuspendSequenceBatching()() // one number per reservation: the counter IS the last reserved number
	epoch := vEnvInt("VERIF_PIPELINE_EPOCH", 40)
	var g *vPLRig
	n := 0
	t0 := time.Now()
	for bi, b := range behs {
		fresh := b.Cfg.Base == 0
		if g == nil || fresh || n >= epoch {
			if g != nil {
				g.close()
			}
			g = vPLNewRig(t, !fresh)
			n = 0
		}
		g.runBehaviour(bi, b, tw)
		n++
		if fresh {
			g.close()
			g = nil
		}
	}
	if g != nil {
		g.close()
	}
	fmt.Printf("VERIF-TIMING Pipeline replay: %d behaviours in %v\n", len(behs), time.Since(t0))
}

// ---------------------------------------------------------------------------------------------------------------
// Free-running storm
// ---------------------------------------------------------------------------------------------------------------
type vPLAttempt struct {
	id     string
	seq    uint64
	unused []uint64
	out    string
	rev    string
}

type vPLQEvent struct {
	ev      sgbucket.FeedEvent
	dt      DocumentType
	release time.Time
	again   bool
	key     string
	seq     uint64
	unused  []uint64
	recent  []uint64
	isDoc   bool
}

type vPLStorm struct {
	t      *testing.T
	db     *Database
	ctx    context.Context
	col    *DatabaseCollection
	c      *changeCache
	orig   DocChangedFunc
	seqRec *vPLSeqStore
	rnd    *rand.Rand

	mu        sync.Mutex
	raceKeys  map[string]bool
	attempts  []vPLAttempt
	queues    map[string][]*vPLQEvent // per key, in feed order
	delivered []vObj
	stats     map[string]int
	draining  bool
	prefix    string
	compN     int64
	seenDoc   int // document mutations of this storm the bucket's feed has handed over
	seenNote  int // unused-sequence notices (single and range documents) it has handed over
}

func (g *vPLStorm) count(k string, n int) {
	g.mu.Lock()
	g.stats[k] += n
	g.mu.Unlock()
}

// the feed: every event is queued per key (per-document order is kept); a dispatcher delivers it now or later
func (g *vPLStorm) onFeed(ev sgbucket.FeedEvent, dt DocumentType) {
	key := string(ev.Key)
	q := &vPLQEvent{ev: ev, dt: dt, key: key, release: time.Now()}
	switch dt {
	case DocTypeDocument:
		if !strings.HasPrefix(key, g.prefix) {
			g.orig(ev, dt)
			return
		}
		if _, sd, err := UnmarshalDocumentSyncDataFromFeed(ev.Value, ev.DataType, "", false); err == nil && sd != nil {
			q.isDoc, q.seq, q.unused, q.recent = true, sd.Sequence, sd.UnusedSequences, sd.RecentSequences
		}
	case DocTypeUnusedSeq, DocTypeUnusedSeqRange:
	default:
		g.orig(ev, dt)
		return
	}
	g.mu.Lock()
	defer g.mu.Unlock()
	g.stats["feed_events"]++
	if q.isDoc {
		g.seenDoc++
	} else if dt != DocTypeDocument {
		g.seenNote++
	}
	if !g.draining {
		r := g.rnd.Intn(100)
		switch {
		case r < 30: // hold back: reordered across documents, possibly late
			q.release = time.Now().Add(time.Duration(1+g.rnd.Intn(40)) * time.Millisecond)
			g.stats["feed_delayed"]++
		case r < 36:
			q.again = true
		}
		// de-duplication by key: a later mutation replaces an undelivered earlier one of the same document
		if q.isDoc && len(g.queues[key]) > 0 && g.rnd.Intn(2) == 0 {
			g.queues[key] = g.queues[key][:len(g.queues[key])-1]
			g.stats["feed_replaced"]++
		}
	}
	g.queues[key] = append(g.queues[key], q)
}

// dispatch delivers the due heads of the queues of its partition (two partitions = two feed workers)
func (g *vPLStorm) dispatch(part int, stop chan struct{}, wg *sync.WaitGroup) {
	defer wg.Done()
	for {
		select {
		case <-stop:
			return
		default:
		}
		now := time.Now()
		var due []*vPLQEvent
		g.mu.Lock()
		for k, q := range g.queues {
			if len(q) == 0 || int(k[len(k)-1])%2 != part {
				continue
			}
			if g.draining || !q[0].release.After(now) {
				due = append(due, q[0])
				if q[0].again {
					q[0].again = false
					q[0].release = now.Add(time.Duration(1+g.rnd.Intn(20)) * time.Millisecond)
					g.stats["feed_redelivered"]++
				} else {
					g.queues[k] = q[1:]
				}
			}
		}
		g.mu.Unlock()
		for _, q := range due {
			g.orig(q.ev, q.dt)
			if q.isDoc {
				g.mu.Lock()
				g.delivered = append(g.delivered, vObj{"id": q.key, "seq": int(q.seq), "unused": vPLInts(q.unused), "recent": vPLInts(q.recent)})
				g.mu.Unlock()
			}
		}
		if len(due) == 0 {
			time.Sleep(500 * time.Microsecond)
		}
	}
}

func (g *vPLStorm) queued() int {
	g.mu.Lock()
	defer g.mu.Unlock()
	n := 0
	for _, q := range g.queues {
		n += len(q)
	}
	return n
}

func vPLInts(xs []uint64) []int {
	o := []int{}
	for _, x := range xs {
		o = append(o, int(x))
	}
	return o
}

// write performs one tagged write and records what happened to the numbers it reserved
func (g *vPLStorm) write(id, kind string, f func(ctx context.Context) (string, *Document, error)) {
	w := &vPLWriter{name: kind, auto: "go"}
	switch kind {
	case "fail":
		w.auto = "fail"
	case "die":
		w.auto = "die"
	case "timeout":
		w.timeoutAfter = true
	}
	rev, doc, err := f(context.WithValue(g.ctx, vPLCtxKey{}, w))
	a := vPLAttempt{id: id, seq: w.attSeq, unused: w.attUnused, rev: rev}
	switch {
	case err == nil && doc != nil:
		a.out = "ack"
		a.seq = doc.Sequence
		g.count("writes_acknowledged", 1)
		if w.attempts > 1 {
			g.count("cas_retried_writes", 1)
		}
	case err == nil:
		a.out = "noop" // cancelled update (revision already known)
	case base.IsTimeoutError(err) && kind == "timeout":
		a.out = "timeout_applied"
		g.count("writes_timeout_applied", 1)
	case base.IsTimeoutError(err):
		a.out = "die"
		g.count("writes_timeout_not_applied", 1)
	case kind == "fail":
		a.out = "fail"
		g.count("writes_storage_error", 1)
	default:
		a.out = "conflict" // 409 / forbidden / anything else that is not a timeout: numbers must have been published
		if strings.Contains(err.Error(), "403") || strings.Contains(strings.ToLower(err.Error()), "forbidden") {
			g.count("writes_rejected_by_sync_function", 1)
		} else {
			g.count("writes_409", 1)
		}
		if w.attempts > 0 {
			g.count("cas_retried_writes", 1)
		}
	}
	if a.seq != 0 || a.out == "ack" {
		g.mu.Lock()
		g.attempts = append(g.attempts, a)
		g.mu.Unlock()
	}
}

func (g *vPLStorm) currentRev(id string) (string, bool) {
	doc, err := g.col.GetDocument(g.ctx, id, DocUnmarshalSync)
	if err != nil || doc == nil {
		return "", false
	}
	return doc.GetRevTreeID(), doc.IsDeleted()
}

func vPLStormRun(t *testing.T, round int, seed int64, nWrites int) vObj {
	rnd := rand.New(rand.NewSource(seed))
	conflicts := round%2 == 1
	opts := DefaultCacheOptions()
	opts.CachePendingSeqMaxWait = 5 * time.Millisecond
	opts.CachePendingSeqMaxNum = 1 + rnd.Intn(3)
	opts.CacheSkippedSeqMaxWait = time.Hour // nothing is given up on while events are merely late
	opts.BroadcastChangesInterval = 5 * time.Millisecond
	opts.SkippedSequenceBroadcastInterval = 10 * time.Millisecond
	g := &vPLStorm{t: t, rnd: rand.New(rand.NewSource(seed + 7)), raceKeys: map[string]bool{}, queues: map[string][]*vPLQEvent{}, stats: map[string]int{},
		prefix: fmt.Sprintf("st%d_", round)}
	tb := base.GetTestBucket(t)
	var cu *DatabaseCollectionWithUser
	lb := base.NewLeakyBucket(tb, base.LeakyBucketConfig{UpdateCallback: func(key string) {
		// the CAS window of a writer: a competing write of the same document commits first
		g.mu.Lock()
		hit := g.raceKeys[key]
		delete(g.raceKeys, key)
		g.mu.Unlock()
		if hit && cu != nil {
			g.write(key, "competitor", func(ctx context.Context) (string, *Document, error) {
				rev, _ := g.currentRev(key)
				if conflicts {
					pg := 0
					if rev != "" {
						pg, _ = ParseRevID(ctx, rev)
					}
					nr := fmt.Sprintf("%d-c%06d", pg+1, atomic.AddInt64(&g.compN, 1))
					hist := []string{nr}
					if rev != "" {
						hist = append(hist, rev)
					}
					doc, _, err := cu.PutExistingRevWithBody(ctx, key, Body{"k": "competitor"}, hist, false, ExistingVersionWithUpdateToHLV)
					return nr, doc, err
				}
				body := Body{"k": "competitor"}
				if rev != "" {
					body[BodyRev] = rev
				}
				return cu.Put(ctx, key, body)
			})
		}
	}})
	db, ctx := SetupTestDBForBucketWithOptions(t, lb, DatabaseContextOptions{CacheOptions: &opts, AllowConflicts: base.Ptr(conflicts)})
	defer db.Close(ctx)
	g.db, g.ctx, g.c = db, ctx, &db.changeCache
	g.col = GetSingleDatabaseCollection(t, db.DatabaseContext)
	if _, err := g.col.UpdateSyncFun(ctx, `function(doc){ if (doc.reject) { throw({forbidden: "rejected"}); } channel("pl"); }`); err != nil {
		t.Fatalf("VERIF-FATAL Pipeline storm: sync function: %v", err)
	}
	vs, _ := g.col.dataStore.(sgbucket.ViewStore)
	g.col.dataStore = &vPLStore{DataStore: g.col.dataStore, ViewStore: vs}
	cu = &DatabaseCollectionWithUser{DatabaseCollection: g.col}
	g.seqRec = &vPLSeqStore{DataStore: db.sequences.datastore}
	db.sequences.mutex.Lock()
	db.sequences.datastore = g.seqRec
	db.sequences.mutex.Unlock()
	// warm-up: activate the all-documents channel cache and burn the first sequence
	oneshot := func(since string) (rows []vObj, last string) {
		sid, err := ParsePlainSequenceID(since)
		if err != nil {
			t.Fatalf("VERIF-FATAL Pipeline storm: since %q: %v", since, err)
		}
		feed, err := cu.MultiChangesFeed(ctx, base.SetOf("*"), ChangesOptions{Since: sid, ChangesCtx: ctx})
		if err != nil {
			t.Fatalf("VERIF-FATAL Pipeline storm: MultiChangesFeed: %v", err)
		}
		last = since
		rows = []vObj{}
		for e := range feed {
			if e == nil || e.Err != nil {
				continue
			}
			rev := ""
			if len(e.Changes) > 0 {
				rev = e.Changes[0][ChangesVersionTypeRevTreeID]
			}
			if strings.HasPrefix(e.ID, g.prefix) {
				rows = append(rows, vObj{"id": e.ID, "seq": int(e.Seq.Seq), "l": int(e.Seq.LowSeq), "rev": rev, "str": e.Seq.String()})
			}
			last = e.Seq.String()
		}
		return rows, last
	}
	oneshot("0")
	if _, _, err := cu.Put(ctx, "plwarm", Body{"k": 0}); err != nil {
		t.Fatalf("VERIF-FATAL Pipeline storm: warm-up: %v", err)
	}
	for deadline := time.Now().Add(vPLWaitMax); db.changeCache.getNextSequence() < 2; {
		if time.Now().After(deadline) {
			t.Fatalf("VERIF-FATAL Pipeline storm: warm-up write never cached")
		}
		time.Sleep(time.Millisecond)
	}
	db.sequences.releaseUnusedSequences(ctx)
	time.Sleep(20 * time.Millisecond)
	c0, err := db.sequences.getSequence(ctx)
	if err != nil {
		t.Fatalf("VERIF-FATAL Pipeline storm: counter: %v", err)
	}
	g.seqRec.reset()
	g.orig = db.mutationListener.OnChangeCallback
	db.mutationListener.OnChangeCallback = g.onFeed
	stopDisp := make(chan struct{})
	var dwg sync.WaitGroup
	for p := 0; p < 2; p++ {
		dwg.Add(1)
		go g.dispatch(p, stopDisp, &dwg)
	}

	// clients: a one-shot resume loop and a continuous feed, both from the start position
	start := fmt.Sprint(c0)
	var cmu sync.Mutex
	osResps := [][]vObj{}
	osTok := start
	stopOS := make(chan struct{})
	osDone := make(chan struct{})
	askOnce := func() int {
		rows, last := oneshot(osTok)
		cmu.Lock()
		osResps = append(osResps, rows)
		osTok = last
		cmu.Unlock()
		return len(rows)
	}
	go func() {
		defer close(osDone)
		for {
			select {
			case <-stopOS:
				return
			default:
			}
			askOnce()
			time.Sleep(3 * time.Millisecond)
		}
	}()
	fctx, cancel := context.WithCancel(ctx)
	sid, _ := ParsePlainSequenceID(start)
	ctFeed, err := cu.MultiChangesFeed(fctx, base.SetOf("*"), ChangesOptions{Since: sid, Continuous: true, Wait: true, ChangesCtx: fctx})
	if err != nil || ctFeed == nil {
		t.Fatalf("VERIF-FATAL Pipeline storm: continuous feed: %v", err)
	}
	ctRows := []vObj{}
	lastRow := time.Now()
	ctDone := make(chan struct{})
	go func() {
		defer close(ctDone)
		for e := range ctFeed {
			if e == nil || e.Err != nil {
				continue
			}
			rev := ""
			if len(e.Changes) > 0 {
				rev = e.Changes[0][ChangesVersionTypeRevTreeID]
			}
			if strings.HasPrefix(e.ID, g.prefix) {
				cmu.Lock()
				ctRows = append(ctRows, vObj{"id": e.ID, "seq": int(e.Seq.Seq), "l": int(e.Seq.LowSeq), "rev": rev, "str": e.Seq.String()})
				lastRow = time.Now()
				cmu.Unlock()
			}
		}
	}()

	// writers
	nWriters := 4
	shared := []string{}
	for i := 0; i < 5; i++ {
		shared = append(shared, fmt.Sprintf("%ss%d", g.prefix, i))
	}
	var wg sync.WaitGroup
	for wi := 0; wi < nWriters; wi++ {
		wg.Add(1)
		go func(wi int, r *rand.Rand) {
			defer wg.Done()
			own := []string{fmt.Sprintf("%sw%d_%d", g.prefix, wi, 0), fmt.Sprintf("%sw%d_%d", g.prefix, wi, 1)}
			retired := 0
			for i := 0; i < nWrites/nWriters; i++ {
				id := own[r.Intn(2)]
				if r.Intn(3) == 0 {
					id = shared[r.Intn(len(shared))]
				}
				rev, deleted := g.currentRev(id)
				put := func(body Body) func(ctx context.Context) (string, *Document, error) {
					return func(ctx context.Context) (string, *Document, error) {
						if conflicts {
							pg := 0
							if rev != "" {
								pg, _ = ParseRevID(ctx, rev)
							}
							nr := fmt.Sprintf("%d-w%d%05d", pg+1, wi, i)
							hist := []string{nr}
							if rev != "" {
								hist = append(hist, rev)
							}
							doc, _, err := cu.PutExistingRevWithBody(ctx, id, body, hist, false, ExistingVersionWithUpdateToHLV)
							return nr, doc, err
						}
						if rev != "" {
							body[BodyRev] = rev
						}
						return cu.Put(ctx, id, body)
					}
				}
				switch k := r.Intn(100); {
				case k < 45:
					g.write(id, "put", put(Body{"k": i, "w": wi}))
				case k < 55:
					g.write(id, "reject", put(Body{"k": i, "reject": true}))
				case k < 70:
					g.mu.Lock()
					g.raceKeys[id] = true
					g.mu.Unlock()
					g.write(id, "raced", put(Body{"k": i, "raced": true}))
					g.mu.Lock()
					delete(g.raceKeys, id)
					g.mu.Unlock()
				case k < 80:
					if rev != "" && !deleted && !conflicts && (id == own[0] || id == own[1]) {
						g.count("deletes", 1)
						g.write(id, "delete", func(ctx context.Context) (string, *Document, error) {
							return cu.DeleteDoc(ctx, id, DocVersion{RevTreeID: rev})
						})
						// a deleted document is not written again (resurrecting a tombstone is C05's recorded finding)
						retired++
						if id == own[0] {
							own[0] = fmt.Sprintf("%sw%d_%d", g.prefix, wi, 1+retired)
						} else {
							own[1] = fmt.Sprintf("%sw%d_%d", g.prefix, wi, 1+retired)
						}
					} else {
						g.write(id, "put", put(Body{"k": i, "w": wi}))
					}
				case k < 87:
					g.write(id, "fail", put(Body{"k": i, "f": 1}))
				case k < 93:
					g.write(id, "die", put(Body{"k": i, "d": 1}))
				default:
					g.write(id, "timeout", put(Body{"k": i, "t": 1}))
				}
				if r.Intn(4) == 0 {
					time.Sleep(time.Duration(r.Intn(3)) * time.Millisecond)
				}
			}
		}(wi, rand.New(rand.NewSource(rnd.Int63())))
	}
	wg.Wait()

	// quiescence: the allocator returns what it still holds, the feed delivers everything, the cache's own sweeps run
	db.sequences.releaseUnusedSequences(ctx)
	c1, err := db.sequences.getSequence(ctx)
	if err != nil {
		t.Fatalf("VERIF-FATAL Pipeline storm: counter: %v", err)
	}
	noticeKeys := g.seqRec.take()
	// the bucket's feed has handed over every mutation the writers committed and every notice the allocator wrote
	handedOver := func() bool {
		g.mu.Lock()
		defer g.mu.Unlock()
		want := 0
		for _, a := range g.attempts {
			if a.out == "ack" || a.out == "timeout_applied" {
				want++
			}
		}
		return g.seenDoc >= want && g.seenNote >= len(noticeKeys)
	}
	for deadline := time.Now().Add(30 * time.Second); !handedOver() && time.Now().Before(deadline); {
		time.Sleep(time.Millisecond)
	}
	feedComplete := handedOver()
	feedSettled := func() bool { return g.queued() == 0 }
	g.mu.Lock()
	g.draining = true
	g.mu.Unlock()
	dead := map[uint64]bool{}
	g.mu.Lock()
	for _, a := range g.attempts {
		if a.out == "die" {
			dead[a.seq] = true
			for _, u := range a.unused {
				dead[u] = true
			}
		}
	}
	g.mu.Unlock()
	top := uint64(0)
	for s := c0 + 1; s <= c1; s++ {
		if !dead[s] {
			top = s
		}
	}
	quiet := func() bool {
		if !feedSettled() {
			return false
		}
		g.c.lock.RLock()
		defer g.c.lock.RUnlock()
		return len(g.c.pendingLogs) == 0 && g.c.nextSequence > top
	}
	waited := time.Now()
	for deadline := time.Now().Add(45 * time.Second); !quiet() && time.Now().Before(deadline); {
		time.Sleep(2 * time.Millisecond)
	}
	time.Sleep(30 * time.Millisecond)
	settle := time.Since(waited)
	snap := func() vObj {
		g.c.lock.RLock()
		o := vObj{"next": int(g.c.nextSequence), "pend": len(g.c.pendingLogs)}
		skip := []int{}
		for s := c0 + 1; s <= c1+1; s++ {
			if g.c.WasSkipped(s) {
				skip = append(skip, int(s))
			}
		}
		o["skip"] = skip
		o["stable"] = int(g.c._getMaxStableCached(ctx))
		g.c.lock.RUnlock()
		return o
	}
	cache1 := snap()
	cumSkipped := int(g.c.skippedSeqs.getStats().NumCumulativeSkippedSequencesStat)
	g.count("skipped_total", cumSkipped)
	// clients catch up: the resume loop until two empty answers in a row, the continuous feed until it has been silent
	close(stopOS)
	<-osDone
	for empty, guard := 0, 0; empty < 2 && guard < 200; guard++ {
		if askOnce() == 0 {
			empty++
		} else {
			empty = 0
		}
	}
	for deadline := time.Now().Add(20 * time.Second); time.Now().Before(deadline); {
		cmu.Lock()
		silent := time.Since(lastRow)
		cmu.Unlock()
		if silent > 1500*time.Millisecond {
			break
		}
		time.Sleep(10 * time.Millisecond)
	}
	// the abandonment sweep (forced): reservations that died are given up on; the resume loop asks again
	g.c.lock.Lock()
	g.c.options.CacheSkippedSeqMaxWait = 0
	g.c.lock.Unlock()
	_ = g.c.CleanSkippedSequenceQueue(ctx)
	for empty, guard := 0, 0; empty < 2 && guard < 200; guard++ {
		if askOnce() == 0 {
			empty++
		} else {
			empty = 0
		}
	}
	cache2 := snap()
	cancel()
	db.DatabaseContext.NotifyTerminatedChanges(ctx, "")
	select {
	case <-ctDone:
	case <-time.After(5 * time.Second):
	}
	close(stopDisp)
	dwg.Wait()

	// ground truth: the bucket, the writers' acknowledgements, the allocator's notices
	ids := map[string]bool{}
	g.mu.Lock()
	atts := []vObj{}
	for _, a := range g.attempts {
		ids[a.id] = true
		atts = append(atts, vObj{"id": a.id, "seq": int(a.seq), "unused": vPLInts(a.unused), "out": a.out, "rev": a.rev})
	}
	delivered := append([]vObj{}, g.delivered...)
	stats := vObj{}
	for k, v := range g.stats {
		stats[k] = v
	}
	g.mu.Unlock()
	docs := []vObj{}
	idl := []string{}
	for id := range ids {
		idl = append(idl, id)
	}
	sort.Strings(idl)
	_, entries := func() (uint64, []*LogEntry) {
		sc, err := db.changeCache.getChannelCache().getSingleChannelCache(ctx, channels.NewID(channels.UserStarChannel, g.col.GetCollectionID()))
		if err != nil {
			return 0, nil
		}
		if impl, ok := sc.(*singleChannelCacheImpl); ok {
			return impl.GetCachedChanges(ChangesOptions{Since: SequenceID{Seq: 0}})
		}
		return 0, nil
	}()
	cached := map[string]int{}
	for _, e := range entries {
		cached[e.DocID] = int(e.Sequence)
	}
	for _, id := range idl {
		doc, err := g.col.GetDocument(ctx, id, DocUnmarshalAll)
		if err != nil || doc == nil {
			continue
		}
		docs = append(docs, vObj{"id": id, "seq": int(doc.Sequence), "rev": doc.GetRevTreeID(), "recent": vPLInts(doc.RecentSequences), "unused": vPLInts(doc.UnusedSequences),
			"chan": cached[id]})
	}
	notices := []int{}
	notPfx, rngPfx := db.MetadataKeys.UnusedSeqPrefix(), db.MetadataKeys.UnusedSeqRangePrefix()
	for _, k := range append(noticeKeys, g.seqRec.take()[len(noticeKeys):]...) {
		if rest, ok := strings.CutPrefix(k, rngPfx); ok {
			p := strings.Split(rest, ":")
			if len(p) == 2 {
				f, _ := strconv.ParseUint(p[0], 10, 64)
				to, _ := strconv.ParseUint(p[1], 10, 64)
				for s := f; s <= to && s-f < 100000; s++ {
					notices = append(notices, int(s))
				}
			}
		} else if rest, ok := strings.CutPrefix(k, notPfx); ok {
			if s, err := strconv.ParseUint(rest, 10, 64); err == nil {
				notices = append(notices, int(s))
			}
		}
	}
	sort.Ints(notices)
	deadl := []int{}
	for s := range dead {
		deadl = append(deadl, int(s))
	}
	sort.Ints(deadl)
	cmu.Lock()
	defer cmu.Unlock()
	nrows, ncomp := 0, 0
	for _, r := range osResps {
		nrows += len(r)
		for _, x := range r {
			if x["l"].(int) != 0 {
				ncomp++
			}
		}
	}
	nonEmpty := [][]vObj{}
	for _, r := range osResps {
		if len(r) > 0 {
			nonEmpty = append(nonEmpty, r)
		}
	}
	stats["oneshot_requests"], stats["oneshot_rows"], stats["compound_tokens"], stats["continuous_rows"] = len(osResps), nrows, ncomp, len(ctRows)
	stats["numbers_reserved"], stats["notices"] = int(c1-c0), len(notices)
	stats["late_arrivals"] = cumSkipped - len(cache1["skip"].([]int)) // skipped, then arrived (or declared unused) after all
	stats["settle_ms"] = int(settle / time.Millisecond)
	if !feedComplete {
		stats["feed_incomplete"] = 1
	}
	lt, err := ParsePlainSequenceID(osTok)
	if err != nil {
		t.Fatalf("VERIF-FATAL Pipeline storm: last token %q: %v", osTok, err)
	}
	return vObj{"a": "Storm", "round": round, "seed": int(seed), "cfg": vObj{"mn": opts.CachePendingSeqMaxNum, "conflicts": conflicts}, "c0": int(c0), "c1": int(c1),
		"docs": docs, "attempts": atts, "notices": notices, "dead": deadl, "delivered": delivered, "cache1": cache1, "cache2": cache2, "top": int(top),
		"os": vObj{"resps": nonEmpty, "last": []int{int(lt.LowSeq), int(lt.Seq)}}, "ct": vObj{"rows": ctRows}, "stats": stats}
}

func TestVerif_Pipeline_Storm(t *testing.T) {
	p := os.Getenv("VERIF_TRACE_OUT_FREE")
	if p == "" {
		t.Skip("VERIF_TRACE_OUT_FREE not set (harness is driven by /verif/bin/vcheck)")
	}
	f, err := os.OpenFile(p, os.O_CREATE|os.O_WRONLY|os.O_APPEND, 0o644)
	if err != nil {
		t.Fatalf("VERIF-FATAL cannot open %s: %v", p, err)
	}
	defer f.Close()
	rounds := vEnvInt("VERIF_PIPELINE_STORMS", 2)
	writes := vEnvInt("VERIF_PIPELINE_STORM_WRITES", 40)
	for r := 0; r < rounds; r++ {
		line := vPLStormRun(t, r, vSeed()*1000+int64(r), writes)
		b, err := json.Marshal(line)
		if err != nil {
			t.Fatalf("VERIF-FATAL marshal: %v", err)
		}
		f.Write(append(b, '\n'))
	}
}

// ---------------------------------------------------------------------------------------------------------------
// The cache's own abandonment timer: a reservation that never arrives is skipped after CachePendingSeqMaxWait and given
// up on by CleanSkippedSequenceQueue after CacheSkippedSeqMaxWait (2 s here; the task runs every second).
// ---------------------------------------------------------------------------------------------------------------
func TestVerif_Pipeline_Abandon(t *testing.T) {
	p := os.Getenv("VERIF_TRACE_OUT_FREE")
	if p == "" {
		t.Skip("VERIF_TRACE_OUT_FREE not set (harness is driven by /verif/bin/vcheck)")
	}
	f, err := os.OpenFile(p, os.O_CREATE|os.O_WRONLY|os.O_APPEND, 0o644)
	if err != nil {
		t.Fatalf("VERIF-FATAL cannot open %s: %v", p, err)
	}
	defer f.Close()
	defer SuspendSequenceBatching()()
	opts := DefaultCacheOptions()
	opts.CachePendingSeqMaxWait = 10 * time.Millisecond
	opts.CachePendingSeqMaxNum = 50
	opts.CacheSkippedSeqMaxWait = 2 * time.Second
	db, ctx := SetupTestDBWithOptions(t, DatabaseContextOptions{CacheOptions: &opts})
	defer db.Close(ctx)
	col := GetSingleDatabaseCollection(t, db.DatabaseContext)
	vs, _ := col.dataStore.(sgbucket.ViewStore)
	col.dataStore = &vPLStore{DataStore: col.dataStore, ViewStore: vs}
	cu := &DatabaseCollectionWithUser{DatabaseCollection: col}
	wait := func(what string, max time.Duration, cond func() bool) bool {
		for deadline := time.Now().Add(max); time.Now().Before(deadline); {
			if cond() {
				return true
			}
			time.Sleep(2 * time.Millisecond)
		}
		return cond()
	}
	if _, _, err := cu.Put(ctx, "plab0", Body{"k": 0}); err != nil {
		t.Fatalf("VERIF-FATAL Pipeline abandon: %v", err)
	}
	if !wait("warm-up", vPLWaitMax, func() bool { return db.changeCache.getNextSequence() >= 2 }) {
		t.Fatalf("VERIF-FATAL Pipeline abandon: warm-up write never cached")
	}
	c0, _ := db.sequences.getSequence(ctx)
	// a write that times out without effect: its number stays reserved
	w := &vPLWriter{name: "die", auto: "die"}
	_, _, derr := cu.Put(context.WithValue(ctx, vPLCtxKey{}, w), "plab1", Body{"k": 1})
	// ... and one that follows it
	_, doc2, err := cu.Put(ctx, "plab2", Body{"k": 2})
	if err != nil || doc2 == nil {
		t.Fatalf("VERIF-FATAL Pipeline abandon: second write: %v", err)
	}
	c1, _ := db.sequences.getSequence(ctx)
	deadSeq := w.attSeq
	sawSkipped := wait("skip", 30*time.Second, func() bool { return db.changeCache.WasSkipped(deadSeq) })
	t0 := time.Now()
	cleared := wait("abandon", 60*time.Second, func() bool { return db.changeCache.getOldestSkippedSequence(ctx) == 0 })
	db.changeCache.lock.RLock()
	next, stable := db.changeCache.nextSequence, db.changeCache._getMaxStableCached(ctx)
	db.changeCache.lock.RUnlock()
	line := vObj{"a": "TimerAbandon", "c0": int(c0), "c1": int(c1), "dead": []int{int(deadSeq)}, "timeout_error": derr != nil && base.IsTimeoutError(derr),
		"second": int(doc2.Sequence), "saw_skipped": sawSkipped, "cleared": cleared, "cleared_after_ms": int(time.Since(t0) / time.Millisecond),
		"next": int(next), "stable": int(stable), "abandoned": int(db.DbStats.Cache().AbandonedSeqs.Value())}
	b, _ := json.Marshal(line)
	f.Write(append(b, '\n'))
}
