//go:build verif

package db

// C13 binding: replays TLC-generated behaviours of specs/Revocation on ONE real database (Rosmar, views) whose sync
// function turns body fields into channel()/access()/role() calls, and plays a protocol-following pull client:
//
//	Page(lim)   one changes request as the user (GenerateChanges, Revocations: true, since = the STRING form of the last
//	            sequence received, limit lim); every row is applied:  revoked / all-channels-removed / deleted -> drop the
//	            document from the replica, otherwise fetch the current revision as the user (GetRev) and store its
//	            revision; a refused fetch leaves the replica unchanged.  A page that returns fewer rows than its limit
//	            (or has no limit) completes the pull.
//
// The client is the environment (a model of a client), not an oracle: no assertion about the property is made here.
// After every step the harness records the REAL state: the admin view of every document (current revision, tombstone,
// channels, and the raw sync metadata: sequence, channel map, channel-set history, access / role_access maps) and the
// raw principal documents (explicit grants, computed channels / roles with their since-sequences, invalidation sequences,
// grant histories).  For a page it records every row (token, id, revision, removed, all-removed, revoked, deleted),
// every fetch result, the probe fetch made after a revoked row, the replica and the resume token.
// Sequences are recorded relative to the database's last sequence at the start of the behaviour (sequence batching is
// suspended, so allocation is one by one); TLC evaluates the property on the trace (specs/Revocation/Trace_Revocation.tla).

import (
	"context"
	"encoding/json"
	"errors"
	"fmt"
	"sort"
	"strconv"
	"strings"
	"testing"
	"time"

	"github.com/couchbase/sync_gateway/auth"
	"github.com/couchbase/sync_gateway/base"
	"github.com/couchbase/sync_gateway/channels"
)

const vC13SyncFn = `function(doc, oldDoc, meta){
  var g = doc.grants || [];
  for (var i = 0; i < g.length; i++) { access(g[i].u, g[i].c); }
  var r = doc.roles || [];
  for (var i = 0; i < r.length; i++) { role(r[i].u, r[i].r); }
  channel(doc.chans || []);
}`

type vC13Grant struct {
	Acc  map[string][]string `json:"acc"`
	Racc map[string][]string `json:"racc"`
}

type vC13Step struct {
	A   string     `json:"a"`
	P   string     `json:"p"`
	D   string     `json:"d"`
	Cs  []string   `json:"cs"`
	Rs  []string   `json:"rs"`
	G   *vC13Grant `json:"g"`
	Lim any        `json:"lim"`
}

type vC13Beh struct {
	ID    int        `json:"id"`
	Steps []vC13Step `json:"steps"`
}

var (
	vC13Users = []string{"u1", "u2"}
	vC13Roles = []string{"r1", "r2"}
	vC13Docs  = []string{"d1", "d2", "d3"}
	vC13Chans = []string{"A", "B", "C"}
	vC13Pull  = "u1" // the pulling user
)

func vC13Sorted(s []string) []string {
	if s == nil {
		s = []string{}
	}
	sort.Strings(s)
	return s
}

func vC13Gen(rev string) int {
	i := strings.IndexByte(rev, '-')
	if i <= 0 {
		return 0
	}
	n, _ := strconv.Atoi(rev[:i])
	return n
}

func TestVerif_C13_Revocation(t *testing.T) {
	var behs []vC13Beh
	vReadJSON(t, "VERIF_BEH", &behs)
	tw := vOpenTrace(t, "VERIF_TRACE_OUT")
	defer tw.Close()
	defer SuspendSequenceBatching()()

	cacheOptions := DefaultCacheOptions()
	if ql := vEnvInt("VERIF_C13_QLIMIT", 0); ql > 0 {
		// small channel query page: the pagination loops of changesFeed / buildRevokedFeed run even without a client limit
		cacheOptions.ChannelQueryLimit = ql
	}
	db, ctx := SetupTestDBWithOptions(t, DatabaseContextOptions{CacheOptions: &cacheOptions, ClientPartitionWindow: base.DefaultClientPartitionWindow})
	defer db.Close(ctx)
	db.AllowEmptyPassword = true
	col, ctx := GetSingleDatabaseCollectionWithUser(ctx, t, db)
	if _, err := col.UpdateSyncFun(ctx, vC13SyncFn); err != nil {
		t.Fatalf("VERIF-FATAL UpdateSyncFun: %v", err)
	}
	scope, coll := col.ScopeName, col.Name
	isDefault := base.IsDefaultCollection(scope, coll)
	princs := append(append([]string{}, vC13Users...), vC13Roles...)

	for _, b := range behs {
		bi := b.ID
		si := 0
		fatal := func(what string, err error) {
			t.Fatalf("VERIF-FATAL behaviour %d step %d: %s: %v", bi, si, what, err)
		}
		prefix := fmt.Sprintf("b%dx", b.ID)
		real := func(m string) string { return prefix + m }
		model := func(r string) string { return strings.TrimPrefix(r, prefix) }
		isUser := func(m string) bool { return strings.HasPrefix(m, "u") }
		accessName := func(m string) string {
			if isUser(m) {
				return real(m)
			}
			return channels.RoleAccessPrefix + real(m)
		}
		authr := func() *auth.Authenticator { return db.Authenticator(ctx) }
		docKey := func(m string) string {
			if isUser(m) {
				return authr().DocIDForUser(real(m))
			}
			return authr().DocIDForRole(real(m))
		}
		baseSeq, err := db.sequences.lastSequence(ctx)
		if err != nil {
			fatal("lastSequence", err)
		}
		rel := func(s uint64) int { // sequences relative to the start of this behaviour: the first one allocated is 2 (0 stays 0)
			if s == 0 {
				return 0
			}
			if s <= baseSeq {
				fatal("sequence from before this behaviour", fmt.Errorf("%d <= %d", s, baseSeq))
			}
			return int(s-baseSeq) + 1
		}
		revs := map[string]string{} // model doc -> current revision id (as written by the harness)

		// ---- projection of the real state ---------------------------------------------------------------
		timedSet := func(x any, names func(string) string, dropPublic bool) vObj {
			res := vObj{}
			m, _ := x.(map[string]any)
			for k, v := range m {
				if dropPublic && k == channels.DocumentPublicChannel {
					continue
				}
				var s uint64
				switch vv := v.(type) {
				case float64:
					s = uint64(vv)
				case map[string]any: // {"seq":n} form
					if f, ok := vv["seq"].(float64); ok {
						s = uint64(f)
					}
				}
				res[names(k)] = rel(s)
			}
			return res
		}
		history := func(x any, names func(string) string) vObj {
			res := vObj{}
			m, _ := x.(map[string]any)
			for k, v := range m {
				if k == channels.DocumentPublicChannel {
					continue
				}
				ents := [][]int{}
				if hm, ok := v.(map[string]any); ok {
					if es, ok := hm["entries"].([]any); ok {
						for _, e := range es {
							str, _ := e.(string)
							sep := "-"
							if !strings.Contains(str, "-") {
								sep = "~"
							}
							parts := strings.Split(str, sep)
							if len(parts) != 2 {
								fatal("history entry", fmt.Errorf("%q", str))
							}
							a, _ := strconv.ParseUint(parts[0], 10, 64)
							z, _ := strconv.ParseUint(parts[1], 10, 64)
							ents = append(ents, []int{rel(a), rel(z)})
						}
					}
				}
				res[names(k)] = ents
			}
			return res
		}
		num := func(x any) uint64 {
			f, _ := x.(float64)
			return uint64(f)
		}
		chanName := func(s string) string { return model(s) }
		roleName := func(s string) string { return model(s) }
		state := func() vObj {
			pr := vObj{}
			for _, p := range princs {
				ent := vObj{"ex": false, "del": false, "useq": 0, "expl": vObj{}, "chs": vObj{}, "cinv": 0, "chist": vObj{},
					"rexpl": vObj{}, "rls": vObj{}, "rinv": 0, "rhist": vObj{}}
				raw, _, err := db.MetadataStore.GetRaw(ctx, docKey(p))
				if err == nil && raw != nil {
					var m map[string]any
					if err := json.Unmarshal(raw, &m); err != nil {
						fatal("principal doc", err)
					}
					ent["ex"] = true
					if d, ok := m["deleted"].(bool); ok {
						ent["del"] = d
					}
					ent["useq"] = rel(num(m["sequence"]))
					var ca map[string]any
					if isDefault {
						ca = m
					} else if x, ok := m["collection_access"].(map[string]any); ok {
						if y, ok := x[scope].(map[string]any); ok {
							ca, _ = y[coll].(map[string]any)
						}
					}
					if ca != nil {
						ent["expl"] = timedSet(ca["admin_channels"], chanName, true)
						ent["chs"] = timedSet(ca["all_channels"], chanName, true)
						ent["cinv"] = rel(num(ca["channel_inval_seq"]))
						ent["chist"] = history(ca["channel_history"], chanName)
					}
					if isUser(p) {
						ent["rexpl"] = timedSet(m["explicit_roles"], roleName, false)
						ent["rls"] = timedSet(m["rolesSince"], roleName, false)
						ent["rinv"] = rel(num(m["role_inval_seq"]))
						ent["rhist"] = history(m["role_history"], roleName)
					}
				} else if err != nil && !base.IsDocNotFoundError(err) {
					fatal("read principal doc", err)
				}
				pr[p] = ent
			}
			docs := vObj{}
			for _, d := range vC13Docs {
				ent := vObj{"seq": 0, "rev": 0, "del": false, "chans": []string{}, "cmap": vObj{}, "cset": [][]any{}, "acc": vObj{}, "racc": vObj{}}
				if revs[d] != "" {
					sd, err := col.GetDocSyncData(ctx, real(d))
					if err != nil {
						fatal("GetDocSyncData "+d, err)
					}
					ent["seq"] = rel(sd.Sequence)
					ent["rev"] = vC13Gen(sd.GetRevTreeID())
					ent["del"] = (sd.Flags & channels.Deleted) != 0
					cur := []string{}
					cmap := vObj{}
					for c, rm := range sd.Channels {
						if rm == nil {
							cur = append(cur, chanName(c))
						} else {
							cmap[chanName(c)] = vObj{"seq": rel(rm.Seq), "rev": vC13Gen(rm.Rev.RevTreeID), "del": rm.Deleted}
						}
					}
					ent["chans"] = vC13Sorted(cur)
					ent["cmap"] = cmap
					cset := [][]any{}
					for _, e := range append(append([]ChannelSetEntry{}, sd.ChannelSet...), sd.ChannelSetHistory...) {
						cset = append(cset, []any{chanName(e.Name), rel(e.Start), rel(e.End)})
					}
					sort.Slice(cset, func(i, j int) bool { return fmt.Sprint(cset[i]) < fmt.Sprint(cset[j]) })
					ent["cset"] = cset
					known := map[string]string{}
					for _, p := range princs {
						known[accessName(p)] = p
					}
					acc, racc := vObj{}, vObj{}
					for name, ts := range sd.Access {
						p, ok := known[name]
						if !ok {
							fatal("unexpected grantee in access map", fmt.Errorf("%s", name))
						}
						m := vObj{}
						for c, vs := range ts {
							m[chanName(c)] = rel(vs.Sequence)
						}
						acc[p] = m
					}
					for name, ts := range sd.RoleAccess {
						p, ok := known[name]
						if !ok || !isUser(p) {
							fatal("unexpected grantee in role_access map", fmt.Errorf("%s", name))
						}
						m := vObj{}
						for r, vs := range ts {
							m[roleName(r)] = rel(vs.Sequence)
						}
						racc[p] = m
					}
					ent["acc"], ent["racc"] = acc, racc
				}
				docs[d] = ent
			}
			last, err := db.sequences.lastSequence(ctx)
			if err != nil {
				fatal("lastSequence", err)
			}
			lastRel := 1
			if last > baseSeq {
				lastRel = rel(last)
			}
			return vObj{"pr": pr, "docs": docs, "seq": lastRel}
		}
		emit := func(o vObj) {
			for k, v := range state() {
				o[k] = v
			}
			tw.Emit(o)
		}
		gOut := func(g *vC13Grant) vObj {
			acc, racc := vObj{}, vObj{}
			for _, p := range princs {
				acc[p] = vC13Sorted(append([]string{}, g.Acc[p]...))
			}
			for _, u := range vC13Users {
				racc[u] = vC13Sorted(append([]string{}, g.Racc[u]...))
			}
			return vObj{"acc": acc, "racc": racc}
		}
		nonce := 0
		bodyOf := func(cs []string, g *vC13Grant) Body {
			nonce++
			grants, roles, chans := []any{}, []any{}, []string{}
			for _, c := range cs {
				chans = append(chans, real(c))
			}
			for _, p := range princs {
				if len(g.Acc[p]) > 0 {
					rc := []string{}
					for _, c := range g.Acc[p] {
						rc = append(rc, real(c))
					}
					grants = append(grants, map[string]any{"u": accessName(p), "c": rc})
				}
			}
			for _, u := range vC13Users {
				if len(g.Racc[u]) > 0 {
					rs := []string{}
					for _, r := range g.Racc[u] {
						rs = append(rs, channels.RoleAccessPrefix+real(r))
					}
					roles = append(roles, map[string]any{"u": real(u), "r": rs})
				}
			}
			return Body{"grants": grants, "roles": roles, "chans": chans, "n": nonce}
		}
		userCol := func() *DatabaseCollectionWithUser { // a request authenticates: the user is loaded afresh
			usr, err := authr().GetUser(real(vC13Pull))
			if err != nil {
				fatal("GetUser", err)
			}
			if usr == nil {
				return nil
			}
			return &DatabaseCollectionWithUser{DatabaseCollection: col.DatabaseCollection, user: usr}
		}
		fetch := func(d string) (bool, int, string) {
			uc := userCol()
			if uc == nil {
				return false, 0, "no user"
			}
			rev, err := uc.GetRev(ctx, real(d), "", false, nil)
			if err != nil {
				return false, 0, err.Error()
			}
			return true, vC13Gen(rev.RevID), ""
		}

		// generous liveness bound (wall clock): the cache must reach the last allocated sequence; a stall is an infrastructure
		// failure (VERIF-FATAL -> inconclusive), reported with the place it happened
		waitCache := func(where string) {
			last, err := db.sequences.lastSequence(ctx)
			if err != nil {
				fatal("lastSequence", err)
			}
			deadline := time.Now().Add(90 * time.Second)
			for db.changeCache.getNextSequence() < last+1 {
				if time.Now().After(deadline) {
					fatal("change cache stalled "+where, fmt.Errorf("next sequence %d, last allocated %d", db.changeCache.getNextSequence(), last))
				}
				time.Sleep(2 * time.Millisecond)
			}
		}

		// ---- the client ---------------------------------------------------------------------------------
		replica := map[string]int{}
		since := "0"
		sinceTok := []int{0, 0, 0}
		replicaOut := func() vObj {
			o := vObj{}
			for _, d := range vC13Docs {
				o[d] = replica[d] // 0 = not held
			}
			return o
		}
		page := func(lim int) {
			waitCache("before page")
			o := vObj{"a": "Page", "lim": lim, "since0": append([]int{}, sinceTok...), "found": true}
			rows, fetches, probes := []vObj{}, []vObj{}, []vObj{}
			// a request loads the user and, lazily, the roles it needs; the binding loads every role up front so that the
			// recomputation of role documents happens at a defined point (specs/Revocation: ImplPage = LoadedAll + Feed)
			for _, r := range vC13Roles {
				if _, err := authr().GetRoleIncDeleted(real(r)); err != nil {
					fatal("load role", err)
				}
			}
			uc := userCol()
			if uc == nil {
				o["found"] = false
			} else {
				sinceID, err := ParsePlainSequenceID(since)
				if err != nil {
					fatal("parse since "+since, err)
				}
				cctx, cancel := context.WithCancel(ctx)
				opts := ChangesOptions{Since: sinceID, SinceRaw: since, Limit: lim, Revocations: true, ChangesCtx: cctx}
				var entries []*ChangeEntry
				err, _ = GenerateChanges(ctx, uc, base.SetOf(channels.AllChannelWildcard), opts, nil, func(es []*ChangeEntry) error {
					entries = append(entries, es...)
					return nil
				})
				cancel()
				if err != nil {
					fatal("GenerateChanges", err)
				}
				if vEnvInt("VERIF_C13_DEBUG", 0) > 0 {
					ch, _ := uc.user.InheritedCollectionChannels(scope, coll)
					t.Logf("C13DBG page since=%s lim=%d entries=%d user=%s chans=%v cached=%d oldestSkipped=%d", since, lim, len(entries), uc.user.Name(), ch, uc.changeCache().getChannelCache().GetHighCacheSequence(), uc.changeCache().getOldestSkippedSequence(ctx))
					for _, e := range entries {
						if e != nil {
							t.Logf("C13DBG   entry %s", e.String())
						}
					}
					for _, p := range princs {
						raw, _, _ := db.MetadataStore.GetRaw(ctx, docKey(p))
						t.Logf("C13DBG   %s %s", p, string(raw))
					}
				}
				for _, e := range entries {
					if e == nil {
						continue
					}
					if e.Err != nil {
						fatal("changes entry error", e.Err)
					}
					since = e.Seq.String() // the client keeps the STRING the server handed out
					parsed, perr := ParsePlainSequenceID(since)
					if perr != nil {
						fatal("token handed out does not parse: "+since, perr)
					}
					sinceTok = []int{rel(parsed.LowSeq), rel(parsed.TriggeredBy), rel(parsed.Seq)}
					row := vObj{"tok": []int{rel(e.Seq.LowSeq), rel(e.Seq.TriggeredBy), rel(e.Seq.Seq)}, "str": since, "id": "", "rev": 0, "rm": []string{}, "ar": e.allRemoved, "rv": e.Revoked, "del": e.Deleted}
					if strings.HasPrefix(e.ID, "_user/") || e.principalDoc {
						row["id"] = "_user"
						rows = append(rows, row)
						continue
					}
					d := model(e.ID)
					row["id"] = d
					if len(e.Changes) > 0 {
						row["rev"] = vC13Gen(e.Changes[0][ChangesVersionTypeRevTreeID])
					}
					rm := []string{}
					for c := range e.Removed {
						rm = append(rm, chanName(c))
					}
					row["rm"] = vC13Sorted(rm)
					rows = append(rows, row)
					// Apply(row)
					if e.Revoked || e.allRemoved || e.Deleted {
						delete(replica, d)
						if e.Revoked { // observation only: can the user still fetch a document announced as revoked?
							ok, rev, why := fetch(d)
							probes = append(probes, vObj{"d": d, "ok": ok, "rev": rev, "why": why})
						}
					} else {
						ok, rev, why := fetch(d)
						fetches = append(fetches, vObj{"d": d, "ok": ok, "rev": rev, "why": why})
						if ok {
							replica[d] = rev
						}
					}
				}
			}
			o["rows"], o["fetches"], o["probes"] = rows, fetches, probes
			o["done"] = lim == 0 || len(rows) < lim
			o["replica"] = replicaOut()
			o["since"] = append([]int{}, sinceTok...)
			o["sincestr"] = since
			emit(o)
		}

		// ---- replay -------------------------------------------------------------------------------------
		tw.Emit(vObj{"a": "Reset", "beh": b.ID})
		var st vC13Step
		for si, st = range b.Steps {
			switch st.A {
			case "AdminPut":
				name := real(st.P)
				pc := &auth.PrincipalConfig{Name: &name}
				rc := []string{}
				for _, c := range st.Cs {
					rc = append(rc, real(c))
				}
				if isDefault {
					pc.ExplicitChannels = base.SetFromArray(rc)
				} else {
					pc.SetExplicitChannels(scope, coll, rc...)
				}
				if isUser(st.P) {
					rs := []string{}
					for _, r := range st.Rs {
						rs = append(rs, real(r))
					}
					pc.ExplicitRoleNames = base.SetFromArray(rs)
				}
				if _, _, err := db.UpdatePrincipal(ctx, pc, isUser(st.P), true); err != nil {
					fatal("UpdatePrincipal", err)
				}
				emit(vObj{"a": "AdminPut", "p": st.P, "cs": vC13Sorted(append([]string{}, st.Cs...)), "rs": vC13Sorted(append([]string{}, st.Rs...))})
			case "RoleDel":
				if err := db.DeleteRole(ctx, real(st.P), false); err != nil {
					fatal("DeleteRole", err)
				}
				emit(vObj{"a": "RoleDel", "p": st.P})
			case "DocPut":
				if st.G == nil {
					st.G = &vC13Grant{}
				}
				body := bodyOf(st.Cs, st.G)
				if revs[st.D] != "" {
					sd, err := col.GetDocSyncData(ctx, real(st.D))
					if err != nil {
						fatal("GetDocSyncData", err)
					}
					if (sd.Flags & channels.Deleted) == 0 { // a tombstone is resurrected by a Put without _rev
						body[BodyRev] = revs[st.D]
					}
				}
				rev, _, err := col.Put(ctx, real(st.D), body)
				if err != nil {
					fatal("Put", err)
				}
				revs[st.D] = rev
				emit(vObj{"a": "DocPut", "d": st.D, "cs": vC13Sorted(append([]string{}, st.Cs...)), "g": gOut(st.G)})
			case "DocDel":
				rev, _, err := col.DeleteDoc(ctx, real(st.D), DocVersion{RevTreeID: revs[st.D]})
				if err != nil {
					fatal("DeleteDoc", err)
				}
				revs[st.D] = rev
				emit(vObj{"a": "DocDel", "d": st.D})
			case "Load":
				var err error
				if isUser(st.P) {
					_, err = authr().GetUser(real(st.P))
				} else {
					_, err = authr().GetRoleIncDeleted(real(st.P))
				}
				if err != nil {
					fatal("Load", err)
				}
				emit(vObj{"a": "Load", "p": st.P})
			case "Page":
				page(vInt(st.Lim))
			default:
				t.Fatalf("VERIF-FATAL unknown action %q", st.A)
			}
			// let the change cache see every sequence before the next write: two quick updates of one principal document are
			// de-duplicated by the feed, the earlier sequence would then be "skipped" (5 s wait, LowSeq in every token)
			waitCache(fmt.Sprintf("after %s", st.A))
		}

		// ---- cleanup: keep the shared database small ------------------------------------------------------
		waitCache("before cleanup")
		for _, d := range vC13Docs {
			if revs[d] != "" {
				_ = col.Purge(ctx, real(d), false)
			}
		}
		for _, u := range vC13Users {
			if usr, err := authr().GetUser(real(u)); err == nil && usr != nil {
				_ = authr().DeleteUser(usr)
			}
		}
		for _, r := range vC13Roles {
			if role, err := authr().GetRoleIncDeleted(real(r)); err == nil && role != nil {
				_ = authr().DeleteRole(role, true, 0)
			}
		}
	}
}

var _ = errors.New
