//go:build verif

package db

// C05 binding: schedule-forcing replay of TLC behaviours of specs/DocUpdate on a real database over a LeakyBucket.
//
// N goroutine writers call the real Put / PutExistingRevWithBody / DeleteDoc.  LeakyBucketConfig.UpdateCallback (called
// after the document update callback computed the new document and before the CAS write) is the gate that parks a
// writer between compute and CAS.  The scheduler releases exactly one writer at a time, in the order of the TLC
// behaviour, and waits until that writer parks again or returns - so the TLC interleaving is the interleaving the
// real code runs.  The parked writer is "the one that is currently released" (no goroutine ids).
// After every step the harness records the REAL bucket document (raw _sync xattr: revision tree, current rev,
// sequence, unused_sequences, recent_sequences, cas), the sequence allocator (last handed out, released
// _sync:unusedSeq docs) and each writer's status / return value; after quiescence the changes feed.
// No property is asserted here - the oracle is specs/DocUpdate (Trace_DocUpdate passes P and C).

import (
	"context"
	"errors"
	"fmt"
	"sort"
	"sync"
	"sync/atomic"
	"testing"
	"time"

	sgbucket "github.com/couchbase/sg-bucket"
	"github.com/couchbase/sync_gateway/base"
)

type vC05Step struct {
	A string `json:"a"`
	W any    `json:"w"`
	K string `json:"k"`
	P any    `json:"p"`
	E string `json:"e"`
}
type vC05Conf struct {
	Allow bool `json:"allow"`
	N     any  `json:"n"`
	Tomb  bool `json:"tomb"`
	Nw    any  `json:"nw"`
	Ahead []any `json:"ahead"` // writers whose version is generated while the gateway's hybrid clock is ahead of the bucket's
}
type vC05Beh struct {
	Conf  vC05Conf   `json:"conf"`
	Steps []vC05Step `json:"steps"`
}

const vC05MaxWriters = 3

// how far the gateway's clock runs ahead for an "ahead" writer: the writer sleeps about this long after its commit; it must
// exceed the time the writer spends parked between computing and writing, else the clocks have met and nothing is re-stamped
// (the spec allows both outcomes)
const vC05Skew = 80 * time.Millisecond

type vC05Writer struct {
	id        int
	kind      string
	parg      int
	st        string // idle | begun | computed | failed | restamp | committed | errored | done
	ahead     bool
	release   chan struct{}
	started   bool
	lastErr   error // error returned by the last run of the update callback (observed, not decided, by the harness)
	cbRuns    int
	parentStr string
	pushHist  []string
	body      Body
	retRev    string
	retSeq    uint64
	retErr    error
	delivered bool
}

type vC05Harness struct {
	t    *testing.T
	db   *Database
	ctx  context.Context
	col  *DatabaseCollectionWithUser // observation (unwrapped data store)
	wcol *DatabaseCollectionWithUser // used by the writers: data store wrapped by the callback-result observer

	mu       sync.Mutex
	key      string
	cur      *vC05Writer
	draining bool
	events   chan string // "parked" | "restamp" | "done"
	skew     atomic.Uint64

	// per behaviour
	docid   string
	base    uint64
	n       int
	ws      []*vC05Writer
	revID   map[string]int
	revStr  map[int]string
	strange int
	casRank map[uint64]int
	casNext int
	relSeen map[uint64]bool
	lastRel uint64
}

// vC05Observer sits above the LeakyDataStore: it only records the error returned by each run of the update
// callback (the gate itself is LeakyDataStore's UpdateCallback, which cannot see it).
type vC05Observer struct {
	base.DataStore
	h *vC05Harness
}

func (o *vC05Observer) WriteUpdateWithXattrs(ctx context.Context, k string, xattrKeys []string, exp uint32, previous *sgbucket.BucketDocument, opts *sgbucket.MutateInOptions, callback sgbucket.WriteUpdateWithXattrsFunc) (uint64, error) {
	wrapped := func(current []byte, xattrs map[string][]byte, cas uint64) (sgbucket.UpdatedDoc, error) {
		ud, err := callback(current, xattrs, cas)
		o.h.mu.Lock()
		if k == o.h.key && o.h.cur != nil {
			o.h.cur.lastErr = err
			o.h.cur.cbRuns++
		}
		o.h.mu.Unlock()
		return ud, err
	}
	return o.DataStore.WriteUpdateWithXattrs(ctx, k, xattrKeys, exp, previous, opts, wrapped)
}

// gate2 is LeakyBucketConfig.UpdateXattrsCallback: the post-commit CAS re-stamp of correctVersionAheadOfCAS goes through
// UpdateXattrs; the writer is parked after its commit (and its catch-up sleep) and before the re-stamp write.
func (h *vC05Harness) gate2(key string) {
	h.mu.Lock()
	if key != h.key || h.cur == nil || h.draining {
		h.mu.Unlock()
		return
	}
	w := h.cur
	h.mu.Unlock()
	h.events <- "restamp"
	<-w.release
}

// gate is LeakyBucketConfig.UpdateCallback.
func (h *vC05Harness) gate(key string) {
	h.mu.Lock()
	if key != h.key || h.cur == nil || h.draining {
		h.mu.Unlock()
		return
	}
	w := h.cur
	h.mu.Unlock()
	h.events <- "parked"
	<-w.release
}

func vC05NewHarness(t *testing.T, allow bool) *vC05Harness {
	h := &vC05Harness{t: t, events: make(chan string, 8)}
	tb := base.GetTestBucket(t)
	lb := base.NewLeakyBucket(tb, base.LeakyBucketConfig{UpdateCallback: h.gate, UpdateXattrsCallback: h.gate2})
	co := DefaultCacheOptions()
	co.CachePendingSeqMaxWait = 100 * time.Millisecond // a leaked sequence (candidate F2) is skipped after this long; only affects how long Quiesce waits
	h.db, h.ctx = SetupTestDBForBucketWithOptions(t, lb, DatabaseContextOptions{CacheOptions: &co, AllowConflicts: base.Ptr(allow)})
	h.col, h.ctx = GetSingleDatabaseCollectionWithUser(h.ctx, t, h.db)
	// the gateway's hybrid clock = the bucket's clock + skew; skew is non-zero only while an "ahead" writer runs
	h.db.hlc.SetClockForTest(func() uint64 { return sgbucket.HLCWallClock() + h.skew.Load() })
	cc := *h.col.DatabaseCollection
	cc.dataStore = &vC05Observer{DataStore: h.col.dataStore, h: h}
	h.wcol = &DatabaseCollectionWithUser{DatabaseCollection: &cc}
	return h
}

// run makes w the only runnable writer until it parks at the gate or returns.
func (h *vC05Harness) run(w *vC05Writer) {
	h.mu.Lock()
	h.cur = w
	h.mu.Unlock()
	if w.ahead {
		h.skew.Store(uint64(vC05Skew))
	} else {
		h.skew.Store(0)
	}
	if !w.started {
		w.started = true
		go h.exec(w)
	} else {
		w.release <- struct{}{}
	}
	var ev string
	select {
	case ev = <-h.events:
	case <-time.After(120 * time.Second):
		h.t.Fatalf("VERIF-FATAL C05: writer %d neither parked nor returned within 120s (doc %s)", w.id, h.docid)
	}
	h.mu.Lock()
	h.cur = nil
	h.mu.Unlock()
	if ev == "restamp" {
		w.st = "restamp"
	} else if ev == "parked" {
		if w.lastErr == nil {
			w.st = "computed"
		} else {
			w.st = "failed"
		}
	} else {
		if w.retErr == nil {
			w.st = "committed"
		} else {
			w.st = "errored"
		}
	}
}

// advance lets writer w take its next step: start it, or release it from the gate; a writer that already returned stays.
func (h *vC05Harness) advance(w *vC05Writer) {
	if w.st == "begun" || w.st == "computed" || w.st == "failed" || w.st == "restamp" {
		h.run(w)
	}
}

func (h *vC05Harness) exec(w *vC05Writer) {
	switch w.kind {
	case "put":
		b := w.body.ShallowCopy()
		if w.parentStr != "" {
			b[BodyRev] = w.parentStr
		}
		rev, doc, err := h.wcol.Put(h.ctx, h.docid, b)
		w.retRev, w.retErr = rev, err
		if doc != nil {
			w.retSeq = doc.Sequence
		}
	case "del":
		rev, doc, err := h.wcol.DeleteDoc(h.ctx, h.docid, DocVersion{RevTreeID: w.parentStr})
		w.retRev, w.retErr = rev, err
		if doc != nil {
			w.retSeq = doc.Sequence
		}
	case "push":
		doc, rev, err := h.wcol.PutExistingRevWithBody(h.ctx, h.docid, w.body.ShallowCopy(), w.pushHist, false, ExistingVersionWithUpdateToHLV)
		w.retRev, w.retErr = rev, err
		if doc != nil {
			w.retSeq = doc.Sequence
		}
	default:
		w.retErr = fmt.Errorf("VERIF-FATAL unknown kind %q", w.kind)
	}
	h.events <- "done"
}

// drain lets every started writer run to completion (gate open), used on abort and at the end of a behaviour.
func (h *vC05Harness) drain() {
	h.mu.Lock()
	h.draining = true
	h.mu.Unlock()
	for _, w := range h.ws {
		if w.started && (w.st == "computed" || w.st == "failed" || w.st == "restamp") {
			w.release <- struct{}{}
			select {
			case <-h.events:
			case <-time.After(120 * time.Second):
				h.t.Fatalf("VERIF-FATAL C05: writer %d did not return while draining", w.id)
			}
			w.st = "done"
		}
	}
	h.mu.Lock()
	h.draining = false
	h.key = ""
	h.mu.Unlock()
}

type vC05Raw struct {
	exists bool
	cas    uint64
	sd     SyncData
}

func (h *vC05Harness) readRaw() vC05Raw {
	_, xattrs, cas, err := h.col.dataStore.GetWithXattrs(h.ctx, h.docid, []string{base.SyncXattrName})
	if err != nil {
		if base.IsDocNotFoundError(err) {
			return vC05Raw{}
		}
		h.t.Fatalf("VERIF-FATAL C05: reading %s: %v", h.docid, err)
	}
	raw := xattrs[base.SyncXattrName]
	if len(raw) == 0 {
		return vC05Raw{}
	}
	r := vC05Raw{exists: true, cas: cas}
	if err := base.JSONUnmarshal(raw, &r.sd); err != nil {
		h.t.Fatalf("VERIF-FATAL C05: _sync of %s does not unmarshal: %v", h.docid, err)
	}
	return r
}

func (h *vC05Harness) rel(s uint64) int {
	if s <= h.base {
		return 0
	}
	return int(s - h.base)
}

// wid is the model's number of the revision writer w creates: 10+w for put / push; a DeleteDoc revision is determined by its
// parent alone (constant body), so two writers deleting the same parent create the same revision: 100+parent.
func (w *vC05Writer) wid() int {
	if w.kind == "del" {
		return 100 + w.parg
	}
	return 10 + w.id
}

// idOf maps a real revision id to the model's revision number: initial revisions 1..n, writer w's revision wid()
// (pushed id, returned id, or - for a revision nobody returned - the writer whose body digests to it), else 90+.
func (h *vC05Harness) idOf(rev string, tree RevTree) int {
	if rev == "" {
		return 0
	}
	if id, ok := h.revID[rev]; ok {
		return id
	}
	if info, ok := tree[rev]; ok {
		gen, _ := ParseRevID(h.ctx, rev)
		for _, w := range h.ws {
			if (w.kind != "put" && w.kind != "del") || (w.kind == "put" && h.revStr[w.wid()] != "") {
				continue
			}
			if w.kind == "del" && h.revID[info.Parent] != w.parg {
				continue
			}
			cands := []Body{}
			if w.kind == "put" {
				cands = append(cands, w.body)
			} else {
				cands = append(cands, Body{BodyDeleted: true}, Body{})
			}
			for _, c := range cands {
				cb, _ := base.JSONMarshalCanonical(c)
				if CreateRevIDWithBytes(gen, info.Parent, cb) == rev {
					h.revID[rev] = w.wid()
					h.revStr[w.wid()] = rev
					return w.wid()
				}
			}
		}
	}
	h.strange++
	h.revID[rev] = 90 + h.strange
	return 90 + h.strange
}

func vC05AheadList(xs []any) []int {
	out := []int{}
	for _, x := range xs {
		out = append(out, vInt(x))
	}
	return out
}

func vC05Ints(xs []uint64, f func(uint64) int) []int {
	out := []int{}
	for _, x := range xs {
		out = append(out, f(x))
	}
	sort.Ints(out)
	return out
}

// snapshot projects the real state into the spec's observable variables.
func (h *vC05Harness) snapshot(o vObj) vObj {
	r := h.readRaw()
	tree := [][]int{}
	cas, cur, seq := 0, 0, 0
	unused, recent := []int{}, []int{}
	if r.exists {
		if rk, ok := h.casRank[r.cas]; ok {
			cas = rk
		} else {
			cas = h.casNext
			h.casRank[r.cas] = cas
			h.casNext++
		}
		ids := make([]string, 0, len(r.sd.History))
		for id := range r.sd.History {
			ids = append(ids, id)
		}
		sort.Strings(ids)
		for _, id := range ids {
			info := r.sd.History[id]
			d := 0
			if info.Deleted {
				d = 1
			}
			tree = append(tree, []int{h.idOf(id, r.sd.History), h.idOf(info.Parent, r.sd.History), d})
		}
		sort.Slice(tree, func(i, j int) bool { return tree[i][0] < tree[j][0] })
		cur = h.idOf(r.sd.GetRevTreeID(), r.sd.History)
		seq = h.rel(r.sd.Sequence)
		unused = vC05Ints(r.sd.UnusedSequences, h.rel)
		recent = vC05Ints(r.sd.RecentSequences, h.rel)
	}
	// allocator: last sequence handed out, and which of (base, last] are published as unused
	sa := h.db.sequences
	sa.mutex.Lock()
	last := sa.last
	sa.mutex.Unlock()
	if cnt := h.db.DbStats.Database().SequenceReleasedCount.Value(); cnt != h.lastRel {
		h.lastRel = cnt
		for s := h.base + 1; s <= last; s++ {
			if h.relSeen[s] {
				continue
			}
			if _, _, err := h.db.MetadataStore.GetRaw(h.ctx, h.db.MetadataKeys.UnusedSeqKey(s)); err == nil {
				h.relSeen[s] = true
			}
		}
	}
	rel := []int{}
	for s := range h.relSeen {
		rel = append(rel, h.rel(s))
	}
	sort.Ints(rel)
	pcs, kinds, pargs, ress := []string{}, []string{}, []int{}, []vObj{}
	for _, w := range h.ws {
		pcs = append(pcs, w.st)
		kinds = append(kinds, w.kind)
		pargs = append(pargs, w.parg)
		res := vObj{"cls": "none", "rev": 0, "seq": 0}
		if w.delivered {
			if w.retErr == nil {
				id := 0
				if w.retRev != "" {
					if x, ok := h.revID[w.retRev]; ok {
						id = x
					} else {
						id = w.wid()
						h.revID[w.retRev] = id
						h.revStr[id] = w.retRev
					}
				}
				res = vObj{"cls": "ok", "rev": id, "seq": h.rel(w.retSeq)}
			} else {
				var he *base.HTTPError
				if errors.As(w.retErr, &he) && he.Status == 409 {
					res = vObj{"cls": "conflict", "rev": 0, "seq": 0}
				} else {
					res = vObj{"cls": "error", "rev": 0, "seq": 0, "msg": w.retErr.Error()}
				}
			}
		}
		ress = append(ress, res)
	}
	o["cas"], o["tree"], o["cur"], o["seq"], o["unused"], o["recent"] = cas, tree, cur, seq, unused, recent
	o["last"], o["rel"] = h.rel(last), rel
	o["pc"], o["kind"], o["parg"], o["res"] = pcs, kinds, pargs, ress
	return o
}

// registerReturn makes a returned revision id known before the snapshot is taken.
func (h *vC05Harness) registerReturn(w *vC05Writer) {
	if w.retErr == nil && w.retRev != "" {
		if _, ok := h.revID[w.retRev]; !ok && (w.kind == "del" || h.revStr[w.wid()] == "") {
			h.revID[w.retRev] = w.wid()
			h.revStr[w.wid()] = w.retRev
		}
	}
}

func (h *vC05Harness) feed() []vObj {
	// wait until the change cache has processed the document's sequence (generous liveness bound only)
	r := h.readRaw()
	out := []vObj{}
	if r.exists {
		deadline := time.Now().Add(60 * time.Second)
		for h.db.changeCache.getNextSequence() <= r.sd.Sequence {
			if time.Now().After(deadline) {
				h.t.Fatalf("VERIF-FATAL C05: change cache did not reach sequence %d (next %d) within 60s", r.sd.Sequence, h.db.changeCache.getNextSequence())
			}
			time.Sleep(time.Millisecond)
		}
	}
	cctx, cancel := context.WithCancel(h.ctx)
	defer cancel()
	ch, err := h.col.MultiChangesFeed(cctx, base.SetOf("*"), ChangesOptions{Since: SequenceID{Seq: h.base}, ChangesCtx: cctx})
	if err != nil {
		h.t.Fatalf("VERIF-FATAL C05: changes feed: %v", err)
	}
	for e := range ch {
		if e == nil || e.ID != h.docid {
			continue
		}
		rev := ""
		if len(e.Changes) > 0 {
			rev = e.Changes[0][ChangesVersionTypeRevTreeID]
		}
		out = append(out, vObj{"seq": h.rel(e.Seq.Seq), "rev": h.idOf(rev, r.sd.History)})
	}
	return out
}

func (h *vC05Harness) replay(tw *vTraceWriter, bi int, b vC05Beh) (aborted bool) {
	t := h.t
	n, nw := vInt(b.Conf.N), vInt(b.Conf.Nw)
	h.docid = fmt.Sprintf("c05_s%d_b%d", vSeed(), bi)
	h.n = n
	h.revID, h.revStr = map[string]int{}, map[int]string{}
	h.casRank, h.relSeen, h.strange = map[uint64]int{}, map[uint64]bool{}, 0
	h.lastRel = h.db.DbStats.Database().SequenceReleasedCount.Value()
	var err error
	if h.base, err = h.db.sequences.lastSequence(h.ctx); err != nil {
		t.Fatalf("VERIF-FATAL C05: lastSequence: %v", err)
	}
	h.ws = nil
	for i := 1; i <= vC05MaxWriters; i++ {
		w := &vC05Writer{id: i, st: "idle", release: make(chan struct{}), body: Body{"w": i, "b": bi}}
		// the clock skew is an environment input: the gateway's clock is set ahead while a writer runs whose commit the
		// behaviour follows with a re-stamp (the hybrid clock is monotonic, so other writers may come out ahead as well)
		for _, st := range b.Steps {
			w.ahead = w.ahead || (len(b.Conf.Ahead) > 0 && st.A == "Cas" && vInt(st.W) == i && st.E == "restamp")
		}
		h.ws = append(h.ws, w)
	}
	// the initial chain 1..n (real writes, gate open), tip possibly a tombstone
	iseq := []int{}
	hist := []string{}
	for i := 1; i <= n; i++ {
		rev := fmt.Sprintf("%d-init%d", i, i)
		hist = append([]string{rev}, hist...)
		body := Body{"init": i}
		if b.Conf.Tomb && i == n {
			body[BodyDeleted] = true
		}
		doc, _, err := h.col.PutExistingRevWithBody(h.ctx, h.docid, body, hist, false, ExistingVersionWithUpdateToHLV)
		if err != nil {
			t.Fatalf("VERIF-FATAL C05: creating initial revision %s: %v", rev, err)
		}
		h.revID[rev], h.revStr[i] = i, rev
		iseq = append(iseq, h.rel(doc.Sequence))
	}
	h.casNext = n
	if n == 0 {
		h.casNext = 1
	}
	h.mu.Lock()
	h.key = h.docid
	h.mu.Unlock()
	tw.Emit(h.snapshot(vObj{"a": "Reset", "beh": bi, "allow": b.Conf.Allow, "n": n, "tomb": b.Conf.Tomb, "nw": nw, "ahead": vC05AheadList(b.Conf.Ahead), "iseq": iseq, "doc": h.docid}))

	abort := func(why string) bool {
		h.drain()
		tw.Emit(vObj{"a": "Abort", "beh": bi, "why": why})
		return true
	}
	for si, st := range b.Steps {
		wi := vInt(st.W)
		if st.A == "Quiesce" {
			// quiescence is real: a writer that is still in flight (the real code took more steps than the behaviour
			// scheduled) is run to completion first, one at a time in id order
			forced := 0
			for _, w := range h.ws[:nw] {
				for i := 0; i < 8 && w.st != "done"; i++ {
					forced++
					h.advance(w)
					if w.st == "committed" || w.st == "errored" {
						h.registerReturn(w)
						w.st, w.delivered = "done", true
					}
				}
				if w.st != "done" {
					return abort(fmt.Sprintf("step %d Quiesce: writer %d is still %s", si, w.id, w.st))
				}
			}
			f := h.feed()
			tw.Emit(h.snapshot(vObj{"a": "Quiesce", "w": 0, "feed": f, "forced": forced}))
			continue
		}
		if wi < 1 || wi > vC05MaxWriters {
			t.Fatalf("VERIF-FATAL C05: bad writer %d", wi)
		}
		w := h.ws[wi-1]
		switch st.A {
		case "Begin":
			w.kind, w.parg, w.st = st.K, vInt(st.P), "begun"
			if w.parg != 0 {
				ps, ok := h.revStr[w.parg]
				if !ok {
					return abort(fmt.Sprintf("step %d Begin(%d): parent %d has no real revision", si, wi, w.parg))
				}
				w.parentStr = ps
			}
			if w.kind == "push" {
				// history = new revision, the parent and the parent's real ancestry
				r := h.readRaw()
				gen := 0
				anc := []string{}
				for p := w.parentStr; p != ""; {
					anc = append(anc, p)
					info, ok := r.sd.History[p]
					if !ok {
						break
					}
					p = info.Parent
				}
				if w.parentStr != "" {
					gen, _ = ParseRevID(h.ctx, w.parentStr)
				}
				nr := fmt.Sprintf("%d-w%d", gen+1, w.id)
				w.pushHist = append([]string{nr}, anc...)
				h.revID[nr], h.revStr[10+w.id] = 10+w.id, nr
			}
		case "Restamp":
			if w.st != "restamp" {
				continue // the clocks had met: this writer did not have to re-stamp, the step did not happen
			}
			h.advance(w)
		case "RC", "Cas":
			// the scheduler never decides by expectation: whatever the behaviour says, the step means "writer w runs until it
			// parks or returns"; if the real code left the spec's path (e.g. it is parked where the spec expected it to
			// have been refused) the recorded state shows it and pass C rejects the line
			h.advance(w)
		case "Ack":
			if w.st == "restamp" {
				// the real writer re-stamps although the behaviour did not schedule it: record what happened as its own step
				h.advance(w)
				if w.st == "committed" || w.st == "errored" {
					h.registerReturn(w)
				}
				tw.Emit(h.snapshot(vObj{"a": "Restamp", "w": wi, "k": w.kind, "p": w.parg, "att": w.cbRuns, "exp": "unscheduled"}))
			}
			h.advance(w)
			if w.st == "committed" || w.st == "errored" {
				w.st, w.delivered = "done", true
			}
		default:
			t.Fatalf("VERIF-FATAL C05: unknown action %q", st.A)
		}
		if w.st == "committed" || w.st == "errored" || w.st == "done" {
			h.registerReturn(w)
		}
		tw.Emit(h.snapshot(vObj{"a": st.A, "w": wi, "k": w.kind, "p": w.parg, "att": w.cbRuns, "exp": st.E}))
		if st.A == "Cas" && w.st == "restamp" && st.E != "restamp" {
			// the real writer has to re-stamp although the behaviour continues as if it had not: let it re-stamp at once (no
			// other writer in between) and record it as its own step - the rest of the behaviour is unaffected
			h.advance(w)
			if w.st == "committed" || w.st == "errored" {
				h.registerReturn(w)
			}
			tw.Emit(h.snapshot(vObj{"a": "Restamp", "w": wi, "k": w.kind, "p": w.parg, "att": w.cbRuns, "exp": "unscheduled"}))
		}
	}
	h.drain()
	return false
}

func TestVerif_C05_DocUpdate(t *testing.T) {
	var behs []vC05Beh
	vReadJSON(t, "VERIF_BEH", &behs)
	tw := vOpenTrace(t, "VERIF_TRACE_OUT")
	defer tw.Close()
	defer SuspendSequenceBatching()() // batch size stays 1: the allocator hands out consecutive sequences and never idles a batch away
	hs := map[bool]*vC05Harness{}
	for _, allow := range []bool{false, true} {
		need := false
		for _, b := range behs {
			need = need || b.Conf.Allow == allow
		}
		if need {
			h := vC05NewHarness(t, allow)
			defer h.db.Close(h.ctx)
			hs[allow] = h
		}
	}
	aborted := 0
	for bi, b := range behs {
		if hs[b.Conf.Allow].replay(tw, bi, b) {
			aborted++
		}
	}
	t.Logf("C05: replayed %d behaviours, %d aborted", len(behs), aborted)
}
