//go:build verif

package db

// C08 binding: replays TLC-generated behaviours of specs/ChangeCache on a real db.changeCache bound to a real
// DatabaseContext (Rosmar) whose feed delivers nothing (nothing is written to the bucket): processEntry,
// releaseUnusedSequence, releaseUnusedSequenceRange, processPrincipalDoc, InsertPendingEntries,
// CleanSkippedSequenceQueue and - one level up - DocChanged with forged document feed events (unused_sequences /
// recent_sequences in the _sync xattr) are called directly.  After every call the real state is read under changeCache.lock
// and written to the trace; the oracle is specs/ChangeCache/Trace_ChangeCache.tla (no property assertions here).
//
// Wiring "own": a fresh changeCache + channel cache on the shared DatabaseContext, started at a seed-chosen initial
// sequence (as db/change_cache_test.go TestAddPendingLogs does).  Wiring "db": the DatabaseContext's own changeCache
// of a fresh database (initial sequence = whatever the bucket counter was at startup - read from the cache).
// All logged sequences are offsets from the cache's initialSequence.
//
// Forwards to the channel cache are observed by a recording decorator of the ChannelCache interface that the
// changeCache calls under its lock (AddToCache / AddPrincipal / AddUnusedSequence) and delegates to the real
// channel cache; visibility is read back from the real "*" channel cache.  At every forward the decorator also
// snapshots the lock-free view (skipped list, high cache sequence) of that instant - the states inside a critical
// section that a concurrent _changes request can observe (MidNoHiddenGap).

import (
	"context"
	"fmt"
	"sort"
	"sync"
	"sync/atomic"
	"testing"
	"time"

	sgbucket "github.com/couchbase/sg-bucket"
	"github.com/couchbase/sync_gateway/base"
	"github.com/couchbase/sync_gateway/channels"
)

type vC08Step struct {
	A    string `json:"a"`
	Seq  int    `json:"seq"`
	End  int    `json:"end"`
	Kind string `json:"kind"`
	Old  bool   `json:"old"`
	// DocChanged level (a = "Doc"): the document's unused_sequences and recent_sequences
	Unused []int `json:"unused"`
	Recent []int `json:"recent"`
}
type vC08Beh struct {
	Mn    int        `json:"mn"`
	W     int        `json:"w"`
	Mode  string     `json:"mode"` // "" sequential | "conc"
	G     int        `json:"g"`    // goroutines for mode conc
	Steps []vC08Step `json:"steps"`
}

const vC08MaxWait = 30 * time.Minute
const vC08Cas = uint64(1695000000000000000)

type vC08Recorder struct {
	ChannelCache
	mu   sync.Mutex
	base uint64
	c    *changeCache // the cache that calls us (under its lock); set before the first arrival
	w    int
	fw   []vObj
}

// rec runs at the instant of a forward, INSIDE the changeCache critical section.  Besides the forward itself it records
// what a reader that does not take changeCache.lock (a _changes request computing lowSequence from
// getOldestSkippedSequence) can see at this instant: skipped membership of the window and the high cache sequence.
func (r *vC08Recorder) rec(change *LogEntry, kind string) {
	end := 0
	if change.EndSequence > 0 {
		end = int(int64(change.EndSequence - r.base))
	}
	sk := []int{}
	if r.c != nil {
		for i := 0; i <= r.w+3; i++ {
			if s := r.base + uint64(i); s > 0 && r.c.skippedSeqs.Contains(s) { // skiplist has its own mutex
				sk = append(sk, i)
			}
		}
	}
	hcs := int(int64(r.ChannelCache.GetHighCacheSequence() - r.base))
	r.mu.Lock()
	r.fw = append(r.fw, vObj{"seq": int(int64(change.Sequence - r.base)), "end": end, "kind": kind, "late": change.Skipped, "sk": sk, "hcs": hcs})
	r.mu.Unlock()
}
func (r *vC08Recorder) AddToCache(ctx context.Context, change *LogEntry) []channels.ID {
	r.rec(change, "doc")
	return r.ChannelCache.AddToCache(ctx, change)
}
func (r *vC08Recorder) AddPrincipal(change *LogEntry) {
	r.rec(change, "princ")
	r.ChannelCache.AddPrincipal(change)
}
func (r *vC08Recorder) AddUnusedSequence(change *LogEntry) {
	r.rec(change, "unused")
	r.ChannelCache.AddUnusedSequence(change)
}
func (r *vC08Recorder) take() []vObj {
	r.mu.Lock()
	defer r.mu.Unlock()
	o := r.fw
	r.fw = nil
	if o == nil {
		o = []vObj{}
	}
	return o
}

type vC08Rig struct {
	t     *testing.T
	ctx   context.Context
	c     *changeCache
	rec   *vC08Recorder
	star  *singleChannelCacheImpl
	base  uint64
	w     int
	coll  uint32
	narr  int
	close func()
}

func (g *vC08Rig) off(s uint64) int { return int(int64(s - g.base)) }

// snapshot reads the real state (sequences as offsets from initialSequence).
func (g *vC08Rig) snapshot(o vObj) vObj { return g.snapshotL(o, true) }

// snapshotL with lock=false is for callers that already are inside the changeCache critical section (hook sink).
func (g *vC08Rig) snapshotL(o vObj, lock bool) vObj {
	c := g.c
	if lock {
		c.lock.Lock()
	}
	o["next"] = g.off(c.nextSequence)
	pend := []vObj{}
	for _, e := range c.pendingLogs {
		kind := "doc"
		if e.UnusedSequence {
			kind = "unused"
		} else if e.IsPrincipal {
			kind = "princ"
		}
		end := 0
		if e.EndSequence > 0 {
			end = g.off(e.EndSequence)
		}
		pend = append(pend, vObj{"seq": g.off(e.Sequence), "end": end, "kind": kind, "old": e.TimeReceived.OlderOrEqual(vC08MaxWait)})
	}
	sort.Slice(pend, func(i, j int) bool { return fmt.Sprint(pend[i]) < fmt.Sprint(pend[j]) })
	o["pend"] = pend
	recv := []int{}
	for s := range c.receivedSeqs {
		recv = append(recv, g.off(s))
	}
	sort.Ints(recv)
	o["recv"] = recv
	skip := []int{}
	for i := 0; i <= g.w+3; i++ {
		if s := g.base + uint64(i); s > 0 && c.WasSkipped(s) {
			skip = append(skip, i)
		}
	}
	o["skip"] = skip
	o["nsk"] = int(c.skippedSeqs.getStats().NumCurrentSkippedSequencesStat)
	o["stable"] = int(int64(c._getMaxStableCached(g.ctx) - g.base))
	o["hcs"] = int(int64(c.channelCache.GetHighCacheSequence() - g.base))
	if lock {
		c.lock.Unlock()
	}
	_, entries := g.star.GetCachedChanges(ChangesOptions{Since: SequenceID{Seq: 0}})
	star := []int{}
	for _, e := range entries {
		star = append(star, g.off(e.Sequence))
	}
	o["star"] = star
	g.star.lateLogLock.RLock()
	lls := 0
	if g.star.lastLateSequence != 0 {
		lls = g.off(g.star.lastLateSequence)
	}
	g.star.lateLogLock.RUnlock()
	o["lls"] = lls
	o["out"] = g.rec.take()
	return o
}

func (g *vC08Rig) ts(old bool) channels.FeedTimestamp {
	tm := time.Now()
	if old {
		tm = tm.Add(-2 * vC08MaxWait)
	}
	return channels.NewFeedTimestamp(&tm)
}

// deliver performs one feed arrival on the real cache; variant picks among equivalent entry points.
func (g *vC08Rig) deliver(st vC08Step, variant int, id int) {
	c, ctx := g.c, g.ctx
	seq := g.base + uint64(st.Seq)
	switch {
	case st.A == "Range":
		c.releaseUnusedSequenceRange(ctx, seq, g.base+uint64(st.End), g.ts(st.Old))
	case st.Kind == "doc":
		c.processEntry(ctx, &LogEntry{Sequence: seq, DocID: fmt.Sprintf("d%d_%d", st.Seq, id), RevID: "1-a", TimeReceived: g.ts(st.Old),
			Channels: channels.ChannelMap{"ABC": nil}, CollectionID: g.coll})
	case st.Kind == "princ":
		if variant%2 == 0 {
			c.processPrincipalDoc(ctx, "_sync:user:u", []byte(fmt.Sprintf(`{"name":"u%d","sequence":%d}`, st.Seq, seq)), true, g.ts(st.Old))
		} else {
			c.processEntry(ctx, &LogEntry{Sequence: seq, DocID: fmt.Sprintf("_role/r%d", st.Seq), TimeReceived: g.ts(st.Old), IsPrincipal: true})
		}
	case st.Kind == "unused":
		if variant%2 == 0 {
			c.releaseUnusedSequence(ctx, seq, g.ts(st.Old))
		} else {
			c.releaseUnusedSequenceRange(ctx, seq, seq, g.ts(st.Old))
		}
	default:
		g.t.Fatalf("VERIF-FATAL unknown step %+v", st)
	}
}

// docChanged forges one document feed event (xattr-encoded DCP value whose _sync xattr carries sequence,
// unused_sequences and recent_sequences) and hands it to the real DocChanged.
func (g *vC08Rig) docChanged(st vC08Step, id int) {
	abs := func(xs []int) string {
		o := "["
		for i, x := range xs {
			if i > 0 {
				o += ","
			}
			o += fmt.Sprint(g.base + uint64(x))
		}
		return o + "]"
	}
	unused := ""
	if len(st.Unused) > 0 {
		unused = `"unused_sequences":` + abs(st.Unused) + ","
	}
	xattr := fmt.Sprintf(`{"rev":"1-d938e0614de222fe04463b9654e93156","sequence":%d,"recent_sequences":%s,%s"history":{"revs":["1-d938e0614de222fe04463b9654e93156"],"parents":[-1],"channels":[["ABC"]]},"channels":{"ABC":null},"cas":"%s","value_crc32c":"0x8aa182c1","time_saved":"2019-11-04T16:07:03.300815-08:00"}`,
		g.base+uint64(st.Seq), abs(st.Recent), unused, base.CasToString(vC08Cas))
	tm := time.Now()
	if st.Old {
		tm = tm.Add(-2 * vC08MaxWait)
	}
	ev := sgbucket.FeedEvent{
		Opcode:       sgbucket.FeedOpMutation,
		Key:          []byte(fmt.Sprintf("x%d_%d", st.Seq, id)),
		Value:        sgbucket.EncodeValueWithXattrs([]byte(`{"channels":["ABC"]}`), sgbucket.Xattr{Name: base.SyncXattrName, Value: []byte(xattr)}),
		DataType:     base.MemcachedDataTypeXattr,
		Cas:          vC08Cas, // equals _sync.cas: recognised as a Sync Gateway write
		CollectionID: g.coll,
		Synchronous:  true,
		TimeReceived: tm,
	}
	g.c.DocChanged(ev, DocTypeDocument)
}

func vC08NewRig(t *testing.T, shared *DatabaseContext, sharedCtx context.Context, b vC08Beh, wiring string, base uint64) *vC08Rig {
	opts := DefaultCacheOptions()
	opts.CachePendingSeqMaxNum = b.Mn
	opts.CachePendingSeqMaxWait = vC08MaxWait
	opts.CacheSkippedSeqMaxWait = 24 * time.Hour
	g := &vC08Rig{t: t, w: b.W}
	if wiring == "db" {
		db, ctx := SetupTestDBWithOptions(t, DatabaseContextOptions{CacheOptions: &opts})
		g.ctx = ctx
		g.c = &db.changeCache
		g.coll = GetSingleDatabaseCollection(t, db.DatabaseContext).GetCollectionID()
		g.c.lock.Lock()
		g.base = g.c.initialSequence
		g.rec = &vC08Recorder{ChannelCache: g.c.channelCache, base: g.base, c: g.c, w: b.W}
		g.c.channelCache = g.rec
		g.c.lock.Unlock()
		g.close = func() { db.Close(ctx) }
	} else {
		ctx := sharedCtx
		g.ctx = ctx
		g.coll = GetSingleDatabaseCollection(t, shared).GetCollectionID()
		chc, err := NewChannelCacheForContext(ctx, opts.ChannelCacheOptions, shared)
		if err != nil {
			t.Fatalf("VERIF-FATAL channel cache: %v", err)
		}
		g.base = base
		g.c = &changeCache{}
		g.rec = &vC08Recorder{ChannelCache: chc, base: base, c: g.c, w: b.W}
		notify := func(ctx context.Context, chs channels.Set) { shared.mutationListener.Notify(ctx, chs) }
		if err := g.c.Init(ctx, shared, g.rec, notify, &opts, shared.MetadataKeys); err != nil {
			t.Fatalf("VERIF-FATAL changeCache.Init: %v", err)
		}
		if err := g.c.Start(base); err != nil {
			t.Fatalf("VERIF-FATAL changeCache.Start: %v", err)
		}
		g.close = func() { g.c.Stop(ctx); chc.Stop(ctx) }
	}
	sc, err := g.rec.ChannelCache.getSingleChannelCache(g.ctx, channels.NewID(channels.UserStarChannel, g.coll))
	if err != nil {
		t.Fatalf("VERIF-FATAL star channel cache: %v", err)
	}
	impl, ok := sc.(*singleChannelCacheImpl)
	if !ok {
		t.Fatalf("VERIF-FATAL star channel cache is %T", sc)
	}
	g.star = impl
	return g
}

func TestVerif_C08_ChangeCache(t *testing.T) {
	var behs []vC08Beh
	vReadJSON(t, "VERIF_BEH", &behs)
	tw := vOpenTrace(t, "VERIF_TRACE_OUT")
	defer tw.Close()
	rnd := vRand()
	dbEvery := vEnvInt("VERIF_C08_DB_EVERY", 40) // every n-th behaviour runs on the DatabaseContext's own changeCache
	bases := []uint64{0, 1, 6, 1000, 1<<32 - 3, 1 << 32, 1<<53 + 1, 1 << 62}

	shared, sharedCtx := SetupTestDBWithOptions(t, DatabaseContextOptions{})
	defer shared.Close(sharedCtx)

	for bi, b := range behs {
		wiring := "own"
		if dbEvery > 0 && bi%dbEvery == 0 {
			wiring = "db"
		}
		g := vC08NewRig(t, shared.DatabaseContext, sharedCtx, b, wiring, bases[rnd.Intn(len(bases))])
		tw.Emit(g.snapshot(vObj{"a": "Reset", "beh": bi, "mn": b.Mn, "w": b.W, "wiring": wiring, "base": fmt.Sprint(g.base)}))
		if b.Mode == "conc" {
			vC08Concurrent(g, b, tw)
			g.close()
			continue
		}
		for si, st := range b.Steps {
			switch st.A {
			case "Arrive", "Range":
				g.deliver(st, rnd.Intn(2), si)
				tw.Emit(g.snapshot(vObj{"a": st.A, "seq": st.Seq, "end": st.End, "kind": st.Kind, "old": st.Old}))
			case "Doc":
				g.docChanged(st, si)
				if st.Unused == nil {
					st.Unused = []int{}
				}
				if st.Recent == nil {
					st.Recent = []int{}
				}
				tw.Emit(g.snapshot(vObj{"a": "Doc", "seq": st.Seq, "unused": st.Unused, "recent": st.Recent, "old": st.Old}))
			case "Tick":
				// InsertPendingEntries only runs when the last run is older than MaxWait: forge the clock it reads
				atomic.StoreInt64(&g.c.lastAddPendingTime, time.Now().Add(-2*vC08MaxWait).UnixNano())
				if err := g.c.InsertPendingEntries(g.ctx); err != nil {
					t.Fatalf("VERIF-FATAL InsertPendingEntries: %v", err)
				}
				tw.Emit(g.snapshot(vObj{"a": "Tick"}))
			case "Abandon":
				// every skipped entry is older than CacheSkippedSeqMaxWait
				g.c.lock.Lock()
				saved := g.c.options.CacheSkippedSeqMaxWait
				g.c.options.CacheSkippedSeqMaxWait = 0
				g.c.lock.Unlock()
				if err := g.c.CleanSkippedSequenceQueue(g.ctx); err != nil {
					t.Fatalf("VERIF-FATAL CleanSkippedSequenceQueue: %v", err)
				}
				g.c.lock.Lock()
				g.c.options.CacheSkippedSeqMaxWait = saved
				g.c.lock.Unlock()
				tw.Emit(g.snapshot(vObj{"a": "Abandon"}))
			default:
				t.Fatalf("VERIF-FATAL unknown action %q", st.A)
			}
		}
		g.close()
	}
}

// vC08Concurrent delivers the steps of b (arrivals only) from b.G goroutines.
// With hook H2 in the tree (base.VerifEmit at the end of processEntry / processUnusedRange, under changeCache.lock) the
// in-process sink is called inside every critical section: it writes one trace line per call, in linearization order,
// with the real state of that instant - the concurrent run is validated step by step like a sequential one.
// Without the hook no event arrives and one "Conc" line with the final real state is written instead (the order in which
// the cache forwarded entries is then still the order the recorder saw them under changeCache.lock).
func vC08Concurrent(g *vC08Rig, b vC08Beh, tw *vTraceWriter) {
	n := b.G
	if n < 2 {
		n = 2
	}
	obj := verifObj(g.c)
	steps := 0
	u := func(x any) uint64 {
		switch v := x.(type) {
		case uint64:
			return v
		case int:
			return uint64(v)
		}
		panic(fmt.Sprintf("VERIF-FATAL hook value %T", x))
	}
	base.VerifSetSink(func(ev map[string]any) { // called under the emitting goroutine's changeCache.lock
		if ev["obj"] != obj {
			return
		}
		switch ev["ev"] {
		case "entry":
			steps++
			tw.Emit(g.snapshotL(vObj{"a": "Arrive", "seq": g.off(u(ev["seq"])), "end": 0, "kind": ev["kind"], "old": ev["old"], "sk": ev["sk"], "conc": true}, false))
		case "range":
			steps++
			tw.Emit(g.snapshotL(vObj{"a": "Range", "seq": g.off(u(ev["seq"])), "end": g.off(u(ev["end"])), "kind": "unused", "old": ev["old"], "conc": true}, false))
		}
	})
	shares := make([][]int, n)
	for i := range b.Steps {
		shares[i%n] = append(shares[i%n], i)
	}
	var wg sync.WaitGroup
	start := make(chan struct{})
	for w := 0; w < n; w++ {
		wg.Add(1)
		go func(idx []int) {
			defer wg.Done()
			<-start
			for _, i := range idx {
				g.deliver(b.Steps[i], i, i)
			}
		}(shares[w])
	}
	close(start)
	wg.Wait()
	base.VerifSetSink(nil)
	if steps > 0 {
		return
	}
	evs := []vObj{}
	for _, st := range b.Steps {
		evs = append(evs, vObj{"seq": st.Seq, "end": st.End, "kind": st.Kind, "old": st.Old})
	}
	tw.Emit(g.snapshot(vObj{"a": "Conc", "evs": evs, "g": n}))
}
