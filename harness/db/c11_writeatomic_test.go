//go:build verif

package db

// C11 binding (DESIGN 4.11, specs/WriteAtomic): every storage operation of a request is a fault point.
//
// A counting / fault-injecting decorator (vC11Store) is put around the collection's datastore, the metadata store and
// the sequence allocator's store of a REAL database on Rosmar.  For every request type
//   1. a RECORDING run (no fault) yields the real operation list (method + key class + read/write) - the "program";
//   2. for every operation index and every fault kind that applies to that operation (Err = not applied, Cas = CAS
//      mismatch, TN = timeout not applied, TA = timeout but applied) the same initial state is rebuilt under fresh key
//      names, the real request runs with the fault armed, and the WHOLE bucket (both datastores, range scan + the
//      possibly tombstoned document keys) is read back through the undecorated handles.
// Logged per run: the operations executed with their results, the reply class, one digest per key class before/after,
// the principals' effective channels before/after, the sequence counter movement and the sequences given back by
// unused-sequence documents, and read-backs through the real read API (expected vs. actual).
// No property is judged here: Trace_WriteAtomic.tla evaluates AllOrNothing / NoSwallow on these records (pass P) and the
// operation order against the phase structure (pass C).
//
// Decorator vs. type assertions: sgbucket.DataStore already contains the KV, xattr and subdoc operations (base.AsSubdocStore
// is satisfied by the embedding); base.AsViewStore (access queries) needs the explicit ViewStore forwarding below; the
// `.(*base.MetadataStore)` assertions only select the dual-store code path and fall through.  Only operations issued by the
// goroutine of the request are counted: the change cache reads principal documents through db.MetadataStore in the background.
// Completeness is checked by pass C (no key class may change without a recorded applied write).
// Knobs: MaxSequenceIncrFrequency = 0 (sequence batches of one), CachedCCVEnabled = false (post-commit removal of obsolete
// attachments exists), BcryptCost 4, OldRevExpirySeconds 24h (no expiry between the two snapshots of a run).

import (
	"context"
	"crypto/sha1"
	"encoding/base64"
	"encoding/hex"
	"errors"
	"fmt"
	"os"
	"runtime"
	"sort"
	"strconv"
	"strings"
	"sync"
	"testing"
	"time"

	sgbucket "github.com/couchbase/sg-bucket"
	"github.com/couchbase/sync_gateway/auth"
	"github.com/couchbase/sync_gateway/base"
	"github.com/couchbase/sync_gateway/channels"
)

var vC11ErrInjected = errors.New("C11 injected storage error")

// ---------------------------------------------------------------------------------------------------------------
// decorator
// ---------------------------------------------------------------------------------------------------------------

type vC11OpRec struct {
	I   int
	M   string // method (composite operations are split: WUX.read / WUX.write, Update.read / Update.write)
	C   string // key class
	W   bool   // write?
	Cas bool   // carries a CAS precondition (a CAS mismatch is a possible outcome)
	R   string // ok | Err | Cas | TA | TN | e:<class of a real store error>
	Key string
	flt string
}

type vC11Ctl struct {
	mu       sync.Mutex
	gid      string // the goroutine the requests run on: background readers (change cache) are passed through uncounted
	active   bool
	n        int
	ops      []*vC11OpRec
	faults   map[int]string
	classify func(key string) string
	hook     func(m, class string) // scenario hook, run (decorator switched off) just before an operation is issued
}

func vC11Gid() string {
	var buf [64]byte
	n := runtime.Stack(buf[:], false)
	f := strings.Fields(string(buf[:n]))
	if len(f) < 2 {
		return "?"
	}
	return f[1]
}

func (c *vC11Ctl) isActive() bool {
	c.mu.Lock()
	defer c.mu.Unlock()
	return c.active && vC11Gid() == c.gid
}

func (c *vC11Ctl) begin(m, key string, w, cas bool) *vC11OpRec {
	c.mu.Lock()
	defer c.mu.Unlock()
	if !c.active || vC11Gid() != c.gid {
		return nil
	}
	if c.hook != nil {
		hk := c.hook
		c.active = false
		c.mu.Unlock()
		hk(m, c.classify(key))
		c.mu.Lock()
		c.active = true
	}
	c.n++
	o := &vC11OpRec{I: c.n, M: m, C: c.classify(key), W: w, Cas: cas, Key: key, R: "?", flt: c.faults[c.n]}
	c.ops = append(c.ops, o)
	return o
}

func (c *vC11Ctl) end(o *vC11OpRec, r string) {
	c.mu.Lock()
	o.R = r
	c.mu.Unlock()
}

func vC11ErrClass(err error) string {
	switch {
	case err == nil:
		return "ok"
	case errors.Is(err, vC11ErrInjected):
		return "e:injected"
	case base.IsCasMismatch(err):
		return "e:cas"
	case base.IsDocNotFoundError(err):
		return "e:missing"
	case errors.Is(err, sgbucket.ErrKeyExists) || err == base.ErrAlreadyExists:
		return "e:exists"
	case err == base.ErrPathExists || err == base.ErrPathNotFound || errors.Is(err, sgbucket.ErrPathExists) || errors.Is(err, sgbucket.ErrPathNotFound):
		return "e:path"
	case base.IsTimeoutError(err):
		return "e:timeout"
	case err == base.ErrUpdateCancel:
		return "e:cancel"
	}
	return "e:other"
}

// vC11Store decorates a DataStore; ViewStore is forwarded explicitly (base.AsViewStore type-asserts; the sgbucket.DataStore
// interface already contains KV, xattr and subdoc operations, so base.AsSubdocStore is satisfied by the embedding).
type vC11Store struct {
	base.DataStore
	ctl *vC11Ctl
}

var _ sgbucket.ViewStore = &vC11Store{}

func vC11Do[T any](s *vC11Store, m, k string, w, cas bool, fn func() (T, error)) (T, error) {
	var zero T
	o := s.ctl.begin(m, k, w, cas)
	if o == nil {
		return fn()
	}
	switch o.flt {
	case "Err":
		s.ctl.end(o, "Err")
		return zero, vC11ErrInjected
	case "Cas":
		s.ctl.end(o, "Cas")
		return zero, sgbucket.CasMismatchErr{Expected: 1, Actual: 2}
	case "TN":
		s.ctl.end(o, "TN")
		return zero, base.ErrTimeout
	case "TA":
		_, err := fn()
		if err != nil {
			s.ctl.end(o, vC11ErrClass(err)) // the operation itself failed for a real reason: that is what the caller sees
			return zero, err
		}
		s.ctl.end(o, "TA")
		return zero, base.ErrTimeout
	}
	v, err := fn()
	s.ctl.end(o, vC11ErrClass(err))
	return v, err
}

type vC11Unit = struct{}

func vC11E(fn func() error) func() (vC11Unit, error) {
	return func() (vC11Unit, error) { return vC11Unit{}, fn() }
}

// ---- KV
func (s *vC11Store) Get(ctx context.Context, k string, rv any) (uint64, error) {
	return vC11Do(s, "Get", k, false, false, func() (uint64, error) { return s.DataStore.Get(ctx, k, rv) })
}

type vC11Raw struct {
	v   []byte
	cas uint64
}

func (s *vC11Store) GetRaw(ctx context.Context, k string) ([]byte, uint64, error) {
	r, err := vC11Do(s, "GetRaw", k, false, false, func() (vC11Raw, error) {
		v, c, e := s.DataStore.GetRaw(ctx, k)
		return vC11Raw{v, c}, e
	})
	return r.v, r.cas, err
}
func (s *vC11Store) GetAndTouchRaw(ctx context.Context, k string, exp uint32) ([]byte, uint64, error) {
	r, err := vC11Do(s, "GetAndTouchRaw", k, false, false, func() (vC11Raw, error) {
		v, c, e := s.DataStore.GetAndTouchRaw(ctx, k, exp)
		return vC11Raw{v, c}, e
	})
	return r.v, r.cas, err
}
func (s *vC11Store) Touch(ctx context.Context, k string, exp uint32) (uint64, error) {
	return vC11Do(s, "Touch", k, true, false, func() (uint64, error) { return s.DataStore.Touch(ctx, k, exp) })
}
func (s *vC11Store) Add(ctx context.Context, k string, exp uint32, v any) (bool, error) {
	return vC11Do(s, "Add", k, true, false, func() (bool, error) { return s.DataStore.Add(ctx, k, exp, v) })
}
func (s *vC11Store) AddRaw(ctx context.Context, k string, exp uint32, v []byte) (bool, error) {
	return vC11Do(s, "AddRaw", k, true, false, func() (bool, error) { return s.DataStore.AddRaw(ctx, k, exp, v) })
}
func (s *vC11Store) Set(ctx context.Context, k string, exp uint32, opts *sgbucket.UpsertOptions, v any) error {
	_, err := vC11Do(s, "Set", k, true, false, vC11E(func() error { return s.DataStore.Set(ctx, k, exp, opts, v) }))
	return err
}
func (s *vC11Store) SetRaw(ctx context.Context, k string, exp uint32, opts *sgbucket.UpsertOptions, v []byte) error {
	_, err := vC11Do(s, "SetRaw", k, true, false, vC11E(func() error { return s.DataStore.SetRaw(ctx, k, exp, opts, v) }))
	return err
}
func (s *vC11Store) WriteCas(ctx context.Context, k string, exp uint32, cas uint64, v any, opt sgbucket.WriteOptions) (uint64, error) {
	return vC11Do(s, "WriteCas", k, true, true, func() (uint64, error) { return s.DataStore.WriteCas(ctx, k, exp, cas, v, opt) })
}
func (s *vC11Store) Delete(ctx context.Context, k string) error {
	_, err := vC11Do(s, "Delete", k, true, false, vC11E(func() error { return s.DataStore.Delete(ctx, k) }))
	return err
}
func (s *vC11Store) Remove(ctx context.Context, k string, cas uint64) (uint64, error) {
	return vC11Do(s, "Remove", k, true, true, func() (uint64, error) { return s.DataStore.Remove(ctx, k, cas) })
}
func (s *vC11Store) Incr(ctx context.Context, k string, amt, def uint64, exp uint32) (uint64, error) {
	if amt == 0 { // a read of the counter
		return vC11Do(s, "GetCounter", k, false, false, func() (uint64, error) { return s.DataStore.Incr(ctx, k, amt, def, exp) })
	}
	return vC11Do(s, "Incr", k, true, false, func() (uint64, error) { return s.DataStore.Incr(ctx, k, amt, def, exp) })
}
func (s *vC11Store) GetExpiry(ctx context.Context, k string) (uint32, error) {
	return vC11Do(s, "GetExpiry", k, false, false, func() (uint32, error) { return s.DataStore.GetExpiry(ctx, k) })
}
func (s *vC11Store) Exists(ctx context.Context, k string) (bool, error) {
	return vC11Do(s, "Exists", k, false, false, func() (bool, error) { return s.DataStore.Exists(ctx, k) })
}

// Update = read, callback, CAS write (looping on mismatch).  The read and the write are separate fault points; a CAS
// mismatch of the write is emulated by the store's own retry request (sgbucket.ErrCasFailureShouldRetry).
func (s *vC11Store) Update(ctx context.Context, k string, exp uint32, callback sgbucket.UpdateFunc) (uint64, error) {
	if !s.ctl.isActive() {
		return s.DataStore.Update(ctx, k, exp, callback)
	}
	var held *vC11OpRec
	ta := false
	wrapped := func(cur []byte) ([]byte, *uint32, bool, error) {
		if held != nil { // a previous iteration's write really lost a CAS race
			s.ctl.end(held, "e:cas")
			held = nil
		}
		ro := s.ctl.begin("Update.read", k, false, false)
		switch ro.flt {
		case "Err":
			s.ctl.end(ro, "Err")
			return nil, nil, false, vC11ErrInjected
		case "TN", "TA":
			s.ctl.end(ro, "TN")
			return nil, nil, false, base.ErrTimeout
		}
		s.ctl.end(ro, "ok")
		upd, e, del, err := callback(cur)
		if err != nil {
			return upd, e, del, err
		}
		if upd == nil && e == nil && !del {
			return upd, e, del, nil // cancelled: no write
		}
		wo := s.ctl.begin("Update.write", k, true, true)
		switch wo.flt {
		case "Err":
			s.ctl.end(wo, "Err")
			return nil, nil, false, vC11ErrInjected
		case "Cas":
			s.ctl.end(wo, "Cas")
			return nil, nil, false, sgbucket.ErrCasFailureShouldRetry
		case "TN":
			s.ctl.end(wo, "TN")
			return nil, nil, false, base.ErrTimeout
		case "TA":
			ta = true
		}
		held = wo
		return upd, e, del, nil
	}
	cas, err := s.DataStore.Update(ctx, k, exp, wrapped)
	if held != nil {
		if err == nil && ta {
			s.ctl.end(held, "TA")
			return 0, base.ErrTimeout
		}
		s.ctl.end(held, vC11ErrClass(err))
	}
	return cas, err
}

// ---- xattrs
func (s *vC11Store) WriteWithXattrs(ctx context.Context, k string, exp uint32, cas uint64, value []byte, xv map[string][]byte, xd []string, opts *sgbucket.MutateInOptions) (uint64, error) {
	return vC11Do(s, "WriteWithXattrs", k, true, true, func() (uint64, error) {
		return s.DataStore.WriteWithXattrs(ctx, k, exp, cas, value, xv, xd, opts)
	})
}
func (s *vC11Store) WriteTombstoneWithXattrs(ctx context.Context, k string, exp uint32, cas uint64, xv map[string][]byte, xd []string, deleteBody bool, opts *sgbucket.MutateInOptions) (uint64, error) {
	return vC11Do(s, "WriteTombstoneWithXattrs", k, true, true, func() (uint64, error) {
		return s.DataStore.WriteTombstoneWithXattrs(ctx, k, exp, cas, xv, xd, deleteBody, opts)
	})
}
func (s *vC11Store) WriteResurrectionWithXattrs(ctx context.Context, k string, exp uint32, body []byte, xv map[string][]byte, opts *sgbucket.MutateInOptions) (uint64, error) {
	return vC11Do(s, "WriteResurrectionWithXattrs", k, true, false, func() (uint64, error) {
		return s.DataStore.WriteResurrectionWithXattrs(ctx, k, exp, body, xv, opts)
	})
}
func (s *vC11Store) SetXattrs(ctx context.Context, k string, xv map[string][]byte) (uint64, error) {
	return vC11Do(s, "SetXattrs", k, true, false, func() (uint64, error) { return s.DataStore.SetXattrs(ctx, k, xv) })
}
func (s *vC11Store) RemoveXattrs(ctx context.Context, k string, xk []string, cas uint64) error {
	_, err := vC11Do(s, "RemoveXattrs", k, true, true, vC11E(func() error { return s.DataStore.RemoveXattrs(ctx, k, xk, cas) }))
	return err
}
func (s *vC11Store) DeleteSubDocPaths(ctx context.Context, k string, paths ...string) error {
	_, err := vC11Do(s, "DeleteSubDocPaths", k, true, false, vC11E(func() error { return s.DataStore.DeleteSubDocPaths(ctx, k, paths...) }))
	return err
}

type vC11X struct {
	v   []byte
	x   map[string][]byte
	cas uint64
}

func (s *vC11Store) GetXattrs(ctx context.Context, k string, xk []string) (map[string][]byte, uint64, error) {
	r, err := vC11Do(s, "GetXattrs", k, false, false, func() (vC11X, error) {
		x, c, e := s.DataStore.GetXattrs(ctx, k, xk)
		return vC11X{nil, x, c}, e
	})
	return r.x, r.cas, err
}
func (s *vC11Store) GetWithXattrs(ctx context.Context, k string, xk []string) ([]byte, map[string][]byte, uint64, error) {
	r, err := vC11Do(s, "GetWithXattrs", k, false, false, func() (vC11X, error) {
		v, x, c, e := s.DataStore.GetWithXattrs(ctx, k, xk)
		return vC11X{v, x, c}, e
	})
	return r.v, r.x, r.cas, err
}
func (s *vC11Store) DeleteWithXattrs(ctx context.Context, k string, xk []string) error {
	_, err := vC11Do(s, "DeleteWithXattrs", k, true, false, vC11E(func() error { return s.DataStore.DeleteWithXattrs(ctx, k, xk) }))
	return err
}
func (s *vC11Store) UpdateXattrs(ctx context.Context, k string, exp uint32, cas uint64, xv map[string][]byte, opts *sgbucket.MutateInOptions) (uint64, error) {
	return vC11Do(s, "UpdateXattrs", k, true, true, func() (uint64, error) { return s.DataStore.UpdateXattrs(ctx, k, exp, cas, xv, opts) })
}

// WriteUpdateWithXattrs = read, callback (which issues nested operations through this decorator), CAS write.
func (s *vC11Store) WriteUpdateWithXattrs(ctx context.Context, k string, xattrKeys []string, exp uint32, previous *sgbucket.BucketDocument, opts *sgbucket.MutateInOptions, callback sgbucket.WriteUpdateWithXattrsFunc) (uint64, error) {
	if !s.ctl.isActive() {
		return s.DataStore.WriteUpdateWithXattrs(ctx, k, xattrKeys, exp, previous, opts, callback)
	}
	var held *vC11OpRec
	ta := false
	first := true
	wrapped := func(cur []byte, xattrs map[string][]byte, cas uint64) (sgbucket.UpdatedDoc, error) {
		if held != nil {
			s.ctl.end(held, "e:cas")
			held = nil
		}
		if !(first && previous != nil) { // with `previous` supplied the first iteration does not read
			ro := s.ctl.begin("WUX.read", k, false, false)
			switch ro.flt {
			case "Err":
				s.ctl.end(ro, "Err")
				return sgbucket.UpdatedDoc{}, vC11ErrInjected
			case "TN", "TA":
				s.ctl.end(ro, "TN")
				return sgbucket.UpdatedDoc{}, base.ErrTimeout
			}
			s.ctl.end(ro, "ok")
		}
		first = false
		d, err := callback(cur, xattrs, cas)
		if err != nil {
			return d, err
		}
		wo := s.ctl.begin("WUX.write", k, true, true)
		switch wo.flt {
		case "Err":
			s.ctl.end(wo, "Err")
			return d, vC11ErrInjected
		case "Cas":
			s.ctl.end(wo, "Cas")
			return d, sgbucket.ErrCasFailureShouldRetry
		case "TN":
			s.ctl.end(wo, "TN")
			return d, base.ErrTimeout
		case "TA":
			ta = true
		}
		held = wo
		return d, nil
	}
	cas, err := s.DataStore.WriteUpdateWithXattrs(ctx, k, xattrKeys, exp, previous, opts, wrapped)
	if held != nil {
		if err == nil && ta {
			s.ctl.end(held, "TA")
			return 0, base.ErrTimeout
		}
		s.ctl.end(held, vC11ErrClass(err))
	}
	return cas, err
}

// ---- subdoc
func (s *vC11Store) SubdocInsert(ctx context.Context, k string, path string, cas uint64, v any) error {
	_, err := vC11Do(s, "SubdocInsert", k, true, false, vC11E(func() error { return s.DataStore.SubdocInsert(ctx, k, path, cas, v) }))
	return err
}
func (s *vC11Store) GetSubDocRaw(ctx context.Context, k string, sk string) ([]byte, uint64, error) {
	r, err := vC11Do(s, "GetSubDocRaw", k, false, false, func() (vC11Raw, error) {
		v, c, e := s.DataStore.GetSubDocRaw(ctx, k, sk)
		return vC11Raw{v, c}, e
	})
	return r.v, r.cas, err
}
func (s *vC11Store) WriteSubDoc(ctx context.Context, k string, sk string, cas uint64, v []byte) (uint64, error) {
	return vC11Do(s, "WriteSubDoc", k, true, true, func() (uint64, error) { return s.DataStore.WriteSubDoc(ctx, k, sk, cas, v) })
}

// ---- views (the access queries of a principal recomputation); "?query" is its own key class
func (s *vC11Store) vs() sgbucket.ViewStore {
	v, ok := s.DataStore.(sgbucket.ViewStore)
	if !ok {
		panic("VERIF-FATAL C11: underlying datastore is not a ViewStore")
	}
	return v
}
func (s *vC11Store) GetDDoc(ctx context.Context, n string) (sgbucket.DesignDoc, error) {
	return s.vs().GetDDoc(ctx, n)
}
func (s *vC11Store) GetDDocs(ctx context.Context) (map[string]sgbucket.DesignDoc, error) {
	return s.vs().GetDDocs(ctx)
}
func (s *vC11Store) PutDDoc(ctx context.Context, n string, v *sgbucket.DesignDoc) error {
	return s.vs().PutDDoc(ctx, n, v)
}
func (s *vC11Store) DeleteDDoc(ctx context.Context, n string) error { return s.vs().DeleteDDoc(ctx, n) }
func (s *vC11Store) View(ctx context.Context, ddoc, name string, params map[string]any) (sgbucket.ViewResult, error) {
	return vC11Do(s, "View", "?query", false, false, func() (sgbucket.ViewResult, error) { return s.vs().View(ctx, ddoc, name, params) })
}
func (s *vC11Store) ViewQuery(ctx context.Context, ddoc, name string, params map[string]any) (sgbucket.QueryResultIterator, error) {
	return vC11Do(s, "ViewQuery", "?query", false, false, func() (sgbucket.QueryResultIterator, error) { return s.vs().ViewQuery(ctx, ddoc, name, params) })
}

// ---------------------------------------------------------------------------------------------------------------
// harness
// ---------------------------------------------------------------------------------------------------------------

var vC11Classes = []string{"doc", "att", "revbody", "revbackup", "user", "role", "useremail", "session", "seq", "unusedseq", "meta"}

type vC11H struct {
	t       *testing.T
	ctx     context.Context
	db      *Database
	col     *DatabaseCollectionWithUser
	cctx    context.Context
	ctl     *vC11Ctl
	under   []base.DataStore // undecorated stores (collection, metadata), distinct
	colRaw  base.DataStore
	metaRaw base.DataStore
	cache   map[string]vC11CacheEnt
	scope   string
	coll    string
	runNo   int
	tw      *vTraceWriter
}

type vC11CacheEnt struct {
	cas uint64
	dig string
}

type vC11Run struct {
	h      *vC11H
	id     int
	doc    string // document id of this run
	user   string // principal names of this run
	user2  string
	role   string
	email  string
	watch  []string // document keys that may be tombstoned (read explicitly)
	users  []string // principals whose effective access is projected
	roles  []string
	rev    map[string]string
	tok    string // token written by the request under test
	sess   string
	out    map[string]string // values returned by the request
	asUser auth.User
}

type vC11Scn struct {
	name    string
	path    string // code path serving the request (selects the transcription in WriteAtomic.tla); "" = doc
	primary string // key class of the commit operation
	prep    func(r *vC11Run)
	act     func(r *vC11Run) error
	rb      func(r *vC11Run) [][3]string // read-backs through the real read API: {label, expected, actual}
	envw    []string                     // key classes written by the scenario's concurrent (environment) writer, see ctl.hook
	noFault bool                         // rejection kinds: enumerated without faults
	tier    int                          // 0 = quick and thorough, 1 = thorough only
}

func (h *vC11H) fatal(what string, err error) {
	h.t.Fatalf("VERIF-FATAL C11 %s: %v", what, err)
}

func vC11Sha(parts ...[]byte) string {
	d := sha1.New()
	for _, p := range parts {
		d.Write([]byte(strconv.Itoa(len(p))))
		d.Write([]byte{0})
		d.Write(p)
	}
	return hex.EncodeToString(d.Sum(nil))[:16]
}

func (h *vC11H) classify(key string) string {
	mk := h.db.MetadataKeys
	switch {
	case key == "?query":
		return "query"
	case strings.HasPrefix(key, base.Att2Prefix), strings.HasPrefix(key, base.AttPrefix):
		return "att"
	case strings.HasPrefix(key, base.RevBodyPrefix):
		return "revbody"
	case strings.HasPrefix(key, base.RevPrefix):
		return "revbackup"
	case key == mk.SyncSeqKey():
		return "seq"
	case strings.HasPrefix(key, mk.UnusedSeqPrefix()), strings.HasPrefix(key, mk.UnusedSeqRangePrefix()):
		return "unusedseq"
	case strings.HasPrefix(key, mk.UserEmailKey("")):
		return "useremail"
	case strings.HasPrefix(key, mk.UserKeyPrefix()):
		return "user"
	case strings.HasPrefix(key, mk.RoleKeyPrefix()):
		return "role"
	case strings.HasPrefix(key, mk.SessionKey("")):
		return "session"
	case strings.HasPrefix(key, base.SyncDocPrefix):
		return "meta"
	}
	return "doc"
}

var vC11XattrKeys = []string{base.SyncXattrName, base.VvXattrName, base.MouXattrName, base.GlobalXattrName}

func vC11XDigest(body []byte, x map[string][]byte) string {
	names := []string{}
	for n := range x {
		names = append(names, n)
	}
	sort.Strings(names)
	parts := [][]byte{body}
	for _, n := range names {
		parts = append(parts, []byte(n), x[n])
	}
	return vC11Sha(parts...)
}

type vC11Snap struct {
	keys map[string]string // "<store#>|<key>" -> digest
	ctr  uint64
}

func (h *vC11H) snapshot(watch []string) vC11Snap {
	sn := vC11Snap{keys: map[string]string{}}
	for si, ds := range h.under {
		rs, ok := ds.(sgbucket.RangeScanStore)
		if !ok {
			h.fatal("snapshot", fmt.Errorf("datastore %T has no range scan", ds))
		}
		it, err := rs.Scan(h.ctx, sgbucket.RangeScan{}, sgbucket.ScanOptions{})
		if err != nil {
			h.fatal("scan", err)
		}
		for {
			item := it.Next(h.ctx)
			if item == nil {
				break
			}
			ck := fmt.Sprintf("%d|%s", si, item.ID)
			if ce, ok := h.cache[ck]; ok && ce.cas == item.Cas {
				sn.keys[ck] = ce.dig
				continue
			}
			var dig string
			if h.classify(item.ID) == "doc" {
				body, x, _, err := ds.GetWithXattrs(h.ctx, item.ID, vC11XattrKeys)
				if err != nil {
					h.fatal("snapshot GetWithXattrs "+item.ID, err)
				}
				dig = vC11XDigest(body, x)
			} else {
				dig = vC11Sha(item.Body)
			}
			h.cache[ck] = vC11CacheEnt{cas: item.Cas, dig: dig}
			sn.keys[ck] = dig
		}
		_ = it.Close(h.ctx)
	}
	// the documents of this run may be tombstones (not listed by the scan): read them explicitly
	for _, k := range watch {
		ck := "0|" + k
		if _, ok := sn.keys[ck]; ok {
			continue
		}
		body, x, _, err := h.colRaw.GetWithXattrs(h.ctx, k, vC11XattrKeys)
		if err != nil {
			if base.IsDocNotFoundError(err) {
				continue
			}
			h.fatal("snapshot tombstone "+k, err)
		}
		if body == nil && len(x) == 0 {
			continue
		}
		sn.keys[ck] = "T" + vC11XDigest(body, x)
	}
	ctr, err := base.GetCounter(h.ctx, h.metaRaw, h.db.MetadataKeys.SyncSeqKey())
	if err != nil {
		h.fatal("counter", err)
	}
	sn.ctr = ctr
	return sn
}

func (h *vC11H) classDigests(sn vC11Snap) map[string]string {
	per := map[string][]string{}
	for ck, d := range sn.keys {
		key := ck[strings.Index(ck, "|")+1:]
		c := h.classify(key)
		if c == "seq" {
			continue // the counter is logged as a number
		}
		per[c] = append(per[c], ck+"="+d)
	}
	res := map[string]string{}
	for _, c := range vC11Classes {
		l := per[c]
		sort.Strings(l)
		res[c] = vC11Sha([]byte(strings.Join(l, "\n")))
	}
	return res
}

// unused-sequence documents created between two snapshots -> the sequences they give back
func (h *vC11H) givenBack(pre, post vC11Snap) []uint64 {
	mk := h.db.MetadataKeys
	res := []uint64{}
	for ck := range post.keys {
		if _, ok := pre.keys[ck]; ok {
			continue
		}
		key := ck[strings.Index(ck, "|")+1:]
		switch {
		case strings.HasPrefix(key, mk.UnusedSeqRangePrefix()):
			parts := strings.Split(strings.TrimPrefix(key, mk.UnusedSeqRangePrefix()), ":")
			if len(parts) == 2 {
				a, e1 := strconv.ParseUint(parts[0], 10, 64)
				b, e2 := strconv.ParseUint(parts[1], 10, 64)
				if e1 == nil && e2 == nil && b-a < 1000 {
					for s := a; s <= b; s++ {
						res = append(res, s)
					}
				}
			}
		case strings.HasPrefix(key, mk.UnusedSeqPrefix()):
			if s, err := strconv.ParseUint(strings.TrimPrefix(key, mk.UnusedSeqPrefix()), 10, 64); err == nil {
				res = append(res, s)
			}
		}
	}
	sort.Slice(res, func(i, j int) bool { return res[i] < res[j] })
	return res
}

func vC11Keys(ts channels.TimedSet) string {
	k := ts.AllKeys()
	sort.Strings(k)
	return strings.Join(k, ",")
}

// effective access of the run's principals, through the real authenticator (un-faulted)
func (h *vC11H) effective(r *vC11Run) map[string]string {
	res := map[string]string{}
	a := h.db.Authenticator(h.ctx)
	for _, u := range r.users {
		usr, err := a.GetUser(u)
		if err != nil {
			h.fatal("effective GetUser "+u, err)
		}
		if usr == nil {
			res["u:"+u] = "absent"
			continue
		}
		chs, err := usr.InheritedCollectionChannels(h.scope, h.coll)
		if err != nil {
			h.fatal("effective channels "+u, err)
		}
		res["u:"+u] = "ch=" + vC11Keys(chs) + ";roles=" + vC11Keys(usr.RoleNames()) + ";dis=" + strconv.FormatBool(usr.Disabled()) +
			";admin=" + vC11Keys(usr.CollectionExplicitChannels(h.scope, h.coll)) + ";email=" + usr.Email()
	}
	for _, ro := range r.roles {
		role, err := a.GetRole(ro)
		if err != nil {
			h.fatal("effective GetRole "+ro, err)
		}
		if role == nil {
			res["r:"+ro] = "absent"
			continue
		}
		res["r:"+ro] = "ch=" + vC11Keys(role.CollectionChannels(h.scope, h.coll)) + ";admin=" + vC11Keys(role.CollectionExplicitChannels(h.scope, h.coll))
	}
	return res
}

func vC11ReplyClass(err error) string {
	if err == nil {
		return "ok"
	}
	if base.IsTimeoutError(err) {
		return "timeout"
	}
	var he *base.HTTPError
	if errors.As(err, &he) && he.Status >= 400 && he.Status < 500 && !errors.Is(err, vC11ErrInjected) {
		return "rejected"
	}
	if err == base.ErrNotFound || err == ErrForbidden {
		return "rejected"
	}
	return "failed"
}

func (h *vC11H) newRun() *vC11Run {
	h.runNo++
	id := h.runNo
	sfx := fmt.Sprintf("%d_%d", vSeed(), id)
	r := &vC11Run{h: h, id: id, doc: "c11d" + sfx, user: "c11u" + sfx, user2: "c11v" + sfx, role: "c11r" + sfx,
		email: "c11u" + sfx + "@example.org", rev: map[string]string{}, tok: "tok" + sfx, out: map[string]string{}}
	r.watch = []string{r.doc}
	return r
}

type vC11Fault struct {
	I int
	K string
}

// execute one run; returns the operations of the request
func (h *vC11H) execute(sc *vC11Scn, faults []vC11Fault, prog []*vC11OpRec, clean string) ([]*vC11OpRec, string) {
	r := h.newRun()
	sc.prep(r)
	effPre := h.effective(r)
	h.db.sequences.releaseUnusedSequences(h.ctx)
	pre := h.snapshot(r.watch)

	fm := map[int]string{}
	fl := [][]any{}
	for _, f := range faults {
		fm[f.I] = f.K
		fl = append(fl, []any{f.I, f.K})
	}
	h.ctl.mu.Lock()
	h.ctl.active, h.ctl.n, h.ctl.ops, h.ctl.faults = true, 0, nil, fm
	h.ctl.mu.Unlock()
	err := sc.act(r)
	h.ctl.mu.Lock()
	h.ctl.active, h.ctl.hook = false, nil
	ops := h.ctl.ops
	h.ctl.mu.Unlock()

	h.db.sequences.releaseUnusedSequences(h.ctx)
	post := h.snapshot(r.watch)
	effPost := h.effective(r)
	rbs := [][3]string{}
	if sc.rb != nil {
		rbs = sc.rb(r)
	}

	// ---- projection into small integers (per run)
	intern := map[string]int{}
	id := func(s string) int {
		if v, ok := intern[s]; ok {
			return v
		}
		intern[s] = len(intern) + 1
		return intern[s]
	}
	preD, postD := h.classDigests(pre), h.classDigests(post)
	preO, postO := vObj{}, vObj{}
	for _, c := range vC11Classes {
		preO[c], postO[c] = id(c+preD[c]), id(c+postD[c])
	}
	names := []string{}
	for n := range effPre {
		names = append(names, n)
	}
	sort.Strings(names)
	effA, effB := []int{}, []int{}
	for _, n := range names {
		effA = append(effA, id(n+"="+effPre[n]))
		effB = append(effB, id(n+"="+effPost[n]))
	}
	given := []int{}
	for _, s := range h.givenBack(pre, post) {
		if s > pre.ctr && s <= post.ctr {
			given = append(given, int(s-pre.ctr))
		}
	}
	used := []int{}
	a := h.db.Authenticator(h.ctx)
	addUsed := func(s uint64) {
		if s > pre.ctr && s <= post.ctr {
			used = append(used, int(s-pre.ctr))
		}
	}
	if d, _ := r.stored(); d != nil {
		addUsed(d.Sequence)
		for _, u := range d.UnusedSequences {
			addUsed(u)
		}
	}
	for _, u := range r.users {
		if usr, err := a.GetUser(u); err == nil && usr != nil {
			addUsed(usr.Sequence())
		}
	}
	for _, ro := range r.roles {
		if role, err := a.GetRoleIncDeleted(ro); err == nil && role != nil {
			addUsed(role.Sequence())
		}
	}
	rbO := [][]int{}
	for _, p := range rbs {
		rbO = append(rbO, []int{id("rb" + p[1]), id("rb" + p[2])})
	}
	changed := vObj{}
	for ck, d := range post.keys {
		if pd, ok := pre.keys[ck]; !ok || pd != d {
			key := ck[strings.Index(ck, "|")+1:]
			c := h.classify(key)
			l, _ := changed[c].([]string)
			changed[c] = append(l, map[bool]string{true: "~", false: "+"}[ok]+key)
		}
	}
	for ck := range pre.keys {
		if _, ok := post.keys[ck]; !ok {
			key := ck[strings.Index(ck, "|")+1:]
			c := h.classify(key)
			l, _ := changed[c].([]string)
			changed[c] = append(l, "-"+key)
		}
	}
	progO := [][]any{}
	src := prog
	if src == nil {
		src = ops
	}
	for _, o := range src {
		progO = append(progO, []any{o.M, o.C, o.W, o.Cas, o.R})
	}
	replyClass := vC11ReplyClass(err)
	if prog == nil {
		clean = replyClass
	}
	path := sc.path
	if path == "" {
		path = "doc"
	}
	h.tw.Emit(vObj{"a": "Begin", "run": r.id, "type": sc.name, "path": path, "primary": sc.primary, "clean": clean, "faults": fl, "prog": progO,
		"pre": preO, "effpre": effA, "rec": prog == nil, "nofault": sc.noFault, "envw": append([]string{}, sc.envw...)})
	for _, o := range ops {
		h.tw.Emit(vObj{"a": "Op", "i": o.I, "m": o.M, "c": o.C, "w": o.W, "cas": o.Cas, "r": o.R, "key": o.Key})
	}
	errTxt := ""
	if err != nil {
		errTxt = err.Error()
		if len(errTxt) > 160 {
			errTxt = errTxt[:160]
		}
	}
	effDiff := []string{}
	for _, n := range names {
		if effPre[n] != effPost[n] {
			effDiff = append(effDiff, n+": "+effPre[n]+" -> "+effPost[n])
		}
	}
	rbDiff, rbLost := []string{}, []string{}
	for _, p := range rbs {
		if p[1] != p[2] {
			rbDiff = append(rbDiff, p[0]+": expected "+p[1]+" got "+p[2])
			rbLost = append(rbLost, p[0])
		}
	}
	h.tw.Emit(vObj{"a": "End", "run": r.id, "reply": replyClass, "err": errTxt, "used": used, "post": postO, "effpost": effB,
		"took": int(post.ctr - pre.ctr), "given": given, "rb": rbO, "changed": changed, "effdiff": effDiff, "rbdiff": rbDiff, "rblost": rbLost})
	return ops, replyClass
}

func vC11Kinds(o *vC11OpRec) []string {
	if !o.W {
		return []string{"Err", "TN"}
	}
	if o.Cas {
		return []string{"Err", "Cas", "TN", "TA"}
	}
	return []string{"Err", "TN", "TA"}
}

func vC11SameProg(a, b []*vC11OpRec) bool {
	if len(a) != len(b) {
		return false
	}
	for i := range a {
		if a[i].M != b[i].M || a[i].C != b[i].C || a[i].W != b[i].W {
			return false
		}
	}
	return true
}

const vC11SyncFn = `function(doc, oldDoc, meta) {
	if (doc._deleted) { return; }
	if (doc.reject == "forbidden") { throw({forbidden: "c11 says no"}); }
	if (doc.reject == "throw") { throw("c11 boom"); }
	if (doc.reject == "requireUser") { requireUser("c11-nobody"); }
	if (doc.reject == "requireRole") { requireRole("c11-norole"); }
	if (doc.reject == "requireAccess") { requireAccess("c11-nochan"); }
	if (doc.reject == "requireAdmin") { requireAdmin(); }
	if (doc.owner) { requireUser(doc.owner); }
	if (doc.channels) { channel(doc.channels); }
	if (doc.grant) { access(doc.grant.u, doc.grant.c); }
	if (doc.grantRole) { role(doc.grantRole.u, doc.grantRole.r); }
}`

func TestVerif_C11_WriteAtomic(t *testing.T) {
	tw := vOpenTrace(t, "VERIF_TRACE_OUT")
	defer tw.Close()

	MaxSequenceIncrFrequency = 0 // the allocator's batch never grows: every reserved sequence is one Incr of the counter
	tb := base.GetTestBucket(t)
	db, ctx := SetupTestDBForBucketWithOptions(t, tb, DatabaseContextOptions{
		AllowConflicts: base.Ptr(true), BcryptCost: 4, OldRevExpirySeconds: 24 * 3600,
	})
	defer db.Close(ctx)
	db.AllowEmptyPassword = true
	// Rosmar always reports cross-cluster versioning as enabled, which switches the removal of obsolete attachments off;
	// the harness runs the configuration in which the post-commit attachment delete exists
	db.CachedCCVEnabled.Store(false)
	col, cctx := GetSingleDatabaseCollectionWithUser(ctx, t, db)
	if _, err := col.UpdateSyncFun(cctx, vC11SyncFn); err != nil {
		t.Fatalf("VERIF-FATAL C11 sync function: %v", err)
	}
	h := &vC11H{t: t, ctx: ctx, db: db, col: col, cctx: cctx, cache: map[string]vC11CacheEnt{}, tw: tw,
		scope: col.ScopeName, coll: col.Name}
	h.ctl = &vC11Ctl{classify: h.classify, gid: vC11Gid()}
	h.colRaw, h.metaRaw = col.dataStore, db.MetadataStore
	h.under = []base.DataStore{h.colRaw}
	if h.metaRaw != h.colRaw {
		h.under = append(h.under, h.metaRaw)
	}
	// install the decorator: collection store, metadata store (authenticator, sessions), sequence allocator
	col.dataStore = &vC11Store{DataStore: h.colRaw, ctl: h.ctl}
	metaDec := &vC11Store{DataStore: h.metaRaw, ctl: h.ctl}
	db.MetadataStore = metaDec
	db.sequences.mutex.Lock()
	db.sequences.datastore = metaDec
	db.sequences.mutex.Unlock()
	defer func() { // the database is closed through the undecorated handles
		col.dataStore = h.colRaw
		db.MetadataStore = h.metaRaw
		db.sequences.mutex.Lock()
		db.sequences.datastore = h.metaRaw
		db.sequences.mutex.Unlock()
	}()

	scns := vC11Scenarios(h)
	only := os.Getenv("VERIF_C11_ONLY")
	pairStride := vEnvInt("VERIF_C11_PAIR_STRIDE", 0) // 0 = no pairs
	rnd := vRand()
	for _, sc := range scns {
		if only != "" && !strings.Contains(","+only+",", ","+sc.name+",") {
			continue
		}
		if sc.tier == 1 && !vThorough() {
			continue
		}
		prog, clean := h.execute(sc, nil, nil, "")
		again, _ := h.execute(sc, nil, nil, "")
		if !vC11SameProg(prog, again) {
			t.Fatalf("VERIF-FATAL C11 %s: operation list of the recording run is not deterministic:\n%v\n%v", sc.name, vC11Fmt(prog), vC11Fmt(again))
		}
		if sc.noFault {
			continue
		}
		for _, o := range prog {
			for _, k := range vC11Kinds(o) {
				ops1, _ := h.execute(sc, []vC11Fault{{o.I, k}}, prog, clean)
				if pairStride <= 0 {
					continue
				}
				// pairs: the second fault ranges over the operations that FOLLOW the first one in the faulted run
				for _, o2 := range ops1 {
					if o2.I <= o.I {
						continue
					}
					for _, k2 := range vC11Kinds(o2) {
						if pairStride > 1 && rnd.Intn(pairStride) != 0 {
							continue
						}
						h.execute(sc, []vC11Fault{{o.I, k}, {o2.I, k2}}, prog, clean)
					}
				}
			}
		}
	}
}

func vC11Fmt(ops []*vC11OpRec) string {
	s := []string{}
	for _, o := range ops {
		s = append(s, fmt.Sprintf("%d:%s(%s)=%s", o.I, o.M, o.C, o.R))
	}
	return strings.Join(s, " ")
}

// ---------------------------------------------------------------------------------------------------------------
// request types
// ---------------------------------------------------------------------------------------------------------------

func (r *vC11Run) must(what string, err error) {
	if err != nil {
		r.h.fatal(fmt.Sprintf("run %d prep %s", r.id, what), err)
	}
}

func (r *vC11Run) mkUser(name string, chans ...string) {
	pw := "c11-password"
	cfg := &auth.PrincipalConfig{Name: &name, Password: &pw}
	cfg.SetExplicitChannels(r.h.scope, r.h.coll, chans...)
	_, _, err := r.h.db.UpdatePrincipal(r.h.ctx, cfg, true, true)
	r.must("create user "+name, err)
	r.users = append(r.users, name)
}

func (r *vC11Run) mkRole(name string, chans ...string) {
	cfg := &auth.PrincipalConfig{Name: &name}
	cfg.SetExplicitChannels(r.h.scope, r.h.coll, chans...)
	_, _, err := r.h.db.UpdatePrincipal(r.h.ctx, cfg, false, true)
	r.must("create role "+name, err)
	r.roles = append(r.roles, name)
}

func (r *vC11Run) put(body Body) string {
	rev, _, err := r.h.col.Put(r.h.cctx, r.doc, body)
	r.must("put", err)
	return rev
}

var vC11Big = strings.Repeat("x", 300) // > MaximumInlineBodySize: a non-winning body of this size is stored externally

func vC11Att(data string) map[string]any {
	return map[string]any{"data": base64.StdEncoding.EncodeToString([]byte(data))}
}

// current document as stored (un-faulted read; bypasses the revision cache)
func (r *vC11Run) stored() (*Document, string) {
	doc, err := r.h.col.GetDocument(r.h.cctx, r.doc, DocUnmarshalAll)
	if err != nil {
		if base.IsDocNotFoundError(err) {
			return nil, "absent"
		}
		return nil, "error:" + err.Error()
	}
	return doc, ""
}

func (r *vC11Run) docState() string {
	doc, why := r.stored()
	if doc == nil {
		return why
	}
	b := doc.Body(r.h.cctx)
	tok, _ := b["v"].(string)
	atts := []string{}
	for n, m := range doc.Attachments() {
		dig := ""
		if mm, ok := m.(map[string]any); ok {
			dig, _ = mm["digest"].(string)
		}
		atts = append(atts, n+":"+dig)
	}
	sort.Strings(atts)
	chs := []string{}
	for c, rem := range doc.Channels {
		if rem == nil {
			chs = append(chs, c)
		}
	}
	sort.Strings(chs)
	return fmt.Sprintf("rev=%s del=%v v=%s ch=%s atts=%s", doc.GetRevTreeID(), doc.IsDeleted(), tok, strings.Join(chs, ","), strings.Join(atts, ","))
}

// are the data documents of the current revision's attachments readable?
func (r *vC11Run) attData() string {
	doc, why := r.stored()
	if doc == nil {
		return why
	}
	res := []string{}
	for n, m := range doc.Attachments() {
		mm, _ := m.(map[string]any)
		dig, _ := mm["digest"].(string)
		ver, _ := GetAttachmentVersion(mm)
		data, err := r.h.col.GetAttachment(r.h.cctx, MakeAttachmentKey(ver, r.doc, dig))
		if err != nil {
			res = append(res, n+"=unreadable")
		} else {
			res = append(res, n+"="+string(data))
		}
	}
	sort.Strings(res)
	return strings.Join(res, ",")
}

// body of a (possibly non-winning) revision as the bucket holds it
func (r *vC11Run) revBody(rev string) string {
	doc, why := r.stored()
	if doc == nil {
		return why
	}
	if _, ok := doc.History[rev]; !ok {
		return "norev"
	}
	raw := doc.getRevisionBodyJSON(r.h.cctx, rev, r.h.col.RevisionBodyLoader)
	if raw == nil {
		return "nobody"
	}
	var b Body
	if err := b.Unmarshal(raw); err != nil {
		return "garbled"
	}
	tok, _ := b["v"].(string)
	return "v=" + tok
}

func (r *vC11Run) wantDoc(rev string, del bool, tok, chs, atts string) string {
	return fmt.Sprintf("rev=%s del=%v v=%s ch=%s atts=%s", rev, del, tok, chs, atts)
}

func (r *vC11Run) asU() *DatabaseCollectionWithUser {
	return &DatabaseCollectionWithUser{DatabaseCollection: r.h.col.DatabaseCollection, user: r.asUser}
}

func (r *vC11Run) loadUser(name string) auth.User {
	u, err := r.h.db.Authenticator(r.h.ctx).GetUser(name)
	r.must("load user "+name, err)
	if u == nil {
		r.must("load user "+name, fmt.Errorf("absent"))
	}
	return u
}

func vC11LongSession(h *vC11H, name string, oneTime bool) *vC11Scn {
	return &vC11Scn{name: name, path: "session", primary: "session",
		prep: func(r *vC11Run) { r.mkUser(r.user, "c11a") },
		act: func(r *vC11Run) error {
			a := h.db.Authenticator(h.ctx)
			u, err := a.GetUser(r.user)
			if err != nil {
				return err
			}
			s, err := a.CreateSession(h.ctx, u, 31*24*time.Hour, oneTime)
			if s != nil {
				r.sess = s.ID
			}
			return err
		},
		rb: func(r *vC11Run) [][3]string {
			got := "none"
			if r.sess != "" {
				a := h.db.Authenticator(h.ctx)
				if s, u, err := a.GetSession(r.sess); err == nil && s != nil && u != nil {
					got = u.Name()
					if exp, err := h.metaRaw.GetExpiry(h.ctx, a.DocIDForSession(r.sess)); err == nil && exp != 0 && int64(exp) <= time.Now().Unix() {
						got += " (already expired for the bucket)"
					}
				}
			}
			return [][3]string{{"session", r.user, got}}
		}}
}

func vC11Scenarios(h *vC11H) []*vC11Scn {
	rejection := func(name string, body func(r *vC11Run) Body) *vC11Scn {
		return &vC11Scn{name: name, primary: "doc", noFault: true,
			prep: func(r *vC11Run) {
				r.mkUser(r.user, "c11pub")
				r.rev["1"] = r.put(Body{"v": "one", "channels": []string{"c11pub"}})
				r.asUser = r.loadUser(r.user)
			},
			act: func(r *vC11Run) error {
				b := body(r)
				rev, _, err := r.asU().Put(h.cctx, r.doc, b)
				r.out["rev"] = rev
				return err
			},
			rb: func(r *vC11Run) [][3]string {
				return [][3]string{{"doc", r.wantDoc(r.out["rev"], false, r.tok, "c11pub", ""), r.docState()}}
			}}
	}
	attDigest := func(data string) string { return Sha1DigestKey([]byte(data)) }
	return []*vC11Scn{
		{name: "create", primary: "doc",
			prep: func(r *vC11Run) {},
			act: func(r *vC11Run) error {
				rev, _, err := h.col.Put(h.cctx, r.doc, Body{"v": r.tok, "channels": []string{"c11a"}})
				r.out["rev"] = rev
				return err
			},
			rb: func(r *vC11Run) [][3]string {
				return [][3]string{{"doc", r.wantDoc(r.out["rev"], false, r.tok, "c11a", ""), r.docState()}}
			}},
		{name: "update", primary: "doc",
			prep: func(r *vC11Run) { r.rev["1"] = r.put(Body{"v": "one", "channels": []string{"c11a"}}) },
			act: func(r *vC11Run) error {
				rev, _, err := h.col.Put(h.cctx, r.doc, Body{BodyRev: r.rev["1"], "v": r.tok, "channels": []string{"c11b"}})
				r.out["rev"] = rev
				return err
			},
			rb: func(r *vC11Run) [][3]string {
				return [][3]string{{"doc", r.wantDoc(r.out["rev"], false, r.tok, "c11b", ""), r.docState()}}
			}},
		{name: "update_grant", primary: "doc",
			prep: func(r *vC11Run) {
				r.mkUser(r.user)
				r.mkUser(r.user2)
				r.mkRole(r.role, "c11rolechan")
				r.rev["1"] = r.put(Body{"v": "one", "channels": []string{"c11a"}})
			},
			act: func(r *vC11Run) error {
				rev, _, err := h.col.Put(h.cctx, r.doc, Body{BodyRev: r.rev["1"], "v": r.tok, "channels": []string{"c11a"},
					"grant": map[string]any{"u": r.user, "c": "c11granted"}, "grantRole": map[string]any{"u": r.user2, "r": "role:" + r.role}})
				r.out["rev"] = rev
				return err
			},
			rb: func(r *vC11Run) [][3]string {
				eff := h.effective(r)
				has := func(s, part, item string) string {
					i := strings.Index(s, part+"=")
					if i < 0 {
						return "?"
					}
					rest := s[i+len(part)+1:]
					if j := strings.Index(rest, ";"); j >= 0 {
						rest = rest[:j]
					}
					return strconv.FormatBool(strings.Contains(","+rest+",", ","+item+","))
				}
				return [][3]string{
					{"doc", r.wantDoc(r.out["rev"], false, r.tok, "c11a", ""), r.docState()},
					{"access-grant", "granted channel effective: true", "granted channel effective: " + has(eff["u:"+r.user], "ch", "c11granted")},
					{"access-rolegrant", "granted role effective: true", "granted role effective: " + has(eff["u:"+r.user2], "roles", r.role)},
					{"access-rolechannel", "role channel inherited: true", "role channel inherited: " + has(eff["u:"+r.user2], "ch", "c11rolechan")},
				}
			}},
		{name: "update_att", primary: "doc",
			prep: func(r *vC11Run) { r.rev["1"] = r.put(Body{"v": "one", "channels": []string{"c11a"}}) },
			act: func(r *vC11Run) error {
				rev, _, err := h.col.Put(h.cctx, r.doc, Body{BodyRev: r.rev["1"], "v": r.tok, "channels": []string{"c11a"},
					BodyAttachments: map[string]any{"a.txt": vC11Att("att-" + r.tok)}})
				r.out["rev"] = rev
				return err
			},
			rb: func(r *vC11Run) [][3]string {
				return [][3]string{
					{"doc", r.wantDoc(r.out["rev"], false, r.tok, "c11a", "a.txt:"+attDigest("att-"+r.tok)), r.docState()},
					{"attdata", "a.txt=att-" + r.tok, r.attData()},
				}
			}},
		{name: "update_dropatt", primary: "doc",
			prep: func(r *vC11Run) {
				r.rev["1"] = r.put(Body{"v": "one", "channels": []string{"c11a"}, BodyAttachments: map[string]any{"a.txt": vC11Att("att-one-" + r.tok)}})
			},
			act: func(r *vC11Run) error {
				rev, _, err := h.col.Put(h.cctx, r.doc, Body{BodyRev: r.rev["1"], "v": r.tok, "channels": []string{"c11a"}})
				r.out["rev"] = rev
				return err
			},
			rb: func(r *vC11Run) [][3]string {
				return [][3]string{{"doc", r.wantDoc(r.out["rev"], false, r.tok, "c11a", ""), r.docState()}}
			}},
		{name: "update_replaceatt", primary: "doc", tier: 1,
			prep: func(r *vC11Run) {
				r.rev["1"] = r.put(Body{"v": "one", "channels": []string{"c11a"}, BodyAttachments: map[string]any{"a.txt": vC11Att("att-one-" + r.tok)}})
			},
			act: func(r *vC11Run) error {
				rev, _, err := h.col.Put(h.cctx, r.doc, Body{BodyRev: r.rev["1"], "v": r.tok, "channels": []string{"c11a"},
					BodyAttachments: map[string]any{"a.txt": vC11Att("att-two-" + r.tok)}})
				r.out["rev"] = rev
				return err
			},
			rb: func(r *vC11Run) [][3]string {
				return [][3]string{
					{"doc", r.wantDoc(r.out["rev"], false, r.tok, "c11a", "a.txt:"+attDigest("att-two-"+r.tok)), r.docState()},
					{"attdata", "a.txt=att-two-" + r.tok, r.attData()},
				}
			}},
		// a pushed conflicting branch that wins: the previous winner's (large) body moves to an external revision-body document
		{name: "conflict_push", primary: "doc",
			prep: func(r *vC11Run) {
				r.rev["1"] = r.put(Body{"v": "one", "channels": []string{"c11a"}})
				r.rev["2"] = r.put(Body{BodyRev: r.rev["1"], "v": "two", "pad": vC11Big, "channels": []string{"c11a"}})
			},
			act: func(r *vC11Run) error {
				_, rev, err := h.col.PutExistingRevWithBody(h.cctx, r.doc, Body{"v": r.tok, "channels": []string{"c11b"}},
					[]string{"2-zzzz" + strconv.Itoa(r.id), r.rev["1"]}, false, ExistingVersionWithUpdateToHLV)
				r.out["rev"] = rev
				return err
			},
			rb: func(r *vC11Run) [][3]string {
				return [][3]string{
					{"doc", r.wantDoc(r.out["rev"], false, r.tok, "c11b", ""), r.docState()},
					{"revbody", "v=two", r.revBody(r.rev["2"])},
				}
			}},
		// a pushed conflicting branch that loses, with a large body: the NEW revision's body is stored externally
		{name: "conflict_push_loser", primary: "doc",
			prep: func(r *vC11Run) {
				r.rev["1"] = r.put(Body{"v": "one", "channels": []string{"c11a"}})
				r.rev["2"] = r.put(Body{BodyRev: r.rev["1"], "v": "two", "channels": []string{"c11a"}})
			},
			act: func(r *vC11Run) error {
				_, rev, err := h.col.PutExistingRevWithBody(h.cctx, r.doc, Body{"v": r.tok, "pad": vC11Big, "channels": []string{"c11b"}},
					[]string{"2-0000" + strconv.Itoa(r.id), r.rev["1"]}, false, ExistingVersionWithUpdateToHLV)
				r.out["rev"] = rev
				return err
			},
			rb: func(r *vC11Run) [][3]string {
				return [][3]string{
					{"doc", r.wantDoc(r.rev["2"], false, "two", "c11a", ""), r.docState()},
					{"revbody", "v=" + r.tok, r.revBody(r.out["rev"])},
				}
			}},
		// tombstoning the winning branch of a conflicted document: the other branch (external body) becomes current again
		{name: "tombstone_winner", primary: "doc",
			prep: func(r *vC11Run) {
				r.rev["1"] = r.put(Body{"v": "one", "channels": []string{"c11a"}})
				r.rev["2"] = r.put(Body{BodyRev: r.rev["1"], "v": "two", "pad": vC11Big, "channels": []string{"c11a"}})
				_, rev, err := h.col.PutExistingRevWithBody(h.cctx, r.doc, Body{"v": "three", "channels": []string{"c11b"}},
					[]string{"2-zzzz" + strconv.Itoa(r.id), r.rev["1"]}, false, ExistingVersionWithUpdateToHLV)
				r.must("conflicting push", err)
				r.rev["3"] = rev
			},
			act: func(r *vC11Run) error {
				rev, _, err := h.col.DeleteDoc(h.cctx, r.doc, DocVersion{RevTreeID: r.rev["3"]})
				r.out["rev"] = rev
				return err
			},
			rb: func(r *vC11Run) [][3]string {
				return [][3]string{{"doc", r.wantDoc(r.rev["2"], false, "two", "c11a", ""), r.docState()}}
			}},
		// tombstoning the losing branch: its external body is no longer needed (post-commit delete)
		{name: "tombstone_loser", primary: "doc",
			prep: func(r *vC11Run) {
				r.rev["1"] = r.put(Body{"v": "one", "channels": []string{"c11a"}})
				r.rev["2"] = r.put(Body{BodyRev: r.rev["1"], "v": "two", "pad": vC11Big, "channels": []string{"c11a"}})
				_, rev, err := h.col.PutExistingRevWithBody(h.cctx, r.doc, Body{"v": "three", "channels": []string{"c11b"}},
					[]string{"2-zzzz" + strconv.Itoa(r.id), r.rev["1"]}, false, ExistingVersionWithUpdateToHLV)
				r.must("conflicting push", err)
				r.rev["3"] = rev
			},
			act: func(r *vC11Run) error {
				rev, _, err := h.col.DeleteDoc(h.cctx, r.doc, DocVersion{RevTreeID: r.rev["2"]})
				r.out["rev"] = rev
				return err
			},
			rb: func(r *vC11Run) [][3]string {
				return [][3]string{{"doc", r.wantDoc(r.rev["3"], false, "three", "c11b", ""), r.docState()}}
			}},
		{name: "delete", primary: "doc",
			prep: func(r *vC11Run) {
				r.mkUser(r.user)
				r.rev["1"] = r.put(Body{"v": "one", "channels": []string{"c11a"}, "grant": map[string]any{"u": r.user, "c": "c11granted"}})
			},
			act: func(r *vC11Run) error {
				rev, _, err := h.col.DeleteDoc(h.cctx, r.doc, DocVersion{RevTreeID: r.rev["1"]})
				r.out["rev"] = rev
				return err
			},
			rb: func(r *vC11Run) [][3]string {
				eff := h.effective(r)
				return [][3]string{
					{"doc", r.wantDoc(r.out["rev"], true, "", "", ""), r.docState()},
					{"access-revoke", "grant revoked: true", "grant revoked: " + strconv.FormatBool(!strings.Contains(eff["u:"+r.user], "c11granted"))},
				}
			}},
		// ---- rejections (no faults): every kind must leave everything as it was
		rejection("rej_forbidden", func(r *vC11Run) Body {
			return Body{BodyRev: r.rev["1"], "v": r.tok, "reject": "forbidden", "channels": []string{"c11pub"}}
		}),
		rejection("rej_throw", func(r *vC11Run) Body {
			return Body{BodyRev: r.rev["1"], "v": r.tok, "reject": "throw", "channels": []string{"c11pub"}}
		}),
		rejection("rej_requireUser", func(r *vC11Run) Body {
			return Body{BodyRev: r.rev["1"], "v": r.tok, "reject": "requireUser", "channels": []string{"c11pub"}}
		}),
		rejection("rej_requireRole", func(r *vC11Run) Body {
			return Body{BodyRev: r.rev["1"], "v": r.tok, "reject": "requireRole", "channels": []string{"c11pub"}}
		}),
		rejection("rej_requireAccess", func(r *vC11Run) Body {
			return Body{BodyRev: r.rev["1"], "v": r.tok, "reject": "requireAccess", "channels": []string{"c11pub"}}
		}),
		rejection("rej_requireAdmin", func(r *vC11Run) Body {
			return Body{BodyRev: r.rev["1"], "v": r.tok, "reject": "requireAdmin", "channels": []string{"c11pub"}}
		}),
		rejection("rej_att_forbidden", func(r *vC11Run) Body { // a rejected write that carried a new attachment
			return Body{BodyRev: r.rev["1"], "v": r.tok, "reject": "forbidden", BodyAttachments: map[string]any{"a.txt": vC11Att("att-" + r.tok)}}
		}),
		rejection("rej_validation", func(r *vC11Run) Body { // reserved internal property
			return Body{BodyRev: r.rev["1"], "v": r.tok, "_sync": map[string]any{"rev": "9-c11"}}
		}),
		rejection("rej_bad_attachment", func(r *vC11Run) Body { // stub of an attachment the document does not have
			return Body{BodyRev: r.rev["1"], "v": r.tok, BodyAttachments: map[string]any{"ghost.txt": map[string]any{"stub": true, "revpos": 1}}}
		}),
		rejection("rej_conflict", func(r *vC11Run) Body { // not the current revision
			return Body{BodyRev: "1-00000000000000000000000000000000", "v": r.tok}
		}),
		rejection("rej_exists", func(r *vC11Run) Body { // create over an existing document
			return Body{"v": r.tok}
		}),
		// the re-evaluation of the revision that becomes current again is rejected - AFTER the sequence was reserved
		{name: "rej_recalc", primary: "doc", noFault: true,
			prep: func(r *vC11Run) {
				r.mkUser(r.user, "c11a", "c11b")
				r.mkUser(r.user2, "c11a", "c11b")
				r.rev["1"] = r.put(Body{"v": "one", "channels": []string{"c11a"}})
				r.rev["2"] = r.put(Body{BodyRev: r.rev["1"], "v": "two", "owner": r.user, "channels": []string{"c11a"}})
				_, rev, err := h.col.PutExistingRevWithBody(h.cctx, r.doc, Body{"v": "three", "channels": []string{"c11b"}},
					[]string{"2-zzzz" + strconv.Itoa(r.id), r.rev["1"]}, false, ExistingVersionWithUpdateToHLV)
				r.must("conflicting push", err)
				r.rev["3"] = rev
				r.asUser = r.loadUser(r.user2)
			},
			act: func(r *vC11Run) error {
				rev, _, err := r.asU().DeleteDoc(h.cctx, r.doc, DocVersion{RevTreeID: r.rev["3"]})
				r.out["rev"] = rev
				return err
			},
			rb: func(r *vC11Run) [][3]string {
				return [][3]string{{"doc", r.wantDoc(r.rev["2"], false, "two", "c11a", ""), r.docState()}}
			}},
		// ---- principals
		{name: "user_create", path: "UpdatePrincipal", primary: "user",
			prep: func(r *vC11Run) { r.users = append(r.users, r.user) },
			act: func(r *vC11Run) error {
				pw := "c11-password"
				cfg := &auth.PrincipalConfig{Name: &r.user, Password: &pw, Email: &r.email}
				cfg.SetExplicitChannels(h.scope, h.coll, "c11a")
				_, _, err := h.db.UpdatePrincipal(h.ctx, cfg, true, false)
				return err
			},
			rb: func(r *vC11Run) [][3]string {
				eff := h.effective(r)
				byMail := "absent"
				if u, err := h.db.Authenticator(h.ctx).GetUserByEmail(r.email); err == nil && u != nil {
					byMail = u.Name()
				}
				return [][3]string{
					{"user", "user admin channels: true", "user admin channels: " + strconv.FormatBool(strings.Contains(eff["u:"+r.user], "admin=c11a;"))},
					{"emailindex", r.user, byMail},
				}
			}},
		{name: "user_update", path: "UpdatePrincipal", primary: "user",
			prep: func(r *vC11Run) { r.mkUser(r.user, "c11a") },
			act: func(r *vC11Run) error {
				cfg := &auth.PrincipalConfig{Name: &r.user}
				cfg.SetExplicitChannels(h.scope, h.coll, "c11a", "c11b")
				dis := true
				cfg.Disabled = &dis
				_, _, err := h.db.UpdatePrincipal(h.ctx, cfg, true, true)
				return err
			},
			rb: func(r *vC11Run) [][3]string {
				eff := h.effective(r)
				return [][3]string{
					{"user", "updated: true", "updated: " + strconv.FormatBool(strings.Contains(eff["u:"+r.user], "admin=c11a,c11b;") && strings.Contains(eff["u:"+r.user], "dis=true"))},
				}
			}},
		// a concurrent, acknowledged admin update lands between UpdatePrincipal's read and its save: the save must not
		// overwrite it (real CAS mismatch of the store, release of the sequence, retry) - both updates are read back
		{name: "user_update_race", path: "UpdatePrincipal", primary: "user", noFault: true, envw: []string{"user"},
			prep: func(r *vC11Run) { r.mkUser(r.user, "c11a") },
			act: func(r *vC11Run) error {
				fired := false
				h.ctl.hook = func(m, class string) {
					if fired || class != "user" || (m != "WriteCas" && m != "Set" && m != "SetRaw" && m != "Update.write") {
						return
					}
					fired = true
					cfg := &auth.PrincipalConfig{Name: &r.user}
					cfg.SetExplicitChannels(h.scope, h.coll, "c11a", "c11race")
					_, _, err := h.db.UpdatePrincipal(h.ctx, cfg, true, true)
					r.must("concurrent principal update", err)
				}
				dis := true
				_, _, err := h.db.UpdatePrincipal(h.ctx, &auth.PrincipalConfig{Name: &r.user, Disabled: &dis}, true, true)
				return err
			},
			rb: func(r *vC11Run) [][3]string {
				eff := h.effective(r)["u:"+r.user]
				return [][3]string{
					{"user", "disabled: true", "disabled: " + strconv.FormatBool(strings.Contains(eff, "dis=true"))},
					{"concurrent-update", "concurrent update kept: true", "concurrent update kept: " + strconv.FormatBool(strings.Contains(eff, "c11race"))},
				}
			}},
		// ---- resync with regenerate_sequences: the loop body of updateAllPrincipalsSequences for ONE principal (load, reserve a
		// sequence, UpdateSequenceNumberForResync).  The whole loop would visit every principal of the bucket.
		{name: "resync_user_seq", path: "resyncPrincipal", primary: "user",
			prep: func(r *vC11Run) { r.mkUser(r.user, "c11a") },
			act: func(r *vC11Run) error {
				authr := h.db.Authenticator(h.ctx)
				u, err := authr.GetUser(r.user)
				if err != nil || u == nil {
					return err
				}
				return h.db.regeneratePrincipalSequences(h.ctx, authr, u, "resync-"+r.tok)
			},
			rb: func(r *vC11Run) [][3]string {
				got := "?"
				if u, err := h.db.Authenticator(h.ctx).GetUser(r.user); err == nil && u != nil {
					got = u.ResyncID()
				}
				return [][3]string{{"resyncseq", "resync-" + r.tok, got}}
			}},
		{name: "resync_role_seq", path: "resyncPrincipal", primary: "role",
			prep: func(r *vC11Run) { r.mkRole(r.role, "c11a") },
			act: func(r *vC11Run) error {
				authr := h.db.Authenticator(h.ctx)
				ro, err := authr.GetRole(r.role)
				if err != nil || ro == nil {
					return err
				}
				return h.db.regeneratePrincipalSequences(h.ctx, authr, ro, "resync-"+r.tok)
			},
			rb: func(r *vC11Run) [][3]string {
				got := "?"
				if ro, err := h.db.Authenticator(h.ctx).GetRole(r.role); err == nil && ro != nil {
					got = ro.ResyncID()
				}
				return [][3]string{{"resyncseq", "resync-" + r.tok, got}}
			}},
		// an acknowledged admin update of the principal lands between resync's load and its write: whatever resync does
		// (give up on the CAS mismatch and release its sequence), the acknowledged update must stay visible
		{name: "resync_user_seq_race", path: "resyncPrincipal", primary: "user", noFault: true, envw: []string{"user", "useremail"},
			prep: func(r *vC11Run) { r.mkUser(r.user, "c11a") },
			act: func(r *vC11Run) error {
				authr := h.db.Authenticator(h.ctx)
				u, err := authr.GetUser(r.user)
				if err != nil || u == nil {
					return err
				}
				fired := false
				h.ctl.hook = func(m, class string) {
					if fired || class != "user" || (m != "WriteCas" && m != "Set" && m != "SetRaw" && m != "Update.write") {
						return
					}
					fired = true
					dis := true
					cfg := &auth.PrincipalConfig{Name: &r.user, Disabled: &dis, Email: &r.email}
					_, _, err := h.db.UpdatePrincipal(h.ctx, cfg, true, true)
					r.must("concurrent principal update", err)
				}
				return h.db.regeneratePrincipalSequences(h.ctx, authr, u, "resync-"+r.tok)
			},
			rb: func(r *vC11Run) [][3]string {
				eff := h.effective(r)["u:"+r.user]
				return [][3]string{{"concurrent-update", "concurrent update kept: true",
					"concurrent update kept: " + strconv.FormatBool(strings.Contains(eff, "dis=true") && strings.Contains(eff, "email="+r.email))}}
			}},
		{name: "resync_role_seq_race", path: "resyncPrincipal", primary: "role", noFault: true, envw: []string{"role"},
			prep: func(r *vC11Run) { r.mkRole(r.role, "c11a") },
			act: func(r *vC11Run) error {
				authr := h.db.Authenticator(h.ctx)
				ro, err := authr.GetRole(r.role)
				if err != nil || ro == nil {
					return err
				}
				fired := false
				h.ctl.hook = func(m, class string) {
					if fired || class != "role" || (m != "WriteCas" && m != "Set" && m != "SetRaw" && m != "Update.write") {
						return
					}
					fired = true
					cfg := &auth.PrincipalConfig{Name: &r.role}
					cfg.SetExplicitChannels(h.scope, h.coll, "c11a", "c11race")
					_, _, err := h.db.UpdatePrincipal(h.ctx, cfg, false, true)
					r.must("concurrent principal update", err)
				}
				return h.db.regeneratePrincipalSequences(h.ctx, authr, ro, "resync-"+r.tok)
			},
			rb: func(r *vC11Run) [][3]string {
				eff := h.effective(r)["r:"+r.role]
				return [][3]string{{"concurrent-update", "concurrent update kept: true",
					"concurrent update kept: " + strconv.FormatBool(strings.Contains(eff, "c11race"))}}
			}},
		{name: "user_delete", path: "deleteUser", primary: "user",
			prep: func(r *vC11Run) {
				r.users = append(r.users, r.user)
				pw := "c11-password"
				cfg := &auth.PrincipalConfig{Name: &r.user, Password: &pw, Email: &r.email}
				_, _, err := h.db.UpdatePrincipal(h.ctx, cfg, true, true)
				r.must("create user", err)
			},
			act: func(r *vC11Run) error { // rest/api handler deleteUser: GetUser then DeleteUser
				a := h.db.Authenticator(h.ctx)
				u, err := a.GetUser(r.user)
				if err != nil {
					return err
				}
				if u == nil {
					return base.ErrNotFound
				}
				return a.DeleteUser(u)
			},
			rb: func(r *vC11Run) [][3]string {
				return [][3]string{{"user", "absent", h.effective(r)["u:"+r.user]}}
			}},
		{name: "role_create", path: "UpdatePrincipal", primary: "role",
			prep: func(r *vC11Run) { r.roles = append(r.roles, r.role) },
			act: func(r *vC11Run) error {
				cfg := &auth.PrincipalConfig{Name: &r.role}
				cfg.SetExplicitChannels(h.scope, h.coll, "c11a")
				_, _, err := h.db.UpdatePrincipal(h.ctx, cfg, false, false)
				return err
			},
			rb: func(r *vC11Run) [][3]string {
				return [][3]string{{"role", "role admin channels: true", "role admin channels: " + strconv.FormatBool(strings.Contains(h.effective(r)["r:"+r.role], "admin=c11a"))}}
			}},
		{name: "role_delete", path: "casUpdatePrincipal", primary: "role",
			prep: func(r *vC11Run) { r.mkRole(r.role, "c11a") },
			act:  func(r *vC11Run) error { return h.db.DeleteRole(h.ctx, r.role, false) },
			rb: func(r *vC11Run) [][3]string {
				return [][3]string{{"role", "absent", h.effective(r)["r:"+r.role]}}
			}},
		{name: "role_purge", path: "purgeRole", primary: "role",
			prep: func(r *vC11Run) { r.mkRole(r.role, "c11a") },
			act:  func(r *vC11Run) error { return h.db.DeleteRole(h.ctx, r.role, true) },
			rb: func(r *vC11Run) [][3]string {
				return [][3]string{{"role", "absent", h.effective(r)["r:"+r.role]}}
			}},
		// ---- sessions
		{name: "session_create", path: "session", primary: "session",
			prep: func(r *vC11Run) { r.mkUser(r.user, "c11a") },
			act: func(r *vC11Run) error {
				a := h.db.Authenticator(h.ctx)
				u, err := a.GetUser(r.user)
				if err != nil {
					return err
				}
				s, err := a.CreateSession(h.ctx, u, 24*time.Hour, false)
				if s != nil {
					r.sess = s.ID
				}
				return err
			},
			rb: func(r *vC11Run) [][3]string {
				got := "none"
				if r.sess != "" {
					if s, u, err := h.db.Authenticator(h.ctx).GetSession(r.sess); err == nil && s != nil && u != nil {
						got = u.Name()
					}
				}
				return [][3]string{{"session", r.user, got}}
			}},
		// a TTL above 30 days: the bucket reads such an expiry value as an absolute time, so the session must have been stored
		// with one.  Read-back: the session is found AND the bucket itself does not consider the document expired (Rosmar
		// removes expired documents asynchronously; its own expiry metadata is the deterministic form of "a later read sees it")
		vC11LongSession(h, "session_create_long", false),
		vC11LongSession(h, "session_create_long_onetime", true),
		{name: "session_delete", path: "session", primary: "session",
			prep: func(r *vC11Run) {
				r.mkUser(r.user, "c11a")
				a := h.db.Authenticator(h.ctx)
				s, err := a.CreateSession(h.ctx, r.loadUser(r.user), 24*time.Hour, false)
				r.must("create session", err)
				r.sess = s.ID
			},
			act: func(r *vC11Run) error { return h.db.Authenticator(h.ctx).DeleteSession(h.ctx, r.sess, r.user) },
			rb: func(r *vC11Run) [][3]string {
				got := "gone"
				if s, _, err := h.db.Authenticator(h.ctx).GetSession(r.sess); err == nil && s != nil {
					got = "still valid"
				}
				return [][3]string{{"session", "gone", got}}
			}},
		// a one-time session authenticates once: the login reply depends on the delete of the session document
		{name: "session_onetime", path: "session", primary: "session", tier: 1,
			prep: func(r *vC11Run) {
				r.mkUser(r.user, "c11a")
				a := h.db.Authenticator(h.ctx)
				s, err := a.CreateSession(h.ctx, r.loadUser(r.user), 24*time.Hour, true)
				r.must("create session", err)
				r.sess = s.ID
			},
			act: func(r *vC11Run) error {
				_, err := h.db.Authenticator(h.ctx).AuthenticateOneTimeSession(h.ctx, r.sess)
				return err
			},
			rb: func(r *vC11Run) [][3]string {
				got := "gone"
				if s, _, err := h.db.Authenticator(h.ctx).GetSession(r.sess); err == nil && s != nil {
					got = "still valid"
				}
				return [][3]string{{"session", "gone", got}}
			}},
	}
}
