//go:build verif

package db

// C20 binding: evaluates the real SequenceID functions over the whole cube of ranks 0..N (bound to seeded
// 64-bit values) and records the tables that specs/SeqToken/Trace_SeqToken.tla checks.

import (
	"encoding/json"
	"fmt"
	"sort"
	"strconv"
	"strings"
	"testing"
)

func vC20Values(n int) []uint64 {
	pool := []uint64{1, 2, 3, 7, 9, 10, 11, 99, 100, 101, 255, 256, 999, 1000, 65535, 65536, 1 << 31, 1<<32 - 1, 1 << 32, 1<<32 + 1,
		1 << 53, 1<<53 + 1, 1<<63 - 1, 1 << 63, 1<<63 + 1, 1<<64 - 2, 1<<64 - 1, 12345678901234567890, 9999999999999999999, 10000000000000000000}
	r := vRand()
	seen := map[uint64]bool{0: true}
	vals := []uint64{}
	// seed 1: small consecutive values (readable); other seeds: mixture incl. 64-bit boundaries
	if vSeed() == 1 {
		for i := 1; i <= n; i++ {
			vals = append(vals, uint64(i))
		}
	} else {
		for len(vals) < n {
			var v uint64
			if r.Intn(3) == 0 {
				v = r.Uint64()
			} else {
				v = pool[r.Intn(len(pool))]
			}
			if !seen[v] {
				seen[v] = true
				vals = append(vals, v)
			}
		}
	}
	sort.Slice(vals, func(i, j int) bool { return vals[i] < vals[j] })
	return append([]uint64{0}, vals...)
}

func TestVerif_C20_SeqToken(t *testing.T) {
	tw := vOpenTrace(t, "VERIF_TRACE_OUT")
	defer tw.Close()
	n := vEnvInt("VERIF_N", 4)
	vals := vC20Values(n)
	rank := map[uint64]int{}
	valStrs := []string{}
	for i, v := range vals {
		rank[v] = i
		valStrs = append(valStrs, strconv.FormatUint(v, 10))
	}
	tw.Emit(vObj{"k": "meta", "n": n, "vals": valStrs})

	mk := func(l, tr, s int) SequenceID { return SequenceID{LowSeq: vals[l], TriggeredBy: vals[tr], Seq: vals[s]} }
	rk := func(s SequenceID) []int {
		a, ok1 := rank[s.LowSeq]
		b, ok2 := rank[s.TriggeredBy]
		c, ok3 := rank[s.Seq]
		if !ok1 || !ok2 || !ok3 {
			return []int{-2, -2, -2}
		}
		return []int{a, b, c}
	}
	comps := func(str string) []int {
		res := []int{}
		for _, c := range strings.Split(str, ":") {
			if c == "" {
				res = append(res, -1)
				continue
			}
			v, err := strconv.ParseUint(c, 10, 64)
			if err != nil {
				res = append(res, -3)
				continue
			}
			if r, ok := rank[v]; ok {
				res = append(res, r)
			} else {
				res = append(res, -2)
			}
		}
		return res
	}
	type tok struct{ l, t, s int }
	var cube []tok
	for l := 0; l <= n; l++ {
		for tr := 0; tr <= n; tr++ {
			for s := 0; s <= n; s++ {
				cube = append(cube, tok{l, tr, s})
			}
		}
	}
	for _, k := range cube {
		sid := mk(k.l, k.t, k.s)
		str := sid.String()
		parsed, perr := ParsePlainSequenceID(str)
		js, jerr := json.Marshal(sid)
		if jerr != nil {
			t.Fatalf("VERIF-FATAL marshal: %v", jerr)
		}
		var back SequenceID
		jrt := []int{-2, -2, -2}
		if err := json.Unmarshal(js, &back); err == nil {
			jrt = rk(back)
		}
		// ParseJSONSequenceID must agree with UnmarshalJSON on what the server emits
		if pj, err := ParseJSONSequenceID(string(js)); err != nil || pj != back {
			jrt = []int{-2, -2, -2}
		}
		tw.Emit(vObj{"k": "tok", "a": []int{k.l, k.t, k.s}, "str": str, "fmt": comps(str), "pok": perr == nil,
			"parsed": rk(parsed), "safe": rank[sid.SafeSequence()], "jq": len(js) > 0 && js[0] == '"', "jrt": jrt})
	}
	for _, a := range cube {
		row := make([]bool, len(cube))
		for j, b := range cube {
			row[j] = mk(a.l, a.t, a.s).Before(mk(b.l, b.t, b.s))
		}
		tw.Emit(vObj{"k": "row", "a": []int{a.l, a.t, a.s}, "before": row})
	}

	// component-list grammar: all lists of length 1..4 over {Empty, rank 0, rank 1, rank n}
	alphabet := []int{-1, 0, 1, n}
	render := func(c []int) string {
		parts := []string{}
		for _, x := range c {
			if x == -1 {
				parts = append(parts, "")
			} else {
				parts = append(parts, strconv.FormatUint(vals[x], 10))
			}
		}
		return strings.Join(parts, ":")
	}
	var lists [][]int
	var gen func(prefix []int, depth int)
	gen = func(prefix []int, depth int) {
		if len(prefix) > 0 {
			lists = append(lists, append([]int{}, prefix...))
		}
		if depth == 4 {
			return
		}
		for _, a := range alphabet {
			gen(append(prefix, a), depth+1)
		}
	}
	gen(nil, 0)
	for _, c := range lists {
		str := render(c)
		p, err := ParsePlainSequenceID(str)
		quoted, _ := json.Marshal(str)
		var viaJ SequenceID
		jerr := json.Unmarshal(quoted, &viaJ)
		pj, jerr2 := ParseJSONSequenceID(string(quoted))
		jok := jerr == nil && jerr2 == nil && pj == viaJ
		tw.Emit(vObj{"k": "syn", "c": c, "str": str, "ok": err == nil, "parsed": rk(p), "jok": jok, "jparsed": rk(viaJ)})
	}

	// character-level malformed classes (instantiated with concrete strings)
	big := "18446744073709551616"
	classes := map[string][]string{
		"sign":       {"+1", "-1", "1:-2", "-1:2:3", "1::-3"},
		"nondigit":   {"a", "1a", "a1", "1:b", "1:2:c", "x::1", "1 ", " 1", "1: 2", "0x10", "1e3", "1.5", "1,2", "１"},
		"overflow":   {big, "1:" + big, big + ":1", "1:2:" + big, big + "::1", "99999999999999999999999999"},
		"arity":      {"1:2:3:4", ":::", "1:2:3:4:5", "::::"},
		"emptycomp":  {":", "1:", ":1", "::", "1::", "::1", ":1:2", "1:2:"},
		"jsonshape":  {},
	}
	names := []string{}
	for c := range classes {
		names = append(names, c)
	}
	sort.Strings(names)
	for _, cls := range names {
		for _, s := range classes[cls] {
			_, err := ParsePlainSequenceID(s)
			q, _ := json.Marshal(s)
			var u SequenceID
			jerr := json.Unmarshal(q, &u)
			_, jerr2 := ParseJSONSequenceID(string(q))
			tw.Emit(vObj{"k": "str", "cls": cls, "str": s, "ok": err == nil || jerr == nil || jerr2 == nil, "err": fmt.Sprint(err)})
		}
	}
	// raw JSON values that are not tokens
	for _, raw := range []string{`{}`, `[1]`, `true`, `"a"`, `1.5`, `-1`, `"1:2:3:4"`, `1e3`, `[]`, `"::"`} {
		var u SequenceID
		jerr := json.Unmarshal([]byte(raw), &u)
		tw.Emit(vObj{"k": "str", "cls": "jsonshape", "str": raw, "ok": jerr == nil, "err": fmt.Sprint(jerr)})
	}
}
