//go:build verif

package db

// C09 binding: schedule-forcing replay of TLC behaviours of specs/Import on a real database (AutoImport off) over a LeakyBucket.
//
// Environment played by the harness: external writes go straight to the collection's datastore (WriteCas / Delete / SetXattrs
// for the user xattr); the
// mutation feeds are CAPTURED - a harness-owned DCP client (full content, what the import feed gets) and the database's own
// caching feed, whose callback is intercepted for the test documents (xattr-only content, what the change cache gets) - and
// delivered when, as often and in whatever order the behaviour says: importListener.ProcessFeedEvent(event i) and
// changeCache.DocChanged(event i).  Gateway reads (GetRev) and writes (Put) and the feed import run in goroutines;
// LeakyBucketConfig.UpdateCallback (after the update callback computed the new document, before the CAS write) parks them,
// so that the feed import, the on-demand import and external writes interleave exactly as in the behaviour.
// After every step the REAL state is projected into the spec's observable record: raw document (cas, body), xattrs
// _sync / _vv / _mou (cas, checksum, revision history, sequence, current version, _mou), control state of the operations in
// flight, and the step's output (cache classification, what the read returned, what the write returned).
// No property is asserted here - the oracle is specs/Import (Trace_Import passes P and C).

import (
	"context"
	"errors"
	"fmt"
	"sort"
	"strings"
	"sync"
	"testing"
	"time"

	sgbucket "github.com/couchbase/sg-bucket"
	"github.com/couchbase/sync_gateway/base"
)

type vC09Step struct {
	A string `json:"a"`
	I any    `json:"i"`
}
type vC09Beh struct {
	Steps []vC09Step `json:"steps"`
}

type vC09Proc struct {
	name    string
	st      string // idle | imp | put
	release chan struct{}
	depth   int // nesting depth of WriteUpdateWithXattrs calls of this operation on the document
}

type vC09Harness struct {
	t        *testing.T
	db       *Database
	ctx      context.Context
	col      *DatabaseCollectionWithUser // admin; its dataStore is the callback observer over the LeakyDataStore
	rawStore base.DataStore              // the datastore below the observer (external writes, observation)
	il       *importListener

	mu      sync.Mutex
	key     string // document of the current behaviour
	cur     *vC09Proc
	cbErr   error // error returned by the last run of an update callback on key
	cbDepth int   // nesting depth of the operation's WriteUpdateWithXattrs calls at that return (2 = import nested in a write)
	events  chan string
	full    []sgbucket.FeedEvent // captured mutations of key, full content
	xo      []sgbucket.FeedEvent // captured mutations of key, as the caching feed delivers them
	seenF   map[string]bool      // sentinel keys seen by the two feeds
	seenX   map[string]bool
	nSent   int

	// per behaviour
	casIdx  map[uint64]int
	revIdx  map[string]int
	revBody map[string]int
	revs    []string
	seqRank map[uint64]int
	verRank map[uint64]int
	nMinted int
	crcID   map[string]int
	uxID    map[string]int
	nExtB   int
	sgRev   map[int]string
	pF      *vC09Proc
	pG      *vC09Proc
	pW      *vC09Proc
	out     vObj
	wk      int
	fedSet  map[int]bool
	inF     int
	strange []string
}

// vC09Observer sits above the LeakyDataStore (whose UpdateCallback is the gate and cannot see the callback's result): it
// records the error returned by each run of an update callback and how deeply WriteUpdateWithXattrs calls are nested.
type vC09Observer struct {
	base.DataStore
	h *vC09Harness
}

func (ob *vC09Observer) WriteUpdateWithXattrs(ctx context.Context, k string, xattrKeys []string, exp uint32, previous *sgbucket.BucketDocument, opts *sgbucket.MutateInOptions, callback sgbucket.WriteUpdateWithXattrsFunc) (uint64, error) {
	h := ob.h
	h.mu.Lock()
	var p *vC09Proc // the operation this call belongs to: the only runnable one
	if k == h.key {
		p = h.cur
	}
	if p != nil {
		p.depth++
	}
	h.mu.Unlock()
	if p != nil {
		defer func() {
			h.mu.Lock()
			p.depth--
			h.mu.Unlock()
		}()
	}
	wrapped := func(current []byte, xattrs map[string][]byte, cas uint64) (sgbucket.UpdatedDoc, error) {
		ud, err := callback(current, xattrs, cas)
		if p != nil {
			h.mu.Lock()
			h.cbErr, h.cbDepth = err, p.depth
			h.mu.Unlock()
		}
		return ud, err
	}
	return ob.DataStore.WriteUpdateWithXattrs(ctx, k, xattrKeys, exp, previous, opts, wrapped)
}

// gate is LeakyBucketConfig.UpdateCallback.
func (h *vC09Harness) gate(key string) {
	h.mu.Lock()
	if key != h.key || h.cur == nil {
		h.mu.Unlock()
		return
	}
	p := h.cur
	h.mu.Unlock()
	h.events <- "parked"
	<-p.release
}

const vC09Prefix = "c09"
const vC09UserXattr = "c09ux"

func vC09NewHarness(t *testing.T, allowConflicts bool) *vC09Harness {
	h := &vC09Harness{t: t, events: make(chan string, 8), seenF: map[string]bool{}, seenX: map[string]bool{}}
	tb := base.GetTestBucket(t)
	lb := base.NewLeakyBucket(tb, base.LeakyBucketConfig{UpdateCallback: h.gate})
	h.db, h.ctx = SetupTestDBForBucketWithOptions(t, lb, DatabaseContextOptions{AllowConflicts: base.Ptr(allowConflicts), UserXattrKey: vC09UserXattr})
	col, ctx := GetSingleDatabaseCollectionWithUser(h.ctx, t, h.db)
	h.ctx = ctx
	h.col = &DatabaseCollectionWithUser{DatabaseCollection: col.DatabaseCollection} // admin
	h.rawStore = col.dataStore
	col.DatabaseCollection.dataStore = &vC09Observer{DataStore: h.rawStore, h: h}

	// the caching feed: intercept the test documents
	orig := h.db.mutationListener.OnChangeCallback
	h.db.mutationListener.OnChangeCallback = func(ev sgbucket.FeedEvent, dt DocumentType) {
		if dt == DocTypeDocument && strings.HasPrefix(string(ev.Key), vC09Prefix) {
			h.mu.Lock()
			k := string(ev.Key)
			if k == h.key {
				h.xo = append(h.xo, ev)
			} else {
				h.seenX[k] = true
			}
			h.mu.Unlock()
			return
		}
		orig(ev, dt)
	}
	// the import feed's content: a harness-owned DCP client
	cl, err := base.NewDCPClient(h.ctx, lb, base.DCPClientOptions{FeedID: "verifc09", Callback: func(ev sgbucket.FeedEvent) bool {
		if (ev.Opcode == sgbucket.FeedOpMutation || ev.Opcode == sgbucket.FeedOpDeletion) && strings.HasPrefix(string(ev.Key), vC09Prefix) {
			h.mu.Lock()
			k := string(ev.Key)
			if k == h.key {
				h.full = append(h.full, ev)
			} else {
				h.seenF[k] = true
			}
			h.mu.Unlock()
		}
		return true
	}, CollectionNames: h.db.collectionNameSet(), FromLatestSequence: true, MetadataStoreType: base.DCPMetadataStoreInMemory})
	if err != nil {
		t.Fatalf("VERIF-FATAL C09: DCP client: %v", err)
	}
	if _, err = cl.Start(); err != nil {
		t.Fatalf("VERIF-FATAL C09: DCP client start: %v", err)
	}
	t.Cleanup(func() { _ = cl.Close() })
	h.il = NewImportListener(h.ctx, "verifc09", h.db.DatabaseContext)
	h.il.collections[col.GetCollectionID()] = *h.col
	return h
}

// barrier waits until both feeds have delivered everything written so far (a sentinel document written now).
func (h *vC09Harness) barrier() {
	h.mu.Lock()
	h.nSent++
	k := fmt.Sprintf("%s_sentinel_%d_%d", vC09Prefix, vSeed(), h.nSent)
	h.mu.Unlock()
	if err := h.rawStore.SetRaw(h.ctx, k, 0, nil, []byte(`{"sentinel":true}`)); err != nil {
		h.t.Fatalf("VERIF-FATAL C09: sentinel: %v", err)
	}
	deadline := time.Now().Add(60 * time.Second)
	for {
		h.mu.Lock()
		ok := h.seenF[k] && h.seenX[k]
		if ok {
			delete(h.seenF, k)
			delete(h.seenX, k)
		}
		h.mu.Unlock()
		if ok {
			return
		}
		if time.Now().After(deadline) {
			h.t.Fatalf("VERIF-FATAL C09: feeds did not deliver sentinel %s within 60s", k)
		}
		time.Sleep(50 * time.Microsecond)
	}
}

// run makes p the only runnable operation until it parks at the gate or returns.
func (h *vC09Harness) run(p *vC09Proc, start func()) string {
	h.mu.Lock()
	h.cur = p
	h.mu.Unlock()
	if start != nil {
		go func() {
			start()
			h.events <- "done"
		}()
	} else {
		p.release <- struct{}{}
	}
	var ev string
	select {
	case ev = <-h.events:
	case <-time.After(120 * time.Second):
		h.t.Fatalf("VERIF-FATAL C09: %s neither parked nor returned within 120s (doc %s)", p.name, h.key)
	}
	h.mu.Lock()
	h.cur = nil
	h.mu.Unlock()
	return ev
}

// advance starts p (start != nil) or releases it from the gate, until it is parked with a computed update or has
// returned.  A park after the callback returned an error is followed by no storage operation: it is released at once.
func (h *vC09Harness) advance(p *vC09Proc, start func()) {
	for i := 0; i < 16; i++ {
		ev := h.run(p, start)
		start = nil
		if ev == "done" {
			p.st = "idle"
			return
		}
		h.mu.Lock()
		err, depth := h.cbErr, h.cbDepth
		h.mu.Unlock()
		if err == nil {
			if p == h.pW && depth < 2 {
				p.st = "put"
			} else {
				p.st = "imp"
			}
			return
		}
	}
	h.t.Fatalf("VERIF-FATAL C09: %s keeps parking with an error (doc %s)", p.name, h.key)
}

func vC09BodyID(b []byte) int {
	var m map[string]any
	if len(b) == 0 {
		return 0
	}
	if err := base.JSONUnmarshal(b, &m); err != nil || len(m) != 1 {
		return -1
	}
	if v, ok := m["x"]; ok {
		return vInt(v)
	}
	if v, ok := m["s"]; ok {
		return 100 + vInt(v)
	}
	return -1
}

func vC09ExtBody(n int) []byte { return []byte(fmt.Sprintf(`{"x":%d}`, n)) }
func vC09UxVal(n int) []byte   { return []byte(fmt.Sprintf(`{"u":%d}`, n)) }
func vC09SGBody(k int) []byte  { return []byte(fmt.Sprintf(`{"s":%d}`, k)) }

func (h *vC09Harness) casOf(c uint64) int {
	if c == 0 {
		return 0
	}
	if i, ok := h.casIdx[c]; ok {
		return i
	}
	h.strange = append(h.strange, fmt.Sprintf("cas %x is not a captured mutation", c))
	return -1
}

// bodyOfRev identifies which body a revision id was generated from (the digest covers parent id and body).
func (h *vC09Harness) bodyOfRev(rev, parent string, deleted bool) int {
	if b, ok := h.revBody[rev]; ok {
		return b
	}
	gen, _ := ParseRevID(h.ctx, rev)
	id := -1
	for n := 1; n <= h.nExtB && id < 0; n++ {
		if CreateRevIDWithBytes(gen, parent, vC09ExtBody(n)) == rev {
			id = n
		}
	}
	for k, r := range h.sgRev {
		if r == rev {
			id = 100 + k
		}
	}
	for k := 1; k <= h.wk && id < 0; k++ {
		if CreateRevIDWithBytes(gen, parent, vC09SGBody(k)) == rev {
			id = 100 + k
		}
	}
	if id < 0 && deleted {
		id = 0
	}
	if id >= 0 {
		h.revBody[rev] = id
	}
	return id
}

// rankSeqVer numbers the sequence and the current version carried by captured mutation j at first sight.  A version
// minted by an import is the CAS of the (earlier) mutation it imported, and _vv.cvCas equals it: it is numbered as that
// mutation.  A version minted by a gateway write comes from the gateway's clock (it may coincide with a CAS value) and
// _vv.cvCas is the write's own CAS: it is numbered 1001, 1002, ...
func (h *vC09Harness) rankSeqVer(sd *SyncData, rawVv []byte, j int) {
	if sd.Sequence != 0 {
		if _, ok := h.seqRank[sd.Sequence]; !ok {
			h.seqRank[sd.Sequence] = len(h.seqRank) + 1
		}
	}
	ver := vC09HexCas(sd.RevAndVersion.CurrentVersion)
	if _, ok := h.verRank[ver]; ok || ver == 0 {
		return
	}
	var vv struct {
		CvCas string `json:"cvCas"`
	}
	if len(rawVv) > 0 {
		_ = base.JSONUnmarshal(rawVv, &vv)
	}
	if i, isCas := h.casIdx[ver]; isCas && i < j && vC09HexCas(vv.CvCas) == ver {
		h.verRank[ver] = i
	} else {
		h.nMinted++
		h.verRank[ver] = 1000 + h.nMinted
	}
}

func vC09HexCas(s string) uint64 {
	if s == "" {
		return 0
	}
	return base.HexCasToUint64(s)
}

// snapshot projects the real state into the spec's observable record o.
func (h *vC09Harness) snapshot() vObj {
	h.barrier()
	h.mu.Lock()
	nf, nx := len(h.full), len(h.xo)
	var fresh []sgbucket.FeedEvent
	for i := len(h.casIdx); i < nf; i++ {
		h.casIdx[h.full[i].Cas] = i + 1
		fresh = append(fresh, h.full[i])
	}
	h.mu.Unlock()
	// sequences and gateway-minted versions are numbered in the order the MUTATIONS carried them (a step may mutate the
	// document twice; the intermediate state is only visible in the captured event)
	for _, ev := range fresh {
		if raw, sd, err := UnmarshalDocumentSyncDataFromFeed(ev.Value, ev.DataType, vC09UserXattr, false); err == nil && sd != nil {
			h.rankSeqVer(sd, raw.Xattrs[base.VvXattrName], h.casIdx[ev.Cas])
		}
	}
	if nf != nx {
		h.t.Fatalf("VERIF-FATAL C09: feeds captured %d / %d mutations of %s", nf, nx, h.key)
	}
	doc := vObj{"cas": nf, "body": 0, "del": true, "ux": 0}
	meta := vObj{"has": false, "syncCas": 0, "crc": 0, "ucrc": 0, "revs": []vObj{}, "cur": 0, "seq": 0, "cv": 0, "mouCas": 0, "mouPcas": 0}
	body, xattrs, cas, err := h.rawStore.GetWithXattrs(h.ctx, h.key, []string{base.SyncXattrName, base.VvXattrName, base.MouXattrName, vC09UserXattr})
	if err != nil && !base.IsDocNotFoundError(err) {
		h.t.Fatalf("VERIF-FATAL C09: reading %s: %v", h.key, err)
	}
	if err == nil {
		if h.casOf(cas) != nf {
			h.strange = append(h.strange, fmt.Sprintf("document cas %x is mutation %d of %d", cas, h.casOf(cas), nf))
		}
		if body != nil {
			doc["body"], doc["del"] = vC09BodyID(body), false
		}
		if rawUx := xattrs[vC09UserXattr]; len(rawUx) > 0 {
			var u map[string]any
			doc["ux"] = -1
			if err := base.JSONUnmarshal(rawUx, &u); err == nil && u["u"] != nil {
				doc["ux"] = vInt(u["u"])
			}
		}
		if raw := xattrs[base.SyncXattrName]; len(raw) > 0 {
			var sd SyncData
			sd.History = make(RevTree)
			if err := base.JSONUnmarshal(raw, &sd); err != nil {
				h.t.Fatalf("VERIF-FATAL C09: _sync of %s does not unmarshal: %v", h.key, err)
			}
			meta["has"] = true
			meta["syncCas"] = h.casOf(sd.GetSyncCas())
			if id, ok := h.crcID[sd.Crc32c]; ok {
				meta["crc"] = id
			} else {
				meta["crc"] = -1
				h.strange = append(h.strange, "unknown checksum "+sd.Crc32c)
			}
			if id, ok := h.uxID[sd.Crc32cUserXattr]; ok {
				meta["ucrc"] = id
			} else {
				meta["ucrc"] = -1
				h.strange = append(h.strange, "unknown user xattr checksum "+sd.Crc32cUserXattr)
			}
			// revision ids -> creation order (parents first)
			ids := make([]string, 0, len(sd.History))
			for id := range sd.History {
				if _, ok := h.revIdx[id]; !ok {
					ids = append(ids, id)
				}
			}
			sort.Slice(ids, func(i, j int) bool {
				gi, _ := ParseRevID(h.ctx, ids[i])
				gj, _ := ParseRevID(h.ctx, ids[j])
				if gi != gj {
					return gi < gj
				}
				return ids[i] < ids[j]
			})
			for _, id := range ids {
				h.revs = append(h.revs, id)
				h.revIdx[id] = len(h.revs)
			}
			revs := []vObj{}
			for _, id := range h.revs {
				info, ok := sd.History[id]
				if !ok {
					revs = append(revs, vObj{"p": -1, "body": -1, "del": false}) // pruned: never expected at these sizes
					continue
				}
				revs = append(revs, vObj{"p": h.revIdx[info.Parent], "body": h.bodyOfRev(id, info.Parent, info.Deleted), "del": info.Deleted})
			}
			meta["revs"] = revs
			meta["cur"] = h.revIdx[sd.GetRevTreeID()]
			meta["seq"] = h.seqRank[sd.Sequence]
			// current version: _sync.rev and _vv must agree
			ver := vC09HexCas(sd.RevAndVersion.CurrentVersion)
			cv := 0
			if ver != 0 {
				cv = h.verRank[ver]
			}
			var vv struct {
				Ver string `json:"ver"`
				Src string `json:"src"`
			}
			if rawVv := xattrs[base.VvXattrName]; len(rawVv) > 0 {
				_ = base.JSONUnmarshal(rawVv, &vv)
			}
			if vC09HexCas(vv.Ver) != ver || vv.Src != sd.RevAndVersion.CurrentSource {
				cv = -2
				h.strange = append(h.strange, fmt.Sprintf("_vv cv %s@%s differs from _sync.rev cv %s@%s", vv.Ver, vv.Src, sd.RevAndVersion.CurrentVersion, sd.RevAndVersion.CurrentSource))
			}
			meta["cv"] = cv
			if rawMou := xattrs[base.MouXattrName]; len(rawMou) > 0 {
				var mou MetadataOnlyUpdate
				_ = base.JSONUnmarshal(rawMou, &mou)
				meta["mouCas"], meta["mouPcas"] = h.casOf(vC09HexCas(mou.HexCAS)), h.casOf(vC09HexCas(mou.PreviousHexCAS))
			}
		}
	}
	if meta["has"] == false {
		// a new metadata epoch numbers its revisions from 1 again
		h.revIdx, h.revs = map[string]int{}, nil
	}
	out := vObj{"acc": -1, "vst": "na", "vrev": 0, "vbody": 0, "wres": "na"}
	for k, v := range h.out {
		out[k] = v
	}
	return vObj{"doc": doc, "meta": meta, "pcF": h.pF.st, "pcG": h.pG.st, "pcW": h.pW.st, "out": out}
}

func (h *vC09Harness) event(i int, xo bool) (sgbucket.FeedEvent, bool) {
	h.mu.Lock()
	defer h.mu.Unlock()
	if i < 1 || i > len(h.full) || i > len(h.xo) {
		return sgbucket.FeedEvent{}, false
	}
	if xo {
		return h.xo[i-1], true
	}
	return h.full[i-1], true
}

func (h *vC09Harness) doGet() {
	rev, err := h.col.GetRev(h.ctx, h.key, "", true, nil)
	o := vObj{}
	if err == nil {
		o["vst"], o["vbody"] = "ok", vC09BodyID(rev.BodyBytes)
		h.mu.Lock()
		o["vrev"] = h.revIdxPeek(rev.RevID)
		h.mu.Unlock()
		o["_vrevid"] = rev.RevID
	} else {
		var he *base.HTTPError
		if base.IsDocNotFoundError(err) || (errors.As(err, &he) && he.Status == 404) {
			o["vst"] = "gone"
		} else {
			o["vst"] = "error: " + err.Error()
		}
	}
	h.mu.Lock()
	h.out = o
	h.mu.Unlock()
}

func (h *vC09Harness) revIdxPeek(rev string) int { return h.revIdx[rev] }

func (h *vC09Harness) doPut(k int, parent string) {
	b := Body{"s": k}
	if parent != "" {
		b[BodyRev] = parent
	}
	rev, _, err := h.col.Put(h.ctx, h.key, b)
	o := vObj{}
	if err == nil {
		o["wres"] = "ok"
		h.mu.Lock()
		h.sgRev[k] = rev
		h.mu.Unlock()
	} else {
		var he *base.HTTPError
		if errors.As(err, &he) && he.Status == 409 {
			o["wres"] = "conflict"
		} else {
			o["wres"] = "error: " + err.Error()
		}
	}
	h.mu.Lock()
	h.out = o
	h.mu.Unlock()
}

func (h *vC09Harness) curRev() string {
	_, xattrs, _, err := h.rawStore.GetWithXattrs(h.ctx, h.key, []string{base.SyncXattrName})
	if err != nil || len(xattrs[base.SyncXattrName]) == 0 {
		return ""
	}
	var sd SyncData
	if err := base.JSONUnmarshal(xattrs[base.SyncXattrName], &sd); err != nil {
		return ""
	}
	return sd.GetRevTreeID()
}

// step executes one action; returns an error text if the behaviour cannot be executed any further.
func (h *vC09Harness) step(a string, i int) string {
	h.mu.Lock()
	h.out = vObj{}
	h.mu.Unlock()
	switch a {
	case "Conflict":
		// conflicts-allowed family: revision 1-a and two children; 2-zzz wins the revision-id comparison, 2-aaa loses;
		// i = 1: the winner is pushed last (newest revision = winner), i = 0: the loser is pushed last
		order := []string{"2-zzz", "2-aaa"}
		if i == 1 {
			order = []string{"2-aaa", "2-zzz"}
		}
		ids := map[string]int{"1-a": 91, "2-aaa": 92, "2-zzz": 93}
		for rev, k := range ids {
			h.revBody[rev] = 100 + k
			h.crcID[base.Crc32cHashString(vC09SGBody(k))] = 100 + k
		}
		if _, _, err := h.col.PutExistingRevWithBody(h.ctx, h.key, Body{"s": 91}, []string{"1-a"}, false, ExistingVersionWithUpdateToHLV); err != nil {
			return "Conflict: " + err.Error()
		}
		for _, rev := range order {
			if _, _, err := h.col.PutExistingRevWithBody(h.ctx, h.key, Body{"s": ids[rev]}, []string{rev, "1-a"}, false, ExistingVersionWithUpdateToHLV); err != nil {
				return "Conflict: " + err.Error()
			}
		}
	case "ExtSet":
		if i > h.nExtB {
			h.nExtB = i
		}
		h.crcID[base.Crc32cHashString(vC09ExtBody(i))] = i
		// as the repository's import tests write from outside: insert (also over a tombstone), or replace the body of a live
		// document keeping its xattrs (SetRaw over a Rosmar tombstone leaves the row flagged as a tombstone)
		var cas uint64
		if body, c, err := h.rawStore.GetRaw(h.ctx, h.key); err == nil && body != nil {
			cas = c
		}
		if _, err := h.rawStore.WriteCas(h.ctx, h.key, 0, cas, vC09ExtBody(i), 0); err != nil {
			return "ExtSet: " + err.Error()
		}
	case "ExtUx":
		h.uxID[base.Crc32cHashString(vC09UxVal(i))] = i
		if _, err := h.rawStore.SetXattrs(h.ctx, h.key, map[string][]byte{vC09UserXattr: vC09UxVal(i)}); err != nil {
			return "ExtUx: " + err.Error()
		}
	case "ExtDelete":
		if err := h.rawStore.Delete(h.ctx, h.key); err != nil {
			return "ExtDelete: " + err.Error()
		}
	case "SGMeta":
		if err := h.col.ResyncDocument(h.ctx, h.key, nil, true); err != nil {
			return "SGMeta: " + err.Error()
		}
	case "Feed", "FeedBegin":
		ev, ok := h.event(i, false)
		if !ok {
			return fmt.Sprintf("%s: no captured event %d", a, i)
		}
		if h.pF.st != "idle" {
			return a + ": a feed import is in flight"
		}
		h.inF = i
		h.advance(h.pF, func() { h.il.ProcessFeedEvent(ev) })
		for a == "Feed" && h.pF.st != "idle" {
			h.advance(h.pF, nil)
		}
	case "FeedRel":
		if h.pF.st == "idle" {
			return "FeedRel: no feed import in flight"
		}
		h.advance(h.pF, nil)
	case "Cache":
		ev, ok := h.event(i, true)
		if !ok {
			return fmt.Sprintf("Cache: no captured event %d", i)
		}
		c0 := h.db.DbStats.Database().DCPReceivedCount.Value()
		h.db.changeCache.DocChanged(ev, DocTypeDocument)
		h.out = vObj{"acc": int(h.db.DbStats.Database().DCPReceivedCount.Value() - c0)}
	case "Get", "GetBegin":
		if h.pG.st != "idle" {
			return a + ": a read is in flight"
		}
		h.advance(h.pG, h.doGet)
		for n := 0; a == "Get" && h.pG.st != "idle" && n < 8; n++ {
			h.advance(h.pG, nil)
		}
	case "GetRel":
		if h.pG.st == "idle" {
			return "GetRel: no read in flight"
		}
		h.advance(h.pG, nil)
	case "Write", "WriteBegin":
		if h.pW.st != "idle" {
			return a + ": a write is in flight"
		}
		h.wk = i
		h.crcID[base.Crc32cHashString(vC09SGBody(i))] = 100 + i
		parent := h.curRev()
		h.advance(h.pW, func() { h.doPut(i, parent) })
		for n := 0; a == "Write" && h.pW.st != "idle" && n < 8; n++ {
			h.advance(h.pW, nil)
		}
	case "WriteRel":
		if h.pW.st == "idle" {
			return "WriteRel: no write in flight"
		}
		h.advance(h.pW, nil)
	default:
		h.t.Fatalf("VERIF-FATAL C09: unknown action %q", a)
	}
	if a == "Feed" || a == "FeedBegin" || a == "FeedRel" {
		if h.pF.st == "idle" {
			h.fedSet[h.inF] = true
		}
	}
	return ""
}

func (h *vC09Harness) emit(tw *vTraceWriter, a string, i int, extra vObj) {
	o := h.snapshot()
	line := vObj{"a": a, "i": i, "o": o}
	if rid, ok := o["out"].(vObj)["_vrevid"]; ok {
		// the read's revision id is numbered after the snapshot registered new revisions
		o["out"].(vObj)["vrev"] = h.revIdx[vStr(rid)]
		delete(o["out"].(vObj), "_vrevid")
	}
	if len(h.strange) > 0 {
		line["strange"] = h.strange
		h.strange = nil
	}
	for k, v := range extra {
		line[k] = v
	}
	tw.Emit(line)
}

func (h *vC09Harness) replay(tw *vTraceWriter, bi int, b vC09Beh) (aborted bool) {
	h.mu.Lock()
	h.key = fmt.Sprintf("%s_s%d_b%d", vC09Prefix, vSeed(), bi)
	h.full, h.xo = nil, nil
	h.mu.Unlock()
	h.casIdx, h.revIdx, h.revBody, h.revs = map[uint64]int{}, map[string]int{}, map[string]int{}, nil
	h.seqRank, h.verRank, h.sgRev = map[uint64]int{}, map[uint64]int{}, map[int]string{}
	h.crcID = map[string]int{base.DeleteCrc32c: 0}
	h.uxID = map[string]int{"": 0}
	h.nExtB, h.wk, h.fedSet, h.inF, h.strange, h.nMinted = 0, 0, map[int]bool{}, 0, nil, 0
	h.pF = &vC09Proc{name: "feed import", st: "idle", release: make(chan struct{})}
	h.pG = &vC09Proc{name: "read", st: "idle", release: make(chan struct{})}
	h.pW = &vC09Proc{name: "write", st: "idle", release: make(chan struct{})}
	restamps := h.db.DbStats.Database().HLVVersionCASRetryCount.Value()
	tw.Emit(vObj{"a": "Reset", "beh": bi, "doc": h.key})

	finish := func() {
		// run whatever is still in flight to completion (logged as ordinary release steps)
		for n := 0; n < 24 && (h.pF.st != "idle" || h.pG.st != "idle" || h.pW.st != "idle"); n++ {
			switch {
			case h.pF.st != "idle":
				h.step("FeedRel", 0)
				h.emit(tw, "FeedRel", 0, vObj{"drain": true})
			case h.pG.st != "idle":
				h.step("GetRel", 0)
				h.emit(tw, "GetRel", 0, vObj{"drain": true})
			default:
				h.step("WriteRel", 0)
				h.emit(tw, "WriteRel", h.wk, vObj{"drain": true})
			}
		}
	}
	cleanup := func() {
		// keep the change cache free of gaps: hand it every captured mutation (not part of the trace)
		h.mu.Lock()
		evs := append([]sgbucket.FeedEvent{}, h.xo...)
		h.key = ""
		h.mu.Unlock()
		for _, ev := range evs {
			h.db.changeCache.DocChanged(ev, DocTypeDocument)
		}
	}
	for si, st := range b.Steps {
		i := vInt(st.I)
		if why := h.step(st.A, i); why != "" {
			finish()
			tw.Emit(vObj{"a": "Abort", "why": fmt.Sprintf("step %d: %s", si, why)})
			cleanup()
			return true
		}
		if h.db.DbStats.Database().HLVVersionCASRetryCount.Value() != restamps {
			finish()
			tw.Emit(vObj{"a": "Abort", "why": fmt.Sprintf("step %d: the write was followed by a CAS re-stamp (clock artefact, not modelled)", si), "restamp": true})
			cleanup()
			return true
		}
		h.emit(tw, st.A, i, nil)
	}
	// end of the behaviour: no further external write; deliver every mutation the import listener has not processed yet
	// (including the ones these deliveries produce), then read
	finish()
	drained := false
	for n := 0; n < 12; n++ {
		h.mu.Lock()
		total := len(h.full)
		h.mu.Unlock()
		next := 0
		for i := 1; i <= total; i++ {
			if !h.fedSet[i] {
				next = i
				break
			}
		}
		if next == 0 {
			drained = true
			break
		}
		h.step("Feed", next)
		h.emit(tw, "Feed", next, vObj{"drain": true})
	}
	h.step("Get", 0)
	h.emit(tw, "Get", 0, vObj{"drain": true})
	tw.Emit(vObj{"a": "End", "drained": drained})
	cleanup()
	return false
}

func TestVerif_C09_Import(t *testing.T) {
	var behs []vC09Beh
	vReadJSON(t, "VERIF_BEH", &behs)
	tw := vOpenTrace(t, "VERIF_TRACE_OUT")
	defer tw.Close()
	defer SuspendSequenceBatching()()
	// two databases: conflicts disallowed (the main families) and allowed (behaviours that start with Conflict)
	hs := map[bool]*vC09Harness{}
	aborted := 0
	for bi, b := range behs {
		cf := len(b.Steps) > 0 && b.Steps[0].A == "Conflict"
		if hs[cf] == nil {
			h := vC09NewHarness(t, cf)
			defer h.db.Close(h.ctx)
			hs[cf] = h
		}
		if hs[cf].replay(tw, bi, b) {
			aborted++
		}
	}
	t.Logf("C09: replayed %d behaviours, %d aborted", len(behs), aborted)
}
