//go:build verif

package db

// C17 binding: replays TLC-generated behaviours of specs/Checkpointer on a real db.Checkpointer and records the
// real expectedSeqs / processedSeqs / returned safe sequence after every call (under c.lock).

import (
	"context"
	"fmt"
	"sort"
	"testing"

	"github.com/couchbase/sync_gateway/base"
)

type vC17Step struct {
	A   string         `json:"a"`
	Tok map[string]any `json:"tok"`
}
type vC17Beh struct {
	Th    any        `json:"th"`
	Fo    bool       `json:"fo"`
	Steps []vC17Step `json:"steps"`
}

func TestVerif_C17_Checkpointer(t *testing.T) {
	var behs []vC17Beh
	vReadJSON(t, "VERIF_BEH", &behs)
	tw := vOpenTrace(t, "VERIF_TRACE_OUT")
	defer tw.Close()
	rnd := vRand()
	// rank -> concrete value (order and zero preserving)
	vals := vC20Values(6)
	rank := map[uint64]int{}
	for i, v := range vals {
		rank[v] = i
	}
	mk := func(m map[string]any) SequenceID {
		return SequenceID{LowSeq: vals[vInt(m["l"])], TriggeredBy: vals[vInt(m["t"])], Seq: vals[vInt(m["s"])]}
	}
	rk := func(s SequenceID) []int { return []int{rank[s.LowSeq], rank[s.TriggeredBy], rank[s.Seq]} }

	for bi, b := range behs {
		c := &Checkpointer{
			ctx:                            context.Background(),
			expectedSeqs:                   make([]SequenceID, 0),
			processedSeqs:                  make(map[SequenceID]struct{}),
			idAndRevLookup:                 make(map[IDAndRev]SequenceID),
			expectedSeqCompactionThreshold: vInt(b.Th),
			stats: CheckpointerStats{
				ExpectedSequenceLen:             &base.SgwIntStat{},
				ExpectedSequenceLenPostCleanup:  &base.SgwIntStat{},
				ProcessedSequenceLen:            &base.SgwIntStat{},
				ProcessedSequenceLenPostCleanup: &base.SgwIntStat{},
			},
		}
		state := func() ([][]int, [][]int) {
			c.lock.Lock()
			defer c.lock.Unlock()
			e := [][]int{}
			for _, s := range c.expectedSeqs {
				e = append(e, rk(s))
			}
			p := [][]int{}
			for s := range c.processedSeqs {
				p = append(p, rk(s))
			}
			sort.Slice(p, func(i, j int) bool { return fmt.Sprint(p[i]) < fmt.Sprint(p[j]) })
			return e, p
		}
		tw.Emit(vObj{"a": "Reset", "th": vInt(b.Th), "fo": b.Fo, "beh": bi})
		pendingIDRev := map[SequenceID][]IDAndRev{}
		for si, st := range b.Steps {
			switch st.A {
			case "Expect":
				s := mk(st.Tok)
				if rnd.Intn(2) == 0 {
					c.AddExpectedSeqs(s)
				} else {
					ir := IDAndRev{DocID: fmt.Sprintf("d%d_%d", bi, si), RevID: "1-a"}
					c.AddExpectedSeqIDAndRevs(map[IDAndRev]SequenceID{ir: s})
					pendingIDRev[s] = append(pendingIDRev[s], ir)
				}
				e, p := state()
				tw.Emit(vObj{"a": "Expect", "tok": rk(s), "E": e, "P": p})
			case "AlreadyKnown":
				s := mk(st.Tok)
				c.AddAlreadyKnownSeq(s)
				e, p := state()
				tw.Emit(vObj{"a": "AlreadyKnown", "tok": rk(s), "E": e, "P": p})
			case "Processed":
				s := mk(st.Tok)
				if irs := pendingIDRev[s]; len(irs) > 0 && rnd.Intn(2) == 0 {
					pendingIDRev[s] = irs[1:]
					if rnd.Intn(2) == 0 {
						c.AddProcessedSeqIDAndRev(nil, irs[0])
					} else {
						c.AddProcessedSeqIDAndRev(&s, irs[0])
					}
				} else {
					c.AddProcessedSeq(s)
				}
				e, p := state()
				tw.Emit(vObj{"a": "Processed", "tok": rk(s), "E": e, "P": p})
			case "Tick":
				c.lock.Lock()
				safe := c._updateCheckpointLists()
				c.lock.Unlock()
				ret := []int{}
				if safe != nil {
					ret = rk(*safe)
				}
				e, p := state()
				tw.Emit(vObj{"a": "Tick", "ret": ret, "E": e, "P": p})
			default:
				t.Fatalf("VERIF-FATAL unknown action %q", st.A)
			}
		}
	}
}
