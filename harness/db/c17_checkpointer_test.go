//go:build verif

package db

// C17 binding: replays TLC-generated behaviours of specs/Checkpointer on a real db.Checkpointer and records the
// real expectedSeqs / processedSeqs / returned safe sequence after every call (under c.lock).

import (
	"context"
	"fmt"
	"sort"
	"testing"

	"github.com/couchbase/sync_gateway/base"
)

type vC17Step struct {
	A    string           `json:"a"`
	Toks []map[string]any `json:"toks"`
}
type vC17Beh struct {
	Th    any        `json:"th"`
	Steps []vC17Step `json:"steps"`
}

func TestVerif_C17_Checkpointer(t *testing.T) {
	var behs []vC17Beh
	vReadJSON(t, "VERIF_BEH", &behs)
	tw := vOpenTrace(t, "VERIF_TRACE_OUT")
	defer tw.Close()
	rnd := vRand()
	// rank -> concrete value (order and zero preserving)
	vals := vC20Values(6)
	rank := map[uint64]int{}
	for i, v := range vals {
		rank[v] = i
	}
	mk := func(m map[string]any) SequenceID {
		return SequenceID{LowSeq: vals[vInt(m["l"])], TriggeredBy: vals[vInt(m["t"])], Seq: vals[vInt(m["s"])]}
	}
	rk := func(s SequenceID) []int { return []int{rank[s.LowSeq], rank[s.TriggeredBy], rank[s.Seq]} }

	for bi, b := range behs {
		cctx, cancel := context.WithCancel(context.Background())
		c := &Checkpointer{
			ctx:                            cctx,
			expectedSeqs:                   make([]SequenceID, 0),
			processedSeqs:                  make(map[SequenceID]struct{}),
			idAndRevLookup:                 make(map[IDAndRev]SequenceID),
			expectedSeqCompactionThreshold: vInt(b.Th),
			stats: CheckpointerStats{
				ExpectedSequenceLen:             &base.SgwIntStat{},
				ExpectedSequenceLenPostCleanup:  &base.SgwIntStat{},
				ProcessedSequenceLen:            &base.SgwIntStat{},
				ProcessedSequenceLenPostCleanup: &base.SgwIntStat{},
			},
		}
		state := func() ([][]int, [][]int) {
			c.lock.Lock()
			defer c.lock.Unlock()
			e := [][]int{}
			for _, s := range c.expectedSeqs {
				e = append(e, rk(s))
			}
			p := [][]int{}
			for s := range c.processedSeqs {
				p = append(p, rk(s))
			}
			sort.Slice(p, func(i, j int) bool { return fmt.Sprint(p[i]) < fmt.Sprint(p[j]) })
			return e, p
		}
		tw.Emit(vObj{"a": "Reset", "th": vInt(b.Th), "beh": bi})
		pendingIDRev := map[SequenceID][]IDAndRev{}
		for si, st := range b.Steps {
			switch st.A {
			case "Expect":
				toks := []SequenceID{}
				rks := [][]int{}
				for _, m := range st.Toks {
					toks = append(toks, mk(m))
					rks = append(rks, rk(mk(m)))
				}
				if rnd.Intn(2) == 0 {
					c.AddExpectedSeqs(toks...)
				} else if len(toks) == 1 {
					// the id/rev map form appends in map order, so it is only order-deterministic for one entry
					ir := IDAndRev{DocID: fmt.Sprintf("d%d_%d", bi, si), RevID: "1-a"}
					c.AddExpectedSeqIDAndRevs(map[IDAndRev]SequenceID{ir: toks[0]})
					pendingIDRev[toks[0]] = append(pendingIDRev[toks[0]], ir)
				} else {
					c.AddExpectedSeqs(toks...)
				}
				e, p := state()
				tw.Emit(vObj{"a": "Expect", "toks": rks, "E": e, "P": p})
			case "AlreadyKnown":
				toks := []SequenceID{}
				rks := [][]int{}
				for _, m := range st.Toks {
					toks = append(toks, mk(m))
					rks = append(rks, rk(mk(m)))
				}
				c.AddAlreadyKnownSeq(toks...)
				e, p := state()
				tw.Emit(vObj{"a": "AlreadyKnown", "toks": rks, "E": e, "P": p})
			case "Processed":
				s := mk(st.Toks[0])
				if irs := pendingIDRev[s]; len(irs) > 0 && rnd.Intn(2) == 0 {
					pendingIDRev[s] = irs[1:]
					if rnd.Intn(2) == 0 {
						c.AddProcessedSeqIDAndRev(nil, irs[0])
					} else {
						c.AddProcessedSeqIDAndRev(&s, irs[0])
					}
				} else {
					c.AddProcessedSeq(s)
				}
				e, p := state()
				tw.Emit(vObj{"a": "Processed", "toks": [][]int{rk(s)}, "E": e, "P": p})
			case "Sort":
				_ = c.calculateSafeProcessedSeq()
				e, p := state()
				tw.Emit(vObj{"a": "Sort", "E": e, "P": p})
			case "Cancel":
				cancel()
				e, p := state()
				tw.Emit(vObj{"a": "Cancel", "E": e, "P": p, "cancelled": true})
			case "Tick":
				c.lock.Lock()
				safe := c._updateCheckpointLists()
				c.lock.Unlock()
				ret := []int{}
				if safe != nil {
					ret = rk(*safe)
				}
				e, p := state()
				tw.Emit(vObj{"a": "Tick", "ret": ret, "E": e, "P": p})
			default:
				t.Fatalf("VERIF-FATAL unknown action %q", st.A)
			}
		}
		cancel()
	}
}
