//go:build verif

package db

// C07 binding (component level): replays TLC-generated behaviours of specs/SeqAlloc on 1..3 real
// sequenceAllocator instances that share one _sync:seq counter on one Rosmar datastore.
//
// Every API call of a behaviour runs in its own goroutine with a call descriptor in its context.  Each allocator
// takes its storage through a decorator (vC07Store) that parks a gated call before every storage operation
// (Incr(0) = Get, Incr(n), AddRaw) until the scheduler lets it pass; only one goroutine runs at a time, so the
// interleaving of the storage operations across allocators (and across calls of one allocator after the mutex
// is released) is exactly the one TLC chose.  No sleeps: hand-over is by channels; a wall-clock bound exists
// only to turn a would-be deadlock into a harness failure.
//
// The harness does not judge anything.  After every step it records the REAL outputs (returned number,
// unused-sequence documents written, seen at the storage boundary) and the REAL state (counter, last/max/batch,
// where in-flight calls are parked); specs/SeqAlloc/Trace_SeqAlloc.tla evaluates the property on them.

import (
	"context"
	"encoding/binary"
	"fmt"
	"strconv"
	"strings"
	"sync"
	"testing"
	"time"

	sgbucket "github.com/couchbase/sg-bucket"
	"github.com/couchbase/sync_gateway/auth"
	"github.com/couchbase/sync_gateway/base"
)

type vC07Step struct {
	A string `json:"a"`
	N any    `json:"n"`
	X any    `json:"x"`
}
type vC07Beh struct {
	Grow  bool       `json:"grow"`
	Na    any        `json:"na"`
	Steps []vC07Step `json:"steps"`
}

type vC07Op struct {
	kind  string // get | incr | add
	key   string
	amt   uint64
	res   uint64
	added bool
	err   error
}

type vC07CallKey struct{}

type vC07Call struct {
	n       int // allocator (1-based)
	kind    string
	x       uint64
	gated   bool
	arrive  chan vC07Op
	proceed chan struct{}
	done    chan struct{}
	ops     []vC07Op // operations performed so far (written by the call goroutine, read by the scheduler after a hand-over)
	parked  *vC07Op  // operation the call is parked in front of
	ret     uint64
	err     error
	fin     bool
}

func (c *vC07Call) performed(kind string) (bool, uint64) {
	found, res := false, uint64(0)
	for _, o := range c.ops {
		if o.kind == kind {
			found, res = true, o.res
		}
	}
	return found, res
}

// vC07Store is the gating decorator: one per allocator, all over the same underlying datastore.
type vC07Store struct {
	base.DataStore
	n   int
	run *vC07Run
}

func (s *vC07Store) before(ctx context.Context, op vC07Op) *vC07Call {
	c, _ := ctx.Value(vC07CallKey{}).(*vC07Call)
	if c != nil && c.gated {
		c.arrive <- op
		<-c.proceed
	}
	return c
}

func (s *vC07Store) after(c *vC07Call, op vC07Op) {
	if c != nil {
		c.ops = append(c.ops, op)
	}
	if op.kind == "add" && op.err == nil {
		s.run.mu.Lock()
		s.run.adds = append(s.run.adds, op)
		s.run.mu.Unlock()
	}
}

func (s *vC07Store) Incr(ctx context.Context, k string, amt, def uint64, exp uint32) (uint64, error) {
	op := vC07Op{kind: "incr", key: k, amt: amt}
	if amt == 0 {
		op.kind = "get"
	}
	c := s.before(ctx, op)
	v, err := s.DataStore.Incr(ctx, k, amt, def, exp)
	op.res, op.err = v, err
	s.after(c, op)
	return v, err
}

func (s *vC07Store) AddRaw(ctx context.Context, k string, exp uint32, v []byte) (bool, error) {
	op := vC07Op{kind: "add", key: k}
	c := s.before(ctx, op)
	added, err := s.DataStore.AddRaw(ctx, k, exp, v)
	op.added, op.err = added, err
	s.after(c, op)
	return added, err
}

type vC07Line struct {
	o       vObj
	pendRef [][]*vC07Call // calls parked in front of their post-unlock release, per allocator (ret back-filled at flush)
}

type vC07Run struct {
	t        *testing.T
	ctx      context.Context
	under    base.DataStore
	keys     *base.MetadataKeys
	allocs   []*sequenceAllocator
	alive    []bool
	parked   [][]*vC07Call // in-flight calls per allocator, in start order
	held     []map[uint64]bool
	mu       sync.Mutex
	adds     []vC07Op // every notice write observed at the storage boundary since the last step
	docs     [][3]int // notices written so far (added == true)
	dkeys    []string
	lines    []vC07Line
	note     string
	overlaps int // calls executed inside a release window that the code left open
}

const vC07Wait = 60 * time.Second

func (r *vC07Run) parseNotice(key string) ([3]int, bool) {
	if rest, ok := strings.CutPrefix(key, r.keys.UnusedSeqRangePrefix()); ok {
		p := strings.Split(rest, ":")
		if len(p) == 2 {
			f, e1 := strconv.ParseUint(p[0], 10, 64)
			to, e2 := strconv.ParseUint(p[1], 10, 64)
			if e1 == nil && e2 == nil {
				return [3]int{int(f), int(to), 2}, true
			}
		}
		return [3]int{}, false
	}
	if rest, ok := strings.CutPrefix(key, r.keys.UnusedSeqPrefix()); ok {
		s, err := strconv.ParseUint(rest, 10, 64)
		if err == nil {
			return [3]int{int(s), int(s), 1}, true
		}
	}
	return [3]int{}, false
}

// classify says where a parked call stands: "got" (between the counter read and the increment), "pend" (in front
// of a notice write with no counter operation before it or after its increment), else "odd".
func (r *vC07Run) classify(c *vC07Call) string {
	if c.parked == nil {
		return "odd"
	}
	if c.kind == "idle" {
		return "rel" // releaseUnusedSequences in front of its notice write
	}
	hasGet, _ := c.performed("get")
	hasIncr, _ := c.performed("incr")
	switch {
	case c.parked.kind == "incr" && hasGet && !hasIncr:
		return "got"
	case c.parked.kind == "add" && (hasIncr || !hasGet):
		if _, ok := r.parseNotice(c.parked.key); ok {
			return "pend"
		}
	}
	return "odd"
}

// wait lets the call run until it is done or parked at a gate where `until` holds.
func (r *vC07Run) wait(c *vC07Call, until string) {
	for {
		select {
		case op := <-c.arrive:
			c.parked = &op
			stop := false
			switch until {
			case "gate":
				stop = true
			case "get":
				stop, _ = c.performed("get")
			case "incr":
				stop, _ = c.performed("incr")
			}
			if stop {
				return
			}
			c.parked = nil
			c.proceed <- struct{}{}
		case <-c.done:
			c.fin = true
			c.parked = nil
			return
		case <-time.After(vC07Wait):
			r.t.Fatalf("VERIF-FATAL C07 scheduler: call %s(n=%d,x=%d) neither parked nor finished within %v", c.kind, c.n, c.x, vC07Wait)
		}
	}
}

func (r *vC07Run) start(n int, kind string, x uint64, gated bool, until string) *vC07Call {
	c := &vC07Call{n: n, kind: kind, x: x, gated: gated, arrive: make(chan vC07Op), proceed: make(chan struct{}), done: make(chan struct{})}
	cctx := context.WithValue(r.ctx, vC07CallKey{}, c)
	a := r.allocs[n-1]
	go func() {
		defer close(c.done)
		switch kind {
		case "next":
			c.ret, c.err = a.nextSequence(cctx)
		case "gt":
			c.ret, _, c.err = a.nextSequenceGreaterThan(cctx, x)
		case "give":
			c.err = a.releaseSequence(cctx, x)
		case "idle":
			a.releaseUnusedSequences(cctx)
		case "stop":
			a.Stop(cctx)
		}
	}()
	r.wait(c, until)
	if !c.fin {
		r.parked[n-1] = append(r.parked[n-1], c)
	}
	return c
}

func (r *vC07Run) resume(c *vC07Call, until string) {
	c.parked = nil
	c.proceed <- struct{}{}
	r.wait(c, until)
	if c.fin {
		p := r.parked[c.n-1][:0]
		for _, o := range r.parked[c.n-1] {
			if o != c {
				p = append(p, o)
			}
		}
		r.parked[c.n-1] = p
	}
}

// mutexFree: would a new call on allocator n get the mutex?  (every call goroutine is parked, so this is stable)
func (r *vC07Run) mutexFree(n int) bool {
	a := r.allocs[n-1]
	if a.mutex.TryLock() {
		a.mutex.Unlock()
		return true
	}
	return false
}

// emit records one step: the real outputs of the step and the real state after it.
func (r *vC07Run) emit(a string, n int, x uint64, c *vC07Call, give uint64) {
	ret, fl := uint64(0), -1
	if c != nil && c.fin && (c.kind == "next" || c.kind == "gt") && c.err == nil {
		ret = c.ret
		if c.kind == "gt" {
			fl = int(c.x)
		}
		r.held[c.n-1][ret] = true
	}
	if give != 0 {
		delete(r.held[n-1], give)
	}
	r.mu.Lock()
	adds := r.adds
	r.adds = nil
	r.mu.Unlock()
	rel := [][3]int{}
	for _, op := range adds {
		d, ok := r.parseNotice(op.key)
		if !ok {
			r.note = "unparsed notice key " + op.key
			continue
		}
		rel = append(rel, d)
		if op.added {
			r.docs = append(r.docs, d)
			r.dkeys = append(r.dkeys, op.key)
		}
	}
	counter, err := base.GetCounter(r.ctx, r.under, r.keys.SyncSeqKey())
	if err != nil {
		r.t.Fatalf("VERIF-FATAL C07 cannot read counter: %v", err)
	}
	na := len(r.allocs)
	last, max, batch := make([]int, 3), make([]int, 3), []int{1, 1, 1}
	rsv, alive := make([]bool, 3), make([]bool, 3)
	pc := make([]vObj, 3)
	pendRef := make([][]*vC07Call, 3)
	for i := 0; i < 3; i++ {
		pc[i] = vObj{"st": "idle", "x": 0, "sync": 0}
		if i >= na {
			continue
		}
		al := r.allocs[i]
		// all call goroutines are parked (hand-over by channel): plain reads are ordered after their writes
		last[i], max[i], batch[i] = int(al.last), int(al.max), int(al.sequenceBatchSize)
		rsv[i] = !al.lastSequenceReserveTime.IsZero()
		alive[i] = r.alive[i]
		for _, pcall := range r.parked[i] {
			switch r.classify(pcall) {
			case "got":
				_, sync := pcall.performed("get")
				pc[i] = vObj{"st": "got", "x": int(pcall.x), "sync": int(sync)}
			case "pend":
				pendRef[i] = append(pendRef[i], pcall)
			default:
				pc[i] = vObj{"st": "odd", "x": int(pcall.x), "sync": 0}
			}
		}
	}
	o := vObj{"a": a, "n": n, "x": int(x), "ret": int(ret), "fl": fl, "rel": rel, "give": int(give),
		"counter": int(counter), "last": last, "max": max, "batch": batch, "rsv": rsv, "alive": alive, "pc": pc,
		"docs": append([][3]int{}, r.docs...)}
	if c != nil && c.err != nil {
		o["err"] = c.err.Error()
	}
	r.lines = append(r.lines, vC07Line{o: o, pendRef: pendRef})
}

func (r *vC07Run) flush(tw *vTraceWriter) {
	for _, ln := range r.lines {
		pend := make([][]vObj, 3)
		for i := range pend {
			pend[i] = []vObj{}
			for _, c := range ln.pendRef[i] {
				d, _ := r.parseNotice(c.parkedKeyAt(ln))
				pend[i] = append(pend[i], vObj{"from": d[0], "to": d[1], "ret": int(c.ret), "x": int(c.x)})
			}
		}
		ln.o["pend"] = pend
		tw.Emit(ln.o)
	}
}

// a call parks in front of a post-unlock release at most once, so the key it was parked at is the key of the last
// notice write it went on to perform (or is still parked at)
func (c *vC07Call) parkedKeyAt(_ vC07Line) string {
	if c.parked != nil {
		return c.parked.key
	}
	for i := len(c.ops) - 1; i >= 0; i-- {
		if c.ops[i].kind == "add" {
			return c.ops[i].key
		}
	}
	return ""
}

func (r *vC07Run) findParked(n int, class string, from uint64) *vC07Call {
	for _, c := range r.parked[n-1] {
		if r.classify(c) != class {
			continue
		}
		if class == "pend" {
			if d, _ := r.parseNotice(c.parked.key); uint64(d[0]) != from {
				continue
			}
		}
		return c
	}
	return nil
}

// release runs releaseUnusedSequences of allocator n as a gated call (the idle release, and the release part of Stop).
// The call is parked in front of its notice write.  The specification holds the allocator's mutex across that write, so
// no other call of the same allocator can run there.  The harness probes exactly this: if the behaviour's next step is
// a call of the same allocator and the real mutex is observably FREE while the write is parked, that call is executed
// inside the window (its real outputs are recorded first, in real order); otherwise it would simply block on the mutex
// until the release finishes, so it is run afterwards.  For Stop the real Stop() follows; its own release and the one of
// the monitor goroutine then find nothing left to release, which keeps the background goroutine out of the recorded
// outputs (two concurrent releases would be a race the scheduler does not control).
func (r *vC07Run) release(a string, n int, next *vC07Step) (consumedNext bool) {
	c := r.start(n, "idle", 0, true, "gate")
	if !c.fin && next != nil && vInt(next.N) == n && r.mutexFree(n) {
		switch next.A {
		case "Next", "GTLast": // calls that run to completion (a call parked with the mutex held would block the release's re-lock)
			r.overlaps++
			r.step(*next, nil)
			consumedNext = true
		}
	}
	if !c.fin {
		r.resume(c, "done")
	}
	if a == "Stop" {
		r.start(n, "stop", 0, false, "done")
		r.alive[n-1] = false
	}
	r.emit(a, n, 0, c, 0)
	return consumedNext
}

// step executes one behaviour step; ok=false: the real system is not where the behaviour assumes (stop following it).
// next is the step after it (nil if none); consumedNext says it was executed too (see release).
func (r *vC07Run) step(st vC07Step, next *vC07Step) (ok bool, consumedNext bool) {
	n, x := vInt(st.N), uint64(vInt(st.X))
	if n < 1 || n > len(r.allocs) {
		r.t.Fatalf("VERIF-FATAL C07 behaviour names allocator %d of %d", n, len(r.allocs))
	}
	needsMutex := map[string]bool{"Next": true, "GTLast": true, "GTBatch": true, "GTBegin": true, "Idle": true, "Stop": true}
	if needsMutex[st.A] && (!r.alive[n-1] || !r.mutexFree(n)) {
		return false, false
	}
	switch st.A {
	case "Next":
		c := r.start(n, "next", 0, false, "done")
		r.emit("Next", n, 0, c, 0)
	case "GTLast":
		c := r.start(n, "gt", x, false, "done")
		r.emit("GTLast", n, x, c, 0)
	case "GTBatch":
		c := r.start(n, "gt", x, true, "gate")
		r.emit("GTBatch", n, x, c, 0)
	case "GTBegin":
		c := r.start(n, "gt", x, true, "get")
		r.emit("GTBegin", n, x, c, 0)
	case "GTFinish":
		c := r.findParked(n, "got", 0)
		if c == nil {
			return false, false
		}
		r.resume(c, "incr")
		r.emit("GTFinish", n, 0, c, 0)
	case "PendRel":
		c := r.findParked(n, "pend", x)
		if c == nil {
			return false, false
		}
		r.resume(c, "done")
		r.emit("PendRel", n, x, c, 0)
	case "GiveBack":
		if !r.held[n-1][x] {
			return false, false
		}
		c := r.start(n, "give", x, false, "done")
		r.emit("GiveBack", n, x, c, x)
	case "Idle", "Stop":
		return true, r.release(st.A, n, next)
	default:
		r.t.Fatalf("VERIF-FATAL unknown action %q", st.A)
	}
	return true, false
}

// drain completes every in-flight call, stops every allocator, and re-reads the notices from the bucket.
func (r *vC07Run) drain() {
	for guard := 0; guard < 100; guard++ {
		var c *vC07Call
		for i := range r.parked { // the call holding a mutex first
			for _, p := range r.parked[i] {
				if c == nil || (r.classify(p) != "pend" && r.classify(c) == "pend") {
					c = p
				}
			}
		}
		if c == nil {
			break
		}
		switch r.classify(c) {
		case "got":
			r.resume(c, "incr")
			r.emit("GTFinish", c.n, 0, c, 0)
		case "pend":
			d, _ := r.parseNotice(c.parked.key)
			r.resume(c, "done")
			r.emit("PendRel", c.n, uint64(d[0]), c, 0)
		default:
			r.resume(c, "done")
			r.emit("Drain", c.n, c.x, c, 0)
		}
	}
	for i := range r.allocs {
		if r.alive[i] {
			r.release("Stop", i+1, nil)
		}
	}
	// what the bucket really holds
	docs := [][3]int{}
	for i, k := range r.dkeys {
		raw, _, err := r.under.GetRaw(r.ctx, k)
		if err != nil {
			r.note = fmt.Sprintf("notice %s not readable: %v", k, err)
			continue
		}
		switch {
		case r.docs[i][2] == 1 && len(raw) == 8:
			s := int(binary.LittleEndian.Uint64(raw))
			docs = append(docs, [3]int{s, s, 1})
		case r.docs[i][2] == 2 && len(raw) == 16:
			docs = append(docs, [3]int{int(binary.LittleEndian.Uint64(raw[:8])), int(binary.LittleEndian.Uint64(raw[8:])), 2})
		default:
			r.note = fmt.Sprintf("notice %s has a %d byte body", k, len(raw))
		}
	}
	r.docs = docs
	r.emit("Quiesce", 1, 0, nil, 0)
}

func TestVerif_C07_SeqAlloc(t *testing.T) {
	var behs []vC07Beh
	vReadJSON(t, "VERIF_BEH", &behs)
	tw := vOpenTrace(t, "VERIF_TRACE_OUT")
	defer tw.Close()

	ctx := base.TestCtx(t)
	bucket := base.GetTestBucket(t)
	defer bucket.Close(ctx)
	under := bucket.GetMetadataStore()
	sgw, err := base.NewSyncGatewayStats()
	if err != nil {
		t.Fatalf("VERIF-FATAL stats: %v", err)
	}
	dbStats := make([]*base.DatabaseStats, 3)
	for i := range dbStats {
		s, err := sgw.NewDBStats(fmt.Sprintf("c07node%d", i), false, false, false, false, nil, nil)
		if err != nil {
			t.Fatalf("VERIF-FATAL stats: %v", err)
		}
		dbStats[i] = s.Database()
	}
	oldFreq := MaxSequenceIncrFrequency
	defer func() { MaxSequenceIncrFrequency = oldFreq }()

	for bi, b := range behs {
		na := vInt(b.Na)
		if na < 1 || na > 3 {
			t.Fatalf("VERIF-FATAL C07 behaviour %d wants %d allocators", bi, na)
		}
		// batch growth: every reserve after the first happens "too soon" (on) / never (off)
		if b.Grow {
			MaxSequenceIncrFrequency = 1000 * time.Hour
		} else {
			MaxSequenceIncrFrequency = 0
		}
		r := &vC07Run{t: t, ctx: ctx, under: under, keys: base.NewMetadataKeys(fmt.Sprintf("c07s%db%d", vSeed(), bi)),
			alive: make([]bool, na), parked: make([][]*vC07Call, na), held: make([]map[uint64]bool, na)}
		for i := 0; i < na; i++ {
			a, err := newSequenceAllocator(ctx, &vC07Store{DataStore: under, n: i + 1, run: r}, dbStats[i], r.keys)
			if err != nil {
				t.Fatalf("VERIF-FATAL newSequenceAllocator: %v", err)
			}
			a.releaseSequenceWait = 1000 * time.Hour // idle release is an explicit step (releaseUnusedSequences)
			r.allocs = append(r.allocs, a)
			r.alive[i] = true
			r.held[i] = map[uint64]bool{}
		}
		tw.Emit(vObj{"a": "Reset", "grow": b.Grow, "na": na, "beh": bi})
		followed := 0
		for si := 0; si < len(b.Steps); si++ {
			var next *vC07Step
			if si+1 < len(b.Steps) {
				next = &b.Steps[si+1]
			}
			ok, consumedNext := r.step(b.Steps[si], next)
			if !ok {
				break
			}
			followed++
			if consumedNext {
				followed++
				si++
			}
		}
		r.drain()
		r.lines[len(r.lines)-1].o["overlaps"] = r.overlaps
		r.lines[len(r.lines)-1].o["followed"] = followed
		r.lines[len(r.lines)-1].o["steps"] = len(b.Steps)
		if r.note != "" {
			r.lines[len(r.lines)-1].o["note"] = r.note
		}
		r.flush(tw)
	}
}

// ---------------------------------------------------------------------------------------------------------------
// Document level (specs/SeqAlloc/SeqDoc.tla): what happens to the numbers reserved by a document write that loses
// the CAS race (other writers commit inside the window between its callback and its CAS write - the repository's
// own LeakyDataStore.UpdateCallback), is rejected, hits a storage error or a timeout; and by UpdatePrincipal with
// CAS mismatches / a storage error.  Real database on Rosmar.  Recorded: every revision/principal REALLY stored
// (read back: sequence, unused_sequences), the real counter and the unused-sequence documents after the allocator's
// remainder is released.  The ledger is judged by Trace_SeqDoc.tla.

type vC07DocStep struct {
	A string `json:"a"`
	K string `json:"k"`
}
type vC07DocScn struct {
	Mode   string        `json:"mode"`
	Reject bool          `json:"reject"`
	Steps  []vC07DocStep `json:"steps"`
	Ctr    any           `json:"ctr"`
	Used   []any         `json:"used"`
	PubDoc []any         `json:"pubDoc"`
	PubRel []any         `json:"pubRel"`
}

// vC07RecStore records the unused-sequence documents the database's allocator writes.
type vC07RecStore struct {
	base.DataStore
	mu   sync.Mutex
	keys []string
}

func (s *vC07RecStore) AddRaw(ctx context.Context, k string, exp uint32, v []byte) (bool, error) {
	added, err := s.DataStore.AddRaw(ctx, k, exp, v)
	if err == nil && added {
		s.mu.Lock()
		s.keys = append(s.keys, k)
		s.mu.Unlock()
	}
	return added, err
}

// vC07DocStore injects the storage outcome of the outermost document write: "err" = the write is not applied and a
// (non-timeout) storage error is returned at attempt failAt; "timeout" = the write is applied and a timeout is reported.
type vC07DocStore struct {
	base.DataStore
	key     string
	outcome string
	failAt  int
	depth   int
}

func (s *vC07DocStore) WriteUpdateWithXattrs(ctx context.Context, k string, xattrKeys []string, exp uint32, previous *sgbucket.BucketDocument, opts *sgbucket.MutateInOptions, callback sgbucket.WriteUpdateWithXattrsFunc) (uint64, error) {
	if k != s.key || s.depth > 0 || s.outcome == "" || s.outcome == "ok" {
		return s.DataStore.WriteUpdateWithXattrs(ctx, k, xattrKeys, exp, previous, opts, callback)
	}
	s.depth++
	defer func() { s.depth-- }()
	attempt := 0
	wrapped := func(current []byte, xattrs map[string][]byte, cas uint64) (sgbucket.UpdatedDoc, error) {
		attempt++
		d, err := callback(current, xattrs, cas)
		if err == nil && s.outcome == "err" && attempt == s.failAt {
			return d, fmt.Errorf("C07 injected storage error")
		}
		return d, err
	}
	cas, err := s.DataStore.WriteUpdateWithXattrs(ctx, k, xattrKeys, exp, previous, opts, wrapped)
	if err == nil && s.outcome == "timeout" {
		return 0, base.ErrTimeout
	}
	return cas, err
}

func TestVerif_C07_DocLedger(t *testing.T) {
	var scns []vC07DocScn
	vReadJSON(t, "VERIF_BEH_DOC", &scns)
	tw := vOpenTrace(t, "VERIF_TRACE_OUT_DOC")
	defer tw.Close()

	ctx := base.TestCtx(t)
	var db *Database
	var collection *DatabaseCollectionWithUser
	var cctx context.Context
	// scenario state consulted by the storage callbacks
	var curDoc, rev1 string
	var envs []string
	envIdx, busy := 0, true
	lastSeq := uint64(0)
	var princKey string
	var princOutcomes []string

	emitStored := func(docID string) bool {
		doc, err := collection.GetDocument(cctx, docID, DocUnmarshalAll)
		if err != nil || doc == nil || doc.Sequence == lastSeq {
			return false
		}
		lastSeq = doc.Sequence
		un := []int{}
		for _, u := range doc.UnusedSequences {
			un = append(un, int(u))
		}
		tw.Emit(vObj{"a": "Stored", "k": "doc", "id": docID, "seq": int(doc.Sequence), "unused": un, "rev": doc.GetRevTreeID()})
		return true
	}
	updateCb := func(key string) {
		if busy || key != curDoc || envIdx >= len(envs) {
			return
		}
		busy = true
		defer func() { busy = false }()
		kind := envs[envIdx]
		envIdx++
		var err error
		if kind == "same" {
			_, _, err = collection.PutExistingRevWithBody(cctx, curDoc, Body{"v": "W"}, []string{"2-www", rev1}, false, ExistingVersionWithUpdateToHLV)
		} else {
			_, _, err = collection.PutExistingRevWithBody(cctx, curDoc, Body{"v": kind, "i": envIdx}, []string{fmt.Sprintf("2-e%d", envIdx), rev1}, false, ExistingVersionWithUpdateToHLV)
		}
		if err != nil {
			t.Fatalf("VERIF-FATAL C07 concurrent writer failed: %v", err)
		}
		emitStored(curDoc)
	}
	writeCasCb := func(key string) (uint64, error) {
		if key != princKey || len(princOutcomes) == 0 {
			return 0, nil
		}
		o := princOutcomes[0]
		princOutcomes = princOutcomes[1:]
		switch o {
		case "cas":
			return 0, sgbucket.CasMismatchErr{Expected: 1, Actual: 2}
		case "err":
			return 0, fmt.Errorf("C07 injected storage error")
		}
		return 0, nil
	}
	tb := base.GetTestBucket(t)
	lb := base.NewLeakyBucket(tb, base.LeakyBucketConfig{UpdateCallback: updateCb, WriteCasCallback: writeCasCb})
	db, ctx = SetupTestDBForBucketWithOptions(t, lb, DatabaseContextOptions{AllowConflicts: base.Ptr(true)})
	defer db.Close(ctx)
	collection, cctx = GetSingleDatabaseCollectionWithUser(ctx, t, db)
	if _, err := collection.UpdateSyncFun(cctx, `function(doc){ if (doc.reject) { throw({forbidden: "rejected"}); } channel("c07"); }`); err != nil {
		t.Fatalf("VERIF-FATAL sync function: %v", err)
	}
	origStore := collection.dataStore
	docStore := &vC07DocStore{DataStore: origStore} // installed only around the writer under test (it hides the view store)
	rec := &vC07RecStore{DataStore: db.sequences.datastore}
	db.sequences.mutex.Lock()
	db.sequences.datastore = rec
	db.sequences.releaseSequenceWait = 1000 * time.Hour // the remainder is released explicitly at scenario boundaries
	db.sequences.mutex.Unlock()
	// a fresh reserve makes the release monitor re-arm its timer with the long wait
	db.sequences.releaseUnusedSequences(ctx)
	if s0, err := db.sequences.nextSequence(ctx); err != nil {
		t.Fatalf("VERIF-FATAL C07 nextSequence: %v", err)
	} else if err := db.sequences.releaseSequence(ctx, s0); err != nil {
		t.Fatalf("VERIF-FATAL C07 releaseSequence: %v", err)
	}
	keys := db.MetadataKeys
	run := &vC07Run{keys: keys}

	for i, sc := range scns {
		db.sequences.releaseUnusedSequences(ctx)
		baseSeq, err := db.sequences.getSequence(ctx)
		if err != nil {
			t.Fatalf("VERIF-FATAL counter: %v", err)
		}
		rec.mu.Lock()
		rec.keys = nil
		rec.mu.Unlock()
		tw.Emit(vObj{"a": "DReset", "sc": i, "mode": sc.Mode, "base": int(baseSeq),
			"exp": vObj{"ctr": vInt(sc.Ctr), "used": vC07Ints(sc.Used), "pubDoc": vC07Ints(sc.PubDoc), "pubRel": vC07Ints(sc.PubRel)}})
		lastSeq = 0
		switch sc.Mode {
		case "doc":
			curDoc = fmt.Sprintf("c07d%d_%d", vSeed(), i)
			envs, envIdx = nil, 0
			final := "fail"
			for _, st := range sc.Steps {
				if st.A == "Env" {
					envs = append(envs, st.K)
				}
				if st.A == "Cas" {
					final = st.K
				} else if st.A == "Attempt" {
					final = "fail"
				}
			}
			busy = true
			rev1, _, err = collection.Put(cctx, curDoc, Body{"v": 0})
			if err != nil {
				t.Fatalf("VERIF-FATAL C07 cannot create %s: %v", curDoc, err)
			}
			emitStored(curDoc)
			docStore.key, docStore.outcome, docStore.failAt = curDoc, final, len(envs)+1
			collection.dataStore = docStore
			busy = false
			_, _, werr := collection.PutExistingRevWithBody(cctx, curDoc, Body{"v": "W", "reject": sc.Reject}, []string{"2-www", rev1}, false, ExistingVersionWithUpdateToHLV)
			busy = true
			docStore.outcome = ""
			collection.dataStore = origStore
			if !emitStored(curDoc) {
				tw.Emit(vObj{"a": "Failed", "k": "doc", "id": curDoc, "err": fmt.Sprint(werr)})
			}
		case "resync":
			// the resync write with regenerate_sequences (ResyncDocument -> getResyncedDocument -> assignSequence): a
			// document write like any other - it draws a number per attempt; "Env" steps are writers that commit inside
			// the window between its callback and its CAS write (CAS retry)
			curDoc = fmt.Sprintf("c07r%d_%d", vSeed(), i)
			envs, envIdx = nil, 0
			for _, st := range sc.Steps {
				if st.A == "Env" {
					envs = append(envs, st.K)
				}
			}
			busy = true
			rev1, _, err = collection.Put(cctx, curDoc, Body{"v": 0})
			if err != nil {
				t.Fatalf("VERIF-FATAL C07 cannot create %s: %v", curDoc, err)
			}
			emitStored(curDoc)
			busy = false
			rerr := collection.ResyncDocument(cctx, curDoc, nil, true)
			busy = true
			if rerr != nil || !emitStored(curDoc) {
				tw.Emit(vObj{"a": "Failed", "k": "doc", "id": curDoc, "err": fmt.Sprint(rerr)})
			}
		case "princ":
			name := fmt.Sprintf("c07u%d_%d", vSeed(), i)
			princKey = keys.UserKey(name)
			princOutcomes = nil
			for _, st := range sc.Steps {
				princOutcomes = append(princOutcomes, st.K)
			}
			pw := "c07-password"
			_, _, perr := db.UpdatePrincipal(ctx, &auth.PrincipalConfig{Name: &name, Password: &pw, ExplicitChannels: base.SetOf("c07")}, true, true)
			princKey = ""
			u, gerr := db.Authenticator(ctx).GetUser(name)
			if gerr == nil && u != nil {
				tw.Emit(vObj{"a": "Stored", "k": "princ", "id": name, "seq": int(u.Sequence()), "unused": []int{}})
			} else {
				tw.Emit(vObj{"a": "Failed", "k": "princ", "id": name, "err": fmt.Sprint(perr)})
			}
		default:
			t.Fatalf("VERIF-FATAL C07 unknown scenario mode %q", sc.Mode)
		}
		db.sequences.releaseUnusedSequences(ctx)
		counter, err := db.sequences.getSequence(ctx)
		if err != nil {
			t.Fatalf("VERIF-FATAL counter: %v", err)
		}
		rec.mu.Lock()
		ks := append([]string{}, rec.keys...)
		rec.mu.Unlock()
		docs := [][3]int{}
		for _, k := range ks {
			d, ok := run.parseNotice(k)
			raw, _, gerr := db.MetadataStore.GetRaw(ctx, k)
			if !ok || gerr != nil {
				continue
			}
			if d[2] == 1 && len(raw) == 8 {
				s := int(binary.LittleEndian.Uint64(raw))
				docs = append(docs, [3]int{s, s, 1})
			} else if d[2] == 2 && len(raw) == 16 {
				docs = append(docs, [3]int{int(binary.LittleEndian.Uint64(raw[:8])), int(binary.LittleEndian.Uint64(raw[8:])), 2})
			}
		}
		tw.Emit(vObj{"a": "DQuiesce", "ctr": int(counter), "docs": docs})
	}
}

func vC07Ints(xs []any) []int {
	r := []int{}
	for _, x := range xs {
		r = append(r, vInt(x))
	}
	return r
}
