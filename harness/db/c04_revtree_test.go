//go:build verif

package db

// C04 binding: replays TLC-generated behaviours of specs/RevTree
//   - level "tree": on real RevTree values (addRevision, findWhereRevBranchesFromHistory + addNewerRevisionsToRevTreeHistory,
//     pruneRevisions); after EVERY step the tree is marshalled and unmarshalled (MarshalJSON/UnmarshalJSON) and the reloaded
//     value is what is projected and used from then on; winner and flags come from winningRevision and
//     Document.updateWinningRevAndSetDocFlags.
//   - level "db": on real databases (Rosmar) in both AllowConflicts modes through Put, DeleteDoc and
//     PutExistingRevWithBody; the stored document is read back with GetDocument(DocUnmarshalAll) after every call and
//     the served body with Get1xRevBody.
// The harness only drives and projects: real rev ids "gen-digest" become [generation, rank of digest among the digests
// that occur in the behaviour] (order preserving), trees become rows [g, d, parent g, parent d, deleted].
// All predicates are evaluated by TLC on the recorded lines (specs/RevTree/Trace_RevTree.tla).

import (
	"context"
	"fmt"
	"sort"
	"strconv"
	"strings"
	"testing"

	"github.com/couchbase/sync_gateway/base"
	"github.com/couchbase/sync_gateway/channels"
)

type vC04Rev struct {
	G int `json:"g"`
	D int `json:"d"`
}
type vC04Step struct {
	A   string    `json:"a"`
	I   int       `json:"i"`
	R   vC04Rev   `json:"r"`
	P   vC04Rev   `json:"p"`
	Ch  []vC04Rev `json:"ch"`
	Del bool      `json:"del"`
	K   int       `json:"k"`
	Nc  bool      `json:"nc"`
}
type vC04Cfg struct {
	Lvl string `json:"lvl"`
	Ac  bool   `json:"ac"`
	Lim int    `json:"lim"`
	Gv  []int  `json:"gv"`
}
type vC04Beh struct {
	Cfg   vC04Cfg    `json:"cfg"`
	Steps []vC04Step `json:"steps"`
}

// one recorded step with raw rev ids; ranks are assigned when the behaviour is complete
type vC04Row struct {
	id, parent string
	del        bool
}
type vC04Event struct {
	a                       string
	i                       int
	r, p, b                 string
	ch                      []string
	del, nc, ok             bool
	k                       int
	mem, tree               []vC04Row
	cur, ww, wb             string
	fDel, fConf, fBr        bool
	wbr, wcf                bool
	leaves                  []string
	idPredicted, idReturned string
}

const vC04UnknownBody = "?"

// digest families (ascending in Go string order); hex-like so that md5 digests produced by Put interleave with them
var vC04Digests = [][]string{
	{"2b7e151628aed2a6abf7158809cf4f3c", "5f4dcc3b5aa765d61d8327deb882cf99", "a3c65c2974270fd093ee8a9bf8ae7d0b", "e99a18c428cb38d5f260853678922e03"},
	{"3", "3a", "b", "ba"},
	{"09", "1", "9", "a0"},
}

type vC04Run struct {
	t        *testing.T
	ctx      context.Context
	digests  []string
	gv       []int
	lvl      string
	ids      map[vC04Rev]string // model revision -> real rev id
	tagOf    map[string]string  // real rev id -> body tag written with it
	revOfTag map[string]string  // body tag -> real rev id
	events   []vC04Event
	seenDig  map[string]bool
	tagN     int
}

func (r *vC04Run) gen(g int) int {
	if r.lvl == "tree" && g >= 1 && g <= len(r.gv) {
		return r.gv[g-1]
	}
	return g
}

// real id for a model revision named by the environment (explicit ids)
func (r *vC04Run) idOf(m vC04Rev) string {
	if m.G == 0 {
		return ""
	}
	if id, ok := r.ids[m]; ok {
		return id
	}
	id := fmt.Sprintf("%d-%s", r.gen(m.G), r.digests[m.D-1])
	r.ids[m] = id
	return id
}

func (r *vC04Run) known(m vC04Rev) bool {
	if m.G == 0 {
		return true
	}
	_, ok := r.ids[m]
	return ok
}

func (r *vC04Run) bodyTag(id string) string {
	if tag, ok := r.tagOf[id]; ok {
		return tag
	}
	r.tagN++
	tag := fmt.Sprintf("t%d:%s", r.tagN, id)
	r.tagOf[id] = tag
	r.revOfTag[tag] = id
	return tag
}

func vC04Project(tree RevTree) []vC04Row {
	rows := make([]vC04Row, 0, len(tree))
	for id, info := range tree {
		rid := id
		if info != nil && info.ID != id {
			rid = id + "!" + info.ID // key and ID disagree: unprojectable on purpose
		}
		if info == nil {
			rows = append(rows, vC04Row{id: rid + "!nil"})
			continue
		}
		rows = append(rows, vC04Row{id: rid, parent: info.Parent, del: info.Deleted})
	}
	sort.Slice(rows, func(a, b int) bool { return rows[a].id < rows[b].id })
	return rows
}

func (r *vC04Run) note(ids ...string) {
	for _, id := range ids {
		if idx := strings.Index(id, "-"); idx > 0 {
			r.seenDig[id[idx+1:]] = true
		}
	}
}

// rev id -> [g, d]; "" -> [0,0]; anything unparseable -> [-1,-1]
func (r *vC04Run) proj(id string, rank map[string]int) []int {
	if id == "" {
		return []int{0, 0}
	}
	idx := strings.Index(id, "-")
	if idx <= 0 {
		return []int{-1, -1}
	}
	gen, err := strconv.Atoi(id[:idx])
	if err != nil || gen < 1 {
		return []int{-1, -1}
	}
	g := gen
	if r.lvl == "tree" {
		g = -1
		for k, v := range r.gv {
			if v == gen {
				g = k + 1
			}
		}
	}
	d, ok := rank[id[idx+1:]]
	if !ok || g < 1 || g > 6 || d > 12 {
		return []int{-1, -1}
	}
	return []int{g, d}
}

func (r *vC04Run) flush(tw *vTraceWriter) {
	for _, e := range r.events {
		r.note(e.r, e.p, e.b, e.cur, e.ww, e.wb)
		r.note(e.ch...)
		r.note(e.leaves...)
		for _, rows := range [][]vC04Row{e.mem, e.tree} {
			for _, row := range rows {
				r.note(row.id, row.parent)
			}
		}
	}
	digs := make([]string, 0, len(r.seenDig))
	for d := range r.seenDig {
		digs = append(digs, d)
	}
	sort.Strings(digs)
	rank := map[string]int{}
	for k, d := range digs {
		rank[d] = k + 1
	}
	rows := func(in []vC04Row) [][]int {
		out := make([][]int, 0, len(in))
		for _, row := range in {
			a, p := r.proj(row.id, rank), r.proj(row.parent, rank)
			del := 0
			if row.del {
				del = 1
			}
			out = append(out, []int{a[0], a[1], p[0], p[1], del})
		}
		return out
	}
	list := func(in []string) [][]int {
		out := make([][]int, 0, len(in))
		for _, id := range in {
			out = append(out, r.proj(id, rank))
		}
		return out
	}
	for _, e := range r.events {
		b := []int{-1, -1}
		if e.b != vC04UnknownBody {
			b = r.proj(e.b, rank)
		}
		wb := []int{-1, -1}
		if e.wb != vC04UnknownBody {
			wb = r.proj(e.wb, rank)
		}
		tw.Emit(vObj{"a": e.a, "i": e.i, "r": r.proj(e.r, rank), "p": r.proj(e.p, rank), "ch": list(e.ch), "del": e.del, "nc": e.nc,
			"k": e.k, "b": b, "ok": e.ok, "mem": rows(e.mem), "tree": rows(e.tree), "cur": r.proj(e.cur, rank),
			"fl": []bool{e.fDel, e.fConf, e.fBr}, "ww": r.proj(e.ww, rank), "wbr": e.wbr, "wcf": e.wcf, "wb": wb,
			"lv": list(e.leaves), "idok": e.idPredicted == e.idReturned})
	}
	r.events = r.events[:0]
}

// body tag -> rev id it was written with ("" for an empty body, "?" when it cannot be attributed)
func (r *vC04Run) tokenOfBody(body map[string]any) string {
	tag, ok := body["r"].(string)
	if !ok {
		for k := range body {
			if !strings.HasPrefix(k, "_") {
				return vC04UnknownBody
			}
		}
		return ""
	}
	if id, ok := r.revOfTag[tag]; ok {
		return id
	}
	return vC04UnknownBody
}

type vC04DBs struct {
	db  [2]*Database
	col [2]*DatabaseCollectionWithUser
	ctx [2]context.Context
}

func TestVerif_C04_RevTree(t *testing.T) {
	var behs []vC04Beh
	vReadJSON(t, "VERIF_BEH", &behs)
	tw := vOpenTrace(t, "VERIF_TRACE_OUT")
	defer tw.Close()
	rnd := vRand()
	ctx := base.TestCtx(t)
	dbs := map[bool]*vC04DBs{}
	getDBs := func(ac bool) *vC04DBs {
		if d, ok := dbs[ac]; ok {
			return d
		}
		d := &vC04DBs{}
		for k := 0; k < 2; k++ {
			db, dctx := SetupTestDBWithOptions(t, DatabaseContextOptions{AllowConflicts: base.Ptr(ac)})
			t.Cleanup(func() { db.Close(dctx) })
			d.db[k] = db
			d.col[k], d.ctx[k] = GetSingleDatabaseCollectionWithUser(dctx, t, db)
		}
		dbs[ac] = d
		return d
	}
	skipped := 0
	for bi, b := range behs {
		run := &vC04Run{t: t, ctx: ctx, digests: vC04Digests[(int(vSeed())+bi)%len(vC04Digests)], gv: b.Cfg.Gv, lvl: b.Cfg.Lvl,
			ids: map[vC04Rev]string{}, tagOf: map[string]string{}, revOfTag: map[string]string{}, seenDig: map[string]bool{}}
		nrep := 1
		for _, st := range b.Steps {
			if st.I > nrep {
				nrep = st.I
			}
		}
		if nrep > 2 {
			t.Fatalf("VERIF-FATAL behaviour %d uses %d replicas", bi, nrep)
		}
		tw.Emit(vObj{"a": "Reset", "beh": bi, "lvl": b.Cfg.Lvl, "ac": b.Cfg.Ac, "lim": b.Cfg.Lim, "gv": b.Cfg.Gv, "nrep": nrep})
		switch b.Cfg.Lvl {
		case "tree":
			vC04TreeLevel(t, ctx, run, b)
		case "db":
			if !vC04DBLevel(t, run, b, bi, getDBs(b.Cfg.Ac), rnd.Intn(2) == 0) {
				skipped++
			}
		default:
			t.Fatalf("VERIF-FATAL unknown level %q", b.Cfg.Lvl)
		}
		run.flush(tw)
	}
	tw.Emit(vObj{"a": "End", "skipped": skipped})
}

func vC04Body(tag string) []byte { return []byte(`{"r":"` + tag + `"}`) }

func vC04TreeLevel(t *testing.T, ctx context.Context, run *vC04Run, b vC04Beh) {
	trees := [2]RevTree{{}, {}}
	docid := "c04"
	for _, st := range b.Steps {
		i := st.I - 1
		tree := trees[i]
		ev := vC04Event{a: st.A, i: st.I, del: st.Del, nc: st.Nc, k: st.K, b: vC04UnknownBody, ok: true}
		switch st.A {
		case "Add":
			id, parent := run.idOf(st.R), run.idOf(st.P)
			ev.r, ev.p, ev.b = id, parent, id
			err := tree.addRevision(ctx, docid, RevInfo{ID: id, Parent: parent, Deleted: st.Del, Body: vC04Body(run.bodyTag(id))})
			ev.ok = err == nil
		case "Hist":
			history := make([]string, len(st.Ch))
			for k, m := range st.Ch {
				history[k] = run.idOf(m)
			}
			ev.ch, ev.b = history, history[0]
			doc := &Document{ID: docid}
			doc.History = tree
			idx, parent := doc.findWhereRevBranchesFromHistory(history)
			_, err := doc.addNewerRevisionsToRevTreeHistory(ctx, &Document{ID: docid, Deleted: st.Del}, idx, parent, history)
			ev.ok = err == nil
			if idx > 0 && err == nil {
				tree.setRevisionBody(history[0], vC04Body(run.bodyTag(history[0])), "", false)
			}
		case "Prune":
			tree.pruneRevisions(ctx, uint32(st.K), "")
		default:
			t.Fatalf("VERIF-FATAL unknown tree-level action %q", st.A)
		}
		ev.mem = vC04Project(tree)
		// the codec is inside the loop: what is used from here on is the reloaded tree
		enc, err := base.JSONMarshal(tree)
		if err != nil {
			t.Fatalf("VERIF-FATAL marshal: %v", err)
		}
		reloaded := RevTree{}
		if err := base.JSONUnmarshal(enc, &reloaded); err != nil {
			t.Fatalf("VERIF-FATAL unmarshal %s: %v", enc, err)
		}
		trees[i] = reloaded
		ev.tree = vC04Project(reloaded)
		ev.ww, ev.wbr, ev.wcf = reloaded.winningRevision(ctx)
		ev.leaves = reloaded.GetLeaves()
		if len(reloaded) > 0 {
			doc := &Document{ID: docid}
			doc.History = reloaded
			doc.updateWinningRevAndSetDocFlags(ctx)
			ev.cur = doc.GetRevTreeID()
			ev.fDel, ev.fConf, ev.fBr = doc.hasFlag(channels.Deleted), doc.hasFlag(channels.Conflict), doc.hasFlag(channels.Branched)
			ev.wb = vC04UnknownBody
			if info, ok := reloaded[ev.cur]; ok && info != nil && info.Body != nil {
				var body map[string]any
				if base.JSONUnmarshal(info.Body, &body) == nil {
					ev.wb = run.tokenOfBody(body)
				}
			}
		}
		run.events = append(run.events, ev)
	}
}

// returns false when the behaviour had to be cut short (it names a revision the real system never created)
func vC04DBLevel(t *testing.T, run *vC04Run, b vC04Beh, bi int, d *vC04DBs, useDeleteDoc bool) bool {
	docid := fmt.Sprintf("c04_%d_%d", vSeed(), bi)
	for k := 0; k < 2; k++ {
		if b.Cfg.Lim > 0 {
			d.db[k].RevsLimit = uint32(b.Cfg.Lim)
		} else if b.Cfg.Ac {
			d.db[k].RevsLimit = DefaultRevsLimitConflicts
		} else {
			d.db[k].RevsLimit = DefaultRevsLimitNoConflicts
		}
	}
	lastCur := [2]string{}
	deleteDocOn := map[[2]string]bool{}
	for _, st := range b.Steps {
		i := st.I - 1
		col, ctx := d.col[i], d.ctx[i]
		ev := vC04Event{a: st.A, i: st.I, del: st.Del, nc: st.Nc, k: st.K, b: vC04UnknownBody}
		var retDoc *Document
		var err error
		switch st.A {
		case "Child":
			// a parent the real system never created is named by an explicit id: the call is then rejected for real
			parent := run.idOf(st.P)
			ev.p = parent
			var newRev string
			viaDeleteDoc := st.Del && useDeleteDoc && !deleteDocOn[[2]string{fmt.Sprint(i), parent}]
			if viaDeleteDoc {
				// DeleteDoc's body is fixed, so a second DeleteDoc on the same parent would name the same revision id
				// again (and be refused as a duplicate); the model's Put makes a new revision: use a tagged body then
				deleteDocOn[[2]string{fmt.Sprint(i), parent}] = true
				ev.b = ""
				newRev, retDoc, err = col.DeleteDoc(ctx, docid, DocVersion{RevTreeID: parent})
			} else {
				run.tagN++
				tag := fmt.Sprintf("t%d:put", run.tagN)
				body := Body{"r": tag}
				if parent != "" {
					body[BodyRev] = parent
				}
				if st.Del {
					body[BodyDeleted] = true
				}
				newRev, retDoc, err = col.Put(ctx, docid, body)
				if err == nil {
					run.tagOf[newRev] = tag
					run.revOfTag[tag] = newRev
					ev.b = newRev
				}
			}
			ev.ok = err == nil
			if err == nil {
				ev.r = newRev
				run.ids[st.R] = newRev
				// the id Put made must be the documented digest of (parent, canonical body): recorded, judged by the spec
				ev.idReturned = newRev
				{
					gen, _ := ParseRevID(ctx, newRev)
					usedParent := parent
					if usedParent == "" {
						usedParent = lastCur[i] // Put without _rev on a tombstoned document extends the current revision
					}
					canon := Body{}
					if ev.b != "" {
						canon["r"] = run.tagOf[newRev]
					}
					if st.Del {
						canon[BodyDeleted] = true
					}
					ev.idPredicted, _ = CreateRevID(gen, usedParent, canon)
				}
			}
		case "Hist":
			history := make([]string, len(st.Ch))
			for k, m := range st.Ch {
				history[k] = run.idOf(m)
			}
			ev.ch = history
			body := Body{}
			if run.tagOf[history[0]] == "-" { // this revision was made by DeleteDoc: it carries an empty body
				ev.b = ""
			} else {
				body["r"] = run.bodyTag(history[0])
				ev.b = history[0]
			}
			if st.Del {
				body[BodyDeleted] = true
			}
			retDoc, _, err = col.PutExistingRevWithBody(ctx, docid, body, history, st.Nc, ExistingVersionWithUpdateToHLV)
			ev.ok = err == nil
		default:
			t.Fatalf("VERIF-FATAL unknown db-level action %q", st.A)
		}
		if st.A == "Child" && ev.b == "" && err == nil {
			run.tagOf[ev.r] = "-" // written with an empty body
		}
		// read the stored document back
		doc, gerr := col.GetDocument(ctx, docid, DocUnmarshalAll)
		if gerr != nil || doc == nil {
			if gerr != nil && !base.IsDocNotFoundError(gerr) {
				t.Fatalf("VERIF-FATAL GetDocument(%s): %v", docid, gerr)
			}
			ev.wb = ""
			ev.mem, ev.tree = []vC04Row{}, []vC04Row{}
		} else {
			ev.tree = vC04Project(doc.History)
			if retDoc != nil {
				ev.mem = vC04Project(retDoc.History)
			} else {
				ev.mem = ev.tree
			}
			ev.cur = doc.GetRevTreeID()
			ev.fDel, ev.fConf, ev.fBr = doc.hasFlag(channels.Deleted), doc.hasFlag(channels.Conflict), doc.hasFlag(channels.Branched)
			ev.ww, ev.wbr, ev.wcf = doc.History.winningRevision(ctx)
			ev.leaves = doc.History.GetLeaves()
			ev.wb = vC04UnknownBody
			// served from storage, not from the revision cache entry made when the revision was written
			d.db[i].FlushRevisionCacheForTest()
			served, berr := col.Get1xRevBody(ctx, docid, ev.cur, false, nil)
			if berr == nil {
				ev.wb = run.tokenOfBody(served)
			}
		}
		lastCur[i] = ev.cur
		run.events = append(run.events, ev)
	}
	return true
}
