"""Shared machinery for the TLA+ model-based checks (see DESIGN.md section 2).

Three uses of TLC (exhaustive check, behaviour generation, trace validation), the Go binding runner
(go test -overlay, build tag `verif`), verdict policy, known-findings matching and evidence writing.
Only the python standard library is used.
"""
import atexit
import hashlib
import json
import os
import re
import shutil
import subprocess
import sys
import tempfile
import time

VERIF = os.path.dirname(os.path.dirname(os.path.abspath(__file__)))
REPO = os.environ.get("VERIF_REPO", "/repo")
TLA_CP = "/opt/veriftools/tla/tla2tools.jar:/opt/veriftools/tla/CommunityModules-deps.jar"
NCPU = os.cpu_count() or 4

EXIT_OK, EXIT_VIOLATION, EXIT_INCONCLUSIVE = 0, 1, 2


class Inconclusive(Exception):
    """The machinery could not decide (build failure, timeout, model/impl drift, vacuity)."""


def log(*a):
    print(*a, flush=True)


# --------------------------------------------------------------------------------------------
# context
# --------------------------------------------------------------------------------------------
class Ctx:
    def __init__(self, pid, tier, seed):
        self.pid, self.tier, self.seed = pid, tier, seed
        self.t0 = time.time()
        base = os.environ.get("VERIF_SCRATCH") or tempfile.gettempdir()
        self.scratch = tempfile.mkdtemp(prefix="verif-%s-" % pid, dir=base)
        self.keep = bool(os.environ.get("VERIF_KEEP"))
        atexit.register(self._cleanup)
        self.cov = {
            "states": 0, "transitions": 0, "traces_validated_against_impl": 0, "samples": [],
            "evaluations": 0, "distinct_nontrivial": 0, "rule": "", "nonconformance": 0,
            "tlc_runs": [], "go_runs": [], "exhaustive": False,
        }
        self.assumptions = []
        self.violations = []      # list of dict(key, what, replay)
        self.known_hits = []
        self.notes = []

    def _cleanup(self):
        if self.keep:
            log("scratch kept at", self.scratch)
        else:
            shutil.rmtree(self.scratch, ignore_errors=True)

    def sub(self, name):
        d = os.path.join(self.scratch, name)
        os.makedirs(d, exist_ok=True)
        return d

    def quick(self):
        return self.tier == "quick"

    def sample(self, s, cap=6):
        if len(self.cov["samples"]) < cap:
            self.cov["samples"].append(s)


# --------------------------------------------------------------------------------------------
# TLC
# --------------------------------------------------------------------------------------------
class TLCResult:
    def __init__(self):
        self.rc = None
        self.out = ""
        self.generated = 0
        self.distinct = 0
        self.depth = 0
        self.printed = []          # python values of PrintT'ed tuples (see parse_printed)
        self.inv_violated = None   # name of violated invariant / property
        self.error_trace = []      # list of state dicts (var -> text)
        self.error_text = None
        self.coverage_zero = []
        self.wall = 0.0

    @property
    def ok(self):
        return self.rc == 0 and not self.inv_violated and not self.error_text


def _stage_spec(ctx, spec_dir, tag):
    """copy the module directory and specs/common into a scratch directory (TLC litters)."""
    dst = ctx.sub("tlc-%s-%d" % (tag, len(ctx.cov["tlc_runs"])))
    srcs = [os.path.join(VERIF, "specs", "common")]
    depf = os.path.join(spec_dir, "DEPS")
    if os.path.exists(depf):
        srcs += [os.path.join(VERIF, "specs", x.strip()) for x in open(depf) if x.strip()]
    srcs.append(spec_dir)
    for src in srcs:
        for f in os.listdir(src):
            if f.endswith((".tla", ".cfg")):
                shutil.copy(os.path.join(src, f), dst)
    return dst


_PRINT_RE = re.compile(r'^<<"([A-Z]+)", (.*)>>$')


def _tla_str_to_py(lit):
    """TLC prints strings with \\" and \\\\ escapes, which are JSON compatible."""
    return json.loads(lit)


def parse_printed(out):
    """PrintT(<<"TAG", x>>) lines -> [(TAG, text_of_x)]; strings holding JSON are decoded by callers."""
    res = []
    for line in out.splitlines():
        m = _PRINT_RE.match(line.strip())
        if m:
            res.append((m.group(1), m.group(2)))
    return res


def tlc(ctx, spec_dir, module, cfg, mode="check", workers=None, simulate=None, depth=None,
        env=None, timeout=600, coverage=False, extra=None, tag=None, dfs=False, allow_violation=False):
    """run TLC. mode: check | simulate.  simulate = number of behaviours (per worker; workers forced to 1)."""
    tag = tag or module
    d = _stage_spec(ctx, spec_dir, tag)
    meta = os.path.join(d, "meta")
    heap = os.environ.get("VERIF_TLC_HEAP", "8g")
    java = ["java", "-XX:+UseParallelGC", "-Xmx" + heap, "-Xss64m"]
    if dfs:
        java.append("-Dtlc2.tool.queue.IStateQueue=StateDeque")
    cmd = java + ["-cp", TLA_CP, "tlc2.TLC", "-metadir", meta, "-config", cfg, "-noGenerateSpecTE"]
    if mode == "simulate":
        cmd += ["-workers", "1", "-simulate", "num=%d" % simulate, "-depth", str(depth or 20),
                "-seed", str(ctx.seed)]
    else:
        cmd += ["-workers", str(min(workers or NCPU, int(os.environ.get("VERIF_TLC_WORKERS") or NCPU)))]
        if depth:
            cmd += ["-dfid", str(depth)] if False else []
    if coverage:
        cmd += ["-coverage", "1"]
    if extra:
        cmd += extra
    cmd.append(module + ".tla")
    e = dict(os.environ)
    e.pop("JAVA_TOOL_OPTIONS", None)
    if env:
        e.update({k: str(v) for k, v in env.items()})
    t0 = time.time()
    try:
        p = subprocess.run(cmd, cwd=d, env=e, stdout=subprocess.PIPE, stderr=subprocess.STDOUT,
                           timeout=timeout, text=True, errors="replace")
    except subprocess.TimeoutExpired as ex:
        subprocess.run(["pkill", "-f", meta], check=False)
        raise Inconclusive("TLC timeout after %ss on %s/%s" % (timeout, module, cfg))
    r = TLCResult()
    r.rc, r.out, r.wall = p.returncode, p.stdout, time.time() - t0
    m = re.search(r"(\d+) states generated, (\d+) distinct states found", r.out)
    if m:
        r.generated, r.distinct = int(m.group(1)), int(m.group(2))
    m = re.search(r"depth of the complete state graph search is (\d+)", r.out)
    if m:
        r.depth = int(m.group(1))
    r.printed = parse_printed(r.out)
    m = re.search(r"Error: Invariant (\S+) is violated", r.out)
    if m:
        r.inv_violated = m.group(1)
    m = re.search(r"Error: Action property (\S+) is violated", r.out)
    if m:
        r.inv_violated = m.group(1)
    if "Temporal properties were violated" in r.out:
        r.inv_violated = r.inv_violated or "TemporalProperty"
    if r.inv_violated is None and r.rc != 0:
        m = re.search(r"Error: (.*(?:\n(?!State|\d+ states).*){0,6})", r.out)
        r.error_text = (m.group(1).strip() if m else "TLC exit %d" % r.rc)
        if "Deadlock reached" in r.out:
            r.inv_violated = "Deadlock"
            r.error_text = None
    r.error_trace = _parse_error_trace(r.out)
    if coverage:
        for line in r.out.splitlines():
            mm = re.match(r"^<(\w+) line .*>: (\d+):(\d+)$", line.strip())
            if mm and int(mm.group(3)) == 0 and mm.group(1) not in ("Init",):
                r.coverage_zero.append(mm.group(1))
    ctx.cov["tlc_runs"].append({"module": module, "cfg": cfg, "mode": mode, "generated": r.generated,
                                "distinct": r.distinct, "depth": r.depth, "wall_s": round(r.wall, 1),
                                "rc": r.rc, "violated": r.inv_violated})
    if os.environ.get("VERIF_DEBUG"):
        log(r.out[-3000:])
    if r.error_text and not allow_violation:
        raise Inconclusive("TLC error in %s/%s: %s\n%s" % (module, cfg, r.error_text, r.out[-1500:]))
    return r


def _parse_error_trace(out):
    states, cur = [], None
    for line in out.splitlines():
        if "is violated by the initial state" in line:
            cur = {"_hdr": "State 1: <Initial predicate>", "_txt": []}
            states.append(cur)
        elif re.match(r"^State \d+:", line):
            cur = {"_hdr": line.strip(), "_txt": []}
            states.append(cur)
        elif cur is not None:
            if line.strip() == "" or re.match(r"^\d+ states generated", line):
                cur = None
            else:
                cur["_txt"].append(line.rstrip())
                m = re.match(r"^/\\ (\w+) = (.*)$", line.strip())
                if m:
                    cur[m.group(1)] = m.group(2)
                else:
                    m = re.match(r"^(\w+) = (.*)$", line.strip())
                    if m:
                        cur[m.group(1)] = m.group(2)
    return states


def model_check(ctx, spec_dir, module, cfg, timeout=900, coverage=None, count=True, env=None, workers=None):
    """exhaustive TLC run of a bounded model; a model counterexample is a *candidate* (exit 2)."""
    cov = (ctx.tier == "thorough") if coverage is None else coverage
    r = tlc(ctx, spec_dir, module, cfg, timeout=timeout, coverage=cov, env=env, workers=workers)
    if r.inv_violated:
        raise Inconclusive("model counterexample in %s/%s: %s violated (candidate only; not reproduced on real code)\n%s"
                           % (module, cfg, r.inv_violated, "\n".join("\n".join(s["_txt"]) for s in r.error_trace[-3:])))
    if r.distinct == 0:
        raise Inconclusive("TLC reported no states for %s/%s\n%s" % (module, cfg, r.out[-800:]))
    if count:
        ctx.cov["states"] += r.distinct
        ctx.cov["transitions"] += r.generated
    if cov and r.coverage_zero:
        ctx.notes.append("zero-coverage actions in %s/%s: %s" % (module, cfg, sorted(set(r.coverage_zero))))
    log("  TLC %-28s %-22s %9d distinct %10d generated depth %3d  %.1fs" % (module, cfg, r.distinct, r.generated, r.depth, r.wall))
    return r


def behaviours(ctx, spec_dir, module, cfg, num=None, depth=None, timeout=600, env=None, tagname="BEH"):
    """behaviours exported by the spec through PrintT(<<"BEH", ToJson(hist)>>).
    num=None: exhaustive run of cfg (all behaviours of the bounded model that the cfg prints);
    else -simulate num=<num> -depth <depth> -seed <ctx.seed>."""
    if num is None:
        r = tlc(ctx, spec_dir, module, cfg, timeout=timeout, env=env, workers=1)
    else:
        r = tlc(ctx, spec_dir, module, cfg, mode="simulate", simulate=num, depth=depth, timeout=timeout, env=env)
    if r.inv_violated:
        raise Inconclusive("behaviour generation %s/%s violated %s" % (module, cfg, r.inv_violated))
    res, seen = [], set()
    for t, txt in r.printed:
        if t != tagname:
            continue
        js = _tla_str_to_py(txt)
        if js in seen:
            continue
        seen.add(js)
        res.append(json.loads(js))
    if not res:
        raise Inconclusive("no behaviours exported by %s/%s\n%s" % (module, cfg, r.out[-800:]))
    log("  TLC %-28s %-22s exported %d distinct behaviours  %.1fs" % (module, cfg, len(res), r.wall))
    return res


class TraceVerdict:
    def __init__(self):
        self.accepted = False
        self.consumed = 0
        self.total = 0
        self.inv = None         # violated invariant name (pass P) or None
        self.line = None        # 1-based trace line at which the invariant failed / first unconsumed line
        self.state = None
        self.out = ""


def validate(ctx, spec_dir, module, cfg, trace_path, timeout=900, env=None, tag=None):
    """trace validation: the Trace_ module reads $VERIF_TRACE (ndjson), keeps a high-water mark of consumed
    lines in TLCGet(1) and prints it from its POSTCONDITION as <<"HWM", n, total>>."""
    e = {"VERIF_TRACE": trace_path}
    if env:
        e.update(env)
    with open(trace_path) as f:
        total = sum(1 for _ in f)
    r = tlc(ctx, spec_dir, module, cfg, workers=1, env=e, timeout=timeout, dfs=True, tag=tag or (module + "-" + cfg),
            allow_violation=True)
    v = TraceVerdict()
    v.out, v.total = r.out, total
    for t, txt in r.printed:
        if t == "HWM":
            v.consumed = max(v.consumed, int(txt.split(",")[0]))
    if r.inv_violated:
        v.inv = r.inv_violated
        if r.error_trace:
            st = r.error_trace[-1]
            v.state = st
            if "l" in st:
                try:
                    v.line = int(st["l"])
                except ValueError:
                    pass
        return v
    if r.error_text:
        raise Inconclusive("TLC error validating %s with %s/%s: %s\n%s" % (trace_path, module, cfg, r.error_text, r.out[-1500:]))
    v.accepted = (v.consumed >= total)
    if not v.accepted:
        v.line = v.consumed + 1
    return v


# --------------------------------------------------------------------------------------------
# Go binding
# --------------------------------------------------------------------------------------------
def go_env():
    e = dict(os.environ)
    e["GOFLAGS"] = "-mod=mod"
    e["GOPROXY"] = "off"
    e.pop("GOTOOLCHAIN", None)   # go.mod wants 1.26.6 which is a cached toolchain module
    e.pop("GOSUMDB", None)
    e["SG_TEST_USE_DEFAULT_COLLECTION"] = e.get("SG_TEST_USE_DEFAULT_COLLECTION", "")
    return e


def go_test(ctx, pkg, run, files, env=None, timeout=1200, race=False, tags="verif", verbose=False, count=1, extra=None):
    """compile harness files into /repo/<pkg> with -overlay and run the selected tests.
    files: list of paths under /verif/harness/... ; each is overlaid as /repo/<pkg>/zz_verif_<basename>.
    The shared helper harness/common/vtrace.go.in is instantiated for the package name."""
    pkgdir = os.path.join(REPO, pkg)
    if not os.path.isdir(pkgdir):
        raise Inconclusive("package dir %s missing" % pkgdir)
    pkgname = _go_pkgname(pkgdir)
    od = ctx.sub("overlay-%s-%d" % (pkg.replace("/", "_"), len(ctx.cov["go_runs"])))
    repl = {}
    common_src = open(os.path.join(VERIF, "harness", "common", "vtrace.go.in")).read()
    cpath = os.path.join(od, "zz_verif_vtrace_test.go")
    with open(cpath, "w") as f:
        f.write(common_src.replace("package PKGNAME", "package " + pkgname))
    repl[os.path.join(pkgdir, "zz_verif_vtrace_test.go")] = cpath
    for src in files:
        src = src if os.path.isabs(src) else os.path.join(VERIF, src)
        repl[os.path.join(pkgdir, "zz_verif_" + os.path.basename(src))] = src
    ov = os.path.join(od, "overlay.json")
    with open(ov, "w") as f:
        json.dump({"Replace": repl}, f)
    cmd = ["go", "test", "-overlay", ov, "-vet=off", "-count=%d" % count, "-run", run,
           "-timeout", "%ds" % timeout]
    if tags:
        cmd += ["-tags", tags]
    if race:
        cmd.append("-race")
    if verbose:
        cmd.append("-v")
    if extra:
        cmd += extra
    cmd.append("./" + pkg)
    e = go_env()
    e["VERIF_SEED"] = str(ctx.seed)
    e["VERIF_TIER"] = ctx.tier
    if env:
        e.update({k: str(v) for k, v in env.items()})
    t0 = time.time()
    try:
        p = subprocess.run(cmd, cwd=REPO, env=e, stdout=subprocess.PIPE, stderr=subprocess.STDOUT,
                           timeout=timeout + 600, text=True, errors="replace")
    except subprocess.TimeoutExpired:
        raise Inconclusive("go test timeout (%s %s)" % (pkg, run))
    wall = time.time() - t0
    ctx.cov["go_runs"].append({"pkg": pkg, "run": run, "rc": p.returncode, "wall_s": round(wall, 1)})
    out = p.stdout
    if os.environ.get("VERIF_DEBUG"):
        log(out[-4000:])
    if p.returncode != 0:
        if "[build failed]" in out or "[setup failed]" in out:
            raise Inconclusive("harness does not compile against this tree (%s):\n%s" % (pkg, out[-3000:]))
        if "no tests to run" in out:
            raise Inconclusive("no harness test matched %s in %s" % (run, pkg))
    if "no tests to run" in out:
        raise Inconclusive("no harness test matched %s in %s" % (run, pkg))
    log("  go test ./%s -run %s  rc=%d  %.1fs" % (pkg, run, p.returncode, wall))
    return p.returncode, out


def _go_pkgname(pkgdir):
    for f in sorted(os.listdir(pkgdir)):
        if f.endswith(".go") and not f.endswith("_test.go"):
            for line in open(os.path.join(pkgdir, f), errors="replace"):
                m = re.match(r"^package (\w+)", line)
                if m:
                    return m.group(1)
    raise Inconclusive("cannot find package name in " + pkgdir)


def harness_failure(out):
    """a harness test that fails for a reason other than a recorded observation is inconclusive."""
    tail = "\n".join(l for l in out.splitlines() if ("--- FAIL" in l or "panic:" in l or "Error Trace" in l or "Error:" in l or "VERIF-FATAL" in l))[:3000]
    return tail or out[-2000:]


def read_ndjson(path):
    res = []
    with open(path) as f:
        for line in f:
            line = line.strip()
            if line:
                res.append(json.loads(line))
    return res


def write_ndjson(path, rows):
    with open(path, "w") as f:
        for r in rows:
            f.write(json.dumps(r, separators=(",", ":"), sort_keys=True) + "\n")


def write_json(path, obj):
    with open(path, "w") as f:
        json.dump(obj, f, separators=(",", ":"), sort_keys=True)


# --------------------------------------------------------------------------------------------
# verdicts, known findings, evidence
# --------------------------------------------------------------------------------------------
def load_known():
    p = os.path.join(VERIF, "known_findings.json")
    if not os.path.exists(p):
        return []
    return json.load(open(p)).get("entries", [])


def report_violation(ctx, key, what, replay_obj):
    """key identifies the specific failing input / call site / history (matched against known_findings.json)."""
    for k in load_known():
        if k.get("status") == "finding" and k.get("property") == ctx.pid and k.get("key") == key:
            if key not in [h["key"] for h in ctx.known_hits]:
                ctx.known_hits.append({"key": key, "what": k.get("what", what)})
            return False
    if key in [v["key"] for v in ctx.violations]:
        return True
    os.makedirs(os.path.join(VERIF, "replays"), exist_ok=True)
    h = hashlib.sha1((ctx.pid + key).encode()).hexdigest()[:10]
    path = os.path.join(VERIF, "replays", "%s-%s.json" % (ctx.pid, h))
    with open(path, "w") as f:
        json.dump({"property": ctx.pid, "key": key, "what": what, "seed": ctx.seed, "tier": ctx.tier,
                   "replay": replay_obj}, f, indent=1, default=str)
    ctx.violations.append({"key": key, "what": what, "replay": path})
    return True


def finish(ctx, level="model_checking", inconclusive=False):
    cov = ctx.cov
    cov["explanation"] = "; ".join(ctx.notes) if ctx.notes else cov.get("explanation", "")
    if not cov["samples"]:
        cov["samples"] = ["(no sample recorded)"]
    cov["known_findings_hit"] = ctx.known_hits
    ev = {
        "property_id": ctx.pid, "tier": ctx.tier, "seed": ctx.seed, "level": level,
        "coverage": cov, "assumptions": ctx.assumptions, "wall_s": round(time.time() - ctx.t0, 1),
        "violations": len(ctx.violations),
    }
    os.makedirs(os.path.join(VERIF, "evidence"), exist_ok=True)
    with open(os.path.join(VERIF, "evidence", ctx.pid + ".json"), "w") as f:
        json.dump(ev, f, indent=1, default=str)
    for h in ctx.known_hits:
        log("KNOWN-FINDING: property=%s %s" % (ctx.pid, h["what"]))
    for v in ctx.violations:
        log("  violation: %s" % v["what"])
        log("VIOLATION property=%s replay=%s" % (ctx.pid, v["replay"]))
    if cov.get("nonconformance"):
        log("NONCONFORMANCE count=%d (implementation left the modelled envelope; property predicates held on real state)" % cov["nonconformance"])
    log("%s %s tier=%s seed=%d states=%d traces=%d evaluations=%d wall=%.1fs" % (
        "FAIL" if ctx.violations else ("INCONCLUSIVE" if inconclusive else "PASS"), ctx.pid, ctx.tier, ctx.seed, cov["states"],
        cov["traces_validated_against_impl"], cov["evaluations"], time.time() - ctx.t0))
    return EXIT_VIOLATION if ctx.violations else EXIT_OK


def main(pid, run):
    import argparse
    ap = argparse.ArgumentParser()
    ap.add_argument("--tier", default=os.environ.get("VERIF_TIER", "quick"), choices=["quick", "thorough"])
    ap.add_argument("--seed", type=int, default=int(os.environ.get("VERIF_SEED", "1") or 1))
    ap.add_argument("--replay", default=None)
    a = ap.parse_args(sys.argv[2:] if len(sys.argv) > 1 and sys.argv[1] == pid else sys.argv[1:])
    if a.replay and os.path.exists(a.replay):
        # a replay file records the seed and tier of the run that wrote it: the checks are deterministic in (tree, seed, tier),
        # so re-running with them reproduces the recorded violation (checks that support it replay the single behaviour)
        try:
            rp = json.load(open(a.replay))
            a.seed, a.tier = int(rp.get("seed", a.seed)), rp.get("tier", a.tier)
        except Exception:
            pass
    ctx = Ctx(pid, a.tier, a.seed)
    ctx.replay = a.replay
    try:
        run(ctx)
        rc = finish(ctx)
    except Inconclusive as ex:
        log("INCONCLUSIVE %s: %s" % (pid, ex))
        ctx.notes.append("INCONCLUSIVE: %s" % str(ex)[:500])
        try:
            ctx.cov["evaluations"] = max(ctx.cov["evaluations"], 1)
            finish(ctx, inconclusive=True)
        except Exception:
            pass
        # a violation already established on real state stands even if a later stage could not complete
        rc = EXIT_VIOLATION if ctx.violations else EXIT_INCONCLUSIVE
    sys.exit(rc)
