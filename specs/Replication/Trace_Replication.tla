--------------------------- MODULE Trace_Replication ---------------------------
(* Validation of phase replays recorded from REAL replications (harness/rest/c06_replication_test.go, converted by
   checks/C06.py: revision ids -> [generation, digest rank], versions -> ranks, source ids -> "A" / "B").
   Lines:
     {a:"Reset", beh, proto, dir, res, mvers:[merge versions seen], revs:[[d, g, x, pg, px, body, del] ...]}        the content-addressed revision table of the behaviour
     {a:"Write", p, d, kind, body, ver, pre:VIEW, post:VIEW}          kind "skip": the environment's write did not apply
     {a:"Start"}  {a:"Stop"}
     {a:"Sync", ok, A:[VIEW ...], B:[VIEW ...]}                       caught-up point: views of every document on both peers
     {a:"Rerun", w, r, f, A:[...], B:[...]}                           one-shot re-run of the caught-up replication: docs_written,
                                                                      docs_read, failed transfers; views afterwards
   VIEW = {ex, cur:[g,x], tree:[[g,x] ...], nlive, src, ver, mv:[a,b], pv:[a,b], body, del, rest:{code, id:[..], body, del}}

   Pass P (PSpec): document states := the logged REAL views, ghosts advance from the logged inputs; the invariants are the
   property statement.  Pass C (CSpec): between two logged lines the model takes any number of UNLOGGED replication steps;
   every logged write must be an instance of Write from a state the model can be in, and at every caught-up point the
   model must be quiescent in exactly the logged state (phase-level conformance). *)
EXTENDS Replication, TraceLib

TProtos == {"v3"}                   \* one initial state; every Reset line carries the configuration of its scenario
TDirSets == {{"push", "pull"}}
TResolvers == {"default"}
LDirs(s) == CASE s = "push" -> {"push"} [] s = "pull" -> {"pull"} [] OTHER -> {"push", "pull"}
KeepCfg == UNCHANGED <<proto, dirs, resolver>>
D2 == {1, 2}
EmptyPool == [d \in Docs |-> {}]

VARIABLES l,
          obs,     \* observation of the last caught-up point: [nlive, rest] per peer and document
          rr,      \* observation of the last re-run [on, w, r, f, same]
          caught,  \* the last Wait reached a caught-up point within the bound
          devc     \* [Docs -> class of the first named deviation observed on the document ("" = none)]
tvars == <<vars, l, obs, rr, caught, devc>>

RevOf(t) == [g |-> t[1], x |-> t[2]]
LView(v) == [tree |-> {RevOf(v.tree[i]) : i \in 1..Len(v.tree)}, cur |-> RevOf(v.cur),
             src |-> v.src, ver |-> v.ver, mv |-> [A |-> v.mv[1], B |-> v.mv[2]], pv |-> [A |-> v.pv[1], B |-> v.pv[2]], body |-> v.body, del |-> v.del]
LObs(v) == [nlive |-> v.nlive, rest |-> v.rest]
LDocs(r) == [p \in Peers |-> [d \in Docs |-> LView(r[p][d])]]
LObsAll(r) == [p \in Peers |-> [d \in Docs |-> LObs(r[p][d])]]
(* the revision table of a behaviour *)
LRevs(rs) == [d \in Docs |->
   LET S == {i \in 1..Len(rs) : rs[i][1] = d}
       ids == {[g |-> rs[i][2], x |-> rs[i][3]] : i \in S}
   IN [id \in ids |-> LET i == CHOOSE i \in S : rs[i][2] = id.g /\ rs[i][3] = id.x IN
                      [par |-> [g |-> rs[i][4], x |-> rs[i][5]], body |-> rs[i][6], del |-> rs[i][7]]]]

NoObs == [p \in Peers |-> [d \in Docs |-> [nlive |-> 0, rest |-> [code |-> 0, id |-> <<>>, body |-> 0, del |-> FALSE]]]]
NoRR == [on |-> FALSE, w |-> 0, r |-> 0, f |-> 0, chg |-> {}]

Ev(a) == l <= TraceLen /\ Trace[l].a = a /\ l' = l + 1
TInit == Init /\ l = 1 /\ obs = NoObs /\ rr = NoRR /\ caught = TRUE /\ devc = [d \in Docs |-> ""]

Reset == /\ Ev("Reset")
         /\ proto' = Trace[l].proto /\ dirs' = LDirs(Trace[l].dir) /\ resolver' = Trace[l].res
         /\ doc' = [p \in Peers |-> [d \in Docs |-> Absent]]
         /\ revs' = LRevs(Trace[l].revs)
         /\ pool' = [d \in Docs |-> {[g |-> 0, x |-> Trace[l].mvers[i]] : i \in 1..Len(Trace[l].mvers)}]
         /\ seq' = [p \in Peers |-> 0] /\ dseq' = [p \in Peers |-> [d \in Docs |-> 0]]
         /\ running' = FALSE /\ cursor' = [x \in AllDirs |-> 0] /\ ckpt' = [x \in AllDirs |-> 0] /\ msgs' = [x \in AllDirs |-> {}]
         /\ out' = [a |-> "None", d |-> 0, res |-> "None"]
         /\ twrote' = [p \in Peers |-> [d \in Docs |-> FALSE]] /\ edits' = 0 /\ stops' = 0 /\ reruns' = 0
         /\ rerun' = FALSE /\ snap' = doc' /\ sync' = FALSE /\ swapped' = {} /\ devd' = {}
         /\ hist' = <<>> /\ obs' = NoObs /\ rr' = NoRR /\ caught' = TRUE /\ devc' = [d \in Docs |-> ""]

ClassIn(D, R, d) == IF CvSwapIn(D, d) THEN "TombstoneCvSwap" ELSE IF UnsentTombIn(D, R, d) THEN "UnsentTombstone" ELSE ""

(* ghosts of a logged environment write (the counters are not bounded here) *)
TGhostWrite(p, d, applied) ==
  /\ twrote' = IF applied THEN [twrote EXCEPT ![p][d] = TRUE] ELSE twrote
  /\ edits' = edits + 1
  /\ UNCHANGED <<pool, stops, reruns, rerun, snap, swapped, devd>> /\ KeepCfg
  /\ sync' = FALSE /\ UNCHANGED <<hist, obs, caught, devc>> /\ rr' = NoRR

-----------------------------------------------------------------------------
(* pass P *)
PWrite == /\ Ev("Write")
          /\ LET r == Trace[l] IN
             /\ doc' = IF r.kind = "skip" THEN doc ELSE [doc EXCEPT ![r.p][r.d] = LView(r.post)]
             /\ TGhostWrite(r.p, r.d, r.kind # "skip")
          /\ UNCHANGED <<revs, seq, dseq, running, cursor, ckpt, msgs, out>>
PStart == /\ Ev("Start") /\ KeepCfg /\ running' = TRUE /\ sync' = FALSE /\ rr' = NoRR
          /\ UNCHANGED <<doc, revs, seq, dseq, cursor, ckpt, msgs, out, pool, twrote, edits, stops, reruns, rerun, snap, swapped, devd, hist, obs, caught, devc>>
PStop  == /\ Ev("Stop") /\ KeepCfg /\ running' = FALSE /\ sync' = FALSE /\ rr' = NoRR
          /\ UNCHANGED <<doc, revs, seq, dseq, cursor, ckpt, msgs, out, pool, twrote, edits, stops, reruns, rerun, snap, swapped, devd, hist, obs, caught, devc>>
PSync == /\ Ev("Sync") /\ KeepCfg
         /\ LET r == Trace[l] IN
            /\ doc' = LDocs(r) /\ obs' = LObsAll(r) /\ caught' = r.ok /\ sync' = r.ok
            /\ devd' = IF r.ok THEN devd \cup {d \in Docs : DeviationIn(doc', revs, d)} ELSE devd
            /\ devc' = [d \in Docs |-> IF devc[d] # "" \/ ~r.ok THEN devc[d] ELSE ClassIn(doc', revs, d)]
         /\ rr' = NoRR
         /\ UNCHANGED <<revs, seq, dseq, running, cursor, ckpt, msgs, out, pool, twrote, edits, stops, reruns, rerun, snap, swapped, hist>>
PRerun == /\ Ev("Rerun")
          /\ LET r == Trace[l] IN
             /\ doc' = LDocs(r) /\ obs' = LObsAll(r)
             /\ rr' = [on |-> TRUE, w |-> r.w, r |-> r.r, f |-> r.f,
                      chg |-> {d \in Docs : \E p \in Peers : LView(r[p][d]) # doc[p][d] \/ LObs(r[p][d]) # obs[p][d]}]
          /\ UNCHANGED <<revs, seq, dseq, running, cursor, ckpt, msgs, out, ghost, hist, caught, devc>>
PNext == Reset \/ PWrite \/ PStart \/ PStop \/ PSync \/ PRerun
PSpec == TInit /\ [][PNext]_tvars

(* ---- the property, evaluated on the recorded real state ---- *)
DevClass(d) == devc[d]
(* same current revision (rev-tree id under v3, current version under v4), same body, same tombstone state - on the stored
   documents and on what the REST admin API serves.  A document on which a named deviation (Replication.tla) is observed
   is REPORTED through the DEV line (the driver files it under the deviation's fixed key) and checking goes on. *)
RestSame(d) == obs["A"][d].rest = obs["B"][d].rest
Reported(d) == d \in devd /\ PrintT(<<"DEV", l - 1, d, DevClass(d)>>)
ConvergedP == sync => \A d \in Docs : Promised(d) => ((SameView(d) /\ RestSame(d)) \/ Reported(d))
SingleWinnerP == sync => \A p \in Peers, d \in Docs : obs[p][d].nlive <= 1
(* a re-run of the caught-up replication transfers no revision and changes nothing.  Excused, one transfer each: a document
   on which a named deviation was reported (the re-run, which lists everything again, may repair it) and - PUSH only - a
   document the environment wrote on the target side (the target may have changed since the source's revision was rejected).
   A pull never has an excuse of the second kind: what the source lists is known to a caught-up target whoever wrote last.
   Failed transfers (409) likewise. *)
Excused == {d \in Docs : RerunExcused(d)}
IdempotentRerunP == rr.on => /\ rr.w + rr.r <= Cardinality(Excused)
                             /\ rr.r <= Cardinality(devd)
                             /\ rr.chg \subseteq Excused
                             /\ rr.f <= Cardinality(Excused)
(* bounded-time progress (DESIGN 8): the replication reached a caught-up point *)
EventuallyCaughtUpP == caught

-----------------------------------------------------------------------------
(* pass C: phase-level conformance with unlogged replication steps *)
CWrite ==
  /\ Ev("Write")
  /\ LET r == Trace[l] IN
     IF r.kind = "skip" THEN /\ UNCHANGED <<doc, revs, seq, dseq, running, cursor, ckpt, msgs, out>> /\ TGhostWrite(r.p, r.d, FALSE)
     ELSE /\ doc[r.p][r.d] = LView(r.pre)
          /\ ImplWrite(r.p, r.d, r.kind, r.body, r.ver)
          /\ doc'[r.p][r.d] = LView(r.post)
          /\ TGhostWrite(r.p, r.d, TRUE)
CGhostLife == /\ sync' = FALSE /\ rr' = NoRR /\ KeepCfg
              /\ UNCHANGED <<pool, twrote, edits, stops, reruns, rerun, snap, swapped, devd, hist, obs, caught, devc>>
CStart == Ev("Start") /\ ImplStart /\ CGhostLife
CStop  == /\ Ev("Stop") /\ running /\ running' = FALSE /\ msgs' = [x \in AllDirs |-> {}]
          /\ \E c \in {ckpt, [x \in AllDirs |-> SafeSeq(x)]} : ckpt' = c        \* with or without a final checkpoint
          /\ UNCHANGED <<doc, revs, seq, dseq, cursor>> /\ out' = [a |-> "Stop", d |-> 0, res |-> "None"]
          /\ CGhostLife
(* an unlogged replication step.  Conformance is existential (one explaining run suffices), so the steps that cannot change
   what is explained are folded: a wanted revision is sent at once, checkpoints are only taken at caught-up points / Stop *)
HAnswer(x, m) ==
  /\ running /\ m \in msgs[x] /\ m.st = "offered"
  /\ msgs' = [msgs EXCEPT ![x] = IF Known(Tgt(x), m) THEN @ \ {m} ELSE (@ \ {m}) \cup {[m EXCEPT !.st = "sent"]}]
  /\ out' = [a |-> "Answer", d |-> m.d, res |-> "None"]
  /\ UNCHANGED <<doc, revs, seq, dseq, running, cursor, ckpt>>
(* the pulling / pushed-to peer REFUSES an obsolete tombstone whose document has moved on at the source (observed on the real
   code: the interior tombstone is serialised with a top-level `_deleted` property, 404 - NOTES.md): the message has no effect *)
HRefuse(x, m) ==
  /\ running /\ m \in msgs[x] /\ m.st = "sent" /\ m.rv.del
  /\ Id(doc[Src(x)][m.d]) # Id(m.rv)
  /\ msgs' = [msgs EXCEPT ![x] = @ \ {m}]
  /\ out' = [a |-> "Refuse", d |-> m.d, res |-> "None"]
  /\ UNCHANGED <<doc, revs, seq, dseq, running, cursor, ckpt>>
(* one revision in flight per direction: enough to explain what phase replay can observe, and it keeps the search small *)
CHidden == /\ l <= TraceLen /\ l' = l /\ running /\ KeepCfg
           /\ \E x \in dirs : \/ msgs[x] = {} /\ ImplOffer(x)
                              \/ \E m \in msgs[x] : HAnswer(x, m) \/ ImplApply(x, m) \/ HRefuse(x, m)
           /\ out'.res # "starved"
           /\ sync' = FALSE /\ UNCHANGED <<pool, twrote, edits, stops, reruns, rerun, snap, swapped, devd, hist, obs, rr, caught, devc>>
CSync == /\ Ev("Sync") /\ KeepCfg
         /\ LET r == Trace[l] IN
            IF r.ok
            THEN /\ Quiescent /\ doc = LDocs(r)
                 /\ ckpt' = cursor /\ out' = [a |-> "Sync", d |-> 0, res |-> "None"]
                 /\ UNCHANGED <<doc, revs, seq, dseq, running, cursor, msgs>>
                 /\ devd' = devd \cup {d \in Docs : DeviationIn(doc, revs, d)}
            ELSE /\ doc' = LDocs(r) /\ msgs' = [x \in AllDirs |-> {}] /\ cursor' = [x \in AllDirs |-> seq[Src(x)]]
                 /\ out' = [a |-> "Sync", d |-> 0, res |-> "None"]
                 /\ UNCHANGED <<revs, seq, dseq, running, ckpt, devd>>
         /\ obs' = LObsAll(Trace[l]) /\ caught' = Trace[l].ok /\ sync' = Trace[l].ok /\ rr' = NoRR /\ UNCHANGED devc
         /\ UNCHANGED <<pool, twrote, edits, stops, reruns, rerun, snap, swapped, hist>>
CRerun == /\ Ev("Rerun") /\ Quiescent
          /\ \A p \in Peers, d \in Docs \ Excused : doc[p][d] = LView(Trace[l][p][d])     \* an excused document is re-bound
          /\ doc' = LDocs(Trace[l])
          /\ rr' = [on |-> TRUE, w |-> Trace[l].w, r |-> Trace[l].r, f |-> Trace[l].f, chg |-> {}]
          /\ UNCHANGED <<revs, seq, dseq, running, cursor, ckpt, msgs, out, ghost, hist, obs, caught, devc>>
CNext == Reset \/ CWrite \/ CStart \/ CStop \/ CHidden \/ CSync \/ CRerun
CSpec == TInit /\ [][CNext]_tvars

cview == <<doc, revs, seq, dseq, running, cursor, ckpt, msgs, ghost, l, obs, rr, caught, devc>>      \* pass C: `out` is not part of the identity of a state
Progress == Mark(l)
Accept == PrintHWM
=============================================================================
