CONSTANT Resolvers <- EnvResolvers
CONSTANT Protos <- EnvProtos
CONSTANT DirSets <- EnvDirSets
CONSTANT Docs <- D1
CONSTANT MaxEdits = 3
CONSTANT MaxStops = 1
CONSTANT MaxReruns = 0
CONSTANT MaxSteps = 7
CONSTANT MaxVer = 8
CONSTANT MaxSeq = 30
CONSTANT MaxGen = 8
CONSTANT NDig = 5
CONSTANT InitPool <- MCPool
CONSTANT Canon = TRUE
CONSTANT TrackHist = TRUE
SPECIFICATION PhaseSpec
INVARIANT BehaviourExport
CHECK_DEADLOCK FALSE
