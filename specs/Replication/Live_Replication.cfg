CONSTANT Resolvers <- EnvResolvers
CONSTANT Protos <- EnvProtos
CONSTANT DirSets <- EnvDirSets
CONSTANT Docs <- D1
CONSTANT MaxEdits = 2
CONSTANT MaxStops = 1
CONSTANT MaxReruns = 0
CONSTANT MaxSteps = 1000
CONSTANT MaxVer = 8
CONSTANT MaxSeq = 12
CONSTANT MaxGen = 7
CONSTANT NDig = 5
CONSTANT Canon = TRUE
CONSTANT InitPool <- MCPool
CONSTANT TrackHist = FALSE
SPECIFICATION LiveSpec
PROPERTY EventuallyConverged
CHECK_DEADLOCK FALSE
