--------------------------- MODULE MC_Replication ---------------------------
EXTENDS Replication, Json, IOUtils

CONSTANTS MaxGen, NDig
MCPool == [d \in Docs |-> {[g |-> g, x |-> x] : g \in 1..MaxGen, x \in 1..NDig}]
(* all six configurations are explored unless the environment restricts them (C06_PROTO = v3 | v4, C06_DIR = push | pull | pushAndPull) *)
EnvProtos == IF "C06_PROTO" \in DOMAIN IOEnv /\ IOEnv.C06_PROTO \in {"v3", "v4"} THEN {IOEnv.C06_PROTO} ELSE {"v3", "v4"}
EnvDirSets == IF "C06_DIR" \in DOMAIN IOEnv /\ IOEnv.C06_DIR \in {"push", "pull", "pushAndPull"}
              THEN (CASE IOEnv.C06_DIR = "push" -> {{"push"}} [] IOEnv.C06_DIR = "pull" -> {{"pull"}} [] OTHER -> {{"push", "pull"}})
              ELSE {{"push"}, {"pull"}, {"push", "pull"}}
EnvResolvers == IF "C06_RES" \in DOMAIN IOEnv /\ IOEnv.C06_RES \in {"default", "merge"} THEN {IOEnv.C06_RES} ELSE {"default", "merge"}
D1 == {1}
D2 == {1, 2}

(* the bounds of the model (generation pool, version range) are never what stops a step: an allowed environment write
   always finds an id / a version (and NotStarved: so does every conflict resolution) *)
PoolNotExhausted ==
  edits < MaxEdits => \A p \in Peers, d \in Docs :
       LET s == doc[p][d] IN
       IF proto = "v3"
       THEN /\ Cands(revs, d, s.cur, 99, FALSE, s.cur.g + 1) # {}
            /\ Cands(revs, d, s.cur, 0, TRUE, s.cur.g + 1) # {}
       ELSE VersFor(p, d) # {}

-----------------------------------------------------------------------------
(* Behaviour generation for PHASE REPLAY: environment steps, Start / Stop, and Wait.  While waiting, replication runs
   to quiescence under a deterministic scheduler and is not recorded, so every exported behaviour is a distinct
   environment-level history; the guards of the environment steps are evaluated on the model's document states. *)
Waiting == Len(hist) > 0 /\ hist[Len(hist)].a = "Wait"
LowMsg(x) == CHOOSE m \in msgs[x] : \A o \in msgs[x] : m.seq <= o.seq
Busy(x) == msgs[x] # {} \/ NextSeq(x) # 0
DetDir == IF "push" \in dirs /\ Busy("push") THEN "push" ELSE "pull"
DetRepl ==
  LET x == DetDir IN
  /\ x \in dirs /\ Busy(x)
  /\ IF msgs[x] # {}
     THEN LET m == LowMsg(x) IN
          CASE m.st = "offered" -> ImplAnswer(x, m)
            [] m.st = "wanted"  -> ImplSend(x, m)
            [] m.st = "sent"    -> ImplApply(x, m)
     ELSE ImplOffer(x)
  /\ GhostSync /\ GhostRepl /\ UNCHANGED hist
EndWait ==
  /\ Quiescent
  /\ ckpt' = cursor /\ UNCHANGED <<doc, revs, seq, dseq, running, cursor, msgs>>
  /\ out' = [a |-> "Checkpoint", d |-> 0, res |-> "None"]
  /\ GhostSync /\ GhostRepl /\ hist' = Append(hist, [a |-> "Synced", p |-> "", d |-> 0])
BeginWait == /\ running /\ ~Waiting /\ (Len(hist) = 0 \/ hist[Len(hist)].a # "Synced")
             /\ UNCHANGED <<impl, ghost>> /\ hist' = Append(hist, [a |-> "Wait", p |-> "", d |-> 0])
EnvP == \/ \E p \in Peers, d \in Docs, kind \in {"create", "update", "delete", "resurrect"} : Write(p, d, kind)
        \/ Start \/ Stop \/ BeginWait
PhaseNext ==
  /\ Len(hist) < MaxSteps
  /\ IF Waiting THEN (IF Quiescent THEN EndWait ELSE DetRepl) ELSE EnvP
PhaseSpec == Init /\ [][PhaseNext]_vars

(* Simulation: one successor per action KIND (FRAMEWORK.md, simulation bias): arguments are drawn with RandomElement *)
KindsFor(s) == IF ~Exists(s) THEN {"create"} ELSE IF s.del THEN {"resurrect"} ELSE {"update", "delete"}
SimWrite == LET p == RandomElement(Peers)
                d == RandomElement(Docs)
            IN Write(p, d, RandomElement(KindsFor(doc[p][d])))
SimEnv == \/ SimWrite \/ SimWrite \/ SimWrite \/ SimWrite
          \/ (IF running THEN BeginWait ELSE Start)
          \/ (IF running /\ edits > 0 THEN Stop ELSE Start)
SimNext ==
  /\ Len(hist) < MaxSteps
  /\ IF Waiting THEN (IF Quiescent THEN EndWait ELSE DetRepl) ELSE SimEnv
SimSpec == Init /\ [][SimNext]_vars

(* a behaviour is exported when it is full, or when nothing more can be added *)
Interesting == \E i \in 1..Len(hist) : hist[i].a = "Wait"
DirName == IF dirs = AllDirs THEN "pushAndPull" ELSE IF dirs = {"push"} THEN "push" ELSE "pull"
BehaviourExport ==
  (Len(hist) = MaxSteps /\ Interesting) =>
     PrintT(<<"BEH", ToJson([proto |-> proto, dir |-> DirName, res |-> resolver, steps |-> hist])>>)
=============================================================================
