CONSTANT Resolvers <- TResolvers
CONSTANT Protos <- TProtos
CONSTANT DirSets <- TDirSets
CONSTANT Docs <- D2
CONSTANT MaxEdits = 1000000
CONSTANT MaxStops = 1000000
CONSTANT MaxReruns = 1000000
CONSTANT MaxSteps = 1000000
CONSTANT MaxVer = 64
CONSTANT MaxSeq = 1000000
CONSTANT InitPool <- EmptyPool
CONSTANT Canon = FALSE
CONSTANT TrackHist = FALSE
SPECIFICATION CSpec
CONSTRAINT Progress
POSTCONDITION Accept
CHECK_DEADLOCK FALSE
INVARIANT ConvergedP
INVARIANT SingleWinnerP
INVARIANT IdempotentRerunP
INVARIANT EventuallyCaughtUpP
INVARIANT CurIsWinner
INVARIANT TypeOK
INVARIANT CkptSafe
INVARIANT SingleWinner
VIEW cview
