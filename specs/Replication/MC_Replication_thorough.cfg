CONSTANT Resolvers <- EnvResolvers
CONSTANT Protos <- EnvProtos
CONSTANT DirSets <- EnvDirSets
CONSTANT Docs <- D1
CONSTANT MaxEdits = 3
CONSTANT MaxStops = 1
CONSTANT MaxReruns = 1
CONSTANT MaxSteps = 1000
CONSTANT MaxVer = 8
CONSTANT MaxSeq = 12
CONSTANT MaxGen = 7
CONSTANT NDig = 5
CONSTANT Canon = TRUE
CONSTANT InitPool <- MCPool
CONSTANT TrackHist = FALSE
SPECIFICATION Spec
VIEW view
INVARIANT ConvergedModDev
INVARIANT SingleWinner
INVARIANT IdempotentRerun
INVARIANT TypeOK
INVARIANT CurIsWinner
INVARIANT CkptSafe
INVARIANT SeqBound
INVARIANT PoolNotExhausted
INVARIANT NotStarved
CHECK_DEADLOCK FALSE
