--------------------------- MODULE Replication ---------------------------
(* Inter-Sync-Gateway replication between an ACTIVE peer "A" and a PASSIVE peer "B" (DESIGN 4.6, decides C06).

   Anchors:  db/active_replicator_{push,pull}.go (changes feed since the checkpoint, continuous), db/blip_handler.go
   handleChanges (RevDiff / CheckChangeVersion) and processRev, db/blip_sync_context.go handleChangesResponse / sendRevision,
   db/crud.go PutExistingRevWithConflictResolution + IsIllegalConflict + resolveConflict (rev-tree protocol, "v3"),
   PutExistingCurrentVersion + IsInConflict + resolveHLVConflict (version-vector protocol, "v4"),
   db/sg_replicate_conflict_resolver.go DefaultConflictResolver, db/hybrid_logical_vector.go DefaultLWWConflictResolutionType.

   One replication with direction set dirs (push: A -> B, pull: B -> A).  Conflicts are only RESOLVED on the active peer
   (pull); the passive peer rejects a conflicting pushed revision with 409 (sendRevNoConflicts, no resolver).

   v3 state of a document on a peer: the set `tree` of revision ids it knows, `cur` the winning leaf, `body`, `del`.
     A revision id is [g, x]: generation and digest rank.  The digest is a function of (parent, body, deleted): `revs` is the
     content-addressed table id -> [par, body, del]; creating the same content twice yields the same id on both peers
     (two peers deleting the same revision produce the SAME tombstone id).  Fresh digests are drawn from `pool`.
   v4 state: current version [src, ver], merge versions mv (only with resolver = "merge"), previous versions pv,
     `body`, `del`.  (The rev tree that v4 keeps alongside is not modelled: under v4 the property identifies a revision by
     its current version; see NOTES.md.)

   Actions: environment Edit / Delete / Resurrect (p, d), Start / Stop, Rerun (a caught-up replication run again from
   sequence 0); replication per direction OfferChanges, AnswerKnown, SendRev, ApplyRev, Checkpoint.
   Impl* conjuncts define the implementation variables, Ghost* the history variables; Trace_Replication reuses them. *)
EXTENDS Integers, Sequences, FiniteSets, TLC

CONSTANTS Resolvers,   \* resolvers explored: subset of {"default", "merge"} (merge = custom resolver merging two live revisions; v4 only)
          Protos,      \* protocols explored: subset of {"v3", "v4"}
          DirSets,     \* direction sets explored: subset of {{"push"}, {"pull"}, {"push", "pull"}}
          Docs,        \* document ids (small naturals)
          MaxEdits,    \* bound on environment writes
          MaxStops,    \* bound on Stop
          MaxReruns,   \* bound on Rerun
          MaxSteps,    \* bound on the length of a behaviour (only when TrackHist)
          MaxVer,      \* v4: bound on version values
          MaxSeq,      \* bound on sequences (guard; SeqBound shows it is never the limiting factor)
          InitPool,    \* v3: [Docs -> set of revision ids [g, x] that may be generated]
          Canon,       \* v3, BOOLEAN: a fresh digest is placed just below or just above the digests in use at its generation
                       \* (digests only enter through pairwise order; halves the branching of the model) - FALSE when validating traces
          TrackHist    \* BOOLEAN: record the behaviour in hist (off for liveness checking)

Peers == {"A", "B"}
Src(dir) == IF dir = "push" THEN "A" ELSE "B"
Tgt(dir) == IF dir = "push" THEN "B" ELSE "A"
Other(p) == IF p = "A" THEN "B" ELSE "A"
AllDirs == {"push", "pull"}
Max(a, b) == IF a >= b THEN a ELSE b

NoRev == [g |-> 0, x |-> 0]
ZeroPV == [A |-> 0, B |-> 0]
Absent == [tree |-> {}, cur |-> NoRev, src |-> "", ver |-> 0, mv |-> ZeroPV, pv |-> ZeroPV, body |-> 0, del |-> FALSE]

VARIABLES
  proto,      \* configuration of this behaviour: "v3" (rev-tree protocol) | "v4" (version vectors)
  dirs,       \* configuration of this behaviour: the directions of the replication (subset of AllDirs)
  resolver,   \* configuration of this behaviour: conflict resolver of the active peer, "default" | "merge"
  doc,        \* impl: [Peers -> [Docs -> document state]]
  revs,       \* impl (v3): [Docs -> [revision id -> [par, body, del]]] - content addressed revision table
  pool,       \* configuration: [Docs -> set of revision ids that may be generated (v3); [g |-> 0, x |-> version] = a merge
              \* version that may be generated (v4, trace validation only)]
  seq,        \* impl: [Peers -> Nat] last sequence allocated on the peer
  dseq,       \* impl: [Peers -> [Docs -> Nat]] sequence of the document's last write on the peer (0 = never)
  running,    \* impl: the replication is running
  cursor,     \* impl: [AllDirs -> Nat] changes feed position of the direction's source
  ckpt,       \* impl: [AllDirs -> Nat] persisted checkpoint
  msgs,       \* impl: [AllDirs -> set of in-flight messages [st, d, seq, rv]]
  out,        \* impl: outcome of the last replication step [a, d, res]
  twrote,     \* ghost: [Peers -> [Docs -> BOOLEAN]] the environment wrote the document on that peer
  edits, stops, reruns,  \* ghost counters
  rerun,      \* ghost: a re-run of a caught-up replication is in progress
  snap,       \* ghost: doc when the re-run started
  sync,       \* ghost: the state is a caught-up point
  swapped,    \* ghost (v4): documents that went through the tombstone/tombstone adoption
  devd,       \* ghost: documents on which a named deviation (below) has been observed - not required to converge afterwards
  hist

impl  == <<doc, revs, seq, dseq, running, cursor, ckpt, msgs, out>>
ghost == <<proto, dirs, resolver, pool, twrote, edits, stops, reruns, rerun, snap, sync, swapped, devd>>
vars  == <<impl, ghost, hist>>
view  == <<impl, ghost>>

-----------------------------------------------------------------------------
(* ---- v3: revision trees ---- *)
IdsIn(R, d) == DOMAIN R[d]
InfoIn(R, d, r) == R[d][r]
Info(d, r) == revs[d][r]
RECURSIVE AncIn(_, _, _)
AncIn(R, d, r) == IF r = NoRev THEN {} ELSE {r} \cup AncIn(R, d, InfoIn(R, d, r).par)
Anc(d, r) == AncIn(revs, d, r)
LeavesIn(R, d, T) == {r \in T : ~\E c \in T : InfoIn(R, d, c).par = r}
(* RevTree.winningRevision: live leaves first, then generation, then digest *)
BetterIn(R, d, a, b) ==
  LET ia == InfoIn(R, d, a)
      ib == InfoIn(R, d, b)
  IN IF ia.del # ib.del THEN ~ia.del ELSE IF a.g # b.g THEN a.g > b.g ELSE a.x > b.x
WinnerIn(R, d, T) ==
  IF T = {} THEN NoRev
  ELSE LET L == LeavesIn(R, d, T) IN CHOOSE r \in L : \A o \in L : o = r \/ BetterIn(R, d, r, o)
(* compareRevIDs(a, b) >= 0 *)
RevGE(a, b) == a.g > b.g \/ (a.g = b.g /\ a.x >= b.x)
TopOf(S) == CHOOSE r \in S : \A o \in S : o.g <= r.g        \* newest element of a chain

(* ids a new revision with this content may get: the existing id if the content exists, else a fresh one from the pool *)
Cands(R, d, par, body, del, g) ==
  LET same == {i \in IdsIn(R, d) : /\ i.g = g /\ R[d][i].par = par /\ R[d][i].del = del
                                     /\ \/ R[d][i].body = body
                                        \/ ~Canon /\ (R[d][i].body = -1 \/ body = -1)}    \* recorded table: body never observed
      used == {i.x : i \in {j \in IdsIn(R, d) : j.g = g}}
      free == {r \in pool[d] : r.g = g /\ r.x \notin used}
      lo == CHOOSE x \in used : \A y \in used : x <= y
      hi == CHOOSE x \in used : \A y \in used : x >= y
  IN IF same # {} THEN same
     ELSE IF ~Canon THEN free
     ELSE IF used = {} THEN {r \in free : Cardinality({q \in free : q.x < r.x}) = Cardinality(free) \div 2}
     ELSE {r \in free : r.x = lo - 1 \/ r.x = hi + 1}
Add(R, d, id, par, body, del) == [R EXCEPT ![d] = (id :> [par |-> par, body |-> body, del |-> del]) @@ @]

(* chains of injected revisions from tip up to generation upto: set of [R, tip, added] *)
RECURSIVE Extend(_, _, _, _)
Extend(R, d, tip, upto) ==
  IF tip.g >= upto THEN {[R |-> R, tip |-> tip, added |-> {}]}
  ELSE UNION { {[R |-> e.R, tip |-> e.tip, added |-> e.added \cup {n}] : e \in Extend(Add(R, d, n, tip, -1, FALSE), d, n, upto)}
               : n \in Cands(R, d, tip, -1, FALSE, tip.g + 1) }

(* document state after its tree became T (table R) *)
TreeState(R, d, T) ==
  LET w == WinnerIn(R, d, T) IN
  [Absent EXCEPT !.tree = T, !.cur = w, !.body = InfoIn(R, d, w).body, !.del = InfoIn(R, d, w).del]

(* ---- v4: hybrid logical vectors (operators transcribed from specs/HLV, sources = the two peers).  Merge versions only
   arise with a merging (custom) resolver: resolver = "merge" ---- *)
Found(h, x) == x # "" /\ (x = h.src \/ h.mv[x] # 0 \/ h.pv[x] # 0)
Val(h, x) == IF x = h.src THEN h.ver ELSE IF h.mv[x] # 0 THEN h.mv[x] ELSE h.pv[x]        \* GetValue: cv, then mv, then pv
Dominates(h, x, v) == Found(h, x) /\ Val(h, x) >= v                                       \* DominatesSource
MaxForSource(h, x) == IF x = h.src THEN Max(h.ver, h.mv[x]) ELSE IF h.pv[x] # 0 THEN h.pv[x] ELSE h.mv[x]
(* InvalidateMV: every mv entry except the one sharing the cv source is written to pv *)
InvalidateMV(h) == [h EXCEPT !.pv = [x \in Peers |-> IF h.mv[x] # 0 /\ x # h.src THEN h.mv[x] ELSE h.pv[x]], !.mv = ZeroPV]
(* AddVersion(newCV = p@v), v above MaxForSource(h, p) *)
AddVersion(h, p, v) ==
  IF h.src = "" THEN [h EXCEPT !.src = p, !.ver = v]
  ELSE LET i == InvalidateMV(h) IN
       IF h.src = p THEN [i EXCEPT !.ver = v]
       ELSE [i EXCEPT !.src = p, !.ver = v, !.pv = [x \in Peers |-> IF x = p THEN 0 ELSE IF x = h.src THEN h.ver ELSE i.pv[x]]]
(* AddVersionToPV: outcome and effect *)
PVStatus(h, x, v) ==
  IF h.src = x THEN "sourceIsCV"
  ELSE IF h.mv[x] # 0 THEN (IF h.mv[x] >= v THEN "versionInMVNewer" ELSE "versionInMVOlder")
  ELSE IF h.pv[x] = 0 \/ h.pv[x] < v THEN "versionAddedToPV" ELSE "versionInPVNewer"
AddToPV(h, x, v) == IF PVStatus(h, x, v) = "versionAddedToPV" THEN [h EXCEPT !.pv[x] = v] ELSE h
AddAllToPV(h, m) == [h EXCEPT !.pv = [x \in Peers |-> IF m[x] # 0 /\ PVStatus(h, x, m[x]) = "versionAddedToPV" THEN m[x] ELSE h.pv[x]]]
(* UpdateHistory(h, inc): cv, mv (InvalidateMV when an incoming mv entry is newer than h's), pv - results of the cv / pv
   additions ignored as in the code (the C10 finding) *)
UpdateHistory(h, inc) ==
  LET h1 == IF inc.src # "" THEN AddToPV(h, inc.src, inc.ver) ELSE h
      inval == \E x \in Peers : inc.mv[x] # 0 /\ PVStatus(h1, x, inc.mv[x]) = "versionInMVOlder"
      h2 == AddAllToPV(IF inval THEN InvalidateMV(h1) ELSE h1, inc.mv)
  IN AddAllToPV(h2, inc.pv)
(* UpdateWithIncomingHLV(h := local, inc): inc.UpdateHistory(h); *h = *inc *)
UpdateWith(h, inc) == UpdateHistory(inc, h)
(* MergeWithIncomingHLV(newCV = p@v, inc) *)
MergeWith(h, p, v, inc) ==
  LET a == AddVersion(h, p, v)
      m1 == [a EXCEPT !.mv[inc.src] = inc.ver, !.pv[inc.src] = 0]
      m2 == [m1 EXCEPT !.mv[h.src] = h.ver, !.pv[h.src] = 0]
  IN UpdateHistory(m2, inc)
(* IsInConflict(local, incoming) *)
Classify(l, i) ==
  IF l.src = i.src /\ l.ver = i.ver THEN "AlreadyPresent"
  ELSE IF Dominates(i, l.src, l.ver) THEN "NoConflict"
  ELSE IF Dominates(l, i.src, i.ver) THEN "AlreadyPresent"
  ELSE IF i.mv # ZeroPV /\ l.mv # ZeroPV /\ i.mv = l.mv THEN "NoConflict"
  ELSE "Conflict"
MergeBody(a, b) == a * 100 + b          \* the harness's merge function: k = local.k * 100 + remote.k
HLVPart(s) == [src |-> s.src, ver |-> s.ver, mv |-> s.mv, pv |-> s.pv]
WithHLV(s, h) == [s EXCEPT !.src = h.src, !.ver = h.ver, !.mv = h.mv, !.pv = h.pv]

-----------------------------------------------------------------------------
Exists(s) == IF proto = "v3" THEN s.cur # NoRev ELSE s.src # ""
Id(s) == IF proto = "v3" THEN <<s.cur.g, s.cur.x>> ELSE <<s.src, s.ver>>
(* what a change entry / rev message carries: the revision as it is on the source when it is listed *)
Carried(s) == IF proto = "v3" THEN [Absent EXCEPT !.cur = s.cur, !.body = s.body, !.del = s.del]
              ELSE [s EXCEPT !.tree = {}, !.cur = NoRev]

(* ---- views and named deviations, over a document table D and a revision table R (used primed in GhostSync) ---- *)
SameViewIn(D, d) == LET a == D["A"][d]
                        b == D["B"][d]
                    IN Id(a) = Id(b) /\ a.body = b.body /\ a.del = b.del /\ Exists(a) = Exists(b)
(* named deviation (v4, genuine, reproduced - NOTES.md): when both peers hold a tombstone, each ADOPTS the other's vector
   (allowConflictingTombstone in PutExistingCurrentVersion); with push and pull crossing, the current versions swap and
   each side then reports the other's version as already known *)
CvSwapIn(D, d) == LET a == D["A"][d]
                      b == D["B"][d]
                  IN /\ proto = "v4" /\ a.del /\ b.del /\ Id(a) # Id(b)
                     /\ Dominates(a, b.src, b.ver) /\ Dominates(b, a.src, a.ver)
(* named deviation (v3, genuine, reproduced - NOTES.md): UNSENT TOMBSTONE.  The changes feed lists a document under its
   winning revision.  A peer that holds the tombstone t of (a descendant of) the other peer's CURRENT revision as a leaf
   that is NOT its own winner never offers t: its winner is another branch - a tombstone that wins by (generation, digest),
   e.g. the tombstone left on the branch that lost an earlier conflict, or a live revision adopted meanwhile - which the
   other peer already has or must reject (409).  The deletion does not replicate: one peer deleted and the other live,
   two different live revisions each of which the other side has tombstoned, or two tombstones under different ids. *)
UnsentTombAt(D, R, p, d) ==
  LET a == D[p][d]
      b == D[Other(p)][d]
  IN /\ proto = "v3" /\ Exists(a) /\ Exists(b)
     /\ \E t \in LeavesIn(R, d, a.tree) : /\ t # a.cur /\ InfoIn(R, d, t).del /\ t \notin b.tree
                                          /\ b.cur \in AncIn(R, d, t)
UnsentTombIn(D, R, d) == \E p \in Peers : UnsentTombAt(D, R, p, d)
DeviationIn(D, R, d) == CvSwapIn(D, d) \/ UnsentTombIn(D, R, d)


Bidirectional == dirs = AllDirs

Init ==
  /\ proto \in Protos /\ dirs \in DirSets /\ resolver \in Resolvers /\ (resolver = "merge" => proto = "v4")
  /\ doc = [p \in Peers |-> [d \in Docs |-> Absent]]
  /\ revs = [d \in Docs |-> <<>>] /\ seq = [p \in Peers |-> 0] /\ dseq = [p \in Peers |-> [d \in Docs |-> 0]]
  /\ running = FALSE /\ cursor = [x \in AllDirs |-> 0] /\ ckpt = [x \in AllDirs |-> 0] /\ msgs = [x \in AllDirs |-> {}]
  /\ out = [a |-> "None", d |-> 0, res |-> "None"]
  /\ twrote = [p \in Peers |-> [d \in Docs |-> FALSE]] /\ edits = 0 /\ stops = 0 /\ reruns = 0
  /\ rerun = FALSE /\ snap = doc /\ sync = FALSE /\ swapped = {} /\ devd = {} /\ pool = InitPool
  /\ hist = <<>>

NoMsgs == \A x \in dirs : msgs[x] = {}
CaughtUp(x) == \A d \in Docs : cursor[x] >= dseq[Src(x)][d]
Quiescent == running /\ NoMsgs /\ \A x \in dirs : CaughtUp(x)

(* a write of document d on peer p: allocate the next sequence *)
Bump(p, d) == /\ seq[p] < MaxSeq
              /\ seq' = [seq EXCEPT ![p] = @ + 1]
              /\ dseq' = [dseq EXCEPT ![p][d] = seq[p] + 1]

-----------------------------------------------------------------------------
(* ---- environment writes ---- *)
(* kind: "create" | "update" | "delete" | "resurrect";  REST PUT / DELETE with the current revision (allow_conflicts = false) *)
KindOK(s, kind) ==
  CASE kind = "create"    -> ~Exists(s)
    [] kind = "update"    -> Exists(s) /\ ~s.del
    [] kind = "delete"    -> Exists(s) /\ ~s.del
    [] kind = "resurrect" -> Exists(s) /\ s.del

ImplWriteV3(p, d, kind, body) ==
  LET s == doc[p][d]
      del == kind = "delete"
  IN \E id \in Cands(revs, d, s.cur, body, del, s.cur.g + 1) :
       LET R == Add(revs, d, id, s.cur, body, del) IN
       /\ revs' = R
       /\ doc' = [doc EXCEPT ![p][d] = TreeState(R, d, s.tree \cup {id})]

(* hlc.Now(floor): above the document's floor for the source and above everything the node generated before; a node whose
   clock is ahead generates above everything either node has generated *)
VersFor(p, d) ==
  LET floor == MaxForSource(doc[p][d], p)
      PD == Peers \X Docs
      own == {doc[z[1]][z[2]].ver : z \in {z \in PD : doc[z[1]][z[2]].src = p}} \cup {doc[q][e].pv[p] : q \in Peers, e \in Docs} \cup {doc[q][e].mv[p] : q \in Peers, e \in Docs} \cup {floor}
      all == {doc[q][e].ver : q \in Peers, e \in Docs} \cup {doc[q][e].pv[y] : q \in Peers, e \in Docs, y \in Peers} \cup {doc[q][e].mv[y] : q \in Peers, e \in Docs, y \in Peers} \cup {0}
      mo == CHOOSE m \in own : \A o \in own : o <= m
      ma == CHOOSE m \in all : \A o \in all : o <= m
  IN {v \in {mo + 1, ma + 1, ma} : v > mo /\ v <= MaxVer}
AllVers == {doc[q][e].ver : q \in Peers, e \in Docs} \cup {doc[q][e].pv[y] : q \in Peers, e \in Docs, y \in Peers}
           \cup {doc[q][e].mv[y] : q \in Peers, e \in Docs, y \in Peers} \cup {0}
ImplWriteV4(p, d, kind, body, v) ==
  LET s == doc[p][d] IN
  /\ v > MaxForSource(s, p)
  /\ revs' = revs
  /\ doc' = [doc EXCEPT ![p][d] = [WithHLV(s, AddVersion(HLVPart(s), p, v)) EXCEPT !.body = body, !.del = (kind = "delete")]]

ImplWrite(p, d, kind, body, v) ==
  /\ KindOK(doc[p][d], kind)
  /\ IF proto = "v3" THEN ImplWriteV3(p, d, kind, body) ELSE ImplWriteV4(p, d, kind, body, v)
  /\ Bump(p, d)
  /\ UNCHANGED <<running, cursor, ckpt, msgs>>
  /\ out' = [a |-> "Write", d |-> d, res |-> kind]

GhostSync == /\ UNCHANGED <<proto, dirs, resolver>>
             /\ sync' = (running' /\ (\A x \in dirs : msgs'[x] = {}) /\ \A x \in dirs : \A d \in Docs : cursor'[x] >= dseq'[Src(x)][d])
             /\ devd' = devd \cup {d \in Docs : DeviationIn(doc', revs', d)}
GhostWrite(p, d) ==
  /\ twrote' = [twrote EXCEPT ![p][d] = TRUE]
  /\ edits' = edits + 1
  /\ UNCHANGED <<pool, stops, reruns, rerun, snap, swapped>>

Step(a, p, d) == hist' = IF TrackHist THEN Append(hist, [a |-> a, p |-> p, d |-> d]) ELSE hist

Write(p, d, kind) ==
  /\ edits < MaxEdits /\ ~rerun
  /\ \E v \in (IF proto = "v4" THEN VersFor(p, d) ELSE {0}) :
       ImplWrite(p, d, kind, IF kind = "delete" THEN 0 ELSE edits + 1, v)
  /\ GhostWrite(p, d) /\ GhostSync
  /\ Step(CASE kind = "delete" -> "Delete" [] kind = "resurrect" -> "Resurrect" [] OTHER -> "Edit", p, d)

-----------------------------------------------------------------------------
(* ---- replication life cycle ---- *)
ImplStart == /\ ~running /\ running' = TRUE
             /\ cursor' = ckpt /\ msgs' = [x \in AllDirs |-> {}]
             /\ UNCHANGED <<doc, revs, seq, dseq, ckpt>>
             /\ out' = [a |-> "Start", d |-> 0, res |-> "None"]
ImplStop  == /\ running /\ running' = FALSE
             /\ msgs' = [x \in AllDirs |-> {}]              \* the connection is closed: in-flight messages are dropped
             /\ UNCHANGED <<doc, revs, seq, dseq, cursor, ckpt>>
             /\ out' = [a |-> "Stop", d |-> 0, res |-> "None"]
(* a caught-up replication run again from scratch (fresh replication id: no checkpoint) *)
ImplRerun == /\ Quiescent
             /\ cursor' = [x \in AllDirs |-> 0]
             /\ UNCHANGED <<doc, revs, seq, dseq, running, ckpt, msgs>>
             /\ out' = [a |-> "Rerun", d |-> 0, res |-> "None"]
GhostLife(a) ==
  /\ stops' = IF a = "Stop" THEN stops + 1 ELSE stops
  /\ reruns' = IF a = "Rerun" THEN reruns + 1 ELSE reruns
  /\ rerun' = (a = "Rerun")
  /\ snap' = IF a = "Rerun" THEN doc ELSE snap
  /\ UNCHANGED <<pool, twrote, edits, swapped>>

Start == ~rerun /\ ImplStart /\ GhostLife("Start") /\ GhostSync /\ Step("Start", "", 0)
Stop  == ~rerun /\ stops < MaxStops /\ ImplStop /\ GhostLife("Stop") /\ GhostSync /\ Step("Stop", "", 0)
Rerun == ~rerun /\ reruns < MaxReruns /\ ImplRerun /\ GhostLife("Rerun") /\ GhostSync /\ Step("Rerun", "", 0)

-----------------------------------------------------------------------------
(* ---- replication, direction x ---- *)
Pending(x) == {m.seq : m \in msgs[x]}
(* OfferChanges: the source lists the next change after the feed position (its current revision of that document) *)
NextSeq(x) == LET S == {n \in {dseq[Src(x)][d] : d \in Docs} : n > cursor[x]} IN
              IF S = {} THEN 0 ELSE CHOOSE n \in S : \A o \in S : n <= o
ImplOffer(x) ==
  /\ running /\ NextSeq(x) # 0
  /\ LET n == NextSeq(x)
         d == CHOOSE d \in Docs : dseq[Src(x)][d] = n
     IN /\ msgs' = [msgs EXCEPT ![x] = @ \cup {[st |-> "offered", d |-> d, seq |-> n, rv |-> Carried(doc[Src(x)][d])]}]
        /\ cursor' = [cursor EXCEPT ![x] = n]
        /\ out' = [a |-> "Offer", d |-> d, res |-> "None"]
  /\ UNCHANGED <<doc, revs, seq, dseq, running, ckpt>>

(* AnswerKnown: RevDiff (v3: the revision is in the target's tree) / CheckChangeVersion (v4: the target's vector dominates) *)
Known(t, m) ==
  LET s == doc[t][m.d] IN
  IF proto = "v3" THEN m.rv.cur \in s.tree ELSE Exists(s) /\ Dominates(s, m.rv.src, m.rv.ver)
ImplAnswer(x, m) ==
  /\ running /\ m \in msgs[x] /\ m.st = "offered"
  /\ IF Known(Tgt(x), m)
     THEN /\ msgs' = [msgs EXCEPT ![x] = @ \ {m}]
          /\ out' = [a |-> "Answer", d |-> m.d, res |-> "known"]
     ELSE /\ msgs' = [msgs EXCEPT ![x] = (@ \ {m}) \cup {[m EXCEPT !.st = "wanted"]}]
          /\ out' = [a |-> "Answer", d |-> m.d, res |-> "wanted"]
  /\ UNCHANGED <<doc, revs, seq, dseq, running, cursor, ckpt>>

(* SendRev: the source sends the revision it listed, with its ancestry / version history *)
ImplSend(x, m) ==
  /\ running /\ m \in msgs[x] /\ m.st = "wanted"
  /\ msgs' = [msgs EXCEPT ![x] = (@ \ {m}) \cup {[m EXCEPT !.st = "sent"]}]
  /\ out' = [a |-> "Send", d |-> m.d, res |-> "None"]
  /\ UNCHANGED <<doc, revs, seq, dseq, running, cursor, ckpt>>

(* ApplyRev v3: PutExistingRevWithConflictResolution on the target *)
ApplyV3(x, m) ==
  LET t == Tgt(x)
      d == m.d
      s == doc[t][d]
      T == s.tree
      r == m.rv.cur
      H == Anc(d, r)
      inc == Info(d, r)
      common == H \cap T
      par == IF common = {} THEN NoRev ELSE TopOf(common)
      cur == s.cur
      curDel == cur # NoRev /\ s.del
      bypass == inc.del /\ curDel                         \* ForceAllowConflictingTombstone && doc.IsDeleted()
      illegal == /\ ~bypass /\ cur # NoRev /\ par # cur   \* IsIllegalConflict, noConflicts = true
                 /\ IF inc.del THEN ~(par \in LeavesIn(revs, d, T) /\ ~Info(d, par).del)
                    ELSE IF curDel THEN common # {} ELSE TRUE
      localWins == IF curDel # inc.del THEN curDel ELSE RevGE(cur, r)      \* DefaultConflictResolver
      put(R, T2, res) == /\ revs' = R /\ doc' = [doc EXCEPT ![t][d] = TreeState(R, d, T2)]
                         /\ Bump(t, d) /\ out' = [a |-> "Apply", d |-> d, res |-> res]
      starve == /\ UNCHANGED <<doc, revs, seq, dseq>> /\ out' = [a |-> "Apply", d |-> d, res |-> "starved"]   \* model bound hit (NotStarved)
  IN IF r \in T THEN /\ UNCHANGED <<doc, revs, seq, dseq>> /\ out' = [a |-> "Apply", d |-> d, res |-> "known"]
     ELSE IF ~illegal THEN put(revs, T \cup H, IF bypass /\ cur # NoRev /\ par # cur THEN "tombstones" ELSE "forward")
     ELSE IF x = "push" THEN /\ UNCHANGED <<doc, revs, seq, dseq>> /\ out' = [a |-> "Apply", d |-> d, res |-> "rejected"]
     ELSE IF ~localWins
       THEN \* resolveDocRemoteWins: tombstone the local active revision (unless it is one), add the incoming branch
            IF curDel THEN put(revs, T \cup H, "remote")
            ELSE IF Cands(revs, d, cur, 0, TRUE, cur.g + 1) = {} THEN starve
            ELSE \E tb \in Cands(revs, d, cur, 0, TRUE, cur.g + 1) :
                   put(Add(revs, d, tb, cur, 0, TRUE), T \cup H \cup {tb}, "remote")
     ELSE IF ~curDel
       THEN \* resolveDocLocalWins: local body rewritten as a child of the remote revision, old local revision tombstoned
            IF Cands(revs, d, r, s.body, FALSE, r.g + 1) = {} THEN starve
            ELSE \E n \in Cands(revs, d, r, s.body, FALSE, r.g + 1) :
              LET R1 == Add(revs, d, n, r, s.body, FALSE) IN
              IF Cands(R1, d, cur, 0, TRUE, cur.g + 1) = {} THEN starve
              ELSE \E tb \in Cands(R1, d, cur, 0, TRUE, cur.g + 1) :
                put(Add(R1, d, tb, cur, 0, TRUE), T \cup H \cup {n, tb}, "local")
       ELSE \* local tombstone wins over a live remote revision: localWinsConflictResolutionRevTreeHandling injects empty
            \* revisions (body marker -1) into the remote branch up to the local generation, then tombstones it
            LET E == Extend(revs, d, r, cur.g) IN
            IF E = {} \/ \E e \in E : Cands(e.R, d, e.tip, 0, TRUE, e.tip.g + 1) = {} THEN starve
            ELSE \E e \in E : \E n \in Cands(e.R, d, e.tip, 0, TRUE, e.tip.g + 1) :
              put(Add(e.R, d, n, e.tip, 0, TRUE), T \cup H \cup e.added \cup {n}, "local")

(* ApplyRev v4: PutExistingCurrentVersion on the target *)
ApplyV4(x, m) ==
  LET t == Tgt(x)
      d == m.d
      s == doc[t][d]
      i == m.rv
      l == HLVPart(s)
      cls == Classify(l, HLVPart(i))
      take(h, body, del, res) == /\ doc' = [doc EXCEPT ![t][d] = [WithHLV(s, h) EXCEPT !.body = body, !.del = del]]
                                 /\ revs' = revs /\ Bump(t, d) /\ out' = [a |-> "Apply", d |-> d, res |-> res]
      skip(res) == /\ UNCHANGED <<doc, revs, seq, dseq>> /\ out' = [a |-> "Apply", d |-> d, res |-> res]
      localWins == IF s.del # i.del THEN s.del ELSE ~(i.ver > s.ver)       \* DefaultLWWConflictResolutionType
  IN IF ~Exists(s) THEN take(HLVPart(i), i.body, i.del, "forward")
     ELSE IF i.del /\ s.del THEN take(UpdateWith(l, HLVPart(i)), 0, TRUE, "tombstones")   \* allowConflictingTombstone: adopt the incoming vector
     ELSE IF cls = "AlreadyPresent" \/ (cls = "NoConflict" /\ l.src = i.src /\ l.ver = i.ver) THEN skip("known")
     ELSE IF cls = "NoConflict" THEN take(UpdateWith(l, HLVPart(i)), i.body, i.del, "forward")
     ELSE IF x = "push" THEN skip("rejected")
     ELSE IF resolver = "merge" /\ ~s.del /\ ~i.del
       THEN \* resolveDocMergeHLV: new version of the active peer above both vectors' floor, both former cvs become merge versions
            LET floor == Max(MaxForSource(l, t), MaxForSource(HLVPart(i), t))
                top == CHOOSE w \in AllVers : \A o \in AllVers : o <= w
                cand == IF Canon THEN {v \in {floor + 1, top + 1} : v <= MaxVer}
                        ELSE {r.x : r \in {q \in pool[d] : q.g = 0 /\ q.x > floor}} \cup {floor + 1}
                             \* recorded trace: a merge version it shows, or one it does not show (superseded before the next logged point)
            IN IF cand = {} THEN skip("starved")
               ELSE \E v \in cand : take(MergeWith(l, t, v, HLVPart(i)), MergeBody(s.body, i.body), FALSE, "merge")
     ELSE IF localWins THEN take(UpdateWith(HLVPart(i), l), s.body, s.del, "local")    \* resolveLocalWinsHLV
     ELSE take(UpdateWith(l, HLVPart(i)), i.body, i.del, "remote")                     \* resolveRemoteWinsHLV

ImplApply(x, m) ==
  /\ running /\ m \in msgs[x] /\ m.st = "sent"
  /\ msgs' = [msgs EXCEPT ![x] = @ \ {m}]
  /\ IF proto = "v3" THEN ApplyV3(x, m) ELSE ApplyV4(x, m)
  /\ UNCHANGED <<running, cursor, ckpt>>

(* Checkpoint: persist the safe position - everything listed up to it has been processed *)
SafeSeq(x) == IF msgs[x] = {} THEN cursor[x]
              ELSE LET lo == CHOOSE n \in Pending(x) : \A o \in Pending(x) : n <= o IN Max(ckpt[x], lo - 1)
ImplCheckpoint(x) ==
  /\ running /\ SafeSeq(x) > ckpt[x]
  /\ ckpt' = [ckpt EXCEPT ![x] = SafeSeq(x)]
  /\ UNCHANGED <<doc, revs, seq, dseq, running, cursor, msgs>>
  /\ out' = [a |-> "Checkpoint", d |-> 0, res |-> "None"]

GhostRepl ==
  /\ rerun' = (rerun /\ ~sync')
  /\ swapped' = IF proto = "v4" /\ out'.a = "Apply" /\ out'.res = "tombstones" THEN swapped \cup {out'.d} ELSE swapped
  /\ UNCHANGED <<pool, twrote, edits, stops, reruns, snap>>

Offer(x)      == x \in dirs /\ ImplOffer(x) /\ GhostSync /\ GhostRepl /\ Step("Offer", x, 0)
Answer(x, m)  == x \in dirs /\ ImplAnswer(x, m) /\ GhostSync /\ GhostRepl /\ Step("Answer", x, m.d)
Send(x, m)    == x \in dirs /\ ImplSend(x, m) /\ GhostSync /\ GhostRepl /\ Step("Send", x, m.d)
Apply(x, m)   == x \in dirs /\ ImplApply(x, m) /\ GhostSync /\ GhostRepl /\ Step("Apply", x, m.d)
Checkpoint(x) == x \in dirs /\ ImplCheckpoint(x) /\ GhostSync /\ GhostRepl /\ Step("Checkpoint", x, 0)

Repl == \E x \in dirs : \/ Offer(x) \/ Checkpoint(x)
                        \/ \E m \in msgs[x] : Answer(x, m) \/ Send(x, m) \/ Apply(x, m)
Env == \/ \E p \in Peers, d \in Docs, kind \in {"create", "update", "delete", "resurrect"} : Write(p, d, kind)
       \/ Start \/ Stop \/ Rerun

Next == (TrackHist => Len(hist) < MaxSteps) /\ (Env \/ Repl)
Spec == Init /\ [][Next]_vars
(* fairness: every replication step, and a stopped replication is started again *)
Fair == /\ \A x \in AllDirs : WF_vars(Offer(x)) /\ WF_vars(\E m \in msgs[x] : Answer(x, m) \/ Send(x, m) \/ Apply(x, m))
        /\ WF_vars(Start)
LiveSpec == Spec /\ Fair

-----------------------------------------------------------------------------
(* C06 *)
SameView(d) == SameViewIn(doc, d)
CvSwap(d) == CvSwapIn(doc, d)
UnsentTomb(d) == UnsentTombIn(doc, revs, d)
Deviation(d) == DeviationIn(doc, revs, d)
(* where convergence is promised: bidirectional - every document; one direction only - the documents the environment never
   wrote on the TARGET side (a target-side edit is invisible to the source: a conflicting push is rejected, a resolved pull
   that the local revision wins is not sent back) *)
Promised(d) == Bidirectional \/ \A x \in dirs : ~twrote[Tgt(x)][d]
Converged == sync => \A d \in Docs : Promised(d) => SameView(d)
ConvergedModDev == sync => \A d \in Docs : Promised(d) => (SameView(d) \/ d \in devd)
(* a resolved conflict leaves one live revision at most on each peer (and by Converged both adopt the same one) *)
LiveLeaves(p, d) == {r \in LeavesIn(revs, d, doc[p][d].tree) : ~Info(d, r).del}
SingleWinner == proto = "v3" => \A p \in Peers, d \in Docs : Cardinality(LiveLeaves(p, d)) <= 1
(* re-running a caught-up replication transfers no revisions: nothing is requested for a document on which the peers
   agree, nothing is ever requested by a pull (what the source lists is known to the target, whoever wrote last), and no
   document changes.  Excused: push only, a document the environment wrote on the target side - the target may have changed
   since the source's revision was rejected (409), and the re-run, which lists everything again, may then deliver it. *)
RerunExcused(d) == d \in devd \/ (dirs = {"push"} /\ twrote["B"][d])
IdempotentRerun ==
  rerun => /\ \A p \in Peers, d \in Docs : ~RerunExcused(d) => doc[p][d] = snap[p][d]
           /\ \A x \in dirs : \A m \in msgs[x] : m.st \in {"wanted", "sent"} =>
                 (x = "pull" => m.d \in devd) /\ ~(Promised(m.d) /\ SameView(m.d))
(* liveness: edits stop => eventually always converged (push-and-pull) *)
AllSame == \A d \in Docs : SameView(d) \/ d \in devd
EventuallyConverged == <>[](AllSame)

(* auxiliary *)
TypeOK == /\ \A p \in Peers, d \in Docs : doc[p][d].tree \subseteq IdsIn(revs, d)
          /\ \A x \in dirs : ckpt[x] <= cursor[x] \/ ~running \/ rerun
CurIsWinner == proto = "v3" => \A p \in Peers, d \in Docs : doc[p][d].cur = WinnerIn(revs, d, doc[p][d].tree)
NotStarved == out.res # "starved"
SeqBound == \A p \in Peers : seq[p] < MaxSeq
CkptSafe == rerun \/ \A x \in dirs : \A m \in msgs[x] : ckpt[x] < m.seq
=============================================================================
