CONSTANT Resolvers <- EnvResolvers
CONSTANT Protos <- EnvProtos
CONSTANT DirSets <- EnvDirSets
CONSTANT Docs <- D2
CONSTANT MaxEdits = 8
CONSTANT MaxStops = 2
CONSTANT MaxReruns = 0
CONSTANT MaxSteps = 14
CONSTANT MaxVer = 30
CONSTANT MaxSeq = 60
CONSTANT MaxGen = 12
CONSTANT NDig = 9
CONSTANT InitPool <- MCPool
CONSTANT Canon = TRUE
CONSTANT TrackHist = TRUE
SPECIFICATION SimSpec
INVARIANT BehaviourExport
CHECK_DEADLOCK FALSE
