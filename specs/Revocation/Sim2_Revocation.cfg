CONSTANT N = 20
CONSTANT Users <- U1
CONSTANT Roles <- R1
CONSTANT Chans <- ChAB
CONSTANT Docs <- D2
CONSTANT Puller = "u1"
CONSTANT UserMenu <- UMr2
CONSTANT RoleMenu <- RMa
CONSTANT DocMenu <- DMg2
CONSTANT Lims <- L012
CONSTANT MaxSteps = 10
CONSTANT Thin = 1
CONSTANT KeepRoleHist = FALSE
CONSTANT PageGap = TRUE
SPECIFICATION SimSpec
INVARIANT SimExport
CHECK_DEADLOCK FALSE
