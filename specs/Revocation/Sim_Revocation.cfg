CONSTANT N = 20
CONSTANT Users <- U2
CONSTANT Roles <- R2
CONSTANT Chans <- ChABC
CONSTANT Docs <- D3
CONSTANT Puller = "u1"
CONSTANT UserMenu <- UMs
CONSTANT RoleMenu <- RMs
CONSTANT DocMenu <- DMs
CONSTANT Lims <- L012
CONSTANT MaxSteps = 12
CONSTANT Thin = 1
CONSTANT KeepRoleHist = FALSE
CONSTANT PageGap = TRUE
SPECIFICATION SimSpec
INVARIANT SimExport
CHECK_DEADLOCK FALSE
