CONSTANT N = 10
CONSTANT Users <- U1
CONSTANT Roles <- R1
CONSTANT Chans <- ChA
CONSTANT Docs <- D1
CONSTANT Puller = "u1"
CONSTANT UserMenu <- UMr
CONSTANT RoleMenu <- RMa
CONSTANT DocMenu <- DMr
CONSTANT Lims <- L0
CONSTANT MaxSteps = 8
CONSTANT Thin = 6
CONSTANT KeepRoleHist = FALSE
CONSTANT PageGap = FALSE
SPECIFICATION Spec
VIEW view
INVARIANT TypeOK
INVARIANT StoredMatchesInputs
INVARIANT AccessMatches
INVARIANT OrderedRows
INVARIANT RevokedUnfetchable
INVARIANT NoSpuriousRevoke
INVARIANT ReplicaExactM
INVARIANT NoSilentDropM
INVARIANT CandExport
INVARIANT NontrivExport
CHECK_DEADLOCK FALSE
