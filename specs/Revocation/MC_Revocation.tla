--------------------------- MODULE MC_Revocation ---------------------------
EXTENDS Revocation, Json

CONSTANT Thin      \* exports of the model-checking runs print one state in Thin (deterministic thinning; 1 = all)

(* grant tables: G(a, r) with a = set of <<principal, channel>>, r = set of <<user, role>> *)
G(a, r) == [acc  |-> [p \in Princ |-> {x[2] : x \in {y \in a : y[1] = p}}],
            racc |-> [u \in Users |-> {x[2] : x \in {y \in r : y[1] = u}}]]
UM(cs, rs) == [cs |-> cs, rs |-> rs]
DM(d, cs, g) == [d |-> d, cs |-> cs, g |-> g]

U1 == {"u1"}
U2 == {"u1", "u2"}
R0 == {}
R1 == {"r1"}
R2 == {"r1", "r2"}
ChA == {"A"}
ChAB == {"A", "B"}
ChABC == {"A", "B", "C"}
D1 == {"d1"}
D2 == {"d1", "d2"}
D3 == {"d1", "d2", "d3"}
L0 == {0}
L01 == {0, 1}
L012 == {0, 1, 2}

(* ---- stage 1: admin grants to the user + document moves / deletes ---- *)
UMa == {UM({}, {}), UM({"A"}, {}), UM({"B"}, {})}
UMab == {UM({}, {}), UM({"A"}, {}), UM({"A", "B"}, {})}
RM0 == {{}}
DMa1 == {DM("d1", {}, G({}, {})), DM("d1", {"A"}, G({}, {})), DM("d1", {"B"}, G({}, {}))}
DMa2 == DMa1 \cup {DM("d2", {"A"}, G({}, {})), DM("d2", {"A", "B"}, G({}, {}))}

(* ---- stage 2: one role: assignment, role channels, role deletion / re-creation ---- *)
UMr == {UM({}, {}), UM({}, {"r1"}), UM({"A"}, {"r1"})}
RMa == {{}, {"A"}}
DMr == {DM("d1", {}, G({}, {})), DM("d1", {"A"}, G({}, {}))}

(* ---- stage 3: sync-function grants: d2 is the granting document (channel grants and role membership) ---- *)
UMg == {UM({}, {}), UM({"A"}, {})}
DMg == {DM("d1", {"A"}, G({}, {})), DM("d1", {"B"}, G({}, {})),
        DM("d2", {}, G({}, {})), DM("d2", {}, G({<<"u1", "A">>}, {})), DM("d2", {}, G({<<"r1", "A">>}, {<<"u1", "r1">>}))}

(* ---- directed family "paged revocation" (PagedSpec): exhaustively generated and model-checked ----
   setup     access to A through a role (r1{A}, u1{B}+r1), directly (u1{A,B}), or both (r1{A}, u1{A,B}+r1); B is kept throughout
   documents d1, d2, d3 written in this order, all in A, at most one of them also in the kept channel B
   pull      Page(0): the client holds everything
   revoke    one or two DISTINCT actions of: role loses A | user loses the role | user loses direct A | role deleted |
             deleted role created again
             (so: channel removed from the role THEN role removed from the user, and every other order / overlap), then
             optionally d3 is written again (a document changed after the revocation)
   pull      pages with one fixed limit out of {0, 1, 2} until the pull completes: every page boundary inside the revocation,
             resumed from the compound token each time.  The binding runs this family with a channel query page of 2, so limit 0
             pages the revoked channel inside the gateway as well. *)
PageCount == Cardinality({i \in 1..Len(hist) : hist[i].a = "Page"})
AfterPull == {i \in 1..Len(hist) : hist[i].a # "Page" /\ \E j \in 1..(i - 1) : hist[j].a = "Page"}   \* actions since the first pull
Touched   == docs["d3"].rev > 1
DocOrd    == [d \in {"d1", "d2", "d3"} |-> CASE d = "d1" -> 1 [] d = "d2" -> 2 [] d = "d3" -> 3]
KeptCount == Cardinality({d \in Docs : "B" \in docs[d].chans})
PSetup ==
  \/ (~pr["u1"].ex /\ ~pr["r1"].ex /\ (AdminPut("r1", {"A"}, {}) \/ AdminPut("u1", {"A", "B"}, {})))
  \/ (~pr["u1"].ex /\ pr["r1"].ex /\ \E cs \in {{"B"}, {"A", "B"}} : AdminPut("u1", cs, {"r1"}))
NextDoc(d) == docs[d].seq = 0 /\ (\A e \in Docs : (DocOrd[e] < DocOrd[d]) => docs[e].seq > 0)      \* in name order
PDocs ==
  /\ pr["u1"].ex
  /\ \E d \in Docs : NextDoc(d) /\ (DocPut(d, {"A"}, NoG) \/ (KeptCount = 0 /\ DocPut(d, {"A", "B"}, NoG)))
PRevoke ==
  /\ PageCount = 1 /\ ~Touched /\ Cardinality(AfterPull) < 2
  /\ \/ (Live(pr, "r1") /\ pr["r1"].expl["A"] > 0 /\ AdminPut("r1", {}, {}))
     \/ (pr["u1"].rexpl["r1"] > 0 /\ AdminPut("u1", Keys(pr["u1"].expl), {}))
     \/ (pr["u1"].expl["A"] > 0 /\ AdminPut("u1", {"B"}, Keys(pr["u1"].rexpl)))
     \/ RoleDel("r1")
     \/ (pr["r1"].ex /\ pr["r1"].del /\ AdminPut("r1", {}, {}))            \* the deleted role is created again (without channels)
PTouch == PageCount = 1 /\ ~Touched /\ AfterPull # {} /\ DocPut("d3", docs["d3"].chans, NoG)
PPages ==
  \/ (PageCount = 0 /\ \A d \in Docs : docs[d].seq > 0) /\ Page(0)
  \/ (PageCount = 1 /\ AfterPull # {} /\ \E lim \in {0, 1, 2} : Page(lim))
  \/ (PageCount > 1 /\ InPull /\ Page(out.lim))
PagedNext == Len(hist) < MaxSteps /\ (PSetup \/ PDocs \/ PRevoke \/ PTouch \/ PPages)
PagedSpec == Init /\ [][PagedNext]_vars
PagedExport == (PageCount > 1 /\ out.on /\ out.done) => PrintT(<<"BEH", ToJson(hist)>>)
PagedBounded == Len(hist) < MaxSteps          \* the family must end by itself (a completed second pull), never by the step bound

(* ---- directed family "paged grant" (GrantSpec): a second access change lands BETWEEN two pages of a grant back-fill ----
   setup     u1 with no channels; d1, d2, d3 written in this order, each in A or in B; Page(0) (nothing but the user row)
   grant     u1 {A}: the next pull back-fills A
   pull      pages with one fixed limit of {1, 2}; after ANY page of that pull (every page boundary, also after its last one)
             exactly one more access change: B granted too ({A,B}), A swapped for B ({B}), or A revoked ({});
             then paging continues (same limit) until a pull completes *)
LastIs(a)  == Len(hist) > 0 /\ hist[Len(hist)].a = a
LastLim    == hist[CHOOSE i \in 1..Len(hist) : hist[i].a = "Page" /\ \A j \in (i + 1)..Len(hist) : hist[j].a # "Page"].lim
Changes2   == Cardinality({i \in 1..Len(hist) : hist[i].a = "AdminPut"})      \* 1 = created, 2 = A granted, 3 = the change between pages
GSetup  == ~pr["u1"].ex /\ AdminPut("u1", {}, {})
GDocs   == pr["u1"].ex /\ \E d \in Docs : NextDoc(d) /\ (DocPut(d, {"A"}, NoG) \/ DocPut(d, {"B"}, NoG))
GGrantA == PageCount = 1 /\ Changes2 = 1 /\ AdminPut("u1", {"A"}, {})
GChange == PageCount > 1 /\ Changes2 = 2 /\ LastIs("Page") /\ \E cs \in {{"A", "B"}, {"B"}, {}} : AdminPut("u1", cs, {})
GPages  ==
  \/ (PageCount = 0 /\ \A d \in Docs : docs[d].seq > 0) /\ Page(0)
  \/ (PageCount = 1 /\ Changes2 = 2 /\ \E lim \in {1, 2} : Page(lim))
  \/ (PageCount > 1 /\ InPull /\ Page(out.lim))
  \/ (PageCount > 1 /\ Changes2 = 3 /\ LastIs("AdminPut") /\ Page(LastLim))
GrantNext == Len(hist) < MaxSteps /\ (GSetup \/ GDocs \/ GGrantA \/ GChange \/ GPages)
GrantSpec == Init /\ [][GrantNext]_vars
GrantExport == (Changes2 = 3 /\ out.on /\ out.done) => PrintT(<<"BEH", ToJson(hist)>>)

(* ---- small simulation universe: one role, two channels, two documents (d2 also grants) ---- *)
UMr2 == {UM({}, {}), UM({}, {"r1"}), UM({"A"}, {}), UM({"B"}, {"r1"})}
DMg2 == {DM("d1", {}, G({}, {})), DM("d1", {"A"}, G({}, {})), DM("d1", {"B"}, G({}, {})), DM("d1", {"A", "B"}, G({}, {})),
         DM("d2", {"A"}, G({}, {})), DM("d2", {"B"}, G({<<"u1", "A">>}, {})), DM("d2", {}, G({<<"r1", "A">>}, {<<"u1", "r1">>})),
         DM("d2", {"B"}, G({<<"r1", "B">>}, {}))}

(* ---- simulation: everything ---- *)
UMs == {UM({}, {}), UM({"A"}, {}), UM({"B"}, {"r1"}), UM({}, {"r1", "r2"}), UM({"A", "C"}, {"r2"}), UM({}, {"r1"})}
RMs == {{}, {"A"}, {"B"}, {"A", "C"}}
GMs == {G({}, {}), G({<<"u1", "A">>}, {}), G({<<"u1", "B">>, <<"u2", "A">>}, {}), G({<<"r1", "A">>}, {<<"u1", "r1">>}),
        G({<<"r2", "C">>}, {<<"u1", "r2">>, <<"u2", "r1">>}), G({}, {<<"u1", "r1">>})}
CSs == {{}, {"A"}, {"B"}, {"C"}, {"A", "B"}}
DMs == {DM(d, cs, G({}, {})) : d \in {"d1", "d2"}, cs \in CSs} \cup {DM("d3", cs, g) : cs \in {{}, {"C"}}, g \in GMs}

(* Simulation: TLC picks uniformly among SUCCESSOR STATES; SimNext draws the arguments with RandomElement so that each
   action KIND yields one successor (document writes and pages doubled). *)
Pick(S) == {RandomElement(S)}
LiveRoles == {r \in Roles : Live(pr, r)}
LiveDocs  == {d \in Docs : docs[d].seq > 0 /\ ~docs[d].del}
Loadable  == {p \in Princ : NeedsLoad(p)}
SimDocPut == \E m \in Pick(DocMenu) : DocPut(m.d, m.cs, m.g)
SimPage   == \E lim \in Pick(Lims) : Page(lim)
SimNext ==
  /\ Len(hist) < MaxSteps
  /\ \/ \E m \in Pick(UserMenu) : AdminPut(Puller, m.cs, m.rs)
     \/ \E u \in Pick(Users), m \in Pick(UserMenu) : AdminPut(u, m.cs, m.rs)
     \/ (Roles # {} /\ \E r \in Pick(Roles), cs \in Pick(RoleMenu) : AdminPut(r, cs, {}))
     \/ (LiveRoles # {} /\ \E r \in Pick(LiveRoles) : RoleDel(r))
     \/ SimDocPut \/ SimDocPut
     \/ (LiveDocs # {} /\ \E d \in Pick(LiveDocs) : DocDel(d))
     \/ (Loadable # {} /\ \E p \in Pick(Loadable) : Load(p))
     \/ SimPage \/ SimPage \/ SimPage
SimSpec == Init /\ [][SimNext]_vars

PropertyHolds == ReplicaExact /\ NoSilentDrop /\ RevokedUnfetchable /\ NoSpuriousRevoke
BehaviourExport == (Len(hist) = MaxSteps) => PrintT(<<"BEH", ToJson(hist)>>)
(* -simulate evaluates invariants on every successor of the states of a trace: export only behaviours that end in a completed pull *)
SimExport == (Len(hist) = MaxSteps /\ out.on /\ out.done) => PrintT(<<"BEH", ToJson(hist)>>)
(* behaviours (one per distinct state, the model checker's VIEW) whose last step is a page that completed a pull and delivered a
   revoked / removed / deleted row or a grant back-fill row to a client that had pulled before *)
Interesting(r) == r.id # UserRow /\ (Drop(r) \/ r.tok.t > 0)
Resumed == \E i \in 1..(Len(hist) - 1) : hist[i].a = "Page"          \* not the client's first request
ThinOK == (seq * 7 + since.s * 3 + since.t + Len(out.rows) + Len(hist)) % Thin = 0
NontrivExport == (out.on /\ out.done /\ Resumed /\ ThinOK /\ \E i \in 1..Len(out.rows) : Interesting(out.rows[i])) => PrintT(<<"BEH", ToJson(hist)>>)
(* candidates: behaviours of the model (= transcription of the implemented algorithm) that break the property *)
CandExport == (out.on /\ ~PropertyHolds /\ (Len(hist) < MaxSteps \/ ThinOK)) => PrintT(<<"CAND", ToJson(hist)>>)
=============================================================================
