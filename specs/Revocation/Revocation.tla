------------------------------ MODULE Revocation ------------------------------
(* A pulling client's copy always matches the user's current access (C13, DESIGN 4.13).
   = access state with grant HISTORY (auth/auth.go calculateHistory, rebuild*; db/users.go UpdatePrincipal / DeleteRole;
     db/crud.go MarkPrincipalsChanged) + documents with channel-set history (db/document.go updateChannels / updateAccess)
   + the changes feed with revocations (db/changes.go SimpleMultiChangesFeed, changesFeed, buildRevokedFeed,
     wasDocInChannelPriorToRevocation, UserHasDocAccess; auth/user.go RevokedCollectionChannels,
     CollectionChannelGrantedPeriods) + a protocol-following pull client.

   Actions (each atomic: no principal recomputation overlaps a write - that is C03's recorded finding):
     AdminPut(p,cs,rs)  UpdatePrincipal: load p (rebuild what is invalid, which writes grant history), then - only if
                        the explicit sets differ - allocate a sequence, UpdateAtSequence, invalidate at that sequence.
                        A missing principal, or a role that was deleted, is created afresh (New*NoChannels).
     RoleDel(r)         DeleteRole: load, allocate a sequence, mark deleted, history for every channel, invalidate
     DocPut(d,cs,g)     new revision with channels cs and grants g (sync function channel()/access()/role());
                        on a tombstone: resurrection.   DocDel(d): tombstone (all channels removed, all grants dropped)
     Load(p)            getPrincipal by anyone (rebuild channels / roles if invalidated; writes history)
     Page(lim)          ONE changes request of the puller with revocations enabled, since = the token it last received
                        (as rendered and parsed: Norm), limit lim; every row is applied by the client model:
                        revoked \/ all-removed \/ deleted -> drop, else fetch the current revision as the user
                        (refused -> unchanged).  A page with fewer rows than its limit (or no limit) completes the pull.
   Impl* conjuncts define the implementation variables (seq, pr, docs, replica, since, out), Ghost* the ground truth
   (gp, gd from the inputs and the REAL current revision) and the pull bookkeeping; Trace_Revocation reuses them. *)
EXTENDS SeqToken, TLC

CONSTANTS Users, Roles, Chans, Docs,    \* finite sets of strings
          Puller,                       \* the pulling user
          UserMenu,                     \* set of [cs, rs]: what an admin may assign to a user
          RoleMenu,                     \* set of channel sets an admin may assign to a role
          DocMenu,                      \* set of [d, cs, g]: what a document write may carry
          Lims,                         \* page limits (0 = none)
          MaxSteps,
          PageGap,                      \* BOOLEAN: other actions may happen between the pages of one pull
          KeepRoleHist                  \* BOOLEAN: a role created again after deletion keeps its channel history (auth.NewRoleNoChannels copies
                                        \*          ChannelHistory() = the DEFAULT collection's; a named collection's history is dropped)

Princ == Users \cup Roles
Inf   == 1000000
UserRow == "_user"

Max2(a, b) == IF a > b THEN a ELSE b
Min2(a, b) == IF a < b THEN a ELSE b
MaxOf(S)   == IF S = {} THEN 0 ELSE CHOOSE x \in S : \A y \in S : y <= x
MinPos(S)  == LET P == {x \in S : x > 0} IN IF P = {} THEN 0 ELSE CHOOSE x \in P : \A y \in P : x <= y
Keys(f)    == {x \in DOMAIN f : f[x] > 0}
NoTS(S)    == [x \in S |-> 0]

NoRm == [seq |-> 0, rev |-> 0, del |-> FALSE]
NoG  == [acc |-> [p \in Princ |-> {}], racc |-> [u \in Users |-> {}]]
NoP  == [ex |-> FALSE, del |-> FALSE, useq |-> 0,
         expl |-> NoTS(Chans), chs |-> NoTS(Chans), cinv |-> 0, chist |-> [c \in Chans |-> {}],
         rexpl |-> NoTS(Roles), rls |-> NoTS(Roles), rinv |-> 0, rhist |-> [r \in Roles |-> {}]]
NoD  == [seq |-> 0, rev |-> 0, del |-> FALSE, chans |-> {}, cmap |-> [c \in Chans |-> NoRm], cset |-> {},
         acc |-> [p \in Princ |-> NoTS(Chans)], racc |-> [u \in Users |-> NoTS(Roles)]]
NoGD == [rev |-> 0, del |-> FALSE, chans |-> {}, g |-> NoG]
NoGP == [ex |-> FALSE, del |-> FALSE, chans |-> {}, roles |-> {}]
NoOut == [on |-> FALSE, done |-> FALSE, lim |-> 0, rows |-> <<>>, probes |-> {}]

VARIABLES
  seq,      \* impl : last allocated sequence (_sync:seq); starts at 1 (the public channel's grant sequence)
  pr,       \* impl : principal documents [Princ -> [ex, del, useq, expl, chs, cinv, chist, rexpl, rls, rinv, rhist]]  (REAL in traces)
  docs,     \* impl : sync metadata per document [seq, rev, del, chans, cmap, cset, acc, racc]                       (REAL in traces)
  replica,  \* client: [Docs -> revision held, 0 = none]                                                            (REAL)
  since,    \* client: last token received, normal form (what its string form parses to)                            (REAL)
  out,      \* what the last Page returned (rows, probes, completion); NoOut after any other action                 (REAL)
  gp,       \* ghost: admin inputs  [Princ -> [ex, del, chans, roles]]
  gd,       \* ghost: per document  [rev (the REAL current revision), del, chans, g] from the inputs
  visPrev,  \* ghost: documents visible to the puller at the previous completed pull
  ann,      \* ghost: documents announced by a removed / revoked / deleted row during the pull in progress
  silent,   \* ghost: documents that left the visible set since the previous completed pull without announcement (set at completion)
  bad,      \* ghost: documents on which the replica differs from the ground truth (set at completion)
  dev,      \* ghost: [Docs -> named deviation under which a row of the document was lost in some page, "" = none]; classification
            \*        only - computed from the gateway's own state with the transcribed feed (see "Named deviations" below)
  amnesia,  \* ghost: channels whose grant history was dropped when a deleted role was created again (RecreatedRoleLosesHistory)
  late,     \* ghost: channels a role held through granting documents before it was created (RoleCreatedAfterGrant: the grant
            \*        keeps the document's old sequence, so nothing is back-filled when the role comes into existence)
  hist
impl  == <<seq, pr, docs, replica, since, out>>
ghost == <<gp, gd, visPrev, ann, silent, bad, dev, amnesia, late>>
vars  == <<impl, ghost, hist>>
view  == <<impl, ghost>>

-----------------------------------------------------------------------------
(* TimedSets: functions name -> sequence, 0 = absent.  channels/timed_set.go *)
Merge(f, g)        == [x \in DOMAIN f |-> MinPos({f[x], g[x]})]                      \* Add: the earlier sequence wins
UpdateAt(f, S, n)  == [x \in DOMAIN f |-> IF x \in S THEN (IF f[x] > 0 THEN f[x] ELSE n) ELSE 0]   \* UpdateAtSequence
(* calculateHistory: every invalidated grant that is not in the new set gets a period [since, invalidation sequence] *)
CalcHist(h, old, new, inv) == [x \in DOMAIN h |-> IF old[x] > 0 /\ new[x] = 0 THEN h[x] \cup {<<old[x], inv>>} ELSE h[x]]

(* the access / role_access queries over the stored maps *)
ViewChans(D, p) == [c \in Chans |-> MinPos({D[d].acc[p][c] : d \in Docs})]
ViewRoles(D, u) == [r \in Roles |-> MinPos({D[d].racc[u][r] : d \in Docs})]

RebuildC(P, D, p) ==
  LET new == Merge(P.expl, ViewChans(D, p)) IN
  [P EXCEPT !.chs = new, !.cinv = 0, !.chist = CalcHist(P.chist, P.chs, new, P.cinv)]
RebuildR(P, D, u) ==
  LET new == Merge(P.rexpl, ViewRoles(D, u)) IN
  [P EXCEPT !.rls = new, !.rinv = 0, !.rhist = CalcHist(P.rhist, P.rls, new, P.rinv)]
(* getPrincipal: a deleted role is not rebuilt *)
Loaded(PR, D, p) ==
  LET P0 == PR[p]
      P1 == IF P0.ex /\ ~P0.del /\ P0.cinv # 0 THEN RebuildC(P0, D, p) ELSE P0
  IN IF P0.ex /\ p \in Users /\ P1.rinv # 0 THEN RebuildR(P1, D, p) ELSE P1
LoadedAll(PR, D, S) == [p \in Princ |-> IF p \in S THEN Loaded(PR, D, p) ELSE PR[p]]
Live(PR, p) == PR[p].ex /\ ~PR[p].del

-----------------------------------------------------------------------------
(* the rows one channel holds: one per document - its current sequence while it is in the channel, else the removal *)
ChanRows(D, c) ==
  {[n |-> D[d].seq, doc |-> d, rev |-> D[d].rev, rm |-> FALSE, del |-> FALSE] : d \in {x \in Docs : c \in D[x].chans}}
  \cup {[n |-> D[d].cmap[c].seq, doc |-> d, rev |-> D[d].cmap[c].rev, rm |-> TRUE, del |-> D[d].cmap[c].del] :
        d \in {x \in Docs : D[x].cmap[c].seq > 0}}

(* InheritedCollectionChannels (every role the user names that exists and is not deleted; all loaded) *)
HeldRoles(PR, u) == {r \in Roles : PR[u].rls[r] > 0 /\ Live(PR, r)}
IC(PR, u) ==
  [c \in Chans |-> MinPos({PR[u].chs[c]} \cup
                          {IF PR[r].chs[c] > 0 THEN Max2(PR[r].chs[c], PR[u].rls[r]) ELSE 0 : r \in HeldRoles(PR, u)})]
HasAccess(PR, D, u, d) == D[d].seq > 0 /\ ~D[d].del /\ D[d].chans \cap Keys(IC(PR, u)) # {}   \* UserHasDocAccess / GetRev as the user

(* changesFeed for one channel granted at sequence a, request position k *)
ChanFeed(D, c, a, k) ==
  LET bfReq   == a > 1 /\ Before(k, Mk(0, 0, a))
      bfPend  == k.t = 0 \/ k.t < a
      inOther == k.t # 0 /\ k.t > a
      cs      == IF bfReq /\ bfPend THEN Mk(0, a, 0) ELSE IF inOther THEN Mk(0, 0, k.t - 1) ELSE k
      Tb(e)   == IF e.n >= cs.t THEN 0 ELSE cs.t
  IN {[tok |-> Mk(0, Tb(e), e.n), doc |-> e.doc, rev |-> e.rev, rm |-> IF e.rm THEN {c} ELSE {}, isrm |-> e.rm, del |-> e.del, rv |-> FALSE] :
      e \in {x \in ChanRows(D, c) : x.n > cs.s /\ ~(Tb(x) > 0 /\ (x.del \/ x.rm))}}

(* the removal / deletion rows of channel c that changesFeed drops because they lie inside a grant back-fill *)
ChanMasked(D, c, a, k) ==
  LET bfReq   == a > 1 /\ Before(k, Mk(0, 0, a))
      bfPend  == k.t = 0 \/ k.t < a
      inOther == k.t # 0 /\ k.t > a
      cs      == IF bfReq /\ bfPend THEN Mk(0, a, 0) ELSE IF inOther THEN Mk(0, 0, k.t - 1) ELSE k
  IN {e.doc : e \in {x \in ChanRows(D, c) : x.n > cs.s /\ x.n < cs.t /\ (x.del \/ x.rm)}}

(* RevokedCollectionChannels(since, 0, triggeredBy): channel -> sequence at which access was lost (0 = not revoked) *)
RevokedChans(PR, u, s, t) ==
  LET check    == IF t > 0 THEN t ELSE s
      acc      == IC(PR, u)
      Hit(e)   == e[2] > check \/ e[2] = t
      MaxEnd(H) == MaxOf({e[2] : e \in H})
      RTR(r)   == IF PR[u].rls[r] = 0 /\ \E e \in PR[u].rhist[r] : Hit(e) THEN MaxEnd(PR[u].rhist[r]) ELSE 0
      HistProc(p) == {<<c, MaxEnd(PR[p].chist[c])>> : c \in {x \in Chans : acc[x] = 0 /\ \E e \in PR[p].chist[x] : Hit(e)}}
      FromLostRole(r) ==
        LET rr == RTR(r) IN
        IF rr = 0 \/ ~PR[r].ex THEN {}
        ELSE (IF ~PR[r].del THEN {<<c, rr>> : c \in {x \in Chans : PR[r].chs[x] > 0 /\ acc[x] = 0}} ELSE {})
             \cup UNION {{<<c, IF e[2] > rr THEN rr ELSE MaxEnd(PR[r].chist[c])>> : e \in {y \in PR[r].chist[c] : Hit(y)}} :
                         c \in {x \in Chans : acc[x] = 0}}
      cur      == {r \in Roles : PR[u].rls[r] > 0 /\ PR[r].ex}          \* GetRolesIncDeleted
      pairs    == UNION {FromLostRole(r) : r \in Roles} \cup UNION {HistProc(r) : r \in cur} \cup HistProc(u)
  IN [c \in Chans |-> MaxOf({x[2] : x \in {y \in pairs : y[1] = c}})]

(* CollectionChannelGrantedPeriods: periods <<start, end>> during which the user held channel c *)
Isect(s1, s2, e1, e2) == IF Max2(s1, s2) < Min2(e1, e2) THEN {<<Max2(s1, s2), Min2(e1, e2)>>} ELSE {}
Periods(PR, u, c) ==
  LET cur  == HeldRoles(PR, u)
      prev == {r \in Roles : PR[u].rhist[r] # {} /\ PR[r].ex}
      AllCur(r) == {<<PR[r].chs[x], Inf>> : x \in Keys(PR[r].chs)} \cup {<<1, Inf>>}    \* as coded: every channel of the role, "!" at 1
  IN PR[u].chist[c]
     \cup (IF PR[u].chs[c] > 0 THEN {<<PR[u].chs[c], Inf>>} ELSE {})
     \cup UNION {UNION {Isect(e[1], PR[u].rls[r], e[2], Inf) : e \in PR[r].chist[c]} : r \in cur}
     \cup UNION {IF PR[r].chs[c] > 0 THEN AllCur(r) ELSE {} : r \in cur}
     \cup UNION {UNION {Isect(e[1], h[1], e[2], h[2]) : e \in PR[r].chist[c], h \in PR[u].rhist[r]} : r \in prev}
     \cup UNION {IF ~PR[r].del /\ PR[r].chs[c] > 0
                 THEN UNION {Isect(a[1], h[1], a[2], h[2]) : a \in AllCur(r), h \in PR[u].rhist[r]} ELSE {} : r \in prev}

(* wasDocInChannelPriorToRevocation *)
WasIn(DD, c, sx, per) ==
  \E x \in DD.cset : x[1] = c /\ \E p \in per : p[2] > sx /\ Max2(x[2], p[1]) < Min2(IF x[3] # 0 THEN x[3] ELSE Inf, p[2])

(* buildRevokedFeed for channel c lost at R *)
RevFeed(PR, D, u, c, R, k) ==
  LET rs   == IF k.t # 0 /\ R = k.t THEN k.t - 1 ELSE IF k.t # 0 /\ R > k.t THEN k.t ELSE k.s
      from == IF k.t # 0 /\ R = k.t THEN k.s ELSE 0
      per  == Periods(PR, u, c)
      Need(e) == (e.n > k.s => WasIn(D[e.doc], c, rs, per)) /\ ~HasAccess(PR, D, u, e.doc)
  IN {[tok |-> Mk(0, R, e.n), doc |-> e.doc, rev |-> e.rev, rm |-> IF e.rm THEN {c} ELSE {}, isrm |-> e.rm, del |-> e.del, rv |-> TRUE] :
      e \in {x \in ChanRows(D, c) : x.n > from /\ Need(x)}}

(* merge by SequenceID.Before; rows with the same token are folded (removed = union, all-removed = every one a removal) *)
RECURSIVE SortToks(_)
SortToks(S) == IF S = {} THEN <<>>
               ELSE LET m == CHOOSE x \in S : \A y \in S : ~Before(y, x) IN <<m>> \o SortToks(S \ {m})
Feed(PR, D, u, k, lim) ==
  LET ic   == IC(PR, u)
      rvk  == RevokedChans(PR, u, k.s, k.t)
      usr  == IF Before(k, Mk(0, 0, PR[u].useq))
              THEN {[tok |-> Mk(0, 0, PR[u].useq), doc |-> UserRow, rev |-> 0, rm |-> {}, isrm |-> FALSE, del |-> FALSE, rv |-> FALSE]} ELSE {}
      all  == UNION {ChanFeed(D, c, ic[c], k) : c \in Keys(ic)} \cup usr
              \cup UNION {RevFeed(PR, D, u, c, rvk[c], k) : c \in Keys(rvk)}
      srt  == SortToks({r.tok : r \in all})
      Row(tk) == LET g == {r \in all : r.tok = tk}
                     one == CHOOSE r \in g : TRUE
                 IN [tok |-> tk, id |-> one.doc, rev |-> one.rev, rm |-> UNION {r.rm : r \in g},
                     ar |-> \A r \in g : r.isrm, rv |-> \E r \in g : r.rv, del |-> \E r \in g : r.del]
      n    == IF lim > 0 /\ Len(srt) > lim THEN lim ELSE Len(srt)
  IN [i \in 1..n |-> Row(srt[i])]

(* the client *)
Drop(r) == r.rv \/ r.ar \/ r.del
RECURSIVE Apply(_, _, _, _, _, _)
Apply(rep, rows, i, PR, D, u) ==
  IF i > Len(rows) THEN rep
  ELSE LET r == rows[i]
           nx == IF r.id = UserRow THEN rep
                 ELSE IF Drop(r) THEN [rep EXCEPT ![r.id] = 0]
                 ELSE IF HasAccess(PR, D, u, r.id) THEN [rep EXCEPT ![r.id] = D[r.id].rev]
                 ELSE rep
       IN Apply(nx, rows, i + 1, PR, D, u)
Announced(rows) == {rows[i].id : i \in {j \in 1..Len(rows) : rows[j].id # UserRow /\ Drop(rows[j])}}

-----------------------------------------------------------------------------
(* Named deviations: where the implemented algorithm itself does not meet the statement.  Each was found as a model
   counterexample and reproduced on the real code (NOTES.md); the model checker verifies the statement modulo these, the
   trace passes demand the full statement and use the classes only to key what they report.
     backfill-masks-removal        changesFeed drops removal / deletion rows that lie inside a grant back-fill (ChanMasked)
     revocation-token-jumps-rows   a revocation row carries Seq >= TriggeredBy, is merged at TriggeredBy but rendered as Seq: a page
                                   that ends with it resumes behind rows that were not yet sent (Jumped)
     deleted-role-periods-ignored  CollectionChannelGrantedPeriods looks at current (not deleted) roles and at the role HISTORY; a
                                   deleted role the user still names is in neither, so a document changed after the deletion
                                   is not recognised as previously replicated (Orphaned)
     recreated-role-loses-history  a deleted role is created again: the named collection's channel history is dropped (amnesia)
     role-created-after-grant      a role's document-granted channels keep the granting documents' old sequences when the role
                                   comes into existence later (late) *)
Jumped(PR, D, u, k, rows) ==          \* the page ends with such a row: rows of the unlimited answer behind the position the client resumes from
  LET full == Feed(PR, D, u, k, 0)
      n    == Len(rows)
      nk   == Norm(rows[n].tok)
  IN IF n = 0 \/ n = Len(full) \/ ~(rows[n].rv /\ rows[n].tok.t > 0 /\ rows[n].tok.s >= rows[n].tok.t) THEN {}
     ELSE {full[i].id : i \in {j \in (n + 1)..Len(full) : ~Before(nk, full[j].tok)}} \ {UserRow}
PeriodsWithDeleted(PR, u, c) ==
  Periods(PR, u, c) \cup UNION {UNION {Isect(e[1], PR[u].rls[r], e[2], Inf) : e \in PR[r].chist[c]} :
                               r \in {q \in Roles : PR[u].rls[q] > 0 /\ PR[q].ex /\ PR[q].del}}
Orphaned(PR, D, u, k) ==
  LET rvk == RevokedChans(PR, u, k.s, k.t)
      Rs(c) == IF k.t # 0 /\ rvk[c] = k.t THEN k.t - 1 ELSE IF k.t # 0 /\ rvk[c] > k.t THEN k.t ELSE k.s
  IN UNION {{e.doc : e \in {x \in ChanRows(D, c) : x.n > k.s /\ ~WasIn(D[x.doc], c, Rs(c), Periods(PR, u, c))
                                                   /\ WasIn(D[x.doc], c, Rs(c), PeriodsWithDeleted(PR, u, c))}} : c \in Keys(rvk)}

-----------------------------------------------------------------------------
(* Ground truth, from the inputs only (and which revision is current) *)
GLive(p)   == gp[p].ex /\ ~gp[p].del
GDocLive(d) == gd[d].rev > 0 /\ ~gd[d].del
GOwn(p)    == gp[p].chans \cup UNION {gd[d].g.acc[p] : d \in {e \in Docs : GDocLive(e)}}
GRoles(u)  == gp[u].roles \cup UNION {gd[d].g.racc[u] : d \in {e \in Docs : GDocLive(e)}}
Eff(u)     == IF ~GLive(u) THEN {} ELSE GOwn(u) \cup UNION {GOwn(r) : r \in {q \in GRoles(u) : GLive(q)}}
Vis        == {d \in Docs : GDocLive(d) /\ gd[d].chans \cap Eff(Puller) # {}}

-----------------------------------------------------------------------------
Init ==
  /\ seq = 1 /\ pr = [p \in Princ |-> NoP] /\ docs = [d \in Docs |-> NoD]
  /\ replica = [d \in Docs |-> 0] /\ since = Mk(0, 0, 0) /\ out = NoOut
  /\ gp = [p \in Princ |-> NoGP] /\ gd = [d \in Docs |-> NoGD] /\ visPrev = {} /\ ann = {} /\ silent = {} /\ bad = {} /\ dev = [d \in Docs |-> ""] /\ amnesia = {} /\ late = {}
  /\ hist = <<>>

ClientSame == UNCHANGED <<replica, since>> /\ out' = NoOut
PullSame   == UNCHANGED <<visPrev, ann, dev>> /\ silent' = {} /\ bad' = {}
DevSame    == UNCHANGED <<amnesia, late>>

ImplAdminPut(p, cs, rs) ==
  LET live == Live(pr, p)
      n    == seq + 1
      b    == IF live THEN Loaded(pr, docs, p)
              ELSE [NoP EXCEPT !.ex = TRUE, !.chs = ViewChans(docs, p),
                               !.chist = IF KeepRoleHist /\ pr[p].ex /\ pr[p].del THEN pr[p].chist ELSE NoP.chist,
                               !.rls = IF p \in Users THEN ViewRoles(docs, p) ELSE NoTS(Roles)]
      chC  == Keys(b.expl) # cs
      chR  == p \in Users /\ Keys(b.rexpl) # rs
      upd  == [b EXCEPT !.useq = n, !.expl = UpdateAt(b.expl, cs, n), !.cinv = IF chC THEN n ELSE b.cinv,
                        !.rexpl = IF p \in Users THEN UpdateAt(b.rexpl, rs, n) ELSE b.rexpl, !.rinv = IF chR THEN n ELSE b.rinv]
      changed == ~live \/ chC \/ chR
  IN /\ pr' = [pr EXCEPT ![p] = IF changed THEN upd ELSE b]
     /\ seq' = IF changed THEN n ELSE seq
     /\ UNCHANGED docs /\ ClientSame
GhostAdminPut(p, cs, rs) ==      \* the deviation bookkeeping reads the state the call started from (pr, docs)
  /\ gp' = [gp EXCEPT ![p] = [ex |-> TRUE, del |-> FALSE, chans |-> cs, roles |-> rs]] /\ UNCHANGED gd /\ PullSame
  /\ amnesia' = amnesia \cup (IF ~KeepRoleHist /\ p \in Roles /\ pr[p].ex /\ pr[p].del THEN {c \in Chans : pr[p].chist[c] # {}} ELSE {})
  /\ late' = late \cup (IF p \in Roles /\ ~Live(pr, p) THEN Keys(ViewChans(docs, p)) ELSE {})

ImplRoleDel(r) ==
  LET b == Loaded(pr, docs, r)
      n == seq + 1
  IN /\ pr' = [pr EXCEPT ![r] = [b EXCEPT !.del = TRUE, !.useq = n, !.cinv = n,
                                          !.chist = CalcHist(b.chist, b.chs, NoTS(Chans), n)]]
     /\ seq' = n /\ UNCHANGED docs /\ ClientSame
GhostRoleDel(r) == gp' = [gp EXCEPT ![r].del = TRUE] /\ UNCHANGED gd /\ PullSame /\ DevSame

(* a revision: channels (updateChannels), grants (updateAccess), then the post-commit invalidation of every principal
   whose grant changed (a missing principal, or one already invalid, is left as it is) *)
NewDoc(D, n, cs, g, tomb) ==
  LET rv == D.rev + 1 IN
  [seq |-> n, rev |-> rv, del |-> tomb, chans |-> cs,
   cmap |-> [c \in Chans |-> IF c \in cs THEN NoRm ELSE IF c \in D.chans THEN [seq |-> n, rev |-> rv, del |-> tomb] ELSE D.cmap[c]],
   cset |-> {IF x[1] \in D.chans \ cs /\ x[3] = 0 THEN <<x[1], x[2], n>> ELSE x : x \in D.cset} \cup {<<c, n, 0>> : c \in cs \ D.chans},
   acc  |-> [p \in Princ |-> UpdateAt(D.acc[p], g.acc[p], n)],
   racc |-> [u \in Users |-> UpdateAt(D.racc[u], g.racc[u], n)]]
ImplDoc(d, cs, g, tomb) ==
  LET n  == seq + 1
      D  == docs[d]
      cC == {p \in Princ : Keys(D.acc[p]) # g.acc[p]}
      cR == {u \in Users : Keys(D.racc[u]) # g.racc[u]}
  IN /\ docs' = [docs EXCEPT ![d] = NewDoc(D, n, cs, g, tomb)]
     /\ pr' = [p \in Princ |-> [pr[p] EXCEPT !.cinv = IF p \in cC /\ pr[p].ex /\ pr[p].cinv = 0 THEN n ELSE pr[p].cinv,
                                              !.rinv = IF p \in cR /\ pr[p].ex /\ pr[p].rinv = 0 THEN n ELSE pr[p].rinv]]
     /\ seq' = n /\ ClientSame
GhostDoc(d, cs, g, tomb) ==     \* docs' = the REAL sync metadata (pass P) or ImplDoc's (model): the current revision is taken from it
  /\ gd' = [gd EXCEPT ![d] = [rev |-> docs'[d].rev, del |-> tomb, chans |-> cs, g |-> g]] /\ UNCHANGED gp /\ PullSame /\ DevSame

ImplLoad(p) == pr' = [pr EXCEPT ![p] = Loaded(pr, docs, p)] /\ UNCHANGED <<seq, docs>> /\ ClientSame
GhostSame   == UNCHANGED <<gp, gd>> /\ PullSame /\ DevSame

(* a request loads the user and (lazily) the roles it needs; the binding loads all of them up front *)
ImplPage(lim) ==
  LET P2   == LoadedAll(pr, docs, {Puller} \cup Roles)
      rows == Feed(P2, docs, Puller, since, lim)
  IN /\ pr' = P2 /\ UNCHANGED <<seq, docs>>
     /\ replica' = Apply(replica, rows, 1, P2, docs, Puller)
     /\ since' = IF Len(rows) = 0 THEN since ELSE Norm(rows[Len(rows)].tok)
     /\ out' = [on |-> TRUE, done |-> (lim = 0 \/ Len(rows) < lim), lim |-> lim, rows |-> rows,
                probes |-> {[d |-> rows[i].id, ok |-> HasAccess(P2, docs, Puller, rows[i].id)] :
                            i \in {j \in 1..Len(rows) : rows[j].rv /\ rows[j].id # UserRow}}]
GhostPage ==       \* refers to out' (the rows just returned), pr' (everything loaded) and the position the request was made from
  LET a2 == ann \cup Announced(out'.rows)
      ic == IC(pr', Puller)
  IN
  /\ UNCHANGED <<gp, gd>> /\ DevSame
  /\ dev' = [d \in Docs |-> IF dev[d] # "" THEN dev[d]
                             ELSE IF d \in UNION {ChanMasked(docs', c, ic[c], since) : c \in Keys(ic)} THEN "backfill-masks-removal"
                             ELSE IF d \in Jumped(pr', docs', Puller, since, out'.rows) THEN "revocation-token-jumps-rows"
                             ELSE IF d \in Orphaned(pr', docs', Puller, since) THEN "deleted-role-periods-ignored"
                             ELSE ""]
  /\ IF out'.done THEN /\ silent' = (visPrev \ Vis) \ a2 /\ visPrev' = Vis /\ ann' = {}
                       /\ bad' = {d \in Docs : replica'[d] # IF d \in Vis THEN gd[d].rev ELSE 0}
                  ELSE /\ silent' = {} /\ visPrev' = visPrev /\ ann' = a2 /\ bad' = {}

Step(r) == hist' = Append(hist, r)
InPull  == out.on /\ ~out.done
Free    == PageGap \/ ~InPull

AdminPut(p, cs, rs) == /\ Free /\ (p \in Roles => rs = {})
                       /\ ImplAdminPut(p, cs, rs) /\ GhostAdminPut(p, cs, rs)
                       /\ Step([a |-> "AdminPut", p |-> p, cs |-> cs, rs |-> rs])
RoleDel(r)   == /\ Free /\ Live(pr, r)
                /\ ImplRoleDel(r) /\ GhostRoleDel(r) /\ Step([a |-> "RoleDel", p |-> r])
DocPut(d, cs, g) == /\ Free
                    /\ ImplDoc(d, cs, g, FALSE) /\ GhostDoc(d, cs, g, FALSE)
                    /\ Step([a |-> "DocPut", d |-> d, cs |-> cs, g |-> g])
DocDel(d)    == /\ Free /\ docs[d].seq > 0 /\ ~docs[d].del
                /\ ImplDoc(d, {}, NoG, TRUE) /\ GhostDoc(d, {}, NoG, TRUE) /\ Step([a |-> "DocDel", d |-> d])
NeedsLoad(p) == Loaded(pr, docs, p) # pr[p]
Load(p)      == /\ Free /\ NeedsLoad(p)
                /\ ImplLoad(p) /\ GhostSame /\ Step([a |-> "Load", p |-> p])
Page(lim)    == /\ Live(pr, Puller)
                /\ ImplPage(lim) /\ GhostPage /\ Step([a |-> "Page", lim |-> lim])

Next ==
  /\ Len(hist) < MaxSteps
  /\ \/ \E u \in Users, m \in UserMenu : AdminPut(u, m.cs, m.rs)
     \/ \E r \in Roles, cs \in RoleMenu : AdminPut(r, cs, {})
     \/ \E r \in Roles : RoleDel(r)
     \/ \E m \in DocMenu : DocPut(m.d, m.cs, m.g)
     \/ \E d \in Docs : DocDel(d)
     \/ \E p \in Princ : Load(p)
     \/ \E lim \in Lims : Page(lim)
Spec == Init /\ [][Next]_vars

-----------------------------------------------------------------------------
(* C13: after every COMPLETED pull ... *)
ReplicaExact ==          \* the client holds exactly the documents whose current revision the user can see, at that revision
  /\ (out.on /\ out.done) => \A d \in Docs : replica[d] = IF d \in Vis THEN gd[d].rev ELSE 0
  /\ bad = {}
NoSilentDrop ==          \* whatever left the user's view since the previous completed pull was announced
  silent = {}
RevokedUnfetchable ==    \* a document announced as revoked can no longer be fetched by the user
  \A x \in out.probes : ~x.ok
NoSpuriousRevoke ==      \* no revocation for a document the user can still see
  \A i \in 1..Len(out.rows) : out.rows[i].rv => out.rows[i].id \notin Vis

(* the same modulo the named deviation BackfillMasksRemoval (model checking only; the trace passes demand the full statement) *)
EverIn(d) == {x[1] : x \in docs[d].cset}
DevClass(d) == IF dev[d] # "" THEN dev[d]
               ELSE IF EverIn(d) \cap amnesia # {} THEN "recreated-role-loses-history"
               ELSE IF EverIn(d) \cap late # {} THEN "role-created-after-grant"
               ELSE ""
ReplicaExactM == \A d \in bad : DevClass(d) # ""
NoSilentDropM == \A d \in silent : DevClass(d) # ""

(* auxiliary / design invariants *)
StoredMatchesInputs ==   \* the stored sync metadata agree with the ground truth taken from the inputs
  \A d \in Docs : /\ docs[d].rev = gd[d].rev /\ docs[d].del = gd[d].del /\ docs[d].chans = gd[d].chans
                  /\ \A p \in Princ : Keys(docs[d].acc[p]) = (IF gd[d].del THEN {} ELSE gd[d].g.acc[p])
                  /\ \A u \in Users : Keys(docs[d].racc[u]) = (IF gd[d].del THEN {} ELSE gd[d].g.racc[u])
AccessMatches ==         \* the gateway's own access computation (all loaded) equals the ground truth (C03's statement)
  out.on => Keys(IC(pr, Puller)) = Eff(Puller)
ReplicaSound ==          \* after a completed pull the client never holds something else than the current revision of a visible document...
  (out.on /\ out.done) => \A d \in Docs : d \in Vis => replica[d] = gd[d].rev
OrderedRows == \A i, j \in 1..Len(out.rows) : i < j => ~Before(out.rows[j].tok, out.rows[i].tok)
TypeOK ==
  /\ seq \in 1..(MaxSteps + 1)
  /\ \A p \in Princ : pr[p].useq <= seq /\ pr[p].cinv <= seq /\ pr[p].rinv <= seq
  /\ \A d \in Docs : docs[d].seq <= seq /\ replica[d] <= docs[d].rev
  /\ since.l = 0 /\ since.s <= seq /\ since.t <= seq
=============================================================================
