CONSTANT N = 10
CONSTANT Users <- U1
CONSTANT Roles <- R0
CONSTANT Chans <- ChAB
CONSTANT Docs <- D2
CONSTANT Puller = "u1"
CONSTANT UserMenu <- UMab
CONSTANT RoleMenu <- RM0
CONSTANT DocMenu <- DMa2
CONSTANT Lims <- L012
CONSTANT MaxSteps = 7
CONSTANT Thin = 40
CONSTANT KeepRoleHist = FALSE
CONSTANT PageGap = TRUE
SPECIFICATION Spec
VIEW view
INVARIANT TypeOK
INVARIANT StoredMatchesInputs
INVARIANT AccessMatches
INVARIANT OrderedRows
INVARIANT RevokedUnfetchable
INVARIANT NoSpuriousRevoke
INVARIANT ReplicaExactM
INVARIANT NoSilentDropM
INVARIANT CandExport
INVARIANT NontrivExport
CHECK_DEADLOCK FALSE
