---------------------------- MODULE Trace_Revocation ----------------------------
(* Validation of traces recorded from a real database (harness/db/c13_revocation_test.go).
   Every line carries the inputs of the call and the REAL post-state:
     seq   : last allocated sequence            (all sequences relative to the start of the behaviour, first allocated = 2)
     pr    : per principal the raw principal document {ex, del, useq, expl, chs, cinv, chist, rexpl, rls, rinv, rhist}
     docs  : per document the admin view {seq, rev, del, chans, cmap, cset, acc, racc}  (rev = generation of the current revision)
   Lines:  {a:"Reset", beh}
           {a:"AdminPut", p, cs, rs}  {a:"RoleDel", p}  {a:"DocPut", d, cs, g}  {a:"DocDel", d}  {a:"Load", p}
           {a:"Page", lim, rows:[{tok:[l,t,s], id, rev, rm, ar, rv, del}], probes:[{d, ok}], done, replica:{d: rev}, since:[l,t,s]}
   Pass P: implementation variables := logged real state; the ground truth (gp, gd) advances from the inputs only, the
   current revision of a document is the REAL one.  Pass C: each line is an instance of the spec action. *)
EXTENDS MC_Revocation, TraceLib

VARIABLE l
tvars == <<vars, l>>

T         == Trace[l]
SetOf(s)  == {s[i] : i \in 1..Len(s)}
TS(o, S)  == [x \in S |-> IF Has(o, x) THEN o[x] ELSE 0]
HS(o, S)  == [x \in S |-> IF Has(o, x) THEN {<<o[x][i][1], o[x][i][2]>> : i \in 1..Len(o[x])} ELSE {}]
LP(o)     == [ex |-> o.ex, del |-> o.del, useq |-> o.useq,
              expl |-> TS(o.expl, Chans), chs |-> TS(o.chs, Chans), cinv |-> o.cinv, chist |-> HS(o.chist, Chans),
              rexpl |-> TS(o.rexpl, Roles), rls |-> TS(o.rls, Roles), rinv |-> o.rinv, rhist |-> HS(o.rhist, Roles)]
LD(o)     == [seq |-> o.seq, rev |-> o.rev, del |-> o.del, chans |-> SetOf(o.chans),
              cmap |-> [c \in Chans |-> IF Has(o.cmap, c) THEN [seq |-> o.cmap[c].seq, rev |-> o.cmap[c].rev, del |-> o.cmap[c].del] ELSE NoRm],
              cset |-> {<<o.cset[i][1], o.cset[i][2], o.cset[i][3]>> : i \in 1..Len(o.cset)},
              acc  |-> [p \in Princ |-> IF Has(o.acc, p) THEN TS(o.acc[p], Chans) ELSE NoTS(Chans)],
              racc |-> [u \in Users |-> IF Has(o.racc, u) THEN TS(o.racc[u], Roles) ELSE NoTS(Roles)]]
LG(o)     == [acc |-> [p \in Princ |-> SetOf(o.acc[p])], racc |-> [u \in Users |-> SetOf(o.racc[u])]]
LTok(x)   == Mk(x[1], x[2], x[3])
LRow(r)   == [tok |-> LTok(r.tok), id |-> r.id, rev |-> r.rev, rm |-> SetOf(r.rm), ar |-> r.ar, rv |-> r.rv, del |-> r.del]
LOut      == [on |-> TRUE, done |-> T.done, lim |-> T.lim, rows |-> [i \in 1..Len(T.rows) |-> LRow(T.rows[i])],
              probes |-> {[d |-> T.probes[i].d, ok |-> T.probes[i].ok] : i \in 1..Len(T.probes)}]

Ev(a) == l <= TraceLen /\ Trace[l].a = a /\ l' = l + 1
Logged == /\ seq' = T.seq
          /\ pr' = [p \in Princ |-> LP(T.pr[p])]
          /\ docs' = [d \in Docs |-> LD(T.docs[d])]
LoggedIdle == UNCHANGED <<replica, since>> /\ out' = NoOut
LoggedPage == /\ replica' = [d \in Docs |-> T.replica[d]]
              /\ since' = LTok(T.since)
              /\ out' = LOut

TInit == Init /\ l = 1

Reset == /\ Ev("Reset")
         /\ seq' = 1 /\ pr' = [p \in Princ |-> NoP] /\ docs' = [d \in Docs |-> NoD]
         /\ replica' = [d \in Docs |-> 0] /\ since' = Mk(0, 0, 0) /\ out' = NoOut
         /\ gp' = [p \in Princ |-> NoGP] /\ gd' = [d \in Docs |-> NoGD] /\ visPrev' = {} /\ ann' = {} /\ silent' = {} /\ bad' = {} /\ dev' = [d \in Docs |-> ""] /\ amnesia' = {} /\ late' = {}
         /\ hist' = <<>>

(* pass P *)
PAdminPut == Ev("AdminPut") /\ Logged /\ LoggedIdle /\ GhostAdminPut(T.p, SetOf(T.cs), SetOf(T.rs))
PRoleDel  == Ev("RoleDel")  /\ Logged /\ LoggedIdle /\ GhostRoleDel(T.p)
PDocPut   == Ev("DocPut")   /\ Logged /\ LoggedIdle /\ GhostDoc(T.d, SetOf(T.cs), LG(T.g), FALSE)
PDocDel   == Ev("DocDel")   /\ Logged /\ LoggedIdle /\ GhostDoc(T.d, {}, NoG, TRUE)
PLoad     == Ev("Load")     /\ Logged /\ LoggedIdle /\ GhostSame
PPage     == Ev("Page")     /\ Logged /\ LoggedPage /\ GhostPage
PNext == Reset \/ ((PAdminPut \/ PRoleDel \/ PDocPut \/ PDocDel \/ PLoad \/ PPage) /\ UNCHANGED hist)
PSpec == TInit /\ [][PNext]_tvars

(* pass C *)
CAdminPut == Ev("AdminPut") /\ ImplAdminPut(T.p, SetOf(T.cs), SetOf(T.rs)) /\ Logged /\ GhostAdminPut(T.p, SetOf(T.cs), SetOf(T.rs))
CRoleDel  == Ev("RoleDel")  /\ ImplRoleDel(T.p) /\ Logged /\ GhostRoleDel(T.p)
CDocPut   == Ev("DocPut")   /\ ImplDoc(T.d, SetOf(T.cs), LG(T.g), FALSE) /\ Logged /\ GhostDoc(T.d, SetOf(T.cs), LG(T.g), FALSE)
CDocDel   == Ev("DocDel")   /\ ImplDoc(T.d, {}, NoG, TRUE) /\ Logged /\ GhostDoc(T.d, {}, NoG, TRUE)
CLoad     == Ev("Load")     /\ ImplLoad(T.p) /\ Logged /\ GhostSame
CPage     == Ev("Page")     /\ ImplPage(T.lim) /\ Logged /\ LoggedPage /\ GhostPage
CNext == Reset \/ ((CAdminPut \/ CRoleDel \/ CDocPut \/ CDocDel \/ CLoad \/ CPage) /\ UNCHANGED hist)
CSpec == TInit /\ [][CNext]_tvars

(* enumeration of every violating position of a trace (used after pass P found one): which predicate, which documents, and
   whether they fall under the named deviation BackfillMasksRemoval *)
ViolExport == (~PropertyHolds) =>
  PrintT(<<"VIOL", ToJson([line |-> l - 1, re |-> ~ReplicaExact, bad |-> bad, sd |-> ~NoSilentDrop, silent |-> silent,
                           cls |-> [d \in bad \cup silent |-> DevClass(d)],
                           ru |-> ~RevokedUnfetchable, sr |-> ~NoSpuriousRevoke])>>)

Progress == Mark(l)
Accept == PrintHWM
=============================================================================
