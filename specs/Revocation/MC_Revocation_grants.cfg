CONSTANT N = 9
CONSTANT Users <- U1
CONSTANT Roles <- R1
CONSTANT Chans <- ChAB
CONSTANT Docs <- D2
CONSTANT Puller = "u1"
CONSTANT UserMenu <- UMg
CONSTANT RoleMenu <- RM0
CONSTANT DocMenu <- DMg
CONSTANT Lims <- L0
CONSTANT MaxSteps = 6
CONSTANT Thin = 1
CONSTANT KeepRoleHist = FALSE
CONSTANT PageGap = FALSE
SPECIFICATION Spec
VIEW view
INVARIANT TypeOK
INVARIANT StoredMatchesInputs
INVARIANT AccessMatches
INVARIANT OrderedRows
INVARIANT RevokedUnfetchable
INVARIANT NoSpuriousRevoke
INVARIANT ReplicaExactM
INVARIANT NoSilentDropM
INVARIANT CandExport
INVARIANT NontrivExport
CHECK_DEADLOCK FALSE
