CONSTANT N = 9
CONSTANT Users <- U1
CONSTANT Roles <- R0
CONSTANT Chans <- ChAB
CONSTANT Docs <- D1
CONSTANT Puller = "u1"
CONSTANT UserMenu <- UMa
CONSTANT RoleMenu <- RM0
CONSTANT DocMenu <- DMa1
CONSTANT Lims <- L0
CONSTANT MaxSteps = 7
CONSTANT Thin = 1
CONSTANT KeepRoleHist = FALSE
CONSTANT PageGap = FALSE
SPECIFICATION Spec
VIEW view
INVARIANT TypeOK
INVARIANT StoredMatchesInputs
INVARIANT AccessMatches
INVARIANT OrderedRows
INVARIANT RevokedUnfetchable
INVARIANT NoSpuriousRevoke
INVARIANT ReplicaExactM
INVARIANT NoSilentDropM
INVARIANT CandExport
INVARIANT NontrivExport
CHECK_DEADLOCK FALSE
