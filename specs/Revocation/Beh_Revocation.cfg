CONSTANT N = 9
CONSTANT Users <- U1
CONSTANT Roles <- R0
CONSTANT Chans <- ChAB
CONSTANT Docs <- D1
CONSTANT Puller = "u1"
CONSTANT UserMenu <- UMa
CONSTANT RoleMenu <- RM0
CONSTANT DocMenu <- DMa1
CONSTANT Lims <- L0
CONSTANT MaxSteps = 4
CONSTANT Thin = 1
CONSTANT KeepRoleHist = FALSE
CONSTANT PageGap = FALSE
SPECIFICATION Spec
INVARIANT BehaviourExport
CHECK_DEADLOCK FALSE
