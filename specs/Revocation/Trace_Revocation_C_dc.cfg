CONSTANT N = 60
CONSTANT Users <- U2
CONSTANT Roles <- R2
CONSTANT Chans <- ChABC
CONSTANT Docs <- D3
CONSTANT Puller = "u1"
CONSTANT UserMenu <- UMa
CONSTANT RoleMenu <- RM0
CONSTANT DocMenu <- DMa1
CONSTANT Lims <- L0
CONSTANT MaxSteps = 1000000
CONSTANT Thin = 1
CONSTANT KeepRoleHist = TRUE
CONSTANT PageGap = TRUE
SPECIFICATION CSpec
CONSTRAINT Progress
POSTCONDITION Accept
CHECK_DEADLOCK FALSE
INVARIANT StoredMatchesInputs
INVARIANT AccessMatches
INVARIANT OrderedRows
