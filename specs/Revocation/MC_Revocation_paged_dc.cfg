CONSTANT N = 24
CONSTANT Users <- U1
CONSTANT Roles <- R1
CONSTANT Chans <- ChAB
CONSTANT Docs <- D3
CONSTANT Puller = "u1"
CONSTANT UserMenu <- UMa
CONSTANT RoleMenu <- RM0
CONSTANT DocMenu <- DMa1
CONSTANT Lims <- L012
CONSTANT MaxSteps = 22
CONSTANT Thin = 1
CONSTANT KeepRoleHist = TRUE
CONSTANT PageGap = FALSE
SPECIFICATION PagedSpec
INVARIANT TypeOK
INVARIANT StoredMatchesInputs
INVARIANT AccessMatches
INVARIANT OrderedRows
INVARIANT RevokedUnfetchable
INVARIANT NoSpuriousRevoke
INVARIANT ReplicaExactM
INVARIANT NoSilentDropM
INVARIANT PagedBounded
INVARIANT CandExport
INVARIANT PagedExport
CHECK_DEADLOCK FALSE
