CONSTANT N = 8
CONSTANT Docs = {"d1"}
CONSTANT Chans = {"A", "B"}
CONSTANT Users <- U2
CONSTANT GrantOpts <- GO1
CONSTANT ReqSets <- RS2
CONSTANT MaxWrites = 3
CONSTANT PutSets <- PS2
CONSTANT ConfSets <- NoSets
CONSTANT CoalSets <- NoSets
CONSTANT Lims = {0}
SPECIFICATION Spec
INVARIANT BehaviourExport
CHECK_DEADLOCK FALSE
