CONSTANT N = 1000000
CONSTANT Docs <- UTrace
CONSTANT Chans = {"A", "B", "C"}
CONSTANT Users <- UTrace
CONSTANT GrantOpts <- UTrace
CONSTANT ReqSets <- UTrace
CONSTANT MaxWrites = 1000000
CONSTANT PutSets <- UTrace
CONSTANT ConfSets <- UTrace
CONSTANT CoalSets <- UTrace
CONSTANT Lims = {0}
SPECIFICATION PSpec
CONSTRAINT Progress
POSTCONDITION Accept
CHECK_DEADLOCK FALSE
INVARIANT RSound
INVARIANT RCompleteCur
INVARIANT RRemovalNoticed
INVARIANT ROrdered
INVARIANT RResumeConsistent
INVARIANT RPagingConsistent
INVARIANT RConfigIndependent
INVARIANT REventually
INVARIANT RLateOrdered
INVARIANT RLateNoDup
INVARIANT RLateSound
