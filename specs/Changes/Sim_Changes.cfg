CONSTANT N = 8
CONSTANT Docs = {"d1", "d2", "d3"}
CONSTANT Chans = {"A", "B", "C"}
CONSTANT Users <- U2
CONSTANT GrantOpts <- GO3
CONSTANT ReqSets <- RS3
CONSTANT MaxWrites = 6
CONSTANT PutSets <- PS5
CONSTANT ConfSets <- CS2
CONSTANT CoalSets <- PS5
CONSTANT Lims = {0}
SPECIFICATION SimSpec
INVARIANT BehaviourExport
CHECK_DEADLOCK FALSE
