CONSTANT N = 8
CONSTANT Docs = {"d1", "d2"}
CONSTANT Chans = {"A", "B"}
CONSTANT Users <- U2
CONSTANT GrantOpts <- GO2
CONSTANT ReqSets <- RS2
CONSTANT MaxWrites = 4
CONSTANT PutSets <- PSAll
CONSTANT ConfSets <- PSAll
CONSTANT CoalSets <- PS2
CONSTANT Lims = {0, 1, 2}
SPECIFICATION Spec
VIEW view
INVARIANT OracleAdmitsReference
INVARIANT NoLeak
INVARIANT TypeOK
CHECK_DEADLOCK FALSE
