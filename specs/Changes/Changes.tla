--------------------------- MODULE Changes ---------------------------
(* The multi-channel changes feed over document state: db/changes.go (SimpleMultiChangesFeed / changesFeed),
   db/document.go (updateChannels), with static channel grants (dynamic grants: C13).
   State = the admin view of every document (what GetDocument shows in the sync metadata):
       seq    current sequence (0 = never written)        rev    current revision (an opaque identity)
       chans  current channels of the winning revision    del    the winning revision is a tombstone
       rem    per channel: None or the removal record [seq, rev, del] (SyncData.Channels[c])
       alt    None or a live losing branch [rev, chans]
   Writes: Put (create / update / channel move / resurrect), Delete, Conflict (a losing sibling branch),
   ConflictWin (a winning sibling branch, written through PutExistingRev).
   A response is a list of rows [tok (l,t,s), doc, rev, removed, del] plus last_seq.  The property predicates
   (Sound, CompleteCur, RemovalNoticed, Ordered, and the metamorphic SuffixOfBase / LimitPrefix / PagingConsistent /
   ConfigIndependent) are stated over a response and the document state; RefFeed is the reference answer in a
   quiescent system.  The model checker shows that the reference answer satisfies every predicate for every
   history, requester, position, channel filter, limit and active-only flag within the bounds; the trace module
   evaluates the same predicates on responses of the real feed.  Decides C01 at system level. *)
EXTENDS SeqToken, TLC

CONSTANTS Docs, Chans,     \* documents; named channels (the star channel "*" is implicit)
          Users,           \* user names; the requester "admin" (no user: every channel) is implicit
          GrantOpts,       \* set of functions Users -> SUBSET (Chans \cup {"*"}): static grants explored
          ReqSets,         \* requested-channel filters explored: {"*"} = no filter
          PutSets,         \* channel sets a Put may assign
          ConfSets,        \* channel sets of a conflicting branch
          CoalSets,        \* channel sets of the two updates of a coalesced pair ({} = no such writes)
          MaxWrites, Lims

Star == "*"
None == [seq |-> 0]
NoDoc == [seq |-> 0, rev |-> 0, chans |-> {}, del |-> FALSE, rem |-> [c \in Chans |-> None], alt |-> None]

VARIABLES docs, nextSeq, grants, hist
vars == <<docs, nextSeq, grants, hist>>
view == <<docs, nextSeq, grants>>

Range(sq) == {sq[i] : i \in 1..Len(sq)}
Requesters == Users \cup {"admin"}

-----------------------------------------------------------------------------
(* document state after a write of sequence n *)
PutDoc(D, n, r, NC) ==
  [seq |-> n, rev |-> r, chans |-> NC, del |-> FALSE, alt |-> D.alt,
   rem |-> [c \in Chans |-> IF c \in NC THEN None
                            ELSE IF c \in D.chans THEN [seq |-> n, rev |-> r, del |-> FALSE]
                            ELSE D.rem[c]]]
DeleteDoc(D, n, r) ==
  [seq |-> n, rev |-> r, chans |-> {}, del |-> TRUE, alt |-> D.alt,
   rem |-> [c \in Chans |-> IF c \in D.chans THEN [seq |-> n, rev |-> r, del |-> TRUE] ELSE D.rem[c]]]
ConflictDoc(D, n, r, NC) == [D EXCEPT !.seq = n, !.alt = [rev |-> r, chans |-> NC]]
ConflictWinDoc(D, n, r, NC) == [PutDoc(D, n, r, NC) EXCEPT !.alt = [rev |-> D.rev, chans |-> D.chans]]

Init == /\ docs = [d \in Docs |-> NoDoc] /\ nextSeq = 1 /\ grants \in GrantOpts /\ hist = <<>>

Step(r) == hist' = Append(hist, r)
Bump == nextSeq' = nextSeq + 1 /\ UNCHANGED grants
Put(d, NC) ==
  /\ docs' = [docs EXCEPT ![d] = PutDoc(@, nextSeq, nextSeq, NC)] /\ Bump
  /\ Step([a |-> "Put", doc |-> d, chans |-> NC])
Delete(d) ==
  /\ docs[d].seq > 0 /\ ~docs[d].del /\ docs[d].alt = None      \* (deleting the winner of a conflicted document is left to C04)
  /\ docs' = [docs EXCEPT ![d] = DeleteDoc(@, nextSeq, nextSeq)] /\ Bump
  /\ Step([a |-> "Delete", doc |-> d])
Conflict(d, NC) ==
  /\ docs[d].seq > 0 /\ ~docs[d].del /\ docs[d].alt = None
  /\ docs' = [docs EXCEPT ![d] = ConflictDoc(@, nextSeq, nextSeq, NC)] /\ Bump
  /\ Step([a |-> "Conflict", doc |-> d, chans |-> NC])
ConflictWin(d, NC) ==
  /\ docs[d].seq > 0 /\ ~docs[d].del /\ docs[d].alt = None
  /\ docs' = [docs EXCEPT ![d] = ConflictWinDoc(@, nextSeq, nextSeq, NC)] /\ Bump
  /\ Step([a |-> "ConflictWin", doc |-> d, chans |-> NC])

(* two quick updates of a live document whose first mutation never reaches the change cache (feed de-duplication): the
   cache learns the first sequence only from recent_sequences of the second mutation.  For the documents this is just two
   Puts; the binding suppresses the feed while the first one is written. *)
Coalesced(d, NC1, NC2) ==
  /\ docs[d].seq > 0 /\ ~docs[d].del
  /\ docs' = [docs EXCEPT ![d] = PutDoc(PutDoc(@, nextSeq, nextSeq, NC1), nextSeq + 1, nextSeq + 1, NC2)]
  /\ nextSeq' = nextSeq + 2 /\ UNCHANGED grants
  /\ Step([a |-> "Coalesced", doc |-> d, chans |-> NC1, chans2 |-> NC2])

Next ==
  /\ Len(hist) < MaxWrites
  /\ \E d \in Docs : \/ \E NC \in PutSets : Put(d, NC)
                     \/ \E NC \in ConfSets : Conflict(d, NC) \/ ConflictWin(d, NC)
                     \/ Delete(d)
                     \/ \E NC1 \in CoalSets, NC2 \in CoalSets : Coalesced(d, NC1, NC2)
Spec == Init /\ [][Next]_vars

-----------------------------------------------------------------------------
(* which channel feeds a request reads: FilterToAvailableCollectionChannels / AtSequence for the admin *)
VisChans(G, u, req) ==
  IF u = "admin" THEN req
  ELSE IF Star \in req THEN G[u]
  ELSE IF Star \in G[u] THEN req
  ELSE req \cap G[u]

(* the rows one channel holds (one per document: its latest sequence in the channel, removal rows included) *)
ChanRows(DS, c) ==
  IF c = Star
  THEN {[n |-> DS[d].seq, doc |-> d, rev |-> DS[d].rev, rm |-> FALSE, del |-> DS[d].del, ch |-> c] : d \in {x \in DOMAIN DS : DS[x].seq > 0}}
  ELSE {[n |-> DS[d].seq, doc |-> d, rev |-> DS[d].rev, rm |-> FALSE, del |-> FALSE, ch |-> c] : d \in {x \in DOMAIN DS : c \in DS[x].chans}}
       \cup {[n |-> DS[d].rem[c].seq, doc |-> d, rev |-> DS[d].rem[c].rev, rm |-> TRUE, del |-> DS[d].rem[c].del, ch |-> c] :
             d \in {x \in DOMAIN DS : c \in DOMAIN DS[x].rem /\ DS[x].rem[c] # None}}

RECURSIVE SortByN(_)
SortByN(S) == IF S = {} THEN <<>>
              ELSE LET m == CHOOSE r \in S : \A q \in S : r.n <= q.n IN <<m>> \o SortByN(S \ {m})
Prefix(sq, k) == IF k > 0 /\ Len(sq) > k THEN SubSeq(sq, 1, k) ELSE sq

(* the reference answer: merge of the channel feeds by sequence, removal union, active-only filter, limit *)
RefFeed(DS, VC, S, lim, ao) ==
  LET all  == UNION {ChanRows(DS, c) : c \in VC}
      ns   == {r.n : r \in {x \in all : x.n > S}}
      Row(n) == LET rs == {r \in all : r.n = n}
                    one == CHOOSE r \in rs : TRUE IN
                [tok |-> Mk(0, 0, n), doc |-> one.doc, rev |-> one.rev,
                 removed |-> {r.ch : r \in {x \in rs : x.rm}}, del |-> \E r \in rs : r.del,
                 allrm |-> \A r \in rs : r.rm]
      rows == {Row(n) : n \in ns}
      keep == {r \in rows : ~(ao /\ (r.del \/ r.allrm))}
      srt  == SortByN({[n |-> r.tok.s, row |-> r] : r \in keep})
  IN Prefix([i \in 1..Len(srt) |-> [tok |-> srt[i].row.tok, doc |-> srt[i].row.doc, rev |-> srt[i].row.rev,
                                     removed |-> srt[i].row.removed, del |-> srt[i].row.del]], lim)

-----------------------------------------------------------------------------
(* C01 predicates over a response R (sequence of rows) for requester channels VC from position token since *)
InChan(D, c) == IF c = Star THEN D.seq > 0 ELSE c \in D.chans
Explains(DS, row, c) ==
  LET D == DS[row.doc] IN
  \/ InChan(D, c) /\ row.tok.s = D.seq
  \/ c # Star /\ c \in DOMAIN D.rem /\ D.rem[c] # None /\ D.rem[c].seq = row.tok.s
(* nothing that belongs only to channels the requester cannot see: a row after position S is justified only if, after S,
   the document changed while in a visible channel (its current revision, at its current sequence) or LEFT a visible
   channel (at exactly the sequence at which it left - a removal notice carries that sequence and names that channel) *)
Sound(DS, VC, R, S) ==
  \A i \in 1..Len(R) : /\ R[i].doc \in DOMAIN DS
                       /\ R[i].tok.s > S
                       /\ \E c \in VC : Explains(DS, R[i], c)
                       /\ R[i].removed \subseteq VC
                       /\ \A c \in R[i].removed : LET D == DS[R[i].doc] IN
                            c \in DOMAIN D.rem /\ D.rem[c] # None /\ D.rem[c].seq = R[i].tok.s
(* what the answer covers: everything after the position when it was not cut by a limit, else up to its last row *)
Cut(R, lim) == IF lim > 0 /\ Len(R) >= lim THEN R[Len(R)].tok.s ELSE -1
Within(n, S, cut) == n > S /\ (cut = -1 \/ n <= cut)
(* the current revision of every document that is in a visible channel and changed after S *)
CompleteCur(DS, VC, R, S, lim, ao) ==
  \A d \in DOMAIN DS :
    LET D == DS[d] IN
    (Within(D.seq, S, Cut(R, lim)) /\ (\E c \in VC : InChan(D, c)) /\ (ao => ~D.del))
      => \E i \in 1..Len(R) : R[i].doc = d /\ R[i].tok.s = D.seq /\ R[i].rev = D.rev
(* a removal or deletion notice for every document that left a visible channel after S *)
RemovalNoticed(DS, VC, R, S, lim, ao) ==
  ~ao => \A d \in DOMAIN DS : \A c \in VC \ {Star} :
           LET D == DS[d] IN
           (c \in DOMAIN D.rem /\ D.rem[c] # None /\ Within(D.rem[c].seq, S, Cut(R, lim)))
             => \E i \in 1..Len(R) : R[i].doc = d /\ R[i].tok.s = D.rem[c].seq /\ (c \in R[i].removed \/ R[i].del)
(* increasing sequence order, no duplicates *)
Ordered(R) == \A i, j \in 1..Len(R) : i < j => Before(R[i].tok, R[j].tok)
(* metamorphic: a request from S returns the entries of the answer from the beginning that lie after S ... *)
After(B, S) == SelectSeq(B, LAMBDA r : r.tok.s > S)
SuffixOfBase(B, R, S) == R = After(B, S)
(* ... a limited one the first lim of them, and pages resumed from each handed-out last_seq concatenate to it *)
LimitPrefix(B, R, S, lim) == R = Prefix(After(B, S), lim)
RECURSIVE Concat(_)
Concat(ps) == IF ps = <<>> THEN <<>> ELSE Head(ps) \o Concat(Tail(ps))
PagingConsistent(B, pages, S, k) ==
  /\ Concat(pages) = After(B, S)
  /\ \A i \in 1..Len(pages) : Len(pages[i]) <= k

(* model check: the reference answer satisfies every predicate *)
Sinces == 0..(nextSeq - 1)
RECURSIVE RefPages(_, _, _, _, _, _)
RefPages(DS, VC, S, k, ao, fuel) ==
  LET p == RefFeed(DS, VC, S, k, ao) IN
  IF Len(p) < k \/ fuel = 0 THEN <<p>>
  ELSE <<p>> \o RefPages(DS, VC, p[Len(p)].tok.s, k, ao, fuel - 1)
OracleAdmitsReference ==
  \A u \in Requesters, req \in ReqSets, ao \in BOOLEAN :
    LET VC == VisChans(grants, u, req)
        B  == RefFeed(docs, VC, 0, 0, ao) IN
    /\ Sound(docs, VC, B, 0) /\ Ordered(B)
    /\ \A S \in Sinces :
         LET R == RefFeed(docs, VC, S, 0, ao) IN
         /\ SuffixOfBase(B, R, S) /\ Sound(docs, VC, R, S)
         /\ CompleteCur(docs, VC, R, S, 0, ao) /\ RemovalNoticed(docs, VC, R, S, 0, ao)
         /\ \A k \in Lims \ {0} :
              LET L == RefFeed(docs, VC, S, k, ao) IN
              /\ LimitPrefix(B, L, S, k)
              /\ CompleteCur(docs, VC, L, S, k, ao) /\ RemovalNoticed(docs, VC, L, S, k, ao)
              /\ PagingConsistent(B, RefPages(docs, VC, S, k, ao, nextSeq), S, k)
(* a user who can see none of a document's channels, past or present, never receives it *)
NoLeak ==
  \A u \in Users, req \in ReqSets :
    LET VC == VisChans(grants, u, req)
        B  == RefFeed(docs, VC, 0, 0, FALSE) IN
    \A i \in 1..Len(B) : Star \in VC \/ \E c \in VC : c \in docs[B[i].doc].chans \/ docs[B[i].doc].rem[c] # None
TypeOK == nextSeq \in 1..(2 * MaxWrites + 1) /\ \A d \in Docs : docs[d].seq < nextSeq
=============================================================================
