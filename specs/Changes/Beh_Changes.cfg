CONSTANT N = 8
CONSTANT Docs = {"d1"}
CONSTANT Chans = {"A", "B"}
CONSTANT Users <- U2
CONSTANT GrantOpts <- GO2
CONSTANT ReqSets <- RS2
CONSTANT MaxWrites = 2
CONSTANT PutSets <- PS3
CONSTANT ConfSets <- CS1
CONSTANT CoalSets <- NoSets
CONSTANT Lims = {0}
SPECIFICATION Spec
INVARIANT BehaviourExport
CHECK_DEADLOCK FALSE
