--------------------------- MODULE MC_Changes ---------------------------
EXTENDS Changes, Json
U2 == {"alice", "bob"}
G1 == [u \in U2 |-> IF u = "alice" THEN {"A", "B"} ELSE {"C"}]
G2 == [u \in U2 |-> IF u = "alice" THEN {"A"} ELSE {"*"}]
G3 == [u \in U2 |-> IF u = "alice" THEN {"B", "C"} ELSE {"A", "C"}]
GO1 == {G1}
GO2 == {G1, G2}
GO3 == {G1, G2, G3}
PSAll == SUBSET Chans
PS5 == {{}, {"A"}, {"B"}, {"A", "B"}, {"C"}, {"B", "C"}}
CS2 == {{"A"}, {"C"}}
CS1 == {{"B"}}
PS2 == {{"A"}, {"A", "B"}}
NoSets == {}
PS3 == {{}, {"A"}, {"A", "B"}}
RS2 == {{"*"}, {"A"}, {"A", "B"}}
RS3 == {{"*"}, {"A"}, {"B"}, {"C"}, {"A", "B"}, {"A", "C"}, {"B", "C"}, {"A", "B", "C"}}
(* Simulation: one successor per action kind (TLC picks uniformly among successor states, so with Next the 3 x 6 Put
   variants would swamp Delete) - arguments are drawn with RandomElement *)
RE(S) == RandomElement(S)
Written == {d \in Docs : docs[d].seq > 0}
Live == {d \in Docs : docs[d].seq > 0 /\ ~docs[d].del /\ docs[d].alt = None}
Alive == {d \in Docs : docs[d].seq > 0 /\ ~docs[d].del}
SimNext ==
  /\ Len(hist) < MaxWrites
  /\ \/ Put(RE(Docs), RE(PutSets))                                  \* create or update
     \/ (Written # {} /\ Put(RE(Written), RE(PutSets)))              \* update / channel move / resurrect
     \/ (Live # {} /\ Delete(RE(Live)))
     \/ (Live # {} /\ Delete(RE(Live)))
     \/ (Live # {} /\ CoalSets # {} /\ Coalesced(RE(Live), RE(CoalSets), RE(CoalSets)))
     \/ (Live # {} /\ Conflict(RE(Live), RE(ConfSets)))
     \/ (Live # {} /\ ConflictWin(RE(Live), RE(ConfSets)))
SimSpec == Init /\ [][SimNext]_vars
BehaviourExport ==
  (Len(hist) = MaxWrites) => PrintT(<<"BEH", ToJson([grants |-> grants, steps |-> hist])>>)
=============================================================================
