--------------------------- MODULE Trace_Changes ---------------------------
(* Validation of responses recorded from real changes feeds (harness/db/c01_changes_test.go).
   An epoch = one set of four databases (cache configurations warm, cold, len1, bypass) fed the same writes.
   Lines:  {a:"Reset", grants:{user:[channels]}, cfgs:[names]}          new epoch (fresh databases, static grants)
           {a:"Begin", docs:[names]}                                     the documents of the next behaviour
           {a:"Write", op, doc, chans, seq, views:[{docs:[{doc,seq,rev,chans,del,rem:[{ch,seq,rev,del}]}]}]}
                                                                         views[i] = admin view in configuration i AFTER the write
           {a:"Base",  u, req, ao, resp:[{rows,last,lastTok}]}           answer from the beginning, per configuration
           {a:"Since", u, req, ao, since, tok:[l,t,s], lim, resp:[..]}   answer from a later position (token string parsed by the server)
           {a:"Pages", u, req, ao, since, tok, k, resp:[{pages:[{rows,last,lastTok}]}]}   page-through, each page resumed from
                                                                         the last_seq STRING of the previous one
           {a:"View", views:[{docs:[..]}]}                                 admin view after concurrent writers stopped (no model step)
           {a:"Cont", u, req, ao, resp:[{rows}]}                           everything a continuous feed delivered while writers were
                                                                         racing and until a generous bound after they stopped
           {a:"Late", u, req, ao, resp:[{pages:[{rows}]}]}                 a continuous feed over a change cache that is fed out of order
                                                                         (sequences skipped, then arriving late); pages = the rows of
                                                                         each iteration of the feed (split at its "caught up" markers)
   rows = [{seq (string), tok:[l,t,s], doc, rev, removed:[..], del}].  A per-configuration element that is identical to
   the first configuration's is logged as {eq:true}.
   Pass P: the C01 predicates of Changes.tla evaluated on the recorded rows against the ground truth: channel membership,
   departures (which channel was left at which sequence) and deletions follow from the recorded INPUTS (the writes, applied by
   PutDoc/DeleteDoc/...: a departure is stamped once, when it happens); sequences and revision identities are the recorded
   real ones.  (Documents written by concurrent writers or directly into the bucket have no input history: for them the
   recorded admin view is the truth.)
   Pass C: the document bookkeeping and the rows equal the model's (PutDoc/... and RefFeed), revisions aside. *)
EXTENDS Changes, TraceLib

VARIABLES l,
          docsC,    \* per configuration: document -> admin view record (the REAL sync metadata)
          base,     \* the answer from the beginning of the current request group, per configuration
          cur       \* the request/response of the current line ([kind |-> "none"] otherwise)
tvars == <<vars, l, docsC, base, cur>>

UTrace == {}
T == Trace[l]
LSet(x) == {x[i] : i \in 1..Len(x)}
Ev(a) == l <= TraceLen /\ Trace[l].a = a /\ l' = l + 1
Idle == [kind |-> "none"]
NCfg == Len(docsC)

RowOf(r) == [tok |-> Mk(r.tok[1], r.tok[2], r.tok[3]), doc |-> r.doc, rev |-> r.rev, removed |-> LSet(r.removed), del |-> r.del]
RowsOf(x) == [i \in 1..Len(x) |-> RowOf(x[i])]
RemF(v) == [c \in {v.rem[i].ch : i \in 1..Len(v.rem)} |->
              LET i == CHOOSE j \in 1..Len(v.rem) : v.rem[j].ch = c IN [seq |-> v.rem[i].seq, rev |-> v.rem[i].rev, del |-> v.rem[i].del]]
DocRec(v) == [seq |-> v.seq, rev |-> v.rev, chans |-> LSet(v.chans), del |-> v.del, rem |-> RemF(v)]
Fresh == [seq |-> 0, rev |-> "", chans |-> {}, del |-> FALSE, rem |-> <<>>]
Extend(f, names, val) == [d \in DOMAIN f \cup names |-> IF d \in DOMAIN f THEN f[d] ELSE val]
Overlay(f, vs) == [d \in DOMAIN f \cup {vs[i].doc : i \in 1..Len(vs)} |->
                     IF \E i \in 1..Len(vs) : vs[i].doc = d
                     THEN DocRec(vs[CHOOSE i \in 1..Len(vs) : vs[i].doc = d]) ELSE f[d]]
GrantF(g) == [u \in DOMAIN g |-> LSet(g[u])]

TInit == /\ docs = <<>> /\ nextSeq = 1 /\ grants = <<>> /\ hist = <<>>
         /\ l = 1 /\ docsC = <<>> /\ base = <<>> /\ cur = Idle

Reset == /\ Ev("Reset")
         /\ grants' = GrantF(T.grants) /\ docs' = <<>> /\ nextSeq' = 1 /\ hist' = <<>>
         /\ docsC' = [i \in 1..Len(T.cfgs) |-> <<>>] /\ base' = <<>> /\ cur' = Idle
Begin == /\ Ev("Begin")
         /\ docs' = Extend(docs, LSet(T.docs), NoDoc)
         /\ docsC' = [i \in 1..NCfg |-> Extend(docsC[i], LSet(T.docs), Fresh)]
         /\ base' = <<>> /\ cur' = Idle /\ UNCHANGED <<nextSeq, grants, hist>>

(* the model's bookkeeping for a write (ghost in pass P, compared with the real one in pass C) *)
ModelWrite ==
  LET d == T.doc
      NC == LSet(T.chans)
      n == T.seq IN
  /\ docs' = [docs EXCEPT ![d] = CASE T.op = "Put" -> PutDoc(@, n, n, NC)
                                   [] T.op = "Delete" -> DeleteDoc(@, n, n)
                                   [] T.op = "Conflict" -> ConflictDoc(@, n, n, NC)
                                   [] T.op = "ConflictWin" -> ConflictWinDoc(@, n, n, NC)]
  /\ nextSeq' = n + 1
PWrite == /\ Ev("Write") /\ ModelWrite
          /\ docsC' = [i \in 1..NCfg |-> IF T.views[i].eq /\ docsC[i] = docsC[1] THEN Overlay(docsC[1], T.views[1].docs)
                                         ELSE Overlay(docsC[i], T.views[IF T.views[i].eq THEN 1 ELSE i].docs)]
          /\ base' = <<>> /\ cur' = Idle /\ UNCHANGED <<grants, hist>>

Req(kind) == [kind |-> kind, u |-> T.u, req |-> LSet(T.req), ao |-> T.ao]
PagesOf(x) == [j \in 1..Len(x.pages) |-> RowsOf(x.pages[j].rows)]
RespRows == LET r1 == RowsOf(T.resp[1].rows) IN [i \in 1..NCfg |-> IF T.resp[i].eq THEN r1 ELSE RowsOf(T.resp[i].rows)]
RespPages == LET p1 == PagesOf(T.resp[1]) IN [i \in 1..NCfg |-> IF T.resp[i].eq THEN p1 ELSE PagesOf(T.resp[i])]
PBase  == /\ Ev("Base")
          /\ LET rr == RespRows IN
             /\ cur' = Req("Base") @@ [S |-> 0, lim |-> 0, resp |-> rr]
             /\ base' = rr
          /\ UNCHANGED <<vars, docsC>>
PSince == /\ Ev("Since") /\ base # <<>>
          /\ cur' = Req("Since") @@ [S |-> Safe(Mk(T.tok[1], T.tok[2], T.tok[3])), lim |-> T.lim, resp |-> RespRows]
          /\ UNCHANGED <<vars, docsC, base>>
PPages == /\ Ev("Pages") /\ base # <<>>
          /\ cur' = Req("Pages") @@ [S |-> Safe(Mk(T.tok[1], T.tok[2], T.tok[3])), lim |-> T.k, pages |-> RespPages]
          /\ UNCHANGED <<vars, docsC, base>>
PView  == /\ Ev("View")
          /\ docsC' = [i \in 1..NCfg |-> Overlay(docsC[i], T.views[IF T.views[i].eq THEN 1 ELSE i].docs)]
          /\ base' = <<>> /\ cur' = Idle /\ UNCHANGED vars
PCont  == /\ Ev("Cont")
          /\ cur' = Req("Cont") @@ [S |-> 0, lim |-> 0, resp |-> RespRows]
          /\ UNCHANGED <<vars, docsC, base>>
PLate  == /\ Ev("Late")
          /\ cur' = Req("Late") @@ [S |-> 0, lim |-> 0, pages |-> RespPages]
          /\ UNCHANGED <<vars, docsC, base>>
PNext == Reset \/ Begin \/ PWrite \/ PBase \/ PSince \/ PPages \/ PView \/ PCont \/ PLate
PSpec == TInit /\ [][PNext]_tvars

-----------------------------------------------------------------------------
(* pass C *)
SameBook(M, R) ==      \* model record M and real record R agree on everything but revision identities
  /\ M.seq = R.seq /\ M.chans = R.chans /\ M.del = R.del
  /\ \A c \in Chans : IF M.rem[c] = None THEN c \notin DOMAIN R.rem
                      ELSE c \in DOMAIN R.rem /\ R.rem[c].seq = M.rem[c].seq /\ R.rem[c].del = M.rem[c].del
  /\ DOMAIN R.rem \subseteq Chans
NoRev(R) == [i \in 1..Len(R) |-> [tok |-> R[i].tok, doc |-> R[i].doc, removed |-> R[i].removed, del |-> R[i].del]]
CWrite == /\ PWrite /\ T.seq >= nextSeq
          /\ \A i \in 1..NCfg : /\ SameBook(docs'[T.doc], docsC'[i][T.doc])
                                /\ T.op = "Conflict" => docsC'[i][T.doc].rev = docsC[i][T.doc].rev
                                /\ T.op # "Conflict" => docsC'[i][T.doc].rev # docsC[i][T.doc].rev
                                /\ \A d \in DOMAIN docsC[i] \ {T.doc} : docsC'[i][d] = docsC[i][d]
VC1 == VisChans(grants, T.u, LSet(T.req))
CBase  == PBase  /\ LET ref == NoRev(RefFeed(docs, VC1, 0, 0, T.ao)) IN \A i \in 1..NCfg : NoRev(cur'.resp[i]) = ref
CSince == PSince /\ LET ref == NoRev(RefFeed(docs, VC1, Safe(Mk(T.tok[1], T.tok[2], T.tok[3])), T.lim, T.ao)) IN
                    \A i \in 1..NCfg : NoRev(cur'.resp[i]) = ref
CPages == PPages /\ LET ref == NoRev(RefFeed(docs, VC1, Safe(Mk(T.tok[1], T.tok[2], T.tok[3])), 0, T.ao)) IN
                    \A i \in 1..NCfg : NoRev(Concat(cur'.pages[i])) = ref
CNext == Reset \/ Begin \/ CWrite \/ CBase \/ CSince \/ CPages \/ PView \/ PCont \/ PLate
CSpec == TInit /\ [][CNext]_tvars

Progress == Mark(l)
Accept == PrintHWM

-----------------------------------------------------------------------------
(* C01 on the recorded responses.  One invariant per clause of the statement. *)
IsReq == cur.kind \in {"Base", "Since", "Pages"}
VC == VisChans(grants, cur.u, cur.req)
(* configurations whose answer or documents differ from the first one's (equal ones need no second evaluation) *)
Paged == cur.kind \in {"Pages", "Late"}
Cfgs == {1} \cup {i \in 1..NCfg : docsC[i] # docsC[1] \/ (IF Paged THEN cur.pages[i] # cur.pages[1] ELSE cur.resp[i] # cur.resp[1])}
(* ground truth of configuration i (see the header) *)
Truth(i) == [d \in DOMAIN docsC[i] |->
               IF d \in DOMAIN docs /\ docs[d].seq > 0 THEN [docs[d] EXCEPT !.rev = docsC[i][d].rev] ELSE docsC[i][d]]
(* all row lists of the current line, per configuration *)
Lists(i) == IF Paged THEN {cur.pages[i][j] : j \in 1..Len(cur.pages[i])} ELSE {cur.resp[i]}

RSound == IsReq => \A i \in Cfgs : LET DS == Truth(i) IN \A R \in Lists(i) : Sound(DS, VC, R, cur.S)
ROrdered == IsReq => \A i \in Cfgs : \A R \in Lists(i) : Ordered(R)
RCompleteCur ==
  cur.kind \in {"Base", "Since"} => \A i \in Cfgs : CompleteCur(Truth(i), VC, cur.resp[i], cur.S, cur.lim, cur.ao)
RRemovalNoticed ==
  cur.kind \in {"Base", "Since"} => \A i \in Cfgs : RemovalNoticed(Truth(i), VC, cur.resp[i], cur.S, cur.lim, cur.ao)
(* resuming from any position (plain or compound token), with or without a limit, yields the same entries *)
RResumeConsistent ==
  cur.kind = "Since" => \A i \in Cfgs : LimitPrefix(base[i], cur.resp[i], cur.S, cur.lim)
RPagingConsistent ==
  cur.kind = "Pages" => \A i \in Cfgs : PagingConsistent(base[i], cur.pages[i], cur.S, cur.lim)
(* the answer does not depend on cache state *)
RConfigIndependent ==
  IsReq => \A i \in 1..NCfg : IF Paged THEN cur.pages[i] = cur.pages[1] ELSE cur.resp[i] = cur.resp[1]
(* a continuous request eventually delivers the current revision of every visible document without being re-issued *)
REventually ==
  /\ cur.kind = "Cont" => \A i \in 1..NCfg : CompleteCur(Truth(i), VC, cur.resp[i], 0, 0, FALSE)
  /\ cur.kind = "Late" => \A i \in 1..NCfg : CompleteCur(Truth(i), VC, Concat(cur.pages[i]), 0, 0, FALSE)
(* a continuous feed over late-arriving sequences: every iteration in increasing order, no entry delivered twice,
   nothing from invisible channels *)
RLateOrdered == cur.kind = "Late" => \A i \in 1..NCfg : \A j \in 1..Len(cur.pages[i]) : Ordered(cur.pages[i][j])
RLateNoDup ==
  cur.kind = "Late" => \A i \in 1..NCfg :
    LET R == Concat(cur.pages[i]) IN
    \A a, b \in 1..Len(R) : (a # b) => ~(R[a].doc = R[b].doc /\ R[a].tok.s = R[b].tok.s)
RLateSound == cur.kind = "Late" => \A i \in 1..NCfg : \A j \in 1..Len(cur.pages[i]) : Sound(Truth(i), VC, cur.pages[i][j], 0)
(* auxiliary: the four databases hold the same documents *)
ViewsAgree == \A i, j \in 1..Len(docsC) : docsC[i] = docsC[j]
=============================================================================
