CONSTANT N = 8
CONSTANT Docs = {"d1", "d2"}
CONSTANT Chans = {"A", "B"}
CONSTANT Users <- U2
CONSTANT GrantOpts <- GO2
CONSTANT ReqSets <- RS2
CONSTANT MaxWrites = 2
CONSTANT PutSets <- PS3
CONSTANT ConfSets <- CS1
CONSTANT CoalSets <- PS2
CONSTANT Lims = {0, 1}
SPECIFICATION Spec
VIEW view
INVARIANT OracleAdmitsReference
INVARIANT NoLeak
INVARIANT TypeOK
CHECK_DEADLOCK FALSE
