CONSTANT Users <- U2
CONSTANT Roles <- R1
CONSTANT Chans <- ChABR
CONSTANT Docs <- D1
CONSTANT Classes <- C3
CONSTANT FnNames <- FN13
CONSTANT FnTab <- Tabs
CONSTANT AdminSet <- Adm1
CONSTANT MaxSetFn = 1
CONSTANT MaxRuns = 1
CONSTANT MaxWrites = 2
CONSTANT Observe = FALSE
CONSTANT Dev <- DevRegenNoInval
SPECIFICATION Spec
VIEW view
INVARIANT PerDocFresh
INVARIANT PrincipalsFresh
INVARIANT PrincipalsFreshAll
INVARIANT FromScratch
INVARIANT FromScratchAll
INVARIANT Idempotent
INVARIANT CacheSound
INVARIANT NoSeqWithoutRegen
INVARIANT TypeOK
CHECK_DEADLOCK FALSE
