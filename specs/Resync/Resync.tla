------------------------------- MODULE Resync -------------------------------
(* Resync equals evaluating the new sync function from scratch (C18, DESIGN 4.18).

   A sync function is a FINITE TABLE  bodyClass |-> [ch, acc, rol, rej]  (channels, access grants <<principal,
   channel>>, role grants <<user, role>>, reject).  A rejecting row still "computes" its ch/acc/rol: the JS
   generated from it makes its channel()/access()/role() calls BEFORE it throws.

   Anchors (one action per critical section of the real code):
     SetFn(f)            db/database_collection.go UpdateSyncFun
     Write / Conflict    db/crud.go documentUpdateFunc under the CURRENT function: the new revision is evaluated
                         (a rejected write does not exist); when the current revision changes, the document's
                         channels / access / role_access are set from the evaluation of the (new) current revision;
                         a non-winning new leaf keeps its channels in the revision tree; a winner that is demoted by
                         a conflicting sibling does NOT carry its channels into the revision tree (observed);
                         principals whose grants changed are invalidated (crud.go MarkPrincipalsChanged)
     ResyncStart(regen)  db/background_mgr_resync_dcp.go Run: one-shot DCP feed over the documents present
     ResyncDoc(d)        db/database.go ResyncDocument / getResyncedDocument: re-evaluate every leaf, for the current
                         revision updateChannels / updateAccess; rewrite the document only if something changed
                         (or sequences are regenerated)
     ResyncDone          background_mgr_resync_dcp.go invalidatePrincipals / database.go invalidateAllPrincipals,
                         updateAllPrincipalsSequences
     Request(u)          auth.GetUser + InheritedCollectionChannels (+ a since-0 changes request, + GetRev per leaf)
     Scratch             observation of a database that has used the current function from the beginning

   Named deviations of the code from the ideal (record Dev of BOOLEANs; all FALSE = the design that satisfies C18):
     skipTomb      the resync feed skips documents whose current revision is a tombstone (empty body)
     keepRoles     a rejected evaluation clears channels and access but keeps the role grants computed before the throw
     regenNoInval  with regenerate_sequences the principals get new sequences (and are loaded) but are not invalidated
     loserLazy     a changed non-winning leaf alone does not make the document "changed": it is only persisted when
                   the current revision's own channels / grants changed too (or sequences are regenerated)

   Impl* conjuncts define the implementation variables (win, st, ctr, cache, rs, obs), Ghost* the ground truth and
   the bookkeeping of the property (fn, adm, leaves, ...) from the inputs alone; Trace_Resync reuses them. *)
EXTENDS Integers, Sequences, FiniteSets, TLC

CONSTANTS Users, Roles, Chans, Docs, Classes,   \* finite sets of strings
          FnNames, FnTab,                       \* FnTab[f] = the table of function f
          AdminSet,                             \* admin configurations [ch: [Princ -> SUBSET Chans], ro: [Users -> SUBSET Roles]]
          MaxWrites, MaxSetFn, MaxRuns,         \* bounds of the exhaustive model: writes, function changes, resync runs
          Dev,                                  \* [skipTomb, keepRoles, regenNoInval, loserLazy : BOOLEAN]
          Observe                               \* BOOLEAN: requests / the from-scratch database record what they return (obs, seen, scr)

Princ    == Users \cup Roles
Public   == "!"
Branches == {1, 2}
NoCls    == "-"                                  \* the body class of a tombstone written without a body (DELETE)
Ideal    == [skipTomb |-> FALSE, keepRoles |-> FALSE, regenNoInval |-> FALSE, loserLazy |-> FALSE]
AsBuilt  == [skipTomb |-> TRUE,  keepRoles |-> TRUE,  regenNoInval |-> TRUE,  loserLazy |-> TRUE]
DevSpace == [skipTomb : BOOLEAN, keepRoles : BOOLEAN, regenNoInval : BOOLEAN, loserLazy : BOOLEAN]

NoLeaf  == [st |-> "none", cls |-> NoCls, gen |-> 0, tb |-> 0]
NoDoc   == [ch |-> [b \in Branches |-> {}], acc |-> {}, rol |-> {}, seq |-> 0, ver |-> 0]
NoCache == [cok |-> FALSE, cch |-> {}, rok |-> FALSE, cro |-> {}]
NoRs    == [on |-> FALSE, regen |-> FALSE, todo |-> {}, touched |-> {}, used |-> 0, again |-> FALSE, dirty |-> FALSE]
NoObs   == [on |-> FALSE, u |-> "", chans |-> {}, roles |-> {}, vis |-> {}, vrev |-> {}]
NoScr   == [on |-> FALSE, users |-> [u \in Users |-> NoObs], okd |-> {}, win |-> [d \in Docs |-> 0], docs |-> [d \in Docs |-> [ch |-> {}, acc |-> {}, rol |-> {}]]]
NoLast  == [on |-> FALSE, again |-> FALSE, regen |-> FALSE, dirty |-> FALSE, dver |-> {}, dctr |-> 0, dstore |-> {}]

VARIABLES
  fn,      \* input: the table in force
  adm,     \* input: admin grants [ch, ro]
  leaves,  \* ghost: per document per branch the leaf [st: none|live|dead, cls, gen, tb]               (from the inputs)
  hcls,    \* ghost: per document the body classes ever written (a from-scratch database needs all of them accepted)
  dem,     \* ghost: per document the branches whose leaf was the current revision and was demoted by a sibling
  wr,      \* ghost: per document: written since the last resync began
  nw,      \* ghost: [w, f, r] number of writes, function changes, resync runs so far (bounds of the model)
  synced,  \* ghost: every document was evaluated under fn (by a write, or by a completed resync)
  runs,    \* ghost: resyncs completed since the function last changed
  qruns,   \* ghost: resyncs completed since the function last changed or a document was last written
  last,    \* ghost: what the last completed resync changed
  seen,    \* ghost: per user the last observation since the state last changed
  st0,     \* ghost: stored channels / grants of the documents when the running resync began
  win,     \* impl : branch of the document's current revision, 0 = no document                        (REAL in traces)
  st,      \* impl : per document [ch: per leaf stored channels, acc, rol: the winner's stored grants, seq, ver] (REAL)
  ctr,     \* impl : last allocated sequence                                                           (REAL)
  cache,   \* impl : per principal computed channels / roles, cok/rok = FALSE when invalidated         (REAL)
  rs,      \* impl : the running resync (model only)
  obs,     \* impl : what the last Request returned                                                    (REAL)
  scr,     \* what a from-scratch database shows (model: the ideal; traces: the REAL second database)
  hist
impl  == <<win, st, ctr, cache, rs, obs, scr>>
ghost == <<fn, adm, leaves, hcls, dem, wr, nw, synced, runs, qruns, last, seen, st0>>
vars  == <<impl, ghost, hist>>
(* every growing variable is bounded by a guard on nw, so the reachable graph is finite without a step bound; the absolute
   values of sequences / versions / counter are left out of the view (what a run consumed is kept in rs.touched, rs.used),
   and so are the observations: a request matters to the future only through the principal documents it recomputes.
   In the exhaustive model Observe = FALSE: obs / seen / scr stay empty (values that are outside the view are never
   normalised by TLC's fingerprinting, and lazily built sets in them broke its disk queue), and the two statements about
   observations are checked in the form PrincipalsFreshAll / FromScratchAll over what a request WOULD return. *)
view  == <<win, [d \in Docs |-> [ch |-> st[d].ch, acc |-> st[d].acc, rol |-> st[d].rol]], cache, rs,
           fn, adm, leaves, hcls, dem, wr, nw, synced, runs, qruns, last, st0>>     \* obs, seen, scr: see PrincipalsFreshAll, FromScratchAll

-----------------------------------------------------------------------------
(* the table *)
EmptyOut       == [ch |-> {}, acc |-> {}, rol |-> {}]
Raw(f, c)      == IF c = NoCls THEN EmptyOut ELSE [ch |-> f[c].ch, acc |-> f[c].acc, rol |-> f[c].rol]
Accepted(f, c) == IF c = NoCls THEN TRUE ELSE ~f[c].rej
Out(f, c)      == IF Accepted(f, c) THEN Raw(f, c) ELSE EmptyOut   \* rejected => no channels, no grants

Exists(d)    == win[d] # 0
HasLeaf(d,b) == leaves[d][b].st # "none"
WCls(d)      == leaves[d][win[d]].cls
Of(S, p)     == {x[2] : x \in {y \in S : y[1] = p}}

(* Ground truth: a function of the admin inputs, the table, the body classes and which revision is current *)
GAcc(p)    == UNION {Of(Out(fn, WCls(d)).acc, p) : d \in {e \in Docs : Exists(e)}}
GRoles(u)  == UNION {Of(Out(fn, WCls(d)).rol, u) : d \in {e \in Docs : Exists(e)}}
Own(p)     == adm.ch[p] \cup GAcc(p) \cup {Public}
RolesOf(u) == adm.ro[u] \cup GRoles(u)
Eff(u)     == Own(u) \cup UNION {Own(r) : r \in RolesOf(u)}

(* What the implementation computes from its own stored maps *)
ComputeS(S, p)  == adm.ch[p] \cup UNION {Of(S[d].acc, p) : d \in Docs} \cup {Public}
ComputeRS(S, u) == adm.ro[u] \cup UNION {Of(S[d].rol, u) : d \in Docs}
LoadedS(S, p)   == [cok |-> TRUE, cch |-> IF cache[p].cok THEN cache[p].cch ELSE ComputeS(S, p),
                    rok |-> p \in Users,
                    cro |-> IF p \in Users THEN (IF cache[p].rok THEN cache[p].cro ELSE ComputeRS(S, p)) ELSE {}]
Compute(p)  == ComputeS(st, p)
ComputeR(u) == ComputeRS(st, u)
Loaded(p)   == LoadedS(st, p)
EffStored(u)   == Compute(u) \cup UNION {Compute(r) : r \in ComputeR(u)}
Inval(c, chg)  == [p \in Princ |-> [cok |-> c[p].cok /\ p \notin chg.c, cch |-> IF p \in chg.c THEN {} ELSE c[p].cch,
                                    rok |-> c[p].rok /\ p \notin chg.r, cro |-> IF p \in chg.r THEN {} ELSE c[p].cro]]
InvalAll       == [p \in Princ |-> NoCache]
FreshCache     == [p \in Princ |-> [cok |-> adm.ch[p] = {}, cch |-> IF adm.ch[p] = {} THEN {Public} ELSE {},
                                    rok |-> p \in Users /\ adm.ro[p] = {}, cro |-> {}]]
VisDocs(cs)    == {d \in Docs : Exists(d) /\ st[d].ch[win[d]] \cap cs # {}}
VisRevs(cs)    == {x \in Docs \X Branches : HasLeaf(x[1], x[2]) /\ st[x[1]].ch[x[2]] \cap cs # {}}

(* Revision tree reduced to the leaves (as specs/Access): live before tombstoned, higher generation, then digest *)
Rank(br)   == br.gen * 3 + br.tb
Winners(B) ==
  LET lv == {b \in Branches : B[b].st = "live"}
      dd == {b \in Branches : B[b].st = "dead"}
      S  == IF lv # {} THEN lv ELSE dd
  IN IF S = {} THEN {0}
     ELSE {b \in S : \A c \in S : Rank(B[c]) < Rank(B[b]) \/ c = b \/ (Rank(B[c]) = Rank(B[b]) /\ B[b].tb = 1)}
NewBWrite(d, b, cls, del) == [leaves[d] EXCEPT ![b] = [st |-> IF del THEN "dead" ELSE "live", cls |-> cls, gen |-> @.gen + 1, tb |-> 1]]
NewBConflict(d, cls, hi)  == [leaves[d] EXCEPT ![2] = [st |-> "live", cls |-> cls, gen |-> leaves[d][1].gen, tb |-> IF hi THEN 2 ELSE 0]]

(* The from-scratch database: documents all of whose writes the function accepts *)
(* written as a UNION so that TLC holds an enumerated set: a lazily filtered set stored in a state variable made TLC's
   disk queue fail ("ValueVec.size() ... elems is null") *)
Comp           == UNION {IF Exists(d) /\ (\A c \in hcls[d] : Accepted(fn, c)) THEN {d} ELSE {} : d \in Docs}
NonCompGrants  == \E d \in Docs : Exists(d) /\ d \notin Comp /\ (Out(fn, WCls(d)).acc # {} \/ Out(fn, WCls(d)).rol # {})
IdealVis(u)    == {d \in Comp : Out(fn, WCls(d)).ch \cap Eff(u) # {}}
IdealRev(u)    == {x \in Comp \X Branches : HasLeaf(x[1], x[2]) /\ x[2] \notin dem[x[1]]
                                            /\ Out(fn, leaves[x[1]][x[2]].cls).ch \cap Eff(u) # {}}
IdealScr       == [on |-> TRUE, users |-> [u \in Users |-> [on |-> TRUE, u |-> u, chans |-> Eff(u), roles |-> RolesOf(u),
                                                            vis |-> IdealVis(u), vrev |-> IdealRev(u)]],
                   okd |-> Comp, win |-> [d \in Docs |-> IF d \in Comp THEN win[d] ELSE 0],
                   docs |-> [d \in Docs |-> IF d \in Comp THEN Out(fn, WCls(d)) ELSE EmptyOut]]

-----------------------------------------------------------------------------
Init ==
  /\ fn \in {FnTab[f] : f \in FnNames} /\ adm \in AdminSet
  /\ leaves = [d \in Docs |-> [b \in Branches |-> NoLeaf]] /\ hcls = [d \in Docs |-> {}] /\ dem = [d \in Docs |-> {}]
  /\ wr = [d \in Docs |-> FALSE] /\ nw = [w |-> 0, f |-> 0, r |-> 0] /\ synced = TRUE /\ runs = 0 /\ qruns = 0 /\ last = NoLast
  /\ seen = [u \in Users |-> NoObs] /\ st0 = [d \in Docs |-> [ch |-> NoDoc.ch, acc |-> {}, rol |-> {}]]
  /\ win = [d \in Docs |-> 0] /\ st = [d \in Docs |-> NoDoc] /\ ctr = 0 /\ cache = FreshCache
  /\ rs = NoRs /\ obs = NoObs /\ scr = NoScr
  /\ hist = <<>>

Step(r)  == hist' = Append(hist, r)
Unseen   == seen' = [u \in Users |-> NoObs] /\ scr' = NoScr /\ obs' = NoObs

(* ---- documents: B = new leaf table of d, b = branch that received the new revision ---- *)
ImplDoc(d, B, b) ==
  \E w \in Winners(B) :
    LET o   == Out(fn, B[b].cls)
        ow  == Out(fn, B[w].cls)
        cur == (w = b) \/ (w # win[d])                     \* the current revision changed
        nch == [x \in Branches |-> IF x = w THEN (IF cur THEN ow.ch ELSE st[d].ch[x])
                                   ELSE IF x = b THEN o.ch          \* non-winning new leaf: kept in the revision tree
                                   ELSE IF x = win[d] THEN {}       \* demoted winner: not carried into the revision tree
                                   ELSE st[d].ch[x]]
        nac == IF cur THEN ow.acc ELSE st[d].acc
        nro == IF cur THEN ow.rol ELSE st[d].rol
        chg == [c |-> {p \in Princ : Of(st[d].acc, p) # Of(nac, p)}, r |-> {u \in Users : Of(st[d].rol, u) # Of(nro, u)}]
    IN /\ win' = [win EXCEPT ![d] = w]
       /\ st' = [st EXCEPT ![d] = [ch |-> nch, acc |-> nac, rol |-> nro, seq |-> ctr + 1, ver |-> @.ver + 1]]
       /\ ctr' = ctr + 1
       /\ cache' = Inval(cache, chg)
       /\ rs' = IF rs.on THEN [rs EXCEPT !.dirty = TRUE, !.used = @ + 1] ELSE rs
GhostDoc(d, B, b, cls) ==
  /\ leaves' = [leaves EXCEPT ![d] = B]
  /\ hcls' = [hcls EXCEPT ![d] = @ \cup {cls}]
  /\ dem' = [dem EXCEPT ![d] = (@ \ {b}) \cup (IF win[d] \notin {0, b, win'[d]} THEN {win[d]} ELSE {})]
  /\ wr' = [wr EXCEPT ![d] = TRUE] /\ nw' = [nw EXCEPT !.w = @ + 1] /\ qruns' = 0 /\ last' = NoLast
  /\ UNCHANGED <<fn, adm, synced, runs, st0>> /\ Unseen

CanWrite(d, b) ==
  LET B == leaves[d] IN
  \/ (B[1].st = "none" /\ B[2].st = "none" /\ b = 1)
  \/ B[b].st = "live"

Write(d, b, cls, del) ==
  /\ CanWrite(d, b) /\ (del => leaves[d][b].st = "live") /\ (cls = NoCls => del) /\ Accepted(fn, cls) /\ nw.w < MaxWrites /\ (rs.on \/ nw.r < MaxRuns)
  /\ ImplDoc(d, NewBWrite(d, b, cls, del), b) /\ GhostDoc(d, NewBWrite(d, b, cls, del), b, cls)
  /\ Step([a |-> "Write", d |-> d, b |-> b, cls |-> cls, del |-> del])
Conflict(d, cls, hi) ==
  /\ leaves[d][1].st # "none" /\ leaves[d][2].st = "none" /\ cls # NoCls /\ Accepted(fn, cls) /\ nw.w < MaxWrites /\ (rs.on \/ nw.r < MaxRuns)
  /\ ImplDoc(d, NewBConflict(d, cls, hi), 2) /\ GhostDoc(d, NewBConflict(d, cls, hi), 2, cls)
  /\ Step([a |-> "Conflict", d |-> d, cls |-> cls, hi |-> hi])

(* ---- the function ---- *)
GhostSetFn(t) ==
  /\ fn' = t
  /\ synced' = (synced /\ (t = fn \/ \A d \in Docs : ~Exists(d)))
  /\ runs' = (IF t = fn THEN runs ELSE 0)
  /\ qruns' = (IF t = fn THEN qruns ELSE 0)
  /\ last' = NoLast /\ nw' = [nw EXCEPT !.f = @ + 1] /\ UNCHANGED <<adm, leaves, hcls, dem, wr, st0>> /\ Unseen
SetFn(f) ==
  /\ ~rs.on /\ nw.f < MaxSetFn /\ nw.r < MaxRuns
  /\ UNCHANGED <<win, st, ctr, cache, rs>> /\ GhostSetFn(FnTab[f])
  /\ Step([a |-> "SetFn", f |-> f])

(* ---- resync ---- *)
Stored(s) == [ch |-> s.ch, acc |-> s.acc, rol |-> s.rol]
(* what the resync makes of document d: new stored channels / grants, and whether the document is rewritten *)
Resynced(d, regen, dv) ==
  LET w == win[d] IN
  IF w = 0 \/ (dv.skipTomb /\ leaves[d][w].st = "dead")
  THEN [ch |-> st[d].ch, acc |-> st[d].acc, rol |-> st[d].rol, rw |-> FALSE]
  ELSE LET wc   == leaves[d][w].cls
           nch  == [x \in Branches |-> IF HasLeaf(d, x) THEN Out(fn, leaves[d][x].cls).ch ELSE {}]
           nac  == Out(fn, wc).acc
           nro  == IF dv.keepRoles /\ ~Accepted(fn, wc) THEN Raw(fn, wc).rol ELSE Out(fn, wc).rol
           wchg == nch[w] # st[d].ch[w] \/ nac # st[d].acc \/ nro # st[d].rol
           lchg == \E x \in Branches \ {w} : nch[x] # st[d].ch[x]
           rw   == regen \/ wchg \/ (~dv.loserLazy /\ lchg)
       IN IF rw THEN [ch |-> nch, acc |-> nac, rol |-> nro, rw |-> TRUE]
                ELSE [ch |-> st[d].ch, acc |-> st[d].acc, rol |-> st[d].rol, rw |-> FALSE]

ResyncStart(regen) ==
  /\ ~rs.on /\ nw.r < MaxRuns
  /\ rs' = [on |-> TRUE, regen |-> regen, todo |-> {d \in Docs : Exists(d)}, touched |-> {}, used |-> 0,
            again |-> qruns >= 1, dirty |-> FALSE]
  /\ st0' = [d \in Docs |-> Stored(st[d])] /\ wr' = [d \in Docs |-> FALSE] /\ last' = NoLast /\ nw' = [nw EXCEPT !.r = @ + 1]
  /\ UNCHANGED <<win, st, ctr, cache, fn, adm, leaves, hcls, dem, synced, runs, qruns>> /\ Unseen
  /\ Step([a |-> "ResyncStart", regen |-> regen])

ImplResyncDoc(d, dv) ==
  LET r == Resynced(d, rs.regen, dv) IN
  /\ st' = [st EXCEPT ![d] = [ch |-> r.ch, acc |-> r.acc, rol |-> r.rol,
                              seq |-> IF r.rw /\ rs.regen THEN ctr + 1 ELSE @.seq,
                              ver |-> IF r.rw THEN @.ver + 1 ELSE @.ver]]
  /\ ctr' = IF r.rw /\ rs.regen THEN ctr + 1 ELSE ctr
  /\ rs' = [rs EXCEPT !.todo = @ \ {d}, !.touched = IF r.rw THEN @ \cup {d} ELSE @,
                       !.used = IF r.rw /\ rs.regen THEN @ + 1 ELSE @]
  /\ UNCHANGED <<win, cache>>
ResyncDoc(d) ==
  /\ rs.on /\ d \in rs.todo
  /\ ImplResyncDoc(d, Dev)
  /\ UNCHANGED <<ghost, obs, scr>>
  /\ Step([a |-> "ResyncDoc", d |-> d])

(* principals after the documents: cache' and ctr' *)
ImplPrincipals(S, c, regen, changed, dv) ==            \* S, c: stored documents and counter after the documents
  IF regen
  THEN /\ ctr' = c + Cardinality(Princ)               \* every principal gets a new sequence (it is loaded for that)
       /\ cache' = IF dv.regenNoInval \/ changed = 0 THEN [p \in Princ |-> LoadedS(S, p)] ELSE InvalAll
  ELSE /\ ctr' = c
       /\ cache' = IF changed > 0 THEN InvalAll ELSE cache
GhostDone(again, dirty, regen, dver, dctr, base) ==     \* base: stored channels / grants when the run began
  /\ synced' = TRUE /\ runs' = runs + 1
  /\ qruns' = (IF dirty THEN 0 ELSE qruns + 1)
  /\ last' = [on |-> TRUE, again |-> again /\ ~dirty, regen |-> regen, dirty |-> dirty, dver |-> dver, dctr |-> dctr,
              dstore |-> {d \in Docs : Stored(st'[d]) # base[d]}]
  /\ UNCHANGED <<fn, adm, leaves, hcls, dem>> /\ Unseen
ResyncDone ==
  /\ rs.on /\ rs.todo = {}
  /\ ImplPrincipals(st, ctr, rs.regen, Cardinality(rs.touched), Dev) /\ rs' = NoRs /\ UNCHANGED <<win, st>>
  /\ GhostDone(rs.again, rs.dirty, rs.regen, rs.touched, rs.used + (ctr' - ctr), st0) /\ UNCHANGED <<wr, nw, st0>>
  /\ Step([a |-> "ResyncDone"])

(* ---- observations (never while a resync is running: C03's recorded finding is not re-reported) ---- *)
ReqCache(u) == LET lu == Loaded(u) IN [q \in Princ |-> IF q = u \/ q \in lu.cro THEN Loaded(q) ELSE cache[q]]
ReqChans(c2, u) == c2[u].cch \cup UNION {c2[r].cch : r \in c2[u].cro}
ImplRequest(u) ==
  LET c2 == ReqCache(u) IN
  /\ cache' = c2
  /\ obs' = IF Observe THEN [on |-> TRUE, u |-> u, chans |-> ReqChans(c2, u), roles |-> c2[u].cro,
                              vis |-> VisDocs(ReqChans(c2, u)), vrev |-> VisRevs(ReqChans(c2, u))]
                        ELSE NoObs
  /\ UNCHANGED <<win, st, ctr, rs, scr>>
GhostRequest(u) ==
  /\ seen' = IF Observe THEN [seen EXCEPT ![u] = obs'] ELSE seen
  /\ UNCHANGED <<fn, adm, leaves, hcls, dem, wr, nw, synced, runs, qruns, last, st0>>
Request(u) == ~rs.on /\ (IF ReqCache(u) # cache THEN TRUE ELSE Observe /\ ~seen[u].on) /\ ImplRequest(u) /\ GhostRequest(u) /\ Step([a |-> "Request", u |-> u])

Scratch ==
  /\ Observe /\ ~rs.on /\ ~scr.on
  /\ scr' = IdealScr /\ UNCHANGED <<win, st, ctr, cache, rs, obs, ghost>>
  /\ Step([a |-> "Scratch"])

Next ==
  /\ TRUE
  /\ \/ \E f \in FnNames : SetFn(f)
     \/ \E d \in Docs, b \in Branches, cls \in Classes \cup {NoCls}, del \in BOOLEAN : Write(d, b, cls, del)
     \/ \E d \in Docs, cls \in Classes, hi \in BOOLEAN : Conflict(d, cls, hi)
     \/ \E regen \in BOOLEAN : ResyncStart(regen)
     \/ \E d \in Docs : ResyncDoc(d)
     \/ ResyncDone
     \/ \E u \in Users : Request(u)
     \/ Scratch
Spec == Init /\ [][Next]_vars

-----------------------------------------------------------------------------
(* C18.  "After the sync function is changed and a resync has completed ..." *)
Settled == synced /\ runs >= 1 /\ ~rs.on

(* stale items: <<d, b, field>>.  Non-winning leaves of documents written since the resync began are not judged
   (the write path's own treatment of demoted winners is not resync's doing). *)
Stale ==
  {x \in Docs \X Branches \X {"ch", "acc", "rol"} :
     LET d == x[1]  b == x[2] IN
     /\ Exists(d) /\ HasLeaf(d, b)
     /\ CASE x[3] = "ch"  -> (b = win[d] \/ ~wr[d]) /\ st[d].ch[b] # Out(fn, leaves[d][b].cls).ch
          [] x[3] = "acc" -> b = win[d] /\ st[d].acc # Out(fn, WCls(d)).acc
          [] x[3] = "rol" -> b = win[d] /\ st[d].rol # Out(fn, WCls(d)).rol}
PerDocFresh == Settled => Stale = {}

PrincipalsFresh ==
  (obs.on /\ Settled) => /\ obs.chans = Eff(obs.u)
                         /\ obs.roles = RolesOf(obs.u)

Visible(o)  == [vis |-> o.vis \cap Comp, vrev |-> {x \in o.vrev : x[1] \in Comp /\ x[2] \notin dem[x[1]]}]
ScrVisible(o) == [vis |-> o.vis, vrev |-> {x \in o.vrev : x[2] \notin dem[x[1]]}]
FromScratchFor(u) == seen[u].on => Visible(seen[u]) = ScrVisible(scr.users[u])
FromScratch == (scr.on /\ Settled /\ ~NonCompGrants) => \A u \in Users : FromScratchFor(u)

(* The same two statements over what a request WOULD return now, for every user at once (exhaustive model only: there the
   observations seen / scr are left out of the view, so the observation-based forms are evaluated on representatives) *)
WouldSee(u) == LET c2 == ReqCache(u)  cs == ReqChans(c2, u)
               IN [on |-> TRUE, u |-> u, chans |-> cs, roles |-> c2[u].cro, vis |-> VisDocs(cs), vrev |-> VisRevs(cs)]
PrincipalsFreshAll == Settled => \A u \in Users : LET o == WouldSee(u) IN o.chans = Eff(u) /\ o.roles = RolesOf(u)
FromScratchAll == (Settled /\ ~NonCompGrants) =>
                    LET is == IdealScr IN \A u \in Users : Visible(WouldSee(u)) = ScrVisible(is.users[u])

Idempotent ==
  (last.on /\ last.again) => /\ last.dstore = {}
                             /\ (~last.regen => last.dver = {} /\ last.dctr = 0)

(* auxiliary / design invariants *)
ScratchSound ==   \* the from-scratch database holds the comparable documents, their current revisions evaluated by fn
  scr.on => /\ scr.okd = Comp
            /\ \A d \in Comp : scr.win[d] = win[d] /\ scr.docs[d] = Out(fn, WCls(d))
CacheSound ==     \* whatever is marked valid is right, once the function and the documents agree
  (Settled /\ Stale = {}) => \A p \in Princ : /\ (cache[p].cok => cache[p].cch = Own(p))
                                             /\ (p \in Users /\ cache[p].rok => cache[p].cro = RolesOf(p))
NoSeqWithoutRegen == (last.on /\ ~last.regen /\ ~last.dirty) => last.dctr = 0
TypeOK ==
  /\ \A d \in Docs : win[d] \in 0..2 /\ st[d].seq <= ctr
  /\ \A p \in Princ : cache[p].cch \subseteq Chans \cup {Public} /\ cache[p].cro \subseteq Roles
=============================================================================
