---------------------------- MODULE Enum_Resync ----------------------------
(* Scenario enumeration.  TLC enumerates (EnumSpec, exhaustive: every scenario of the configured universe is an initial
   state) or samples (SampleSpec under -simulate: one random scenario per step) the space
       corpus (what becomes of each document) x ordered pair of table functions x regenerate_sequences of the first and
       the second run x principal caches warm or cold before the resync x admin configuration
   and prints each scenario as <<"SCN", json>>.  The python driver expands a scenario into the canonical action sequence
       SetFn(f1), the writes, [Request per user], SetFn(f2), resync, Request per user, Scratch, resync, Request per user
   which the harness executes on real databases; every recorded line is then validated against the actions of Resync
   (Trace_Resync pass P and pass C).  All variables of Resync stay at their initial values; hist carries the scenario. *)
EXTENDS MC_Resync

Shapes ==  \* what becomes of one document
  {[k |-> "none"]}
  \cup {[k |-> "live", c1 |-> c] : c \in Classes}                                                   \* one live revision of class c1
  \cup {[k |-> "tomb", c1 |-> c, c2 |-> e] : c \in Classes, e \in Classes \cup {NoCls}}             \* written (c1), then deleted with a body of class c2 / without a body
  \cup {[k |-> "conf", c1 |-> c, c2 |-> e, hi |-> h] : c \in Classes, e \in Classes, h \in BOOLEAN} \* two live leaves; hi: the second one is the current revision
Scn(sh, f1, f2, g1, g2, warm, a) ==
  [docs |-> sh, f1 |-> f1, f2 |-> f2, regen |-> g1, regen2 |-> g2, warm |-> warm, adm |-> a]
ScnSpace == {Scn(sh, f1, f2, g, g, w, a) : sh \in [Docs -> Shapes], f1 \in FnNames, f2 \in FnNames, g \in BOOLEAN, w \in BOOLEAN, a \in AdminSet}

Rest == /\ fn = FnTab["F1"] /\ adm = AdmA
        /\ leaves = [d \in Docs |-> [b \in Branches |-> NoLeaf]] /\ hcls = [d \in Docs |-> {}] /\ dem = [d \in Docs |-> {}]
        /\ wr = [d \in Docs |-> FALSE] /\ nw = [w |-> 0, f |-> 0, r |-> 0] /\ synced = TRUE /\ runs = 0 /\ qruns = 0 /\ last = NoLast
        /\ seen = [u \in Users |-> NoObs] /\ st0 = [d \in Docs |-> [ch |-> NoDoc.ch, acc |-> {}, rol |-> {}]]
        /\ win = [d \in Docs |-> 0] /\ st = [d \in Docs |-> NoDoc] /\ ctr = 0 /\ cache = FreshCache
        /\ rs = NoRs /\ obs = NoObs /\ scr = NoScr
Same == UNCHANGED <<impl, ghost>>

EnumInit == Rest /\ hist \in {<<s>> : s \in ScnSpace}
EnumNext == Same /\ hist' = hist
EnumSpec == EnumInit /\ [][EnumNext]_vars

(* sampling: kinds of documents equally likely (a granting class as likely as the others), everything else uniform *)
Kinds == <<"none", "live", "live", "tomb", "tomb", "conf", "conf">>
(* operators with a (state-dependent) argument: TLC caches the value of constant-level definitions without one *)
RandShape(d, h) == LET k == Kinds[RandomElement(1..Len(Kinds))] IN RandomElement({s \in Shapes : s.k = k})
RandScn(h) == Scn([d \in Docs |-> RandShape(d, h)], RandomElement(FnNames), RandomElement(FnNames), RandomElement(BOOLEAN),
                  RandomElement(BOOLEAN), RandomElement(BOOLEAN), RandomElement(AdminSet))
SampleInit == Rest /\ hist = <<>>
SampleNext == Same /\ hist' = <<RandScn(hist)>>
SampleSpec == SampleInit /\ [][SampleNext]_vars

Export == hist = <<>> \/ PrintT(<<"SCN", ToJson(hist[1])>>)
ASSUME PrintT(<<"FNS", ToJson(FnTab)>>)       \* the tables, once
=============================================================================
