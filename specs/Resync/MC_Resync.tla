----------------------------- MODULE MC_Resync -----------------------------
EXTENDS Resync, Json

U2  == {"u1", "u2"}
R1  == {"r1"}
ChABR == {"A", "B", "R"}
D1  == {"d1"}
D2  == {"d1", "d2"}
D4  == {"d1", "d2", "d3", "d4"}
C3  == {"c1", "c2", "c3"}

Row(ch, acc, rol, rej) == [ch |-> ch, acc |-> acc, rol |-> rol, rej |-> rej]
(* the function family: a base, a channel move, a grant change + role change, rejections (one that made its
   role()/access() calls before throwing), and a move of one class only (the other classes untouched) *)
Tabs ==
  [F1 |-> [c1 |-> Row({"A"}, {}, {}, FALSE),
           c2 |-> Row({"B"}, {}, {}, FALSE),
           c3 |-> Row({"R"}, {<<"u1", "A">>}, {<<"u1", "r1">>}, FALSE)],
   F2 |-> [c1 |-> Row({"B"}, {}, {}, FALSE),
           c2 |-> Row({"A", "R"}, {}, {}, FALSE),
           c3 |-> Row({"A"}, {<<"u1", "A">>}, {<<"u1", "r1">>}, FALSE)],
   F3 |-> [c1 |-> Row({"A"}, {<<"u1", "B">>}, {}, FALSE),
           c2 |-> Row({"B"}, {}, {}, FALSE),
           c3 |-> Row({"R"}, {<<"r1", "B">>}, {}, FALSE)],
   F4 |-> [c1 |-> Row({"A"}, {}, {}, FALSE),
           c2 |-> Row({"B"}, {}, {<<"u1", "r1">>}, TRUE),
           c3 |-> Row({"R"}, {<<"u1", "A">>}, {<<"u1", "r1">>}, TRUE)],
   F5 |-> [c1 |-> Row({"A"}, {}, {}, FALSE),
           c2 |-> Row({"A"}, {<<"u2", "B">>}, {}, FALSE),
           c3 |-> Row({"R"}, {<<"u1", "A">>}, {<<"u1", "r1">>}, FALSE)]]
FN1 == {"F1"}
FN12 == {"F1", "F2"}
FN13 == {"F1", "F3"}
FN14 == {"F1", "F4"}
FN15 == {"F1", "F5"}
FN4 == {"F1", "F2", "F3", "F4"}
FN5 == {"F1", "F2", "F3", "F4", "F5"}

Adm(cu1, cu2, cr1, ru1, ru2) == [ch |-> [p \in Princ |-> IF p = "u1" THEN cu1 ELSE IF p = "u2" THEN cu2 ELSE cr1],
                                 ro |-> [u \in Users |-> IF u = "u1" THEN ru1 ELSE ru2]]
AdmA == Adm({}, {"A"}, {"R"}, {}, {})            \* u2 holds A by admin grant, the role r1 holds R
AdmB == Adm({"B"}, {}, {"R"}, {}, {"r1"})        \* u1 holds B, u2 holds the role by admin grant
Adm1 == {AdmA}
Adm2 == {AdmA, AdmB}


(* one named deviation at a time (Dev_*.cfg): each alone must break a statement of C18 in the model *)
DevSkipTomb     == [Ideal EXCEPT !.skipTomb = TRUE]
DevKeepRoles    == [Ideal EXCEPT !.keepRoles = TRUE]
DevRegenNoInval == [Ideal EXCEPT !.regenNoInval = TRUE]
DevLoserLazy    == [Ideal EXCEPT !.loserLazy = TRUE]
=============================================================================
