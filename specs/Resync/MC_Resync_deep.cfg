CONSTANT Users <- U2
CONSTANT Roles <- R1
CONSTANT Chans <- ChABR
CONSTANT Docs <- D2
CONSTANT Classes <- C3
CONSTANT FnNames <- FN4
CONSTANT FnTab <- Tabs
CONSTANT AdminSet <- Adm1
CONSTANT MaxSetFn = 1
CONSTANT MaxRuns = 2
CONSTANT MaxWrites = 3
CONSTANT Observe = FALSE
CONSTANT Dev <- Ideal
SPECIFICATION Spec
VIEW view
INVARIANT PerDocFresh
INVARIANT PrincipalsFresh
INVARIANT PrincipalsFreshAll
INVARIANT FromScratch
INVARIANT FromScratchAll
INVARIANT Idempotent
INVARIANT CacheSound
INVARIANT NoSeqWithoutRegen
INVARIANT TypeOK
CHECK_DEADLOCK FALSE
