CONSTANT Users <- U2
CONSTANT Roles <- R1
CONSTANT Chans <- ChABR
CONSTANT Docs <- D4
CONSTANT Classes <- C3
CONSTANT FnNames <- FN1
CONSTANT FnTab <- Tabs
CONSTANT AdminSet <- Adm1
CONSTANT MaxSetFn = 1000000
CONSTANT MaxRuns = 1000000
CONSTANT MaxWrites = 1000000
CONSTANT Observe = TRUE
CONSTANT Dev <- AsBuilt
SPECIFICATION CSpec
CONSTRAINT Progress
POSTCONDITION Accept
CHECK_DEADLOCK FALSE
INVARIANT ScratchSound
INVARIANT NoSeqWithoutRegen
INVARIANT TypeOK
