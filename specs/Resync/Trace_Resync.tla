---------------------------- MODULE Trace_Resync ----------------------------
(* Validation of traces recorded from real databases (harness/db/c18_resync_test.go).
   Every line carries the inputs of the call and the REAL post-state of the database under test:
     win   : per document the branch of the REAL current revision (0 = no document)
     ch    : per document, per leaf the stored channels (Document.channelsForRevTreeID)
     acc, rol : per document the raw _sync access / role_access maps as pairs
     seq, ver : per document its sequence (relative) and a counter that steps whenever its bucket CAS changed
     ctr   : last allocated sequence (relative);   cache : per principal the raw computed channels / roles
   Lines:
     {a:"Reset", beh, admch, admro}
     {a:"SetFn", f, tab}                       the table the JS sync function was generated from
     {a:"Write", d, b, cls, del, ok}           {a:"Conflict", d, cls, hi, ok}       ok = FALSE: rejected, nothing written
     {a:"Request", u, chans, roles, vis, vrev} effective channels, role names, documents of a since-0 changes request
                                               run as u (removal notices excluded), leaves fetchable by revision id
     {a:"Resync", regen, changed}              the real background manager, run to completion (then _online again)
     {a:"Scratch", s, okd, users}              the SECOND database (current function from the start, same accepted
                                               writes): its documents, which documents exist there, every user's request
   Pass P: impl variables := logged real state, the ground truth advances from the inputs only (the table, the body
   classes, the REAL current revision).  The property predicates do not stop the run: every failing instance is printed
   as <<"VIOL", json>> (one TLC run lists all of them; the driver keys and reports them).
   Pass C: each line must be an instance of the spec action from the previous real state, for SOME setting of the
   named deviations (Dev): the envelope covers the code as built and the code with any of them repaired. *)
EXTENDS MC_Resync, TraceLib

VARIABLE l
tvars == <<vars, l>>

SetOf(s)  == {s[i] : i \in 1..Len(s)}
T         == Trace[l]
LCache(r) == [p \in Princ |-> [cok |-> r[p].cok, cch |-> SetOf(r[p].cch), rok |-> r[p].rok, cro |-> SetOf(r[p].cro)]]
LSt(r)    == [d \in Docs |-> [ch |-> [b \in Branches |-> SetOf(r.ch[d][b])], acc |-> SetOf(r.acc[d]), rol |-> SetOf(r.rol[d]),
                              seq |-> r.seq[d], ver |-> r.ver[d]]]
LTab(t)   == [c \in Classes |-> [ch |-> SetOf(t[c].ch), acc |-> SetOf(t[c].acc), rol |-> SetOf(t[c].rol), rej |-> t[c].rej]]
LAdm(r)   == [ch |-> [p \in Princ |-> SetOf(r.admch[p])], ro |-> [u \in Users |-> SetOf(r.admro[u])]]
LObs(r)   == [on |-> TRUE, u |-> r.u, chans |-> SetOf(r.chans), roles |-> SetOf(r.roles), vis |-> SetOf(r.vis), vrev |-> SetOf(r.vrev)]
LScr(r)   == [on |-> TRUE, users |-> [u \in Users |-> LObs(r.users[u])], okd |-> SetOf(r.okd),
              win |-> [d \in Docs |-> r.s.win[d]],
              docs |-> [d \in Docs |-> IF r.s.win[d] = 0 THEN EmptyOut
                                       ELSE [ch |-> SetOf(r.s.ch[d][r.s.win[d]]), acc |-> SetOf(r.s.acc[d]), rol |-> SetOf(r.s.rol[d])]]]

Ev(a)  == l <= TraceLen /\ Trace[l].a = a /\ l' = l + 1
Logged == /\ win' = [d \in Docs |-> T.win[d]] /\ st' = LSt(T) /\ ctr' = T.ctr /\ cache' = LCache(T.cache)
Keep   == UNCHANGED <<fn, adm, leaves, hcls, dem, wr, nw, synced, runs, qruns, last, st0>>

TInit == Init /\ l = 1

Reset == /\ Ev("Reset") /\ Logged
         /\ fn' = fn /\ adm' = LAdm(T)
         /\ leaves' = [d \in Docs |-> [b \in Branches |-> NoLeaf]] /\ hcls' = [d \in Docs |-> {}] /\ dem' = [d \in Docs |-> {}]
         /\ wr' = [d \in Docs |-> FALSE] /\ nw' = [w |-> 0, f |-> 0, r |-> 0] /\ synced' = TRUE /\ runs' = 0 /\ qruns' = 0
         /\ last' = NoLast /\ seen' = [u \in Users |-> NoObs] /\ st0' = [d \in Docs |-> [ch |-> NoDoc.ch, acc |-> {}, rol |-> {}]]
         /\ rs' = NoRs /\ obs' = NoObs /\ scr' = NoScr

(* ghosts of the composite Resync line = ResyncStart ; ResyncDoc for every document ; ResyncDone *)
GhostResyncAll(regen) ==
  /\ wr' = [d \in Docs |-> FALSE] /\ st0' = [d \in Docs |-> Stored(st[d])] /\ nw' = [nw EXCEPT !.r = @ + 1]
  /\ GhostDone(qruns >= 1, FALSE, regen, {d \in Docs : st'[d].ver # st[d].ver}, ctr' - ctr, [d \in Docs |-> Stored(st[d])])

(* ---- pass P ---- *)
PSetFn    == Ev("SetFn")    /\ Logged /\ rs' = rs /\ GhostSetFn(LTab(T.tab))
PWrite    == Ev("Write")    /\ Logged /\ rs' = rs
                            /\ IF T.ok THEN GhostDoc(T.d, NewBWrite(T.d, T.b, T.cls, T.del), T.b, T.cls)
                                       ELSE Keep /\ UNCHANGED <<seen, scr, obs>>
PConflict == Ev("Conflict") /\ Logged /\ rs' = rs
                            /\ IF T.ok THEN GhostDoc(T.d, NewBConflict(T.d, T.cls, T.hi), 2, T.cls)
                                       ELSE Keep /\ UNCHANGED <<seen, scr, obs>>
PRequest  == Ev("Request")  /\ Logged /\ rs' = rs /\ scr' = scr /\ obs' = LObs(T) /\ GhostRequest(T.u)
PResync   == Ev("Resync")   /\ Logged /\ rs' = NoRs /\ GhostResyncAll(T.regen)
PScratch  == Ev("Scratch")  /\ Logged /\ rs' = rs /\ obs' = obs /\ scr' = LScr(T) /\ Keep /\ seen' = seen
PNext == (Reset \/ PSetFn \/ PWrite \/ PConflict \/ PRequest \/ PResync \/ PScratch) /\ UNCHANGED hist
PSpec == TInit /\ [][PNext]_tvars

(* ---- pass C ---- *)
CSetFn    == Ev("SetFn")    /\ UNCHANGED <<win, st, ctr, cache, rs>> /\ Logged /\ GhostSetFn(LTab(T.tab))
CWrite    == Ev("Write")    /\ Logged
                            /\ IF T.ok THEN /\ Accepted(fn, T.cls)
                                            /\ ImplDoc(T.d, NewBWrite(T.d, T.b, T.cls, T.del), T.b)
                                            /\ GhostDoc(T.d, NewBWrite(T.d, T.b, T.cls, T.del), T.b, T.cls)
                                       ELSE ~Accepted(fn, T.cls) /\ UNCHANGED <<win, st, ctr, cache, rs>> /\ Keep /\ UNCHANGED <<seen, scr, obs>>
CConflict == Ev("Conflict") /\ Logged
                            /\ IF T.ok THEN /\ Accepted(fn, T.cls)
                                            /\ ImplDoc(T.d, NewBConflict(T.d, T.cls, T.hi), 2)
                                            /\ GhostDoc(T.d, NewBConflict(T.d, T.cls, T.hi), 2, T.cls)
                                       ELSE ~Accepted(fn, T.cls) /\ UNCHANGED <<win, st, ctr, cache, rs>> /\ Keep /\ UNCHANGED <<seen, scr, obs>>
(* a request: the principal documents and the effective channels / roles are the model's; which documents the changes
   feed lists and which leaves can be fetched is taken from the log (the differential judges them) *)
CRequest  == Ev("Request")  /\ Logged /\ UNCHANGED <<win, st, ctr, rs, scr>>
                            /\ cache' = ReqCache(T.u)
                            /\ SetOf(T.chans) = ReqChans(ReqCache(T.u), T.u) /\ SetOf(T.roles) = ReqCache(T.u)[T.u].cro
                            /\ obs' = LObs(T) /\ GhostRequest(T.u)
(* the composite resync: every document is what Resynced makes of it, rewritten exactly when it says so; regenerated
   sequences are the next ones; then the principals *)
CResync   == Ev("Resync")   /\ Logged /\ rs' = NoRs /\ win' = win
                            /\ \E dv \in DevSpace :
                                 LET R(d) == Resynced(d, T.regen, dv)
                                     RW   == {d \in Docs : R(d).rw}
                                     n    == IF T.regen THEN Cardinality(RW) ELSE 0
                                 IN /\ \A d \in Docs : /\ Stored(st'[d]) = [ch |-> R(d).ch, acc |-> R(d).acc, rol |-> R(d).rol]
                                                       /\ st'[d].ver = st[d].ver + (IF d \in RW THEN 1 ELSE 0)
                                                       /\ (d \notin RW \/ ~T.regen) => st'[d].seq = st[d].seq
                                    /\ T.regen => {st'[d].seq : d \in RW} = (ctr + 1)..(ctr + n)
                                    /\ T.changed = Cardinality(RW)
                                    /\ ImplPrincipals(st', ctr + n, T.regen, Cardinality(RW), dv)
                            /\ GhostResyncAll(T.regen)
CScratch  == Ev("Scratch")  /\ Logged /\ UNCHANGED <<win, st, ctr, cache, rs, obs>> /\ scr' = LScr(T) /\ Keep /\ seen' = seen
CNext == (Reset \/ CSetFn \/ CWrite \/ CConflict \/ CRequest \/ CResync \/ CScratch) /\ UNCHANGED hist
CSpec == TInit /\ [][CNext]_tvars

-----------------------------------------------------------------------------
(* reporting form of the property predicates (pass P): TRUE in every state; every failing instance is printed *)
Viol(r) == PrintT(<<"VIOL", ToJson(r)>>)
Wit(d, b, fld) == [role |-> IF b = win[d] THEN "winner" ELSE "loser", st |-> leaves[d][b].st,
                   rej |-> ~Accepted(fn, leaves[d][b].cls), dem |-> b \in dem[d],
                   asRaw |-> LET r == Raw(fn, leaves[d][b].cls)      \* the stored value is what the rejected evaluation computed
                             IN IF fld = "ch" THEN st[d].ch[b] = r.ch ELSE IF fld = "acc" THEN st[d].acc = r.acc ELSE st[d].rol = r.rol]
(* users who have observed (since the resync) the leaf differently from what the table confers on them: listed / fetchable
   although its channels under the new function are none of theirs, or the other way round *)
Affected(d, b, fld) ==
  IF fld # "ch" THEN {}
  ELSE {u \in Users : seen[u].on /\
          LET should == Out(fn, leaves[d][b].cls).ch \cap Eff(u) # {}
          IN \/ (b = win[d] /\ (d \in seen[u].vis) # should)
             \/ (leaves[d][b].st = "live" /\ b \notin dem[d] /\ (<<d, b>> \in seen[u].vrev) # should)}
RepPerDoc ==
  PerDocFresh \/ \A x \in Stale :
    Viol([inv |-> "PerDocFresh", l |-> l, d |-> x[1], b |-> x[2], fld |-> x[3], wit |-> Wit(x[1], x[2], x[3]), regen |-> last.regen, rw |-> x[1] \in last.dver, affected |-> Affected(x[1], x[2], x[3]),
          got  |-> IF x[3] = "ch" THEN st[x[1]].ch[x[2]] ELSE IF x[3] = "acc" THEN st[x[1]].acc ELSE st[x[1]].rol,
          want |-> LET o == Out(fn, leaves[x[1]][x[2]].cls) IN IF x[3] = "ch" THEN o.ch ELSE IF x[3] = "acc" THEN o.acc ELSE o.rol])
RepPrinc ==
  PrincipalsFresh \/
    Viol([inv |-> "PrincipalsFresh", l |-> l, u |-> obs.u, chans |-> obs.chans, want |-> Eff(obs.u), roles |-> obs.roles,
          wantroles |-> RolesOf(obs.u), regen |-> last.regen,
          fromStored |-> (obs.chans = EffStored(obs.u) /\ obs.roles = ComputeR(obs.u)),
          stale |-> {<<x[1], x[3]>> : x \in {y \in Stale : y[3] # "ch"}}])
DiffDocs(u) == LET a == Visible(seen[u])  b == ScrVisible(scr.users[u])
               IN ((a.vis \ b.vis) \cup (b.vis \ a.vis)) \cup {x[1] : x \in (a.vrev \ b.vrev) \cup (b.vrev \ a.vrev)}
RepScratch ==
  FromScratch \/ \A u \in {v \in Users : ~FromScratchFor(v)} :
    Viol([inv |-> "FromScratch", l |-> l, u |-> u, regen |-> last.regen,
          vis |-> Visible(seen[u]).vis, svis |-> scr.users[u].vis, vrev |-> Visible(seen[u]).vrev, svrev |-> ScrVisible(scr.users[u]).vrev,
          accessEq |-> (seen[u].chans = scr.users[u].chans /\ seen[u].roles = scr.users[u].roles),
          chans |-> seen[u].chans, schans |-> scr.users[u].chans, docs |-> DiffDocs(u)])
RepIdem ==
  Idempotent \/ Viol([inv |-> "Idempotent", l |-> l, regen |-> last.regen, dver |-> last.dver, dctr |-> last.dctr, dstore |-> last.dstore])
(* not a property of resync: the second database must hold what the table says (else the differential is void) *)
RepScrSound == ScratchSound \/ Viol([inv |-> "ScratchSound", l |-> l, okd |-> scr.okd, comp |-> Comp, swin |-> scr.win, sdocs |-> scr.docs])
Report == RepPerDoc /\ RepPrinc /\ RepScratch /\ RepIdem /\ RepScrSound

Progress == Mark(l)
Accept == PrintHWM
=============================================================================
