--------------------------- MODULE MC_Attachments ---------------------------
EXTENDS Attachments, Json
N1 == {"n1"}
N12 == {"n1", "n2"}
(* attachment specs: every function Names -> {Omit, Stub} \cup Contents *)
AllShapes == [Names -> {0, -1} \cup Contents]
(* a thinner family for the larger instances: at most one name changes per write, the other is kept (stub) or absent *)
ThinShapes == {s \in AllShapes : Cardinality({n \in Names : s[n] > 0}) <= 1}
Conf == [allow |-> allow, eccv |-> eccv, lim |-> 0]
Done == pend = None /\ (Len(hist) = MaxSteps \/ Docs \subseteq tainted)
BehaviourExport == Done => PrintT(<<"BEH", ToJson([conf |-> Conf, steps |-> hist])>>)
(* Simulation: TLC picks uniformly among SUCCESSOR STATES; Write has |Docs| x |Kinds| x |Shapes| x parents argument choices and
   would swamp Touch / End.  SimNext draws the arguments with RandomElement: one successor per action kind. *)
Args == {a \in [d : Docs, k : Kinds, s : Shapes, h : {0, 1}] : a.k = "push" \/ a.h = 0}
LegalArgs == {ap \in {<<a, p>> : a \in Args, p \in UNION {Parents(d) : d \in Docs}} :
                 /\ ap[2] \in Parents(ap[1].d) /\ ap[1].d \notin tainted /\ Legal(ap[1].d, ap[1].k, ap[2], ap[1].s)}
(* bias towards the interesting writes: half of the draws come from the writes that carry or drop attachments on a document that has some *)
Busy == {ap \in LegalArgs : Carried(ap[1].s) # {} \/ DOMAIN tree[ap[1].d] # {}}
Draw == IF Busy # {} /\ RandomElement({0, 1, 2}) > 0 THEN RandomElement(Busy) ELSE RandomElement(LegalArgs)
SimNext ==
  \/ /\ LegalArgs # {}
     /\ LET ap == Draw IN
          \/ Write(ap[1].d, ap[1].k, ap[2], ap[1].s, ap[1].h) /\ UNCHANGED conf
          \/ Begin(ap[1].d, ap[1].k, ap[2], ap[1].s, ap[1].h) /\ UNCHANGED conf
  \/ Touch \/ End
SimSpec == Init /\ [][SimNext]_vars
=============================================================================
