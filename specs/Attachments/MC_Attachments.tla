--------------------------- MODULE MC_Attachments ---------------------------
EXTENDS Attachments, Json
N1 == {"n1"}
N12 == {"n1", "n2"}
(* attachment specs: every function Names -> {Omit, Stub} \cup Contents *)
AllShapes == [Names -> {0, -1} \cup Contents]
(* a thinner family for the larger instances: at most one name changes per write, the other is kept (stub) or absent *)
ThinShapes == {s \in AllShapes : Cardinality({n \in Names : s[n] > 0}) <= 1}
Conf == [allow |-> allow, eccv |-> eccv, lim |-> 0]
Done == pend = None /\ (Len(hist) = MaxSteps \/ Docs \subseteq tainted)
BehaviourExport == Done => PrintT(<<"BEH", ToJson([conf |-> Conf, steps |-> hist])>>)
(* Simulation: TLC picks uniformly among SUCCESSOR STATES; Write has |Docs| x |Kinds| x |Shapes| x parents argument choices and
   would swamp Touch / End, and 24 of 25 shapes carry a new attachment.  SimNext draws document, kind, parent and - per name -
   Omit / Stub / New with RandomElement, one successor per action kind.  The draws are bound by \E over a singleton set:
   TLC re-evaluates a LET inside an action at every reference (each would be a different draw). *)
Pick(S) == RandomElement(S)
StubOK(d, p, n) == /\ p # 0 /\ p \in DOMAIN want /\ n \in DOMAIN want[p]
                   /\ n \in DOMAIN PList(d, p) /\ <<d, PList(d, p)[n].c>> \in blob
DrawSpec(d, k, p, n) ==
  IF k = "del" THEN 0
  ELSE IF StubOK(d, p, n) = TRUE
       THEN CASE Pick(1..5) = 1 -> 0 [] Pick(1..2) = 1 -> -1 [] OTHER -> Pick(Contents)
       ELSE CASE Pick(1..3) = 1 -> 0 [] OTHER -> Pick(Contents)
KindsFor(d) == {k \in Kinds : \E p \in Parents(d) : LegalKP(d, k, p) = TRUE}
SimNext ==
  \/ /\ Len(hist) < MaxSteps /\ Docs \ tainted # {}
     /\ \E d \in {Pick(Docs \ tainted)} : KindsFor(d) # {} /\
        \E k \in {Pick(KindsFor(d))} : \E p \in {Pick({q \in Parents(d) : LegalKP(d, k, q) = TRUE})} :
        \E h \in {IF k = "push" THEN Pick({0, 1}) ELSE 0} : \E s \in {[n \in Names |-> DrawSpec(d, k, p, n)]} :
           /\ LegalS(d, k, p, s) = TRUE
           /\ (Write(d, k, p, s, h) \/ (Pick(1..3) = 1 /\ Begin(d, k, p, s, h))) /\ UNCHANGED conf
  \/ Touch \/ End
SimSpec == Init /\ [][SimNext]_vars
=============================================================================
