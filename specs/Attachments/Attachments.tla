------------------------------ MODULE Attachments ------------------------------
(* Attachment metadata and attachment data documents over the revision trees of a few documents:
     db/attachment.go  storeAttachments / retrieveAncestorAttachments (digesting, stub resolution), MakeAttachmentKey
     db/crud.go        updateAndReturnDoc: getAttachmentIDsForLeafRevisions before / after the commit and the removal of the
                       obsolete data documents (skipped when cross-cluster versioning is on), storeOldBodyInRevTreeAndUpdateCurrent
   written to be bound (harness/db/c14_attachments_test.go).  One action per write call that the harness runs atomically:
     Write(d,k,r,p,s,h)   a complete write on document d: k = "put" (Put, parent p; p = 0: no _rev - create / resurrect on top of
                          the current tombstone), "push" (PutExistingRevWithBody: the client's history of p, revision id chosen by
                          the client, h = 1: sorts above every generated id, h = 0: below), "del" (DeleteDoc of leaf p);
                          s gives per attachment name 0 = Omit, -1 = Stub (repeat the parent's), c = New(content c)
     Begin(...) .. End    the same write, but its first attempt is overtaken: Begin = attempt 1 ran the update callback and stored
                          its attachment bodies (setAttachments happens before the CAS write); then other writes / a neutral
                          Touch run in the CAS window; End = the CAS write fails if the document changed, the callback -
                          including storeAttachments - runs again on the current document and commits, or is refused
                          (a refused write leaves its stored bodies behind: `residue`, the C11 finding F9, not judged here)
   The model is the INTENDED bookkeeping: every leaf keeps the attachment list it was written with (stubs copy the parent's
   entry), the sweep after the commit removes the data documents that the leaves before the write referenced and the leaves
   after it do not.
   Named deviation of the real code (genuine defect, see NOTES.md): NonWinningWrite.  storeOldBodyInRevTreeAndUpdateCurrent
   sets the DOCUMENT-level attachment list to the NEW revision's list even when the new revision does not become the current
   one, and stores the new revision's body without its list.  A write whose revision is not the winner afterwards therefore
   (kept)     replaces the winner's list by its own and records none for itself - e.g. tombstoning the losing branch of a
              conflict empties the winner's list and the sweep deletes all its data,
   (switched) or, when the old winner was tombstoned and another branch takes over, leaves the new winner without a
              document-level list, so the sweep deletes its data.
   Ghost `tainted` = documents on which such a write (with attachments involved) happened; the model does not describe their
   attachment state afterwards (pass C does not constrain it) and generates no further writes on them.  The exhaustive run
   checks the property on the untainted documents (the X_ invariants); pass P evaluates the UNRELAXED predicates on the recorded real state.
   Impl.. conjuncts define implementation variables, Ghost.. history / ground-truth variables.  Decides C14. *)
EXTENDS Integers, Sequences, FiniteSets, TLC

CONSTANTS Docs,        \* document numbers
          Names,       \* attachment names (strings)
          Contents,    \* content numbers 1..N
          MaxSteps,    \* length of a behaviour
          Modes,       \* subset of BOOLEAN: AllowConflicts
          Eccvs,       \* subset of BOOLEAN: cross-cluster versioning on (obsolete attachments are kept)
          Kinds,       \* subset of {"put", "push", "del"}
          Brackets,    \* BOOLEAN: Begin .. End brackets (CAS retry) are generated
          MaxInner,    \* steps inside a bracket
          Shapes       \* set of attachment specs a write may carry (functions Names -> {0, -1} \cup Contents)

None == [a |-> "none"]

VARIABLES
  allow, eccv, clen, cenc, celen,  \* configuration: AllowConflicts, cross-cluster versioning; per content: advertised (decoded) length, is it
                                \*   written with "encoding" (the stored bytes are the ENCODED ones), its encoded_length (-1 = none advertised)
  tree, cur, gen, cls, nr,      \* tree[d] = rev -> [p, d]; current (winning) revision of d (0 = none); generation and id class of every
                                \*   revision (0 = pushed low, 1 = generated, 2 = pushed high); number of revision ids handed out
  atts,                         \* atts[d] = leaf -> (name -> [c, pos, len]): the attachment list the gateway resolves for each LEAF
                                \*   (c = content whose digest is advertised, 0 = an unknown digest; pos = revpos; len = advertised length)
  old,                          \* old[d] = superseded revision -> the list it had when it got its first child (kept with the backed-up body of the
                                \*   revision: a client that still holds such a revision can branch off it and repeat its attachments).  Not observable: evolves by the model
  rd,                           \* rd[d] = leaf -> (name -> content of the bytes behind the advertised key, -1 = no such data document)
  api, apierr,                  \* api[d] = leaf -> (name -> [c, len, rd]): the read API's 1.x body with attachment bodies; apierr[d] = leaves it fails for
  blob, badblob,                \* attachment data documents <<d, c>> (d = 0 / c = 0: not a key of these documents / contents); those whose bytes differ from their key
  pend, inner,                  \* the bracketed write in progress (or None) and the number of steps run inside its window
  want, residue, tainted, dev, settled,   \* ghosts: want[r] = name -> [c] written on revision r; data left by refused writes; documents hit
                                \*   by the named deviation; deviation kinds seen; the last step was a completed successful write
  hist

conf  == <<allow, eccv, clen, cenc, celen>>
impl  == <<tree, cur, gen, cls, nr, atts, old, rd, api, apierr, blob, badblob, pend, inner>>
ghost == <<want, residue, tainted, dev, settled>>
vars  == <<conf, impl, ghost, hist>>
view  == <<conf, impl, ghost>>

Max(S) == CHOOSE x \in S : \A y \in S : y <= x
Ov(a, b) == b @@ a       \* b overrides a

(* ---- revision tree ---- *)
Children(t, r) == {c \in DOMAIN t : t[c].p = r}
Leaves(t)      == {r \in DOMAIN t : Children(t, r) = {}}
AddRev(t, r, p, d) == [x \in DOMAIN t \cup {r} |-> IF x = r THEN [p |-> p, d |-> d] ELSE t[x]]
(* winningRevision: live leaves first, then the higher generation, then the higher id: pushed-high > generated > pushed-low,
   two pushed ids of one class compare by step (the binding builds them so); two generated ids (md5) are left open *)
WinnersOf(t, g, c) ==
  IF DOMAIN t = {} THEN {0}
  ELSE LET L == Leaves(t)
           live == {r \in L : ~t[r].d}
           C == IF live # {} THEN live ELSE L
           mg == Max({g[r] : r \in C})
           G == {r \in C : g[r] = mg}
           k == Max({c[r] : r \in G})
           K == {r \in G : c[r] = k}
       IN IF k = 1 THEN K ELSE {Max(K)}

(* ---- attachment lists ---- *)
Carried(s)   == {n \in Names : s[n] # 0}
Stored(d, s) == {<<d, s[n]>> : n \in {m \in Names : s[m] > 0}}
Refs(A)      == {A[l][n].c : <<l, n>> \in {ln \in (DOMAIN A) \X Names : ln[2] \in DOMAIN A[ln[1]]}}
RdOf(A, B)   == [d \in Docs |-> [l \in DOMAIN A[d] |-> [n \in DOMAIN A[d][l] |-> IF <<d, A[d][l][n].c>> \in B THEN A[d][l][n].c ELSE -1]]]
ApiErrOf(A, B) == [d \in Docs |-> {l \in DOMAIN A[d] : \E n \in DOMAIN A[d][l] : <<d, A[d][l][n].c>> \notin B}]
ApiOf(A, B)  == [d \in Docs |-> [l \in (DOMAIN A[d]) \ ApiErrOf(A, B)[d] |->
                    [n \in DOMAIN A[d][l] |-> [c |-> A[d][l][n].c, len |-> A[d][l][n].len, rd |-> A[d][l][n].c, enc |-> A[d][l][n].enc, elen |-> A[d][l][n].elen]]]]

-----------------------------------------------------------------------------
Init ==
  /\ allow \in Modes /\ eccv \in Eccvs /\ clen = [c \in Contents |-> c]
  /\ cenc = [c \in Contents |-> c = 2] /\ celen = [c \in Contents |-> IF c = 2 THEN 100 + c ELSE -1]      \* content 2 is the encoded one
  /\ tree = [d \in Docs |-> <<>>] /\ cur = [d \in Docs |-> 0] /\ gen = (0 :> 0) /\ cls = (0 :> 1) /\ nr = 0
  /\ atts = [d \in Docs |-> <<>>] /\ old = [d \in Docs |-> <<>>] /\ rd = [d \in Docs |-> <<>>] /\ api = [d \in Docs |-> <<>>] /\ apierr = [d \in Docs |-> {}]
  /\ blob = {} /\ badblob = {} /\ pend = None /\ inner = 0
  /\ want = <<>> /\ residue = {} /\ tainted = {} /\ dev = {} /\ settled = FALSE
  /\ hist = <<>>

(* the revision the new one is attached to: Put without _rev goes on top of the current (tombstoned) revision; a pushed
   revision without parent is a new root *)
Par(d, k, p) == IF p = 0 /\ k = "put" THEN cur[d] ELSE p

(* would the gateway accept the write now (Put: matchRev must be a leaf, IsIllegalConflict; the environment only sends what a
   client holding revision p can send: a stub repeats an attachment that p carries and whose data the gateway still has) *)
(* the list the gateway finds for a parent revision: a leaf's own, or the one kept with the body of a superseded revision *)
PList(d, p) == IF p \in DOMAIN atts[d] THEN atts[d][p] ELSE IF p \in DOMAIN old[d] THEN old[d][p] ELSE <<>>
LegalKP(d, k, p) ==
  LET t == tree[d] IN
  CASE k = "put"  -> \/ p = 0 /\ (IF DOMAIN t = {} THEN TRUE ELSE t[cur[d]].d)
                     \/ p \in Leaves(t) /\ (allow \/ p = cur[d] \/ t[cur[d]].d)    \* (a tombstoned leaf too: the child resurrects that branch;
                                                                                  \*  IsIllegalConflict case (c): any leaf while the winner is a tombstone)
    [] k = "del"  -> p \in Leaves(t) /\ ~t[p].d /\ (allow \/ p = cur[d])
    [] k = "push" -> IF allow THEN p = 0 \/ (p \in DOMAIN t /\ ~t[p].d)
                     ELSE \/ p = 0 /\ (IF DOMAIN t = {} THEN TRUE ELSE t[cur[d]].d)      \* IsIllegalConflict case (c): a disconnected branch onto a tombstoned document
                          \/ p # 0 /\ p = cur[d] /\ ~t[p].d
LegalS(d, k, p, s) ==
  /\ (k = "del" => Carried(s) = {})
  /\ \A n \in Names : s[n] = -1 =>
        /\ p # 0 /\ p \in DOMAIN want /\ n \in DOMAIN want[p]
        /\ n \in DOMAIN PList(d, p) /\ <<d, PList(d, p)[n].c>> \in blob
Legal(d, k, p, s) == LegalKP(d, k, p) /\ LegalS(d, k, p, s)

(* the list recorded for the new revision: New = digest of the data, revpos = its generation, length, encoding and encoded_length as
   the client gave them; Stub = the parent's WHOLE entry *)
NewList(d, r, p, s, g) ==
  [n \in Carried(s) |-> IF s[n] > 0 THEN [c |-> s[n], pos |-> g[r], len |-> clen[s[n]], enc |-> cenc[s[n]], elen |-> celen[s[n]]]
                        ELSE IF n \in DOMAIN PList(d, p) THEN PList(d, p)[n] ELSE [c |-> 0, pos |-> 0, len |-> 0, enc |-> FALSE, elen |-> -1]]

(* ImplCommit: the document afterwards (tree nt, winner nc are parameters: the model adds the revision, the trace gives the recorded
   tree, which may also have been pruned), the lists, and the sweep.  Documents hit by the named deviation (skip) are not described. *)
GenOf(x) == IF x \in DOMAIN gen THEN gen[x] ELSE 0
ImplCommit(d, k, r, p, s, h, nt, nc, skip) ==
  LET g  == Ov(gen, r :> GenOf(Par(d, k, p)) + 1)
      na == [l \in Leaves(nt) |-> IF l = r THEN NewList(d, r, p, s, g) ELSE IF l \in DOMAIN atts[d] THEN atts[d][l] ELSE <<>>]
      A  == [atts EXCEPT ![d] = na]
      gone == IF eccv THEN {} ELSE {<<d, c>> : c \in Refs(atts[d]) \ Refs(na)}
      B  == (blob \cup Stored(d, s)) \ gone
  IN /\ gen' = g /\ cls' = Ov(cls, r :> (IF k = "push" THEN (IF h = 1 THEN 2 ELSE 0) ELSE 1))
     /\ tree' = [tree EXCEPT ![d] = nt] /\ cur' = [cur EXCEPT ![d] = nc]
     /\ old' = (LET pr == Par(d, k, p) IN IF pr \in DOMAIN atts[d] THEN [old EXCEPT ![d] = Ov(old[d], pr :> atts[d][pr])] ELSE old)
     /\ IF skip = {}
        THEN /\ atts' = A /\ blob' = B /\ rd' = RdOf(A, B) /\ api' = ApiOf(A, B) /\ apierr' = ApiErrOf(A, B) /\ badblob' = badblob
        ELSE \* trace validation only (the primed variables are bound to the recorded state): the documents in `skip` are not described
             /\ \A e \in Docs \ skip : /\ atts'[e] = A[e] /\ rd'[e] = RdOf(A, B)[e] /\ api'[e] = ApiOf(A, B)[e]
                                       /\ apierr'[e] = ApiErrOf(A, B)[e]
             /\ {b \in blob' : b[1] \notin skip} = {b \in B : b[1] \notin skip}
             /\ {b \in badblob' : b[1] \notin skip} = {b \in badblob : b[1] \notin skip}

(* does this write set off the named deviation?  (evaluated on the document AFTER the write) *)
Deviates(d, r, s, nc, w) == nc # r /\ (Carried(s) # {} \/ (nc \in DOMAIN w /\ DOMAIN w[nc] # {}))

GhostCommit(d, k, r, p, s, ok) ==
  /\ want' = (IF ok THEN Ov(want, (r :> [n \in Carried(s) |-> IF s[n] > 0 THEN [c |-> s[n]]
                                                             ELSE IF p \in DOMAIN want /\ n \in DOMAIN want[p] THEN want[p][n] ELSE [c |-> 0]]))
              ELSE want)
  /\ residue' = (IF ok THEN residue ELSE residue \cup Stored(d, s))
  /\ LET dv == ok /\ Deviates(d, r, s, cur'[d], want') IN
       /\ tainted' = (IF dv THEN tainted \cup {d} ELSE tainted)
       /\ dev' = (IF dv THEN dev \cup {IF cur'[d] = cur[d] THEN "kept" ELSE "switched"} ELSE dev)
  /\ settled' = ok

Step(a, d, k, r, p, s, h) == hist' = Append(hist, [a |-> a, d |-> d, k |-> k, r |-> r, p |-> p, s |-> s, h |-> h])
Room == Len(hist) < (IF pend = None THEN MaxSteps ELSE MaxSteps - 1)       \* a bracket can always be closed

(* environment assumption: while a write that repeats attachments (stubs) is parked, no other writer removes the data they stand for
   (the gateway has no way to notice: it would commit a reference to data that is gone) *)
PendStubsKept == pend # None => \A n \in Names : pend.s[n] = -1 => <<pend.d, want[pend.p][n].c>> \in blob

(* ---- a complete write ---- *)
ImplWrite(d, k, r, p, s, h) ==
  LET nt == AddRev(tree[d], r, Par(d, k, p), k = "del")
      g  == Ov(gen, r :> GenOf(Par(d, k, p)) + 1)
      c  == Ov(cls, r :> (IF k = "push" THEN (IF h = 1 THEN 2 ELSE 0) ELSE 1))
  IN /\ nr' = r
     /\ \E nc \in WinnersOf(nt, g, c) : ImplCommit(d, k, r, p, s, h, nt, nc, {})
     /\ inner' = (IF pend = None THEN 0 ELSE inner + 1) /\ UNCHANGED pend
WriteOK(d, k, p, s, h) ==
  /\ Room /\ d \notin tainted /\ (k # "push" => h = 0)
  /\ (pend # None => inner < MaxInner)
  /\ Legal(d, k, p, s) = TRUE          \* "= TRUE": evaluated as a value (TLC would split the disjunctions of an action conjunct)
Write(d, k, p, s, h) ==
  /\ WriteOK(d, k, p, s, h)
  /\ ImplWrite(d, k, nr + 1, p, s, h) /\ GhostCommit(d, k, nr + 1, p, s, TRUE)
  /\ PendStubsKept'
  /\ Step("W", d, k, nr + 1, p, s, h)

(* ---- the bracketed write ---- *)
ImplBegin(d, k, r, p, s, h) ==
  /\ pend' = [a |-> "pend", d |-> d, k |-> k, r |-> r, p |-> p, s |-> s, h |-> h, mp |-> Par(d, k, p)] /\ inner' = 0 /\ nr' = r
  /\ blob' = blob \cup Stored(d, s) /\ rd' = RdOf(atts, blob') /\ api' = ApiOf(atts, blob') /\ apierr' = ApiErrOf(atts, blob')
  /\ UNCHANGED <<tree, cur, gen, cls, atts, old, badblob>>
GhostIdle == UNCHANGED <<want, residue, tainted, dev>> /\ settled' = FALSE
(* A write onto a document whose winner is a tombstone is NOT bracketed: WriteUpdateWithXattrs sends a resurrection without CAS
   (C05 finding Deviation:ResurrectNoCas), so an overtaken first attempt is written blindly - together with its references to attachment
   bodies that the overtaking writes' sweep may have removed (met and reproduced here, see NOTES.md; recorded under C05, not re-reported). *)
Begin(d, k, p, s, h) ==
  /\ Brackets /\ pend = None /\ Len(hist) < MaxSteps - 1
  /\ (IF DOMAIN tree[d] = {} THEN TRUE ELSE ~tree[d][cur[d]].d)
  /\ d \notin tainted /\ (k # "push" => h = 0) /\ Legal(d, k, p, s) = TRUE
  /\ ImplBegin(d, k, nr + 1, p, s, h) /\ GhostIdle
  /\ Step("B", d, k, nr + 1, p, s, h)

(* Put keeps the matchRev its first attempt found (a Put without _rev onto a tombstone retries as a Put on that tombstone) *)
EP(q) == IF q.k = "put" /\ q.p = 0 /\ q.mp # 0 THEN q.mp ELSE q.p
NoSpec == [n \in Names |-> 0]
Touch ==      \* only the CAS of the bracketed write's document changes
  /\ pend # None /\ inner < MaxInner /\ Room
  /\ inner' = inner + 1 /\ UNCHANGED <<conf, tree, cur, gen, cls, nr, atts, old, rd, api, apierr, blob, badblob, pend>> /\ GhostIdle
  /\ Step("T", pend.d, "", 0, 0, NoSpec, 0)

ImplEnd(ok) ==
  /\ pend' = None /\ inner' = 0
  /\ IF ok
     THEN LET q == pend
              ep == EP(pend)
              nt == AddRev(tree[q.d], q.r, Par(q.d, q.k, ep), q.k = "del")
              g  == Ov(gen, q.r :> GenOf(Par(q.d, q.k, ep)) + 1)
              c  == Ov(cls, q.r :> (IF q.k = "push" THEN (IF q.h = 1 THEN 2 ELSE 0) ELSE 1))
          IN /\ \E nc \in WinnersOf(nt, g, c) : ImplCommit(q.d, q.k, q.r, ep, q.s, q.h, nt, nc, {})
             /\ UNCHANGED nr
     ELSE UNCHANGED <<tree, cur, gen, cls, nr, atts, old, rd, api, apierr, blob, badblob>>
End ==
  /\ pend # None
  /\ LET ok == (Legal(pend.d, pend.k, EP(pend), pend.s) /\ pend.d \notin tainted) = TRUE IN
       /\ ImplEnd(ok) /\ GhostCommit(pend.d, pend.k, pend.r, pend.p, pend.s, ok)
  /\ UNCHANGED conf
  /\ Step("E", pend.d, pend.k, pend.r, pend.p, pend.s, pend.h)

Parents(d) == DOMAIN tree[d] \cup {0}
Next ==
  \/ /\ Len(hist) < MaxSteps
     /\ \E d \in Docs \ tainted, k \in Kinds : \E p \in Parents(d) :
          /\ LegalKP(d, k, p) = TRUE
          /\ \E s \in Shapes, h \in (IF k = "push" THEN {0, 1} ELSE {0}) :
                /\ LegalS(d, k, p, s) = TRUE
                /\ (Write(d, k, p, s, h) \/ Begin(d, k, p, s, h)) /\ UNCHANGED conf
  \/ Touch \/ End
Spec == Init /\ [][Next]_vars

-----------------------------------------------------------------------------
(* C14, on the state after every step (Collected: after every completed, successful write).  D = the documents judged. *)
LeafSafeOn(D) ==          \* data referenced by any leaf is there: by the gateway's own lists and by what was written
  \A d \in D : \A l \in Leaves(tree[d]) :
     /\ l \in DOMAIN atts[d] => \A n \in DOMAIN atts[d][l] : <<d, atts[d][l][n].c>> \in blob
     /\ l \in DOMAIN want    => \A n \in DOMAIN want[l]    : <<d, want[l][n].c>> \in blob
PendStored == IF pend = None THEN {} ELSE Stored(pend.d, pend.s)
CollectedOn(D) ==         \* nothing is kept that no leaf references (unless cross-cluster versioning keeps it)
  (~eccv /\ settled) =>
     \A b \in blob : b[1] \in D =>
        \/ b[2] \in Refs(atts[b[1]])
        \/ b \in residue \cup PendStored
NoStrayData == (~eccv /\ settled) => \A b \in blob : b[1] \in Docs /\ b[2] \in Contents      \* no data document under a foreign key
(* the advertised length, encoding and encoded_length of an entry are those content c was written with *)
AsWritten(e, c) == c \in Contents /\ e.len = clen[c] /\ e.enc = cenc[c] /\ e.elen = celen[c]
IntactOn(D) ==            \* every leaf lists exactly what was written on it; the bytes, digest and length read back are those written
  /\ \A d \in D : \A l \in Leaves(tree[d]) : l \in DOMAIN want =>
       /\ l \in DOMAIN atts[d] /\ DOMAIN atts[d][l] = DOMAIN want[l]
       /\ \A n \in DOMAIN want[l] : n \in DOMAIN atts[d][l] =>
            /\ atts[d][l][n].c = want[l][n].c /\ AsWritten(atts[d][l][n], want[l][n].c) /\ rd[d][l][n] = want[l][n].c
       /\ (tree[d][l].d \/ l \notin apierr[d])
       /\ l \in DOMAIN api[d] =>
            /\ (~tree[d][l].d => DOMAIN api[d][l] = DOMAIN want[l])
            /\ \A n \in DOMAIN api[d][l] : n \in DOMAIN want[l] /\
                 api[d][l][n].c = want[l][n].c /\ AsWritten(api[d][l][n], want[l][n].c) /\ api[d][l][n].rd = want[l][n].c
  /\ \A b \in badblob : b[1] \notin D
LeafSafe  == LeafSafeOn(Docs)
Collected == CollectedOn(Docs) /\ NoStrayData
Intact    == IntactOn(Docs)
(* what the exhaustive run establishes for the intended bookkeeping, and the relaxed form pass P falls back on *)
X_LeafSafe  == LeafSafeOn(Docs \ tainted)
X_Collected == CollectedOn(Docs \ tainted) /\ NoStrayData
X_Intact    == IntactOn(Docs \ tainted)

(* auxiliary *)
TypeOK ==
  /\ \A d \in Docs : /\ cur[d] \in DOMAIN tree[d] \cup {0} /\ (d \in tainted \/ DOMAIN atts[d] = Leaves(tree[d]))
                     /\ \A r \in DOMAIN tree[d] : tree[d][r].p \in DOMAIN tree[d] \cup {0}
  /\ nr <= MaxSteps /\ inner <= MaxInner
  /\ \A b \in blob : b[1] \in Docs /\ b[2] \in Contents
CurIsWinner == \A d \in Docs : cur[d] \in WinnersOf(tree[d], gen, cls)
ResidueOnlyFromRefused == residue # {} => \E i \in 1..Len(hist) : hist[i].a = "E"
TaintOnlyWithConflicts == tainted # {} => allow
=============================================================================
