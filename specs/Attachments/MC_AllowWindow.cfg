CONSTANT Docs = {1, 2, 3, 4}
CONSTANT Contents = {1, 2, 3}
CONSTANT Protos = {2, 3}
CONSTANT RefChoices <- MCRefs
CONSTANT MaxSteps = 5
CONSTANT MaxFlight = 2
SPECIFICATION Spec
VIEW view
INVARIANT AllowWindow
INVARIANT WindowCloses
INVARIANT TableIsFlight
CHECK_DEADLOCK FALSE
