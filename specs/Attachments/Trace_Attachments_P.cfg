CONSTANT Docs = {1, 2}
CONSTANT Names <- N12T
CONSTANT Contents = {1, 2, 3}
CONSTANT MaxSteps = 1000000
CONSTANT Modes = {FALSE}
CONSTANT Eccvs = {FALSE}
CONSTANT Kinds = {"put", "push", "del"}
CONSTANT Brackets = TRUE
CONSTANT MaxInner = 1000
CONSTANT Shapes <- NoShapes
SPECIFICATION PSpec
CONSTRAINT PProgress
POSTCONDITION PAccept
CHECK_DEADLOCK FALSE
\* The property predicates LeafSafe, Collected, Intact (and their relaxed forms X_..) are evaluated on every recorded state by
\* PProgress and collected per behaviour (register 2) - see Trace_Attachments.tla
