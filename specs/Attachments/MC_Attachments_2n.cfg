CONSTANT Docs = {1, 2}
CONSTANT Names <- N12
CONSTANT Contents = {1, 2}
CONSTANT MaxSteps = 3
CONSTANT Modes = {FALSE, TRUE}
CONSTANT Eccvs = {FALSE, TRUE}
CONSTANT Kinds = {"put", "push", "del"}
CONSTANT Brackets = TRUE
CONSTANT MaxInner = 1
CONSTANT Shapes <- ThinShapes
SPECIFICATION Spec
VIEW view
INVARIANT X_LeafSafe
INVARIANT X_Collected
INVARIANT X_Intact
INVARIANT TypeOK
INVARIANT CurIsWinner
INVARIANT ResidueOnlyFromRefused
INVARIANT TaintOnlyWithConflicts
CHECK_DEADLOCK FALSE
