CONSTANT Docs = {1, 2}
CONSTANT Names <- N12T
CONSTANT Contents = {1, 2, 3}
CONSTANT MaxSteps = 1000000
CONSTANT Modes = {FALSE}
CONSTANT Eccvs = {FALSE}
CONSTANT Kinds = {"put", "push", "del"}
CONSTANT Brackets = TRUE
CONSTANT MaxInner = 1000
CONSTANT Shapes <- NoShapes
SPECIFICATION CSpec
CONSTRAINT CProgress
POSTCONDITION CAccept
CHECK_DEADLOCK FALSE
\* Conformance: every line must be an instance of the model's step; the relaxed predicates and TaintOnlyWithConflicts are
\* evaluated on every conforming state by CProgress (register 3); unexplained lines land in register 4
