------------------------------ MODULE AllowWindow ------------------------------
(* The BLIP allow-list for attachment downloads: db/blip_sync_context.go sendRevision (addAllowedAttachments before the `rev`
   message goes out, removeAllowedAttachments when the reply arrives / the send fails), db/blip_handler.go handleGetAttachment
   (served only while the counter of its key is positive), allowedAttachmentKey (sub-protocol V2: the digest; V3+: document + digest).
   C14, last clause: a replication client can download an attachment only while it is being sent a revision that references it.
     SendRev(d)   the gateway sends a revision of document d (d may be in flight more than once: counters)
     Ack(d)       the client's (successful) reply to one in-flight `rev` of d has been processed
     RevRejected(d) the client answered one in-flight `rev` of d with an ERROR (it could not store the revision): the revision is
                  no longer being sent, the entry is removed exactly as for Ack
     Get(d, c)    the client asks for the data of content c (V3: naming document d); out = [served, rd]
   Impl.. define the connection's table, Ghost.. the bag of revisions in flight. *)
EXTENDS Integers, Sequences, FiniteSets, TLC

CONSTANTS Docs, Contents, Protos, RefChoices, MaxSteps, MaxFlight

None == [a |-> "none"]
VARIABLES proto, refs,      \* sub-protocol (2 | 3); refs[d] = contents document d's current revision carries
          allowed,          \* the connection's table: key -> counter   (key = <<0, c>> for V2, <<d, c>> for V3)
          out,              \* the outcome of the getAttachment just answered: [d, c, served, rd] (None after any other step)
          flight,           \* ghost: flight[d] = number of `rev` messages for d that were sent and not yet answered
          closedOK,         \* ghost (trace): every answered `rev` was seen to close its window
          hist
vars == <<proto, refs, allowed, out, flight, closedOK, hist>>
view == <<proto, refs, allowed, out, flight, closedOK>>

Key(d, c) == IF proto = 2 THEN <<0, c>> ELSE <<d, c>>
Keys == {Key(d, c) : d \in Docs, c \in Contents}
Cnt(k) == IF k \in DOMAIN allowed THEN allowed[k] ELSE 0

Init == /\ proto \in Protos /\ refs \in RefChoices
        /\ allowed = <<>> /\ out = None /\ flight = [d \in Docs |-> 0] /\ closedOK = TRUE /\ hist = <<>>

ImplSendRev(d) == /\ allowed' = [k \in DOMAIN allowed \cup {Key(d, c) : c \in refs[d]} |->
                                    Cnt(k) + (IF k \in {Key(d, c) : c \in refs[d]} THEN 1 ELSE 0)]
                  /\ out' = None
ImplAck(d) == /\ allowed' = [k \in {x \in DOMAIN allowed : ~(x \in {Key(d, c) : c \in refs[d]} /\ allowed[x] = 1)} |->
                                allowed[k] - (IF k \in {Key(d, c) : c \in refs[d]} THEN 1 ELSE 0)]
              /\ out' = None
ImplGet(d, c) == /\ out' = [d |-> d, c |-> c, served |-> Cnt(Key(d, c)) > 0, rd |-> IF Cnt(Key(d, c)) > 0 THEN c ELSE -1]
                 /\ UNCHANGED allowed
GhostSendRev(d) == flight' = [flight EXCEPT ![d] = @ + 1] /\ UNCHANGED closedOK
GhostAck(d, cl) == flight' = [flight EXCEPT ![d] = @ - 1] /\ closedOK' = (closedOK /\ cl)
GhostGet == UNCHANGED <<flight, closedOK>>

Step(a, d, c) == hist' = Append(hist, [a |-> a, d |-> d, c |-> c]) /\ UNCHANGED <<proto, refs>>
SendRev(d) == Len(hist) < MaxSteps /\ flight[d] < MaxFlight /\ ImplSendRev(d) /\ GhostSendRev(d) /\ Step("Rev", d, 0)
Ack(d)     == Len(hist) < MaxSteps /\ flight[d] > 0 /\ ImplAck(d) /\ GhostAck(d, TRUE) /\ Step("Ack", d, 0)
ImplRevRejected(d) == ImplAck(d)
GhostRevRejected(d, cl) == GhostAck(d, cl)
RevRejected(d) == Len(hist) < MaxSteps /\ flight[d] > 0 /\ ImplRevRejected(d) /\ GhostRevRejected(d, TRUE) /\ Step("Rej", d, 0)
Get(d, c)  == Len(hist) < MaxSteps /\ ImplGet(d, c) /\ GhostGet /\ Step("Get", d, c)
Next == \E d \in Docs : SendRev(d) \/ Ack(d) \/ RevRejected(d) \/ \E c \in Contents \cup {0} : Get(d, c)
Spec == Init /\ [][Next]_vars

(* C14: served exactly while some in-flight revision - of that document, for V3 - references the content; and with its bytes *)
InFlightRef(d, c) == IF proto = 2 THEN \E x \in Docs : flight[x] > 0 /\ c \in refs[x]
                     ELSE flight[d] > 0 /\ c \in refs[d]
AllowWindow == out # None => /\ (out.served <=> InFlightRef(out.d, out.c))
                             /\ (out.served => out.rd = out.c)
WindowCloses == closedOK
(* auxiliary: the table is the bag of references of the revisions in flight *)
TableIsFlight == \A k \in Keys : Cnt(k) = LET S == {dc \in Docs \X Contents : Key(dc[1], dc[2]) = k /\ dc[2] \in refs[dc[1]]}
                                          F[T \in SUBSET S] == IF T = {} THEN 0 ELSE LET x == CHOOSE y \in T : TRUE IN flight[x[1]] + F[T \ {x}]
                                      IN F[S]
=============================================================================
