CONSTANT Docs = {1}
CONSTANT Names <- N1
CONSTANT Contents = {1, 2}
CONSTANT MaxSteps = 3
CONSTANT Modes = {FALSE, TRUE}
CONSTANT Eccvs = {FALSE}
CONSTANT Kinds = {"put", "push", "del"}
CONSTANT Brackets = FALSE
CONSTANT MaxInner = 0
CONSTANT Shapes <- AllShapes
SPECIFICATION Spec
INVARIANT BehaviourExport
CHECK_DEADLOCK FALSE
