--------------------------- MODULE Trace_AllowWindow ---------------------------
(* Validation of traces recorded from a real BLIP connection (harness/rest/c14_blip_attachments_test.go).
   Lines: {a:"Reset", beh, proto, refs:[[c..]..]}  {a:"Rev", d}  {a:"Ack"|"Rej", d, closed}  {a:"Get", ph, d, c, res, served, rd}
          (Rej = the client answered the `rev` message with an error)
   Pass P: out := the recorded outcome, flight advances from the recorded Rev / Ack lines; AllowWindow and WindowCloses are
           invariants.  Pass C: additionally the outcome is the one the connection's table (evolved by the model) gives. *)
EXTENDS AllowWindow, TraceLib
NoRefs == {[d \in Docs |-> {}]}      \* placeholder: Reset binds refs from the trace
VARIABLE l
tvars == <<vars, l>>
R == Trace[l]
Ev(a) == l <= TraceLen /\ Trace[l].a = a /\ l' = l + 1
SetOf(x) == {x[i] : i \in 1..Len(x)}
TInit == Init /\ l = 1
Reset == /\ Ev("Reset") /\ proto' = R.proto /\ refs' = [d \in Docs |-> SetOf(R.refs[d])]
         /\ allowed' = <<>> /\ out' = None /\ flight' = [d \in Docs |-> 0] /\ closedOK' = TRUE /\ hist' = <<>>
Keep == UNCHANGED <<proto, refs, hist>>
LoggedOut == out' = [d |-> R.d, c |-> R.c, served |-> R.served, rd |-> R.rd]
(* the table is not observable from the client side: it evolves by the model in both passes *)
PRev == Ev("Rev") /\ ImplSendRev(R.d) /\ GhostSendRev(R.d) /\ Keep
PAck == Ev("Ack") /\ ImplAck(R.d) /\ GhostAck(R.d, R.closed) /\ Keep
PRej == Ev("Rej") /\ ImplRevRejected(R.d) /\ GhostRevRejected(R.d, R.closed) /\ Keep
PGet == Ev("Get") /\ LoggedOut /\ UNCHANGED allowed /\ GhostGet /\ Keep
PNext == Reset \/ PRev \/ PAck \/ PRej \/ PGet
PSpec == TInit /\ [][PNext]_tvars
CGet == Ev("Get") /\ ImplGet(R.d, R.c) /\ LoggedOut /\ GhostGet /\ Keep
CNext == Reset \/ PRev \/ PAck \/ PRej \/ CGet
CSpec == TInit /\ [][CNext]_tvars
Progress == Mark(l)
Accept == PrintHWM
=============================================================================
