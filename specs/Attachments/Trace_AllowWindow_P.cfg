CONSTANT Docs = {1, 2, 3, 4}
CONSTANT Contents = {1, 2, 3}
CONSTANT Protos = {2}
CONSTANT RefChoices <- NoRefs
CONSTANT MaxSteps = 1000000
CONSTANT MaxFlight = 1000
SPECIFICATION PSpec
CONSTRAINT Progress
POSTCONDITION Accept
CHECK_DEADLOCK FALSE
INVARIANT AllowWindow
INVARIANT WindowCloses
