CONSTANT Docs = {1, 2}
CONSTANT Names <- N12
CONSTANT Contents = {1, 2, 3}
CONSTANT MaxSteps = 7
CONSTANT Modes = {FALSE, TRUE}
CONSTANT Eccvs = {FALSE, FALSE, TRUE}
CONSTANT Kinds = {"put", "push", "del"}
CONSTANT Brackets = TRUE
CONSTANT MaxInner = 2
CONSTANT Shapes <- AllShapes
SPECIFICATION SimSpec
INVARIANT BehaviourExport
CHECK_DEADLOCK FALSE
