--------------------------- MODULE Trace_Attachments ---------------------------
(* Validation of traces recorded from a real database (harness/db/c14_attachments_test.go).
   Lines:
     {a:"Reset", beh, allow, eccv, lim, clen, cenc, celen, S}           both documents absent (S is recorded all the same)
     {a:"W"|"B"|"T"|"E", i, k, d, r, p, s, h, ok, e, S}    the inputs of the step and whether the real call succeeded
   S = the REAL state after the step:
     docs[d] = {tree:[[rev, parent, deleted]], cur, leaves, atts:[{l,n,dg,ln,enc,eln,rp,ver,ex,rd}], api:[{l,n,dg,ln,enc,eln,rd}], apierr:[{l,v,e}]}
     blob    = [[doc, content of the key's digest, content of the stored bytes]]
   Pass P (PSpec): implementation variables := recorded real state, ghosts (what was written where, residue of refused writes, the
           documents hit by the named deviation) advance by GhostCommit from the recorded inputs.  LeafSafe, Collected and
           Intact - and their relaxed forms X_.. that leave out the documents hit by NonWinningWrite - are evaluated by TLC on
           EVERY recorded state; failures are collected per behaviour in TLC register 2 and printed by the POSTCONDITION (not
           stop-on-first: the unchanged tree runs into the named deviation in many behaviours).
   Pass C (CSpec): every step must additionally be the model's step from the previous real state: the write is accepted /
           refused as Legal says, the recorded tree is the old one plus the new revision (possibly pruned), the recorded winner
           is one the tree allows, and - on documents not hit by the deviation - the recorded lists (digest, revpos, length) and
           data documents are the ones ImplCommit computes.  A behaviour whose line no action explains is marked in register 4
           and skipped to its end. *)
EXTENDS Attachments, TraceLib

N12T == {"n1", "n2"}
NoShapes == {}
VARIABLES l, bi, diverged
tvars == <<vars, l, bi, diverged>>

ASSUME TLCSet(2, {}) /\ TLCSet(3, {}) /\ TLCSet(4, {})

R == Trace[l]
S == Trace[l].S
SeqSet(x) == {x[i] : i \in 1..Len(x)}
TreeOf(x) == [r \in {x[i][1] : i \in 1..Len(x)} |->
                LET i == CHOOSE j \in 1..Len(x) : x[j][1] = r IN [p |-> x[i][2], d |-> (x[i][3] = 1)]]
SpecOf(s) == [n \in Names |-> IF Has(s, n) THEN s[n] ELSE 0]
HOf(r) == IF Has(r, "h") THEN r.h ELSE 0

(* lists per leaf from the recorded entries *)
Ent(x, lf) == {i \in 1..Len(x) : x[i].l = lf}
ListOf(x, lf) == [n \in {x[i].n : i \in Ent(x, lf)} |->
                    LET i == CHOOSE j \in Ent(x, lf) : x[j].n = n IN [c |-> x[i].dg, pos |-> x[i].rp, len |-> x[i].ln, enc |-> x[i].enc, elen |-> x[i].eln]]
RdListOf(x, lf) == [n \in {x[i].n : i \in Ent(x, lf)} |->
                      LET i == CHOOSE j \in Ent(x, lf) : x[j].n = n IN IF x[i].ex THEN x[i].rd ELSE -1]
ApiListOf(x, lf) == [n \in {x[i].n : i \in Ent(x, lf)} |->
                       LET i == CHOOSE j \in Ent(x, lf) : x[j].n = n IN [c |-> x[i].dg, len |-> x[i].ln, rd |-> x[i].rd, enc |-> x[i].enc, elen |-> x[i].eln]]
ApiErr(D) == {D.apierr[i].l : i \in 1..Len(D.apierr)}

Ev(a) == l <= TraceLen /\ Trace[l].a = a /\ l' = l + 1

Logged ==
  /\ tree' = [d \in Docs |-> TreeOf(S.docs[d].tree)]
  /\ cur'  = [d \in Docs |-> S.docs[d].cur]
  /\ atts' = [d \in Docs |-> [lf \in SeqSet(S.docs[d].leaves) |-> ListOf(S.docs[d].atts, lf)]]
  /\ rd'   = [d \in Docs |-> [lf \in SeqSet(S.docs[d].leaves) |-> RdListOf(S.docs[d].atts, lf)]]
  /\ apierr' = [d \in Docs |-> ApiErr(S.docs[d])]
  /\ api'  = [d \in Docs |-> [lf \in SeqSet(S.docs[d].leaves) \ ApiErr(S.docs[d]) |-> ApiListOf(S.docs[d].api, lf)]]
  /\ blob' = {<<S.blob[i][1], S.blob[i][2]>> : i \in 1..Len(S.blob)}
  /\ badblob' = {<<S.blob[i][1], S.blob[i][2]>> : i \in {j \in 1..Len(S.blob) : S.blob[j][3] # S.blob[j][2]}}

TInit == Init /\ l = 1 /\ bi = -1 /\ diverged = FALSE

Reset == /\ Ev("Reset")
         /\ allow' = R.allow /\ eccv' = R.eccv /\ clen' = [c \in Contents |-> R.clen[c]]
         /\ cenc' = [c \in Contents |-> R.cenc[c]] /\ celen' = [c \in Contents |-> R.celen[c]]
         /\ Logged
         /\ gen' = (0 :> 0) /\ cls' = (0 :> 1) /\ nr' = 0 /\ pend' = None /\ inner' = 0 /\ old' = [d \in Docs |-> <<>>]
         /\ want' = <<>> /\ residue' = {} /\ tainted' = {} /\ dev' = {} /\ settled' = FALSE
         /\ hist' = <<>> /\ bi' = R.beh /\ diverged' = FALSE
ResetShape == /\ \A d \in Docs : DOMAIN tree'[d] = {} /\ cur'[d] = 0
              /\ blob' = {}

PendOf(r) == [a |-> "pend", d |-> r.d, k |-> r.k, r |-> r.r, p |-> r.p, s |-> SpecOf(r.s), h |-> HOf(r), mp |-> Par(r.d, r.k, r.p)]
(* the parent the step really uses: the End of a bracket re-uses the matchRev captured by the first attempt *)
EPr(r) == IF r.a = "E" /\ pend # None THEN EP(pend) ELSE r.p
Keep == UNCHANGED <<conf, hist, bi, diverged>>

(* ---- pass P ---- *)
PIds == UNCHANGED <<gen, cls, nr, inner, old>>
PW == Ev("W") /\ Logged /\ GhostCommit(R.d, R.k, R.r, R.p, SpecOf(R.s), R.ok) /\ UNCHANGED pend /\ PIds /\ Keep
PB == Ev("B") /\ Logged /\ GhostIdle /\ pend' = PendOf(R) /\ PIds /\ Keep
PT == Ev("T") /\ Logged /\ GhostIdle /\ UNCHANGED pend /\ PIds /\ Keep
PE == Ev("E") /\ Logged /\ GhostCommit(R.d, R.k, R.r, R.p, SpecOf(R.s), R.ok) /\ pend' = None /\ PIds /\ Keep
PNext == Reset \/ PW \/ PB \/ PT \/ PE
PSpec == TInit /\ [][PNext]_tvars

PNames == {"LeafSafe", "Collected", "Intact", "X_LeafSafe", "X_Collected", "X_Intact"}
PFailing == {n \in PNames :
               ~CASE n = "LeafSafe" -> LeafSafe
                  [] n = "Collected" -> Collected
                  [] n = "Intact" -> Intact
                  [] n = "X_LeafSafe" -> X_LeafSafe
                  [] n = "X_Collected" -> X_Collected
                  [] n = "X_Intact" -> X_Intact}
(* one record per (behaviour, predicate): the first line at which it fails, with the deviation kinds seen so far *)
NewFail == {n \in PFailing : ~\E x \in TLCGet(2) : x.b = bi /\ x.p = n}
CollectP == bi < 0 \/ NewFail = {} \/ TLCSet(2, TLCGet(2) \cup {[b |-> bi, p |-> n, line |-> l - 1, dev |-> dev] : n \in NewFail})
(* per behaviour: was it hit by the deviation (recorded once, when it happens) *)
CollectDev == bi < 0 \/ dev = {} \/ (\E x \in TLCGet(3) : x.b = bi /\ x.dev = dev) \/ TLCSet(3, TLCGet(3) \cup {[b |-> bi, dev |-> dev, line |-> l - 1]})
PProgress == Mark(l) /\ CollectP /\ CollectDev
PAccept == PrintHWM /\ PrintT(<<"PVIOL", ToJson(TLCGet(2))>>) /\ PrintT(<<"PDEV", ToJson(TLCGet(3))>>)

(* ---- pass C ---- *)
ClsOf(k, h) == IF k = "push" THEN (IF h = 1 THEN 2 ELSE 0) ELSE 1
(* the recorded tree is the previous one plus the new revision; pruning may have removed old revisions and whole tombstoned branches *)
TreeStep(d, k, r, p) ==
  LET ot == tree[d]  nt == tree'[d]  pr == Par(d, k, p) IN
  /\ r \in DOMAIN nt /\ nt[r].d = (k = "del") /\ nt[r].p \in {pr, 0}
  /\ DOMAIN nt \subseteq DOMAIN ot \cup {r}
  /\ r \in Leaves(nt)
  /\ \A x \in Leaves(nt) \ {r} : x \in Leaves(ot) /\ x # pr
  /\ \A x \in Leaves(ot) \ (Leaves(nt) \cup {pr}) : ot[x].d
  /\ \A x \in DOMAIN nt \ {r} : nt[x].d = ot[x].d
CCommit(r) ==
  LET d == r.d  s == SpecOf(r.s) IN
  /\ TreeStep(d, r.k, r.r, EPr(r))
  /\ DOMAIN tree'[d] \subseteq DOMAIN gen \cup {r.r}
  /\ ImplCommit(d, r.k, r.r, EPr(r), s, HOf(r), tree'[d], cur'[d], tainted')
  /\ cur'[d] \in WinnersOf(tree'[d], gen', cls')
Same(D) == /\ \A d \in D : tree'[d] = tree[d] /\ cur'[d] = cur[d] /\ atts'[d] = atts[d]
CRefused == /\ Same(Docs \ tainted)
            /\ {b \in blob' : b[1] \notin tainted} = {b \in blob : b[1] \notin tainted} /\ UNCHANGED <<gen, cls, old>>
CKeep == UNCHANGED <<conf, hist, bi, diverged>>
CReset == Reset /\ ResetShape
CW == /\ ~diverged /\ Ev("W") /\ Logged /\ GhostCommit(R.d, R.k, R.r, R.p, SpecOf(R.s), R.ok)
      /\ (pend # None => inner < MaxInner)
      /\ (R.d \in tainted' \/ (Legal(R.d, R.k, R.p, SpecOf(R.s)) = R.ok))
      /\ IF R.ok THEN CCommit(R) ELSE CRefused
      /\ nr' = R.r /\ inner' = (IF pend = None THEN 0 ELSE inner + 1) /\ UNCHANGED pend /\ CKeep
CB == /\ ~diverged /\ Ev("B") /\ Logged /\ GhostIdle /\ pend = None
      /\ Legal(R.d, R.k, R.p, SpecOf(R.s)) = TRUE
      /\ Same(Docs \ tainted)
      /\ {b \in blob' : b[1] \notin tainted} = {b \in blob \cup Stored(R.d, SpecOf(R.s)) : b[1] \notin tainted}
      /\ pend' = PendOf(R) /\ inner' = 0 /\ nr' = R.r /\ UNCHANGED <<gen, cls, old>> /\ CKeep
CT == /\ ~diverged /\ Ev("T") /\ Logged /\ GhostIdle /\ pend # None
      /\ Same(Docs \ tainted)
      /\ {b \in blob' : b[1] \notin tainted} = {b \in blob : b[1] \notin tainted}
      /\ inner' = inner + 1 /\ UNCHANGED <<gen, cls, nr, pend, old>> /\ CKeep
CE == /\ ~diverged /\ Ev("E") /\ Logged /\ GhostCommit(R.d, R.k, R.r, R.p, SpecOf(R.s), R.ok) /\ pend # None
      /\ [pend EXCEPT !.mp = 0] = [PendOf(R) EXCEPT !.mp = 0]
      /\ (R.d \in tainted' \/ (Legal(R.d, R.k, EPr(R), SpecOf(R.s)) = R.ok))
      /\ IF R.ok THEN CCommit(R) ELSE CRefused
      /\ pend' = None /\ inner' = 0 /\ UNCHANGED nr /\ CKeep
CAny == CW \/ CB \/ CT \/ CE
(* diagnosis of a line that no action explains: which part of the write step is not satisfiable (printed as <<"CWHY", behaviour, line, ...>>) *)
DBase == l <= TraceLen /\ R.a \in {"W", "E"} /\ Logged /\ GhostCommit(R.d, R.k, R.r, R.p, SpecOf(R.s), R.ok)
Why == [base   |-> ENABLED DBase,
        legal  |-> (R.a \in {"W", "E"}) => (Legal(R.d, R.k, EPr(R), SpecOf(R.s)) = R.ok),
        tree   |-> ENABLED (DBase /\ (IF R.ok THEN TreeStep(R.d, R.k, R.r, EPr(R)) ELSE CRefused)),
        commit |-> ENABLED (DBase /\ R.ok /\ ImplCommit(R.d, R.k, R.r, EPr(R), SpecOf(R.s), HOf(R), tree'[R.d], cur'[R.d], tainted')),
        winner |-> ENABLED (DBase /\ R.ok /\ gen' = Ov(gen, R.r :> GenOf(Par(R.d, R.k, EPr(R))) + 1) /\ cls' = Ov(cls, R.r :> ClsOf(R.k, HOf(R)))
                            /\ cur'[R.d] \in WinnersOf(tree'[R.d], gen', cls')),
        pend   |-> IF R.a = "E" THEN pend = PendOf(R) ELSE TRUE]
CDiverge == /\ ~diverged /\ l <= TraceLen /\ R.a # "Reset" /\ ~ENABLED CAny
            /\ PrintT(<<"CWHY", bi, l, IF R.a \in {"W", "E"} THEN Why ELSE R.a>>)
            /\ diverged' = TRUE /\ l' = l + 1 /\ UNCHANGED <<vars, bi>>
CSkip == /\ diverged /\ l <= TraceLen /\ R.a # "Reset" /\ l' = l + 1 /\ UNCHANGED <<vars, bi, diverged>>
CNext == CReset \/ CAny \/ CDiverge \/ CSkip
CSpec == TInit /\ [][CNext]_tvars

XNames == {"X_LeafSafe", "X_Collected", "X_Intact", "TaintOnlyWithConflicts"}
XFailing == {n \in XNames :
               ~CASE n = "X_LeafSafe" -> X_LeafSafe
                  [] n = "X_Collected" -> X_Collected
                  [] n = "X_Intact" -> X_Intact
                  [] n = "TaintOnlyWithConflicts" -> TaintOnlyWithConflicts}
CollectC ==
  \/ bi < 0
  \/ /\ (~diverged \/ (\E x \in TLCGet(4) : x.b = bi) \/ TLCSet(4, TLCGet(4) \cup {[b |-> bi, line |-> l - 1]}))
     /\ (diverged \/ XFailing = {} \/ (\E x \in TLCGet(3) : x.b = bi /\ x.xfail = XFailing) \/ TLCSet(3, TLCGet(3) \cup {[b |-> bi, xfail |-> XFailing, line |-> l - 1]}))
CProgress == Mark(l) /\ CollectC
CAccept == PrintHWM /\ PrintT(<<"CXFAIL", ToJson(TLCGet(3))>>) /\ PrintT(<<"CDIV", ToJson(TLCGet(4))>>)
=============================================================================
