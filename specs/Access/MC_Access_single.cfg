CONSTANT Users <- U1
CONSTANT Roles <- R1
CONSTANT Chans <- ChAB
CONSTANT Docs <- D1
CONSTANT ChanMenu <- CM2
CONSTANT RoleMenu <- RM2
CONSTANT GrantMenu <- GS3
CONSTANT MaxSteps = 8
CONSTANT SplitWrite = TRUE
CONSTANT SplitLoad = FALSE
SPECIFICATION Spec
VIEW view
INVARIANT EffectiveAccess
INVARIANT RolesObserved
INVARIANT StoredMatchesWinner
INVARIANT CacheSound
INVARIANT TypeOK
CHECK_DEADLOCK FALSE
