CONSTANT Users <- U2
CONSTANT Roles <- R2
CONSTANT Chans <- ChABS
CONSTANT Docs <- D2
CONSTANT ChanMenu <- CM2
CONSTANT RoleMenu <- RM2
CONSTANT GrantMenu <- GM3
CONSTANT MaxSteps = 1000000
CONSTANT SplitWrite = FALSE
CONSTANT SplitLoad = TRUE
SPECIFICATION CSpec
CONSTRAINT Progress
POSTCONDITION Accept
CHECK_DEADLOCK FALSE
INVARIANT RolesObserved
INVARIANT StoredMatchesWinner
INVARIANT CacheSound
