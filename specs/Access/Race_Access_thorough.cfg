CONSTANT Users <- U1
CONSTANT Roles <- R1
CONSTANT Chans <- ChAB
CONSTANT Docs <- D1
CONSTANT ChanMenu <- CM2
CONSTANT RoleMenu <- RM2
CONSTANT GrantMenu <- GS2
CONSTANT MaxSteps = 7
CONSTANT SplitWrite = FALSE
CONSTANT SplitLoad = TRUE
SPECIFICATION Spec
VIEW view
INVARIANT RaceExport
CHECK_DEADLOCK FALSE
