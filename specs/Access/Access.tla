------------------------------- MODULE Access -------------------------------
(* Effective access of users: admin grants + sync-function grants of the current winning revision of live
   documents + the public channel, for the user and for every role the user holds (C03, DESIGN 4.3).

   Anchors (one action per critical section of the real code):
     AdminPut(p,cs,rs)     db/users.go UpdatePrincipal: getPrincipal(p) (rebuild when invalidated), then set
                           explicit channels / roles (SetExplicitChannels / SetExplicitRoles invalidate), Save.
                           A new principal is built by NewUserNoChannels / NewRoleNoChannels, which compute
                           channels and roles from the access views *before* the explicit grants are set.
     AdminDelete(p,purge)  auth.DeleteUser / db.DeleteRole (purge = remove the doc, else mark deleted + invalidate)
     DocWrite/DocDelete/DocConflict
                           db/crud.go documentUpdateFunc: new revision, winner re-evaluation, and - only when the
                           current revision changed - doc.Access/RoleAccess := grants of the (new) winner
                           (document.go updateAccess returns the principals whose grant changed)
     Invalidate            db/crud.go MarkPrincipalsChanged, the separate post-commit step (auth.InvalidateChannels /
                           InvalidateRoles: a principal that does not exist, or is already invalid, is NOT written)
     Load(p)               auth/auth.go getPrincipal: if channels invalid recompute explicit + access view + "!",
                           if roles invalid recompute explicit + role_access view; CAS-save
     LoadBegin/LoadEnd(p)  the same, split at the point between the view query and the CAS write (SplitLoad)
     Request(u)            GetUser(u) then InheritedCollectionChannels: load the user, then every role it names
                           (GetRoleIncDeleted; deleted / missing roles contribute nothing)

   Impl* conjuncts define the implementation variables (cache, win, dacc, pend, obs), Ghost* the ground truth
   (gp, docs) from the inputs alone; Track maintains the in-flight-load bookkeeping; Trace_Access reuses them. *)
EXTENDS Integers, Sequences, FiniteSets, TLC

CONSTANTS Users, Roles, Chans, Docs,   \* finite sets of strings
          ChanMenu,                    \* channel sets an admin may assign   (\subseteq SUBSET Chans)
          RoleMenu,                    \* role sets an admin may assign to a user (\subseteq SUBSET Roles)
          GrantMenu,                   \* grant tables a revision may carry
          MaxSteps,
          SplitWrite,                  \* BOOLEAN: document commit and post-commit invalidation are separate steps
          SplitLoad                    \* BOOLEAN: principal recomputation may be split (compute ... CAS write)

Princ    == Users \cup Roles
Public   == "!"
Branches == {1, 2}

EmptyG  == [acc |-> [p \in Princ |-> {}], racc |-> [u \in Users |-> {}]]
NoBr    == [st |-> "none", gen |-> 0, tb |-> 0, g |-> EmptyG]
NoPrinc == [ex |-> FALSE, del |-> FALSE, chans |-> {}, roles |-> {}]
NoCache == [cok |-> FALSE, cch |-> {}, rok |-> FALSE, cro |-> {}]
NoLoad  == [on |-> FALSE, dirty |-> FALSE, val |-> NoCache]
NoPend  == [c |-> {}, r |-> {}]
NoObs   == [on |-> FALSE, u |-> "", found |-> FALSE, chans |-> {}, roles |-> {}, quiet |-> TRUE]

VARIABLES
  gp,     \* ghost: admin-side ground truth  [Princ -> [ex, del, chans, roles]]   (from the inputs)
  docs,   \* ghost: per document, per branch the leaf  [st: none|live|dead, gen, tb, g: grants of that revision]
  win,    \* impl : branch of the document's current revision (0 = no such document)     (REAL in traces)
  dacc,   \* impl : the document's stored access / role_access maps                         (REAL in traces)
  cache,  \* impl : per principal the computed channels / roles, cok/rok = FALSE when invalidated (REAL)
  pend,   \* impl : invalidations of committed-but-not-yet-finished writes (model only)
  ld,     \* impl : in-flight split load per principal (model only)
  obs,    \* impl : what the last Request returned (REAL in traces); NoObs after any other action
  hist    \* behaviour so far (exported for replay; hidden by VIEW)
impl  == <<win, dacc, cache, pend, ld, obs>>
ghost == <<gp, docs>>
vars  == <<impl, ghost, hist>>
view  == <<impl, ghost, Len(hist)>>   \* the step count stays in the view: with the Len(hist) < MaxSteps guard the bounded
                                      \* search is then exact and its state count deterministic (not "whichever path came first")

Live(p) == gp[p].ex /\ ~gp[p].del

-----------------------------------------------------------------------------
(* Ground truth: a function of the admin inputs, the revisions' own grants, and which revision is current *)
DocLive(d)  == win[d] # 0 /\ docs[d][win[d]].st = "live"
GAcc(p)     == UNION {docs[d][win[d]].g.acc[p]  : d \in {e \in Docs : DocLive(e)}}
GRoles(u)   == UNION {docs[d][win[d]].g.racc[u] : d \in {e \in Docs : DocLive(e)}}
Own(p)      == gp[p].chans \cup GAcc(p) \cup {Public}
RolesOf(u)  == gp[u].roles \cup GRoles(u)
Eff(u)      == Own(u) \cup UNION {Own(r) : r \in {q \in RolesOf(u) : q \in Roles /\ Live(q)}}

(* What the implementation computes from its own stored maps *)
VAcc(p)     == UNION {dacc[d].acc[p]  : d \in Docs}
VRoles(u)   == UNION {dacc[d].racc[u] : d \in Docs}
Compute(p)  == gp[p].chans \cup VAcc(p) \cup {Public}
ComputeR(u) == gp[u].roles \cup VRoles(u)
Loaded(p)   ==                                   \* getPrincipal: rebuild what is invalid (not for deleted)
  IF ~Live(p) THEN cache[p]
  ELSE [cok |-> TRUE, cch |-> IF cache[p].cok THEN cache[p].cch ELSE Compute(p),
        rok |-> p \in Users,
        cro |-> IF p \in Users THEN (IF cache[p].rok THEN cache[p].cro ELSE ComputeR(p)) ELSE {}]
FreshP(p)   ==                                   \* New{User,Role}NoChannels: computed before explicit grants exist
  [cok |-> TRUE, cch |-> VAcc(p) \cup {Public}, rok |-> p \in Users, cro |-> IF p \in Users THEN VRoles(p) ELSE {}]
Inval(c, chg) ==
  [p \in Princ |-> [cok |-> c[p].cok /\ p \notin chg.c, cch |-> IF p \in chg.c THEN {} ELSE c[p].cch,
                    rok |-> c[p].rok /\ p \notin chg.r, cro |-> IF p \in chg.r THEN {} ELSE c[p].cro]]

(* Revision tree, reduced to the leaves: higher generation wins, then the digest (tb: 0 lowest / 1 an md5 /
   2 highest); two md5 digests of the same generation compare either way. No live leaf: same among tombstones. *)
Rank(br)   == br.gen * 3 + br.tb
Winners(B) ==
  LET lv == {b \in Branches : B[b].st = "live"}
      dd == {b \in Branches : B[b].st = "dead"}
      S  == IF lv # {} THEN lv ELSE dd
  IN IF S = {} THEN {0}
     ELSE {b \in S : \A c \in S : Rank(B[c]) < Rank(B[b]) \/ c = b
                                  \/ (Rank(B[c]) = Rank(B[b]) /\ B[b].tb = 1)}
StoredOf(B, w) == IF w # 0 /\ B[w].st = "live" THEN B[w].g ELSE EmptyG

NewBWrite(d, b, g)     == [docs[d] EXCEPT ![b] = [st |-> "live", gen |-> @.gen + 1, tb |-> 1, g |-> g]]
NewBDelete(d, b)       == [docs[d] EXCEPT ![b] = [st |-> "dead", gen |-> @.gen + 1, tb |-> 1, g |-> EmptyG]]
NewBConflict(d, hi, g) == [docs[d] EXCEPT ![2] = [st |-> "live", gen |-> docs[d][1].gen, tb |-> IF hi THEN 2 ELSE 0, g |-> g]]

-----------------------------------------------------------------------------
Init ==
  /\ gp = [p \in Princ |-> NoPrinc] /\ docs = [d \in Docs |-> [b \in Branches |-> NoBr]]
  /\ win = [d \in Docs |-> 0] /\ dacc = [d \in Docs |-> EmptyG]
  /\ cache = [p \in Princ |-> NoCache] /\ pend = NoPend /\ ld = [p \in Princ |-> NoLoad] /\ obs = NoObs
  /\ hist = <<>>

(* a principal document was written iff its cache or its admin record changed; that spoils an in-flight load *)
Track == ld' = [q \in Princ |-> IF ld[q].on /\ (cache'[q] # cache[q] \/ gp'[q] # gp[q])
                                THEN [ld[q] EXCEPT !.dirty = TRUE] ELSE ld[q]]

ImplAdminPut(p, cs, rs) ==
  LET lv == Live(p)
      b0 == IF lv THEN Loaded(p) ELSE FreshP(p)
      oc == IF lv THEN gp[p].chans ELSE {}
      or == IF lv THEN gp[p].roles ELSE {}
  IN /\ cache' = [cache EXCEPT ![p] = [cok |-> b0.cok /\ cs = oc, cch |-> IF cs = oc THEN b0.cch ELSE {},
                                       rok |-> b0.rok /\ rs = or, cro |-> IF rs = or THEN b0.cro ELSE {}]]
     /\ UNCHANGED <<win, dacc, pend>> /\ obs' = NoObs
GhostAdminPut(p, cs, rs) ==
  gp' = [gp EXCEPT ![p] = [ex |-> TRUE, del |-> FALSE, chans |-> cs, roles |-> rs]] /\ UNCHANGED docs

ImplAdminDelete(p, purge) ==
  cache' = [cache EXCEPT ![p] = NoCache] /\ UNCHANGED <<win, dacc, pend>> /\ obs' = NoObs
GhostAdminDelete(p, purge) ==
  gp' = [gp EXCEPT ![p] = IF purge THEN NoPrinc ELSE [NoPrinc EXCEPT !.ex = TRUE, !.del = TRUE]] /\ UNCHANGED docs

(* B = new leaf table of d, b = branch that received the new revision *)
ImplDoc(d, B, b) ==
  \E w \in Winners(B) :
    LET curChanged == (w = b) \/ (w # win[d])
        ns  == IF curChanged THEN StoredOf(B, w) ELSE dacc[d]
        chg == [c |-> {p \in Princ : dacc[d].acc[p] # ns.acc[p]}, r |-> {u \in Users : dacc[d].racc[u] # ns.racc[u]}]
    IN /\ win' = [win EXCEPT ![d] = w]
       /\ dacc' = [dacc EXCEPT ![d] = ns]
       /\ IF SplitWrite THEN pend' = [c |-> pend.c \cup chg.c, r |-> pend.r \cup chg.r] /\ cache' = cache
                        ELSE pend' = pend /\ cache' = Inval(cache, chg)
       /\ obs' = NoObs
GhostDoc(d, B) == docs' = [docs EXCEPT ![d] = B] /\ UNCHANGED gp

CanWrite(d, b) ==
  LET B == docs[d] IN
  \/ (B[1].st = "none" /\ B[2].st = "none" /\ b = 1)                              \* create
  \/ B[b].st = "live"                                                              \* child of a live leaf
  \/ (B[b].st = "dead" /\ (\A c \in Branches : B[c].st # "live") /\ win[d] = b)    \* resurrect the current tombstone

ImplInvalidate == cache' = Inval(cache, pend) /\ pend' = NoPend /\ UNCHANGED <<win, dacc>> /\ obs' = NoObs
ImplLoad(p)    == cache' = [cache EXCEPT ![p] = Loaded(p)] /\ UNCHANGED <<win, dacc, pend>> /\ obs' = NoObs
NeedsLoad(p)   == Live(p) /\ (~cache[p].cok \/ (p \in Users /\ ~cache[p].rok))

ImplLoadBegin(p) == /\ ld' = [ld EXCEPT ![p] = [on |-> TRUE, dirty |-> FALSE, val |-> Loaded(p)]]
                    /\ UNCHANGED <<win, dacc, pend, cache>> /\ obs' = NoObs
ImplLoadEnd(p)   == /\ cache' = [cache EXCEPT ![p] = IF ld[p].dirty THEN Loaded(p) ELSE ld[p].val]   \* CAS mismatch: redo
                    /\ ld' = [ld EXCEPT ![p] = NoLoad]
                    /\ UNCHANGED <<win, dacc, pend>> /\ obs' = NoObs

ReqCache(u) ==
  LET lu == Loaded(u)
      lr == {r \in lu.cro : r \in Roles /\ Live(r)}
  IN [q \in Princ |-> IF q = u \/ q \in lr THEN Loaded(q) ELSE cache[q]]
ImplRequest(u) ==
  /\ UNCHANGED <<win, dacc, pend>>
  /\ IF ~Live(u)
     THEN cache' = cache /\ obs' = [NoObs EXCEPT !.on = TRUE, !.u = u, !.quiet = (pend = NoPend)]
     ELSE LET c2 == ReqCache(u)
              lr == {r \in c2[u].cro : r \in Roles /\ Live(r)}
          IN /\ cache' = c2
             /\ obs' = [on |-> TRUE, u |-> u, found |-> TRUE, chans |-> c2[u].cch \cup UNION {c2[r].cch : r \in lr},
                        roles |-> c2[u].cro, quiet |-> (pend = NoPend)]
GhostSame == UNCHANGED <<gp, docs>>

Step(r) == hist' = Append(hist, r)

AdminPut(p, cs, rs) == /\ (p \in Roles => rs = {})
                       /\ ImplAdminPut(p, cs, rs) /\ GhostAdminPut(p, cs, rs) /\ Track
                       /\ Step([a |-> "AdminPut", p |-> p, cs |-> cs, rs |-> rs])
AdminDelete(p, purge) == /\ Live(p) /\ (p \in Users => purge)
                         /\ ImplAdminDelete(p, purge) /\ GhostAdminDelete(p, purge) /\ Track
                         /\ Step([a |-> "AdminDelete", p |-> p, purge |-> purge])
DocWrite(d, b, g) == /\ CanWrite(d, b)
                     /\ ImplDoc(d, NewBWrite(d, b, g), b) /\ GhostDoc(d, NewBWrite(d, b, g)) /\ Track
                     /\ Step([a |-> "DocWrite", d |-> d, b |-> b, g |-> g])
DocDelete(d, b) == /\ docs[d][b].st = "live"
                   /\ ImplDoc(d, NewBDelete(d, b), b) /\ GhostDoc(d, NewBDelete(d, b)) /\ Track
                   /\ Step([a |-> "DocDelete", d |-> d, b |-> b])
DocConflict(d, hi, g) == /\ docs[d][1].st # "none" /\ docs[d][2].st = "none"
                         /\ ImplDoc(d, NewBConflict(d, hi, g), 2) /\ GhostDoc(d, NewBConflict(d, hi, g)) /\ Track
                         /\ Step([a |-> "DocConflict", d |-> d, hi |-> hi, g |-> g])
Invalidate == /\ SplitWrite /\ pend # NoPend
              /\ ImplInvalidate /\ GhostSame /\ Track /\ Step([a |-> "Invalidate"])
Load(p) == /\ NeedsLoad(p) /\ ~ld[p].on
           /\ ImplLoad(p) /\ GhostSame /\ Track /\ Step([a |-> "Load", p |-> p])
LoadBegin(p) == /\ SplitLoad /\ NeedsLoad(p) /\ \A q \in Princ : ~ld[q].on
                /\ ImplLoadBegin(p) /\ GhostSame /\ Step([a |-> "LoadBegin", p |-> p])
LoadEnd(p) == /\ ld[p].on
              /\ ImplLoadEnd(p) /\ GhostSame /\ Step([a |-> "LoadEnd", p |-> p])
Request(u) == /\ ImplRequest(u) /\ GhostSame /\ Track /\ Step([a |-> "Request", u |-> u])

Next ==
  /\ Len(hist) < MaxSteps
  /\ \/ \E p \in Princ, cs \in ChanMenu, rs \in RoleMenu : AdminPut(p, cs, rs)
     \/ \E p \in Princ, purge \in BOOLEAN : AdminDelete(p, purge)
     \/ \E d \in Docs, b \in Branches, g \in GrantMenu : DocWrite(d, b, g)
     \/ \E d \in Docs, b \in Branches : DocDelete(d, b)
     \/ \E d \in Docs, hi \in BOOLEAN, g \in GrantMenu : DocConflict(d, hi, g)
     \/ Invalidate
     \/ \E p \in Princ : Load(p) \/ LoadBegin(p) \/ LoadEnd(p)
     \/ \E u \in Users : Request(u)
Spec == Init /\ [][Next]_vars

-----------------------------------------------------------------------------
(* C03.  A request that is not concurrent with an in-flight write sees exactly Eff(u) - whatever the order in
   which principals, roles and granting revisions were created (Eff is a function of the present ground truth
   only, so equality with it *is* creation-order independence), in both directions (grant and revoke). *)
EffectiveAccess ==
  (obs.on /\ obs.quiet) => /\ obs.found = Live(obs.u)
                           /\ (obs.found => obs.chans = Eff(obs.u))

(* auxiliary / design invariants *)
RolesObserved == (obs.on /\ obs.quiet /\ obs.found) => obs.roles = RolesOf(obs.u)
StoredMatchesWinner == \A d \in Docs : dacc[d] = StoredOf(docs[d], win[d])
Quiescent == pend = NoPend /\ \A p \in Princ : ~ld[p].on
CacheSound ==      \* the invalidation protocol: whatever is marked valid is right once nothing is in flight
  Quiescent => \A p \in Princ : Live(p) =>
                 /\ (cache[p].cok => cache[p].cch = Own(p))
                 /\ (p \in Users /\ cache[p].rok => cache[p].cro = RolesOf(p))
TypeOK ==
  /\ \A p \in Princ : /\ cache[p].cch \subseteq Chans \cup {Public} /\ cache[p].cro \subseteq Roles
                      /\ (~gp[p].ex => cache[p] = NoCache)
  /\ \A d \in Docs : win[d] \in 0..2
=============================================================================
