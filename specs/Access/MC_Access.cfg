CONSTANT Users <- U2
CONSTANT Roles <- R2
CONSTANT Chans <- ChAB
CONSTANT Docs <- D1
CONSTANT ChanMenu <- CM2
CONSTANT RoleMenu <- RM2
CONSTANT GrantMenu <- GM4
CONSTANT MaxSteps = 5
CONSTANT SplitWrite = TRUE
CONSTANT SplitLoad = FALSE
SPECIFICATION Spec
VIEW view
INVARIANT EffectiveAccess
INVARIANT RolesObserved
INVARIANT StoredMatchesWinner
INVARIANT CacheSound
INVARIANT TypeOK
CHECK_DEADLOCK FALSE
