CONSTANT Users <- U1
CONSTANT Roles <- R1
CONSTANT Chans <- ChAB
CONSTANT Docs <- D1
CONSTANT ChanMenu <- CM2
CONSTANT RoleMenu <- RM2
CONSTANT GrantMenu <- GS2
CONSTANT MaxSteps = 4
CONSTANT SplitWrite = FALSE
CONSTANT SplitLoad = FALSE
SPECIFICATION Spec
INVARIANT BehaviourExport
CHECK_DEADLOCK FALSE
