CONSTANT Users <- U1
CONSTANT Roles <- R1
CONSTANT Chans <- ChAB
CONSTANT Docs <- D1
CONSTANT ChanMenu <- CMB
CONSTANT RoleMenu <- RM1
CONSTANT GrantMenu <- GR2
CONSTANT MaxSteps = 6
CONSTANT SplitWrite = FALSE
CONSTANT SplitLoad = TRUE
SPECIFICATION Spec
VIEW view
INVARIANT RaceExport
CHECK_DEADLOCK FALSE
