CONSTANT Users <- U2
CONSTANT Roles <- R2
CONSTANT Chans <- ChAB
CONSTANT Docs <- D1
CONSTANT ChanMenu <- CM2
CONSTANT RoleMenu <- RM2
CONSTANT GrantMenu <- GM4
CONSTANT MaxSteps = 12
CONSTANT SplitWrite = FALSE
CONSTANT SplitLoad = FALSE
SPECIFICATION SimSpec
INVARIANT SimExport
CHECK_DEADLOCK FALSE
