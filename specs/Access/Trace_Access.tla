---------------------------- MODULE Trace_Access ----------------------------
(* Validation of traces recorded from a real database (harness/db/c03_access_test.go).
   Every line carries the REAL post-state of the call:
     cache : per principal {cok, cch, rok, cro}  raw principal document (computed channels / roles; ok = not invalidated)
     win   : per document the branch of the REAL current revision (0 = no document)
     dacc  : per document the raw _sync access / role_access maps
   and the inputs of the call:
     {a:"Reset", beh}
     {a:"AdminPut", p, cs, rs}   {a:"AdminDelete", p, purge}
     {a:"DocWrite", d, b, g}     {a:"DocDelete", d, b}     {a:"DocConflict", d, hi, g}
     {a:"Load", p}               {a:"LoadBegin", p}        {a:"LoadEnd", p}
     {a:"Request", u, found, chans, roles}    chans = InheritedCollectionChannels key set, roles = RoleNames
   Pass P: impl variables := logged real state, ground truth (gp, docs) advances from the inputs only; the
   winner used by the ground truth is the REAL one.  Pass C: each line is an instance of the spec action. *)
EXTENDS MC_Access, TraceLib

VARIABLE l
tvars == <<vars, l>>

SetOf(s)  == {s[i] : i \in 1..Len(s)}
LCache(r) == [p \in Princ |-> [cok |-> r[p].cok, cch |-> SetOf(r[p].cch), rok |-> r[p].rok, cro |-> SetOf(r[p].cro)]]
LG(r)     == [acc |-> [p \in Princ |-> SetOf(r.acc[p])], racc |-> [u \in Users |-> SetOf(r.racc[u])]]
T         == Trace[l]

Ev(a) == l <= TraceLen /\ Trace[l].a = a /\ l' = l + 1
Logged == /\ cache' = LCache(T.cache)
          /\ win'   = [d \in Docs |-> T.win[d]]
          /\ dacc'  = [d \in Docs |-> LG(T.dacc[d])]
LoggedObs == obs' = [on |-> TRUE, u |-> T.u, found |-> T.found, chans |-> SetOf(T.chans), roles |-> SetOf(T.roles), quiet |-> TRUE]
ModelOnly == UNCHANGED <<pend, ld, hist>>

TInit == Init /\ l = 1

Reset == /\ Ev("Reset")
         /\ gp' = [p \in Princ |-> NoPrinc] /\ docs' = [d \in Docs |-> [b \in Branches |-> NoBr]]
         /\ win' = [d \in Docs |-> 0] /\ dacc' = [d \in Docs |-> EmptyG]
         /\ cache' = [p \in Princ |-> NoCache] /\ pend' = NoPend /\ ld' = [p \in Princ |-> NoLoad] /\ obs' = NoObs
         /\ hist' = <<>>

(* pass P *)
PAdminPut    == Ev("AdminPut")    /\ Logged /\ obs' = NoObs /\ ModelOnly /\ GhostAdminPut(T.p, SetOf(T.cs), SetOf(T.rs))
PAdminDelete == Ev("AdminDelete") /\ Logged /\ obs' = NoObs /\ ModelOnly /\ GhostAdminDelete(T.p, T.purge)
PDocWrite    == Ev("DocWrite")    /\ Logged /\ obs' = NoObs /\ ModelOnly /\ GhostDoc(T.d, NewBWrite(T.d, T.b, LG(T.g)))
PDocDelete   == Ev("DocDelete")   /\ Logged /\ obs' = NoObs /\ ModelOnly /\ GhostDoc(T.d, NewBDelete(T.d, T.b))
PDocConflict == Ev("DocConflict") /\ Logged /\ obs' = NoObs /\ ModelOnly /\ GhostDoc(T.d, NewBConflict(T.d, T.hi, LG(T.g)))
PLoad        == (Ev("Load") \/ Ev("LoadBegin") \/ Ev("LoadEnd")) /\ Logged /\ obs' = NoObs /\ ModelOnly /\ GhostSame
PRequest     == Ev("Request")     /\ Logged /\ LoggedObs /\ ModelOnly /\ GhostSame
PNext == Reset \/ PAdminPut \/ PAdminDelete \/ PDocWrite \/ PDocDelete \/ PDocConflict \/ PLoad \/ PRequest
PSpec == TInit /\ [][PNext]_tvars

(* pass C *)
CAdminPut    == Ev("AdminPut")    /\ ImplAdminPut(T.p, SetOf(T.cs), SetOf(T.rs)) /\ Logged /\ GhostAdminPut(T.p, SetOf(T.cs), SetOf(T.rs)) /\ Track
CAdminDelete == Ev("AdminDelete") /\ ImplAdminDelete(T.p, T.purge) /\ Logged /\ GhostAdminDelete(T.p, T.purge) /\ Track
CDocWrite    == Ev("DocWrite")    /\ ImplDoc(T.d, NewBWrite(T.d, T.b, LG(T.g)), T.b) /\ Logged /\ GhostDoc(T.d, NewBWrite(T.d, T.b, LG(T.g))) /\ Track
CDocDelete   == Ev("DocDelete")   /\ ImplDoc(T.d, NewBDelete(T.d, T.b), T.b) /\ Logged /\ GhostDoc(T.d, NewBDelete(T.d, T.b)) /\ Track
CDocConflict == Ev("DocConflict") /\ ImplDoc(T.d, NewBConflict(T.d, T.hi, LG(T.g)), 2) /\ Logged /\ GhostDoc(T.d, NewBConflict(T.d, T.hi, LG(T.g))) /\ Track
CLoad        == Ev("Load")        /\ ImplLoad(T.p) /\ Logged /\ GhostSame /\ Track
CLoadBegin   == Ev("LoadBegin")   /\ ImplLoadBegin(T.p) /\ Logged /\ GhostSame
CLoadEnd     == Ev("LoadEnd")     /\ ImplLoadEnd(T.p) /\ Logged /\ GhostSame
CRequest     == Ev("Request")     /\ ImplRequest(T.u) /\ Logged /\ LoggedObs /\ GhostSame /\ Track
CNext == \/ Reset
         \/ ((CAdminPut \/ CAdminDelete \/ CDocWrite \/ CDocDelete \/ CDocConflict \/ CLoad \/ CLoadBegin \/ CLoadEnd \/ CRequest)
             /\ UNCHANGED hist)
CSpec == TInit /\ [][CNext]_tvars

Progress == Mark(l)
Accept == PrintHWM
=============================================================================
