----------------------------- MODULE MC_Access -----------------------------
EXTENDS Access, Json

(* grant tables: G(a, r) with a = set of <<principal, channel>>, r = set of <<user, role>> *)
G(a, r) == [acc  |-> [p \in Princ |-> {x[2] : x \in {y \in a : y[1] = p}}],
            racc |-> [u \in Users |-> {x[2] : x \in {y \in r : y[1] = u}}]]

U2 == {"u1", "u2"}
R2 == {"r1", "r2"}
U1 == {"u1"}
R1 == {"r1"}
D1 == {"d1"}
D2 == {"d1", "d2"}
ChAB == {"A", "B"}
ChABS == {"A", "B", "*"}

CM2 == {{}, {"A"}}
CMS == {{}, {"A"}, {"B", "*"}}
RM2 == {{}, {"r1"}}
RM1 == {{}}
CMB == {{}, {"B"}}
RM3 == {{}, {"r1"}, {"r1", "r2"}}

(* exhaustive model: a user grant, a role grant, a role assignment, a mixed one touching the other user *)
GM4 == { G({<<"u1", "A">>}, {}),
         G({<<"r1", "B">>}, {}),
         G({}, {<<"u1", "r1">>}),
         G({<<"u1", "B">>, <<"r1", "A">>, <<"u2", "A">>}, {<<"u1", "r1">>, <<"u2", "r2">>}) }
GM3 == { G({}, {}),
         G({<<"u1", "A">>, <<"r1", "B">>}, {}),
         G({<<"r1", "A">>}, {<<"u1", "r1">>}) }
(* single user / role instances (behaviour export, race search) *)
GS3 == { G({<<"u1", "A">>}, {}),
         G({<<"r1", "B">>}, {<<"u1", "r1">>}),
         G({}, {}) }
GS2 == { G({<<"u1", "A">>}, {}),
         G({<<"r1", "B">>}, {<<"u1", "r1">>}) }
GM5 == GM4 \cup { G({<<"u2", "A">>, <<"r2", "B">>, <<"r1", "A">>}, {<<"u1", "r2">>, <<"u2", "r1">>}) }
(* split-load search: admin channel B, document grants A, role membership through the document *)
GR2 == { G({<<"u1", "A">>}, {}),
         G({<<"r1", "A">>}, {<<"u1", "r1">>}) }
(* Simulation: TLC picks uniformly among SUCCESSOR STATES, so with Next the actions with large menus (AdminPut, DocWrite,
   DocConflict) swamp DocDelete / Load / Request.  SimNext draws the arguments with RandomElement: one successor per
   action kind (document writes doubled), so that tombstones, winner flips, reloads and requests interleave. *)
Pick(S) == {RandomElement(S)}       \* \E x \in Pick(S) binds one random element (evaluated once)
Writable   == {x \in Docs \X Branches : CanWrite(x[1], x[2])}
Deletable  == {x \in Docs \X Branches : docs[x[1]][x[2]].st = "live"}
Forkable   == {d \in Docs : docs[d][1].st # "none" /\ docs[d][2].st = "none"}
LivePrinc  == {p \in Princ : Live(p)}
Reloadable == {p \in Princ : NeedsLoad(p)}
SimDocWrite == Writable # {} /\ \E x \in Pick(Writable), g \in Pick(GrantMenu) : DocWrite(x[1], x[2], g)
SimRequest  == \E u \in Pick(Users) : Request(u)
SimNext ==
  /\ Len(hist) < MaxSteps
  /\ \/ \E p \in Pick(Users), cs \in Pick(ChanMenu), rs \in Pick(RoleMenu) : AdminPut(p, cs, rs)
     \/ \E p \in Pick(Roles), cs \in Pick(ChanMenu) : AdminPut(p, cs, {})
     \/ (LivePrinc # {} /\ \E p \in Pick(LivePrinc), pg \in Pick(BOOLEAN) : AdminDelete(p, p \in Users \/ pg))
     \/ SimDocWrite \/ SimDocWrite
     \/ (Deletable # {} /\ \E x \in Pick(Deletable) : DocDelete(x[1], x[2]))
     \/ (Forkable # {} /\ \E d \in Pick(Forkable), hi \in Pick(BOOLEAN), g \in Pick(GrantMenu) : DocConflict(d, hi, g))
     \/ (Reloadable # {} /\ \E p \in Pick(Reloadable) : Load(p))
     \/ SimRequest
SimSpec == Init /\ [][SimNext]_vars

BehaviourExport == (Len(hist) = MaxSteps) => PrintT(<<"BEH", ToJson(hist)>>)
(* -simulate evaluates invariants on every successor of the states of a trace: export only those that end in a request *)
SimExport == (Len(hist) = MaxSteps /\ hist[MaxSteps].a = "Request") => PrintT(<<"BEH", ToJson(hist)>>)
(* candidates: behaviours of the split-load model that end in a quiet request which does not see Eff(u) *)
RaceExport == (obs.on /\ obs.quiet /\ ~EffectiveAccess) => PrintT(<<"RACE", ToJson(hist)>>)
=============================================================================
