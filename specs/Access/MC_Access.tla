----------------------------- MODULE MC_Access -----------------------------
EXTENDS Access, Json

(* grant tables: G(a, r) with a = set of <<principal, channel>>, r = set of <<user, role>> *)
G(a, r) == [acc  |-> [p \in Princ |-> {x[2] : x \in {y \in a : y[1] = p}}],
            racc |-> [u \in Users |-> {x[2] : x \in {y \in r : y[1] = u}}]]

U2 == {"u1", "u2"}
R2 == {"r1", "r2"}
U1 == {"u1"}
R1 == {"r1"}
D1 == {"d1"}
D2 == {"d1", "d2"}
ChAB == {"A", "B"}
ChABS == {"A", "B", "*"}

CM2 == {{}, {"A"}}
CM4 == SUBSET ChAB
CMS == {{}, {"A"}, {"B", "*"}}
RM2 == {{}, {"r1"}}
RM1 == {{}}
CMB == {{}, {"B"}}
RM3 == {{}, {"r1"}, {"r1", "r2"}}

(* exhaustive model: a user grant, a role grant, a role assignment, a mixed one touching the other user *)
GM4 == { G({<<"u1", "A">>}, {}),
         G({<<"r1", "B">>}, {}),
         G({}, {<<"u1", "r1">>}),
         G({<<"u1", "B">>, <<"r1", "A">>, <<"u2", "A">>}, {<<"u1", "r1">>, <<"u2", "r2">>}) }
GM3 == { G({}, {}),
         G({<<"u1", "A">>, <<"r1", "B">>}, {}),
         G({<<"r1", "A">>}, {<<"u1", "r1">>}) }
(* single user / role instances (behaviour export, race search) *)
GS3 == { G({<<"u1", "A">>}, {}),
         G({<<"r1", "B">>}, {<<"u1", "r1">>}),
         G({}, {}) }
GS2 == { G({<<"u1", "A">>}, {}),
         G({<<"r1", "B">>}, {<<"u1", "r1">>}) }
GM5 == GM4 \cup { G({<<"u2", "A">>, <<"r2", "B">>, <<"r1", "A">>}, {<<"u1", "r2">>, <<"u2", "r1">>}) }
(* split-load search: admin channel B, document grants A, role membership through the document *)
GR2 == { G({<<"u1", "A">>}, {}),
         G({<<"r1", "A">>}, {<<"u1", "r1">>}) }
(* simulation: richer tables over two users and two roles *)
GM8 == GM4 \cup { G({}, {}),
                  G({<<"u1", "A">>, <<"u2", "B">>}, {<<"u2", "r1">>}),
                  G({<<"r2", "A">>, <<"r1", "A">>}, {<<"u1", "r2">>}),
                  G({<<"u2", "A">>, <<"u2", "B">>, <<"r2", "B">>}, {<<"u1", "r1">>, <<"u1", "r2">>}) }

BehaviourExport == (Len(hist) = MaxSteps) => PrintT(<<"BEH", ToJson(hist)>>)
(* -simulate evaluates invariants on every successor of the states of a trace: export only those that end in a request *)
SimExport == (Len(hist) = MaxSteps /\ hist[MaxSteps].a = "Request") => PrintT(<<"BEH", ToJson(hist)>>)
(* candidates: behaviours of the split-load model that end in a quiet request which does not see Eff(u) *)
RaceExport == (obs.on /\ obs.quiet /\ ~EffectiveAccess) => PrintT(<<"RACE", ToJson(hist)>>)
=============================================================================
