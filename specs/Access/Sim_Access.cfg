CONSTANT Users <- U2
CONSTANT Roles <- R2
CONSTANT Chans <- ChABS
CONSTANT Docs <- D2
CONSTANT ChanMenu <- CMS
CONSTANT RoleMenu <- RM4
CONSTANT GrantMenu <- GM8
CONSTANT MaxSteps = 12
CONSTANT SplitWrite = FALSE
CONSTANT SplitLoad = FALSE
SPECIFICATION Spec
INVARIANT BehaviourExport
CHECK_DEADLOCK FALSE
