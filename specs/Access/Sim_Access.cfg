CONSTANT Users <- U2
CONSTANT Roles <- R2
CONSTANT Chans <- ChABS
CONSTANT Docs <- D2
CONSTANT ChanMenu <- CMS
CONSTANT RoleMenu <- RM3
CONSTANT GrantMenu <- GM5
CONSTANT MaxSteps = 12
CONSTANT SplitWrite = FALSE
CONSTANT SplitLoad = FALSE
SPECIFICATION SimSpec
INVARIANT SimExport
CHECK_DEADLOCK FALSE
