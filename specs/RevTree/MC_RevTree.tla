--------------------------- MODULE MC_RevTree ---------------------------
EXTENDS RevTree, Json
MCGood == AllGoodChains(MaxGen)
MCBad  == AllBadChains({r \in Rev : r.d = 1} \cup {Mk(1, 2)})     \* a few malformed histories are enough
NoChains == {}
One == {1}
Two == {1, 2}
TreeCfg(gv) == [lvl |-> "tree", ac |-> TRUE, lim |-> 0, gv |-> gv, n |-> Cardinality(Reps)]
DbCfg(ac, lim) == [lvl |-> "db", ac |-> ac, lim |-> lim, gv |-> <<1, 2, 3, 4>>, n |-> Cardinality(Reps)]
(* generation values: contiguous, and with a gap (tombstone ageing reaches shared ancestors only across a gap) *)
CfgTree    == {TreeCfg(<<1, 2, 3, 4>>), TreeCfg(<<1, 2, 9, 10>>)}
CfgTree1   == {TreeCfg(<<1, 2, 3, 4>>)}
CfgDb      == {DbCfg(ac, lim) : ac \in BOOLEAN, lim \in {0, 1, 2}}
CfgDbNoLim == {DbCfg(ac, 0) : ac \in BOOLEAN}
CfgAll     == CfgTree \cup CfgDb
CfgFeed    == CfgTree1 \cup CfgDbNoLim
(* behaviours for the binding.  ExportEnd (invariant): one behaviour per distinct end state.  ExportStep (action
   constraint, evaluated by TLC on every generated transition before de-duplication): with VIEW view1 every
   transition out of every distinct reachable state is exported once, prefixed by the representative history
   of its source state - a transition cover of the bounded state graph. *)
ExportEnd  == (Len(hist) = MaxSteps) => PrintT(<<"BEH", ToJson([cfg |-> cfg, steps |-> hist])>>)
ExportStep == PrintT(<<"BEH", ToJson([cfg |-> cfg, steps |-> hist'])>>)
=============================================================================
