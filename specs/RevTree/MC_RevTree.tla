--------------------------- MODULE MC_RevTree ---------------------------
EXTENDS RevTree, Json
MCGood == AllGoodChains(MaxGen)
MCBad  == AllBadChains({r \in Rev : r.d = 1} \cup {Mk(1, 2)})     \* a few malformed histories are enough
NoChains == {}
One == {1}
Two == {1, 2}
TreeCfg(gv) == [lvl |-> "tree", ac |-> TRUE, lim |-> 0, gv |-> gv, n |-> Cardinality(Reps)]
DbCfg(ac, lim) == [lvl |-> "db", ac |-> ac, lim |-> lim, gv |-> <<1, 2, 3, 4>>, n |-> Cardinality(Reps)]
(* generation values: contiguous, and with a gap (tombstone ageing reaches shared ancestors only across a gap) *)
CfgTree    == {TreeCfg(<<1, 2, 3, 4>>), TreeCfg(<<1, 2, 9, 10>>)}
CfgTree1   == {TreeCfg(<<1, 2, 3, 4>>)}
CfgDb      == {DbCfg(ac, lim) : ac \in BOOLEAN, lim \in {0, 1, 2}}
CfgDbNoLim == {DbCfg(ac, 0) : ac \in BOOLEAN}
CfgDbConf  == {DbCfg(TRUE, 0)}          \* conflicts allowed: the winner can fall back to an older live branch
CfgAll     == CfgTree \cup CfgDb
CfgFeed    == CfgTree1 \cup CfgDbNoLim
(* Simulation: TLC picks uniformly among SUCCESSOR STATES, so with Next the actions with many argument choices
   (hundreds of histories) would swamp Prune and the targeted writes.  SimNext draws the arguments with
   RandomElement - one successor per action KIND - and biases them towards the interesting ones (a child that can be
   added, a history that extends a leaf, a tombstone on the winner).  Bound variables over singleton sets make
   sure a drawn value is used consistently. *)
RE(S) == RandomElement(S)
Pick(S, dflt) == IF S = {} THEN dflt ELSE RandomElement(S)
NcSet == IF cfg.ac THEN BOOLEAN ELSE {FALSE}
Above(t, p) == {x \in Rev : x.g > p.g /\ x \notin DOMAIN t}
Cons(del) == IF Feed THEN {ch \in GoodChains : ChainCons(ch, del)} ELSE GoodChains
SimTree(i) ==
  \/ ~Feed /\ \E p \in {RE(DOMAIN tree[i] \cup {Nil})} : \E r \in {Pick(Above(tree[i], p), Mk(1, 1))} : TryAdd(i, r, p, RE(BOOLEAN))
  \/ ~Feed /\ TryAdd(i, RE(Rev), RE(DOMAIN tree[i] \cup {Nil}), RE(BOOLEAN))
  \/ ~Feed /\ ~Lean /\ TryAdd(i, RE(Rev), RE(Rev), RE(BOOLEAN))
  \/ \E del \in {RE(BOOLEAN)} : \E ch \in {Pick(Cons(del), <<>>)} : ch # <<>> /\ PutHistT(i, ch, del)
  \/ \E lf \in {Pick(Leaves(tree[i]), Nil)} : \E r \in {Pick(Above(tree[i], lf), Nil)} :
        lf # Nil /\ r # Nil /\ PutHistT(i, <<r>> \o PathUp(tree[i], lf), RE(BOOLEAN))
  \/ ~Feed /\ Prune(i, RE(Depths))
FreshD(i, p) == Pick({d \in 1..NDig : Mk(PutParent(i, p).g + 1, d) \notin DOMAIN tree[i] /\ PutParent(i, p).g < MaxGen
                                        /\ UP(Mk(PutParent(i, p).g + 1, d)) = Unk}, 1)
SimDb(i) ==
  \/ \E del \in {RE(BOOLEAN)} : \E ch \in {Pick(Cons(del), <<>>)} : ch # <<>> /\ PutHistD(i, ch, del, RE(NcSet))
  \/ \E lf \in {Pick(Leaves(tree[i]), Nil)} : \E r \in {Pick(Above(tree[i], lf), Nil)} :
        lf # Nil /\ r # Nil /\ PutHistD(i, <<r>> \o PathUp(tree[i], lf), RE(BOOLEAN), RE(NcSet))
  \/ \E p \in {RE(Leaves(tree[i]) \cup {Nil})} : PutChild(i, p, FreshD(i, p), RE(BOOLEAN))
  \/ cur[i] # Nil /\ PutChild(i, cur[i], FreshD(i, cur[i]), TRUE)
  \/ ~Feed /\ \E p \in {RE(Rev \cup {Nil})} : PutChild(i, p, RE(1..NDig), RE(BOOLEAN))
  \/ ~Feed /\ BadChains # {} /\ PutHistD(i, RE(BadChains), RE(BOOLEAN), RE(NcSet))
Remaining == {fed[1][k] : k \in 1..Len(fed[1])} \ {fed[2][k] : k \in 1..Len(fed[2])}
SimFeed2 == Feed /\ Remaining # {} /\ \E e \in {RE(Remaining)} :
  IF cfg.lvl = "tree" THEN PutHistT(2, e.ch, e.del) ELSE PutHistD(2, e.ch, e.del, e.nc)
SimNext ==
  /\ Len(hist) < MaxSteps
  /\ \/ \E i \in Reps : (cfg.lvl = "tree" /\ SimTree(i)) \/ (cfg.lvl = "db" /\ SimDb(i))
     \/ SimFeed2
  /\ Forced
SimSpec == Init /\ [][SimNext]_vars

(* behaviours for the binding.  ExportEnd (invariant): one behaviour per distinct end state.  ExportStep (action
   constraint, evaluated by TLC on every generated transition before de-duplication): with VIEW view1 every
   transition out of every distinct reachable state is exported once, prefixed by the representative history
   of its source state - a transition cover of the bounded state graph. *)
ExportEnd  == (Len(hist) = MaxSteps) => PrintT(<<"BEH", ToJson([cfg |-> cfg, steps |-> hist])>>)
ExportStep == PrintT(<<"BEH", ToJson([cfg |-> cfg, steps |-> hist'])>>)
=============================================================================
