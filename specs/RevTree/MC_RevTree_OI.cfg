CONSTANT MaxGen = 2
CONSTANT NDig = 2
CONSTANT MaxRevs = 3
CONSTANT MaxSteps = 4
CONSTANT Reps <- Two
CONSTANT Depths = {1}
CONSTANT Configs <- CfgFeed
CONSTANT Feed = TRUE
CONSTANT GoodChains <- MCGood
CONSTANT BadChains <- MCBad
CONSTANT Lean = TRUE
SPECIFICATION Spec
CHECK_DEADLOCK FALSE
VIEW view
INVARIANT Forest
INVARIANT GenIncreasing
INVARIANT WinnerIsMax
INVARIANT FlagsAgree
INVARIANT ReloadPreserves
INVARIANT WinningBody
INVARIANT OrderIndependent
INVARIANT OrderIndependentStructure
INVARIANT CurIsWin
INVARIANT Bounded
INVARIANT TypeOK
