CONSTANT MaxGen = 4
CONSTANT NDig = 3
CONSTANT MaxRevs = 6
CONSTANT MaxSteps = 6
CONSTANT Reps <- One
CONSTANT Depths = {1, 2, 3}
CONSTANT Configs <- CfgAll
CONSTANT Feed = FALSE
CONSTANT Lean = FALSE
CONSTANT GoodChains <- MCGood
CONSTANT BadChains <- MCBad
SPECIFICATION SimSpec
CHECK_DEADLOCK FALSE
INVARIANT ExportEnd
