CONSTANT MaxGen = 2
CONSTANT NDig = 2
CONSTANT MaxRevs = 3
CONSTANT MaxSteps = 4
CONSTANT Reps <- Two
CONSTANT Depths = {1, 2}
CONSTANT Configs <- CfgFeed
CONSTANT Feed = TRUE
CONSTANT Lean = TRUE
CONSTANT GoodChains <- MCGood
CONSTANT BadChains <- MCBad
SPECIFICATION Spec
CHECK_DEADLOCK FALSE
VIEW view
INVARIANT ExportEnd
