CONSTANT MaxGen = 6
CONSTANT NDig = 12
CONSTANT MaxRevs = 1000
CONSTANT MaxSteps = 1000000
CONSTANT Reps <- TwoReps
CONSTANT Depths = {1}
CONSTANT Configs <- TraceCfgs
CONSTANT Feed = FALSE
CONSTANT Lean = FALSE
CONSTANT GoodChains <- NoChains
CONSTANT BadChains <- NoChains
SPECIFICATION PSpec
CONSTRAINT Progress
POSTCONDITION Accept
CHECK_DEADLOCK FALSE
INVARIANT Forest
INVARIANT GenIncreasing
INVARIANT WinnerIsMax
INVARIANT FlagsAgree
INVARIANT PruneSafe
INVARIANT ReloadPreserves
INVARIANT WinningBody
INVARIANT OrderIndependent
