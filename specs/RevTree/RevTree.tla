--------------------------- MODULE RevTree ---------------------------
(* Revision trees: db/revtree.go (addRevision, winningRevision, pruneRevisions, Marshal/UnmarshalJSON),
   db/revision.go compareRevIDs, db/crud.go (Put, PutExistingRevWithConflictResolution, IsIllegalConflict,
   updateWinningRevAndSetDocFlags, documentUpdateFunc: flags, pruning to revs_limit, Conflict/Branched set again).
   A revision is [g, d]: generation and digest rank (digests enter the code only through string
   comparison, generations through <, <=, +1 and the prune threshold arithmetic, for which the real
   generation value cfg.gv[g] is used).  A tree maps revision -> [p(arent), del(eted)].
   Two levels, chosen by cfg.lvl:
     "tree"  the RevTree value itself:  TryAdd (addRevision), PutHistT (findWhereRevBranchesFromHistory +
             addNewerRevisionsToRevTreeHistory), Prune (pruneRevisions); after every step the tree is encoded and
             decoded (mem = before, tree = after) and winner/flags are recomputed (updateWinningRevAndSetDocFlags).
     "db"    a document in a database (cfg.ac = AllowConflicts, cfg.lim = revs_limit, 0 = never reached):
             PutChild (Put / DeleteDoc), PutHistD (PutExistingRevWithBody, request flag nc = noConflicts).
   Replicas (Reps) are independent copies fed by the same environment: order independence is an invariant
   over two of them (Feed = TRUE: replica 1 is fed first, replica 2 then receives the same inputs - as revisions
   with their ancestries - in an order of its own).  Impl* define the implementation variables, Ghost* the history
   variables; Trace_RevTree reuses them.  Deviations from DESIGN 4.4 are listed in NOTES.md.  Decides C04. *)
EXTENDS Integers, Sequences, FiniteSets, TLC

CONSTANTS MaxGen, NDig,   \* revision universe
          MaxRevs,        \* bound on the size of a tree
          MaxSteps,       \* bound on the length of a behaviour
          Reps,           \* replica ids (1..1 or 1..2)
          Depths,         \* prune depths explored at tree level
          Configs,        \* set of [lvl, ac, lim, gv, n] records (n = number of replicas the behaviour uses)
          Feed,           \* TRUE: only mutually consistent, accepted-or-not chain feeding (order-independence runs)
          Lean,           \* TRUE: drop environment choices that can only be rejected for a missing parent
          GoodChains,     \* histories the environment may send (MC: all generation-decreasing sequences; trace: unused)
          BadChains       \* malformed histories (child not above its parent)

Rev  == [g : 1..MaxGen, d : 1..NDig]
Nil  == [g |-> 0, d |-> 0]
Unk  == [g |-> -1, d |-> -1]
Mk(g, d) == [g |-> g, d |-> d]
EmptyTree == [x \in {} |-> [p |-> Nil, del |-> FALSE]]
NoFlags == [del |-> FALSE, conf |-> FALSE, br |-> FALSE]
NoWin   == [w |-> Nil, br |-> FALSE, cf |-> FALSE]

VARIABLES tree, mem, cur, flags, win, wb,               \* implementation, per replica
          cfg,                                          \* configuration of this behaviour
          btok, upar, udel, cons, pruned, acc, fed, pre,   \* ghosts
          hist                                          \* behaviour so far (exported; hidden by VIEW)
impl  == <<tree, mem, cur, flags, win, wb>>
ghost == <<cfg, btok, upar, udel, cons, pruned, acc, fed, pre>>
vars  == <<impl, ghost, hist>>
view  == <<impl, ghost>>
(* single replica: the order-independence ghosts (and the tokens of non-leaves) never influence the future *)
view1 == <<impl, cfg, pruned, pre>>

Range(sq) == {sq[k] : k \in 1..Len(sq)}
MinOf(S) == CHOOSE x \in S : \A y \in S : x <= y
G(r) == IF r.g >= 1 /\ r.g <= Len(cfg.gv) THEN cfg.gv[r.g] ELSE r.g     \* real generation value

-----------------------------------------------------------------------------
(* tree vocabulary *)
Leaves(t)     == {r \in DOMAIN t : \A c \in DOMAIN t : t[c].p # r}
LiveLeaves(t) == {r \in Leaves(t) : ~t[r].del}
LeafInfo(t)   == {<<r, t[r].del>> : r \in Leaves(t)}
Restrict(t, S) == [x \in S |-> t[x]]
Add(t, r, p, del) == [x \in DOMAIN t \cup {r} |-> IF x = r THEN [p |-> p, del |-> del] ELSE t[x]]

RECURSIVE UpN(_, _, _)          \* n parent steps from r (stops when it leaves the tree) - total even on a cyclic map
UpN(t, r, n) == IF n = 0 \/ r \notin DOMAIN t THEN r ELSE UpN(t, t[r].p, n - 1)
RECURSIVE PathN(_, _, _)
PathN(t, r, n) == IF n = 0 \/ r \notin DOMAIN t THEN <<>> ELSE <<r>> \o PathN(t, t[r].p, n - 1)
PathUp(t, r) == PathN(t, r, Cardinality(DOMAIN t))    \* r, parent(r), ... while inside the tree

(* the key of the property statement: (not deleted, generation, digest), lexicographic *)
KeyGT(t, a, b) == \/ (~t[a].del /\ t[b].del)
                  \/ (t[a].del = t[b].del /\ (a.g > b.g \/ (a.g = b.g /\ a.d > b.d)))
IsMax(t, w) == w \in Leaves(t) /\ \A m \in Leaves(t) : m = w \/ KeyGT(t, w, m)

(* compareRevIDs(a, b) > 0; b may be "" (generation 0) *)
CmpGT(a, b) == a.g > b.g \/ (a.g = b.g /\ a.d > b.d)
(* winningRevision: fold over the leaves in map-iteration (= any) order; the set of possible results *)
RECURSIVE WinFold(_, _, _, _)
WinFold(t, S, w, we) ==
  IF S = {} THEN {w}
  ELSE UNION { LET ex   == ~t[x].del
                   take == (ex /\ ~we) \/ ((ex = we) /\ CmpGT(x, w))
               IN  WinFold(t, S \ {x}, IF take THEN x ELSE w, IF take THEN ex ELSE we) : x \in S }
WinResults(t) == WinFold(t, Leaves(t), Nil, FALSE)
WinOf(t, w) == [w |-> w, br |-> Cardinality(Leaves(t)) > 1, cf |-> Cardinality(LiveLeaves(t)) > 1]
(* updateWinningRevAndSetDocFlags *)
FlagsOf(t, w) == [del |-> t[w].del, conf |-> Cardinality(LiveLeaves(t)) > 1, br |-> Cardinality(Leaves(t)) > 1]

(* addRevision *)
CanAdd(t, r, p) == r \notin DOMAIN t /\ (p # Nil => (p \in DOMAIN t /\ r.g > p.g))

(* findWhereRevBranchesFromHistory / the loop in PutExistingRevWithConflictResolution *)
BranchIdx(t, ch) == LET hit == {k \in 1..Len(ch) : ch[k] \in DOMAIN t} IN IF hit = {} THEN Len(ch) + 1 ELSE MinOf(hit)
BranchParent(t, ch) == IF BranchIdx(t, ch) > Len(ch) THEN Nil ELSE ch[BranchIdx(t, ch)]
(* addNewerRevisionsToRevTreeHistory: add ch[k], ch[k-1], .., ch[1]; only the head carries the deleted flag *)
RECURSIVE AddChain(_, _, _, _, _)
AddChain(t, ch, k, par, del) ==
  IF k < 1 THEN [ok |-> TRUE, t |-> t]
  ELSE IF CanAdd(t, ch[k], par) THEN AddChain(Add(t, ch[k], par, (k = 1) /\ del), ch, k - 1, ch[k], del)
  ELSE [ok |-> FALSE, t |-> t]

(* IsIllegalConflict(doc, parent, deleted, noConflicts, history) once conflict-free rules apply *)
Illegal(t, c, fdel, par, del, ch) ==
  IF par = c \/ c = Nil THEN FALSE
  ELSE IF del THEN ~(par \in Leaves(t) /\ ~t[par].del)
  ELSE IF fdel THEN \E k \in 1..Len(ch) : ch[k] \in DOMAIN t
  ELSE TRUE

(* pruneRevisions(maxDepth) *)
Depth(t, r) == MinOf({k \in 1..Cardinality(DOMAIN t) : \E l \in Leaves(t) : UpN(t, l, k - 1) = r})
Snip(t) == [x \in DOMAIN t |-> IF t[x].p # Nil /\ t[x].p \notin DOMAIN t THEN [t[x] EXCEPT !.p = Nil] ELSE t[x]]
PruneTree(t, md) ==
  IF Cardinality(DOMAIN t) <= md THEN t
  ELSE LET keep1 == {r \in DOMAIN t : Depth(t, r) <= md}
           t1    == Restrict(t, keep1)
           live  == LiveLeaves(t1)
           thr   == IF live = {} THEN -1 ELSE MinOf({G(l) : l \in live}) - md
           dead  == IF thr = -1 THEN {} ELSE {l \in Leaves(t) : t[l].del /\ G(l) < thr}
           gone  == UNION {Range(PathUp(t1, l)) : l \in dead}
           t2    == Restrict(t1, keep1 \ gone)
       IN  IF DOMAIN t2 = DOMAIN t THEN t ELSE Snip(t2)

-----------------------------------------------------------------------------
(* environment consistency: all inputs describe one ground-truth forest (one parent and one deleted flag
   per revision id, ancestries complete).  Order independence is stated for such inputs. *)
(* the ghost maps are sparse: defined for the revisions mentioned so far *)
NoFn == [x \in {} |-> Unk]
Look(f, x) == IF x \in DOMAIN f THEN f[x] ELSE Unk
UP(x) == Look(upar, x)
UD(x) == IF x \in DOMAIN udel THEN udel[x] ELSE "?"
ChainCons(ch, del) ==
  /\ \A k \in 1..Len(ch) : UP(ch[k]) \in {Unk, IF k < Len(ch) THEN ch[k + 1] ELSE Nil}
  /\ UD(ch[1]) \in {"?", IF del THEN "T" ELSE "F"}
UparAfter(ch) == [x \in DOMAIN upar \cup Range(ch) |-> IF x \in Range(ch) /\ UP(x) = Unk
                                THEN (LET k == CHOOSE k \in 1..Len(ch) : ch[k] = x IN IF k < Len(ch) THEN ch[k + 1] ELSE Nil)
                                ELSE UP(x)]
UdelAfter(ch, del) == [x \in DOMAIN udel \cup {ch[1]} |-> IF x = ch[1] /\ UD(x) = "?" THEN (IF del THEN "T" ELSE "F") ELSE udel[x]]
Tok2(r, b) == IF r \in Rev THEN [x \in DOMAIN btok \cup {r} |-> IF x = r THEN b ELSE btok[x]] ELSE btok
Tag(r) == r                                  \* body token written with a revision by the model environment

IsChain(ch) == \A k \in 1..(Len(ch) - 1) : ch[k].g > ch[k + 1].g
RECURSIVE ChainsFrom(_)                      \* strictly generation-decreasing sequences starting below generation g
ChainsFrom(g) == {<<>>} \cup UNION { {<<r>> \o c : c \in ChainsFrom(r.g)} : r \in {x \in Rev : x.g < g} }
AllGoodChains(mg) == ChainsFrom(mg + 1) \ {<<>>}     \* (parameterised: TLC evaluates constant definitions eagerly)
AllBadChains(S) == {<<q[1], q[2]>> : q \in {z \in S \X S : z[1] # z[2] /\ z[2].g >= z[1].g}}

-----------------------------------------------------------------------------
Init ==
  /\ tree = [i \in Reps |-> EmptyTree] /\ mem = [i \in Reps |-> EmptyTree]
  /\ cur = [i \in Reps |-> Nil] /\ flags = [i \in Reps |-> NoFlags] /\ win = [i \in Reps |-> NoWin]
  /\ wb = [i \in Reps |-> Nil]
  /\ cfg \in Configs
  /\ btok = NoFn /\ upar = NoFn /\ udel = NoFn
  /\ cons = TRUE /\ pruned = FALSE /\ acc = [i \in Reps |-> {}] /\ fed = [i \in Reps |-> <<>>]
  /\ pre = [on |-> FALSE, i |-> 0, k |-> "", t |-> EmptyTree, c |-> Nil, x |-> {}]
  /\ hist = <<>>
  /\ btok = btok /\ upar = upar /\ udel = udel

(* the stored state of replica i becomes: in-memory tree m, stored/reloaded tree t, current rev and flags
   computed from tf (the tree the flags were computed on), body tokens bt *)
Settle(i, m, t, tf, bt) ==
  /\ tree' = [tree EXCEPT ![i] = t] /\ mem' = [mem EXCEPT ![i] = m]
  /\ IF DOMAIN tf = {}
     THEN /\ cur' = [cur EXCEPT ![i] = Nil] /\ flags' = [flags EXCEPT ![i] = NoFlags] /\ wb' = [wb EXCEPT ![i] = Nil]
          /\ win' = [win EXCEPT ![i] = NoWin]
     ELSE \E w \in WinResults(tf) :
            /\ cur' = [cur EXCEPT ![i] = w]
            \* Deleted from the tree the winner was chosen on; Conflict and Branched are set again after pruning
            \* (documentUpdateFunc: "if pruned > 0 { winningRevision; setFlag(Conflict); setFlag(Branched) }"; t = tf otherwise)
            /\ flags' = [flags EXCEPT ![i] = [FlagsOf(tf, w) EXCEPT !.conf = FlagsOf(t, w).conf, !.br = FlagsOf(t, w).br]]
            /\ wb' = [wb EXCEPT ![i] = IF cfg.lvl = "db" /\ tf[w].del THEN Nil ELSE Look(bt, w)]   \* a stored tombstone is served bare
            /\ IF t = tf THEN win' = [win EXCEPT ![i] = WinOf(t, w)]
               ELSE \E w2 \in WinResults(t) : win' = [win EXCEPT ![i] = WinOf(t, w2)]
Same(i) == UNCHANGED <<tree, mem, cur, flags, win, wb>>

(* ---- tree level ---- *)
ImplTryAdd(i, r, p, del, b) ==
  IF CanAdd(tree[i], r, p) THEN LET t == Add(tree[i], r, p, del) IN Settle(i, t, t, t, Tok2(r, b))
  ELSE Settle(i, tree[i], tree[i], tree[i], btok)
ImplPutHistT(i, ch, del, b) ==
  LET t == AddChain(tree[i], ch, BranchIdx(tree[i], ch) - 1, BranchParent(tree[i], ch), del).t IN
  Settle(i, t, t, t, Tok2(ch[1], b))
ImplPrune(i, k) == LET t == PruneTree(tree[i], k) IN Settle(i, t, t, t, btok)

(* ---- database level: callback, flags, pruning to revs_limit, Conflict/Branched again (Settle), then store ---- *)
Commit(i, t1, bt) == LET t2 == IF cfg.lim > 0 THEN PruneTree(t1, cfg.lim) ELSE t1 IN Settle(i, t2, t2, t1, bt)
PutHistOutcome(i, ch, del, nc) ==        \* "noop" | "conflict" | "badrev" | "ok"
  LET t == tree[i]  idx == BranchIdx(t, ch)  par == BranchParent(t, ch) IN
  IF idx = 1 THEN "noop"
  ELSE IF (~cfg.ac \/ nc) /\ Illegal(t, cur[i], flags[i].del, par, del, ch) THEN "conflict"
  ELSE IF ~AddChain(t, ch, idx - 1, par, del).ok THEN "badrev" ELSE "ok"
ImplPutHistD(i, ch, del, nc, b) ==
  IF PutHistOutcome(i, ch, del, nc) = "ok"
  THEN Commit(i, AddChain(tree[i], ch, BranchIdx(tree[i], ch) - 1, BranchParent(tree[i], ch), del).t, Tok2(ch[1], b))
  ELSE Same(i)
(* Put: p = Nil means no _rev given *)
PutParent(i, p) == IF p = Nil THEN cur[i] ELSE p
PutOutcome(i, p, del) ==
  LET t == tree[i] IN
  IF p = Nil THEN (IF cur[i] # Nil /\ ~t[cur[i]].del THEN "conflict" ELSE "ok")
  ELSE IF p \notin Leaves(t) THEN "conflict"
  ELSE IF ~cfg.ac /\ Illegal(t, cur[i], flags[i].del, p, del, <<>>) THEN "conflict" ELSE "ok"
ImplPutChild(i, p, r, del, b) ==
  IF PutOutcome(i, p, del) = "ok" /\ CanAdd(tree[i], r, PutParent(i, p))
  THEN Commit(i, Add(tree[i], r, PutParent(i, p), del), Tok2(r, b))
  ELSE Same(i)

(* ---- ghosts ---- *)
NoPre == [on |-> FALSE, i |-> 0, k |-> "", t |-> EmptyTree, c |-> Nil, x |-> {}]
(* a rejected input leaves no trace in the ghosts: the ground truth is about accepted revisions *)
GhostInput(i, full, del, nc, b, ok, kind, x) ==
  /\ IF cfg.n > 1 THEN fed' = [fed EXCEPT ![i] = Append(@, [ch |-> full, del |-> del, nc |-> nc])] ELSE UNCHANGED fed
  /\ IF ok
     THEN /\ btok' = Tok2(full[1], b)
          /\ IF cfg.n > 1                \* the order-independence ghosts are kept only when there is a second replica
             THEN /\ cons' = (cons /\ ChainCons(full, del))
                  /\ upar' = UparAfter(full) /\ udel' = UdelAfter(full, del)
                  /\ acc' = [acc EXCEPT ![i] = @ \cup {[ch |-> full, del |-> del]}]
             ELSE UNCHANGED <<cons, upar, udel, acc>>
          /\ pruned' = (pruned \/ (kind = "db" /\ cfg.lim > 0))
          /\ pre' = [on |-> (kind = "db" /\ cfg.lim > 0), i |-> i, k |-> "write", t |-> tree[i], c |-> cur[i], x |-> x]
          /\ UNCHANGED cfg
     ELSE UNCHANGED <<cfg, btok, upar, udel, cons, pruned, acc, pre>>
GhostPrune(i) ==
  /\ pruned' = TRUE
  /\ pre' = [on |-> TRUE, i |-> i, k |-> "prune", t |-> tree[i], c |-> cur[i], x |-> {}]
  /\ UNCHANGED <<cfg, btok, upar, udel, cons, acc, fed>>

Step(a, i, r, p, ch, del, k, nc) ==
  hist' = Append(hist, [a |-> a, i |-> i, r |-> r, p |-> p, ch |-> ch, del |-> del, k |-> k, nc |-> nc])

FullOf(t, r, p) == <<r>> \o PathUp(t, p)
Room(i, S) == Cardinality(DOMAIN tree[i] \cup S) <= MaxRevs
(* order-independence runs: replica 1 is fed first, then replica 2 receives the same inputs (as revisions with
   ancestry) in an order of its own; replicas are independent, so nothing is lost by not interleaving them *)
Half == MaxSteps \div 2
Turn(i) == ~Feed \/ (i = 1 /\ Len(hist) < Half) \/ (i = 2 /\ Len(hist) >= Half)
Offered(i, ch, del, nc) == (Feed /\ i = 2) =>
  /\ \E k \in 1..Len(fed[1]) : fed[1][k] = [ch |-> ch, del |-> del, nc |-> nc]
  /\ \A k \in 1..Len(fed[2]) : fed[2][k] # [ch |-> ch, del |-> del, nc |-> nc]

TryAdd(i, r, p, del) ==
  /\ Room(i, {r})
  /\ Lean => (p = Nil \/ p \in DOMAIN tree[i])
  /\ ImplTryAdd(i, r, p, del, Tag(r))
  /\ GhostInput(i, FullOf(tree[i], r, p), del, FALSE, Tag(r), CanAdd(tree[i], r, p), "tree", {})
  /\ Step("Add", i, r, p, <<>>, del, 0, FALSE)
PutHistT(i, ch, del) ==
  /\ Room(i, Range(ch)) /\ Turn(i) /\ Offered(i, ch, del, FALSE)
  /\ Feed => ChainCons(ch, del)
  /\ ImplPutHistT(i, ch, del, Tag(ch[1]))
  /\ GhostInput(i, ch, del, FALSE, Tag(ch[1]), TRUE, "tree", {})
  /\ Step("Hist", i, Nil, Nil, ch, del, 0, FALSE)
Prune(i, k) ==
  /\ DOMAIN tree[i] # {}
  /\ ImplPrune(i, k) /\ GhostPrune(i)
  /\ Step("Prune", i, Nil, Nil, <<>>, FALSE, k, FALSE)
PutHistD(i, ch, del, nc) ==
  /\ Room(i, Range(ch)) /\ Turn(i) /\ Offered(i, ch, del, nc)
  /\ Feed => (ChainCons(ch, del) /\ IsChain(ch))
  /\ ImplPutHistD(i, ch, del, nc, Tag(ch[1]))
  /\ GhostInput(i, ch, del, nc, Tag(ch[1]), PutHistOutcome(i, ch, del, nc) \in {"ok", "noop"}, "db", Range(ch))
  /\ Step("Hist", i, Nil, Nil, ch, del, 0, nc)
PutChild(i, p, d, del) ==
  LET par == PutParent(i, p)  r == Mk(par.g + 1, d) IN
  /\ par.g < MaxGen /\ Room(i, {r}) /\ Turn(i) /\ (Feed => i = 1)
  /\ UP(r) = Unk /\ r \notin DOMAIN tree[i]          \* Put makes a fresh revision id (digest of parent and body)
  /\ Lean => (p = Nil \/ p \in DOMAIN tree[i])
  /\ ImplPutChild(i, p, r, del, Tag(r))
  /\ GhostInput(i, FullOf(tree[i], r, par), del, FALSE, Tag(r), PutOutcome(i, p, del) = "ok", "db", {par})
  /\ Step("Child", i, r, p, <<>>, del, 0, FALSE)

(* TLC: force the lazily represented function values (not fingerprinted under VIEW view1) into normal form *)
Forced == btok' = btok' /\ upar' = upar' /\ udel' = udel'
Next ==
  /\ Len(hist) < MaxSteps
  /\ \E i \in Reps :
       \/ /\ cfg.lvl = "tree"
          /\ \/ ~Feed /\ \E r \in Rev, p \in Rev \cup {Nil}, del \in BOOLEAN : TryAdd(i, r, p, del)
             \/ \E ch \in GoodChains, del \in BOOLEAN : PutHistT(i, ch, del)
             \/ ~Feed /\ \E k \in Depths : Prune(i, k)
       \/ /\ cfg.lvl = "db"
          /\ \/ \E ch \in GoodChains \cup (IF Feed THEN {} ELSE BadChains), del \in BOOLEAN, nc \in (IF cfg.ac THEN BOOLEAN ELSE {FALSE}) :
                   PutHistD(i, ch, del, nc)
             \/ \E p \in Rev \cup {Nil}, d \in 1..NDig, del \in BOOLEAN : PutChild(i, p, d, del)
  /\ Forced
Spec == Init /\ [][Next]_vars

-----------------------------------------------------------------------------
(* C04 - the property statement *)
Acyclic(t) == \A r \in DOMAIN t : UpN(t, r, Cardinality(DOMAIN t)) \notin DOMAIN t
ForestT(t) == Acyclic(t) /\ \A r \in DOMAIN t : t[r].p = Nil \/ t[r].p \in DOMAIN t
Forest == \A i \in Reps : ForestT(tree[i])
GenIncreasing == \A i \in Reps : \A r \in DOMAIN tree[i] : tree[i][r].p # Nil => r.g > tree[i][r].p.g
(* the current revision is the leaf maximising (not deleted, generation, digest) - the stored current
   revision and the value of winningRevision on the stored tree *)
WinnerIsMax == \A i \in Reps :
  IF DOMAIN tree[i] = {} THEN cur[i] = Nil /\ win[i].w = Nil
  ELSE IsMax(tree[i], cur[i]) /\ IsMax(tree[i], win[i].w)
FlagDel(i)  == cur[i] \in DOMAIN tree[i] /\ (flags[i].del <=> tree[i][cur[i]].del)
FlagConf(i) == flags[i].conf <=> Cardinality(LiveLeaves(tree[i])) > 1
FlagBr(i)   == flags[i].br <=> Cardinality(Leaves(tree[i])) > 1
WinFlags(i) == /\ (win[i].cf <=> Cardinality(LiveLeaves(tree[i])) > 1)
               /\ (win[i].br <=> Cardinality(Leaves(tree[i])) > 1)
FlagsAgree == \A i \in Reps : DOMAIN tree[i] # {} => (FlagDel(i) /\ FlagConf(i) /\ FlagBr(i) /\ WinFlags(i))
(* A defect this check found and that was repaired (fix: recompute the conflict/branched flags after pruning): the
   flags were computed before pruning to revs_limit, so the write that aged out the last other (tombstoned) branch
   stored Branched = TRUE on a single-leaf document.  The model transcribes the repaired order and is checked against
   FlagsAgree itself; the class predicate is kept so that, should the defect return, TLC (Trace_RevTree_Pm.cfg)
   recognises it on real state and the check reports it under its fixed key. *)
StaleBranched(i) == pre.on /\ pre.k = "write" /\ pre.i = i /\ flags[i].br /\ ~flags[i].conf
FlagsAgreeModuloAgeing == \A i \in Reps : DOMAIN tree[i] # {} =>
  (FlagDel(i) /\ FlagConf(i) /\ WinFlags(i) /\ (FlagBr(i) \/ StaleBranched(i)))
(* pruning keeps the winner and every live leaf (tombstoned branches may age out), and leaves a forest;
   a database write that prunes keeps every live leaf it does not supersede *)
PruneSafe == pre.on =>
  /\ \A l \in LiveLeaves(pre.t) \ pre.x : l \in LiveLeaves(tree[pre.i])
  /\ pre.k = "prune" => (cur[pre.i] = pre.c /\ cur[pre.i] \in DOMAIN tree[pre.i])
  /\ ForestT(tree[pre.i])
ReloadPreserves == \A i \in Reps : mem[i] = tree[i]
(* the body served for the document is the body written with the winning revision (a tombstone is served
   without the properties it was written with - not demanded) *)
WinningBody == \A i \in Reps : (cur[i] \in DOMAIN tree[i] /\ ~tree[i][cur[i]].del) => wb[i] = Look(btok, cur[i])
(* two replicas that accepted the same set of revisions (with their ancestries), in any orders *)
OrderIndependent == \A i, j \in Reps :
  (cfg.n > 1 /\ cons /\ ~pruned /\ acc[i] = acc[j]) =>
     /\ LeafInfo(tree[i]) = LeafInfo(tree[j]) /\ cur[i] = cur[j] /\ win[i].w = win[j].w /\ wb[i] = wb[j]

(* auxiliary / design invariants (model and pass C) *)
OrderIndependentStructure == \A i, j \in Reps :    \* ... and even the same revisions and parents
  (cfg.n > 1 /\ cons /\ ~pruned /\ acc[i] = acc[j]) => /\ DOMAIN tree[i] = DOMAIN tree[j]
                                            /\ \A r \in DOMAIN tree[i] : tree[i][r].p = tree[j][r].p
CurIsWin == \A i \in Reps : cur[i] = win[i].w
Bounded == \A i \in Reps : Cardinality(DOMAIN tree[i]) <= MaxRevs
TypeOK == /\ \A i \in Reps : DOMAIN tree[i] \subseteq Rev /\ cur[i] \in Rev \cup {Nil}
          /\ \A i \in Reps : \A r \in DOMAIN tree[i] : tree[i][r].p \in Rev \cup {Nil} /\ tree[i][r].del \in BOOLEAN
=============================================================================
