--------------------------- MODULE Trace_RevTree ---------------------------
(* Validation of traces recorded from the real code by harness/db/c04_revtree_test.go.
   Lines:  {a:"Reset", lvl, ac, lim, gv, nrep, beh}
           {a:"Add"|"Hist"|"Prune"|"Child", i, r, p, ch, del, nc, k, b, ok,
            mem, tree, cur, fl, ww, wbr, wcf, wb, lv, idok}          {a:"End", skipped}
   r, p, b, cur, ww, wb are [g, d] (generation, digest rank; [0,0] = none, [-1,-1] = not attributable), ch and lv
   lists of them, mem / tree lists of rows [g, d, parent g, parent d, deleted 0|1]:  mem is the tree the call
   left in memory (returned document), tree/cur/fl the STORED AND RELOADED document, ww/wbr/wcf the value of
   winningRevision on the reloaded tree, wb the revision whose body is served as the document's body.
   Every recorded behaviour (Reset line .. next Reset) is validated as a TLC behaviour of its own: the initial states
   are the Reset lines, so a counterexample is as short as the behaviour, and with -continue one run lists every
   violating behaviour.  Acceptance: register 2 collects the Reset lines of the behaviours consumed to their end;
   the POSTCONDITION prints the others (<<"STALL", {...}>>). *)
EXTENDS RevTree, TraceLib

TwoReps == {1, 2}
NoChains == {}
TraceCfgs == {[lvl |-> "tree", ac |-> TRUE, lim |-> 0, gv |-> <<1>>, n |-> 1]}
VARIABLES l, s0           \* next line to consume; Reset line of the behaviour being validated
tvars == <<vars, l, s0>>
Starts == {k \in 1..TraceLen : Trace[k].a = "Reset"}

R2(x) == Mk(x[1], x[2])
RSeq(x) == [k \in 1..Len(x) |-> R2(x[k])]
RSet(x) == {R2(x[k]) : k \in 1..Len(x)}
TreeOf(rows) ==
  [r \in {R2(rows[k]) : k \in 1..Len(rows)} |->
     LET k == CHOOSE k \in 1..Len(rows) : R2(rows[k]) = r
     IN  [p |-> Mk(rows[k][3], rows[k][4]), del |-> rows[k][5] = 1]]
(* a projected tree lists every revision once (two keys of the real map can never share an id) *)
RowsOK(rows) == \A j, k \in 1..Len(rows) : (j # k) => R2(rows[j]) # R2(rows[k])

T == Trace[l]
Logged ==
  LET i == T.i IN
  /\ tree'  = [tree  EXCEPT ![i] = TreeOf(T.tree)]
  /\ mem'   = [mem   EXCEPT ![i] = TreeOf(T.mem)]
  /\ cur'   = [cur   EXCEPT ![i] = R2(T.cur)]
  /\ flags' = [flags EXCEPT ![i] = [del |-> T.fl[1], conf |-> T.fl[2], br |-> T.fl[3]]]
  /\ win'   = [win   EXCEPT ![i] = [w |-> R2(T.ww), br |-> T.wbr, cf |-> T.wcf]]
  /\ wb'    = [wb    EXCEPT ![i] = R2(T.wb)]

TInit == \E s \in Starts :
  /\ s0 = s /\ l = s + 1
  /\ tree = [i \in Reps |-> EmptyTree] /\ mem = [i \in Reps |-> EmptyTree]
  /\ cur = [i \in Reps |-> Nil] /\ flags = [i \in Reps |-> NoFlags] /\ win = [i \in Reps |-> NoWin]
  /\ wb = [i \in Reps |-> Nil]
  /\ cfg = [lvl |-> Trace[s].lvl, ac |-> Trace[s].ac, lim |-> Trace[s].lim, gv |-> Trace[s].gv, n |-> Trace[s].nrep]
  /\ btok = NoFn /\ upar = NoFn /\ udel = NoFn
  /\ cons = TRUE /\ pruned = FALSE /\ acc = [i \in Reps |-> {}] /\ fed = [i \in Reps |-> <<>>]
  /\ pre = NoPre /\ hist = <<>>

(* the inputs of the logged call, as the spec's actions take them *)
Full(i) == IF T.a = "Hist" THEN RSeq(T.ch)
           ELSE IF T.a = "Add" THEN FullOf(tree[i], R2(T.r), R2(T.p))
           ELSE FullOf(tree[i], R2(T.r), PutParent(i, R2(T.p)))          \* Child
Kind == IF cfg.lvl = "db" THEN "db" ELSE "tree"
Sup(i) == IF T.a = "Hist" THEN RSet(T.ch) ELSE IF T.a = "Child" THEN {PutParent(i, R2(T.p))} ELSE {}
(* the ghosts advance from the logged inputs and the logged outcome; a rejected call names no new revision *)
GhostLogged(i) ==
  IF T.a = "Prune" THEN GhostPrune(i)
  ELSE GhostInput(i, IF T.ok THEN Full(i) ELSE <<Nil>>, T.del, T.nc, R2(T.b), T.ok, Kind, Sup(i))

Shape == /\ T.i \in Reps /\ RowsOK(T.tree) /\ RowsOK(T.mem)
         /\ (T.a \in {"Add", "Prune"}) => cfg.lvl = "tree"
         /\ (T.a = "Child") => cfg.lvl = "db"

(* pass P: implementation variables := logged real state; ghosts advance from the logged inputs *)
PStep == /\ l <= TraceLen /\ T.a \in {"Add", "Hist", "Prune", "Child"} /\ l' = l + 1
         /\ Shape /\ Logged /\ GhostLogged(T.i) /\ UNCHANGED <<hist, s0>>
PNext == PStep
PSpec == TInit /\ [][PNext]_tvars

(* pass C: each logged step is an instance of the corresponding action, from the previous REAL state *)
ImplLogged(i) ==
  CASE T.a = "Add"   -> ImplTryAdd(i, R2(T.r), R2(T.p), T.del, R2(T.b))
    [] T.a = "Prune" -> ImplPrune(i, T.k)
    [] T.a = "Hist" /\ cfg.lvl = "tree" -> ImplPutHistT(i, RSeq(T.ch), T.del, R2(T.b))
    [] T.a = "Hist" /\ cfg.lvl = "db"   -> ImplPutHistD(i, RSeq(T.ch), T.del, T.nc, R2(T.b))
    [] T.a = "Child" -> IF T.ok THEN ImplPutChild(i, R2(T.p), R2(T.r), T.del, R2(T.b))
                        ELSE \E d \in 1..NDig : ImplPutChild(i, R2(T.p), Mk(PutParent(i, R2(T.p)).g + 1, d), T.del, R2(T.b))
(* the logged outcome (accepted / rejected) is the one the spec computes *)
OutcomeLogged(i) ==
  CASE T.a = "Add"   -> T.ok = CanAdd(tree[i], R2(T.r), R2(T.p))
    [] T.a = "Prune" -> TRUE
    [] T.a = "Hist" /\ cfg.lvl = "tree" -> T.ok
    [] T.a = "Hist" /\ cfg.lvl = "db"   -> T.ok = (PutHistOutcome(i, RSeq(T.ch), T.del, T.nc) \in {"ok", "noop"})
    [] T.a = "Child" -> /\ T.ok = (PutOutcome(i, R2(T.p), T.del) = "ok")
                        /\ T.ok => (R2(T.r).g = PutParent(i, R2(T.p)).g + 1 /\ R2(T.r) \notin DOMAIN tree[i])
CStep == /\ l <= TraceLen /\ T.a \in {"Add", "Hist", "Prune", "Child"} /\ l' = l + 1
         /\ Shape /\ OutcomeLogged(T.i) /\ ImplLogged(T.i) /\ Logged /\ GhostLogged(T.i) /\ UNCHANGED <<hist, s0>>
CNext == CStep
CSpec == TInit /\ [][CNext]_tvars

AtEnd(k) == k > TraceLen \/ Trace[k].a \in {"Reset", "End"}
ASSUME TLCSet(2, {})
Progress == Mark(l) /\ (AtEnd(l) => TLCSet(2, TLCGet(2) \cup {s0}))
Accept == PrintHWM /\ PrintT(<<"STALL", Starts \ TLCGet(2)>>)

(* auxiliary, pass C: the real GetLeaves and rev-id derivation agree with the spec on the line just consumed *)
LeavesAgree == (l > s0 + 1 /\ Trace[l - 1].a \in {"Add", "Hist", "Prune", "Child"}) =>
  RSet(Trace[l - 1].lv) = Leaves(tree[Trace[l - 1].i]) /\ Len(Trace[l - 1].lv) = Cardinality(Leaves(tree[Trace[l - 1].i]))
RevIdDerivation == (l > s0 + 1 /\ Trace[l - 1].a = "Child") => Trace[l - 1].idok
=============================================================================
