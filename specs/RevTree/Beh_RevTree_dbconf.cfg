CONSTANT MaxGen = 2
CONSTANT NDig = 2
CONSTANT MaxRevs = 3
CONSTANT MaxSteps = 3
CONSTANT Reps <- One
CONSTANT Depths = {1, 2}
CONSTANT Configs <- CfgDbConf
CONSTANT Feed = FALSE
CONSTANT Lean = TRUE
CONSTANT GoodChains <- MCGood
CONSTANT BadChains <- MCBad
SPECIFICATION Spec
CHECK_DEADLOCK FALSE
VIEW view1
ACTION_CONSTRAINT ExportStep
