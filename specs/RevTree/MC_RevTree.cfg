CONSTANT MaxGen = 3
CONSTANT NDig = 2
CONSTANT MaxRevs = 3
CONSTANT MaxSteps = 3
CONSTANT Reps <- One
CONSTANT Depths = {1, 2, 3}
CONSTANT Configs <- CfgAll
CONSTANT Feed = FALSE
CONSTANT GoodChains <- MCGood
CONSTANT BadChains <- MCBad
CONSTANT Lean = FALSE
SPECIFICATION Spec
CHECK_DEADLOCK FALSE
VIEW view1
INVARIANT Forest
INVARIANT GenIncreasing
INVARIANT WinnerIsMax
INVARIANT FlagsAgree
INVARIANT PruneSafe
INVARIANT ReloadPreserves
INVARIANT WinningBody
INVARIANT OrderIndependent
INVARIANT OrderIndependentStructure
INVARIANT CurIsWin
INVARIANT Bounded
INVARIANT TypeOK
