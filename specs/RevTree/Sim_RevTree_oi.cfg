CONSTANT MaxGen = 3
CONSTANT NDig = 3
CONSTANT MaxRevs = 5
CONSTANT MaxSteps = 6
CONSTANT Reps <- Two
CONSTANT Depths = {1, 2}
CONSTANT Configs <- CfgFeed
CONSTANT Feed = TRUE
CONSTANT Lean = TRUE
CONSTANT GoodChains <- MCGood
CONSTANT BadChains <- MCBad
SPECIFICATION SimSpec
CHECK_DEADLOCK FALSE
INVARIANT ExportEnd
