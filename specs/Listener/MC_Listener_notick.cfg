CONSTANT MaxNotify = 4
SPECIFICATION NoTickSpec
PROPERTY Seen
CHECK_DEADLOCK FALSE
