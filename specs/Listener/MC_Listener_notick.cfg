CONSTANT MaxNotify = 4
CONSTANT Roles = {"r1", "r2"}
CONSTANT ByCount = FALSE
SPECIFICATION NoTickSpec
PROPERTY Seen
CHECK_DEADLOCK FALSE
