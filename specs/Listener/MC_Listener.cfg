CONSTANT MaxNotify = 4
SPECIFICATION FairSpec
INVARIANT NoLostUpdate
INVARIANT TypeOK
PROPERTY Seen
CHECK_DEADLOCK FALSE
