CONSTANT MaxNotify = 3
CONSTANT Roles = {"r1", "r2"}
CONSTANT ByCount = FALSE
SPECIFICATION FairSpec
INVARIANT NoLostUpdate
INVARIANT TypeOK
PROPERTY Seen
PROPERTY UserSeen
CHECK_DEADLOCK FALSE
