--------------------------- MODULE Listener ---------------------------
(* Wake-up of waiting changes feeds: db/change_listener.go.
   Everything happens under tapNotifier.L, so each action is one critical section:
     NotifyWatched / NotifyOther   changeListener.Notify: counter++ and keyCounts[k] = counter for the notified keys -
                                   NO broadcast (the ticker goroutine broadcasts)
     Tick                          the goroutine of StartNotifierBroadcaster: if counter > currCount then Broadcast, currCount = counter
     WaiterCall                    the feed loop (SimpleMultiChangesFeed: waitForChanges) calls ChangeWaiter.Wait again
     WaiterCheck                   changeListener.Wait: compare _currentCount(keys) with the waiter's lastCounter; return or cond.Wait
   kc = the maximum keyCounts over the keys the waiter watches.
   Decides the "eventually" clause of C01 on the model (liveness under fairness); not bound to the code in this round. *)
EXTENDS Naturals

CONSTANT MaxNotify      \* bound on notifications (a guard, so that no constraint can hide a non-progress cycle)

VARIABLES counter, kc,  \* listener.counter, max of keyCounts over the watched keys
          currCount,    \* the broadcaster's private copy
          pc,           \* waiter: "running" (iterating the feed) | "check" (holds the lock inside Wait) | "parked" (in cond.Wait)
          lastSeen      \* waiter.lastCounter
vars == <<counter, kc, currCount, pc, lastSeen>>

Init == counter = 1 /\ kc = 0 /\ currCount = 0 /\ pc = "running" /\ lastSeen = 0

NotifyWatched == /\ counter <= MaxNotify
                 /\ counter' = counter + 1 /\ kc' = counter + 1
                 /\ UNCHANGED <<currCount, pc, lastSeen>>
NotifyOther   == /\ counter <= MaxNotify
                 /\ counter' = counter + 1
                 /\ UNCHANGED <<kc, currCount, pc, lastSeen>>
Tick == IF counter > currCount
        THEN /\ currCount' = counter
             /\ pc' = IF pc = "parked" THEN "check" ELSE pc       \* Broadcast: a parked waiter re-acquires the lock and re-checks
             /\ UNCHANGED <<counter, kc, lastSeen>>
        ELSE UNCHANGED vars
WaiterCall  == pc = "running" /\ pc' = "check" /\ UNCHANGED <<counter, kc, currCount, lastSeen>>
WaiterCheck == /\ pc = "check"
               /\ IF kc # lastSeen THEN pc' = "running" /\ lastSeen' = kc
                                   ELSE pc' = "parked" /\ UNCHANGED lastSeen
               /\ UNCHANGED <<counter, kc, currCount>>

Next == NotifyWatched \/ NotifyOther \/ Tick \/ WaiterCall \/ WaiterCheck
Spec == Init /\ [][Next]_vars
(* the ticker keeps ticking, a woken/calling waiter gets the lock, the feed loop always comes back to Wait *)
FairSpec == Spec /\ WF_vars(Tick /\ counter > currCount) /\ WF_vars(WaiterCheck) /\ WF_vars(WaiterCall)

(* safety: a parked waiter has seen everything, or a broadcast is still due *)
NoLostUpdate == pc = "parked" => (lastSeen = kc \/ counter > currCount)
TypeOK == counter \in 1..(MaxNotify + 1) /\ kc <= counter /\ currCount <= counter /\ lastSeen <= kc
(* liveness: every notification of a watched key is eventually seen by the waiter (lastSeen is only assigned when
   Wait returns, i.e. when the waiter becomes "running" again) *)
Seen == \A n \in 1..(MaxNotify + 1) : (kc = n) ~> (lastSeen >= n)
(* the same without the ticker is false (the waiter may stay parked): checked once by hand, see NOTES.md *)
NoTickSpec == Init /\ [][NotifyWatched \/ NotifyOther \/ WaiterCall \/ WaiterCheck]_vars /\ WF_vars(WaiterCheck) /\ WF_vars(WaiterCall)
=============================================================================
