--------------------------- MODULE Listener ---------------------------
(* Wake-up of waiting changes feeds: db/change_listener.go.
   Everything happens under tapNotifier.L, so each action is one critical section:
     Notify(k)        changeListener.Notify: counter++ and keyCounts[k] = counter - NO broadcast (the ticker goroutine broadcasts).
                      Keys: "chan" (a channel the feed reads), "other" (nobody waits on it), "user" (the user document) and one
                      key per role document.
     SwapRole(a, b)   one update of the user document replaces role a by role b (same number of roles) and notifies "user"
     Tick             the goroutine of StartNotifierBroadcaster: if counter > currCount then Broadcast, currCount = counter
     WaiterCall       the feed loop (SimpleMultiChangesFeed: waitForChanges) calls ChangeWaiter.Wait again
     WaiterCheck      changeListener.Wait: compare _currentCount(keys) with the waiter's lastCounter; return or cond.Wait.
                      On return the feed loop runs checkForUserUpdates: lastUser = count over the user keys (user + watched
                      roles); if it moved the user is reloaded and ChangeWaiter.RefreshUserKeys re-derives the role keys
                      from the user's CURRENT roles (Refresh).  RefreshByCount is the variant that keeps the keys when
                      their number is unchanged - the liveness property UserSeen rejects it (MC_Listener_bycount.cfg).
   Decides the "eventually" clause of C01 on the model (liveness under fairness). *)
EXTENDS Naturals, FiniteSets

CONSTANTS MaxNotify,    \* bound on notifications (a guard, so that no constraint can hide a non-progress cycle)
          Roles,        \* role names
          ByCount       \* FALSE = RefreshUserKeys as coded; TRUE = the count-based early exit (must violate UserSeen)

Keys == {"chan", "other", "user"} \cup Roles

VARIABLES counter, kc,  \* listener.counter, keyCounts
          currCount,    \* the broadcaster's private copy
          roles,        \* the user's current roles (user document)
          wroles,       \* the role keys the waiter watches (waiter.userKeys minus the user key)
          pc,           \* waiter: "running" (iterating the feed) | "check" (holds the lock inside Wait) | "parked" (in cond.Wait)
          lastSeen,     \* waiter.lastCounter
          lastUser      \* waiter.lastUserCount
vars == <<counter, kc, currCount, roles, wroles, pc, lastSeen, lastUser>>

Max(S) == IF S = {} THEN 0 ELSE CHOOSE x \in S : \A y \in S : y <= x
Watched == {"chan", "user"} \cup wroles
Count(K) == Max({kc[k] : k \in K})

Init == /\ counter = 1 /\ kc = [k \in Keys |-> 0] /\ currCount = 0
        /\ roles \in {R \in SUBSET Roles : Cardinality(R) = 1} /\ wroles = roles
        /\ pc = "running" /\ lastSeen = 0 /\ lastUser = 0

Notify(k) == /\ counter <= MaxNotify
             /\ counter' = counter + 1 /\ kc' = [kc EXCEPT ![k] = counter + 1]
             /\ UNCHANGED <<currCount, roles, wroles, pc, lastSeen, lastUser>>
SwapRole(a, b) == /\ counter <= MaxNotify /\ a \in roles /\ b \notin roles
                  /\ roles' = (roles \ {a}) \cup {b}
                  /\ counter' = counter + 1 /\ kc' = [kc EXCEPT !["user"] = counter + 1]
                  /\ UNCHANGED <<currCount, wroles, pc, lastSeen, lastUser>>
Tick == IF counter > currCount
        THEN /\ currCount' = counter
             /\ pc' = IF pc = "parked" THEN "check" ELSE pc       \* Broadcast: a parked waiter re-acquires the lock and re-checks
             /\ UNCHANGED <<counter, kc, roles, wroles, lastSeen, lastUser>>
        ELSE UNCHANGED vars
WaiterCall  == pc = "running" /\ pc' = "check" /\ UNCHANGED <<counter, kc, currCount, roles, wroles, lastSeen, lastUser>>
Refresh == IF ByCount /\ Cardinality(wroles) = Cardinality(roles) THEN wroles ELSE roles
WaiterCheck ==
  /\ pc = "check"
  /\ IF Count(Watched) # lastSeen
     THEN LET u == Count({"user"} \cup wroles) IN
          /\ pc' = "running" /\ lastSeen' = Count(Watched)
          /\ IF u # lastUser                                   \* the user (or a watched role) changed: reload, refresh the keys
             THEN wroles' = Refresh /\ lastUser' = Max({kc[k] : k \in {"user"} \cup Refresh})
             ELSE UNCHANGED <<wroles, lastUser>>
     ELSE pc' = "parked" /\ UNCHANGED <<lastSeen, wroles, lastUser>>
  /\ UNCHANGED <<counter, kc, currCount, roles>>

Next == \/ \E k \in Keys : Notify(k)
        \/ \E a, b \in Roles : SwapRole(a, b)
        \/ Tick \/ WaiterCall \/ WaiterCheck
Spec == Init /\ [][Next]_vars
(* the ticker keeps ticking, a woken/calling waiter gets the lock, the feed loop always comes back to Wait *)
FairSpec == Spec /\ WF_vars(Tick /\ counter > currCount) /\ WF_vars(WaiterCheck) /\ WF_vars(WaiterCall)

(* safety: a parked waiter has seen everything on its keys, or a broadcast is still due *)
NoLostUpdate == pc = "parked" => (lastSeen = Count(Watched) \/ counter > currCount)
TypeOK == counter \in 1..(MaxNotify + 1) /\ currCount <= counter /\ \A k \in Keys : kc[k] <= counter
(* liveness: every notification of a channel the feed reads is eventually seen by the waiter (lastSeen is only assigned
   when Wait returns) ... *)
Seen == \A n \in 1..(MaxNotify + 1) : (kc["chan"] = n) ~> (lastSeen >= n)
(* ... and every change of the user document or of a role the user holds eventually makes the feed reload the user
   (lastUser moves), unless the user lost that role meanwhile *)
UserSeen == \A n \in 1..(MaxNotify + 1) :
              /\ (kc["user"] = n) ~> (lastUser >= n)
              /\ \A r \in Roles : (kc[r] = n /\ r \in roles) ~> (lastUser >= n \/ r \notin roles)
(* the same without the ticker is false (the waiter may stay parked): checked once by hand, see NOTES.md *)
NoTickSpec == Init /\ [][(\E k \in Keys : Notify(k)) \/ WaiterCall \/ WaiterCheck]_vars /\ WF_vars(WaiterCheck) /\ WF_vars(WaiterCall)
=============================================================================
