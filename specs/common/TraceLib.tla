--------------------------- MODULE TraceLib ---------------------------
(* Trace-validation idiom shared by all Trace_* modules.
   The trace is the ndjson file named by the environment variable VERIF_TRACE.  A Trace_ module declares
   the position variable l, steps with IsEvent, and accepts by high-water mark of consumed lines:
   a CONSTRAINT calls Mark(l) on every generated state, the POSTCONDITION prints <<"HWM", n, total>>
   (the python driver compares them).  Needs -workers 1. *)
EXTENDS Naturals, Sequences, TLC, Json, IOUtils

Trace == ndJsonDeserialize(IOEnv.VERIF_TRACE)
TraceLen == Len(Trace)

ASSUME TLCSet(1, 0)
Mark(l) == TLCSet(1, IF TLCGet(1) > l - 1 THEN TLCGet(1) ELSE l - 1)
PrintHWM == PrintT(<<"HWM", TLCGet(1), TraceLen>>)

Has(r, f) == f \in DOMAIN r
=============================================================================
