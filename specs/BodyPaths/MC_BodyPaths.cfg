CONSTANT WP = {"PutSingle", "PostSingle", "BulkDocs", "BulkDocsNE", "PutSingleNE", "ExtImport"}
CONSTANT RP = {"GetDoc", "GetRev", "OpenRevsAll", "OpenRevsList", "BulkGet", "AllDocs", "Changes", "Raw"}
CONSTANT MaxSteps = 2
SPECIFICATION Spec
INVARIANT TypeOK
INVARIANT Fidelity
INVARIANT ReservedRejected
INVARIANT WinnerIsLeaf
INVARIANT TokensDistinct
INVARIANT CellsDeclared
INVARIANT BehaviourExport
PROPERTY ReservedNoop
CHECK_DEADLOCK FALSE
