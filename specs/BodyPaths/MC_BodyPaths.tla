--------------------------- MODULE MC_BodyPaths ---------------------------
(* Exhaustive check of the path matrix of BodyPaths and export of the cases the harness must instantiate.
   The state contains hist (no VIEW): every write sequence is a distinct state, so every behaviour of the
   bounded model is exported exactly once, together with the read cells (revision x read path x cache) and the
   token the model expects from each of them.  The declared matrix is printed once (CELLS); checks/C19.py
   verifies that the exported behaviours cover it. *)
EXTENDS BodyPaths, Json

ReadCells == {[rev |-> i, rp |-> r, cache |-> c, kind |-> Kind(i), wp |-> by[i], expect |-> written[i]] :
                  i \in Revs, r \in RP, c \in Caches}
ReadCellsOK == {x \in ReadCells : Applicable(x.rp, x.kind) /\ x.cache \in CachesFor(x.rp)}
(* reads are suppressed after a lenient reserved write (the model does not say what it did) *)
CellsToRun == IF obs.k = "lenient" THEN {} ELSE ReadCellsOK

BehaviourExport ==
  (Len(hist) > 0 /\ obs.k # "reads") =>
     PrintT(<<"BEH", ToJson([steps |-> hist, tree |-> tree, cur |-> cur, reads |-> CellsToRun])>>)

ASSUME PrintT(<<"CELLS", ToJson(Matrix)>>)
=============================================================================
