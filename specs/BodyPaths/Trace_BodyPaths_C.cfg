CONSTANT WP <- TraceWP
CONSTANT RP <- TraceRP
CONSTANT MaxSteps = 4
SPECIFICATION CSpec
CONSTRAINT Progress
POSTCONDITION Accept
CHECK_DEADLOCK FALSE
INVARIANT TypeOK
INVARIANT WinnerIsLeaf
INVARIANT TokensDistinct
INVARIANT CNotStuck
