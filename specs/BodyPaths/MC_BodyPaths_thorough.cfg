CONSTANT WP = {"PutSingle", "PostSingle", "BulkDocs", "BulkDocsNE", "PutSingleNE", "ExtImport", "BlipPushRev"}
CONSTANT RP = {"GetDoc", "GetRev", "OpenRevsAll", "OpenRevsList", "BulkGet", "AllDocs", "Changes", "Raw", "BlipPull", "PeerPush", "PeerPull"}
CONSTANT MaxSteps = 3
SPECIFICATION Spec
INVARIANT TypeOK
INVARIANT Fidelity
INVARIANT ReservedRejected
INVARIANT WinnerIsLeaf
INVARIANT TokensDistinct
INVARIANT CellsDeclared
INVARIANT BehaviourExport
PROPERTY ReservedNoop
CHECK_DEADLOCK FALSE
