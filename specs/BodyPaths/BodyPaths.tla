--------------------------- MODULE BodyPaths ---------------------------
(* C19 - document bodies come back exactly as written on every path (DESIGN 4.19, partially decided: section 8).

   Bodies are UNINTERPRETED TOKENS (naturals): the module only says WHICH token every read path must return for
   every revision of one document, and which reserved-property writes must be refused.  One document; the
   harness instantiates it with distinct doc ids and binds each token to concrete JSON (catalogue + generator).

   Implementation variables
     tree   rev-tree shape: tree[i] = index of the parent of revision i (0 = root); revisions are numbered in
            creation order (rest/doc_api.go handlePutDoc/handlePostDoc, rest/bulk_api.go handleBulkDocs,
            db/crud.go Put / PutExistingRevWithBody / import, db/blip_handler.go handleRev)
     cur    index of the winning revision (0 = no document)
     tomb   set of revisions that are tombstones (DELETE of a leaf adds one as its child; it carries no body)
     obs    the last externally visible outcome: the results of reading every cell, or the outcome of a
            reserved-property write
   Ghost variables
     written  written[i] = token the client sent for revision i  (ground truth)
     by       by[i] = write path that created revision i
     hist     behaviour (write steps only)

   kind of a revision: current (winning leaf), conflict (other live leaf), old (superseded, non-leaf), promoted (a
   formerly non-winning leaf that became the winner because the winning branch was tombstoned: db/crud.go
   storeOldBodyInRevTreeAndUpdateCurrent -> db/document.go promoteNonWinningRevisionBody moves its body from the
   revision tree back into the document), tombstone (no body, never read). *)
EXTENDS Integers, Sequences, FiniteSets, TLC

CONSTANTS WP,         \* write paths in scope
          RP,         \* read paths in scope
          MaxSteps    \* bound on write steps per behaviour

AllWP == {"PutSingle", "PostSingle", "BulkDocs", "BulkDocsNE", "PutSingleNE", "ExtImport", "BlipPushRev"}
AllRP == {"GetDoc", "GetRev", "OpenRevsAll", "OpenRevsList", "BulkGet", "AllDocs", "Changes", "Raw",
          "BlipPull", "PeerPush", "PeerPull"}
ASSUME WP \subseteq AllWP /\ RP \subseteq AllRP /\ MaxSteps \in 1..4

Kinds  == {"current", "old", "conflict", "promoted"}
DelWP  == "DeleteSingle"        \* DELETE doc?rev=<winning leaf> (rest/doc_api.go handleDeleteDoc -> db/crud.go DeleteDoc)
Caches == {"warm", "cold"}      \* revision cache populated by the write / emptied before the read

VARIABLES tree, cur, tomb, obs, written, by, hist
vars == <<tree, cur, tomb, obs, written, by, hist>>
view == <<tree, cur, tomb, obs, written, by>>

-----------------------------------------------------------------------------
(* capabilities of the write paths *)
ChildCapable  == WP \ {"PostSingle"}                                   \* can add a child of the current revision
BranchCapable == WP \cap {"BulkDocsNE", "PutSingleNE", "BlipPushRev"}   \* can add a revision beside the current one

N == Len(tree)
Revs == 1..N
IsLeaf(i) == \A j \in Revs : tree[j] # i
Kind(i) == IF i \in tomb THEN "tombstone"
           ELSE IF i = cur THEN (IF tomb = {} THEN "current" ELSE "promoted")
           ELSE IF IsLeaf(i) THEN "conflict" ELSE "old"

(* which read path can address which kind of revision *)
Applicable(rp, kind) ==
  CASE kind = "tombstone" -> FALSE
    [] rp \in {"GetRev", "OpenRevsList", "BulkGet"} -> TRUE
    [] rp = "OpenRevsAll" -> kind \in {"current", "promoted", "conflict"}   \* open_revs=all lists the leaves
    [] OTHER -> kind \in {"current", "promoted"}                        \* GetDoc, AllDocs, Changes, Raw, BlipPull, Peer*
(* replication reads run once, after the revision cache was emptied *)
CachesFor(rp) == IF rp \in {"BlipPull", "PeerPush", "PeerPull"} THEN {"cold"} ELSE Caches
(* superseded revisions are kept best-effort (revision cache, expiring backup): 404 is legal for them *)
MustBeAvailable(kind) == kind # "old"

(* the documented reserved properties the gateway ADDS to a body on the way out *)
Added == {"_id", "_rev", "_cv", "_revisions", "_attachments", "_deleted", "_removed", "_exp"}
AddedFor(rp) == IF rp = "Raw" THEN Added \cup {"_xattrs"} ELSE Added

-----------------------------------------------------------------------------
(* reserved-property table: classes a client must not set, per write path (db/validation.go validateNewBody,
   validateAPIDocUpdate, validateImportBody, validateBlipBody; db/crud.go Put: ExtractExpiry, ParseRevID;
   rest/doc_api.go handlePutDoc: _id vs path).  Lenient classes are control properties with a malformed value;
   they are recorded, not judged (see NOTES.md). *)
CommonMust == {"sync", "sync_null", "purged_true", "purged_false", "removed_true", "removed_false", "removed_null",
               "syncprefix", "exp_badstring", "exp_badtype"}
MustReject(wp) ==
  CASE wp = "PutSingle"    -> CommonMust \cup {"id_mismatch", "rev_malformed"}
    [] wp = "PutSingleNE"  -> CommonMust \cup {"id_mismatch"}
    [] wp \in {"PostSingle", "BulkDocs"} -> CommonMust \cup {"rev_malformed"}
    [] wp = "BulkDocsNE"   -> CommonMust
    [] wp = "ExtImport"    -> {"id_any", "rev_any", "exp_any", "revisions_any", "purged_true", "purged_false",
                               "removed_true", "removed_false", "removed_null", "syncprefix"}
    [] wp = "BlipPushRev"  -> {"sync", "sync_null", "id_any", "rev_any", "deleted_any", "revisions_any", "purged_true",
                               "purged_false", "removed_true", "removed_false", "removed_null", "syncprefix",
                               "exp_badstring", "attachments_badtype"}
Lenient(wp) ==
  IF wp \in {"PutSingle", "PostSingle", "BulkDocs", "BulkDocsNE", "PutSingleNE"}
  THEN {"id_nonstring", "deleted_nonbool", "attachments_badtype", "exp_null"} ELSE {}
ResvClasses(wp) == MustReject(wp) \cup Lenient(wp)
AllClasses == UNION {ResvClasses(wp) : wp \in AllWP}

-----------------------------------------------------------------------------
NoObs == [k |-> "none"]
Step(act, wp, wins, cls, tok) == hist' = Append(hist, [act |-> act, wp |-> wp, wins |-> wins, cls |-> cls, tok |-> tok])
NextTok == Len(hist) + 1          \* the token written at step s is token s: all tokens of a behaviour differ
Closed == Len(hist) > 0 /\ hist[Len(hist)].act \in {"WriteReserved", "TombstoneWinner"}

Init == tree = <<>> /\ cur = 0 /\ tomb = {} /\ obs = NoObs /\ written = <<>> /\ by = <<>> /\ hist = <<>>

(* ---- Create: first revision of a document ---- *)
ImplCreate == tree' = <<0>> /\ cur' = 1 /\ tomb' = {} /\ obs' = NoObs
GhostCreate(wp, b) == written' = <<b>> /\ by' = <<wp>>
Create(wp) == N = 0 /\ ImplCreate /\ GhostCreate(wp, NextTok) /\ Step("Create", wp, FALSE, "", NextTok)

(* ---- Supersede: child of the current revision; the parent's body moves out of the document ---- *)
ImplSupersede == tree' = Append(tree, cur) /\ cur' = N + 1 /\ UNCHANGED tomb /\ obs' = NoObs
GhostWrite(wp, b) == written' = Append(written, b) /\ by' = Append(by, wp)
Supersede(wp) == N > 0 /\ wp \in ChildCapable /\ ImplSupersede /\ GhostWrite(wp, NextTok)
                 /\ Step("Supersede", wp, FALSE, "", NextTok)

(* ---- Branch: a revision beside the current one (same parent; a second root when the current one is a root).
        wins: the new revision id sorts above the current one, so it becomes the winner ---- *)
ImplBranch(wins) == tree' = Append(tree, tree[cur]) /\ cur' = (IF wins THEN N + 1 ELSE cur) /\ UNCHANGED tomb /\ obs' = NoObs
Branch(wp, wins) == N > 0 /\ wp \in BranchCapable /\ ImplBranch(wins) /\ GhostWrite(wp, NextTok)
                    /\ Step("Branch", wp, wins, "", NextTok)

(* ---- TombstoneWinner: the winning leaf of a document with exactly two live leaves is deleted; a tombstone becomes its
        child and the OTHER leaf is promoted to current: its body moves from the revision tree into the document.
        Allowed one step beyond MaxSteps and closes the behaviour ---- *)
LiveLeaves == {i \in Revs : IsLeaf(i) /\ i \notin tomb}
OtherLeaf == CHOOSE i \in LiveLeaves : i # cur
ImplTombstoneWinner == tree' = Append(tree, cur) /\ tomb' = tomb \cup {N + 1} /\ cur' = OtherLeaf /\ obs' = NoObs
GhostTombstone == written' = Append(written, 0) /\ by' = Append(by, DelWP)
TombstoneWinner == N > 0 /\ Cardinality(LiveLeaves) = 2 /\ tomb = {} /\ ImplTombstoneWinner /\ GhostTombstone
                   /\ Step("TombstoneWinner", DelWP, FALSE, "", NextTok)

(* ---- WriteReserved: a body carrying a reserved property of class cls; create mode on an absent document,
        update mode on a document holding one revision.  A must-reject class leaves everything untouched. ---- *)
ResvMode == IF N = 0 THEN "create" ELSE "update"
ResvEnabled(wp, cls) ==
  /\ cls \in ResvClasses(wp)
  /\ \/ N = 0
     \/ N = 1 /\ by = <<"PutSingle">> /\ wp \in ChildCapable \ {"ExtImport", "BlipPushRev"}
ImplWriteReserved(wp, cls) ==
  /\ UNCHANGED <<tree, cur, tomb>>
  /\ \E s \in {400, 404, 409} :
       obs' = [k |-> "resv", wp |-> wp, cls |-> cls, mode |-> ResvMode, status |-> s, stored |-> FALSE,
               getStatus |-> IF N = 0 THEN 404 ELSE 200]
WriteReserved(wp, cls) == ResvEnabled(wp, cls) /\ cls \in MustReject(wp) /\ ImplWriteReserved(wp, cls)
                          /\ UNCHANGED <<written, by>> /\ Step("WriteReserved", wp, FALSE, cls, NextTok)
(* lenient classes are driven too; the model says nothing about their effect, so they end the behaviour *)
WriteLenient(wp, cls) == ResvEnabled(wp, cls) /\ cls \in Lenient(wp) /\ UNCHANGED <<tree, cur, tomb, written, by>>
                         /\ obs' = [k |-> "lenient", wp |-> wp, cls |-> cls, mode |-> ResvMode, status |-> 201]
                         /\ Step("WriteReserved", wp, FALSE, cls, NextTok)

(* ---- ReadAll: every read cell of the document (revision x applicable read path x cache) is exercised; the model
        returns, for each, the token written for the addressed revision ---- *)
CellsNow == {c \in Revs \X RP \X Caches : Applicable(c[2], Kind(c[1])) /\ c[3] \in CachesFor(c[2])}
ModelRead(c) == [rev |-> c[1], rp |-> c[2], cache |-> c[3], status |-> 200, valid |-> TRUE, got |-> written[c[1]],
                 extra |-> {"_id", "_rev"}]
ImplReadAll == UNCHANGED <<tree, cur, tomb>> /\ obs' = [k |-> "reads", items |-> {ModelRead(c) : c \in CellsNow}]
ReadAll == N > 0 /\ obs.k \in {"none", "resv"} /\ ImplReadAll /\ UNCHANGED <<written, by, hist>>

Next ==
  \/ /\ Len(hist) < MaxSteps /\ ~Closed
     /\ \E wp \in WP : \/ Create(wp) \/ Supersede(wp) \/ \E w \in BOOLEAN : Branch(wp, w)
                       \/ \E cls \in ResvClasses(wp) : WriteReserved(wp, cls) \/ WriteLenient(wp, cls)
  \/ (Len(hist) <= MaxSteps /\ ~Closed /\ TombstoneWinner)
  \/ ReadAll
Spec == Init /\ [][Next]_vars

-----------------------------------------------------------------------------
(* THE PROPERTY *)

(* every read path returns, for the revision it addresses, the token that was written for it, as valid JSON, adding
   only documented reserved properties; only superseded revisions may be reported missing *)
FidOK(x) ==
  /\ x.rev \in Revs
  /\ \/ x.status = 200
     \/ x.status = 404 /\ ~MustBeAvailable(Kind(x.rev))
  /\ x.status = 200 => /\ x.valid
                       /\ x.got = written[x.rev]
                       /\ x.extra \subseteq AddedFor(x.rp)
Fidelity == obs.k = "reads" => \A x \in obs.items : FidOK(x)

(* a must-not-set reserved property is refused with a client error and nothing is stored or altered *)
ReservedRejected ==
  (obs.k = "resv" /\ obs.cls \in MustReject(obs.wp)) =>
    /\ obs.status \in 400..499
    /\ ~obs.stored
    /\ obs.getStatus = (IF obs.mode = "create" THEN 404 ELSE 200)

-----------------------------------------------------------------------------
(* auxiliary / design invariants *)
TypeOK ==
  /\ tree \in Seq(0..MaxSteps + 1) /\ cur \in 0..N /\ (N > 0 => cur \in Revs) /\ tomb \subseteq Revs /\ cur \notin tomb
  /\ Len(written) = N /\ Len(by) = N
  /\ \A i \in Revs : tree[i] < i /\ by[i] \in WP \cup {DelWP} /\ written[i] \in 0..MaxSteps + 1
  /\ \A i \in Revs : (i \in tomb) = (written[i] = 0)
  /\ obs.k \in {"none", "reads", "resv", "lenient"}
WinnerIsLeaf == N > 0 => IsLeaf(cur)
TokensDistinct == \A i, j \in Revs : written[i] = written[j] => i = j
(* the declared matrix: every (write path, kind, read path) combination the bounded model must reach *)
Matrix == {<<w, k, r>> \in WP \X Kinds \X RP : Applicable(r, k) /\ (k = "current" \/ MaxSteps >= 2)}   \* promoted: every write path
Cells == {<<by[p[1]], Kind(p[1]), p[2]>> : p \in {q \in Revs \X RP : Applicable(q[2], Kind(q[1]))}}
CellsDeclared == Cells \subseteq Matrix
ReservedNoop == [][(Len(hist') > Len(hist) /\ hist'[Len(hist')].act = "WriteReserved") => UNCHANGED <<tree, cur, tomb, written, by>>]_vars
=============================================================================
