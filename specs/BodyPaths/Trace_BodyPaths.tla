--------------------------- MODULE Trace_BodyPaths ---------------------------
(* Validation of the facts recorded by harness/rest/c19_bodypaths_test.go against BodyPaths.

   One INSTANCE = one exported behaviour of MC_BodyPaths bound to concrete JSON tokens on one real document:
     {a:"Reset", inst, beh, doc, toks, cls}                                   start of an instance
     {a:"Create"|"Supersede"|"Branch", wp, wins, tok, status, acc, tree, cur, tomb}  a body write; tree/cur/tomb = REAL
                                                                              rev tree afterwards (model numbering)
     {a:"TombstoneWinner", wp, tok, status, acc, tree, cur, tomb}             DELETE of the winning leaf
     {a:"WriteReserved", wp, cls, mode, status, stored, getStatus}            a reserved-property write
     {a:"Reads", items:[{rev, rp, cache, status, valid, got, extra, ...}]}    every read cell of the instance;
                                                                              got = which token of this instance the
                                                                              returned body equals as a JSON value
                                                                              (0 = none), extra = top-level keys of
                                                                              the response that the token lacks
   Every Reset line is an INITIAL state (l \in StartLines), so instances are validated independently, a
   counterexample is a handful of states long, and TLC -continue reports every violating instance.  Acceptance:
   every line is consumed exactly once (counter in TLCGet(1), printed as HWM by the POSTCONDITION).  -workers 1.

   Pass P (PSpec): rev tree := logged real tree, obs := logged outcome, ghosts advance from the logged inputs; the
   cfg lists Fidelity and ReservedRejected only (FidelityR = Fidelity, printing the failing items before failing).
   Pass C (CSpec): each line must also be an instance of the model action from the previous real state (real tree =
   model tree, exactly the model's read cells were exercised, statuses as modelled). *)
EXTENDS BodyPaths, TraceLib

VARIABLE l
tvars == <<vars, l>>

StartLines == {i \in 1..TraceLen : Trace[i].a = "Reset"}
ToSet(s) == {s[i] : i \in 1..Len(s)}
T == Trace[l]
(* the path sets in scope are those of the run that produced the trace (first line) *)
TraceWP == ToSet(Trace[1].wps)
TraceRP == ToSet(Trace[1].rps)
Started == hist # <<>>
Count == TLCSet(1, TLCGet(1) + 1)

TInit == /\ l \in StartLines
         /\ tree = <<>> /\ cur = 0 /\ tomb = {} /\ obs = NoObs /\ written = <<>> /\ by = <<>> /\ hist = <<>>

Ev(a) == l <= TraceLen /\ T.a = a /\ Started /\ l' = l + 1

Reset == /\ l <= TraceLen /\ T.a = "Reset" /\ ~Started /\ l' = l + 1
         /\ hist' = <<[act |-> "started"]>>
         /\ UNCHANGED <<tree, cur, tomb, obs, written, by>>

LoggedTree == tree' = T.tree /\ cur' = T.cur /\ tomb' = ToSet(T.tomb) /\ obs' = NoObs

(* ---------------- pass P ---------------- *)
PCreate    == Ev("Create")    /\ LoggedTree /\ (IF T.acc THEN GhostCreate(T.wp, T.tok) ELSE UNCHANGED <<written, by>>) /\ UNCHANGED hist
PSupersede == Ev("Supersede") /\ LoggedTree /\ (IF T.acc THEN GhostWrite(T.wp, T.tok)  ELSE UNCHANGED <<written, by>>) /\ UNCHANGED hist
PBranch    == Ev("Branch")    /\ LoggedTree /\ (IF T.acc THEN GhostWrite(T.wp, T.tok)  ELSE UNCHANGED <<written, by>>) /\ UNCHANGED hist
PTomb      == Ev("TombstoneWinner") /\ LoggedTree /\ (IF T.acc THEN GhostTombstone ELSE UNCHANGED <<written, by>>) /\ UNCHANGED hist
LoggedResv == obs' = [k |-> IF T.cls \in MustReject(T.wp) THEN "resv" ELSE "lenient", wp |-> T.wp, cls |-> T.cls, mode |-> T.mode,
                      status |-> T.status, stored |-> T.stored, getStatus |-> T.getStatus]
PResv      == Ev("WriteReserved") /\ LoggedResv /\ UNCHANGED <<tree, cur, tomb, written, by, hist>>
Item(n) == LET x == T.items[n] IN
           [n |-> n, rev |-> x.rev, rp |-> x.rp, cache |-> x.cache, status |-> x.status, valid |-> x.valid, got |-> x.got,
            extra |-> ToSet(x.extra)]
LoggedReads == obs' = [k |-> "reads", items |-> {Item(n) : n \in 1..Len(T.items)}]
PReads     == Ev("Reads") /\ LoggedReads /\ UNCHANGED <<tree, cur, tomb, written, by, hist>>
PCore == Reset \/ PCreate \/ PSupersede \/ PBranch \/ PTomb \/ PResv \/ PReads
PNext == PCore /\ Count
PSpec == TInit /\ [][PNext]_tvars

(* the property, with the failing items printed (<<"BAD", trace line, item number>>) before the invariant fails *)
FidelityR == Fidelity \/ ((\A x \in {y \in obs.items : ~FidOK(y)} : PrintT(<<"BAD", l - 1, x.n>>)) /\ FALSE)

(* ---------------- pass C ---------------- *)
Refused == UNCHANGED <<tree, cur, tomb>> /\ obs' = NoObs
CCreate    == Ev("Create")    /\ N = 0 /\ (IF T.acc THEN ImplCreate ELSE Refused) /\ LoggedTree
              /\ (IF T.acc THEN GhostCreate(T.wp, T.tok) ELSE UNCHANGED <<written, by>>) /\ UNCHANGED hist
CSupersede == Ev("Supersede") /\ N > 0 /\ T.wp \in ChildCapable /\ (IF T.acc THEN ImplSupersede ELSE Refused) /\ LoggedTree
              /\ (IF T.acc THEN GhostWrite(T.wp, T.tok) ELSE UNCHANGED <<written, by>>) /\ UNCHANGED hist
CBranch    == Ev("Branch")    /\ N > 0 /\ T.wp \in BranchCapable /\ (IF T.acc THEN ImplBranch(T.wins) ELSE Refused) /\ LoggedTree
              /\ (IF T.acc THEN GhostWrite(T.wp, T.tok) ELSE UNCHANGED <<written, by>>) /\ UNCHANGED hist
CTomb      == Ev("TombstoneWinner") /\ N > 0 /\ Cardinality(LiveLeaves) = 2 /\ tomb = {}
              /\ (IF T.acc THEN ImplTombstoneWinner ELSE Refused) /\ LoggedTree
              /\ (IF T.acc THEN GhostTombstone ELSE UNCHANGED <<written, by>>) /\ UNCHANGED hist
CResv      == Ev("WriteReserved") /\ ResvEnabled(T.wp, T.cls) /\ T.mode = ResvMode /\ T.status < 500
              /\ (T.cls \in MustReject(T.wp) => T.status \in {400, 404, 409})
              /\ LoggedResv /\ UNCHANGED <<tree, cur, tomb, written, by, hist>>
(* exactly the cells of the model were exercised (minus the ones the harness reported unobservable), and everything
   the model says is available answered 200 *)
(* a superseded revision is still served from the revision cache while that is warm, unless the superseding write was
   external (the gateway never saw the moment the old body was overwritten) *)
MayBeGone(i, c) == Kind(i) = "old" /\ (c = "cold" \/ \E j \in Revs : tree[j] = i /\ by[j] = "ExtImport")
CReads ==
  /\ Ev("Reads")
  /\ N > 0
  /\ LET got == {<<T.items[n].rev, T.items[n].rp, T.items[n].cache>> : n \in 1..Len(T.items)}
         skipped == {<<T.skipped[n].rev, T.skipped[n].rp, T.skipped[n].cache>> : n \in 1..Len(T.skipped)}
     IN  (got \cup skipped = CellsNow) /\ (got \cap skipped = {})
  /\ \A n \in 1..Len(T.items) : (T.items[n].status = 200) \/ MayBeGone(T.items[n].rev, T.items[n].cache)
  /\ LoggedReads
  /\ UNCHANGED <<tree, cur, tomb, written, by, hist>>
CCore == Reset \/ CCreate \/ CSupersede \/ CBranch \/ CTomb \/ CResv \/ CReads
CNext == CCore /\ Count
CSpec == TInit /\ [][CNext]_tvars

(* a line of the current instance that no action accepts: trace shape (pass P) / nonconformance (pass C) *)
MoreLines == Started /\ l <= TraceLen /\ T.a # "Reset"
PNotStuck == MoreLines => ENABLED PCore
CNotStuck == MoreLines => ENABLED CCore
Progress == TRUE
Accept == PrintT(<<"HWM", TLCGet(1), TraceLen>>)
(* TypeOK of the base module bounds tokens by MaxSteps; the trace cfgs set MaxSteps = 4 *)
=============================================================================
