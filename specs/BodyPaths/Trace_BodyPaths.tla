--------------------------- MODULE Trace_BodyPaths ---------------------------
(* Validation of the facts recorded by harness/rest/c19_bodypaths_test.go against BodyPaths.

   One INSTANCE = one exported behaviour of MC_BodyPaths bound to concrete JSON tokens on one real document:
     {a:"Reset", inst, beh, doc, toks, cls}                                   start of an instance
     {a:"Create"|"Supersede"|"Branch", wp, wins, tok, status, acc, tree, cur}  a body write; tree/cur = REAL rev tree
                                                                              afterwards (parents in model numbering)
     {a:"WriteReserved", wp, cls, mode, status, stored, getStatus}            a reserved-property write
     {a:"Read", rev, rp, cache, status, valid, got, extra, ...}               got = which token of this instance the
                                                                              returned body equals as a JSON value
                                                                              (0 = none), extra = top-level keys of
                                                                              the response that the token lacks
   Every Reset line is an INITIAL state (l \in StartLines), so instances are validated independently, a
   counterexample is a handful of states long, and TLC -continue reports every violating instance.  Acceptance:
   every line is consumed exactly once (counter in TLCGet(1), printed as HWM by the POSTCONDITION).  -workers 1.

   Pass P (PSpec): rev tree := logged real tree, obs := logged outcome, ghosts advance from the logged inputs; the
   cfg lists Fidelity and ReservedRejected only.  Pass C (CSpec): each line must also be an instance of the model
   action from the previous real state (real tree = model tree, read cell inside the model's matrix, status as
   modelled). *)
EXTENDS BodyPaths, TraceLib

VARIABLE l
tvars == <<vars, l>>

StartLines == {i \in 1..TraceLen : Trace[i].a = "Reset"}
ToSet(s) == {s[i] : i \in 1..Len(s)}
T == Trace[l]
Started == hist # <<>>
Count == TLCSet(1, TLCGet(1) + 1)

TInit == /\ l \in StartLines
         /\ tree = <<>> /\ cur = 0 /\ obs = NoObs /\ written = <<>> /\ by = <<>> /\ hist = <<>>

Ev(a) == l <= TraceLen /\ T.a = a /\ Started /\ l' = l + 1

Reset == /\ l <= TraceLen /\ T.a = "Reset" /\ ~Started /\ l' = l + 1
         /\ hist' = <<[act |-> "started"]>>
         /\ UNCHANGED <<tree, cur, obs, written, by>>

LoggedTree == tree' = T.tree /\ cur' = T.cur /\ obs' = NoObs

(* ---------------- pass P ---------------- *)
PCreate    == Ev("Create")    /\ LoggedTree /\ (IF T.acc THEN GhostCreate(T.wp, T.tok) ELSE UNCHANGED <<written, by>>) /\ UNCHANGED hist
PSupersede == Ev("Supersede") /\ LoggedTree /\ (IF T.acc THEN GhostWrite(T.wp, T.tok)  ELSE UNCHANGED <<written, by>>) /\ UNCHANGED hist
PBranch    == Ev("Branch")    /\ LoggedTree /\ (IF T.acc THEN GhostWrite(T.wp, T.tok)  ELSE UNCHANGED <<written, by>>) /\ UNCHANGED hist
LoggedResv == obs' = [k |-> IF T.cls \in MustReject(T.wp) THEN "resv" ELSE "lenient", wp |-> T.wp, cls |-> T.cls, mode |-> T.mode,
                      status |-> T.status, stored |-> T.stored, getStatus |-> T.getStatus]
PResv      == Ev("WriteReserved") /\ LoggedResv /\ UNCHANGED <<tree, cur, written, by, hist>>
LoggedRead == obs' = [k |-> "read", rev |-> T.rev, rp |-> T.rp, cache |-> T.cache, status |-> T.status, valid |-> T.valid,
                      got |-> T.got, extra |-> ToSet(T.extra)]
PRead      == Ev("Read") /\ LoggedRead /\ UNCHANGED <<tree, cur, written, by, hist>>
PCore == Reset \/ PCreate \/ PSupersede \/ PBranch \/ PResv \/ PRead
PNext == PCore /\ Count
PSpec == TInit /\ [][PNext]_tvars

(* ---------------- pass C ---------------- *)
Refused == UNCHANGED <<tree, cur>> /\ obs' = NoObs
CCreate    == Ev("Create")    /\ N = 0 /\ (IF T.acc THEN ImplCreate ELSE Refused) /\ LoggedTree
              /\ (IF T.acc THEN GhostCreate(T.wp, T.tok) ELSE UNCHANGED <<written, by>>) /\ UNCHANGED hist
CSupersede == Ev("Supersede") /\ N > 0 /\ T.wp \in ChildCapable /\ (IF T.acc THEN ImplSupersede ELSE Refused) /\ LoggedTree
              /\ (IF T.acc THEN GhostWrite(T.wp, T.tok) ELSE UNCHANGED <<written, by>>) /\ UNCHANGED hist
CBranch    == Ev("Branch")    /\ N > 0 /\ T.wp \in BranchCapable /\ (IF T.acc THEN ImplBranch(T.wins) ELSE Refused) /\ LoggedTree
              /\ (IF T.acc THEN GhostWrite(T.wp, T.tok) ELSE UNCHANGED <<written, by>>) /\ UNCHANGED hist
CResv      == Ev("WriteReserved") /\ ResvEnabled(T.wp, T.cls) /\ T.mode = ResvMode /\ T.status < 500
              /\ (T.cls \in MustReject(T.wp) => T.status \in {400, 404, 409})
              /\ LoggedResv /\ UNCHANGED <<tree, cur, written, by, hist>>
CRead      == Ev("Read") /\ ReadEnabled(T.rev, T.rp, T.cache)
              /\ (T.status = 200 \/ (Kind(T.rev) = "old" /\ T.cache = "cold"))
              /\ LoggedRead /\ UNCHANGED <<tree, cur, written, by, hist>>
CCore == Reset \/ CCreate \/ CSupersede \/ CBranch \/ CResv \/ CRead
CNext == CCore /\ Count
CSpec == TInit /\ [][CNext]_tvars

(* a line of the current instance that no action accepts: trace shape (pass P) / nonconformance (pass C) *)
MoreLines == Started /\ l <= TraceLen /\ T.a # "Reset"
PNotStuck == MoreLines => ENABLED PCore
CNotStuck == MoreLines => ENABLED CCore
Progress == TRUE
Accept == PrintT(<<"HWM", TLCGet(1), TraceLen>>)
(* TypeOK of the base module bounds tokens by MaxSteps; the trace cfgs set MaxSteps = 4 *)
=============================================================================
