CONSTANT WP = {"PutSingle", "PostSingle", "BulkDocs", "BulkDocsNE", "PutSingleNE", "ExtImport", "BlipPushRev"}
CONSTANT RP = {"GetDoc", "GetRev", "OpenRevsAll", "OpenRevsList", "BulkGet", "AllDocs", "Changes", "Raw", "BlipPull", "PeerPush", "PeerPull"}
CONSTANT MaxSteps = 4
SPECIFICATION PSpec
CONSTRAINT Progress
POSTCONDITION Accept
CHECK_DEADLOCK FALSE
INVARIANT Fidelity
INVARIANT ReservedRejected
INVARIANT PNotStuck
