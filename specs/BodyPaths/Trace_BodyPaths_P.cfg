CONSTANT WP <- TraceWP
CONSTANT RP <- TraceRP
CONSTANT MaxSteps = 4
SPECIFICATION PSpec
CONSTRAINT Progress
POSTCONDITION Accept
CHECK_DEADLOCK FALSE
INVARIANT FidelityR
INVARIANT ReservedRejected
INVARIANT PNotStuck
