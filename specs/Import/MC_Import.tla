--------------------------- MODULE MC_Import ---------------------------
EXTENDS Import, Json
(* every behaviour of length MaxSteps of the bounded instance (the harness drains and reads at the end of each) *)
BehaviourExport == (Len(hist) = MaxSteps) => PrintT(<<"BEH", ToJson([steps |-> hist])>>)
(* Simulation: TLC picks uniformly among SUCCESSOR STATES; Feed / FeedBegin / Cache have one successor per captured event
   and would swamp the parameterless actions.  SimNext draws the event with RandomElement (biased to the newest two
   events half of the time): one successor per action KIND. *)
PickEv == LET n == Len(h.evs) IN
          IF n <= 2 THEN RandomElement(1..n)
          ELSE IF RandomElement({0, 1}) = 0 THEN RandomElement((n - 1)..n) ELSE RandomElement(1..n)
SimNext ==
  \/ (\E nw \in BOOLEAN : Conflict(nw))
  \/ ExtSet \/ ExtDelete \/ ExtUx \/ SGMeta \/ Get \/ GetBegin \/ GetRel \/ Write \/ WriteBegin \/ WriteRel \/ FeedRel
  \/ (Len(h.evs) > 0 /\ Feed(PickEv))
  \/ (Len(h.evs) > 0 /\ FeedBegin(PickEv))
  \/ (Len(h.evs) > 0 /\ Cache(PickEv))
SimSpec == Init /\ [][SimNext]_vars
=============================================================================
