CONSTANT MaxExt = 2
CONSTANT MaxSG = 0
CONSTANT MaxUx = 0
CONSTANT MaxMeta = 1
CONSTANT MaxFeed = 3
CONSTANT MaxCache = 1
CONSTANT MaxGet = 1
CONSTANT Deletes = FALSE
CONSTANT Split = TRUE
CONSTANT Conflicts = TRUE
CONSTANT MaxSteps = 8
SPECIFICATION Spec
VIEW view
INVARIANT SettledStable
INVARIANT OwnWriteOnly
INVARIANT ImportedOnce
INVARIANT ParentIsPrevCur
INVARIANT LatestVisible
INVARIANT OwnEventCached
INVARIANT X_ImportMintsVersion
INVARIANT TypeOK
INVARIANT CacheSound
INVARIANT DetectionExact
CHECK_DEADLOCK FALSE
