--------------------------- MODULE Trace_Import ---------------------------
(* Validation of traces recorded from the real import paths (harness/db/c09_import_test.go).
   Lines:
     {a:"Reset", beh}                                            a fresh, never written document
     {a:<action>, i, o}                                          o = the REAL state after the step, projected into the spec's
                                                                 observable record (Import.tla: doc, meta, pcF/pcG/pcW, out)
       actions: Conflict ExtSet ExtDelete ExtUx SGMeta Feed FeedBegin FeedRel Cache Get GetBegin GetRel Write WriteBegin WriteRel;
       i = body version (ExtSet), user-xattr version (ExtUx), captured event (Feed, FeedBegin, Cache), write number (the three Write actions), else 0
     {a:"End", drained}                                          the harness delivered every mutation not yet delivered to the
                                                                 import listener (logged as Feed lines) and read the document
     {a:"Abort", why}                                            the harness could not execute the behaviour any further
   Pass P (PSpec): o := logged real state, ghosts by Ghost* from the logged inputs, hidden h untouched.  The C09 predicates are
           evaluated by TLC on EVERY recorded state; failures are collected per behaviour in TLC register 2 and printed by
           the POSTCONDITION (not stop-on-first: a behaviour that runs through a known deviation must not hide the others).
   Pass C (CSpec): every step is additionally an instance of the spec action from the previous real state (hidden h evolves by
           the spec).  Register 3: behaviours that conformed to the end + auxiliary predicates failing on them; register 4:
           first line of every behaviour that no spec action explains. *)
EXTENDS Import, TraceLib

VARIABLES l, bi, diverged, ended, drained
tvars == <<vars, l, bi, diverged, ended, drained>>

ASSUME TLCSet(2, {}) /\ TLCSet(3, {}) /\ TLCSet(4, {})

S == Trace[l]
Ev(a) == l <= TraceLen /\ Trace[l].a = a /\ l' = l + 1

MetaOf(m) == [has |-> m.has, syncCas |-> m.syncCas, crc |-> m.crc, ucrc |-> m.ucrc,
              revs |-> [n \in 1..Len(m.revs) |-> [p |-> m.revs[n].p, body |-> m.revs[n].body, del |-> m.revs[n].del]],
              cur |-> m.cur, seq |-> m.seq, cv |-> m.cv, mouCas |-> m.mouCas, mouPcas |-> m.mouPcas]
OOf(x) == [doc |-> [cas |-> x.doc.cas, body |-> x.doc.body, del |-> x.doc.del, ux |-> x.doc.ux], meta |-> MetaOf(x.meta),
           pcF |-> x.pcF, pcG |-> x.pcG, pcW |-> x.pcW,
           out |-> [acc |-> x.out.acc, vst |-> x.out.vst, vrev |-> x.out.vrev, vbody |-> x.out.vbody, wres |-> x.out.wres]]
Logged == o' = OOf(S.o)

TInit == Init /\ l = 1 /\ bi = -1 /\ diverged = FALSE /\ ended = FALSE /\ drained = TRUE

Reset == /\ Ev("Reset")
         /\ o' = [doc |-> NoDoc, meta |-> NoMeta, pcF |-> "idle", pcG |-> "idle", pcW |-> "idle", out |-> NoOut]
         /\ h' = [evs |-> <<>>, fl |-> NoSnap, gl |-> NoSnap, wl |-> NoW, nv |-> 0, sq |-> 0, cf |-> FALSE]
         /\ last' = [who |-> "none", body |-> 0, del |-> TRUE] /\ lastUx' = 0 /\ nExt' = 0 /\ nUx' = 0 /\ nSG' = 0 /\ nMeta' = 0
         /\ evOwn' = <<>> /\ fed' = {} /\ inF' = 0 /\ inW' = 0 /\ dirtyG' = FALSE /\ dirtyW' = FALSE
         /\ pre' = [act |-> "Init", i |-> 0, settled |-> TRUE, revs |-> <<>>, seq |-> 0, cas |-> 0, cv |-> 0, has |-> FALSE, cur |-> 0, mouCas |-> 0, ucrc |-> 0]
         /\ nFeed' = 0 /\ nCache' = 0 /\ nGet' = 0 /\ hist' = <<>>
         /\ bi' = S.beh /\ diverged' = FALSE /\ ended' = FALSE /\ drained' = TRUE

TUnch == UNCHANGED <<cnt, hist, bi, diverged, ended, drained>>

(* ghost part of a logged step (shared by both passes) *)
GhostOf(a) ==
  CASE a = "ExtSet"    -> GhostExt([who |-> "ext", body |-> S.i, del |-> FALSE])
    [] a = "ExtDelete" -> GhostExt([who |-> "ext", body |-> 0, del |-> TRUE])
    [] a = "ExtUx"     -> GhostExtUx(S.i)
    [] a = "SGMeta"    -> GhostSGMeta
    [] a = "Conflict"  -> GhostConflict
    [] a \in {"Feed", "FeedBegin", "FeedRel"} -> GhostFeed(a, S.i)
    [] a = "Cache"     -> GhostCache(S.i)
    [] a \in {"Get", "GetBegin", "GetRel"} -> GhostGet(a)
    [] a \in {"Write", "WriteBegin", "WriteRel"} -> GhostWrite(a)
Acts == {"Conflict", "ExtSet", "ExtDelete", "ExtUx", "SGMeta", "Feed", "FeedBegin", "FeedRel", "Cache", "Get", "GetBegin", "GetRel", "Write", "WriteBegin", "WriteRel"}

(* ---- pass P ---- *)
PStep == /\ l <= TraceLen /\ S.a \in Acts /\ l' = l + 1
         /\ Logged /\ UNCHANGED h /\ GhostOf(S.a) /\ TUnch
PEnd   == Ev("End") /\ ended' = TRUE /\ drained' = S.drained /\ UNCHANGED <<vars, bi, diverged>>
PAbort == Ev("Abort") /\ UNCHANGED <<vars, bi, diverged, ended, drained>>
PNext == Reset \/ PStep \/ PEnd \/ PAbort
PSpec == TInit /\ [][PNext]_tvars

(* NoLoop: with no further external write, delivering the gateway's own import mutations changes nothing (SettledStable)
   and the deliveries come to an end: every mutation has been delivered and the document is settled *)
NoLoop == ended => (drained /\ AllFed /\ Settled)

PNames == {"SettledStable", "OwnWriteOnly", "ImportedOnce", "ParentIsPrevCur", "LatestVisible", "OwnEventCached", "ImportMintsVersion", "NoLoop"}
PHolds(n) == CASE n = "SettledStable" -> SettledStable
               [] n = "OwnWriteOnly" -> OwnWriteOnly
               [] n = "ImportedOnce" -> ImportedOnce
               [] n = "ParentIsPrevCur" -> ParentIsPrevCur
               [] n = "LatestVisible" -> LatestVisible
               [] n = "OwnEventCached" -> OwnEventCached
               [] n = "ImportMintsVersion" -> ImportMintsVersion
               [] n = "NoLoop" -> NoLoop
PFailing == {n \in PNames : ~PHolds(n)}
(* a failure of ImportMintsVersion that the named deviation explains is marked x = TRUE *)
CollectP == bi < 0 \/ PFailing = {} \/
            TLCSet(2, TLCGet(2) \cup {[b |-> bi, p |-> n, line |-> l - 1, x |-> (n = "ImportMintsVersion" /\ X_ImportMintsVersion)] : n \in PFailing})
PProgress == Mark(l) /\ CollectP
PAccept == PrintHWM /\ PrintT(<<"PVIOL", ToJson(TLCGet(2))>>)

(* ---- pass C ---- *)
ImplOf(a) ==
  CASE a = "ExtSet"     -> OKExtSet /\ S.i = nExt + 1 /\ ImplExtSet(S.i)
    [] a = "ExtDelete"  -> ~o.doc.del /\ ReadWriteIdle /\ ImplExtDelete
    [] a = "ExtUx"      -> ~o.doc.del /\ ReadWriteIdle /\ S.i = nUx + 1 /\ ImplExtUx(S.i)
    [] a = "Conflict"   -> o.doc.cas = 0 /\ ImplConflict(S.i = 1)
    [] a = "SGMeta"     -> o.meta.has /\ ~o.doc.del /\ ImplSGMeta
    [] a = "Feed"       -> o.pcF = "idle" /\ S.i \in 1..Len(h.evs) /\ ImplFeed(S.i)
    [] a = "FeedBegin"  -> o.pcF = "idle" /\ S.i \in 1..Len(h.evs) /\ ImplFeedBegin(S.i)
    [] a = "FeedRel"    -> o.pcF = "imp" /\ ImplFeedRel
    [] a = "Cache"      -> S.i \in 1..Len(h.evs) /\ ImplCache(S.i)
    [] a = "Get"        -> o.pcG = "idle" /\ ImplGet
    [] a = "GetBegin"   -> o.pcG = "idle" /\ ImplGetBegin
    [] a = "GetRel"     -> o.pcG = "imp" /\ ImplGetRel
    [] a = "Write"      -> o.pcW = "idle" /\ ~o.doc.del /\ S.i = nSG + 1 /\ ImplWrite(S.i)
    [] a = "WriteBegin" -> o.pcW = "idle" /\ ~o.doc.del /\ S.i = nSG + 1 /\ ImplWriteBegin(S.i)
    [] a = "WriteRel"   -> o.pcW # "idle" /\ ImplWriteRel
CStep == /\ ~diverged /\ l <= TraceLen /\ S.a \in Acts /\ l' = l + 1
         /\ ImplOf(S.a) /\ Logged /\ GhostOf(S.a) /\ TUnch
CEnd  == ~diverged /\ Ev("End") /\ ended' = TRUE /\ drained' = S.drained /\ UNCHANGED <<vars, bi, diverged>>
CAny  == CStep \/ CEnd
CDiverge == /\ ~diverged /\ l <= TraceLen /\ S.a # "Reset" /\ ~ENABLED CAny
            /\ diverged' = TRUE /\ l' = l + 1 /\ UNCHANGED <<vars, bi, ended, drained>>
CSkip == /\ diverged /\ l <= TraceLen /\ S.a # "Reset" /\ l' = l + 1 /\ UNCHANGED <<vars, bi, diverged, ended, drained>>
CNext == Reset \/ CAny \/ CDiverge \/ CSkip
CSpec == TInit /\ [][CNext]_tvars

XNames == {"TypeOK", "DetectionExact", "CacheSound", "X_ImportMintsVersion"}
XHolds(n) == CASE n = "TypeOK" -> TypeOK
               [] n = "DetectionExact" -> DetectionExact
               [] n = "CacheSound" -> CacheSound
               [] n = "X_ImportMintsVersion" -> X_ImportMintsVersion
XFailing == {n \in XNames : ~XHolds(n)}
CollectC ==
  \/ bi < 0
  \/ /\ (~diverged \/ TLCSet(4, TLCGet(4) \cup {[b |-> bi, line |-> l - 1]}))
     /\ (diverged \/ XFailing = {} \/ TLCSet(4, TLCGet(4) \cup {[b |-> bi, line |-> l - 1, aux |-> XFailing]}))
     /\ (~(ended /\ ~diverged) \/ TLCSet(3, TLCGet(3) \cup {[b |-> bi]}))
CProgress == Mark(l) /\ CollectC
CAccept == PrintHWM /\ PrintT(<<"CCONF", ToJson(TLCGet(3))>>) /\ PrintT(<<"CDIV", ToJson(TLCGet(4))>>)
=============================================================================
