CONSTANT MaxExt = 2
CONSTANT MaxSG = 0
CONSTANT MaxUx = 0
CONSTANT MaxMeta = 1
CONSTANT MaxFeed = 3
CONSTANT MaxCache = 1
CONSTANT MaxGet = 1
CONSTANT Deletes = FALSE
CONSTANT Split = TRUE
CONSTANT Conflicts = TRUE
CONSTANT MaxSteps = 5
SPECIFICATION Spec
INVARIANT BehaviourExport
CHECK_DEADLOCK FALSE
