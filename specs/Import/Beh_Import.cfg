CONSTANT MaxExt = 2
CONSTANT MaxSG = 1
CONSTANT MaxUx = 1
CONSTANT MaxMeta = 1
CONSTANT MaxFeed = 2
CONSTANT MaxCache = 1
CONSTANT MaxGet = 1
CONSTANT Deletes = TRUE
CONSTANT Split = FALSE
CONSTANT MaxSteps = 5
SPECIFICATION Spec
INVARIANT BehaviourExport
CHECK_DEADLOCK FALSE
