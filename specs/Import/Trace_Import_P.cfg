CONSTANT MaxExt = 1000000
CONSTANT MaxSG = 1000000
CONSTANT MaxUx = 1000000
CONSTANT MaxMeta = 1000000
CONSTANT MaxFeed = 1000000
CONSTANT MaxCache = 1000000
CONSTANT MaxGet = 1000000
CONSTANT Deletes = TRUE
CONSTANT Split = TRUE
CONSTANT Conflicts = FALSE
CONSTANT MaxSteps = 1000000
SPECIFICATION PSpec
CONSTRAINT PProgress
POSTCONDITION PAccept
CHECK_DEADLOCK FALSE
\* The property predicates SettledStable (OwnNeverImported / redelivery / repeated reads), OwnWriteOnly, ImportedOnce,
\* ParentIsPrevCur, LatestVisible, OwnEventCached, ImportMintsVersion and NoLoop are evaluated on every recorded state by
\* PProgress (collected per behaviour, not stop-on-first) - see Trace_Import.tla
