CONSTANT MaxExt = 4
CONSTANT MaxSG = 2
CONSTANT MaxUx = 1
CONSTANT MaxMeta = 2
CONSTANT MaxFeed = 8
CONSTANT MaxCache = 3
CONSTANT MaxGet = 3
CONSTANT Deletes = TRUE
CONSTANT Split = TRUE
CONSTANT Conflicts = FALSE
CONSTANT MaxSteps = 14
SPECIFICATION SimSpec
INVARIANT BehaviourExport
CHECK_DEADLOCK FALSE
