CONSTANT MaxExt = 2
CONSTANT MaxSG = 1
CONSTANT MaxUx = 0
CONSTANT MaxMeta = 0
CONSTANT MaxFeed = 2
CONSTANT MaxCache = 0
CONSTANT MaxGet = 1
CONSTANT Deletes = FALSE
CONSTANT Split = TRUE
CONSTANT Conflicts = FALSE
CONSTANT MaxSteps = 6
SPECIFICATION Spec
INVARIANT BehaviourExport
CHECK_DEADLOCK FALSE
