------------------------------- MODULE Import -------------------------------
(* Import of external (non-gateway) writes: db/import.go importDoc (ImportFromFeed / ImportOnDemand), db/import_listener.go
   ProcessFeedEvent / ImportFeedEvent, db/document.go SyncData.IsSGWrite / IsSGWriteXattrOnly / Document.IsSGWrite,
   db/crud.go GetDocumentWithRaw -> OnDemandImportForGet, Put -> OnDemandImportForWrite, updateHLV (Import case),
   db/change_cache.go DocChanged (classification of a mutation), db/database.go ResyncDocument (metadata-only rewrite).
   One document.  Written to be bound (harness/db/c09_import_test.go); decides C09.

   Implementation state is two records so that code paths compose as functions  s = [o |-> .., h |-> ..]  ->  s:
     o   observable, logged by the harness after every step
         doc   [cas, body, del, ux] cas = number of mutations of the document so far (0 = never written), body = body id
                                  (external write n -> n, gateway write k -> 100 + k, 0 = none), del = tombstone / absent,
                                  ux = version of the user xattr (0 = none)
         meta  sync metadata (xattrs _sync, _vv, _mou) or NoMeta:  syncCas (_sync.cas), crc (body id whose checksum is stored,
               0 = the checksum of a delete), ucrc (user-xattr version whose checksum is stored), revs (sequence of
               [p, body, del]; a revision's id is its position), cur,
               seq (how many sequences the document has carried), cv (version id: an import mints the cas of the mutation it
               imports, a gateway write mints 1000 + n), mouCas / mouPcas (_mou.cas / _mou.pCas, 0 = no _mou)
         pcF / pcG / pcW   control state of the feed import / gateway read / gateway write in flight ("idle", "imp" = parked
               between an import's computation and its CAS write, "put" = parked between a write's computation and its CAS write)
         out   output of the step: acc (DocChanged classified the event as a gateway write: 1 / 0), view of a completed read
               (vst "ok" | "gone", vrev, vbody), result of a completed write (wres "ok" | "conflict")
     h   hidden: evs (every mutation of the document as the feeds captured it: snapshot [doc, meta]), locals of the three
         operations in flight (the snapshot an import was computed from, ...), nv (versions minted by gateway writes)
   Actions (each takes the scheduler's choice only; one goroutine runs at a time in the harness):
     ExtSet, ExtDelete, ExtUx             another application writes / deletes the document / sets its user xattr directly in the bucket
     Conflict(nw)                         (conflicts-allowed family, first step only) the gateway is pushed revision 1 and two children of
                                          it: the document has a winning and a losing live leaf; nw = the NEWEST revision is the winner
     SGMeta                               metadata-only rewrite by the gateway: ResyncDocument(regenerateSequences)
     Feed(i) = FeedBegin(i) ; FeedRel     importListener.ProcessFeedEvent on captured event i (late, twice, out of order)
     Cache(i)                             changeCache.DocChanged on captured event i (xattr-only content)
     Get = GetBegin ; GetRel*             gateway read (GetRev): on-demand import, retried with the current body on CAS mismatch
     Write(k) = WriteBegin(k) ; WriteRel* gateway write Put(_rev = current revision): on-demand import before the write
   Bounds on interleavings (NOTES.md): while a read or write is in flight no ExtDelete, no ExtUx and no ExtSet over a tombstone. *)
EXTENDS Integers, Sequences, FiniteSets, TLC

CONSTANTS MaxExt,       \* external writes (sets + deletes)
          MaxSG,        \* gateway writes
          MaxUx,        \* external writes of the user xattr
          MaxMeta,      \* metadata-only rewrites
          MaxFeed,      \* deliveries to the import listener
          MaxCache,     \* deliveries to the change cache
          MaxGet,       \* gateway reads
          Deletes,      \* BOOLEAN: ExtDelete enabled
          Split,        \* BOOLEAN: split (racing) actions enabled
          Conflicts,    \* BOOLEAN: the conflicts-allowed family: every behaviour starts with Conflict; no delete / user xattr / write
          MaxSteps

VARIABLES o, h,                         \* implementation state (see above)
          last, lastUx, nExt, nUx, nSG, nMeta, \* ghosts from the logged inputs: the last acknowledged writer [who, body, del], the user xattr; counters
          evOwn,                        \* ghost: for every captured mutation, was it the gateway's own and was the document settled right after it
          fed, inF, inW, dirtyG, dirtyW, \* ghost: events the import listener has completely processed; the event / write in flight; an external write
                                        \*   overlapped the read / write in flight
          pre,                          \* ghost: the previous state's projection (action properties as state predicates)
          nFeed, nCache, nGet,          \* delivery counters (bounds)
          hist                          \* behaviour so far (exported for replay; hidden by VIEW)

ghost == <<last, lastUx, nExt, nUx, nSG, nMeta, evOwn, fed, inF, inW, dirtyG, dirtyW, pre>>
cnt   == <<nFeed, nCache, nGet>>
vars  == <<o, h, ghost, cnt, hist>>
view  == <<o, h, ghost, cnt>>

NoMeta == [has |-> FALSE, syncCas |-> 0, crc |-> 0, ucrc |-> 0, revs |-> <<>>, cur |-> 0, seq |-> 0, cv |-> 0, mouCas |-> 0, mouPcas |-> 0]
NoDoc  == [cas |-> 0, body |-> 0, del |-> TRUE, ux |-> 0]
NoOut  == [acc |-> -1, vst |-> "na", vrev |-> 0, vbody |-> 0, wres |-> "na"]
NoSnap == [doc |-> NoDoc, meta |-> NoMeta]
NoW    == [k |-> 0, parg |-> 0, snap |-> NoSnap, osnap |-> NoSnap, casRead |-> -1]
SGBody(k) == 100 + k

Init ==
  /\ o = [doc |-> NoDoc, meta |-> NoMeta, pcF |-> "idle", pcG |-> "idle", pcW |-> "idle", out |-> NoOut]
  /\ h = [evs |-> <<>>, fl |-> NoSnap, gl |-> NoSnap, wl |-> NoW, nv |-> 0, sq |-> 0, cf |-> FALSE]
  /\ last = [who |-> "none", body |-> 0, del |-> TRUE] /\ lastUx = 0 /\ nExt = 0 /\ nUx = 0 /\ nSG = 0 /\ nMeta = 0
  /\ evOwn = <<>> /\ fed = {} /\ inF = 0 /\ inW = 0 /\ dirtyG = FALSE /\ dirtyW = FALSE
  /\ pre = [act |-> "Init", i |-> 0, settled |-> TRUE, revs |-> <<>>, seq |-> 0, cas |-> 0, cv |-> 0, has |-> FALSE, cur |-> 0, mouCas |-> 0, ucrc |-> 0]
  /\ nFeed = 0 /\ nCache = 0 /\ nGet = 0
  /\ hist = <<>>

St == [o |-> o, h |-> h]

-----------------------------------------------------------------------------
(* ---- own-write detection ---- *)
BodyCrc(d) == IF d.del THEN 0 ELSE d.body
(* SyncData.IsSGWrite (feed, raw body) and Document.IsSGWrite (on demand): CAS match, else body checksum and user-xattr
   checksum match (_vv.cv = _sync.rev cv always holds here: nobody but the gateway writes the system xattrs) *)
IsSG(d, m) == m.has /\ (d.cas = m.syncCas \/ (BodyCrc(d) = m.crc /\ d.ux = m.ucrc))
(* SyncData.IsSGWriteXattrOnly + the body fetch of DocChanged: event snapshot e, the document now d *)
CacheAccepts(e, d) ==
  IF ~e.meta.has THEN FALSE
  ELSE IF e.doc.cas = e.meta.syncCas THEN TRUE
  ELSE IF e.doc.del /\ e.meta.crc # 0 THEN FALSE
  ELSE IF e.doc.ux # e.meta.ucrc THEN FALSE
  ELSE IF e.doc.del THEN TRUE
  ELSE d.cas = e.doc.cas /\ BodyCrc(d) = e.meta.crc          \* ambiguous: fetch the body; a stale event is dropped

(* ---- one mutation of the bucket document: the feeds capture a snapshot ---- *)
Mut(s, d, m) == [s EXCEPT !.o.doc = d, !.o.meta = m, !.h.evs = Append(s.h.evs, [doc |-> d, meta |-> m])]
SetOut(s, f, v) == [s EXCEPT !.o.out = [NoOut EXCEPT ![f] = v]]
ClrOut(s) == [s EXCEPT !.o.out = NoOut]

(* ---- importDoc's update, computed from the snapshot sn = [doc, meta] it was given, written at CAS sn.doc.cas ---- *)
ImportMeta(sn, newcas, seq) ==
  LET d == sn.doc  m == sn.meta
      mouMatch == m.has /\ m.mouCas # 0 /\ m.mouCas = d.cas
      rv == [p |-> m.cur, body |-> d.body, del |-> d.del]
      newRev == (~m.has) \/ BodyCrc(d) # m.crc \/ d.ux = 0      \* a change of the user xattr alone creates no revision
  IN [has |-> TRUE, syncCas |-> newcas, crc |-> BodyCrc(d), ucrc |-> d.ux,
      revs |-> IF newRev THEN Append(m.revs, rv) ELSE m.revs, cur |-> IF newRev THEN Len(m.revs) + 1 ELSE m.cur, seq |-> seq,
      cv |-> IF (~m.has) \/ ~mouMatch THEN d.cas ELSE m.cv,          \* updateHLV Import: no new version when _mou.cas = cas
      mouCas |-> newcas, mouPcas |-> IF mouMatch THEN m.mouPcas ELSE d.cas]
CommitImport(s, sn) ==
  LET nc == s.o.doc.cas + 1 IN
  Mut([s EXCEPT !.h.sq = @ + 1], [sn.doc EXCEPT !.cas = nc], ImportMeta(sn, nc, s.h.sq + 1))

(* ---- feed import: importListener.ProcessFeedEvent(event i) ---- *)
FeedBeginF(s, i) ==
  LET e == s.h.evs[i] IN
  IF (e.doc.del /\ ~e.meta.has) \/ IsSG(e.doc, e.meta) THEN ClrOut(s)          \* ignored: delete without metadata / own write
  ELSE [ClrOut(s) EXCEPT !.o.pcF = "imp", !.h.fl = e]                             \* first attempt is computed on the event itself
FeedRelF(s) ==
  LET t == [ClrOut(s) EXCEPT !.o.pcF = "idle", !.h.fl = NoSnap] IN
  IF s.o.doc.cas = s.h.fl.doc.cas THEN CommitImport(t, s.h.fl)
  ELSE t                                                                          \* ImportFromFeed: cancelled on CAS mismatch
FeedF(s, i) == LET t == FeedBeginF(s, i) IN IF t.o.pcF = "imp" THEN FeedRelF(t) ELSE t

(* ---- gateway read: GetRev -> GetDocument -> OnDemandImportForGet ---- *)
ViewOf(s) ==
  LET d == s.o.doc  m == s.o.meta IN
  IF d.del \/ ~m.has THEN [NoOut EXCEPT !.vst = "gone"]
  ELSE [NoOut EXCEPT !.vst = "ok", !.vrev = m.cur, !.vbody = d.body]
DoneG(s) == [s EXCEPT !.o.pcG = "idle", !.h.gl = NoSnap, !.o.out = ViewOf(s)]
GetBeginF(s) ==
  LET d == s.o.doc  m == s.o.meta IN
  IF d.cas = 0 \/ (d.del /\ ~m.has) \/ IsSG(d, m) THEN DoneG(s)
  ELSE [ClrOut(s) EXCEPT !.o.pcG = "imp", !.h.gl = [doc |-> d, meta |-> m]]
GetRelF(s) ==
  LET d == s.o.doc  m == s.o.meta IN
  IF d.cas = s.h.gl.doc.cas THEN DoneG(CommitImport(s, s.h.gl))
  ELSE IF IsSG(d, m) THEN DoneG(s)                                                \* ImportOnDemand: already imported meanwhile
  ELSE [ClrOut(s) EXCEPT !.h.gl = [doc |-> d, meta |-> m]]                        \*   else retried with the current body
RECURSIVE RunG(_, _)
RunG(s, n) == IF s.o.pcG = "idle" \/ n = 0 THEN s ELSE RunG(GetRelF(s), n - 1)
GetF(s) == RunG(GetBeginF(s), 3)

(* ---- gateway write: Put(body k, _rev = revision current when the request was made) ---- *)
DoneW(s, r) == [s EXCEPT !.o.pcW = "idle", !.h.wl = NoW, !.o.out = [NoOut EXCEPT !.wres = r]]
(* the Put callback proper on the document version sn (possibly stale), parked before its CAS write at sn.doc.cas *)
WComputeF(s, sn) ==
  LET m == sn.meta  p == s.h.wl.parg
      conflict == IF p = 0 THEN m.has /\ ~m.revs[m.cur].del ELSE ~(m.has /\ p = m.cur)
  IN IF conflict THEN DoneW(s, "conflict")
     ELSE [ClrOut(s) EXCEPT !.o.pcW = "put", !.h.wl.casRead = sn.doc.cas, !.h.wl.osnap = sn]
(* one run of the update loop on a fresh read of the document *)
WAttemptF(s) ==
  LET sn == [doc |-> s.o.doc, meta |-> s.o.meta] IN
  IF IsSG(sn.doc, sn.meta) THEN WComputeF(s, sn)
  ELSE [ClrOut(s) EXCEPT !.o.pcW = "imp", !.h.wl.snap = sn, !.h.wl.osnap = sn]   \* OnDemandImportForWrite: nested import first
WriteBeginF(s, k) ==
  WAttemptF([s EXCEPT !.h.wl = [NoW EXCEPT !.k = k, !.parg = IF s.o.meta.has THEN s.o.meta.cur ELSE 0]])
PutMeta(sn, k, newcas, seq, ver) ==
  LET m == sn.meta  rv == [p |-> m.cur, body |-> SGBody(k), del |-> FALSE] IN
  [has |-> TRUE, syncCas |-> newcas, crc |-> SGBody(k), ucrc |-> sn.doc.ux, revs |-> Append(m.revs, rv), cur |-> Len(m.revs) + 1, seq |-> seq,
   cv |-> ver, mouCas |-> 0, mouPcas |-> 0]
WriteRelF(s) ==
  LET d == s.o.doc  m == s.o.meta  w == s.h.wl IN
  IF s.o.pcW = "imp"
  THEN IF d.cas = w.snap.doc.cas THEN WComputeF(CommitImport(s, w.snap), w.osnap)         \* imported; the callback goes on with ITS (now stale) document
       ELSE IF IsSG(d, m) THEN WComputeF(s, w.osnap)                                       \* imported by someone else meanwhile
       ELSE [ClrOut(s) EXCEPT !.h.wl.snap = [doc |-> d, meta |-> m]]                       \* on-demand import retried with the current body
  ELSE IF d.cas = w.casRead
       THEN LET nc == d.cas + 1 IN
            DoneW(Mut([s EXCEPT !.h.sq = @ + 1, !.h.nv = @ + 1], [cas |-> nc, body |-> SGBody(w.k), del |-> FALSE, ux |-> d.ux],
                      PutMeta(w.osnap, w.k, nc, s.h.sq + 1, 1000 + s.h.nv + 1)), "ok")
       ELSE WAttemptF(s)                                                                    \* CAS mismatch: the loop re-reads and re-runs the callback
RECURSIVE RunW(_, _)
RunW(s, n) == IF s.o.pcW = "idle" \/ n = 0 THEN s ELSE RunW(WriteRelF(s), n - 1)
WriteF(s, k) == RunW(WriteBeginF(s, k), 4)

(* ---- the environment and the metadata-only rewrite ---- *)
ExtSetF(s, b) ==
  LET d == s.o.doc IN
  Mut(ClrOut(s), [cas |-> d.cas + 1, body |-> b, del |-> FALSE, ux |-> IF d.del THEN 0 ELSE d.ux],
      IF d.del THEN NoMeta ELSE s.o.meta)                                                            \* a set over a tombstone drops the xattrs
ExtDeleteF(s) == Mut(ClrOut(s), [cas |-> s.o.doc.cas + 1, body |-> 0, del |-> TRUE, ux |-> 0], s.o.meta)   \* system xattrs survive, user xattrs do not
ExtUxF(s, n) == Mut(ClrOut(s), [s.o.doc EXCEPT !.cas = @ + 1, !.ux = n], s.o.meta)
SGMetaF(s) ==
  LET d == s.o.doc  m == s.o.meta  nc == d.cas + 1 IN
  Mut([ClrOut(s) EXCEPT !.h.sq = @ + 1], [d EXCEPT !.cas = nc],
      [m EXCEPT !.seq = s.h.sq + 1, !.ucrc = d.ux, !.mouCas = nc, !.mouPcas = IF m.mouCas # 0 /\ m.mouCas = d.cas THEN m.mouPcas ELSE d.cas])
      \* ResyncDocument: _sync rewritten without expanding _sync.cas / value_crc32c (the user-xattr checksum is refreshed:
      \* the sync function has just been re-run with the current user xattr); _mou.cas expanded
(* three pushed revisions (PutExistingRevWithBody): 1, then its children 2 (loses) and 3 (wins the revision-id comparison), the
   winner pushed last iff nw.  Whichever order: the bucket body is the winner's, the sequence and the version are the last push's *)
ConflictF(s, nw) ==
  LET c == s.o.doc.cas  q == s.h.sq  v == s.h.nv
      r1 == [p |-> 0, body |-> SGBody(91), del |-> FALSE]
      lo == [p |-> 1, body |-> SGBody(92), del |-> FALSE]
      wi == [p |-> 1, body |-> SGBody(93), del |-> FALSE]
      M(cas, body, revs, cur, n) == [has |-> TRUE, syncCas |-> cas, crc |-> body, ucrc |-> 0, revs |-> revs, cur |-> cur, seq |-> q + n,
                                     cv |-> 1000 + v + n, mouCas |-> 0, mouPcas |-> 0]
      D(cas, body) == [cas |-> cas, body |-> body, del |-> FALSE, ux |-> 0]
      s1 == Mut(ClrOut(s), D(c + 1, SGBody(91)), M(c + 1, SGBody(91), <<r1>>, 1, 1))
      s2 == IF nw THEN Mut(s1, D(c + 2, SGBody(92)), M(c + 2, SGBody(92), <<r1, lo>>, 2, 2))
                  ELSE Mut(s1, D(c + 2, SGBody(93)), M(c + 2, SGBody(93), <<r1, wi>>, 2, 2))
      s3 == Mut(s2, D(c + 3, SGBody(93)), M(c + 3, SGBody(93), <<r1, lo, wi>>, 3, 3))
  IN [s3 EXCEPT !.h.sq = q + 3, !.h.nv = v + 3, !.h.cf = TRUE]
CacheF(s, i) == SetOut(s, "acc", IF CacheAccepts(s.h.evs[i], s.o.doc) THEN 1 ELSE 0)

-----------------------------------------------------------------------------
(* ---- ghosts (from logged inputs and the (primed) observable state only) ---- *)
CurRev(m) == m.revs[m.cur]
SettledIn(ob, l, u) ==
  IF ~ob.meta.has THEN l.who = "none" \/ l.del
  ELSE ob.meta.cur \in 1..Len(ob.meta.revs) /\ CurRev(ob.meta).body = l.body /\ CurRev(ob.meta).del = l.del /\ ob.meta.ucrc = u
Settled == SettledIn(o, last, lastUx)
AllIdle(ob) == ob.pcF = "idle" /\ ob.pcG = "idle" /\ ob.pcW = "idle"
PreOf(a, i) == [act |-> a, i |-> i, settled |-> Settled, revs |-> o.meta.revs, seq |-> o.meta.seq, cas |-> o.doc.cas, cv |-> o.meta.cv,
                has |-> o.meta.has, cur |-> o.meta.cur, mouCas |-> o.meta.mouCas, ucrc |-> o.meta.ucrc]
(* captured mutations of this step: only the last one is attributed (intermediate states of a step are not observed) *)
OwnAfter(gw, l2, u2) ==
  LET n == o'.doc.cas - o.doc.cas IN
  evOwn' = evOwn \o [j \in 1..n |-> IF j = n THEN (gw /\ SettledIn(o', l2, u2)) ELSE FALSE]
GhostCommon(a, i, gw, l2, u2) ==
  /\ pre' = PreOf(a, i) /\ last' = l2 /\ lastUx' = u2 /\ OwnAfter(gw, l2, u2)
(* an external set / delete (l2 = the write; the store drops the user xattr with a delete and with a set over a tombstone) *)
GhostExt(l2) ==
  /\ GhostCommon("Ext", 0, FALSE, l2, IF l2.del \/ o.doc.del THEN 0 ELSE lastUx) /\ nExt' = nExt + 1
  /\ dirtyG' = (dirtyG \/ o.pcG # "idle") /\ dirtyW' = (dirtyW \/ o.pcW # "idle")
  /\ UNCHANGED <<nUx, nSG, nMeta, fed, inF, inW>>
GhostExtUx(n) ==
  /\ GhostCommon("Ext", 0, FALSE, last, n) /\ nUx' = nUx + 1
  /\ dirtyG' = (dirtyG \/ o.pcG # "idle") /\ dirtyW' = (dirtyW \/ o.pcW # "idle")
  /\ UNCHANGED <<nExt, nSG, nMeta, fed, inF, inW>>
GhostConflict == /\ GhostCommon("Conflict", 0, TRUE, [who |-> "sg", body |-> SGBody(93), del |-> FALSE], 0)
                 /\ UNCHANGED <<nExt, nUx, nSG, nMeta, fed, inF, inW, dirtyG, dirtyW>>
GhostSGMeta == GhostCommon("SGMeta", 0, TRUE, last, lastUx) /\ nMeta' = nMeta + 1 /\ UNCHANGED <<nExt, nUx, nSG, fed, inF, inW, dirtyG, dirtyW>>
(* a = "Feed" | "FeedBegin" with the delivered event i, or "FeedRel" (the event in flight) *)
GhostFeed(a, i) ==
  LET ev == IF a = "FeedRel" THEN inF ELSE i IN
  /\ GhostCommon(a, ev, TRUE, last, lastUx)
  /\ fed' = (IF o'.pcF = "idle" THEN fed \cup {ev} ELSE fed)
  /\ inF' = (IF o'.pcF = "idle" THEN 0 ELSE ev)
  /\ UNCHANGED <<nExt, nUx, nSG, nMeta, inW, dirtyG, dirtyW>>
GhostCache(i) == GhostCommon("Cache", i, TRUE, last, lastUx) /\ UNCHANGED <<nExt, nUx, nSG, nMeta, fed, inF, inW, dirtyG, dirtyW>>
GhostGet(a) ==
  /\ GhostCommon(a, 0, TRUE, last, lastUx)
  /\ dirtyG' = (IF a = "GetBegin" \/ a = "Get" THEN FALSE ELSE dirtyG)
  /\ UNCHANGED <<nExt, nUx, nSG, nMeta, fed, inF, inW, dirtyW>>
(* a = "Write" | "WriteBegin" (a new request) or "WriteRel" (the request in flight) *)
GhostWrite(a) ==
  LET new == a = "WriteBegin" \/ a = "Write"
      k == IF new THEN nSG + 1 ELSE inW IN
  /\ GhostCommon(a, k, TRUE, IF o'.out.wres = "ok" THEN [who |-> "sg", body |-> SGBody(k), del |-> FALSE] ELSE last, lastUx)
  /\ nSG' = (IF new THEN nSG + 1 ELSE nSG)
  /\ inW' = (IF o'.pcW = "idle" THEN 0 ELSE k)
  /\ dirtyW' = (IF new THEN FALSE ELSE dirtyW)
  /\ UNCHANGED <<nExt, nUx, nMeta, fed, inF, dirtyG>>

-----------------------------------------------------------------------------
Apply(t) == o' = t.o /\ h' = t.h
Step(a, i) == hist' = Append(hist, [a |-> a, i |-> i])
Room == Len(hist) < MaxSteps /\ (Conflicts => h.cf)
ReadWriteIdle == o.pcG = "idle" /\ o.pcW = "idle"

ImplExtSet(b)  == Apply(ExtSetF(St, b))
ImplExtDelete  == Apply(ExtDeleteF(St))
ImplExtUx(n)   == Apply(ExtUxF(St, n))
ImplSGMeta     == Apply(SGMetaF(St))
ImplConflict(nw) == Apply(ConflictF(St, nw))
ImplFeed(i)    == Apply(FeedF(St, i))
ImplFeedBegin(i) == Apply(FeedBeginF(St, i))
ImplFeedRel    == Apply(FeedRelF(St))
ImplCache(i)   == Apply(CacheF(St, i))
ImplGet        == Apply(GetF(St))
ImplGetBegin   == Apply(GetBeginF(St))
ImplGetRel     == Apply(GetRelF(St))
ImplWrite(k)   == Apply(WriteF(St, k))
ImplWriteBegin(k) == Apply(WriteBeginF(St, k))
ImplWriteRel   == Apply(WriteRelF(St))

OKExtSet    == nExt < MaxExt /\ (o.doc.del => ReadWriteIdle)
OKExtDelete == ~h.cf /\ Deletes /\ nExt < MaxExt /\ ~o.doc.del /\ ReadWriteIdle
OKExtUx     == ~h.cf /\ nUx < MaxUx /\ ~o.doc.del /\ ReadWriteIdle
OKSGMeta    == nMeta < MaxMeta /\ o.meta.has /\ ~o.doc.del
OKFeed(i)   == nFeed < MaxFeed /\ o.pcF = "idle" /\ i \in 1..Len(h.evs)
OKCache(i)  == nCache < MaxCache /\ i \in 1..Len(h.evs)
OKGet       == nGet < MaxGet /\ o.pcG = "idle"
OKWrite     == ~h.cf /\ nSG < MaxSG /\ o.pcW = "idle" /\ ~o.doc.del

Conflict(nw) == Conflicts /\ hist = <<>> /\ o.doc.cas = 0 /\ ImplConflict(nw) /\ GhostConflict /\ UNCHANGED cnt /\ Step("Conflict", IF nw THEN 1 ELSE 0)
ExtSet      == Room /\ OKExtSet /\ ImplExtSet(nExt + 1) /\ GhostExt([who |-> "ext", body |-> nExt + 1, del |-> FALSE]) /\ UNCHANGED cnt /\ Step("ExtSet", nExt + 1)
ExtDelete   == Room /\ OKExtDelete /\ ImplExtDelete /\ GhostExt([who |-> "ext", body |-> 0, del |-> TRUE]) /\ UNCHANGED cnt /\ Step("ExtDelete", 0)
ExtUx       == Room /\ OKExtUx /\ ImplExtUx(nUx + 1) /\ GhostExtUx(nUx + 1) /\ UNCHANGED cnt /\ Step("ExtUx", nUx + 1)
SGMeta      == Room /\ OKSGMeta /\ ImplSGMeta /\ GhostSGMeta /\ UNCHANGED cnt /\ Step("SGMeta", 0)
Feed(i)     == Room /\ OKFeed(i) /\ ImplFeed(i) /\ GhostFeed("Feed", i) /\ nFeed' = nFeed + 1 /\ UNCHANGED <<nCache, nGet>> /\ Step("Feed", i)
FeedBegin(i) == Room /\ Split /\ OKFeed(i) /\ ImplFeedBegin(i) /\ GhostFeed("FeedBegin", i) /\ nFeed' = nFeed + 1 /\ UNCHANGED <<nCache, nGet>> /\ Step("FeedBegin", i)
FeedRel     == Room /\ o.pcF = "imp" /\ ImplFeedRel /\ GhostFeed("FeedRel", 0) /\ UNCHANGED cnt /\ Step("FeedRel", 0)
Cache(i)    == Room /\ OKCache(i) /\ ImplCache(i) /\ GhostCache(i) /\ nCache' = nCache + 1 /\ UNCHANGED <<nFeed, nGet>> /\ Step("Cache", i)
Get         == Room /\ OKGet /\ ImplGet /\ GhostGet("Get") /\ nGet' = nGet + 1 /\ UNCHANGED <<nFeed, nCache>> /\ Step("Get", 0)
GetBegin    == Room /\ Split /\ OKGet /\ ImplGetBegin /\ GhostGet("GetBegin") /\ nGet' = nGet + 1 /\ UNCHANGED <<nFeed, nCache>> /\ Step("GetBegin", 0)
GetRel      == Room /\ o.pcG = "imp" /\ ImplGetRel /\ GhostGet("GetRel") /\ UNCHANGED cnt /\ Step("GetRel", 0)
Write       == Room /\ OKWrite /\ ImplWrite(nSG + 1) /\ GhostWrite("Write") /\ UNCHANGED cnt /\ Step("Write", nSG + 1)
WriteBegin  == Room /\ Split /\ OKWrite /\ ImplWriteBegin(nSG + 1) /\ GhostWrite("WriteBegin") /\ UNCHANGED cnt /\ Step("WriteBegin", nSG + 1)
WriteRel    == Room /\ o.pcW # "idle" /\ ImplWriteRel /\ GhostWrite("WriteRel") /\ UNCHANGED cnt /\ Step("WriteRel", h.wl.k)

Next ==
  \/ (\E nw \in BOOLEAN : Conflict(nw))
  \/ ExtSet \/ ExtDelete \/ ExtUx \/ SGMeta \/ Get \/ GetBegin \/ GetRel \/ Write \/ WriteBegin \/ WriteRel \/ FeedRel
  \/ \E i \in 1..Len(h.evs) : Feed(i) \/ FeedBegin(i) \/ Cache(i)
Spec == Init /\ [][Next]_vars

-----------------------------------------------------------------------------
(* C09 - evaluated on the model by MC_Import and on recorded real state by Trace_Import pass P.
   "pre" is the previous state, so these state predicates are the action properties of the statement. *)
ImportActs == {"Feed", "FeedBegin", "FeedRel", "Cache", "Get", "GetBegin", "GetRel"}
WriteActs  == {"Write", "WriteBegin", "WriteRel"}
Revs == o.meta.revs
Grown == IF o.meta.has /\ pre.has /\ Len(Revs) >= Len(pre.revs) /\ SubSeq(Revs, 1, Len(pre.revs)) = pre.revs
         THEN Len(Revs) - Len(pre.revs)                 \* same metadata epoch: revisions added by the step
         ELSE IF o.meta.has /\ ~pre.has THEN Len(Revs) ELSE 0
NewRevs == IF pre.has THEN Len(pre.revs) + 1 .. Len(Revs) ELSE 1..Len(Revs)

(* OwnNeverImported + "redelivered events, repeated reads add nothing" + NoLoop: while the current revision IS the last
   acknowledged write, no delivery to the import listener or the cache and no read creates a revision, consumes a
   sequence, or rewrites the document at all - whichever event is delivered, however stale, however often. *)
SettledStable ==
  (pre.settled /\ pre.act \in ImportActs) =>
     /\ o.doc.cas = pre.cas /\ o.meta.has = pre.has
     /\ (o.meta.has => Revs = pre.revs /\ o.meta.seq = pre.seq /\ o.meta.cur = pre.cur /\ o.meta.ucrc = pre.ucrc)
(* a gateway write on a settled document adds its own revision and nothing else *)
OwnWriteOnly ==
  (pre.settled /\ pre.act \in WriteActs /\ ~dirtyW) =>
     /\ Grown <= 1
     /\ (Grown = 1 => o.out.wres = "ok" /\ CurRev(o.meta).body = last.body /\ last.who = "sg")
(* ImportedOnce: an external write is imported at most once, only while it is the latest, one sequence per import *)
ImportedOnce ==
  /\ o.meta.has => \A i, j \in 1..Len(Revs) : (i # j /\ Revs[i].body = Revs[j].body /\ ~Revs[i].del /\ ~Revs[j].del) => Revs[i].body = 0
  /\ (pre.act \in ImportActs) =>
        /\ Grown <= 1
        /\ (Grown = 1 => last.who = "ext" /\ CurRev(o.meta).body = last.body /\ CurRev(o.meta).del = last.del)
        /\ (o.meta.has /\ pre.has /\ o.meta.seq # pre.seq => (Grown = 1 \/ (o.meta.ucrc # pre.ucrc /\ o.meta.ucrc = lastUx)))
  /\ (pre.act \in WriteActs /\ ~dirtyW) =>
        /\ Grown <= 2
        /\ \A n \in NewRevs : Revs[n].body = last.body \/ (Revs[n].body < 100 /\ ~(\E x \in NewRevs : x # n /\ Revs[x].body < 100))
(* "as a new revision whose parent is the previous current revision" *)
Leaves(rs) == {n \in 1..Len(rs) : ~\E c \in 1..Len(rs) : rs[c].p = n}
ParentIsPrevCur ==
  (o.meta.has /\ Grown >= 1 /\ pre.act # "Conflict") =>
     /\ \A n \in NewRevs : Revs[n].p = (IF n = 1 THEN 0 ELSE IF n = Len(pre.revs) + 1 /\ pre.has THEN pre.cur ELSE n - 1)
     /\ o.meta.cur = Len(Revs)
     /\ (pre.has => Leaves(Revs) = (Leaves(pre.revs) \ {pre.cur}) \cup {Len(Revs)})             \* on a conflicted document: the winner is superseded,
                                                                                               \*   the other branches stay untouched
(* LatestVisible: (a) once the import listener has processed every mutation of the document and nothing is in flight,
   the current revision is the last acknowledged write - with its body, or as a tombstone;  (b) a completed gateway read
   that no external write overlapped shows it *)
AllFed == AllIdle(o) /\ \A i \in 1..Len(evOwn) : i \in fed
LatestVisible ==
  /\ AllFed => Settled
  /\ (pre.act \in {"Get", "GetBegin", "GetRel"} /\ o.pcG = "idle" /\ ~dirtyG /\ last.who # "none") =>
        IF last.del THEN o.out.vst = "gone"
        ELSE Settled /\ o.out.vst = "ok" /\ o.out.vbody = last.body /\ o.out.vrev = o.meta.cur
(* the gateway's own mutation, delivered to the cache while it is still the document's latest mutation, is taken as a gateway write *)
OwnEventCached ==
  (pre.act = "Cache" /\ pre.i = Len(evOwn) /\ evOwn[pre.i]) => o.out.acc = 1
(* version-vector update on import: a revision created by an import carries a version of its own *)
ImportMintsVersion ==
  (pre.act \in ImportActs /\ Grown = 1) => (o.meta.cv # 0 /\ (pre.has => o.meta.cv # pre.cv))
(* named deviation of the transcribed code: an import that follows a metadata-only rewrite of a document carrying an
   un-imported external write finds _mou.cas = cas and keeps the old version *)
X_ImportMintsVersion ==
  (pre.act \in ImportActs /\ Grown = 1) => (o.meta.cv # 0 /\ (pre.has => (o.meta.cv # pre.cv \/ (pre.mouCas # 0 /\ pre.mouCas = pre.cas))))

(* auxiliary (model, pass C) *)
TypeOK ==
  /\ o.doc.cas = Len(h.evs) /\ Len(evOwn) = Len(h.evs)
  /\ o.pcF \in {"idle", "imp"} /\ o.pcG \in {"idle", "imp"} /\ o.pcW \in {"idle", "imp", "put"}
  /\ (o.meta.has => o.meta.cur \in 1..Len(o.meta.revs))
(* the detection is exact: a readable document is recognised as the gateway's own iff it is settled *)
DetectionExact == (o.doc.cas > 0 /\ ~(o.doc.del /\ ~o.meta.has)) => (IsSG(o.doc, o.meta) <=> Settled)
(* the cache takes an event as a gateway write only if it was one *)
CacheSound == (pre.act = "Cache" /\ o.out.acc = 1) => h.evs[pre.i].meta.has
=============================================================================
