CONSTANT MaxExt = 1000000
CONSTANT MaxSG = 1000000
CONSTANT MaxUx = 1000000
CONSTANT MaxMeta = 1000000
CONSTANT MaxFeed = 1000000
CONSTANT MaxCache = 1000000
CONSTANT MaxGet = 1000000
CONSTANT Deletes = TRUE
CONSTANT Split = TRUE
CONSTANT Conflicts = FALSE
CONSTANT MaxSteps = 1000000
SPECIFICATION CSpec
CONSTRAINT CProgress
POSTCONDITION CAccept
CHECK_DEADLOCK FALSE
\* Conformance of every recorded step with the spec action, plus the auxiliary invariants TypeOK, DetectionExact, CacheSound,
\* X_ImportMintsVersion on every conforming state (collected by CProgress)
