\* thorough: the exact skipping policy (count and age thresholds), all thresholds, entries forged older than MaxWait
CONSTANT W = 4
CONSTANT MaxSteps = 5
CONSTANT MaxNums = {0, 1, 2, 100}
CONSTANT Olds = {FALSE, TRUE}
CONSTANT Kinds <- KTwo
CONSTANT Ranges <- RTwo
CONSTANT DocEvs <- DOne
CONSTANT MaxDup = 2
CONSTANT MaxRangeArr = 2
CONSTANT Policy = "exact"
CONSTANT AllowAbandon = TRUE
CONSTANT LegalOnly = FALSE
SPECIFICATION Spec
VIEW view
INVARIANT Once
INVARIANT Delivered
INVARIANT InOrder
INVARIANT HwmSound
INVARIANT SkippedExact
INVARIANT MidNoHiddenGap
INVARIANT LateIsLate
INVARIANT StableExposed
INVARIANT OverdueSkipped
INVARIANT PendingAhead
INVARIANT RecvPending
INVARIANT HcsBehind
INVARIANT StarIsDelivered
INVARIANT SkipCount
INVARIANT SkippedBelow
INVARIANT InOrderAll
INVARIANT TypeOK
CHECK_DEADLOCK FALSE
