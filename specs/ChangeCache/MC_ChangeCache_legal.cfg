\* thorough: legal feeds only, any skipping policy, all three kinds, window of 5, deeper
CONSTANT W = 5
CONSTANT MaxSteps = 7
CONSTANT MaxNums = {0}
CONSTANT Olds = {FALSE}
CONSTANT Kinds <- KAll
CONSTANT Ranges <- RMid
CONSTANT DocEvs <- DFour
CONSTANT MaxDup = 2
CONSTANT MaxRangeArr = 2
CONSTANT Policy = "any"
CONSTANT AllowAbandon = TRUE
CONSTANT LegalOnly = TRUE
SPECIFICATION Spec
VIEW view
INVARIANT Once
INVARIANT Delivered
INVARIANT InOrder
INVARIANT HwmSound
INVARIANT SkippedExact
INVARIANT MidNoHiddenGap
INVARIANT LateIsLate
INVARIANT StableExposed
INVARIANT PendingAhead
INVARIANT RecvPending
INVARIANT HcsBehind
INVARIANT StarIsDelivered
INVARIANT SkipCount
INVARIANT SkippedBelow
INVARIANT InOrderAll
INVARIANT TypeOK
CHECK_DEADLOCK FALSE
