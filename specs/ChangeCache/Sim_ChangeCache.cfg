\* -simulate: unconstrained feeds (duplicates, overlapping declarations) over a window of 7, exact policy, all thresholds
CONSTANT W = 7
CONSTANT MaxSteps = 12
CONSTANT MaxNums = {0, 1, 2, 100}
CONSTANT Olds = {FALSE, TRUE}
CONSTANT Kinds <- KAll
CONSTANT Ranges <- RSim
CONSTANT DocEvs <- DSim
CONSTANT MaxDup = 2
CONSTANT MaxRangeArr = 3
CONSTANT Policy = "exact"
CONSTANT AllowAbandon = TRUE
CONSTANT LegalOnly = FALSE
SPECIFICATION SimSpec
INVARIANT BehaviourExport
CHECK_DEADLOCK FALSE
