--------------------------- MODULE ChangeCache ---------------------------
(* Sequence buffering of the change cache: db/change_cache.go + db/skipped_sequence.go.
   One action per critical section (everything below runs under changeCache.lock):
     Arrive(e)        processEntry            (document / principal / unused-single; five branches)
     ArriveRange      processUnusedRange      (unused range a..b, a < b)
     Doc(d)           DocChanged for one document feed event: unused_sequences, qualifying recent_sequences and the
                      revision itself, each through processEntry (several critical sections; sequential composition)
     Tick             InsertPendingEntries -> _addPendingLogs
     Abandon          CleanSkippedSequenceQueue with every entry older than CacheSkippedSeqMaxWait
   _addPendingLogs / _popPendingLog / _addToCache are the operators DrainSet / PopSet / AddToCache.
   Sequences are offsets from the cache's initialSequence (initial = 0, first expected = 1).

   Policy.  WHEN the cache gives up on a gap is configuration (CachePendingSeqMaxNum, CachePendingSeqMaxWait):
     Policy = "any"    a gap may be skipped at every loop iteration of _addPendingLogs, or not (the safety
                       invariants are proved for every skipping policy);
     Policy = "exact"  skip iff  len(pending) > maxNum  or the head entry is `old` (TimeReceived older than
                       MaxWait - the age is an input flag of the entry).
   WHAT is recorded when skipping is exact in both:  skipped' = skipped \cup next..head-1, next' = head.

   Environment: unconstrained (any order, duplicates, overlapping declarations).  The ghost `legal` says
   whether the declarations seen so far are consistent (every sequence is covered by ONE event identity:
   a document, a principal, an unused single or one unused range; redelivery of the same event is legal).
   The exactness half of SkippedExact (skipped \subseteq missing) is demanded for legal feeds; everything else
   for all feeds (no-loss for every document arrival that was live, see LiveAt).
   Impl* conjuncts define implementation variables, Ghost* the history variables (they may read out').
   Decides C08. *)
EXTENDS Integers, Sequences, FiniteSets, TLC

CONSTANTS W,            \* window: sequences 1..W
          MaxSteps,     \* bound on behaviour length
          MaxNums,      \* values of CachePendingSeqMaxNum explored
          Olds,         \* subset of BOOLEAN: may an arriving entry already be older than MaxWait
          Kinds,        \* subset of {"doc","princ","unused"}
          Ranges,       \* set of <<a,b>>, a < b : unused ranges the feed may declare
          DocEvs,       \* set of [seq, unused, recent] : document feed events with unused_sequences / recent_sequences (DocChanged level)
          MaxDup,       \* a sequence arrives at most this many times as a single event
          MaxRangeArr,  \* total number of range arrivals
          Policy,       \* "any" | "exact"
          AllowAbandon, \* BOOLEAN
          LegalOnly     \* BOOLEAN: restrict the environment to legal feeds (steering of generators; FALSE = unconstrained)

Win == 1..W
NoOwner == [k |-> "none", a |-> 0, b |-> 0]

VARIABLES next, pending, received, skipped, hcs, stable, nsk, out, star, lls,   \* implementation (see Trace_ChangeCache for the projection)
          maxNum,                                                            \* configuration of this behaviour
          owner, legal, docArr, docLive, cnt, rcnt, delivered, hiNL, ordOK, phantom, midOK, abandoned, lateSet, lateDoc, lastKind,  \* ghosts
          hist
impl  == <<next, pending, received, skipped, hcs, stable, nsk, out, star, lls>>
ghost == <<maxNum, owner, legal, docArr, docLive, cnt, rcnt, delivered, hiNL, ordOK, phantom, midOK, abandoned, lateSet, lateDoc, lastKind>>
vars  == <<impl, ghost, hist>>
view  == <<impl, ghost>>

-----------------------------------------------------------------------------
Max(a, b) == IF a > b THEN a ELSE b
SetMin(S) == CHOOSE x \in S : \A y \in S : x <= y
InSeq(sq, x) == \E i \in 1..Len(sq) : sq[i] = x
RECURSIVE InsSorted(_, _)
InsSorted(sq, x) == IF sq = <<>> THEN <<x>>
                    ELSE IF x < Head(sq) THEN <<x>> \o sq ELSE <<Head(sq)>> \o InsSorted(Tail(sq), x)

(* pending heap = bag of entries [seq, end, kind, old]; end = 0 for a single sequence (LogEntry.EndSequence) *)
EmptyBag == [x \in {} |-> 0]
BagAdd(B, e) == IF e \in DOMAIN B THEN [B EXCEPT ![e] = @ + 1] ELSE [x \in DOMAIN B \cup {e} |-> IF x = e THEN 1 ELSE B[x]]
BagRemove(B, e) == IF B[e] > 1 THEN [B EXCEPT ![e] = @ - 1] ELSE [x \in DOMAIN B \ {e} |-> B[x]]
RECURSIVE SumOver(_, _)
SumOver(B, S) == IF S = {} THEN 0 ELSE LET x == CHOOSE x \in S : TRUE IN B[x] + SumOver(B, S \ {x})
BagSize(B) == SumOver(B, DOMAIN B)
MinEntries(B) == {e \in DOMAIN B : \A f \in DOMAIN B : e.seq <= f.seq}     \* candidates for heap top (ties are unordered)
IsRange(e) == e.kind = "unused" /\ e.end > 0

Cur == [next |-> next, pend |-> pending, recv |-> received, skip |-> skipped, hcs |-> hcs,
        out |-> <<>>, star |-> star, lls |-> lls]

(* _addToCache: advance next, forget the received mark, forward to the channel cache.
   The skipped list and the channel cache have their own locks and are read by _changes without changeCache.lock
   (changes.go: getOldestSkippedSequence -> lowSequence), so the states INSIDE a critical section are observable through
   them.  Every forward therefore records the skipped set and the high cache sequence of that instant (sk, hcs): the
   order "forward to the channel cache, THEN remove from skipped" of the late-arrival branch and "PushSkipped, THEN
   advance/forward" of _addPendingLogs is part of the specification (MidNoHiddenGap). *)
AddToCache(st, e, late) ==
  LET n1 == IF e.seq >= st.next THEN e.seq + 1 ELSE st.next
      n2 == IF e.end # 0 THEN e.end + 1 ELSE n1
      hi == IF e.kind = "unused" /\ e.end > 0 THEN e.end ELSE e.seq
  IN [st EXCEPT !.next = n2, !.recv = @ \ {e.seq}, !.hcs = Max(@, hi),
                !.out  = Append(@, [seq |-> e.seq, end |-> e.end, kind |-> e.kind, late |-> late,
                                    sk |-> st.skip, hcs |-> st.hcs]),   \* what a reader WITHOUT c.lock sees at this instant
                !.star = IF e.kind = "doc" THEN InsSorted(@, e.seq) ELSE @,
                !.lls  = IF e.kind = "doc" /\ late THEN e.seq ELSE @]

(* _popPendingLog with heap top h: the three overlap cases of an unused range against the next entry *)
RECURSIVE PopSet(_, _)
PopSet(B, h) ==
  LET B1 == BagRemove(B, h) IN
  IF ~IsRange(h) \/ DOMAIN B1 = {} THEN {[e |-> h, pend |-> B1]}
  ELSE UNION { IF h.end < n.seq THEN {[e |-> h, pend |-> B1]}
               ELSE IF h.seq = n.seq THEN PopSet(B1, n)
               ELSE {[e |-> [h EXCEPT !.end = n.seq - 1], pend |-> B1]} : n \in MinEntries(B1) }

Over(st, h) == BagSize(st.pend) > maxNum \/ h.old
MaySkip(st, h)  == Policy = "any" \/ Over(st, h)
MustSkip(st, h) == Policy = "exact" /\ Over(st, h)

(* the _addPendingLogs loop; the set of possible final states *)
RECURSIVE DrainSet(_)
DrainSet(st) ==
  IF DOMAIN st.pend = {} THEN {st}
  ELSE UNION {
    IF h.seq = st.next THEN
       UNION { DrainSet(AddToCache([st EXCEPT !.pend = p.pend], p.e, FALSE)) : p \in PopSet(st.pend, h) }
    ELSE IF h.seq < st.next THEN
       UNION { DrainSet([st EXCEPT !.pend = p.pend,
                                   !.next = IF IsRange(p.e) /\ p.e.end >= st.next THEN p.e.end + 1 ELSE @])
               : p \in PopSet(st.pend, h) }
    ELSE (IF MaySkip(st, h)
            THEN DrainSet([st EXCEPT !.skip = @ \cup (st.next..(h.seq - 1)), !.next = h.seq])   \* PushSkipped(next, head-1)
            ELSE {})
         \cup (IF MustSkip(st, h) THEN {} ELSE {st})
    : h \in MinEntries(st.pend) }

StableOf(sk, nx) == IF sk # {} THEN SetMin(sk) - 1 ELSE nx - 1      \* _getMaxStableCached
SetImpl(r) == /\ next' = r.next /\ pending' = r.pend /\ received' = r.recv /\ skipped' = r.skip
              /\ hcs' = r.hcs /\ out' = r.out /\ star' = r.star /\ lls' = r.lls
              /\ stable' = StableOf(r.skip, r.next) /\ nsk' = Cardinality(r.skip)

(* processEntry from state st0; sk = the caller already marked the entry Skipped (DocChanged, recent_sequences) *)
ArriveFrom(st0, e, sk) ==
  IF e.seq < st0.next /\ ~sk /\ e.seq \notin st0.skip THEN {st0}  \* duplicate of a processed sequence
  ELSE IF e.seq \in st0.recv THEN {st0}                          \* duplicate of a pending sequence
  ELSE LET st1 == [st0 EXCEPT !.recv = @ \cup {e.seq}] IN
       IF e.seq = st0.next THEN DrainSet(AddToCache(st1, e, sk))
       ELSE IF e.seq > st0.next THEN
            LET st2 == [st1 EXCEPT !.pend = BagAdd(@, e)] IN
            IF Policy = "any" \/ BagSize(st2.pend) > maxNum THEN DrainSet(st2) ELSE {st2}
       ELSE {[AddToCache(st1, e, TRUE) EXCEPT !.skip = @ \ {e.seq}]}   \* late arrival: cache, then RemoveSkipped
ArriveSet(e) == ArriveFrom(Cur, e, FALSE)

(* DocChanged: d = [seq, unused, recent, old] *)
Sub(q, k, o) == [seq |-> q, end |-> 0, kind |-> k, old |-> o]
CurrentSeq(d) == IF Len(d.unused) > 0 THEN d.unused[1] ELSE d.seq
RECURSIVE UnusedFold(_, _, _)
UnusedFold(S, d, i) ==
  IF i > Len(d.unused) THEN S
  ELSE UnusedFold(UNION {ArriveFrom(st, Sub(d.unused[i], "unused", d.old), FALSE) : st \in S}, d, i + 1)
RECURSIVE RecentFold(_, _, _, _)
RecentFold(S, d, snap, i) ==          \* snap = nextSequence read once before the loop; WasSkipped is read per element
  IF i > Len(d.recent) THEN S
  ELSE LET r == d.recent[i] IN
       RecentFold(UNION { LET isSk == r < CurrentSeq(d) /\ r < snap /\ r \in st.skip IN
                          IF (r >= snap /\ r < CurrentSeq(d)) \/ isSk THEN ArriveFrom(st, Sub(r, "unused", d.old), isSk) ELSE {st}
                          : st \in S }, d, snap, i + 1)
DocSet(d) ==
  UNION { UNION { ArriveFrom(st2, Sub(d.seq, "doc", d.old), FALSE) : st2 \in RecentFold({st1}, d, st1.next, 1) }
          : st1 \in UnusedFold({Cur}, d, 1) }

(* processUnusedRange *)
RangeSet(e) ==
  LET st0 == Cur IN
  IF e.end < next THEN {[st0 EXCEPT !.skip = @ \ (e.seq..e.end)]}
  ELSE IF e.seq >= next THEN DrainSet([st0 EXCEPT !.pend = BagAdd(@, e)])
  ELSE {st0}                                                      \* straddles next: ignored, as coded

ImplArrive(e)      == \E r \in ArriveSet(e) : SetImpl(r)
ImplArriveRange(e) == \E r \in RangeSet(e) : SetImpl(r)
ImplDoc(d)         == \E r \in DocSet(d) : SetImpl(r)
ImplTick           == \E r \in DrainSet(Cur) : SetImpl(r)
ImplAbandon        == SetImpl([Cur EXCEPT !.skip = {}])

-----------------------------------------------------------------------------
(* ghosts *)
Ident(e) == IF e.end > 0 THEN [k |-> "range", a |-> e.seq, b |-> e.end] ELSE [k |-> e.kind, a |-> e.seq, b |-> e.seq]
Cover(e) == (IF e.end > 0 THEN e.seq..e.end ELSE {e.seq}) \cap Win

HiOf(d) == IF d.kind = "unused" /\ d.end > 0 THEN d.end ELSE d.seq
(* the lock-free view at one instant: skipped set sk, every sequence up to H is in the channel cache's range;
   g = what the feed has declared (owner), which document arrivals are live, del = forwards so far *)
MidOK(sk, H, del, g) ==
  \A s \in 1..H : \/ s \in sk \/ s \in abandoned
                   \/ (s \in Win /\ g.owner[s] # NoOwner /\ (s \in g.live => del[s] >= 1))
RECURSIVE FoldOut(_, _, _, _)
FoldOut(o, i, g, acc) ==          \* forwards of this call, in call order
  IF i > Len(o) THEN acc
  ELSE LET d    == o[i]
           isd  == d.kind = "doc"
           del1 == IF isd /\ d.seq \in Win THEN [acc.del EXCEPT ![d.seq] = @ + 1] ELSE acc.del
       IN FoldOut(o, i + 1, g,
              [del |-> del1,
               hi  |-> IF isd /\ ~d.late THEN Max(acc.hi, d.seq) ELSE acc.hi,
               ok  |-> acc.ok /\ (~isd \/ d.late \/ d.seq > acc.hi),
               ph  |-> acc.ph \/ (isd /\ d.seq \notin g.docArr),
               mid |-> /\ acc.mid
                       /\ MidOK(d.sk, d.hcs, acc.del, g)                    \* just before the channel cache takes it
                       /\ MidOK(d.sk, Max(d.hcs, HiOf(d)), del1, g)])       \* just after, before the change cache goes on
GhostOut(da, ow, dl) ==
  LET r == FoldOut(out', 1, [docArr |-> da, owner |-> ow, live |-> dl],
                   [del |-> delivered, hi |-> hiNL, ok |-> ordOK, ph |-> phantom, mid |-> midOK]) IN
  delivered' = r.del /\ hiNL' = r.hi /\ ordOK' = r.ok /\ phantom' = r.ph /\ midOK' = r.mid

Compat(o, id) == o = NoOwner \/ o = id \/ (o.a = id.a /\ o.b = id.b /\ {o.k, id.k} \subseteq {"doc", "recent"})
GApply(g, e) ==                   \* what the feed has declared so far (pure; also folded over batches)
  LET id == Ident(e) IN
  [legal  |-> g.legal /\ \A s \in Cover(e) : Compat(g.owner[s], id),
   owner  |-> [s \in Win |-> IF s \in Cover(e) /\ g.owner[s] = NoOwner THEN id ELSE g.owner[s]],
   docArr |-> IF e.kind = "doc" THEN g.docArr \cup {e.seq} ELSE g.docArr]
GCur == [legal |-> legal, owner |-> owner, docArr |-> docArr]
(* a document arrival is LIVE if its sequence has not been consumed already (by an earlier delivery, a conflicting unused
   declaration, or abandonment) and no other declaration of it is waiting in pending: only live arrivals must be forwarded *)
LiveAt(q) == (q >= next \/ q \in skipped) /\ q \notin received
GhostEvent(e, lateS) ==
  LET g == GApply(GCur, e) IN
  /\ legal' = g.legal /\ owner' = g.owner /\ docArr' = g.docArr
  /\ lateSet' = lateS /\ lateDoc' = (IF e.kind = "doc" THEN lateS ELSE {}) /\ lastKind' = e.kind
  /\ docLive' = (IF e.kind = "doc" /\ e.end = 0 /\ LiveAt(e.seq) THEN docLive \cup {e.seq} ELSE docLive)
  /\ GhostOut(g.docArr, g.owner, docLive')
  /\ UNCHANGED <<maxNum, abandoned>>
GhostArrive(e) == /\ GhostEvent(e, IF e.seq \in skipped THEN {e.seq} ELSE {})
                  /\ cnt' = [s \in Win |-> IF s = e.seq THEN cnt[s] + 1 ELSE cnt[s]] /\ rcnt' = rcnt
GhostArriveRange(e) == /\ GhostEvent(e, IF e.end < next THEN (e.seq..e.end) \cap skipped ELSE {})
                       /\ rcnt' = rcnt + 1 /\ cnt' = cnt
(* a document event declares: its unused_sequences (unused), the older sequences of the same document in
   recent_sequences (superseded revisions - the feed may have deduplicated them), and the revision itself *)
RECURSIVE GFold(_, _, _, _)
GFold(g, sq, k, i) == IF i > Len(sq) THEN g ELSE GFold(GApply(g, Sub(sq[i], k, FALSE)), sq, k, i + 1)
OlderRecent(d) == SelectSeq(d.recent, LAMBDA r : r < CurrentSeq(d))
SeqSet(sq) == {sq[i] : i \in 1..Len(sq)}
GhostDoc(d) ==
  LET g == GApply(GFold(GFold(GCur, d.unused, "unused", 1), OlderRecent(d), "recent", 1), Sub(d.seq, "doc", FALSE)) IN
  /\ legal' = g.legal /\ owner' = g.owner /\ docArr' = g.docArr
  /\ docLive' = (IF g.legal /\ LiveAt(d.seq) THEN docLive \cup {d.seq} ELSE docLive)   \* sub-entries run first: judged for legal feeds only
  /\ lateSet' = (SeqSet(d.unused) \cup SeqSet(OlderRecent(d)) \cup {d.seq}) \cap skipped
  /\ lateDoc' = {d.seq} \cap skipped /\ lastKind' = "doc"
  /\ GhostOut(g.docArr, g.owner, docLive')
  /\ cnt' = [s \in Win |-> IF s = d.seq THEN cnt[s] + 1 ELSE cnt[s]] /\ rcnt' = rcnt
  /\ UNCHANGED <<maxNum, abandoned>>
GhostTick    == /\ GhostOut(docArr, owner, docLive) /\ lateSet' = {} /\ lateDoc' = {} /\ lastKind' = "tick"
                /\ UNCHANGED <<maxNum, owner, legal, docArr, docLive, cnt, rcnt, abandoned>>
GhostAbandon == /\ abandoned' = abandoned \cup skipped /\ GhostOut(docArr, owner, docLive) /\ lateSet' = {} /\ lateDoc' = {} /\ lastKind' = "abandon"
                /\ UNCHANGED <<maxNum, owner, legal, docArr, docLive, cnt, rcnt>>

Step(a, e) == hist' = Append(hist, [a |-> a, seq |-> e.seq, end |-> e.end, kind |-> e.kind, old |-> e.old, unused |-> <<>>, recent |-> <<>>])
NoEntry == [seq |-> 0, end |-> 0, kind |-> "", old |-> FALSE]

Arrive(e)      == ImplArrive(e) /\ GhostArrive(e) /\ Step("Arrive", e)
ArriveRange(e) == ImplArriveRange(e) /\ GhostArriveRange(e) /\ Step("Range", e)
Doc(d)         == /\ ImplDoc(d) /\ GhostDoc(d)
                  /\ hist' = Append(hist, [a |-> "Doc", seq |-> d.seq, end |-> 0, kind |-> "doc", old |-> d.old, unused |-> d.unused, recent |-> d.recent])
Tick           == ImplTick /\ GhostTick /\ Step("Tick", NoEntry)
Abandon        == ImplAbandon /\ GhostAbandon /\ Step("Abandon", NoEntry)

InitImpl == /\ next = 1 /\ pending = EmptyBag /\ received = {} /\ skipped = {} /\ hcs = 0 /\ stable = 0 /\ nsk = 0
            /\ out = <<>> /\ star = <<>> /\ lls = 0
InitGhost == /\ owner = [s \in Win |-> NoOwner] /\ legal = TRUE /\ docArr = {} /\ docLive = {} /\ cnt = [s \in Win |-> 0] /\ rcnt = 0
             /\ delivered = [s \in Win |-> 0] /\ hiNL = 0 /\ ordOK = TRUE /\ phantom = FALSE /\ midOK = TRUE /\ abandoned = {}
             /\ lateSet = {} /\ lateDoc = {} /\ lastKind = "init"
Init == InitImpl /\ InitGhost /\ maxNum \in MaxNums /\ hist = <<>>

Next ==
  /\ Len(hist) < MaxSteps
  /\ \/ \E s \in Win, k \in Kinds, o \in Olds : cnt[s] < MaxDup /\ Arrive([seq |-> s, end |-> 0, kind |-> k, old |-> o])
     \/ \E r \in Ranges, o \in Olds : rcnt < MaxRangeArr /\ ArriveRange([seq |-> r[1], end |-> r[2], kind |-> "unused", old |-> o])
     \/ \E d \in DocEvs, o \in Olds : cnt[d.seq] < MaxDup /\ Doc([seq |-> d.seq, unused |-> d.unused, recent |-> d.recent, old |-> o])
     \/ DOMAIN pending # {} /\ Tick
     \/ AllowAbandon /\ skipped # {} /\ Abandon
  /\ LegalOnly => legal'
Spec == Init /\ [][Next]_vars

-----------------------------------------------------------------------------
(* C08 - the property statement *)
Arr(s) == s \in Win /\ owner[s] # NoOwner                    \* arrived, or declared unused (single or by range)
Missing == {s \in 1..(next - 1) : ~Arr(s) /\ s \notin abandoned}
PendingSeqs == {e.seq : e \in {x \in DOMAIN pending : x.kind = "doc"}}

Once == /\ \A s \in Win : delivered[s] <= 1                  \* forwarded to the channel cache at most once ...
        /\ \A i \in 1..(Len(star) - 1) : star[i] < star[i + 1]   \* ... and visible once in the all-documents channel
        /\ ~phantom                                          \* nothing is forwarded that did not arrive
Delivered ==                                                 \* ... and not lost: forwarded and visible, or still waiting for its gap
  \A s \in docLive : (s \in Win /\ delivered[s] >= 1 /\ InSeq(star, s)) \/ s \in PendingSeqs
InOrder == ordOK                                             \* non-late forwards are in increasing sequence order
HwmSound == \A s \in 1..(next - 1) : Arr(s) \/ s \in skipped \/ s \in abandoned
NoHiddenGap == Missing \subseteq skipped
(* ... also at every instant INSIDE a call that a reader without c.lock can observe (skipped list + channel cache): below
   the high cache sequence every sequence is in skipped, or declared unused / arrived and - if it is a live document -
   already in the channel cache.  A late sequence being forwarded is still in skipped until after it is in the cache;
   a gap is in skipped before anything beyond it is forwarded.  ("until then changes responses expose the last
   contiguous sequence so that a client resuming from it cannot miss the late arrival") *)
MidNoHiddenGap == midOK
SkippedExact == NoHiddenGap /\ (legal => skipped \subseteq Missing)
LateIsLate == /\ lateSet \cap skipped = {}
              /\ \A s \in lateDoc :
                     /\ \E i \in 1..Len(out) : out[i].seq = s /\ out[i].late /\ out[i].kind = "doc"
                     /\ InSeq(star, s) /\ lls = s
StableExposed == stable = IF skipped # {} THEN SetMin(skipped) - 1 ELSE next - 1
OverdueSkipped ==                                            \* overdue gaps are given up on (tracked as skipped), by count and by age:
  Policy = "exact" =>
    /\ BagSize(pending) <= maxNum                            \* more waiting entries than configured are never left behind
    /\ lastKind = "tick" => (DOMAIN pending = {} \/ \E h \in MinEntries(pending) : ~h.old)   \* a sweep leaves no gap whose head waited > MaxWait

(* auxiliary / design invariants *)
PendingAhead == \A e \in DOMAIN pending : e.seq > next
RecvPending == legal => received = {e.seq : e \in {x \in DOMAIN pending : x.end = 0}}
HcsBehind == hcs < next
StarIsDelivered == \A s \in Win : delivered[s] >= 1 <=> InSeq(star, s)
SkipCount == nsk = Cardinality(skipped)
SkippedBelow == \A s \in skipped : s < next
InOrderAll == \A i \in 1..(Len(out) - 1) : (~out[i].late /\ ~out[i + 1].late) => out[i].seq < out[i + 1].seq
TypeOK == /\ next \in 1..(W + 1) /\ received \subseteq Win /\ skipped \subseteq Win /\ hcs \in 0..W
          /\ \A e \in DOMAIN pending : e.seq \in Win /\ e.end \in {0} \cup Win /\ pending[e] >= 1
=============================================================================
