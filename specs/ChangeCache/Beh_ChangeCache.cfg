\* (also the exhaustive check of the exact policy on this instance: all invariants listed)
\* every behaviour of length 5 of a tiny instance (exact policy): 4 sequences, documents + one unused range, each event once
CONSTANT W = 4
CONSTANT MaxSteps = 5
CONSTANT MaxNums = {0, 1, 100}
CONSTANT Olds = {FALSE}
CONSTANT Kinds <- KDoc
CONSTANT Ranges <- RSmall
CONSTANT DocEvs = {}
CONSTANT MaxDup = 1
CONSTANT MaxRangeArr = 1
CONSTANT Policy = "exact"
CONSTANT AllowAbandon = FALSE
CONSTANT LegalOnly = FALSE
SPECIFICATION Spec
INVARIANT BehaviourExport
INVARIANT Once
INVARIANT Delivered
INVARIANT InOrder
INVARIANT HwmSound
INVARIANT SkippedExact
INVARIANT MidNoHiddenGap
INVARIANT LateIsLate
INVARIANT StableExposed
INVARIANT OverdueSkipped
INVARIANT PendingAhead
INVARIANT RecvPending
INVARIANT HcsBehind
INVARIANT StarIsDelivered
INVARIANT SkipCount
INVARIANT SkippedBelow
INVARIANT InOrderAll
INVARIANT TypeOK
CHECK_DEADLOCK FALSE
